#!/usr/bin/env python3
"""Flip listed findings to status fixed. usage: markfixed.py <repo> '<subject regex>=<class>[,<class>...]' ...
The commit is the newest commit of <repo> whose subject matches the regex; every (property, class) entry of
known_findings.json with one of the classes becomes
  status: fixed, commit: <hash>, line: "fixed: property=<id> <hash12> <what failed>"
(the witness is kept: a fixed entry suppresses nothing, it documents what used to fail)."""
import sys, os, json, re, subprocess
ROOT = os.path.dirname(os.path.dirname(os.path.abspath(__file__)))
repo = sys.argv[1]
log = subprocess.run(['git', '-C', repo, 'log', '--format=%H %s', '-n', '80'], stdout=subprocess.PIPE, text=True, check=True).stdout.splitlines()
p = os.path.join(ROOT, 'known_findings.json')
kf = json.load(open(p))
n = 0
for arg in sys.argv[2:]:
    rx, classes = arg.rsplit('=', 1)
    classes = classes.split(',')
    hits = [l.split(' ', 1)[0] for l in log if l.split(' ', 1)[1].startswith('fix:') and re.search(rx, l.split(' ', 1)[1])]
    assert hits, 'no fix: commit matches ' + rx
    h = hits[0]
    found = set()
    for k in kf['findings']:
        if k['class'] in classes:
            k['status'] = 'fixed'
            k['commit'] = h
            k['line'] = 'fixed: property=%s %s %s' % (k['property'], h[:12], k['fails'])
            found.add(k['class']); n += 1
    missing = set(classes) - found
    assert not missing, 'classes not listed: %r' % missing
json.dump(kf, open(p, 'w'), indent=1)
print('marked', n, 'entries fixed')
