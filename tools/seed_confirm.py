#!/usr/bin/env python3
"""Confirm a seeded change: demo passes without it, fails with it, baseline stable_pass tests still pass with it.
   usage: seed_confirm.py <seed dir with patch.diff demo_test.go> [--skip-baseline]"""
import sys, os, json, subprocess, shutil, tempfile
d = os.path.abspath(sys.argv[1])
skip = '--skip-baseline' in sys.argv
env = dict(os.environ, GOFLAGS='-mod=mod', GOPROXY='off', GOSUMDB='off', GOTOOLCHAIN='local')
wt = tempfile.mkdtemp(prefix='confirm-', dir='/tmp/wt')
os.rmdir(wt)
def sh(cmd, **kw): return subprocess.run(cmd, shell=True, env=env, stdout=subprocess.PIPE, stderr=subprocess.STDOUT, text=True, **kw)
import re
names = re.findall(r'^func (Test\w+)\(', open(os.path.join(d, 'demo_test.go')).read(), flags=re.M)
RUN = '^(' + '|'.join(names) + ')$'
res = dict(dir=d, tests=names)
try:
    r = sh('git -C /repo worktree add -q --detach %s HEAD' % wt); assert r.returncode == 0, r.stdout
    shutil.copy(os.path.join(d, 'demo_test.go'), os.path.join(wt, 'sugardb', 'zz_demo_test.go'))
    r = sh('go test -vet=off -count=1 -run "%s" ./sugardb/ 2>&1 | tail -15' % RUN, cwd=wt)
    res['demo_pristine_pass'] = ('\nok' in '\n' + r.stdout or r.stdout.startswith('ok')) and 'FAIL' not in r.stdout
    res['demo_pristine_out'] = r.stdout[-400:]
    r = sh('git apply %s' % os.path.join(d, 'patch.diff'), cwd=wt); assert r.returncode == 0, r.stdout
    r = sh('go test -vet=off -count=1 -run "%s" ./sugardb/ 2>&1 | tail -25' % RUN, cwd=wt)
    res['demo_patched_fail'] = 'FAIL' in r.stdout
    res['demo_patched_out'] = r.stdout[-600:]
    os.remove(os.path.join(wt, 'sugardb', 'zz_demo_test.go'))
    r = sh('go build ./sugardb/... ./internal/... 2>&1 | grep -v "function main is undeclared\\|^#" | head', cwd=wt)
    res['build_out'] = r.stdout.strip()
    if not skip:
        base = json.load(open('/root/.vp/BASELINE.json'))
        want = set(base['stable_pass'])
        r = sh('go test -json -vet=off -count=1 -timeout 25m ./... 2>/dev/null', cwd=wt)
        passed = set()
        for l in r.stdout.split('\n'):
            if l.startswith('{'):
                try: e = json.loads(l)
                except Exception: continue
                if e.get('Action') == 'pass' and e.get('Test'):
                    passed.add('%s::%s' % (e['Package'], e['Test']))
        missing = sorted(want - passed)
        res['baseline_missing'] = missing[:20]
        res['baseline_ok'] = not missing
finally:
    sh('git -C /repo worktree remove --force %s' % wt)
json.dump(res, open(os.path.join(d, 'confirm.json'), 'w'), indent=1)
print(json.dumps({k: v for k, v in res.items() if not k.endswith('_out')}))
