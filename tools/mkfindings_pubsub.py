#!/usr/bin/env python3
"""C18 findings: hand-written minimal witnesses (deterministic schedules), each validated by replaying it on the
implementation (last block must be spec-rejected with exactly that class), merged into known_findings.json."""
import sys, os, json, shutil
ROOT = os.path.dirname(os.path.dirname(os.path.abspath(__file__)))
sys.path.insert(0, os.path.join(ROOT, 'lib'))
import vlib


def hx(s):
    return s.encode('latin1').hex()


def c(conn, *cmd):
    return dict(conn=conn, cmd=[hx(a) for a in cmd])


def one(conn, *cmd):
    return dict(mode='seq', cmds=[c(conn, *cmd)])


def blk(mode, *cmds):
    return dict(mode=mode, cmds=list(cmds))


W = {
    'subscribe-count-is-argument-position': [one(1, 'SUBSCRIBE', 'a'), one(1, 'SUBSCRIBE', 'b')],
    'subscribe-name-collision-joins-other-kind': [one(1, 'SUBSCRIBE', 'a*'), one(2, 'PSUBSCRIBE', 'a*')],
    'unsubscribe-ignores-subscription-kind': [one(1, 'PSUBSCRIBE', 'a*'), one(1, 'UNSUBSCRIBE', 'a*')],
    'punsubscribe-drops-matching-subscriptions': [one(1, 'SUBSCRIBE', 'ab'), one(1, 'PUNSUBSCRIBE', 'a*')],
    'unsubscribe-count-is-ordinal': [one(1, 'SUBSCRIBE', 'a', 'b', 'c'), one(1, 'UNSUBSCRIBE', 'a')],
    'numsub-counts-pattern-subscribers': [one(1, 'PSUBSCRIBE', 'a*'), one(0, 'PUBSUB', 'NUMSUB', 'a*')],
    'overlapping-subscriptions-deliver-per-subscription': [one(1, 'SUBSCRIBE', 'ab'), one(1, 'PSUBSCRIBE', 'a*'), one(0, 'PUBLISH', 'ab', 'm1')],
    'subscription-change-races-inflight-message': [one(1, 'SUBSCRIBE', 'a'), blk('held', c(0, 'PUBLISH', 'a', 'm1'), c(2, 'SUBSCRIBE', 'a'))],
    'concurrent-writers-reorder-messages': [one(1, 'SUBSCRIBE', 'a'), blk('heldrev', c(0, 'PUBLISH', 'a', 'm1'), c(0, 'PUBLISH', 'a', 'm2'))],
    'malformed-pattern-panics': [one(1, 'PSUBSCRIBE', '[')],
    'lone-wildcard-pattern-matches-empty-name': [one(1, 'PSUBSCRIBE', '?'), one(0, 'PUBLISH', '', 'm1')],
}


def render(o):
    return '%s{ %s }' % ('' if o['mode'] == 'seq' else o['mode'] + ' ',
                         '; '.join(' '.join(bytes.fromhex(a).decode('latin1') or '""' for a in x['cmd']) + ' @conn%d' % x['conn'] for x in o['cmds']))


def main():
    cx = vlib.Ctx(ROOT)
    desc = json.load(open(os.path.join(ROOT, 'findings', 'descriptions.json')))
    owners = json.load(open(os.path.join(ROOT, 'findings', 'owners.json')))
    work = os.path.join(ROOT, '.work', 'mkps-%d' % os.getpid())
    os.makedirs(work, exist_ok=True)
    out = []
    ok = True
    for i, cls in enumerate(owners['C18']):
        seq = dict(id='k%d' % i, ops=W[cls])
        rows = vlib.replay_seq(cx, work, 'pubsub', seq, 'k')
        last = rows[-1]
        v, got = last['f'].get('ps'), last['f'].get('scls')
        if not (v or '').startswith('rej') or got != cls or last['model'] != 'OK':
            print('WITNESS DOES NOT REPRODUCE', cls, v, got, last['model'], last['detail'][:200], file=sys.stderr)
            ok = False
            continue
        d = desc[cls]
        out.append(dict(property='C18', **{'class': cls}, status='known', fails=d['fails'], spec=d['spec'], site=d['site'],
                        witness=dict(suite='pubsub', seq=seq, readable=[render(o) for o in seq['ops']],
                                     observed=dict(reply=last['kind'] + ':' + repr(last['payload'][:60]), verdict=v))))
    shutil.rmtree(work, ignore_errors=True)
    if not ok:
        return 1
    p = os.path.join(ROOT, 'known_findings.json')
    k = json.load(open(p))
    k['findings'] = [f for f in k['findings'] if f['property'] != 'C18'] + out
    json.dump(k, open(p, 'w'), indent=1)
    print('wrote', len(out), 'C18 findings')
    return 0


if __name__ == '__main__':
    sys.exit(main())
