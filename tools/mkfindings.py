#!/usr/bin/env python3
"""(Re)build known_findings.json from findings/descriptions.json, findings/owners.json and fresh witnesses."""
import sys, os, json, subprocess
ROOT = os.path.dirname(os.path.dirname(os.path.abspath(__file__)))
desc = json.load(open(os.path.join(ROOT, 'findings', 'descriptions.json')))
owners = json.load(open(os.path.join(ROOT, 'findings', 'owners.json')))   # property -> [classes]
props = sorted(owners)
only = [a for a in sys.argv[1:] if a in owners]
if only:
    props = only
w = json.loads(subprocess.run([sys.executable, os.path.join(ROOT, 'tools', 'mkwitness.py')] + props, stdout=subprocess.PIPE, text=True, check=True).stdout)
old = {}
p = os.path.join(ROOT, 'known_findings.json')
if os.path.exists(p):
    for k in json.load(open(p))['findings']:
        old[(k['property'], k['class'])] = k
findings = [k for k in old.values() if k['property'] not in props]
for prop in props:
    if only and prop not in only:
        findings += [k for (pp, _), k in old.items() if pp == prop]
        continue
    for cls in owners[prop]:
        wit = w.get(prop, {}).get(cls)
        prev = old.get((prop, cls))
        if prev and (prev.get('status') == 'fixed' or prev.get('witness', {}).get('pinned')):
            findings.append(prev); continue          # fixed entries and hand-written (pinned) witnesses are kept
        if wit is None:
            if prev: findings.append(prev); print('kept old witness for', prop, cls, file=sys.stderr)
            else: print('NO WITNESS for', prop, cls, file=sys.stderr)
            continue
        d = desc[cls]
        findings.append(dict(property=prop, **{'class': cls}, status='known', fails=d['fails'], spec=d['spec'], site=d['site'],
                             witness=dict(suite=wit['suite'], seq=wit['seq'], readable=wit['ops'], observed=wit['last'])))
for prop in w:
    for cls in w[prop]:
        if cls not in owners.get(prop, []):
            print('UNOWNED rejection class', prop, cls, w[prop][cls]['ops'], file=sys.stderr)
json.dump(dict(note='Committed list of known findings; never written at run time. A class is one decidable predicate of lean/SugarModel/Known.lean.', findings=findings), open(p, 'w'), indent=1)
print('wrote', len(findings), 'findings')
