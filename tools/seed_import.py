#!/usr/bin/env python3
"""import a confirmed seed: seed_import.py /tmp/seeded/C01/m1 '<detected-by text>'"""
import sys, os, json, shutil
src = sys.argv[1]; detected = sys.argv[2] if len(sys.argv) > 2 else ''
prop, m = src.rstrip('/').split('/')[-2:]
dst = '/verif/seeded/%s-%s' % (prop, m)
os.makedirs(dst, exist_ok=True)
for f in ('patch.diff', 'demo_test.go'):
    shutil.copy(os.path.join(src, f), os.path.join(dst, f))
meta = json.load(open(os.path.join(src, 'meta.json')))
conf = json.load(open(os.path.join(src, 'confirm.json'))) if os.path.exists(os.path.join(src, 'confirm.json')) else {}
meta['confirmed'] = dict(demo_passes_without_patch=conf.get('demo_pristine_pass'), demo_fails_with_patch=conf.get('demo_patched_fail'),
                         baseline_stable_pass_with_patch=conf.get('baseline_ok'), how='tools/seed_confirm.py in a scratch worktree of /repo (removed afterwards)')
if detected: meta['checks'] = detected
json.dump(meta, open(os.path.join(dst, 'meta.json'), 'w'), indent=1)
print(dst)
