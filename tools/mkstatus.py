#!/usr/bin/env python3
"""Regenerate the status block of DESIGN.md (between the STATUS markers) from MANIFEST.json, evidence/*.json,
known_findings.json and seeded/*/meta.json."""
import os, json, glob, re, sys
ROOT = os.path.dirname(os.path.dirname(os.path.abspath(__file__)))
sys.path.insert(0, os.path.join(ROOT, 'lib'))
import vlib
man = json.load(open(os.path.join(ROOT, 'MANIFEST.json')))
kf = json.load(open(os.path.join(ROOT, 'known_findings.json')))['findings']
props = [json.loads(l) for l in open(os.path.join(ROOT, 'properties.jsonl'))]
claimed = {c['property_id']: c for c in man['checks']}
out = []
out.append('| id | claimed level | suites | theorems | known-finding classes | fixed | seeded changes caught |')
out.append('|---|---|---|---|---|---|---|')
for p in props:
    pid = p['id']
    c = claimed.get(pid)
    ev = {}
    ep = os.path.join(ROOT, 'evidence', pid + '.json')
    if os.path.exists(ep):
        try: ev = json.load(open(ep))
        except Exception: ev = {}
    nth = len((ev.get('coverage') or {}).get('theorems', []) or ev.get('theorems', []) or [])
    if not nth:
        f = os.path.join(ROOT, 'lean', 'SugarModel', 'Props', pid + '.lean')
        if os.path.exists(f):
            nth = len(re.findall(r'^theorem ', open(f).read(), flags=re.M))
    kn = [k for k in kf if k['property'] == pid and k.get('status') == 'known']
    fx = [k for k in kf if k['property'] == pid and k.get('status') == 'fixed']
    seeds = []
    for d in sorted(glob.glob(os.path.join(ROOT, 'seeded', pid + '-*'))):
        m = json.load(open(os.path.join(d, 'meta.json')))
        note = (m.get('checks') or '')
        st = 'caught' if note.startswith('caught') else ('not caught' if note.startswith('not caught') else 'pending')
        if m.get('superseded'):
            st = 'superseded'
        seeds.append('%s: %s' % (os.path.basename(d).split('-')[1], st))
    suites = ','.join(s for s, _ in vlib.PROPS[pid]['suites']) if pid in vlib.PROPS else '-'
    out.append('| %s | %s | %s | %s | %d | %d | %s |' % (pid, c['level_claimed']['category'] if c else 'not claimed', suites, nth or '-', len(kn), len(fx), '; '.join(seeds)))
block = '\n'.join(out)
p = os.path.join(ROOT, 'DESIGN.md')
s = open(p).read()
s = re.sub(r'<!-- STATUS:BEGIN -->.*?<!-- STATUS:END -->', '<!-- STATUS:BEGIN -->\n' + block + '\n<!-- STATUS:END -->', s, flags=re.S)
open(p, 'w').write(s)
print(block)
