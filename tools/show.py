#!/usr/bin/env python3
"""join a transcript with driver verdicts; print decoded rows matching a filter"""
import sys, re, collections
def unx(t): return bytes.fromhex(t[1:])
def parse(line):
    w = line.split(' ')
    i = w.index('C'); argc = int(w[i+1]); cmd = [unx(x) for x in w[i+2:i+2+argc]]
    j = i+2+argc; kind = w[j+1]; payload = unx(w[j+2])
    s = w.index('S', j); e = len(w) - 1 - w[::-1].index('E')
    return dict(seq=w[1], now=int(w[2]), db=int(w[3]), cmd=cmd, kind=kind, payload=payload, pre=' '.join(w[s+1:e]), post=' '.join(w[e+1:]))
def main():
    tr, vd = sys.argv[1], sys.argv[2]
    pat = re.compile(sys.argv[3]) if len(sys.argv) > 3 else None
    limit = int(sys.argv[4]) if len(sys.argv) > 4 else 20
    verd = {}
    for l in open(vd):
        a = l.rstrip('\n').split(' ', 1)
        verd[a[0]] = a[1] if len(a) > 1 else ''
    groups = collections.Counter(); shown = 0
    for l in open(tr):
        if not l.startswith('T '): continue
        t = parse(l.rstrip('\n'))
        v = verd.get(t['seq'], '?')
        if pat and not pat.search(v): continue
        key = (t['cmd'][0].lower() if t['cmd'] else b'', t['kind'], v.split('##')[-1].strip(), v.split(' ')[0])
        groups[key] += 1
        if shown < limit and groups[key] <= 2:
            shown += 1
            print(t['seq'], 'now=%d'%t['now'], [c.decode('latin1') for c in t['cmd']], t['kind'], repr(t['payload'][:80]), '=>', v[:200])
            if '-v' in sys.argv:
                print('   PRE ', t['pre'][:600]); print('   POST', t['post'][:600])
    print('--- groups'); 
    for k, n in groups.most_common(80): print(n, k)
main()
