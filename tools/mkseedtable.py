#!/usr/bin/env python3
"""Regenerate the seeded-changes table of DESIGN.md (between <!-- SEEDS:BEGIN --> and <!-- SEEDS:END -->) from seeded/*/meta.json."""
import os, json, glob, re
ROOT = os.path.dirname(os.path.dirname(os.path.abspath(__file__)))
rows = ['| seed | the change (written by a sub-agent that saw only the property text) | checks run on it (quick tier) → result |', '|---|---|---|']
for d in sorted(glob.glob(os.path.join(ROOT, 'seeded', '*'))):
    m = json.load(open(os.path.join(d, 'meta.json')))
    sid = os.path.basename(d)
    summ = re.sub(r'\s+', ' ', m.get('summary', '')).replace('|', '/')
    if len(summ) > 230:
        summ = summ[:227] + '…'
    sw = m.get('sweep') or {}
    res = []
    for p, v in sw.items():
        if v.get('exit') == 1 and v.get('violation'):
            res.append('%s: VIOLATION%s' % (p, ' (no-failing-input-found)' if 'no-failing-input-found' in v['violation'] else ' with replay'))
        else:
            res.append('%s: exit %s' % (p, v.get('exit')))
    note = 'superseded — ' + re.sub(r'\s+', ' ', m['superseded'])[:160] + '…' if m.get('superseded') else ''
    rows.append('| %s | %s | %s %s |' % (sid, summ, '; '.join(res) or '-', note))
block = '\n'.join(rows)
p = os.path.join(ROOT, 'DESIGN.md')
s = open(p).read()
assert '<!-- SEEDS:BEGIN -->' in s
s = re.sub(r'<!-- SEEDS:BEGIN -->.*?<!-- SEEDS:END -->', lambda _: '<!-- SEEDS:BEGIN -->\n' + block + '\n<!-- SEEDS:END -->', s, flags=re.S)
open(p, 'w').write(s)
print(len(rows) - 2, 'seeds')
