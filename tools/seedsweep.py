#!/usr/bin/env python3
"""Run the checks against every seeded change, in an isolated copy: a worktree of /repo for the patches and
(when run from a clone of /verif) its own build cache. usage: seedsweep.py <out.json> [seed-id ...]
Writes {seed: {prop: {exit, violation_line}}}; does not touch /repo's working tree."""
import sys, os, json, subprocess, glob
ROOT = os.path.dirname(os.path.dirname(os.path.abspath(__file__)))
out = sys.argv[1]
only = sys.argv[2:]
WT = os.environ.get('SEED_WT', '/tmp/seedwt')
env = dict(os.environ, GOFLAGS='-mod=mod', GOPROXY='off', GOSUMDB='off', GOTOOLCHAIN='local', VERIF_REPO=WT)
def sh(cmd, **kw): return subprocess.run(cmd, shell=True, stdout=subprocess.PIPE, stderr=subprocess.STDOUT, text=True, **kw)
if not os.path.exists(WT):
    r = sh('git -C /repo worktree add -q --detach %s HEAD' % WT); assert r.returncode == 0, r.stdout
EXTRA = {'C02-m1': ['C09'], 'C03-m2': ['C05'], 'C10-m2': ['C03'], 'C10-m1': ['C03'], 'C03-m1': ['C10'], 'C12-m2': [], 'C13-m1': []}
res = {}
if os.path.exists(out):
    res = json.load(open(out))
head = sh('git -C /repo rev-parse HEAD').stdout.strip()
for d in sorted(glob.glob(os.path.join(ROOT, 'seeded', '*'))):
    sid = os.path.basename(d)
    if only and sid not in only: continue
    prop = sid.split('-')[0]
    props = [prop] + EXTRA.get(sid, [])
    sh('git -C %s checkout -q --detach %s && git -C %s checkout -- . && git -C %s clean -fdq' % (WT, head, WT, WT))
    r = sh('git -C %s apply %s' % (WT, os.path.join(d, 'patch.diff')))
    if r.returncode != 0:
        res[sid] = {'error': 'patch does not apply: ' + r.stdout[-200:]}
        continue
    res[sid] = {}
    for p in props:
        if not os.path.exists(os.path.join(ROOT, 'lean', 'SugarModel', 'Props', p + '.lean')) and p not in ('C14', 'C15', 'C16'):
            pass
        r = sh('./check %s quick' % p, cwd=ROOT, env=env)
        lines = [l for l in r.stdout.split('\n') if l.startswith('VIOLATION')]
        res[sid][p] = dict(exit=r.returncode, violation=lines[0] if lines else None)
        print(sid, p, r.returncode, lines[0] if lines else '-', flush=True)
    json.dump(res, open(out, 'w'), indent=1)
sh('git -C %s checkout -- . && git -C %s clean -fdq' % (WT, WT))
