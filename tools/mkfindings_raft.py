#!/usr/bin/env python3
"""C07 findings: hand-written minimal witnesses, each validated by replaying it on the implementation (the
last line must be spec-rejected with exactly that class, the model agreeing with the implementation), merged
into known_findings.json. Needs the cluster hooks (sugardb/verif_raft.go …) in the tree under test."""
import sys, os, json, shutil
ROOT = os.path.dirname(os.path.dirname(os.path.abspath(__file__)))
sys.path.insert(0, os.path.join(ROOT, 'lib'))
import vlib

START = 1700000000000


def hx(s):
    return s.encode('latin1').hex()


def e(db, *cmd, adv=0):
    o = dict(node=0, db=db, cmd=[hx(a) for a in cmd])
    if adv:
        o['adv'] = adv
    return o


def c(node, db, *cmd, bar=False):
    o = dict(node=node, db=db, cmd=[hx(a) for a in cmd])
    if bar:
        o['bar'] = True
    return o


CL = [0, 37, 5000]
W = {
    'leader-deadlocks-on-expired-key': dict(rkind='fsm', clocks=[0, 17], ops=[e(0, 'set', 'k1', 'v', 'pxat', str(START + 500)), e(0, 'append', 'k1', 'x', adv=1000)]),
    'spop-pops-different-members-per-replica': dict(rkind='fsm', clocks=[0, 86400123, 17], ops=[e(0, 'sadd', 'k1', *'abcdefghijkl'), e(0, 'spop', 'k1', '6')]),
    'relative-expiry-uses-each-replicas-clock': dict(rkind='fsm', clocks=[0, 1234567], ops=[e(1, 'set', 'k1', 'v', 'ex', '100')]),
    'forwarded-write-lands-in-database-0': dict(rkind='cluster', clocks=CL, ops=[c(1, 1, 'set', 'fw', 'v', bar=True)]),
    'forwarded-identical-writes-collapse': dict(rkind='cluster', clocks=CL, ops=[c(1, 0, 'rpush', 'l1', 'x'), c(1, 0, 'rpush', 'l1', 'x', bar=True)]),
    'read-served-locally-mutates-that-replica': dict(rkind='cluster', clocks=CL, ops=[c(0, 0, 'sadd', 't1', 'a', 'b'), c(0, 0, 'sadd', 't2', 'c', bar=True), c(2, 0, 'sunion', 't1', 't2', bar=True)]),
    'effect-depends-on-map-iteration-order': dict(rkind='fsm', clocks=[0, 1, 2, 3, 4, 5], ops=[e(0, 'sadd', 'k1', 'a'), e(0, 'sadd', 'k2', 'b'), e(0, 'sadd', 'k3', 'c'), e(0, 'sunionstore', 'k4', 'k1', 'k2', 'k3')]),
}


def render(o):
    t = ' '.join(bytes.fromhex(a).decode('latin1') for a in o.get('cmd', []))
    if o.get('adv'):
        t += ' [+%dms]' % o['adv']
    return t


def main():
    cx = vlib.Ctx(ROOT)
    desc = json.load(open(os.path.join(ROOT, 'findings', 'descriptions.json')))
    owners = json.load(open(os.path.join(ROOT, 'findings', 'owners.json')))
    work = os.path.join(ROOT, '.work', 'mkraft-%d' % os.getpid())
    os.makedirs(work, exist_ok=True)
    out = []
    ok = True
    for i, cls in enumerate(owners['C07']):
        seq = dict(W[cls], id='k%d' % i)
        for attempt in range(6):      # the map-order witness diverges on most, not all, executions
            rows = vlib.replay_seq(cx, work, 'raft', seq, 'k')
            last = rows[-1]
            v, got = last['f'].get('rep'), last['f'].get('rcls')
            if (v or '').startswith('rej') and got == cls:
                break
        if not (v or '').startswith('rej') or got != cls or last['model'] not in ('OK', 'SKIP'):
            print('WITNESS DOES NOT REPRODUCE', cls, v, got, last['model'], last['detail'][:200], file=sys.stderr)
            ok = False
            continue
        d = desc[cls]
        where = {'fsm': 'the same log applied by the state machines of %d independent nodes (clock offsets %s ms)' % (len(seq['clocks']), seq['clocks']),
                 'cluster': 'three-node cluster on loopback: node 0 leader, node 1 forwarding follower, node 2 non-forwarding follower'}[seq['rkind']]
        out.append(dict(property='C07', **{'class': cls}, status='known', fails=d['fails'], spec=d['spec'], site=d['site'],
                        witness=dict(suite='raft', seq=seq, where=where,
                                     readable=[('node %d db %d: ' % (o['node'], o['db']) if seq['rkind'] == 'cluster' else 'db %d: ' % o['db']) + render(o) + (' | quiesce, dump all nodes' if o.get('bar') else '') for o in seq['ops']],
                                     observed=dict(reply=last['kind'] + ':' + repr(last['payload'][:60]), verdict=v, model=last['model']))))
    shutil.rmtree(work, ignore_errors=True)
    if not ok:
        return 1
    p = os.path.join(ROOT, 'known_findings.json')
    kf = json.load(open(p))
    kf['findings'] = [k for k in kf['findings'] if k['property'] != 'C07'] + out
    json.dump(kf, open(p, 'w'), indent=1)
    print('wrote', len(out), 'C07 findings')
    return 0


if __name__ == '__main__':
    sys.exit(main())
