#!/usr/bin/env python3
"""Find a minimal witness sequence for every (property, class) that the sweep rejects.
   usage: tools/mkwitness.py C01 [C04 ...]   -> prints JSON {property: {class: {suite, seq, last}}}"""
import sys, os, json, shutil
ROOT = os.path.dirname(os.path.dirname(os.path.abspath(__file__)))
sys.path.insert(0, os.path.join(ROOT, 'lib'))
import vlib
cx = vlib.Ctx(ROOT)
out = {}
work = os.path.join(ROOT, '.work', 'mkw-%d' % os.getpid())
os.makedirs(work, exist_ok=True)
cache = {}
for prop in sys.argv[1:]:
    spec = vlib.PROPS[prop]
    col = spec['column']; clscol = spec.get('clscol', 'cls')
    res = {}
    for suite, args in spec['suites']:
        if suite not in cache:
            cache[suite] = vlib.run_suite(cx, work, suite, args, 1, 'quick')
        rows, seqmap, _ = cache[suite]
        best = {}
        for r in rows:
            if r['model'] == 'HANG' or not spec['relevant'](r): continue
            v = r['f'].get(col, 'na'); cls = r['f'].get(clscol, '-')
            if v.startswith('rej'):
                import re as _re
                n = int(_re.sub(r'\D', '', r['seq'].rsplit('.', 1)[-1]) or 0)
                if cls not in best or n < best[cls][0]:
                    best[cls] = (n, r)
        for cls, (n, r) in best.items():
            seq = vlib.seq_prefix(seqmap, r['seq'])
            pred = lambda x, cls=cls: x['f'].get(col, 'na').startswith('rej') and x['f'].get(clscol) == cls
            seq = vlib.shrink(cx, work, suite, seq, pred, budget=80)
            rr = vlib.replay_seq(cx, work, suite, seq, 'final')
            def _render(o):
                if 'cmds' in o:       # pub/sub block
                    return '%s{ %s }' % ('' if o.get('mode') == 'seq' else o.get('mode', '') + ' ', '; '.join(' '.join(bytes.fromhex(a).decode('latin1') or '""' for a in c['cmd']) + ' @conn%d' % c['conn'] for c in o['cmds']))
                return None
            if seq.get('ops') and any('cmds' in o for o in seq['ops']):
                rr = vlib.replay_seq(cx, work, suite, seq, 'final')
                res[cls] = dict(suite=suite, seq=seq, ops=[_render(o) for o in seq['ops']],
                                last=dict(reply=rr[-1]['kind'] + ':' + repr(rr[-1]['payload'][:60]), verdict=rr[-1]['f'].get(col)))
                continue
            res[cls] = dict(suite=suite, seq=seq, ops=([(' '.join(bytes.fromhex(a).decode('latin1') for a in o.get('cmd', [])) or ('<sampler pass on db %d>' % (o['tick'] - 1) if o.get('tick') else '')) + (' {while: ' + ' '.join(bytes.fromhex(a).decode('latin1') for a in o['inject']) + ' at ' + o.get('injectAt', '') + '}' if o.get('inject') else '') + (' [+%dms]' % o['adv'] if o.get('adv') else '') + (' @conn%d' % o['conn'] if o.get('conn', -1) >= 0 else '') for o in seq['ops']] if seq.get('ops') else [json.dumps(seq.get('z') or seq.get('writes') or seq.get('auto') or {k: seq.get(k) for k in ('a', 'b')})[:400]]),
                            last=(lambda x: dict(reply=x['kind'] + ':' + repr(x['payload'][:60]), verdict=x['f'].get(col), at=x['seq']))(vlib.pick_row(rr, col, clscol, cls)))
    out[prop] = res
shutil.rmtree(work, ignore_errors=True)
json.dump(out, sys.stdout, indent=1)
