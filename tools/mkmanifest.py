#!/usr/bin/env python3
"""Write MANIFEST.json from the registry in lib/vlib.py + findings. Run after adding a property."""
import sys, os, json
ROOT = os.path.dirname(os.path.dirname(os.path.abspath(__file__)))
sys.path.insert(0, os.path.join(ROOT, 'lib'))
import vlib
props = [json.loads(l) for l in open(os.path.join(ROOT, 'properties.jsonl'))]
hooks_commits = [l.strip() for l in open(os.path.join(ROOT, 'findings', 'hook_commits.txt'))] if os.path.exists(os.path.join(ROOT, 'findings', 'hook_commits.txt')) else []
meta = json.load(open(os.path.join(ROOT, 'findings', 'manifest_meta.json')))
checks = []
na = []
for p in props:
    pid = p['id']
    if pid in vlib.PROPS and pid in meta['checks']:
        m = meta['checks'][pid]
        has_props = os.path.exists(os.path.join(ROOT, 'lean', 'SugarModel', 'Props', pid + '.lean'))
        checks.append(dict(
            property_id=pid, quick_cmd='./check %s quick' % pid, thorough_cmd='./check %s thorough' % pid,
            evidence_file='evidence/%s.json' % pid, replay_cmd_template='./check %s --replay {path}' % pid,
            engine='lean-model+vh', technique=m['technique'],
            level_claimed=dict(category='proof' if has_props else 'translation_validation', text=m['text'], design_ref=m.get('design_ref', 'DESIGN.md §7 ' + pid)),
            level_note=m['note']))
    else:
        na.append(dict(property_id=pid, reason=meta['not_applicable'].get(pid, 'not built yet in this round: no model/correspondence exists for it, so nothing is claimed')))
man = dict(version=1, setup_cmd='./check --setup',
           hooks=dict(guard='verif', enable='go build -tags verif (harness module in /verif/harness with replace => /repo)',
                      baseline_off_cmd="cd /repo && GOFLAGS=-mod=mod GOPROXY=off GOSUMDB=off GOTOOLCHAIN=local go test -json -vet=off -count=1 -timeout 25m ./...",
                      source_commits=hooks_commits, add_only=True),
           engines=[dict(name='lean-model', path='lean/', serves_properties=[c['property_id'] for c in checks], kind_free_text='Lean 4 model, executable spec, property theorems (lake project, core only)'),
                    dict(name='vh', path='harness/', serves_properties=[c['property_id'] for c in checks], kind_free_text='Go harness driving the real code in-process (build tag verif), transcripts, fact generator'),
                    dict(name='driver', path='lean/Driver/Main.lean', serves_properties=[c['property_id'] for c in checks], kind_free_text='compiled Lean executable: per-transition model agreement + spec verdict + class')],
           checks=checks, not_applicable=na, notes=meta.get('notes', ''))
json.dump(man, open(os.path.join(ROOT, 'MANIFEST.json'), 'w'), indent=1)
print('checks:', [c['property_id'] for c in checks], 'not claimed:', [n['property_id'] for n in na])
