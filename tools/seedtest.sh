#!/bin/bash
# usage: seedtest.sh <seed dir> <prop> [prop...]   — apply the seeded patch to /repo, run the checks, undo
d=$1; shift
cd /verif
git -C /repo apply "$d/patch.diff" || { echo "patch does not apply"; exit 2; }
for p in "$@"; do
  out=$(./check $p quick 2>/dev/null | grep -v '^KNOWN-FINDING'); rc=$?
  echo "$d $p => $(echo "$out" | grep VIOLATION || echo 'no violation')"
done
git -C /repo checkout -- . 
