/-
  Audit — lists every theorem under `Sugar.Props.<Cxx>` with the axioms it depends on, one JSON
  object per line. Run with `lake env lean Audit.lean`.
-/
import Lean
import SugarModel.Props.All
open Lean Elab Command

elab "#audit_props" : command => do
  let env ← getEnv
  let mut n : Nat := 0
  for (name, info) in env.constants.toList do
    if let .thmInfo _ := info then
      if (`Sugar.Props).isPrefixOf name && !name.isInternal then
        let axs ← liftCoreM (Lean.collectAxioms name)
        let comps := name.components
        let prop := (comps.getD 2 `unknown).toString
        let axsStr := ", ".intercalate (axs.toList.map fun a => "\"" ++ a.toString ++ "\"")
        IO.println s!"\{\"property\": \"{prop}\", \"theorem\": \"{name}\", \"axioms\": [{axsStr}]}"
        n := n + 1
  IO.println s!"\{\"audited\": {n}}"

#audit_props
