/-
  Known — decidable classification of the inputs (pre-state, command) on which the *model* (hence the
  code it mirrors) departs from the reference specification. One predicate per defect; each is a
  specific call site or input shape. `classifyKv` is the exclusion set of the C01/C04 refinement
  theorems: outside it the model is proved to satisfy the spec.
-/
import SugarModel.Model.Dispatch
import SugarModel.Spec.RefMap
namespace Sugar.Known
open Sugar

/-- key stored with a deadline that has passed but not yet collected -/
def expiredPresent (c : Ctx) (s : State) (k : Bytes) : Bool :=
  match s.lookup c.db k with
  | some e => e.expired c.now
  | none => false

/-- key arguments of the key/value commands -/
def keyArgs (cmd : List Bytes) : List Bytes :=
  match cmd with
  | [] => []
  | name :: args =>
    let n := toLower name
    if n == b "mset" then (pairUp args).map (·.1)
    else if n == b "mget" || n == b "del" || n == b "rename" then args
    else if n == b "flushdb" || n == b "flushall" then []
    else args.take 1

def liveVal (c : Ctx) (s : State) (k : Bytes) : Option Val :=
  match s.lookup c.db k with
  | some e => if e.expired c.now then none else some e.val
  | none => none

def isComposite : Val → Bool
  | .list _ => true
  | .hash _ => true
  | .set _ _ => true
  | .zset _ _ => true
  | _ => false

/-- bytes that AdaptType re-types to a number whose canonical text differs (007, 1e3, +5, 1.50, clamped) -/
def nonCanonical (v : Bytes) : Bool :=
  match adaptType v with
  | .int i => fmtInt i != v
  | .flt f => f.fmtG != v
  | _ => false

def hasCrLf (v : Bytes) : Bool := v.any fun c => c == 13 || c == 10

def scalarTextOf : Val → Option Bytes
  | .str s => some s
  | .int i => some (fmtInt i)
  | .flt f => some f.fmtG
  | _ => none

def cmdName (cmd : List Bytes) : Bytes := toLower (cmd.headD [])

def setHasGet (cmd : List Bytes) : Bool := (cmd.drop 3).any fun t => toLower t == b "get"

/-- the first applicable class, by name -/
def classifyKv (c : Ctx) (s : State) (cmd : List Bytes) : Option String :=
  let n := cmdName cmd
  let key := (cmd.drop 1).headD []
  let lv := liveVal c s key
  let txt := lv.bind scalarTextOf
  let modelOut := (step c s cmd).map (·.2)
  let modelPanics := match modelOut with
    | some (.panic _) => true
    | _ => false
  if (keyArgs cmd).any (expiredPresent c s) then some "expired-key-still-exists"
  else if (n == b "flushdb") && cmd.length == 1 && !s.hasDb c.db then some "flushdb-before-first-write-panics"
  else if (n == b "getrange" || n == b "substr") && modelPanics then some "getrange-index-panic"
  else if n == b "type" && modelPanics then some "type-nil-value-panic"
  else if (n == b "get" || n == b "getdel" || n == b "getex" || (n == b "set" && setHasGet cmd)) &&
          (lv.map isComposite == some true) then some "get-on-collection-answers-dump"
  else if (n == b "get" || n == b "getdel" || n == b "getex" || (n == b "set" && setHasGet cmd)) &&
          (txt.map hasCrLf == some true) then some "simple-string-reply-carries-crlf"
  else if n == b "getex" && cmd.length == 3 && toLower (cmd.getD 2 []) == b "persist" then some "getex-persist-ignored"
  else if n == b "set" && nonCanonical (cmd.getD 2 []) then some "numeric-text-rewritten"
  else if n == b "mset" && (pairUp (cmd.drop 1)).any (fun p => nonCanonical p.2) then some "numeric-text-rewritten"
  else if n == b "append" && cmd.length == 3 &&
          (match lv with
            | none => nonCanonical (cmd.getD 2 [])
            | some (.str t) => nonCanonical (t ++ cmd.getD 2 [])
            | _ => false) then some "numeric-text-rewritten"
  else if n == b "mget" && (cmd.drop 1).any (fun k => (liveVal c s k).bind scalarTextOf == some []) then some "mget-empty-string-as-nil"
  else if n == b "rename" && cmd.length == 3 && lv.isSome && cmd.getD 1 [] == cmd.getD 2 [] then some "rename-onto-itself-deletes"
  else if n == b "rename" && cmd.length == 3 && lv.isSome then
    -- source deadline dropped / target deadline inherited
    let srcExp := (s.lookup c.db key).bind (·.exp)
    let dstExp := match s.lookup c.db (cmd.getD 2 []) with
      | some e => if e.expired c.now then none else e.exp
      | none => none
    if dstExp.isSome && dstExp != srcExp then some "rename-inherits-target-deadline" else none
  else if n == b "setrange" && cmd.length == 4 && lv.isNone && (s.lookup c.db key).isNone then some "setrange-absent-key-creates-nothing"
  else if n == b "setrange" && cmd.length == 4 &&
          (match lv with
            | some (.str t) => !isAscii t || !isAscii (cmd.getD 3 [])
            | _ => false) then some "setrange-non-ascii-bytes-corrupted"
  else if (n == b "incr" || n == b "decr" || n == b "incrby" || n == b "decrby") then
    -- 64-bit wrap-around instead of an overflow error
    let delta : Option Int := if n == b "incr" then some 1 else if n == b "decr" then some (-1)
      else (parseInt64 (cmd.getD 2 [])).map fun d => if n == b "incrby" then d else -d
    let cur : Option Int := match lv with
      | none => some 0
      | some (.str t) => parseInt64 t
      | some (.int i) => some i
      | _ => none
    match delta, cur with
    | some d, some cu => if cu + d < minInt64 || cu + d > maxInt64 then some "integer-overflow-wraps" else none
    | _, _ => none
  else none

/-- classes of the memory-accounting property (C19): where `memUsed` stops being a function of the dataset -/
def classifyMem (c : Ctx) (s : State) (cmd : List Bytes) : Option String :=
  let n := cmdName cmd
  let present (k : Bytes) : Bool := (s.lookup c.db k).isSome
  if n == b "flushdb" || n == b "flushall" then some "flush-leaves-counter"
  else if (keyArgs cmd).any present then some "rewrite-of-existing-key-not-reaccounted"
  else if (n == b "lpush" || n == b "rpush") then some "list-create-counted-twice"
  else none

end Sugar.Known
