/-
  Known — decidable classification of the inputs (pre-state, command) on which the *model* (hence the
  code it mirrors) departs from the reference specification. One predicate per defect; each is a
  specific call site or input shape. `classifyKv` is the exclusion set of the C01/C04 refinement
  theorems: outside it the model is proved to satisfy the spec.
-/
import SugarModel.Model.Dispatch
import SugarModel.Spec.RefZSet
namespace Sugar.Known
open Sugar

/-- key stored with a deadline that has passed but not yet collected -/
def expiredPresent (c : Ctx) (s : State) (k : Bytes) : Bool :=
  match s.lookup c.db k with
  | some e => e.expired c.now
  | none => false

/-- key arguments of the key/value commands -/
def keyArgs (cmd : List Bytes) : List Bytes :=
  match cmd with
  | [] => []
  | name :: args =>
    let n := toLower name
    if n == b "mset" then (pairUp args).map (·.1)
    else if n == b "mget" || n == b "del" || n == b "rename" then args
    else if n == b "flushdb" || n == b "flushall" then []
    else args.take 1

def liveVal (c : Ctx) (s : State) (k : Bytes) : Option Val :=
  match s.lookup c.db k with
  | some e => if e.expired c.now then none else some e.val
  | none => none

def isComposite : Val → Bool
  | .list _ => true
  | .hash _ => true
  | .set _ _ => true
  | .zset _ _ => true
  | _ => false

/-- bytes that AdaptType re-types to a number whose canonical text differs (007, 1e3, +5, 1.50, clamped) -/
def nonCanonical (v : Bytes) : Bool :=
  match adaptType v with
  | .int i => fmtInt i != v
  | .flt f => f.fmtG != v
  | _ => false

def hasCrLf (v : Bytes) : Bool := v.any fun c => c == 13 || c == 10

def scalarTextOf : Val → Option Bytes
  | .str s => some s
  | .int i => some (fmtInt i)
  | .flt f => some f.fmtG
  | _ => none

def cmdName (cmd : List Bytes) : Bytes := toLower (cmd.headD [])

def setHasGet (cmd : List Bytes) : Bool := (cmd.drop 3).any fun t => toLower t == b "get"

/-- the first applicable class, by name -/
def classifyKv (c : Ctx) (s : State) (cmd : List Bytes) : Option String :=
  let n := cmdName cmd
  let key := (cmd.drop 1).headD []
  let lv := liveVal c s key
  let txt := lv.bind scalarTextOf
  let modelOut := (step c s cmd).map (·.2)
  let modelPanics := match modelOut with
    | some (.panic _) => true
    | _ => false
  if (keyArgs cmd).any (expiredPresent c s) then some "expired-key-still-exists"
  else if (n == b "flushdb") && cmd.length == 1 && !s.hasDb c.db then some "flushdb-before-first-write-panics"
  else if (n == b "getrange" || n == b "substr") && modelPanics then some "getrange-index-panic"
  else if n == b "type" && modelPanics then some "type-nil-value-panic"
  else if (n == b "get" || n == b "getdel" || n == b "getex" || (n == b "set" && setHasGet cmd)) &&
          (lv.map isComposite == some true) then some "get-on-collection-answers-dump"
  else if (n == b "get" || n == b "getdel" || n == b "getex" || (n == b "set" && setHasGet cmd)) &&
          (txt.map hasCrLf == some true) then some "simple-string-reply-carries-crlf"
  else if n == b "getex" && cmd.length == 3 && toLower (cmd.getD 2 []) == b "persist" then some "getex-persist-ignored"
  else if n == b "set" && nonCanonical (cmd.getD 2 []) then some "numeric-text-rewritten"
  else if n == b "mset" && (pairUp (cmd.drop 1)).any (fun p => nonCanonical p.2) then some "numeric-text-rewritten"
  else if n == b "append" && cmd.length == 3 &&
          (match lv with
            | none => nonCanonical (cmd.getD 2 [])
            | some (.str t) => nonCanonical (t ++ cmd.getD 2 [])
            | _ => false) then some "numeric-text-rewritten"
  else if n == b "mget" && (cmd.drop 1).any (fun k => (liveVal c s k).bind scalarTextOf == some []) then some "mget-empty-string-as-nil"
  else if n == b "rename" && cmd.length == 3 && lv.isSome && cmd.getD 1 [] == cmd.getD 2 [] then some "rename-onto-itself-deletes"
  else if n == b "rename" && cmd.length == 3 && lv.isSome then
    -- source deadline dropped / target deadline inherited
    let srcExp := (s.lookup c.db key).bind (·.exp)
    let dstExp := match s.lookup c.db (cmd.getD 2 []) with
      | some e => if e.expired c.now then none else e.exp
      | none => none
    if dstExp.isSome && dstExp != srcExp then some "rename-inherits-target-deadline" else none
  else if n == b "setrange" && cmd.length == 4 && lv.isNone && (s.lookup c.db key).isNone then some "setrange-absent-key-creates-nothing"
  else if n == b "setrange" && cmd.length == 4 &&
          (match lv with
            | some (.str t) => !isAscii t || !isAscii (cmd.getD 3 [])
            | _ => false) then some "setrange-non-ascii-bytes-corrupted"
  else if (n == b "incr" || n == b "decr" || n == b "incrby" || n == b "decrby") then
    -- 64-bit wrap-around instead of an overflow error
    let delta : Option Int := if n == b "incr" then some 1 else if n == b "decr" then some (-1)
      else (parseInt64 (cmd.getD 2 [])).map fun d => if n == b "incrby" then d else -d
    let cur : Option Int := match lv with
      | none => some 0
      | some (.str t) => parseInt64 t
      | some (.int i) => some i
      | _ => none
    match delta, cur with
    | some d, some cu => if cu + d < minInt64 || cu + d > maxInt64 then some "integer-overflow-wraps" else none
    | _, _ => none
  else none

end Sugar.Known

namespace Sugar.Known
open Sugar

/-- candidate key arguments of the collection commands (over-approximation) -/
def keyArgsColl (cmd : List Bytes) : List Bytes :=
  match cmd with
  | [] => []
  | name :: args =>
    let n := toLower name
    if n == b "lmove" || n == b "smove" then args.take 2
    else if n == b "sdiff" || n == b "sinter" || n == b "sunion" || n == b "sdiffstore" || n == b "sinterstore" ||
            n == b "sunionstore" || n == b "sintercard" then args
    else if n == b "zdiff" || n == b "zinter" || n == b "zunion" || n == b "zdiffstore" || n == b "zinterstore" ||
            n == b "zunionstore" || n == b "zmpop" then args
    else if n == b "zrangestore" then args.take 2
    else args.take 1

def adjacentPair (l : List Bytes) (v : Bytes) : Bool :=
  match l with
  | x :: y :: r => (x == v && y == v) || adjacentPair (y :: r) v
  | _ => false

/-- numeric-looking field value that the hash stores in a different spelling -/
def nonCanonicalF (v : Bytes) : Bool :=
  match adaptType v with
  | .int i => fmtInt i != v
  | .flt f => f.fmtF != v
  | _ => false

def liveSet (c : Ctx) (s : State) (k : Bytes) : Option (Nat × List Bytes) :=
  match liveVal c s k with
  | some (.set o ms) => some (o, ms)
  | _ => none

def classifyColl (c : Ctx) (s : State) (cmd : List Bytes) : Option String :=
  let n := cmdName cmd
  let key := (cmd.drop 1).headD []
  let lv := liveVal c s key
  let modelOut := (step c s cmd).map (·.2)
  let modelPanics := match modelOut with
    | some (.panic _) => true
    | _ => false
  let emptyArr := match modelOut with
    | some (.done (.ok r)) => r == b "*0"
    | _ => false
  if (keyArgsColl cmd).any (expiredPresent c s) then some "expired-key-still-exists"
  else if (keyArgsColl cmd).any (fun k => match liveVal c s k with | some (.set o _) => o != 0 | _ => false) then some "set-object-shared-between-keys"
  else if n == b "lrange" && modelPanics then some "lrange-index-panic"
  else if n == b "ltrim" && modelPanics then some "ltrim-index-panic"
  else if n == b "lmove" && modelPanics then some "lmove-empty-source-panic"
  else if n == b "hrandfield" && modelPanics then some "hrandfield-empty-hash-panic"
  else if emptyArr then some "empty-array-without-terminator"
  else if n == b "lrange" && cmd.length == 4 && (match lv, parseInt64 (cmd.getD 3 []) with
      | some (.list _), some e => decide (e < 0)
      | _, _ => false) then some "lrange-negative-end-miscomputed"
  else if n == b "lrem" && cmd.length == 4 && (match lv, parseInt64 (cmd.getD 2 []) with
      | some (.list l), some cnt => decide (cnt ≥ 0) && adjacentPair l (cmd.getD 3 [])
      | _, _ => false) then some "lrem-skips-adjacent-matches"
  else if n == b "lmove" && cmd.length == 5 && cmd.getD 1 [] == cmd.getD 2 [] && lv.isSome then some "lmove-same-key-duplicates"
  else if (n == b "hset" || n == b "hsetnx") && cmd.length ≥ 4 && (match lv with
      | some (.hash _) => false
      | some _ => true
      | none => false) then some "hset-on-wrong-type-replaces"
  else if (n == b "hset" || n == b "hsetnx") && (Spec.fvPairs (cmd.drop 2)).any (fun p => nonCanonicalF p.2) then some "hash-numeric-text-rewritten"
  else if n == b "hset" && (match lv with
      | some (.hash h) =>
        let fields := ((Spec.fvPairs (cmd.drop 2)).map (·.1)).eraseDups
        let fresh := (fields.filter fun f => (h.get f).isNone).length
        h.length + fresh != fresh && h.length + fresh != fields.length
      | _ => false) then some "hset-reply-counts-all-fields"
  else if n == b "hincrby" && cmd.length == 4 && (match lv, parseInt64 (cmd.getD 3 []) with
      | some (.hash h), some d => (match h.get (cmd.getD 2 []) with
          | some (.int i) => decide (i + d < minInt64 || i + d > maxInt64)
          | _ => false)
      | _, _ => false) then some "hash-integer-overflow-wraps"
  else if n == b "hincrby" && cmd.length == 4 && (match lv with
      | some (.hash h) => (match h.get (cmd.getD 2 []) with
          | some (.flt _) => true
          | _ => false)
      | _ => false) then some "hincrby-float-typed-field"
  else if n == b "sintercard" && (match cmd.findIdx? (fun t => eqFold t (b "limit")) with
      | some i => i ≥ 2 && ((cmd.take i).drop 1).eraseDups.length == 1
      | none => false) then some "sintercard-single-key-ignores-limit"
  else if n == b "sintercard" && (match cmd.findIdx? (fun t => eqFold t (b "limit")) with
      | some i => ((cmd.take i).drop 1).length ≥ 3
      | none => false) then some "sintercard-limit-over-three-sets-stops-early"
  else if n == b "sadd" && lv.isNone && (cmd.drop 2).eraseDups.length != (cmd.drop 2).length then some "sadd-new-key-counts-duplicates"
  else if (n == b "sunion" || n == b "sunionstore") &&
          ((if n == b "sunion" then cmd.drop 1 else cmd.drop 2).any fun k => (liveVal c s k).isNone) then some "sunion-absent-key-rejected"
  else if (n == b "sunion" || n == b "sunionstore") &&
          ((if n == b "sunion" then cmd.drop 1 else cmd.drop 2).eraseDups.length ≥ 2) then some "sunion-mutates-operand"
  else if n == b "sinterstore" && ((cmd.drop 2).any fun k => (liveVal c s k).isNone) then some "sinterstore-absent-operand-keeps-destination"
  else if n == b "srandmember" && cmd.length == 3 && (match liveSet c s key, Spec.intArg? (cmd.getD 2 []) with
      | some (_, ms), some (some cnt) => decide (cnt < 0) && decide (cnt.natAbs ≥ ms.length)
      | _, _ => false) then some "srandmember-negative-count-capped"
  else none


/-! ### sorted sets (C17) -/

def liveZ (c : Ctx) (s : State) (k : Bytes) : Option (KMap Flt) :=
  match liveVal c s k with
  | some (.zset _ ms) => some ms
  | _ => none

/-- does position `i` of the reference order share its score with position `i+1` -/
def tieAt (order : List (Bytes × Flt)) (i : Nat) : Bool :=
  match order[i]?, order[i + 1]? with
  | some x, some y => x.2 == y.2
  | _, _ => false

def hasTie (ms : List (Bytes × Flt)) : Bool := (ms.map (·.2)).eraseDups.length != ms.length

def lexDisagrees (x y : Bytes) : Bool := compareLex x y != lexCmp x y

/-- does the code's LIMIT handling (positions offset..count of the *unfiltered* order, both ends included,
    early exit when offset > cardinality) select something else than LIMIT applied to the filtered sequence;
    BYLEX and unparsable forms are answered conservatively with `true` -/
def limitDiffers (ms : KMap Flt) (start stop : Bytes) (opts : List Bytes) : Bool :=
  match Spec.rangeOpts opts {} with
  | .ok o =>
    if o.bylex then true else
    match o.limit, parseFloat64 start, parseFloat64 stop with
    | some (off, cnt), some (some lo), some (some hi) =>
      if off < 0 then false else
      let card : Int := ms.length
      let order := if o.rev then (Spec.refOrder ms).reverse else Spec.refOrder ms
      let cnt' := if cnt < 0 then card - off else cnt
      let lit := if off > card then [] else
        (order.zipIdx.filter fun (z, i) => decide (off ≤ (i : Int)) && decide ((i : Int) ≤ cnt') && lo.le z.2 && z.2.le hi).map (·.1)
      (lit.map (·.1)) != ((Spec.window o (order.filter fun z => lo.le z.2 && z.2.le hi)).map (·.1))
    | _, _, _ => true
  | _ => true

/-- ZADD without INCR on an existing sorted set, pair by pair against the reference map as it evolves:
    the first pair on which the code's count or stored score departs names the class -/
def zaddSeqClass (f : Spec.ZFlags) : KMap Flt → List (Bytes × Flt) → Option String
  | _, [] => none
  | cur, (m, sc) :: r =>
    let old := cur.get m
    let allowed := Spec.zaddAllowed f old sc
    let next := if allowed then cur.put m sc else cur
    match old with
    | none =>
      if (f.gt || f.lt) && !f.xx && compareScores Flt.zero sc (if f.gt then b "gt" else b "lt") != sc then
        some "zadd-gt-lt-new-member-compared-with-zero"
      else zaddSeqClass f next r
    | some o =>
      if f.ch && ((f.xx && (o == sc || !allowed)) || (!f.xx && !f.nx && o != sc && !allowed)) then
        some "zadd-ch-counts-unchanged-members"
      else if !f.ch && !f.nx && !f.xx && o != sc then some "zadd-counts-updates-without-ch"
      else zaddSeqClass f next r

/-- sorted-set commands: the first applicable class -/
def classifyZSet (c : Ctx) (s : State) (cmd : List Bytes) : Option String :=
  let n := cmdName cmd
  let key := cmd.getD 1 []
  let lv := liveVal c s key
  let zs := liveZ c s key
  let modelPanics := match (step c s cmd).map (·.2) with
    | some (.panic _) => true
    | _ => false
  let optsHave (from_ : Nat) (w : Bytes) : Bool := (cmd.drop from_).any fun t => isAscii t && eqFold t w
  -- classes of repaired handlers whose input shape is shared with other classes are tied to the handler still doing
  -- what the class describes (like `modelPanics`): repaired, they stop occurring instead of shadowing the classes below
  let modelErrIs (m : Bytes) : Bool := match (step c s cmd).map (·.2) with
    | some (Outcome.done (Res.err e)) => e == m
    | _ => false
  let modelRankAlone : Bool := match (step c s cmd).map (·.2) with
    | some (Outcome.done (Res.ok r)) => (arrHdr 1).isPrefixOf r
    | _ => false
  if n == b "zadd" && cmd.length ≥ 4 then
    let (f, rest) := Spec.zaddFlags (cmd.drop 2) {}
    if (Spec.scoreArg key).isSome && modelErrIs (b "score/member pairs must be float/string") then some "zadd-numeric-key-rejected" else
    match Spec.zaddPairs rest with
    | .bad =>
      -- a later score that is not a number is skipped together with its member
      if rest.length ≥ 2 && rest.length % 2 == 0 && (Spec.scoreArg (rest.headD [])).isSome then some "zadd-non-numeric-score-skipped" else none
    | .silent => none
    | .ok pairs =>
      if (f.nx && f.xx) || (f.gt && f.lt) then some "zadd-conflicting-flags-accepted" else
      if (f.nx && f.xx) || (f.nx && (f.gt || f.lt)) || (f.gt && f.lt) || (f.incr && pairs.length != 1) then none else
      if lv.isNone then
        (if f.nx || f.xx || f.gt || f.lt || f.incr || (f.ch && (pairs.map (·.1)).eraseDups.length != pairs.length)
         then some "zadd-flags-ignored-on-new-key" else none)
      else match zs with
      | none => none
      | some ms =>
        if f.incr then
          match pairs with
          | [(m, d)] =>
            (match ms.get m with
             | some o => if o.isInf && (Spec.scoreSum o d).isSome then some "zincrby-infinite-score-rejected"
                         else if (f.nx || f.xx || f.gt || f.lt) then some "zadd-incr-ignores-conditions" else none
             | none => if (f.nx || f.xx || f.gt || f.lt) then some "zadd-incr-ignores-conditions" else none)
          | _ => none
        else zaddSeqClass f ms pairs
  else if n == b "zincrby" && cmd.length == 4 then
    match zs, Spec.scoreArg (cmd.getD 2 []) with
    | some ms, some (some d) => (match ms.get (cmd.getD 3 []) with
        | some o => if o.isInf && (Spec.scoreSum o d).isSome then some "zincrby-infinite-score-rejected" else none
        | none => none)
    | _, _ => none
  else if n == b "zmscore" && cmd.length ≥ 3 && lv.isNone then some "zmscore-absent-key-empty-array"
  else if n == b "zcount" && cmd.length == 4 &&
      ((match adaptType (cmd.getD 2 []), parseFloat64 (cmd.getD 2 []) with
        | .str t, some (some f) => f.isInf && toLower t != b "+inf"
        | _, _ => false) ||
       (match adaptType (cmd.getD 3 []), parseFloat64 (cmd.getD 3 []) with
        | .str t, some (some f) => f.isInf && toLower t != b "-inf"
        | _, _ => false)) then some "zcount-infinity-spelling-rejected"
  else if (n == b "zinter" || n == b "zunion" || n == b "zinterstore" || n == b "zunionstore") && modelPanics then
    some "zcombine-trailing-aggregate-panics"
  else if (n == b "zinterstore" || n == b "zunionstore") && (cmd.drop 2).contains key then some "zstore-destination-dropped-from-operands"
  else if n == b "zinterstore" && cmd.length ≥ 3 && zstoreKeyFuncErr cmd then some "zinterstore-options-need-two-keys"
  else if n == b "zunionstore" && cmd.length ≥ 3 && !Spec.isCombineWord key && ((cmd.drop 2).takeWhile fun t => !Spec.isCombineWord t).isEmpty then
    some "zunionstore-without-source-keys-accepted"
  else if (n == b "zinterstore" || n == b "zdiffstore") && (match zs with
      | some ms => !ms.isEmpty
      | none => false) &&
      (if n == b "zdiffstore" then (liveVal c s (cmd.getD 2 [])).isNone
       else ((cmd.drop 2).takeWhile fun t => !Spec.isCombineWord t).any fun k => (liveVal c s k).isNone) then
    some "zstore-absent-operand-keeps-destination"
  else if n == b "zrangestore" && cmd.length ≥ 5 && (liveVal c s (cmd.getD 2 [])).isNone then some "zrangestore-absent-source-replies-empty-array"
  else if n == b "zmpop" && ((cmd.drop 1).takeWhile fun t => !Spec.isZmpopWord t).any (fun k => match liveVal c s k with
      | some (.zset _ _) => false
      | some _ => true
      | none => false) then some "zmpop-skips-wrong-type-key"
  else if (n == b "zpopmin" || n == b "zpopmax") && cmd.length == 3 && parseInt64 (cmd.getD 2 []) == some 0 &&
      (match zs with
       | some ms => !ms.isEmpty
       | none => false) then some "zpop-zero-count-pops-one"
  else if n == b "zrandmember" && cmd.length ≥ 3 && (match zs, parseInt64 (cmd.getD 2 []) with
      | some ms, some cnt => !ms.isEmpty && cnt == 0
      | _, _ => false) then some "zrandmember-zero-count-returns-one"
  else if n == b "zrandmember" && cmd.length ≥ 3 && (match zs, parseInt64 (cmd.getD 2 []) with
      | some ms, some cnt => !ms.isEmpty && decide (cnt < 0) && decide (cnt.natAbs > ms.length)
      | _, _ => false) then some "zrandmember-negative-count-capped"
  else if n == b "zremrangebyrank" && cmd.length == 4 then
    match zs, parseInt64 (cmd.getD 2 []), parseInt64 (cmd.getD 3 []) with
    | some ms, some st, some en =>
      let card : Int := ms.length
      let start := if st < 0 then st + card else st
      let stop := if en < 0 then en + card else en
      if start < 0 || start > card - 1 || stop < 0 || stop > card - 1 then some "zremrangebyrank-rejects-out-of-range-indices"
      else if start > stop then some "zremrangebyrank-reversed-range-removes"
      else if (start > 0 && tieAt (Spec.refOrder ms) (start.toNat - 1)) || tieAt (Spec.refOrder ms) stop.toNat then
        some "zset-ties-ordered-by-map-iteration"
      else none
    | _, _, _ => none
  else if (n == b "zlexcount" || n == b "zremrangebylex") && cmd.length == 4 && (match zs with
      | some ms => ms.any fun z => lexDisagrees z.1 (cmd.getD 2 []) || lexDisagrees z.1 (cmd.getD 3 [])
      | none => false) then some "lex-compare-substring-rule"
  else if (n == b "zrange" || n == b "zrangestore") then
    let i := if n == b "zrange" then 2 else 3
    let src := if n == b "zrange" then key else cmd.getD 2 []
    match liveZ c s src with
    | none => none
    | some ms =>
      if cmd.length < i + 2 then none
      else if optsHave (i + 2) (b "limit") && limitDiffers ms (cmd.getD i []) (cmd.getD (i + 1) []) (cmd.drop (i + 2)) then
        some "zrange-limit-window-misapplied"
      else if n == b "zrangestore" && (match zs with
          | some d => !d.isEmpty
          | none => false) && (match Spec.rangeOpts (cmd.drop (i + 2)) {} with
          | .ok o => (match o.limit with
              | some (off, _) => decide (off > (ms.length : Int))
              | none => false) || (o.bylex && !Spec.zAllSame ms)
          | _ => false) then some "zrangestore-early-exit-keeps-destination"
      else if ms.isEmpty then none
      else if optsHave (i + 2) (b "bylex") then
        (if ms.any (fun z => lexDisagrees z.1 (cmd.getD i []) || lexDisagrees z.1 (cmd.getD (i + 1) []) ||
                     ms.any fun y => lexDisagrees z.1 y.1) then some "lex-compare-substring-rule" else none)
      else if n == b "zrange" then
        match parseFloat64 (cmd.getD i []), parseFloat64 (cmd.getD (i + 1) []) with
        | some (some lo), some (some hi) =>
          if hasTie (ms.filter fun z => lo.le z.2 && z.2.le hi) then some "zset-ties-ordered-by-map-iteration" else none
        | _, _ => none
      else if optsHave (i + 2) (b "limit") && hasTie ms then some "zset-ties-ordered-by-map-iteration"
      else none
  else if (n == b "zrank" || n == b "zrevrank") && cmd.length == 4 && isAscii (cmd.getD 3 []) && eqFold (cmd.getD 3 []) (b "withscore") &&
      (match zs with
       | some ms => (ms.get (cmd.getD 2 [])).isSome
       | none => false) && modelRankAlone then some "zrank-withscore-option-ignored"
  else if (n == b "zrank" || n == b "zrevrank") && cmd.length ≥ 3 then
    match zs with
    | some ms => (match ms.get (cmd.getD 2 []) with
        | some sc => if (ms.filter fun z => z.2 == sc).length ≥ 2 then some "zset-ties-ordered-by-map-iteration" else none
        | none => none)
    | none => none
  else if (n == b "zpopmin" || n == b "zpopmax") && cmd.length ≥ 2 then
    match zs, (if cmd.length == 3 then parseInt64 (cmd.getD 2 []) else some 1) with
    | some ms, some cnt =>
      let order := if n == b "zpopmax" then (Spec.refOrder ms).reverse else Spec.refOrder ms
      if cnt > 0 && tieAt order (cnt.toNat - 1) then some "zset-ties-ordered-by-map-iteration" else none
    | _, _ => none
  else if n == b "zmpop" then
    match ((cmd.drop 1).takeWhile fun t => !Spec.isZmpopWord t).findSome? fun k => match liveZ c s k with
        | some ms => if ms.isEmpty then none else some ms
        | none => none with
    | some ms => if hasTie ms then some "zset-ties-ordered-by-map-iteration" else none
    | none => none
  else none

/-- classes of the purity / no-aliasing property (C13) -/
def classifyPure (c : Ctx) (s : State) (cmd : List Bytes) : Option String :=
  let n := cmdName cmd
  if (keyArgsColl cmd).any (fun k => match liveVal c s k with | some (.set o _) => o != 0 | _ => false) then some "set-object-shared-between-keys"
  else if n == b "sunion" && (cmd.drop 1).eraseDups.length ≥ 2 then some "sunion-mutates-operand"
  else if n == b "sunionstore" then some "sunionstore-destination-aliases-source"
  else if n == b "sinterstore" && (cmd.drop 2).eraseDups.length == 1 then some "sinterstore-single-key-aliases-source"
  else none

/-- classification over every specified command -/
def classifyAll (c : Ctx) (s : State) (cmd : List Bytes) : Option String :=
  ((classifyKv c s cmd).orElse fun _ => classifyColl c s cmd).orElse fun _ => classifyZSet c s cmd

/-- classes of the memory-accounting property (C19): where `memUsed` stops being a function of the dataset -/
def classifyMem (c : Ctx) (s : State) (cmd : List Bytes) : Option String :=
  let n := cmdName cmd
  let present (k : Bytes) : Bool := (s.lookup c.db k).isSome
  if n == b "flushdb" || n == b "flushall" then some "flush-leaves-counter"
  else if (keyArgs cmd).any present || (keyArgsColl cmd).any present then some "rewrite-of-existing-key-not-reaccounted"
  else if (n == b "lpush" || n == b "rpush") then some "list-create-counted-twice"
  else none


end Sugar.Known
