/-
  Known — decidable classification of the inputs (pre-state, command) on which the *model* (hence the
  code it mirrors) departs from the reference specification. One predicate per defect; each is a
  specific call site or input shape. `classifyKv` is the exclusion set of the C01/C04 refinement
  theorems: outside it the model is proved to satisfy the spec.
-/
import SugarModel.Model.Dispatch
import SugarModel.Spec.RefColl
namespace Sugar.Known
open Sugar

/-- key stored with a deadline that has passed but not yet collected -/
def expiredPresent (c : Ctx) (s : State) (k : Bytes) : Bool :=
  match s.lookup c.db k with
  | some e => e.expired c.now
  | none => false

/-- key arguments of the key/value commands -/
def keyArgs (cmd : List Bytes) : List Bytes :=
  match cmd with
  | [] => []
  | name :: args =>
    let n := toLower name
    if n == b "mset" then (pairUp args).map (·.1)
    else if n == b "mget" || n == b "del" || n == b "rename" then args
    else if n == b "flushdb" || n == b "flushall" then []
    else args.take 1

def liveVal (c : Ctx) (s : State) (k : Bytes) : Option Val :=
  match s.lookup c.db k with
  | some e => if e.expired c.now then none else some e.val
  | none => none

def isComposite : Val → Bool
  | .list _ => true
  | .hash _ => true
  | .set _ _ => true
  | .zset _ _ => true
  | _ => false

/-- bytes that AdaptType re-types to a number whose canonical text differs (007, 1e3, +5, 1.50, clamped) -/
def nonCanonical (v : Bytes) : Bool :=
  match adaptType v with
  | .int i => fmtInt i != v
  | .flt f => f.fmtG != v
  | _ => false

def hasCrLf (v : Bytes) : Bool := v.any fun c => c == 13 || c == 10

def scalarTextOf : Val → Option Bytes
  | .str s => some s
  | .int i => some (fmtInt i)
  | .flt f => some f.fmtG
  | _ => none

def cmdName (cmd : List Bytes) : Bytes := toLower (cmd.headD [])

def setHasGet (cmd : List Bytes) : Bool := (cmd.drop 3).any fun t => toLower t == b "get"

/-- the first applicable class, by name -/
def classifyKv (c : Ctx) (s : State) (cmd : List Bytes) : Option String :=
  let n := cmdName cmd
  let key := (cmd.drop 1).headD []
  let lv := liveVal c s key
  let txt := lv.bind scalarTextOf
  let modelOut := (step c s cmd).map (·.2)
  let modelPanics := match modelOut with
    | some (.panic _) => true
    | _ => false
  if (keyArgs cmd).any (expiredPresent c s) then some "expired-key-still-exists"
  else if (n == b "flushdb") && cmd.length == 1 && !s.hasDb c.db then some "flushdb-before-first-write-panics"
  else if (n == b "getrange" || n == b "substr") && modelPanics then some "getrange-index-panic"
  else if n == b "type" && modelPanics then some "type-nil-value-panic"
  else if (n == b "get" || n == b "getdel" || n == b "getex" || (n == b "set" && setHasGet cmd)) &&
          (lv.map isComposite == some true) then some "get-on-collection-answers-dump"
  else if (n == b "get" || n == b "getdel" || n == b "getex" || (n == b "set" && setHasGet cmd)) &&
          (txt.map hasCrLf == some true) then some "simple-string-reply-carries-crlf"
  else if n == b "getex" && cmd.length == 3 && toLower (cmd.getD 2 []) == b "persist" then some "getex-persist-ignored"
  else if n == b "set" && nonCanonical (cmd.getD 2 []) then some "numeric-text-rewritten"
  else if n == b "mset" && (pairUp (cmd.drop 1)).any (fun p => nonCanonical p.2) then some "numeric-text-rewritten"
  else if n == b "append" && cmd.length == 3 &&
          (match lv with
            | none => nonCanonical (cmd.getD 2 [])
            | some (.str t) => nonCanonical (t ++ cmd.getD 2 [])
            | _ => false) then some "numeric-text-rewritten"
  else if n == b "mget" && (cmd.drop 1).any (fun k => (liveVal c s k).bind scalarTextOf == some []) then some "mget-empty-string-as-nil"
  else if n == b "rename" && cmd.length == 3 && lv.isSome && cmd.getD 1 [] == cmd.getD 2 [] then some "rename-onto-itself-deletes"
  else if n == b "rename" && cmd.length == 3 && lv.isSome then
    -- source deadline dropped / target deadline inherited
    let srcExp := (s.lookup c.db key).bind (·.exp)
    let dstExp := match s.lookup c.db (cmd.getD 2 []) with
      | some e => if e.expired c.now then none else e.exp
      | none => none
    if dstExp.isSome && dstExp != srcExp then some "rename-inherits-target-deadline" else none
  else if n == b "setrange" && cmd.length == 4 && lv.isNone && (s.lookup c.db key).isNone then some "setrange-absent-key-creates-nothing"
  else if n == b "setrange" && cmd.length == 4 &&
          (match lv with
            | some (.str t) => !isAscii t || !isAscii (cmd.getD 3 [])
            | _ => false) then some "setrange-non-ascii-bytes-corrupted"
  else if (n == b "incr" || n == b "decr" || n == b "incrby" || n == b "decrby") then
    -- 64-bit wrap-around instead of an overflow error
    let delta : Option Int := if n == b "incr" then some 1 else if n == b "decr" then some (-1)
      else (parseInt64 (cmd.getD 2 [])).map fun d => if n == b "incrby" then d else -d
    let cur : Option Int := match lv with
      | none => some 0
      | some (.str t) => parseInt64 t
      | some (.int i) => some i
      | _ => none
    match delta, cur with
    | some d, some cu => if cu + d < minInt64 || cu + d > maxInt64 then some "integer-overflow-wraps" else none
    | _, _ => none
  else none

end Sugar.Known

namespace Sugar.Known
open Sugar

/-- candidate key arguments of the collection commands (over-approximation) -/
def keyArgsColl (cmd : List Bytes) : List Bytes :=
  match cmd with
  | [] => []
  | name :: args =>
    let n := toLower name
    if n == b "lmove" || n == b "smove" then args.take 2
    else if n == b "sdiff" || n == b "sinter" || n == b "sunion" || n == b "sdiffstore" || n == b "sinterstore" ||
            n == b "sunionstore" || n == b "sintercard" then args
    else args.take 1

def adjacentPair (l : List Bytes) (v : Bytes) : Bool :=
  match l with
  | x :: y :: r => (x == v && y == v) || adjacentPair (y :: r) v
  | _ => false

/-- numeric-looking field value that the hash stores in a different spelling -/
def nonCanonicalF (v : Bytes) : Bool :=
  match adaptType v with
  | .int i => fmtInt i != v
  | .flt f => f.fmtF != v
  | _ => false

def liveSet (c : Ctx) (s : State) (k : Bytes) : Option (Nat × List Bytes) :=
  match liveVal c s k with
  | some (.set o ms) => some (o, ms)
  | _ => none

def classifyColl (c : Ctx) (s : State) (cmd : List Bytes) : Option String :=
  let n := cmdName cmd
  let key := (cmd.drop 1).headD []
  let lv := liveVal c s key
  let modelOut := (step c s cmd).map (·.2)
  let modelPanics := match modelOut with
    | some (.panic _) => true
    | _ => false
  let emptyArr := match modelOut with
    | some (.done (.ok r)) => r == b "*0"
    | _ => false
  if (keyArgsColl cmd).any (expiredPresent c s) then some "expired-key-still-exists"
  else if (keyArgsColl cmd).any (fun k => match liveVal c s k with | some v => v.oid != 0 | none => false) then some "set-object-shared-between-keys"
  else if n == b "lrange" && modelPanics then some "lrange-index-panic"
  else if n == b "ltrim" && modelPanics then some "ltrim-index-panic"
  else if n == b "lmove" && modelPanics then some "lmove-empty-source-panic"
  else if n == b "hrandfield" && modelPanics then some "hrandfield-empty-hash-panic"
  else if emptyArr then some "empty-array-without-terminator"
  else if n == b "lrange" && cmd.length == 4 && (match lv, parseInt64 (cmd.getD 3 []) with
      | some (.list _), some e => decide (e < 0)
      | _, _ => false) then some "lrange-negative-end-miscomputed"
  else if n == b "lrem" && cmd.length == 4 && (match lv, parseInt64 (cmd.getD 2 []) with
      | some (.list l), some cnt => decide (cnt ≥ 0) && adjacentPair l (cmd.getD 3 [])
      | _, _ => false) then some "lrem-skips-adjacent-matches"
  else if n == b "lmove" && cmd.length == 5 && cmd.getD 1 [] == cmd.getD 2 [] && lv.isSome then some "lmove-same-key-duplicates"
  else if (n == b "hset" || n == b "hsetnx") && cmd.length ≥ 4 && (match lv with
      | some (.hash _) => false
      | some _ => true
      | none => false) then some "hset-on-wrong-type-replaces"
  else if (n == b "hset" || n == b "hsetnx") && (Spec.fvPairs (cmd.drop 2)).any (fun p => nonCanonicalF p.2) then some "hash-numeric-text-rewritten"
  else if n == b "hset" && (match lv with
      | some (.hash h) =>
        let fields := ((Spec.fvPairs (cmd.drop 2)).map (·.1)).eraseDups
        let fresh := (fields.filter fun f => (h.get f).isNone).length
        h.length + fresh != fresh && h.length + fresh != fields.length
      | _ => false) then some "hset-reply-counts-all-fields"
  else if n == b "hincrby" && cmd.length == 4 && (match lv, parseInt64 (cmd.getD 3 []) with
      | some (.hash h), some d => (match h.get (cmd.getD 2 []) with
          | some (.int i) => decide (i + d < minInt64 || i + d > maxInt64)
          | _ => false)
      | _, _ => false) then some "hash-integer-overflow-wraps"
  else if n == b "hincrby" && cmd.length == 4 && (match lv with
      | some (.hash h) => (match h.get (cmd.getD 2 []) with
          | some (.flt _) => true
          | _ => false)
      | _ => false) then some "hincrby-float-typed-field"
  else if n == b "sintercard" && (match cmd.findIdx? (fun t => eqFold t (b "limit")) with
      | some i => i ≥ 2 && ((cmd.take i).drop 1).eraseDups.length == 1
      | none => false) then some "sintercard-single-key-ignores-limit"
  else if n == b "sadd" && lv.isNone && (cmd.drop 2).eraseDups.length != (cmd.drop 2).length then some "sadd-new-key-counts-duplicates"
  else if (n == b "sunion" || n == b "sunionstore") &&
          ((if n == b "sunion" then cmd.drop 1 else cmd.drop 2).any fun k => (liveVal c s k).isNone) then some "sunion-absent-key-rejected"
  else if (n == b "sunion" || n == b "sunionstore") &&
          ((if n == b "sunion" then cmd.drop 1 else cmd.drop 2).eraseDups.length ≥ 2) then some "sunion-mutates-operand"
  else if n == b "sinterstore" && ((cmd.drop 2).any fun k => (liveVal c s k).isNone) then some "sinterstore-absent-operand-keeps-destination"
  else if n == b "srandmember" && cmd.length == 3 && (match liveSet c s key, Spec.intArg? (cmd.getD 2 []) with
      | some (_, ms), some (some cnt) => decide (cnt < 0) && decide (cnt.natAbs ≥ ms.length)
      | _, _ => false) then some "srandmember-negative-count-capped"
  else none

/-- classes of the purity / no-aliasing property (C13) -/
def classifyPure (c : Ctx) (s : State) (cmd : List Bytes) : Option String :=
  let n := cmdName cmd
  if (keyArgsColl cmd).any (fun k => match liveVal c s k with | some v => v.oid != 0 | none => false) then some "set-object-shared-between-keys"
  else if n == b "sunion" && (cmd.drop 1).eraseDups.length ≥ 2 then some "sunion-mutates-operand"
  else if n == b "sunionstore" then some "sunionstore-destination-aliases-source"
  else if n == b "sinterstore" && (cmd.drop 2).eraseDups.length == 1 then some "sinterstore-single-key-aliases-source"
  else none

/-- classification over every specified command -/
def classifyAll (c : Ctx) (s : State) (cmd : List Bytes) : Option String :=
  (classifyKv c s cmd).orElse fun _ => classifyColl c s cmd

/-- classes of the memory-accounting property (C19): where `memUsed` stops being a function of the dataset -/
def classifyMem (c : Ctx) (s : State) (cmd : List Bytes) : Option String :=
  let n := cmdName cmd
  let present (k : Bytes) : Bool := (s.lookup c.db k).isSome
  if n == b "flushdb" || n == b "flushall" then some "flush-leaves-counter"
  else if (keyArgs cmd).any present || (keyArgsColl cmd).any present then some "rewrite-of-existing-key-not-reaccounted"
  else if (n == b "lpush" || n == b "rpush") then some "list-create-counted-twice"
  else none


end Sugar.Known
