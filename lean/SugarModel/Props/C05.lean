/-
  Props.C05 — atomicity of commands under interleaving of their keyspace steps.
  The store lock is held per keyspace call, so the unit of interleaving is one hooked primitive
  (Model.Sched). What holds: a client alone behaves exactly as the sequential semantics; two commands
  that each make at most one keyspace call are atomic under every schedule. What fails: any command
  with a read step followed by a write step (witness schedules, replayed on the implementation).
-/
import SugarModel.Model.Sched
namespace Sugar.Props.C05
open Sugar Sugar.Sched

/-- **A client with nobody else moving is the sequential semantics**: state and outcome of `runAlone`
    are those of `Prog.run`, for every program, context and state. -/
theorem alone_is_run (c : Ctx) : ∀ (p : Prog Res) (s : State),
    ((runAlone c p s).1, (runAlone c p s).2.1) = p.run c s := by
  intro p
  induction p with
  | ret a => intro s; rfl
  | panic w => intro s; rfl
  | unmod w => intro s; rfl
  | call q k ih =>
    intro s
    simp only [runAlone, Prog.run]
    cases hq : q.exec c s with
    | none => rfl
    | some sr =>
      obtain ⟨s', r⟩ := sr
      simp only
      exact ih r s'

/-- settling a program and then finishing the thread is running it alone (the trace aside) -/
theorem settle_then_finish (c : Ctx) : ∀ (p : Prog Res) (s : State),
    (let (s1, t) := settle c p s; ((finish c t s1).1, (finish c t s1).2.1)) = p.run c s := by
  intro p
  induction p with
  | ret a => intro s; rfl
  | panic w => intro s; rfl
  | unmod w => intro s; rfl
  | call q k ih =>
    intro s
    simp only [settle]
    by_cases hh : hooked q = true
    · simp only [hh, if_true, finish]
      exact alone_is_run c (.call q k) s
    · simp only [hh, Bool.false_eq_true, if_false, Prog.run]
      cases hq : q.exec c s with
      | none => rfl
      | some sr =>
        obtain ⟨s', r⟩ := sr
        simp only
        exact ih r s'

/-- a thread that finishes at its next step, whatever the state it is run in -/
def OneStep (c : Ctx) : Thread → Prop
  | .done _ => True
  | .parked p k => ∀ s s' r, p.exec c s = some (s', r) → ∃ o s'', settle c (k r) s' = (s'', .done o)

theorem stepThread_done (c : Ctx) (o : Outcome Res) (s : State) : stepThread c (.done o) s = (s, .done o, none) := rfl

theorem oneStep_step_done (c : Ctx) (t : Thread) (h : OneStep c t) (s : State) :
    ∃ o, (stepThread c t s).2.1 = .done o := by
  cases t with
  | done o => exact ⟨o, rfl⟩
  | parked p k =>
    simp only [stepThread]
    cases hq : p.exec c s with
    | none => exact ⟨_, rfl⟩
    | some sr =>
      obtain ⟨s', r⟩ := sr
      obtain ⟨o, s'', hs⟩ := h s s' r hq
      simp only [hs]
      exact ⟨o, rfl⟩

/-- finishing a one-step thread is exactly one `stepThread` -/
theorem finish_oneStep (c : Ctx) (t : Thread) (h : OneStep c t) (s : State) :
    ((finish c t s).1, (finish c t s).2.1) = ((stepThread c t s).1, match (stepThread c t s).2.1 with | .done o => o | .parked _ _ => .unmod "parked") := by
  cases t with
  | done o => rfl
  | parked p k =>
    simp only [finish, runAlone, stepThread]
    cases hq : p.exec c s with
    | none => rfl
    | some sr =>
      obtain ⟨s', r⟩ := sr
      obtain ⟨o, s'', hs⟩ := h s s' r hq
      simp only [hs]
      -- running `k r` alone agrees with settling it, which finishes without parking
      have := settle_then_finish c (k r) s'
      simp only [hs, finish] at this
      have h2 := alone_is_run c (k r) s'
      rw [← this] at h2
      simp only [Prod.mk.injEq] at h2
      simp [h2.1, h2.2]

/-- the two serial outcomes of a pair of threads -/
def serialAB (cA cB : Ctx) (tA tB : Thread) (s : State) : State × Outcome Res × Outcome Res :=
  let (s1, oa, _) := finish cA tA s
  let (s2, ob, _) := finish cB tB s1
  (s2, oa, ob)

def serialBA (cA cB : Ctx) (tA tB : Thread) (s : State) : State × Outcome Res × Outcome Res :=
  let (s1, ob, _) := finish cB tB s
  let (s2, oa, _) := finish cA tA s1
  (s2, oa, ob)

def core (r : Result) : State × Outcome Res × Outcome Res := (r.post, r.a, r.b)

/-- for a one-step thread, one scheduling step and running it to completion coincide -/
theorem oneStep_finish_eq (c : Ctx) (t : Thread) (h : OneStep c t) (s : State) :
    ∃ s' o n tr, stepThread c t s = (s', .done o, n) ∧ finish c t s = (s', o, tr) := by
  cases t with
  | done o => exact ⟨s, o, none, [], rfl, rfl⟩
  | parked p k =>
    simp only [finish, runAlone, stepThread]
    cases hq : p.exec c s with
    | none => exact ⟨_, _, _, _, rfl, rfl⟩
    | some sr =>
      obtain ⟨s', r⟩ := sr
      obtain ⟨o, s'', hs⟩ := h s s' r hq
      have h1 := settle_then_finish c (k r) s'
      simp only [hs, finish] at h1
      have h2 := alone_is_run c (k r) s'
      rw [← h1] at h2
      simp only [Prod.mk.injEq] at h2
      refine ⟨s'', o, some (pointName p), (if hooked p = true then pointName p :: (runAlone c (k r) s').2.2 else (runAlone c (k r) s').2.2), ?_, ?_⟩
      · simp only [hs]
      · simp only [h2.1, h2.2]

theorem runSched_both_done (cA cB : Ctx) (oa ob : Outcome Res) : ∀ (sched : List Bool) (s : State) (trA trB : List String),
    core (runSched cA cB sched (.done oa) (.done ob) s trA trB) = (s, oa, ob) := by
  intro sched
  induction sched with
  | nil => intro s trA trB; rfl
  | cons x r ih =>
    intro s trA trB
    cases x <;> simp only [runSched, stepThread] <;> exact ih _ _ _

theorem runSched_A_done (cA cB : Ctx) (oa : Outcome Res) (tB : Thread) (hB : OneStep cB tB) :
    ∀ (sched : List Bool) (s : State) (trA trB : List String),
    core (runSched cA cB sched (.done oa) tB s trA trB) = ((finish cB tB s).1, oa, (finish cB tB s).2.1) := by
  intro sched
  induction sched with
  | nil => intro s trA trB; simp only [runSched, finish, core]
  | cons x r ih =>
    intro s trA trB
    cases x
    · obtain ⟨s', o, n, tr, h1, h2⟩ := oneStep_finish_eq cB tB hB s
      simp only [runSched, h1, h2]
      exact runSched_both_done cA cB oa o r s' _ _
    · simp only [runSched, stepThread]
      exact ih _ _ _

theorem runSched_B_done (cA cB : Ctx) (ob : Outcome Res) (tA : Thread) (hA : OneStep cA tA) :
    ∀ (sched : List Bool) (s : State) (trA trB : List String),
    core (runSched cA cB sched tA (.done ob) s trA trB) = ((finish cA tA s).1, (finish cA tA s).2.1, ob) := by
  intro sched
  induction sched with
  | nil => intro s trA trB; simp only [runSched, finish, core]
  | cons x r ih =>
    intro s trA trB
    cases x
    · simp only [runSched, stepThread]
      exact ih _ _ _
    · obtain ⟨s', o, n, tr, h1, h2⟩ := oneStep_finish_eq cA tA hA s
      simp only [runSched, h1, h2]
      exact runSched_both_done cA cB o ob r s' _ _

/-- **Two commands that each make at most one keyspace call are atomic**: for every schedule, the final
    state and both replies are those of one of the two serial orders. (MSET, MGET, FLUSHDB, and every
    command whose handler calls a single primitive.) -/
theorem both_one_step_atomic (cA cB : Ctx) (tA tB : Thread) (hA : OneStep cA tA) (hB : OneStep cB tB)
    (sched : List Bool) (s : State) :
    core (runSched cA cB sched tA tB s [] []) = serialAB cA cB tA tB s ∨
    core (runSched cA cB sched tA tB s [] []) = serialBA cA cB tA tB s := by
  cases sched with
  | nil => left; rfl
  | cons x r =>
    cases x
    · right
      obtain ⟨s', o, n, tr, h1, h2⟩ := oneStep_finish_eq cB tB hB s
      simp only [runSched, h1, serialBA, h2]
      rw [runSched_B_done cA cB o tA hA r s' _ _]
    · left
      obtain ⟨s', o, n, tr, h1, h2⟩ := oneStep_finish_eq cA tA hA s
      simp only [runSched, h1, serialAB, h2]
      rw [runSched_A_done cA cB o tB hB r s' _ _]

/-- MSET denotes a one-step thread (a single SetValues), whatever its arguments -/
theorem mset_one_step (c : Ctx) (cmd : List Bytes) (s : State) : OneStep c (settle c (handleMSet c cmd) s).2 := by
  unfold handleMSet
  simp only
  by_cases h1 : (((cmd.drop 1).length % 2 != 0) = true)
  · rw [if_pos h1]; simp [settle, OneStep]
  · rw [if_neg h1]
    cases adaptAll (pairUp (cmd.drop 1)) with
    | none => simp [settle, OneStep]
    | some es =>
      simp only [setOrErr, settle, hooked, if_true, OneStep]
      intro s0 s1 r _
      cases r <;> simp [settle]

/-- non-vacuity: MSET ‖ MSET on the same keys is atomic under every schedule -/
example (sched : List Bool) (s : State) (c1 c2 : Ctx) (x y : List Bytes) :
    let tA := (settle c1 (handleMSet c1 x) s).2
    let tB := (settle c2 (handleMSet c2 y) s).2
    core (runSched c1 c2 sched tA tB s [] []) = serialAB c1 c2 tA tB s ∨
    core (runSched c1 c2 sched tA tB s [] []) = serialBA c1 c2 tA tB s :=
  both_one_step_atomic c1 c2 _ _ (mset_one_step c1 x s) (mset_one_step c2 y s) sched s

/-! ### the failure: read-then-write handlers lose updates -/

/-- **INCR ‖ INCR, schedule A B A B**: both read 5, both write 6, both answer 6 — the outcome of neither
    serial order (which answer 6 and 7). -/
theorem incr_lost_update_witness :
    let c1 : Ctx := { db := 0, now := 1000, conn := some 2 }
    let c2 : Ctx := { db := 0, now := 1000, conn := some 3 }
    let s : State := { dbs := [(0, ⟨[(b "n", ⟨.int 5, none⟩)], []⟩)], mem := 0 }
    (interleave c1 c2 [b "incr", b "n"] [b "incr", b "n"] [true, false, true, false] s).map (fun r => (r.a, r.b, r.post.lookup 0 (b "n")))
      = some (.done (.ok (intReply 6)), .done (.ok (intReply 6)), some ⟨.str (b "6"), none⟩) ∧
    (interleave c1 c2 [b "incr", b "n"] [b "incr", b "n"] [true, true, false, false] s).map (fun r => (r.a, r.b))
      = some (.done (.ok (intReply 6)), .done (.ok (intReply 7))) := by decide

/-- **LPUSH ‖ LPUSH loses an element** under the schedule that lets both read before either writes -/
theorem lpush_lost_element_witness :
    let c1 : Ctx := { db := 0, now := 1000, conn := some 2 }
    let c2 : Ctx := { db := 0, now := 1000, conn := some 3 }
    let s : State := { dbs := [(0, ⟨[(b "l", ⟨.list [b "x"], none⟩)], []⟩)], mem := 0 }
    ((interleave c1 c2 [b "lpush", b "l", b "p"] [b "lpush", b "l", b "q"] [true, false, true, false, true, false] s).map
      fun r => r.post.lookup 0 (b "l")) = some (some ⟨.list [b "q", b "x"], none⟩) := by decide

end Sugar.Props.C05
