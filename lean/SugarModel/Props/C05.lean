/-
  Props.C05 — atomicity of commands under interleaving of their keyspace steps.
  The store lock is held per keyspace call, so the unit of interleaving is one hooked primitive
  (Model.Sched). What holds: a client alone behaves exactly as the sequential semantics; two commands
  that each make at most one keyspace call are atomic under every schedule. What fails: any command
  with a read step followed by a write step (witness schedules, replayed on the implementation).
-/
import SugarModel.Model.Sched
import SugarModel.Lemmas.SchedCommute
import SugarModel.Lemmas.Footprint
namespace Sugar.Props.C05
open Sugar Sugar.Sched

/-- **A client with nobody else moving is the sequential semantics**: state and outcome of `runAlone`
    are those of `Prog.run`, for every program, context and state. -/
theorem alone_is_run (c : Ctx) : ∀ (p : Prog Res) (s : State),
    ((runAlone c p s).1, (runAlone c p s).2.1) = p.run c s := by
  intro p
  induction p with
  | ret a => intro s; rfl
  | panic w => intro s; rfl
  | unmod w => intro s; rfl
  | call q k ih =>
    intro s
    simp only [runAlone, Prog.run]
    cases hq : q.exec c s with
    | none => rfl
    | some sr =>
      obtain ⟨s', r⟩ := sr
      simp only
      exact ih r s'

/-- settling a program and then finishing the thread is running it alone (the trace aside) -/
theorem settle_then_finish (c : Ctx) : ∀ (p : Prog Res) (s : State),
    (let (s1, t) := settle c p s; ((finish c t s1).1, (finish c t s1).2.1)) = p.run c s := by
  intro p
  induction p with
  | ret a => intro s; rfl
  | panic w => intro s; rfl
  | unmod w => intro s; rfl
  | call q k ih =>
    intro s
    simp only [settle]
    by_cases hh : hooked q = true
    · simp only [hh, if_true, finish]
      exact alone_is_run c (.call q k) s
    · simp only [hh, Bool.false_eq_true, if_false, Prog.run]
      cases hq : q.exec c s with
      | none => rfl
      | some sr =>
        obtain ⟨s', r⟩ := sr
        simp only
        exact ih r s'

/-- a thread that finishes at its next step, whatever the state it is run in -/
def OneStep (c : Ctx) : Thread → Prop
  | .done _ => True
  | .parked p k => ∀ s s' r, p.exec c s = some (s', r) → ∃ o s'', settle c (k r) s' = (s'', .done o)

theorem stepThread_done (c : Ctx) (o : Outcome Res) (s : State) : stepThread c (.done o) s = (s, .done o, none) := rfl

theorem oneStep_step_done (c : Ctx) (t : Thread) (h : OneStep c t) (s : State) :
    ∃ o, (stepThread c t s).2.1 = .done o := by
  cases t with
  | done o => exact ⟨o, rfl⟩
  | parked p k =>
    simp only [stepThread]
    cases hq : p.exec c s with
    | none => exact ⟨_, rfl⟩
    | some sr =>
      obtain ⟨s', r⟩ := sr
      obtain ⟨o, s'', hs⟩ := h s s' r hq
      simp only [hs]
      exact ⟨o, rfl⟩

/-- finishing a one-step thread is exactly one `stepThread` -/
theorem finish_oneStep (c : Ctx) (t : Thread) (h : OneStep c t) (s : State) :
    ((finish c t s).1, (finish c t s).2.1) = ((stepThread c t s).1, match (stepThread c t s).2.1 with | .done o => o | .parked _ _ => .unmod "parked") := by
  cases t with
  | done o => rfl
  | parked p k =>
    simp only [finish, runAlone, stepThread]
    cases hq : p.exec c s with
    | none => rfl
    | some sr =>
      obtain ⟨s', r⟩ := sr
      obtain ⟨o, s'', hs⟩ := h s s' r hq
      simp only [hs]
      -- running `k r` alone agrees with settling it, which finishes without parking
      have := settle_then_finish c (k r) s'
      simp only [hs, finish] at this
      have h2 := alone_is_run c (k r) s'
      rw [← this] at h2
      simp only [Prod.mk.injEq] at h2
      simp [h2.1, h2.2]

/-- the two serial outcomes of a pair of threads -/
def serialAB (cA cB : Ctx) (tA tB : Thread) (s : State) : State × Outcome Res × Outcome Res :=
  let (s1, oa, _) := finish cA tA s
  let (s2, ob, _) := finish cB tB s1
  (s2, oa, ob)

def serialBA (cA cB : Ctx) (tA tB : Thread) (s : State) : State × Outcome Res × Outcome Res :=
  let (s1, ob, _) := finish cB tB s
  let (s2, oa, _) := finish cA tA s1
  (s2, oa, ob)

def core (r : Result) : State × Outcome Res × Outcome Res := (r.post, r.a, r.b)

/-- for a one-step thread, one scheduling step and running it to completion coincide -/
theorem oneStep_finish_eq (c : Ctx) (t : Thread) (h : OneStep c t) (s : State) :
    ∃ s' o n tr, stepThread c t s = (s', .done o, n) ∧ finish c t s = (s', o, tr) := by
  cases t with
  | done o => exact ⟨s, o, none, [], rfl, rfl⟩
  | parked p k =>
    simp only [finish, runAlone, stepThread]
    cases hq : p.exec c s with
    | none => exact ⟨_, _, _, _, rfl, rfl⟩
    | some sr =>
      obtain ⟨s', r⟩ := sr
      obtain ⟨o, s'', hs⟩ := h s s' r hq
      have h1 := settle_then_finish c (k r) s'
      simp only [hs, finish] at h1
      have h2 := alone_is_run c (k r) s'
      rw [← h1] at h2
      simp only [Prod.mk.injEq] at h2
      refine ⟨s'', o, some (pointName p), (if hooked p = true then pointName p :: (runAlone c (k r) s').2.2 else (runAlone c (k r) s').2.2), ?_, ?_⟩
      · simp only [hs]
      · simp only [h2.1, h2.2]

theorem runSched_both_done (cA cB : Ctx) (oa ob : Outcome Res) : ∀ (sched : List Bool) (s : State) (trA trB : List String),
    core (runSched cA cB sched (.done oa) (.done ob) s trA trB) = (s, oa, ob) := by
  intro sched
  induction sched with
  | nil => intro s trA trB; rfl
  | cons x r ih =>
    intro s trA trB
    cases x <;> simp only [runSched, stepThread] <;> exact ih _ _ _

theorem runSched_A_done (cA cB : Ctx) (oa : Outcome Res) (tB : Thread) (hB : OneStep cB tB) :
    ∀ (sched : List Bool) (s : State) (trA trB : List String),
    core (runSched cA cB sched (.done oa) tB s trA trB) = ((finish cB tB s).1, oa, (finish cB tB s).2.1) := by
  intro sched
  induction sched with
  | nil => intro s trA trB; simp only [runSched, finish, core]
  | cons x r ih =>
    intro s trA trB
    cases x
    · obtain ⟨s', o, n, tr, h1, h2⟩ := oneStep_finish_eq cB tB hB s
      simp only [runSched, h1, h2]
      exact runSched_both_done cA cB oa o r s' _ _
    · simp only [runSched, stepThread]
      exact ih _ _ _

theorem runSched_B_done (cA cB : Ctx) (ob : Outcome Res) (tA : Thread) (hA : OneStep cA tA) :
    ∀ (sched : List Bool) (s : State) (trA trB : List String),
    core (runSched cA cB sched tA (.done ob) s trA trB) = ((finish cA tA s).1, (finish cA tA s).2.1, ob) := by
  intro sched
  induction sched with
  | nil => intro s trA trB; simp only [runSched, finish, core]
  | cons x r ih =>
    intro s trA trB
    cases x
    · simp only [runSched, stepThread]
      exact ih _ _ _
    · obtain ⟨s', o, n, tr, h1, h2⟩ := oneStep_finish_eq cA tA hA s
      simp only [runSched, h1, h2]
      exact runSched_both_done cA cB o ob r s' _ _

/-- **Two commands that each make at most one keyspace call are atomic**: for every schedule, the final
    state and both replies are those of one of the two serial orders. (MSET, MGET, FLUSHDB, and every
    command whose handler calls a single primitive.) -/
theorem both_one_step_atomic (cA cB : Ctx) (tA tB : Thread) (hA : OneStep cA tA) (hB : OneStep cB tB)
    (sched : List Bool) (s : State) :
    core (runSched cA cB sched tA tB s [] []) = serialAB cA cB tA tB s ∨
    core (runSched cA cB sched tA tB s [] []) = serialBA cA cB tA tB s := by
  cases sched with
  | nil => left; rfl
  | cons x r =>
    cases x
    · right
      obtain ⟨s', o, n, tr, h1, h2⟩ := oneStep_finish_eq cB tB hB s
      simp only [runSched, h1, serialBA, h2]
      rw [runSched_B_done cA cB o tA hA r s' _ _]
    · left
      obtain ⟨s', o, n, tr, h1, h2⟩ := oneStep_finish_eq cA tA hA s
      simp only [runSched, h1, serialAB, h2]
      rw [runSched_A_done cA cB o tB hB r s' _ _]

/-- MSET denotes a one-step thread (a single SetValues), whatever its arguments -/
theorem mset_one_step (c : Ctx) (cmd : List Bytes) (s : State) : OneStep c (settle c (handleMSet c cmd) s).2 := by
  unfold handleMSet
  simp only
  by_cases h1 : (((cmd.drop 1).length % 2 != 0) = true)
  · rw [if_pos h1]; simp [settle, OneStep]
  · rw [if_neg h1]
    cases adaptAll (pairUp (cmd.drop 1)) with
    | none => simp [settle, OneStep]
    | some es =>
      simp only [setOrErr, settle, hooked, if_true, OneStep]
      intro s0 s1 r _
      cases r <;> simp [settle]

/-- non-vacuity: MSET ‖ MSET on the same keys is atomic under every schedule -/
example (sched : List Bool) (s : State) (c1 c2 : Ctx) (x y : List Bytes) :
    let tA := (settle c1 (handleMSet c1 x) s).2
    let tB := (settle c2 (handleMSet c2 y) s).2
    core (runSched c1 c2 sched tA tB s [] []) = serialAB c1 c2 tA tB s ∨
    core (runSched c1 c2 sched tA tB s [] []) = serialBA c1 c2 tA tB s :=
  both_one_step_atomic c1 c2 _ _ (mset_one_step c1 x s) (mset_one_step c2 y s) sched s

/-! ### the failure: read-then-write handlers lose updates -/

/-- **INCR ‖ INCR, schedule A B A B**: both read 5, both write 6, both answer 6 — the outcome of neither
    serial order (which answer 6 and 7). -/
theorem incr_lost_update_witness :
    let c1 : Ctx := { db := 0, now := 1000, conn := some 2 }
    let c2 : Ctx := { db := 0, now := 1000, conn := some 3 }
    let s : State := { dbs := [(0, ⟨[(b "n", ⟨.int 5, none⟩)], []⟩)], mem := 0 }
    (interleave c1 c2 [b "incr", b "n"] [b "incr", b "n"] [true, false, true, false] s).map (fun r => (r.a, r.b, r.post.lookup 0 (b "n")))
      = some (.done (.ok (intReply 6)), .done (.ok (intReply 6)), some ⟨.str (b "6"), none⟩) ∧
    (interleave c1 c2 [b "incr", b "n"] [b "incr", b "n"] [true, true, false, false] s).map (fun r => (r.a, r.b))
      = some (.done (.ok (intReply 6)), .done (.ok (intReply 7))) := by decide

/-- **LPUSH ‖ LPUSH loses an element** under the schedule that lets both read before either writes -/
theorem lpush_lost_element_witness :
    let c1 : Ctx := { db := 0, now := 1000, conn := some 2 }
    let c2 : Ctx := { db := 0, now := 1000, conn := some 3 }
    let s : State := { dbs := [(0, ⟨[(b "l", ⟨.list [b "x"], none⟩)], []⟩)], mem := 0 }
    ((interleave c1 c2 [b "lpush", b "l", b "p"] [b "lpush", b "l", b "q"] [true, false, true, false, true, false] s).map
      fun r => r.post.lookup 0 (b "l")) = some (some ⟨.list [b "q", b "x"], none⟩) := by decide

/-! ### the second positive result: commands with disjoint key footprints are serializable under every schedule

  Footprints: `Prim.keys` / `Prog.Within` (Lemmas.SchedCommute). States are compared up to `State.Equiv`
  (same cells, same volatile-index membership, same databases, same memory counter, same connection table):
  two writes to different keys leave association lists that differ only in order.
  Standing assumptions (`Inv`, and no memory limit): each is necessary — see the witnesses below. -/

/-- **Commands with disjoint key footprints are serializable under every schedule.**
    Two clients whose programs issue only key-local primitives, A inside `KA` and B inside `KB`, with
    footprints that cannot meet (different databases, or disjoint key sets); no memory limit, both databases
    present, no shared set object. Started as `interleave` starts them and driven by ANY schedule, both
    replies are those of the serial order A-then-B, and of the serial order B-then-A, and the final state is
    equivalent to the final state of either. -/
theorem serializable_disjoint (cA cB : Ctx) (hmA : cA.cfg.maxMemory = 0) (hmB : cB.cfg.maxMemory = 0)
    (KA KB : Bytes → Prop) (hd : Disjoint cA cB KA KB)
    (pA pB : Prog Res) (hA : pA.Within KA) (hB : pB.Within KB) (sched : List Bool) (s : State) (hs : Inv cA cB s) :
    let r := runSched cA cB sched (settle cA pA s).2 (settle cB pB (settle cA pA s).1).2 (settle cB pB (settle cA pA s).1).1 [] []
    (r.a = (pA.run cA s).2 ∧ r.b = (pB.run cB (pA.run cA s).1).2 ∧ r.post.Equiv (pB.run cB (pA.run cA s).1).1) ∧
    (r.b = (pB.run cB s).2 ∧ r.a = (pA.run cA (pB.run cB s).1).2 ∧ r.post.Equiv (pA.run cA (pB.run cB s).1).1) := by
  intro r
  -- the two threads as `interleave` produces them
  have hwA := park_within KA pA hA
  have hwB := park_within KB pB hB
  have tAw : (thr ((park pA).run cA s).2).Within KA := by
    have := rets_run (Thread.Within KA) cA _ hwA.2 s
    cases hx : ((park pA).run cA s).2 with
    | done a => rw [hx] at this; exact this
    | panic w => trivial
    | unmod w => trivial
  have i1 : Inv cA cB ((park pA).run cA s).1 := run_inv cA cB cA (Or.inl rfl) hmA KA _ hwA.1 s hs
  have tBw : (thr ((park pB).run cB ((park pA).run cA s).1).2).Within KB := by
    have := rets_run (Thread.Within KB) cB _ hwB.2 ((park pA).run cA s).1
    cases hx : ((park pB).run cB ((park pA).run cA s).1).2 with
    | done a => rw [hx] at this; exact this
    | panic w => trivial
    | unmod w => trivial
  have i2 : Inv cA cB ((park pB).run cB ((park pA).run cA s).1).1 := run_inv cA cB cB (Or.inr rfl) hmB KB _ hwB.1 _ i1
  have hr : r = runSched cA cB sched (thr ((park pA).run cA s).2) (thr ((park pB).run cB ((park pA).run cA s).1).2)
      ((park pB).run cB ((park pA).run cA s).1).1 [] [] := by
    simp only [r, settle_eq]
  obtain ⟨q1, q2, q3⟩ := runSched_serial cA cB hmA hmB KA KB hd sched _ _ _ [] [] tAw tBw i2
  rw [← hr] at q1 q2 q3
  -- B's own code before its first keyspace call commutes with the whole of A
  obtain ⟨g1, g2, g3⟩ := run_comm_run cA cB hmA hmB KA KB hd (thr ((park pA).run cA s).2).prog tAw (park pB) hwB.1 _ i1
  have hpA := run_park cA pA s
  rw [hpA] at g1 g2 g3
  have iA : Inv cA cB ((thr ((park pA).run cA s).2).prog.run cA ((park pB).run cB ((park pA).run cA s).1).1).1 :=
    run_inv cA cB cA (Or.inl rfl) hmA KA _ tAw _ i2
  obtain ⟨c1, c2⟩ := run_congr cB hmB KB (thr ((park pB).run cB ((park pA).run cA s).1).2).prog tBw _ _ iA.preB g3
  have hpB := run_park cB pB (pA.run cA s).1
  rw [g2] at hpB
  have first : r.a = (pA.run cA s).2 ∧ r.b = (pB.run cB (pA.run cA s).1).2 ∧ r.post.Equiv (pB.run cB (pA.run cA s).1).1 := by
    refine ⟨q1.trans g1, ?_, ?_⟩
    · rw [q2, c1, hpB]
    · refine q3.trans ?_
      rw [← hpB]; exact c2
  -- and the two serial orders agree with each other
  obtain ⟨k1, k2, k3⟩ := run_comm_run cA cB hmA hmB KA KB hd pA hA pB hB s hs
  exact ⟨first, first.2.1.trans k2, first.1.trans k1.symm, first.2.2.trans k3.symm⟩

/-- **Table-level corollary**: two commands of the single-key families (GET, SET, INCR, APPEND, STRLEN,
    LPUSH(X), RPUSH(X), LPOP, RPOP, LLEN, HSET(NX), SADD — `footprint`) on different keys, or in different
    databases, are serializable under every schedule: `interleave` answers, for both clients, what the two
    sequential `step`s answer in the order A, B — and in the order B, A — and ends in an equivalent state. -/
theorem cmds_disjoint_serializable (cA cB : Ctx) (hmA : cA.cfg.maxMemory = 0) (hmB : cB.cfg.maxMemory = 0)
    (cmdA cmdB : List Bytes) (kA kB : Bytes) (pA pB : Prog Res)
    (fA : footprint cmdA = some kA) (fB : footprint cmdB = some kB)
    (hpA : progOf cA cmdA = some pA) (hpB : progOf cB cmdB = some pB)
    (hne : cA.db = cB.db → kA ≠ kB) (sched : List Bool) (s : State) (hs : Inv cA cB s) :
    ∃ r sA oa sAB ob sB sBA,
      interleave cA cB cmdA cmdB sched s = some r ∧
      step cA s cmdA = some (sA, oa) ∧ step cB sA cmdB = some (sAB, ob) ∧
      step cB s cmdB = some (sB, ob) ∧ step cA sB cmdA = some (sBA, oa) ∧
      r.a = oa ∧ r.b = ob ∧ r.post.Equiv sAB ∧ r.post.Equiv sBA := by
  have wA := progOf_within cA cmdA kA pA fA hpA
  have wB := progOf_within cB cmdB kB pB fB hpB
  have hd : Disjoint cA cB (· = kA) (· = kB) := fun e k h1 h2 => hne e (h1.symm.trans h2)
  obtain ⟨⟨a1, a2, a3⟩, ⟨b1, b2, b3⟩⟩ := serializable_disjoint cA cB hmA hmB _ _ hd pA pB wA wB sched s hs
  refine ⟨_, (pA.run cA s).1, (pA.run cA s).2, (pB.run cB (pA.run cA s).1).1, (pB.run cB (pA.run cA s).1).2,
    (pB.run cB s).1, (pA.run cA (pB.run cB s).1).1, ?_, ?_, ?_, ?_, ?_, a1, a2, a3, b3⟩
  · simp only [interleave, hpA, hpB]
  · simp [step, hpA]
  · simp [step, hpB]
  · have e : (pB.run cB (pA.run cA s).1).2 = (pB.run cB s).2 := a2.symm.trans b1
    simp only [step, hpB, Option.map_some]
    rw [e]
  · have e : (pA.run cA s).2 = (pA.run cA (pB.run cB s).1).2 := a1.symm.trans b2
    simp only [step, hpA, Option.map_some]
    rw [e]

/-- **INCR n ‖ RPUSH l x** (n ≠ l, any element, any state with database 0 present and nothing shared, any
    schedule): both replies are the sequential ones and the final state is equivalent to the sequential one. -/
example (n l x : Bytes) (hnl : n ≠ l) (sched : List Bool) (s : State)
    (hs : Inv { db := 0, now := 1000, conn := some 2 } { db := 0, now := 1000, conn := some 3 } s) :
    let cA : Ctx := { db := 0, now := 1000, conn := some 2 }
    let cB : Ctx := { db := 0, now := 1000, conn := some 3 }
    ∃ r sA oa sAB ob sB sBA,
      interleave cA cB [b "incr", n] [b "rpush", l, x] sched s = some r ∧
      step cA s [b "incr", n] = some (sA, oa) ∧ step cB sA [b "rpush", l, x] = some (sAB, ob) ∧
      step cB s [b "rpush", l, x] = some (sB, ob) ∧ step cA sB [b "incr", n] = some (sBA, oa) ∧
      r.a = oa ∧ r.b = ob ∧ r.post.Equiv sAB ∧ r.post.Equiv sBA :=
  cmds_disjoint_serializable _ _ rfl rfl [b "incr", n] [b "rpush", l, x] n l _ _
    (by simp only [footprint]; rw [if_pos (by decide)]) (by simp only [footprint]; rw [if_pos (by decide)])
    (progOf_cons _ _ _ _ (by decide) (handlerOf_incr _ (by decide)))
    (progOf_cons _ _ _ _ (by decide) (handlerOf_rpush _ (by decide)))
    (fun _ => hnl) sched s hs

/-! ### each standing assumption of `serializable_disjoint` is needed for its conclusion (both serial orders agree) -/

/-- with a memory limit the shared counter couples disjoint keys: SET a ‖ SET z — whoever runs second is refused -/
theorem memlimit_orders_differ_witness :
    let c : Ctx := { db := 0, now := 1000, cfg := { maxMemory := 10 } }
    let s : State := { dbs := [(0, ⟨[], []⟩)], mem := 0 }
    ((step c s [b "set", b "a", b "v"]).bind fun x => (step c x.1 [b "set", b "z", b "w"]).map (·.2))
      = some (.done (.err maxMemErr)) ∧
    ((step c s [b "set", b "z", b "w"]).bind fun x => (step c x.1 [b "set", b "a", b "v"]).map (·.2))
      = some (.done (.err maxMemErr)) ∧
    (step c s [b "set", b "z", b "w"]).map (·.2) = some (.done (.ok okReply)) := by decide

/-- a set object shared by two keys couples them: SADD a y ‖ SCARD d, with `a` and `d` holding the same object —
    SCARD answers 2 after the SADD and 1 before it, although the key footprints {a} and {d} are disjoint -/
theorem shared_object_orders_differ_witness :
    let c : Ctx := { db := 0, now := 1000 }
    let s : State := { dbs := [(0, ⟨[(b "a", ⟨.set 7 [b "x"], none⟩), (b "d", ⟨.set 7 [b "x"], none⟩)], []⟩)], mem := 0 }
    ((step c s [b "sadd", b "a", b "y"]).bind fun x => (step c x.1 [b "scard", b "d"]).map (·.2))
      = some (.done (.ok (intReply 2))) ∧
    (step c s [b "scard", b "d"]).map (·.2) = some (.done (.ok (intReply 1))) := by decide

/-- an absent database couples disjoint keys at the primitive level: SetExpiry on key z panics before, and
    succeeds after, a SetValues on key a has created the database -/
theorem absent_db_orders_differ_witness :
    let c : Ctx := { db := 0, now := 1000 }
    let s : State := { dbs := [], mem := 0 }
    ((Prim.setExpiry (b "z") (some 5000) false).exec c s).isSome = false ∧
    (((Prim.setValues [(b "a", .str (b "v"))]).exec c s).bind fun x =>
      ((Prim.setExpiry (b "z") (some 5000) false).exec c x.1).map fun _ => ()).isSome = true := by decide

end Sugar.Props.C05
