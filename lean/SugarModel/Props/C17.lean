/-
  Props.C17 — sorted-set commands implement an ordered member ↦ score map. Laws of the handler models
  (transcribed from internal/modules/sorted_set) over arbitrary states and arguments, and witnesses of
  the inputs on which the full statement fails (each one a class of Known.lean, replayed on the
  implementation by the check).
-/
import SugarModel.Lemmas.ZSetLemmas
import SugarModel.Known
namespace Sugar.Props.C17
open Sugar

/-! ### ZADD flag logic (SortedSet.AddOrUpdate) -/

/-- the reference decision: is an update of an existing member applied -/
def updateAllowed (nx gt lt : Bool) (old new : Flt) : Bool := !nx && !(gt && !old.lt new) && !(lt && !new.lt old)

/-- the CH flag as the handler passes it -/
def chOpt (ch : Bool) : Option Bytes := if ch then some (b "ch") else none

macro "flags" h:ident hr:ident ch:ident : tactic => `(tactic| (
  cases $ch:ident <;>
    simp [addOrUpdate, chOpt, compareScores, $h:ident, w1, w2, w3, w4, w5, w6, w7, w8, w9, w10, v1, v2, v3, v4, v5, v6, v7, u1, u2] at $hr:ident
  all_goals (subst $hr:ident; simp [updateAllowed, KMap.get_put_same, $h:ident])))

/-- **Flags table, existing member.** For a member already in the set, every legal flag combination
    (none, NX, XX, GT, LT, XX GT, XX LT — each with or without CH) leaves exactly the score the reference
    table prescribes: the new score if the update is allowed, the old score otherwise. All scores, all sets. -/
theorem zadd_flags_table_existing (ms : KMap Flt) (m : Bytes) (old new : Flt) (ch : Bool)
    (h : ms.get m = some old) :
    (∀ r, addOrUpdate ms [(m, new)] none none (chOpt ch) none = .ok r → r.1.get m = some new) ∧
    (∀ r, addOrUpdate ms [(m, new)] (some (b "nx")) none (chOpt ch) none = .ok r → r.1.get m = some old) ∧
    (∀ r, addOrUpdate ms [(m, new)] (some (b "xx")) none (chOpt ch) none = .ok r → r.1.get m = some new) ∧
    (∀ r, addOrUpdate ms [(m, new)] none (some (b "gt")) (chOpt ch) none = .ok r →
        r.1.get m = some (if updateAllowed false true false old new then new else old)) ∧
    (∀ r, addOrUpdate ms [(m, new)] none (some (b "lt")) (chOpt ch) none = .ok r →
        r.1.get m = some (if updateAllowed false false true old new then new else old)) ∧
    (∀ r, addOrUpdate ms [(m, new)] (some (b "xx")) (some (b "gt")) (chOpt ch) none = .ok r →
        r.1.get m = some (if updateAllowed false true false old new then new else old)) ∧
    (∀ r, addOrUpdate ms [(m, new)] (some (b "xx")) (some (b "lt")) (chOpt ch) none = .ok r →
        r.1.get m = some (if updateAllowed false false true old new then new else old)) := by
  refine ⟨?_, ?_, ?_, ?_, ?_, ?_, ?_⟩ <;> intro r hr
  · flags h hr ch
  · flags h hr ch
  · flags h hr ch
  · flags h hr ch
  · flags h hr ch
  · flags h hr ch
  · flags h hr ch

/-- non-vacuity: the plain ZADD of the table does answer `.ok` -/
example : (match addOrUpdate [(b "a", Flt.fin ⟨1, 0⟩)] [(b "a", Flt.fin ⟨2, 0⟩)] none none none none with
  | .ok r => r.1.get (b "a")
  | _ => none) = some (Flt.fin ⟨2, 0⟩) := by decide

/-- **NX never changes an existing member**, whatever else the command adds. -/
theorem nx_keeps_existing (members : List ZM) : ∀ (ms : KMap Flt) (n : Int) (ch : Option Bytes) (m : Bytes) (sc : Flt),
    ms.get m = some sc →
    ((members.foldl (fun (acc : KMap Flt × Int) (z : ZM) =>
        match acc.1.get z.1 with
        | none => (acc.1.put z.1 z.2, acc.2 + 1)
        | some _ => acc) (ms, n)).1).get m = some sc := by
  induction members with
  | nil => intro ms n ch m sc h; simpa using h
  | cons z r ih =>
    intro ms n ch m sc h
    simp only [List.foldl_cons]
    cases hz : ms.get z.1 with
    | some _ => simp only []; exact ih ms n ch m sc h
    | none =>
      simp only []
      apply ih _ _ ch
      have : z.1 ≠ m := by intro e; rw [e] at hz; rw [hz] at h; cases h
      rw [KMap.get_put_other _ _ _ _ this]; exact h

/-- **XX never adds a member.** -/
theorem xx_never_adds (members : List ZM) (comp : Bytes) (chb : Bool) : ∀ (ms : KMap Flt) (n : Int) (m : Bytes),
    ms.get m = none →
    ((members.foldl (fun (acc : KMap Flt × Int) (z : ZM) =>
        match acc.1.get z.1 with
        | some old => (acc.1.put z.1 (compareScores old z.2 comp), if chb then acc.2 + 1 else acc.2)
        | none => acc) (ms, n)).1).get m = none := by
  induction members with
  | nil => intro ms n m h; simpa using h
  | cons z r ih =>
    intro ms n m h
    simp only [List.foldl_cons]
    cases hz : ms.get z.1 with
    | none => simp only []; exact ih ms n m h
    | some old =>
      simp only []
      apply ih
      have : z.1 ≠ m := by intro e; rw [e] at hz; rw [hz] at h; cases h
      rw [KMap.get_put_other _ _ _ _ this]; exact h

/-- the quirk behind `zadd-gt-lt-new-member-compared-with-zero`, stated for all scores: a *new* member
    added under GT gets `max(new, 0)`, under LT `min(new, 0)` -/
theorem gt_lt_new_member_compares_with_zero (ms : KMap Flt) (m : Bytes) (new : Flt) (ch : Bool) (h : ms.get m = none) :
    (∀ r, addOrUpdate ms [(m, new)] none (some (b "gt")) (chOpt ch) none = .ok r →
        r.1.get m = some (if Flt.zero.lt new then new else Flt.zero)) ∧
    (∀ r, addOrUpdate ms [(m, new)] none (some (b "lt")) (chOpt ch) none = .ok r →
        r.1.get m = some (if new.lt Flt.zero then new else Flt.zero)) := by
  constructor <;> intro r hr
  · flags h hr ch
  · flags h hr ch

/-- full statement "a new member is added with the given score" fails under LT: witness -/
theorem gt_lt_new_member_witness :
    (match addOrUpdate [(b "a", Flt.fin ⟨1, 0⟩)] [(b "n", Flt.fin ⟨5, 0⟩)] none (some (b "lt")) none none with
     | .ok r => r.1.get (b "n")
     | _ => none) = some Flt.zero := by decide

/-! ### ordering -/

/-- **The on-demand sort never loses or invents a member**: `slices.SortFunc` (insertion sort) returns a
    permutation of `GetAll()`, for every comparator and every iteration order. -/
theorem sort_is_permutation {α : Type} (lt : α → α → Bool) (l : List α) : (insertionSort lt l).Perm l := by
  unfold insertionSort
  simpa using foldl_insertRight_perm lt l []

/-- **The sort orders the members** whenever the comparator is a strict weak order on them (asymmetric,
    and "not below" is transitive): no member of the result is strictly below an earlier one. This is
    the partial form of "range queries return the members in order": the score comparators of ZRANGE,
    ZRANK, ZPOP*, ZREMRANGEBYRANK satisfy the hypotheses, but they do not distinguish members of equal
    score (witness below), and CompareLex (BYLEX) does not satisfy them (`comparelex_not_transitive_witness`). -/
theorem sort_orders_partial {α : Type} (lt : α → α → Bool) (l : List α)
    (hasym : ∀ a c, lt a c = true → lt c a = false)
    (htrans : ∀ a c d, lt c a = false → lt d c = false → lt d a = false) :
    SortedBy lt (insertionSort lt l) := by
  unfold insertionSort
  exact foldl_insertRight_sorted lt hasym htrans l [] List.Pairwise.nil

/-- non-vacuity of `sort_orders_partial`: `<` on naturals is such a comparator -/
example : SortedBy (fun a c : Nat => decide (a < c)) (insertionSort (fun a c : Nat => decide (a < c)) [3, 1, 2]) :=
  sort_orders_partial _ _ (by intro a c h; simp at *; omega) (by intro a c d h1 h2; simp at *; omega)

/-- CompareLex is not transitive: b < ab (substring rule), ab < ac (bytes), ac < b (bytes) -/
theorem comparelex_not_transitive_witness :
    compareLex (b "b") (b "ab") < 0 ∧ compareLex (b "ab") (b "ac") < 0 ∧ compareLex (b "ac") (b "b") < 0 := by decide

/-- ties: with two members of equal score both orders are model behaviours (the iteration order decides) -/
theorem ties_follow_iteration_order_witness :
    insertionSort (scoreLt false) [(b "b", Flt.fin ⟨1, 0⟩), (b "a", Flt.fin ⟨1, 0⟩)]
      = [(b "b", Flt.fin ⟨1, 0⟩), (b "a", Flt.fin ⟨1, 0⟩)] ∧
    insertionSort (scoreLt false) [(b "a", Flt.fin ⟨1, 0⟩), (b "b", Flt.fin ⟨1, 0⟩)]
      = [(b "a", Flt.fin ⟨1, 0⟩), (b "b", Flt.fin ⟨1, 0⟩)] := by decide

/-- `comparelex_is_lex` is false: CompareLex ranks a string above its substrings -/
theorem comparelex_substring_witness : compareLex (b "ab") (b "b") = 1 ∧ lexCmp (b "ab") (b "b") = -1 := by decide

/-- CompareLex is reflexive-zero and never answers 0 on distinct strings that are not nested -/
theorem comparelex_self (s : Bytes) : compareLex s s = 0 := by simp [compareLex]

/-! ### handlers over arbitrary states -/

/-- key `k` holds the live, unshared entry `e` -/
def Holds (c : Ctx) (s : State) (k : Bytes) (e : Entry) : Prop := s.lookup c.db k = some e ∧ e.expired c.now = false

/-- **Wrong type fails without changing anything** — for every single-key sorted-set command built on
    the common prologue (ZCARD, ZCOUNT, ZLEXCOUNT, ZSCORE, ZMSCORE, ZREM, ZRANK, ZREVRANK, ZRANDMEMBER,
    ZPOPMIN, ZPOPMAX, ZRANGE, ZREMRANGEBYSCORE/RANK/LEX): if the arguments parse and the key holds a value
    that is not a sorted set, the outcome is the error and the state is untouched. -/
theorem wrongtype_fails_nochange {α : Type} (c : Ctx) (s : State) (name key : Bytes) (rest : List Bytes) (a : α) (absent : Res)
    (notMsg : Bytes → Bytes) (k : Bytes → KMap Flt → α → Prog Res) (e : Entry)
    (h : Holds c s key e) (ht : asZSet? e.val = none) :
    (withZSet (name :: key :: rest) true (.ok a) absent notMsg k).run c s = (s, .done (.err (notMsg key))) := by
  obtain ⟨h1, h2⟩ := h
  simp [withZSet, keysExist_single, h1, getValues_live _ _ _ _ h1 h2, ht]

/-- instance: ZCARD on a list -/
theorem zcard_wrongtype (c : Ctx) (s : State) (k : Bytes) (xs : List Bytes) (ex : Option Int)
    (h : Holds c s k ⟨.list xs, ex⟩) :
    (handleZCard c [b "zcard", k]).run c s = (s, .done (.err (notZSet k))) := by
  unfold handleZCard
  exact wrongtype_fails_nochange c s _ k [] () _ _ _ _ h rfl

/-- **ZCARD reports the number of members** and changes nothing. -/
theorem zcard_reports (c : Ctx) (s : State) (k : Bytes) (o : Nat) (ms : KMap Flt) (ex : Option Int)
    (h : Holds c s k ⟨.zset o ms, ex⟩) :
    (handleZCard c [b "zcard", k]).run c s = (s, .done (.ok (intReply ms.length))) := by
  obtain ⟨h1, h2⟩ := h
  simp [handleZCard, withZSet, keysExist_single, h1, getValues_live _ _ _ _ h1 h2, asZSet?]

/-- **ZSCORE reports the current score** of a member (rendered with FormatFloat 'f'), nil otherwise. -/
theorem zscore_reports (c : Ctx) (s : State) (k m : Bytes) (o : Nat) (ms : KMap Flt) (ex : Option Int)
    (h : Holds c s k ⟨.zset o ms, ex⟩) :
    (handleZScore c [b "zscore", k, m]).run c s =
      (s, .done (.ok (match ms.get m with
        | some sc => bulkStr sc.fmtF
        | none => nilBulk))) := by
  obtain ⟨h1, h2⟩ := h
  cases hm : ms.get m <;>
    simp [handleZScore, withZSet, keysExist_single, h1, getValues_live _ _ _ _ h1 h2, asZSet?, hm]

/-- an absent key reads as the empty sorted set -/
theorem absent_key_reads_empty (c : Ctx) (s : State) (k m : Bytes) (h : s.lookup c.db k = none) :
    (handleZCard c [b "zcard", k]).run c s = (s, .done (.ok (intReply 0))) ∧
    (handleZScore c [b "zscore", k, m]).run c s = (s, .done (.ok nilBulk)) := by
  constructor <;> simp [handleZCard, handleZScore, withZSet, keysExist_single, h]

/-- **ZREM removes exactly the named member**: the reply counts it, the member is gone, every other
    member keeps its score, every other key is untouched (unshared object). -/
theorem zrem_removes_exactly (c : Ctx) (s : State) (k m : Bytes) (ms : KMap Flt) (ex : Option Int)
    (h : Holds c s k ⟨.zset 0 ms, ex⟩) :
    ((handleZRem c [b "zrem", k, m]).run c s).2 = .done (.ok (intReply (if (ms.get m).isSome then 1 else 0))) ∧
    ((handleZRem c [b "zrem", k, m]).run c s).1.lookup c.db k = some ⟨.zset 0 (ms.del m), ex⟩ ∧
    (∀ m2, m ≠ m2 → (ms.del m).get m2 = ms.get m2) ∧ (ms.del m).get m = none ∧
    (∀ k2, k2 ≠ k → ((handleZRem c [b "zrem", k, m]).run c s).1.lookup c.db k2 = s.lookup c.db k2) := by
  obtain ⟨h1, h2⟩ := h
  refine ⟨?_, ?_, fun m2 hne => KMap.get_del_other _ _ _ hne, KMap.get_del_same _ _, ?_⟩
  · cases hm : ms.get m <;>
      simp [handleZRem, withZSet, keysExist_single, h1, getValues_live _ _ _ _ h1 h2, asZSet?, hm]
  · cases hm : ms.get m <;>
      simp [handleZRem, withZSet, keysExist_single, h1, getValues_live _ _ _ _ h1 h2, asZSet?, hm,
        zlookup_mutObj_same s c.db k _ _ h1 rfl, Val.withOid, del_absent ms m]
  · intro k2 hne
    cases hm : ms.get m <;>
      simp [handleZRem, withZSet, keysExist_single, h1, getValues_live _ _ _ _ h1 h2, asZSet?, hm,
        zlookup_mutObj_other s c.db k k2 _ _ h1 rfl hne]

/-- **ZINCRBY adds to the score** of an existing member (finite score, sum inside the exact domain):
    the reply and the stored score are `old + increment`. -/
theorem zincrby_adds (c : Ctx) (s : State) (k m tok : Bytes) (ms : KMap Flt) (ex : Option Int) (d old r : Flt)
    (h : Holds c s k ⟨.zset 0 ms, ex⟩) (ht : adaptType tok = .flt d) (hm : ms.get m = some old)
    (hfin : old.isInf = false) (hadd : old.add d = some r) :
    ((handleZIncrBy c [b "zincrby", k, tok, m]).run c s).2 = .done (.ok (simpleStr r.fmtF)) ∧
    ((handleZIncrBy c [b "zincrby", k, tok, m]).run c s).1.lookup c.db k = some ⟨.zset 0 (ms.put m r), ex⟩ := by
  obtain ⟨h1, h2⟩ := h
  have e3 : eqFold (b "xx") (b "nx") = false := by decide
  have l3 : toLower (b "xx") = b "xx" := by decide
  have n5 : (b "xx" == b "nx") = false := by decide
  have i1 : eqFold (b "incr") (b "incr") = true := by decide
  simp [handleZIncrBy, ht, keysExist_single, h1, getValues_live _ _ _ _ h1 h2, asZSet?, addOrUpdate, hm, hfin, hadd,
    e3, l3, n5, i1, zlookup_mutObj_same s c.db k _ _ h1 rfl, Val.withOid, KMap.get_put_same, Flt.zero]

/-- non-vacuity of `zincrby_adds`: 1.5 + 0.25 -/
example : (Flt.fin ⟨15, -1⟩).add (Flt.fin ⟨25, -2⟩) = some (Flt.fin ⟨175, -2⟩) := by decide

/-- a state with one database (used by the examples and witnesses below) -/
def st (es : List (Bytes × Entry)) : State := { dbs := [(0, ⟨es, []⟩)], mem := 0 }
def c0 : Ctx := { db := 0, now := 1000 }
def q (n : Int) : Flt := .fin ⟨n, 0⟩

/-! ### counts: ZPOPMIN / ZPOPMAX / ZRANDMEMBER with count 0 (repaired upstream: a zero count used to fall back to 1) -/

/-- **ZPOPMIN / ZPOPMAX key 0 pop nothing**: whatever the sorted set, the reply is the empty array and the state is
    untouched (`name` is the command word: the statement covers both commands). -/
theorem zpop_zero_count_pops_nothing (c : Ctx) (s : State) (name k : Bytes) (o : Nat) (ms : KMap Flt) (ex : Option Int)
    (h : Holds c s k ⟨.zset o ms, ex⟩) :
    (handleZPop c [name, k, b "0"]).run c s = (s, .done (.ok (b "*0\r\n"))) := by
  obtain ⟨h1, h2⟩ := h
  have a0 : atoiErr (b "0") = .ok 0 := by rfl
  simp [handleZPop, withZSet, keysExist_single, h1, getValues_live _ _ _ _ h1 h2, asZSet?, a0]

/-- … on an absent key too -/
theorem zpop_zero_count_absent (c : Ctx) (s : State) (name k : Bytes) (h : s.lookup c.db k = none) :
    (handleZPop c [name, k, b "0"]).run c s = (s, .done (.ok (b "*0\r\n"))) := by
  have a0 : atoiErr (b "0") = .ok 0 := by rfl
  simp [handleZPop, withZSet, keysExist_single, h, a0]

/-- a negative count is refused (by SortedSet.Pop) and nothing is popped -/
theorem zpop_negative_count_refused (c : Ctx) (s : State) (name k : Bytes) (o : Nat) (ms : KMap Flt) (ex : Option Int)
    (h : Holds c s k ⟨.zset o ms, ex⟩) :
    (handleZPop c [name, k, b "-1"]).run c s = (s, .done (.err (b "count must be a positive integer"))) := by
  obtain ⟨h1, h2⟩ := h
  have a0 : atoiErr (b "-1") = .ok (-1) := by rfl
  simp [handleZPop, withZSet, keysExist_single, h1, getValues_live _ _ _ _ h1 h2, asZSet?, a0]

/-- a positive count is still honoured: ZPOPMIN k 1 on {a:1, b:2} pops a -/
example : ((handleZPop c0 [b "zpopmin", b "k", b "1"]).run c0
      (st [(b "k", ⟨.zset 0 [(b "a", q 1), (b "b", q 2)], none⟩)])).1.lookup 0 (b "k") = some ⟨.zset 0 [(b "b", q 2)], none⟩ := by decide

/-- **ZRANDMEMBER key 0 returns no member**: the reply is the header `*0` followed by none of the members (an empty
    array), whatever the sorted set, and the state is untouched. -/
theorem zrandmember_zero_count_empty (c : Ctx) (s : State) (name k : Bytes) (o : Nat) (ms : KMap Flt) (ex : Option Int)
    (h : Holds c s k ⟨.zset o ms, ex⟩) :
    (handleZRandMember c [name, k, b "0"]).run c s =
      (s, .done (if ms.length = 0 then .okPerm (b "*0\r\n") [] else .okPick (b "*0\r\n") 0 false (ms.map (zElem false)))) := by
  obtain ⟨h1, h2⟩ := h
  have a0 : atoiOr (b "0") (some (b "count must be an integer")) = .ok 0 := by rfl
  have m0 : ((0 : Int) == minInt64) = false := by decide
  have hd : arrHdr 0 = b "*0\r\n" := by decide
  by_cases hl : ms.length = 0
  · have : ms = [] := List.eq_nil_of_length_eq_zero hl
    subst this
    simp [handleZRandMember, withZSet, keysExist_single, h1, getValues_live _ _ _ _ h1 h2, asZSet?, a0, m0, zArrAnyOrder, hd]
  · have hne : ms ≠ [] := fun e => hl (by rw [e]; rfl)
    simp [handleZRandMember, withZSet, keysExist_single, h1, getValues_live _ _ _ _ h1 h2, asZSet?, a0, m0, hd, hl, hne]

/-! ### the option suffix of ZINTER / ZUNION / ZINTERSTORE / ZUNIONSTORE (repaired upstream: AGGREGATE as the last
    token used to index past the end of the command) -/

/-- the AGGREGATE option answers one of sum / min / max or the error — whatever the command (its result type has no
    panic) -/
theorem readAggregate_total (cmd : List Bytes) :
    readAggregate cmd = .err (b "aggregate must be SUM, MIN, or MAX") ∨
    ∃ a, readAggregate cmd = .ok a ∧ (a = b "sum" ∨ a = b "min" ∨ a = b "max") := by
  unfold readAggregate
  split
  · exact Or.inr ⟨_, rfl, Or.inl rfl⟩
  · split
    · exact Or.inl rfl
    · split
      · rename_i ha
        simp only [Bool.or_eq_true, beq_iff_eq] at ha
        refine Or.inr ⟨_, rfl, ?_⟩
        rcases ha with (ha | ha) | ha
        · exact Or.inl ha
        · exact Or.inr (Or.inl ha)
        · exact Or.inr (Or.inr ha)
      · exact Or.inl rfl

/-- **AGGREGATE as the last token is a syntax error** -/
theorem readAggregate_trailing (cmd : List Bytes) (i : Nat)
    (h : cmd.findIdx? (fun t => eqFold t (b "aggregate")) = some i) (hl : i + 1 = cmd.length) :
    readAggregate cmd = .err (b "aggregate must be SUM, MIN, or MAX") := by
  unfold readAggregate
  rw [h]
  have : cmd[i + 1]? = none := List.getElem?_eq_none (by omega)
  simp only [this]

/-- … so the option parser refuses the command: it never answers keys/weights, and never panics (the remaining
    outcome is a token outside the modelled domain: non-ASCII bytes, a weight beyond 64 bits) -/
theorem extractKWA_trailing_aggregate (cmd : List Bytes) (i : Nat)
    (h : cmd.findIdx? (fun t => eqFold t (b "aggregate")) = some i) (hl : i + 1 = cmd.length) :
    (∃ m, extractKWA cmd = .err m) ∨ (∃ w, extractKWA cmd = .unmod w) := by
  unfold extractKWA
  rw [readAggregate_trailing cmd i h hl]
  split
  · exact Or.inr ⟨_, rfl⟩
  · dsimp only
    split
    · exact Or.inl ⟨_, rfl⟩
    · exact Or.inr ⟨_, rfl⟩
    · exact Or.inl ⟨_, rfl⟩

/-- **No argument vector makes ZINTER / ZUNION / ZINTERSTORE / ZUNIONSTORE panic**: for every command whose
    command word is not itself an option word (the dispatcher guarantees that: it is one of the four names), every
    context and every state, the run ends in a reply, an error or outside the modelled domain — never in a Go panic.
    (The STORE forms used to delete the command word too when the destination was spelled like it, so that
    `ZUNIONSTORE zunionstore weights` parsed `[weights]` and sliced `cmd[1:0]`; repaired upstream: only arguments
    are deleted.) -/
theorem zcombine_never_panic (inter store : Bool) (c : Ctx) (cmd : List Bytes) (s : State)
    (hh : isModifierTok (cmd.headD []) = false) (w : String) :
    ((handleZCombine inter store c cmd).run c s).2 ≠ .panic w :=
  zNoPanic_run c _ s (handleZCombine_noPanic inter store c cmd hh) w

/-- the four command words satisfy the hypothesis -/
example : isModifierTok (b "zinter") = false ∧ isModifierTok (b "zunion") = false ∧
    isModifierTok (b "ZINTERSTORE") = false ∧ isModifierTok (b "zunionstore") = false := by decide

/-- regression input: a destination spelled like the command word — the command word is kept, the command reads as
    ZUNIONSTORE dest WEIGHTS: no source keys, refused by the key function (`zstore_without_sources_refused` below) -/
example : ((handleZCombine false true c0 [b "zunionstore", b "zunionstore", b "weights"]).run c0 (st [])).2
    = .done (.err wrongArgs) := by decide

/-- non-vacuity and the regression inputs: the four commands with AGGREGATE (or WEIGHTS … AGGREGATE) as the last
    token answer the syntax error and leave the (empty) state alone -/
example : (handleZCombine false false c0 [b "zunion", b "k", b "aggregate"]).run c0 (st [])
    = ((st []), .done (.err (b "aggregate must be SUM, MIN, or MAX"))) := by decide
example : ((handleZCombine true false c0 [b "zinter", b "", b "k3", b "WEIGHTS", b "1", b "0", b "aggregate"]).run c0 (st [])).2
    = .done (.err (b "aggregate must be SUM, MIN, or MAX")) := by decide
example : ((handleZCombine true true c0 [b "zinterstore", b "d", b "k3", b "k2", b "weights", b "2", b "10", b "aggregate"]).run c0 (st [])).2
    = .done (.err (b "aggregate must be SUM, MIN, or MAX")) := by decide
example : ((handleZCombine false true c0 [b "zunionstore", b "k2", b "k1", b "AGGREGATE"]).run c0 (st [])).2
    = .done (.err (b "aggregate must be SUM, MIN, or MAX")) := by decide

/-! ### repaired upstream (second batch): ZREMRANGEBYRANK reversed range, ZRANK WITHSCORE, ZCOUNT infinities, ZADD on a
    numeric key, the key functions of the STORE forms, ZADD conflicting flags -/

/-- a rank argument counted from the tail when negative (commands.go: `start = start + set.Cardinality()`) -/
def normIdx (card i : Int) : Int := if i < 0 then i + card else i

/-- **ZREMRANGEBYRANK with the start rank after the stop rank removes nothing**: for every sorted set, every pair of
    index tokens that read as ranks inside the set (negative ones counted from the tail) with start > stop, the reply
    is 0 and the state is untouched — whatever the iteration order, whatever the size of the set. (The handler used to
    swap the two and remove the ranks stop..start. Ranks *outside* the set are still refused: the module tests pin
    "indices out of bounds", class `zremrangebyrank-rejects-out-of-range-indices`.) -/
theorem zremrangebyrank_reversed_removes_nothing (c : Ctx) (s : State) (name k a z : Bytes) (o : Nat) (ms : KMap Flt)
    (ex : Option Int) (st en : Int) (h : Holds c s k ⟨.zset o ms, ex⟩)
    (ha : atoiErr a = .ok st) (hz : atoiErr z = .ok en)
    (h0 : 0 ≤ normIdx ms.length en) (hrev : normIdx ms.length en < normIdx ms.length st)
    (h1 : normIdx ms.length st ≤ (ms.length : Int) - 1) :
    (handleZRemRangeByRank c [name, k, a, z]).run c s = (s, .done (.ok (intReply 0))) := by
  obtain ⟨hl, he⟩ := h
  unfold normIdx at h0 hrev h1
  simp [handleZRemRangeByRank, withZSet, keysExist_single, hl, getValues_live _ _ _ _ hl he, asZSet?, ha, hz, twoOf]
  rw [if_neg (by omega), if_pos (by omega)]
  rfl

/-- non-vacuity and the regression input: ZREMRANGEBYRANK k 2 0 and k -1 -3 on three members -/
example : (handleZRemRangeByRank c0 [b "zremrangebyrank", b "k", b "2", b "0"]).run c0
      (st [(b "k", ⟨.zset 0 [(b "a", q 1), (b "b", q 2), (b "c", q 3)], none⟩)])
    = (st [(b "k", ⟨.zset 0 [(b "a", q 1), (b "b", q 2), (b "c", q 3)], none⟩)], .done (.ok (intReply 0))) := by decide
example : ((handleZRemRangeByRank c0 [b "zremrangebyrank", b "k", b "-1", b "-3"]).run c0
      (st [(b "k", ⟨.zset 0 [(b "a", q 1), (b "b", q 2), (b "c", q 3)], none⟩)])).2 = .done (.ok (intReply 0)) := by decide
/-- … and a range in order still removes its members: ranks 1..2 of a b c leave a -/
example : ((handleZRemRangeByRank c0 [b "zremrangebyrank", b "k", b "1", b "-1"]).run c0
      (st [(b "k", ⟨.zset 0 [(b "a", q 1), (b "b", q 2), (b "c", q 3)], none⟩)])).1.lookup 0 (b "k")
    = some ⟨.zset 0 [(b "a", q 1)], none⟩ := by decide

/-- **ZRANK / ZREVRANK read WITHSCORE like WITHSCORES**: for every state, key, member and spelling of the documented
    option word, the command behaves exactly as with WITHSCORES (`name` is the command word: both commands). -/
theorem zrank_withscore_same_as_withscores (c : Ctx) (s : State) (name k m opt : Bytes)
    (ha : isAscii opt = true) (ho : eqFold opt (b "withscore") = true) :
    (handleZRank c [name, k, m, opt]).run c s = (handleZRank c [name, k, m, b "withscores"]).run c s := by
  have a1 : isAscii (b "withscores") = true := by decide
  have a2 : eqFold (b "withscores") (b "withscores") = true := by decide
  simp [handleZRank, withZSet, ha, ho, a1, a2]

/-- **WITHSCORE adds the member's score to the reply**: for every sorted set (inside the modelled sort domain) and every
    member of it, whenever a rank `i` is reported the reply is the pair `[i, score]`, the score being the one stored.
    Holds for both spellings of the option and both commands. -/
theorem zrank_withscore_reports_score (c : Ctx) (s : State) (name k m opt : Bytes) (o : Nat) (ms : KMap Flt)
    (ex : Option Int) (sc : Flt) (i : Nat) (h : Holds c s k ⟨.zset o ms, ex⟩)
    (ha : isAscii opt = true) (ho : eqFold opt (b "withscore") = true ∨ eqFold opt (b "withscores") = true)
    (hm : ms.get m = some sc) (hl : ms.length ≤ 12)
    (hg : (zGuess c (eqFold name (b "zrevrank")) (.rank m) ms).2 ≤ zAltCap)
    (hi : (insertionSort (scoreLt (eqFold name (b "zrevrank"))) (zGuess c (eqFold name (b "zrevrank")) (.rank m) ms).1).findIdx?
            (fun z => z.1 == m) = some i) :
    (handleZRank c [name, k, m, opt]).run c s = (s, .done (.ok (arrHdr 2 ++ intReply i ++ bulkStr sc.fmtF))) := by
  obtain ⟨h1, h2⟩ := h
  have hl' : ¬ (12 < ms.length) := by omega
  have hg' : ¬ (zAltCap < (zGuess c (eqFold name (b "zrevrank")) (.rank m) ms).2) := by omega
  rcases ho with ho | ho <;>
    simp [handleZRank, withZSet, keysExist_single, h1, getValues_live _ _ _ _ h1 h2, asZSet?, ha, ho, hm, hl', hg', hi]

/-- non-vacuity and the regression inputs: ZRANK k m WITHSCORE and ZREVRANK k a withscore -/
example : ((handleZRank c0 [b "zrank", b "k", b "m", b "WITHSCORE"]).run c0 (st [(b "k", ⟨.zset 0 [(b "m", q 1)], none⟩)])).2
    = .done (.ok (b "*2\r\n:0\r\n$1\r\n1\r\n")) := by decide
example : ((handleZRank c0 [b "zrevrank", b "k", b "a", b "withscore"]).run c0
      (st [(b "k", ⟨.zset 0 [(b "a", q 1), (b "b", q 2)], none⟩)])).2 = .done (.ok (b "*2\r\n:1\r\n$1\r\n1\r\n")) := by decide

/-- **A ZCOUNT bound is read the same way on both ends**: a token AdaptType reads as a number is that number; a word is
    accepted exactly when strconv.ParseFloat reads it as an infinity, and then stands for that infinity — there is no
    "+inf for min only, -inf for max only" any more (`zcountBound` has no such parameter). -/
theorem zcountBound_infinity (t s msg : Bytes) (f : Flt) (ht : adaptType t = .str s)
    (hp : parseFloat64 s = some (some f)) (hi : f.isInf = true) : zcountBound t msg = .ok f := by
  simp [zcountBound, ht, hp, hi]

theorem zcountBound_number (t msg : Bytes) (f : Flt) (ht : adaptType t = .flt f) : zcountBound t msg = .ok f := by
  simp [zcountBound, ht]

/-- the spellings the generator and the regression script use, on either end (−INF used to be refused as min, +INF as
    max, INF / Infinity on both) -/
example : ([b "-INF", b "+INF", b "INF", b "-Infinity", b "+infinity", b "-iNf", b "inf", b "-inf", b "max", b "nan", b "2.5"].map
      fun t => match zcountBound t (b "m") with
        | .ok f => some f
        | _ => none)
    = [some .ninf, some .pinf, some .pinf, some .ninf, some .pinf, some .ninf, some .pinf, some .ninf, none, none, some (.fin ⟨25, -1⟩)] := by
  decide

/-- **ZCOUNT counts the members between its bounds**, infinities included: for every sorted set and every pair of
    tokens that read as bounds, the reply is the number of members with `lo ≤ score ≤ hi`; nothing changes. -/
theorem zcount_counts_between (c : Ctx) (s : State) (name k lo hi : Bytes) (o : Nat) (ms : KMap Flt) (ex : Option Int)
    (l u : Flt) (h : Holds c s k ⟨.zset o ms, ex⟩)
    (hlo : zcountBound lo (b "min constraint must be a double") = .ok l)
    (hhi : zcountBound hi (b "max constraint must be a double") = .ok u) :
    (handleZCount c [name, k, lo, hi]).run c s =
      (s, .done (.ok (intReply (ms.filter fun z => l.le z.2 && z.2.le u).length))) := by
  obtain ⟨h1, h2⟩ := h
  simp [handleZCount, withZSet, keysExist_single, h1, getValues_live _ _ _ _ h1 h2, asZSet?, hlo, hhi]

/-- regression input: ZCOUNT k -INF +INF counts every member, ZCOUNT k +INF -INF none -/
example : ((handleZCount c0 [b "zcount", b "k", b "-INF", b "+INF"]).run c0
      (st [(b "k", ⟨.zset 0 [(b "a", q 1), (b "lo", .ninf), (b "hi", .pinf)], none⟩)])).2 = .done (.ok (intReply 3)) := by decide
example : ((handleZCount c0 [b "zcount", b "k", b "+INF", b "-INF"]).run c0
      (st [(b "k", ⟨.zset 0 [(b "a", q 1), (b "lo", .ninf), (b "hi", .pinf)], none⟩)])).2 = .done (.ok (intReply 0)) := by decide

/-- **Any byte string is a ZADD key**: on an absent key — whatever its name, a number included — `ZADD key score member`
    creates the sorted set holding that member with that score and answers 1 (no memory limit configured). The scan for
    the first score starts after the key. -/
theorem zadd_new_key_any_name (c : Ctx) (s : State) (name key tok m : Bytes) (f : Flt)
    (hmem : c.cfg.maxMemory = 0) (h : s.lookup c.db key = none) (ht : adaptType tok = .flt f) :
    ((handleZAdd c [name, key, tok, m]).run c s).2 = .done (.ok (intReply 1)) ∧
    ((handleZAdd c [name, key, tok, m]).run c s).1.lookup c.db key = some ⟨.zset 0 [(m, f)], none⟩ := by
  have hs := setValues_single c s key (.zset 0 [(m, f)]) hmem
  simp [handleZAdd, keysExist_single, h, zaddStart, zaddIsScore, zaddMembers, ht, zaddOptions, zaddApply,
    setOrErr, newSortedSet, KMap.put, hs.1, hs.2.1]

/-- regression inputs: ZADD 1 2 m, ZADD -inf nx 1 m (keys that read as scores) -/
example : ((handleZAdd c0 [b "zadd", b "1", b "2", b "m"]).run c0 (st [])).1.lookup 0 (b "1") = some ⟨.zset 0 [(b "m", q 2)], none⟩ := by decide
example : ((handleZAdd c0 [b "zadd", b "-inf", b "nx", b "1", b "m"]).run c0 (st [])).2 = .done (.ok (intReply 1)) := by decide
/-- … and a command without any score is still refused -/
example : ((handleZAdd c0 [b "zadd", b "1", b "nx", b "a", b "b"]).run c0 (st [])).2
    = .done (.err (b "score/member pairs must be float/string")) := by decide

/-- **ZINTERSTORE / ZUNIONSTORE without a source key are refused**: when the token after the destination is an option
    word, the command fails with the arity error and nothing changes — every state, every suffix (`inter` selects the
    command). ZUNIONSTORE used to store the union of no operands. -/
theorem zstore_without_sources_refused (inter : Bool) (c : Ctx) (s : State) (name dest opt : Bytes) (rest : List Bytes)
    (ha : (name :: dest :: opt :: rest).all isAscii = true) (ho : isModifierTok opt = true) :
    (handleZCombine inter true c (name :: dest :: opt :: rest)).run c s = (s, .done (.err wrongArgs)) := by
  have hk : zstoreKeyFuncErr (name :: dest :: opt :: rest) = true := by
    by_cases hd : isModifierTok dest = true
    · simp [zstoreKeyFuncErr, List.findIdx?_cons, hd]
    · simp [zstoreKeyFuncErr, List.findIdx?_cons, hd, ho]
  have hlen : ¬ ((name :: dest :: opt :: rest).length < 3) := by simp
  unfold handleZCombine
  simp only [Bool.true_and, hlen, decide_false, Bool.false_or, Bool.not_true, Bool.false_and, Bool.or_self,
    Bool.false_eq_true, if_false, ha, if_true, hk, Prog.run]

/-- **One source key is enough for the STORE forms, whatever options follow**: the key function accepts
    `dest key <anything>` as soon as neither of the two is an option word. ZINTERSTORE used to want two keys. -/
theorem zstore_one_source_key_accepted (name dest key : Bytes) (rest : List Bytes)
    (hd : isModifierTok dest = false) (hk : isModifierTok key = false) :
    zstoreKeyFuncErr (name :: dest :: key :: rest) = false := by
  unfold zstoreKeyFuncErr
  simp only [List.drop_succ_cons, List.drop_zero, List.findIdx?_cons, hd, hk]
  cases hr : List.findIdx? isModifierTok rest <;> simp [hr]

/-- regression inputs: ZINTERSTORE d k WEIGHTS 2 stores the scaled operand; … WITHSCORES the operand itself;
    ZUNIONSTORE d WEIGHTS is refused and keeps d -/
example : ((handleZCombine true true c0 [b "zinterstore", b "d", b "k", b "weights", b "2"]).run c0
      (st [(b "k", ⟨.zset 0 [(b "a", q 1), (b "b", q 2)], none⟩)])).1.lookup 0 (b "d")
    = some ⟨.zset 0 [(b "a", q 2), (b "b", q 4)], none⟩ := by decide
example : ((handleZCombine true true c0 [b "zinterstore", b "d", b "k", b "withscores"]).run c0
      (st [(b "k", ⟨.zset 0 [(b "a", q 1)], none⟩)])).2 = .done (.ok (intReply 1)) := by decide
example : (handleZCombine false true c0 [b "zunionstore", b "d", b "WEIGHTS"]).run c0 (st [(b "d", ⟨.zset 0 [(b "old", q 9)], none⟩)])
    = (st [(b "d", ⟨.zset 0 [(b "old", q 9)], none⟩)], .done (.err wrongArgs)) := by decide

/-- is the token the word `w` in some case -/
def isWord (t w : Bytes) : Prop := toLower t = w

/-- once an NX / XX word `p` has been read, any later NX / XX word of the other kind stops the option parser:
    it never answers a set of options -/
theorem zaddOptions_policy_conflict (n : Nat) : ∀ (opts : List Bytes) (o : ZAddOpts) (p : Bytes),
    o.policy = some p → (∃ t ∈ opts, (isWord t (b "nx") ∨ isWord t (b "xx")) ∧ toLower t ≠ toLower p) →
    ∀ r, zaddOptions n opts o ≠ .ok r := by
  intro opts
  induction opts with
  | nil => intro o p _ ⟨t, ht, _⟩; cases ht
  | cons t' rest ih =>
    intro o p hp ⟨t, ht, hw, hne⟩ r
    unfold zaddOptions
    split
    · intro hh; cases hh
    · split
      · -- t' is an NX / XX word
        split
        · intro hh; cases hh
        · rename_i hcond
          have heq : toLower p = toLower t' := by
            simp only [hp, Option.isSome_some, Option.getD_some, Bool.true_and, Bool.not_eq_true', eqFold,
              Bool.not_eq_false, beq_iff_eq] at hcond
            exact hcond
          split
          · intro hh; cases hh
          · refine ih _ t' rfl ⟨t, ?_, hw, by rw [← heq]; exact hne⟩ r
            rcases List.mem_cons.mp ht with rfl | hm
            · exact absurd heq.symm hne
            · exact hm
      · rename_i hnot
        have hmem : t ∈ rest := by
          rcases List.mem_cons.mp ht with rfl | hm
          · exfalso
            apply hnot
            unfold isWord at hw
            rcases hw with hw | hw <;> simp [hw]
          · exact hm
        have hex : ∃ t ∈ rest, (isWord t (b "nx") ∨ isWord t (b "xx")) ∧ toLower t ≠ toLower p := ⟨t, hmem, hw, hne⟩
        repeat' split
        all_goals first
          | (intro hh; cases hh; done)
          | exact ih _ p (by exact hp) hex r

/-- **ZADD refuses NX together with XX**: an option list naming both (in any order, any case, anything between them)
    never parses — the command fails before anything is read or written. -/
theorem zadd_nx_xx_refused (n : Nat) : ∀ (opts : List Bytes) (o : ZAddOpts), o.policy = none →
    (∃ t ∈ opts, isWord t (b "nx")) → (∃ t ∈ opts, isWord t (b "xx")) → ∀ r, zaddOptions n opts o ≠ .ok r := by
  intro opts
  induction opts with
  | nil => intro o _ ⟨t, ht, _⟩; cases ht
  | cons t' rest ih =>
    intro o hp ⟨a, ha, hna⟩ ⟨x, hx, hxx⟩ r
    have hdiff : (b "nx" : Bytes) ≠ b "xx" := by decide
    unfold zaddOptions
    split
    · intro hh; cases hh
    · split
      · rename_i hword
        split
        · intro hh; cases hh
        · split
          · intro hh; cases hh
          · -- the policy is now t'; the word of the other kind is further right
            simp only [Bool.or_eq_true, beq_iff_eq] at hword
            refine zaddOptions_policy_conflict n rest _ t' rfl ?_ r
            rcases hword with hword | hword
            · -- t' is XX: the NX word is in the rest
              refine ⟨a, ?_, Or.inl hna, by unfold isWord at hna; rw [hna, hword]; exact hdiff⟩
              rcases List.mem_cons.mp ha with rfl | hm
              · unfold isWord at hna; rw [hna] at hword; exact absurd hword hdiff
              · exact hm
            · refine ⟨x, ?_, Or.inr hxx, by unfold isWord at hxx; rw [hxx, hword]; exact hdiff.symm⟩
              rcases List.mem_cons.mp hx with rfl | hm
              · unfold isWord at hxx; rw [hxx] at hword; exact absurd hword hdiff.symm
              · exact hm
      · rename_i hnot
        have ha' : a ∈ rest := by
          rcases List.mem_cons.mp ha with rfl | hm
          · exfalso; apply hnot; unfold isWord at hna; simp [hna]
          · exact hm
        have hx' : x ∈ rest := by
          rcases List.mem_cons.mp hx with rfl | hm
          · exfalso; apply hnot; unfold isWord at hxx; simp [hxx]
          · exact hm
        repeat' split
        all_goals first
          | (intro hh; cases hh; done)
          | exact ih _ (by exact hp) ⟨a, ha', hna⟩ ⟨x, hx', hxx⟩ r

/-- the same for GT / LT: once one of them has been read, a later word of the other kind stops the parser -/
theorem zaddOptions_comp_conflict (n : Nat) : ∀ (opts : List Bytes) (o : ZAddOpts) (p : Bytes),
    o.comp = some p → (∃ t ∈ opts, (isWord t (b "gt") ∨ isWord t (b "lt")) ∧ toLower t ≠ toLower p) →
    ∀ r, zaddOptions n opts o ≠ .ok r := by
  intro opts
  induction opts with
  | nil => intro o p _ ⟨t, ht, _⟩; cases ht
  | cons t' rest ih =>
    intro o p hp ⟨t, ht, hw, hne⟩ r
    have d1 : (b "gt" : Bytes) ≠ b "xx" := by decide
    have d2 : (b "gt" : Bytes) ≠ b "nx" := by decide
    have d3 : (b "lt" : Bytes) ≠ b "xx" := by decide
    have d4 : (b "lt" : Bytes) ≠ b "nx" := by decide
    unfold zaddOptions
    split
    · intro hh; cases hh
    · split
      · -- t' is an NX / XX word: not the witness
        rename_i hword
        simp only [Bool.or_eq_true, beq_iff_eq] at hword
        have hmem : t ∈ rest := by
          rcases List.mem_cons.mp ht with rfl | hm
          · exfalso
            unfold isWord at hw
            rcases hw with hw | hw <;> rcases hword with hword | hword <;> rw [hw] at hword
            · exact d1 hword
            · exact d2 hword
            · exact d3 hword
            · exact d4 hword
          · exact hm
        have hex : ∃ t ∈ rest, (isWord t (b "gt") ∨ isWord t (b "lt")) ∧ toLower t ≠ toLower p := ⟨t, hmem, hw, hne⟩
        repeat' split
        all_goals first
          | (intro hh; cases hh; done)
          | exact ih _ p (by exact hp) hex r
      · split
        · -- t' is a GT / LT word
          split
          · intro hh; cases hh
          · rename_i hcond
            have heq : toLower p = toLower t' := by
              simp only [hp, Option.isSome_some, Option.getD_some, Bool.true_and, Bool.not_eq_true', eqFold,
                Bool.not_eq_false, beq_iff_eq] at hcond
              exact hcond
            split
            · intro hh; cases hh
            · refine ih _ t' rfl ⟨t, ?_, hw, by rw [← heq]; exact hne⟩ r
              rcases List.mem_cons.mp ht with rfl | hm
              · exact absurd heq.symm hne
              · exact hm
        · rename_i hnot
          have hmem : t ∈ rest := by
            rcases List.mem_cons.mp ht with rfl | hm
            · exfalso
              apply hnot
              unfold isWord at hw
              rcases hw with hw | hw <;> simp [hw]
            · exact hm
          have hex : ∃ t ∈ rest, (isWord t (b "gt") ∨ isWord t (b "lt")) ∧ toLower t ≠ toLower p := ⟨t, hmem, hw, hne⟩
          repeat' split
          all_goals first
            | (intro hh; cases hh; done)
            | exact ih _ p (by exact hp) hex r

/-- **ZADD refuses GT together with LT**: an option list naming both (any order, any case, anything between them)
    never parses. -/
theorem zadd_gt_lt_refused (n : Nat) : ∀ (opts : List Bytes) (o : ZAddOpts), o.comp = none →
    (∃ t ∈ opts, isWord t (b "gt")) → (∃ t ∈ opts, isWord t (b "lt")) → ∀ r, zaddOptions n opts o ≠ .ok r := by
  intro opts
  induction opts with
  | nil => intro o _ ⟨t, ht, _⟩; cases ht
  | cons t' rest ih =>
    intro o hp ⟨a, ha, hna⟩ ⟨x, hx, hxx⟩ r
    have hdiff : (b "gt" : Bytes) ≠ b "lt" := by decide
    have d1 : (b "gt" : Bytes) ≠ b "xx" := by decide
    have d2 : (b "gt" : Bytes) ≠ b "nx" := by decide
    have d3 : (b "lt" : Bytes) ≠ b "xx" := by decide
    have d4 : (b "lt" : Bytes) ≠ b "nx" := by decide
    unfold zaddOptions
    split
    · intro hh; cases hh
    · split
      · rename_i hword
        simp only [Bool.or_eq_true, beq_iff_eq] at hword
        have ha' : a ∈ rest := by
          rcases List.mem_cons.mp ha with rfl | hm
          · exfalso; unfold isWord at hna; rcases hword with hword | hword <;> rw [hna] at hword
            · exact d1 hword
            · exact d2 hword
          · exact hm
        have hx' : x ∈ rest := by
          rcases List.mem_cons.mp hx with rfl | hm
          · exfalso; unfold isWord at hxx; rcases hword with hword | hword <;> rw [hxx] at hword
            · exact d3 hword
            · exact d4 hword
          · exact hm
        repeat' split
        all_goals first
          | (intro hh; cases hh; done)
          | exact ih _ (by exact hp) ⟨a, ha', hna⟩ ⟨x, hx', hxx⟩ r
      · split
        · rename_i hword
          split
          · intro hh; cases hh
          · split
            · intro hh; cases hh
            · simp only [Bool.or_eq_true, beq_iff_eq] at hword
              refine zaddOptions_comp_conflict n rest _ t' rfl ?_ r
              rcases hword with hword | hword
              · -- t' is GT: the LT word is in the rest
                refine ⟨x, ?_, Or.inr hxx, by unfold isWord at hxx; rw [hxx, hword]; exact hdiff.symm⟩
                rcases List.mem_cons.mp hx with rfl | hm
                · unfold isWord at hxx; rw [hxx] at hword; exact absurd hword hdiff.symm
                · exact hm
              · refine ⟨a, ?_, Or.inl hna, by unfold isWord at hna; rw [hna, hword]; exact hdiff⟩
                rcases List.mem_cons.mp ha with rfl | hm
                · unfold isWord at hna; rw [hna] at hword; exact absurd hword hdiff
                · exact hm
        · rename_i hnot
          have ha' : a ∈ rest := by
            rcases List.mem_cons.mp ha with rfl | hm
            · exfalso; apply hnot; unfold isWord at hna; simp [hna]
            · exact hm
          have hx' : x ∈ rest := by
            rcases List.mem_cons.mp hx with rfl | hm
            · exfalso; apply hnot; unfold isWord at hxx; simp [hxx]
            · exact hm
          repeat' split
          all_goals first
            | (intro hh; cases hh; done)
            | exact ih _ (by exact hp) ⟨a, ha', hna⟩ ⟨x, hx', hxx⟩ r

/-- the hypotheses are satisfiable, and the handler turns the refusal into an error that leaves the state alone:
    the regression inputs ZADD k NX XX 5 a, ZADD k LT CH GT 0 a (existing member), and the flags NX with GT -/
example : (handleZAdd c0 [b "zadd", b "k", b "nx", b "xx", b "5", b "a"]).run c0 (st [(b "k", ⟨.zset 0 [(b "a", q 1)], none⟩)])
    = (st [(b "k", ⟨.zset 0 [(b "a", q 1)], none⟩)], .done (.err (b "XX and NX flags cannot be provided together"))) := by decide
example : (handleZAdd c0 [b "zadd", b "k", b "LT", b "ch", b "GT", b "0", b "a"]).run c0 (st [(b "k", ⟨.zset 0 [(b "a", q 1)], none⟩)])
    = (st [(b "k", ⟨.zset 0 [(b "a", q 1)], none⟩)], .done (.err (b "GT and LT flags cannot be provided together"))) := by decide
example : ((handleZAdd c0 [b "zadd", b "k", b "xx", b "nx", b "5", b "a"]).run c0 (st [])).2
    = .done (.err (b "XX and NX flags cannot be provided together")) := by decide
/-- a repeated flag is not a conflict: ZADD k NX nx 7 m adds m -/
example : ((handleZAdd c0 [b "zadd", b "k", b "NX", b "nx", b "7", b "m"]).run c0 (st [(b "k", ⟨.zset 0 [(b "a", q 1)], none⟩)])).1.lookup 0 (b "k")
    = some ⟨.zset 0 [(b "a", q 1), (b "m", q 7)], none⟩ := by decide

/-! ### where the full statement fails (model witnesses; each is a class of Known.lean) -/

/-- ZADD without CH counts an update -/
theorem zadd_counts_updates_witness :
    ((handleZAdd c0 [b "zadd", b "k", b "2", b "a"]).run c0 (st [(b "k", ⟨.zset 0 [(b "a", q 1)], none⟩)])).2
      = .done (.ok (intReply 1)) := by decide

/-- ZADD XX on an absent key creates it -/
theorem zadd_flags_ignored_on_new_key_witness :
    ((handleZAdd c0 [b "zadd", b "k", b "xx", b "1", b "n"]).run c0 (st [])).1.lookup 0 (b "k")
      = some ⟨.zset 0 [(b "n", q 1)], none⟩ := by decide

/-- LIMIT 0 1 over scores 1,1,1,2,2 with bounds 2..2 answers nothing (the window is cut first) -/
theorem zrange_limit_before_filter_witness :
    ((handleZRange c0 [b "zrange", b "k", b "2", b "2", b "limit", b "0", b "1"]).run c0
      (st [(b "k", ⟨.zset 0 [(b "a", q 1), (b "b", q 1), (b "c", q 1), (b "d", q 2), (b "e", q 2)], none⟩)])).2
      = .done (.ok (b "*0\r\n")) := by decide

/-- ZREMRANGEBYRANK 1 10 on three members is refused -/
theorem zremrangebyrank_rejects_witness :
    ((handleZRemRangeByRank c0 [b "zremrangebyrank", b "k", b "1", b "10"]).run c0
      (st [(b "k", ⟨.zset 0 [(b "a", q 1), (b "b", q 2), (b "c", q 3)], none⟩)])).2
      = .done (.err (b "indices out of bounds")) := by decide

/-- ZUNIONSTORE k k empties k: the destination is deleted from the operand list -/
theorem zstore_destination_dropped_witness :
    ((handleZCombine false true c0 [b "zunionstore", b "k", b "k"]).run c0
      (st [(b "k", ⟨.zset 0 [(b "a", q 1)], none⟩)])).1.lookup 0 (b "k") = some ⟨.zset 0 [], none⟩ := by decide

/-- ZLEXCOUNT a b on {a, ab, b} misses ab -/
theorem zlexcount_substring_witness :
    ((handleZLexCount c0 [b "zlexcount", b "k", b "a", b "b"]).run c0
      (st [(b "k", ⟨.zset 0 [(b "a", q 0), (b "ab", q 0), (b "b", q 0)], none⟩)])).2 = .done (.ok (intReply 2)) := by decide

/-- ZINCRBY on an infinite score is refused -/
theorem zincrby_infinite_witness :
    ((handleZIncrBy c0 [b "zincrby", b "k", b "1", b "a"]).run c0
      (st [(b "k", ⟨.zset 0 [(b "a", .pinf)], none⟩)])).2 = .done (.err (b "cannot increment -inf or +inf")) := by decide

/-- ZMSCORE on an absent key answers an empty array -/
theorem zmscore_absent_witness :
    ((handleZMScore c0 [b "zmscore", b "k", b "a"]).run c0 (st [])).2 = .done (.ok (b "*0\r\n")) := by decide

/-- the classifier names these inputs -/
theorem classes_named :
    Known.classifyZSet c0 (st [(b "k", ⟨.zset 0 [(b "a", q 1)], none⟩)]) [b "zadd", b "k", b "2", b "a"]
      = some "zadd-counts-updates-without-ch" ∧
    Known.classifyZSet c0 (st []) [b "zadd", b "k", b "xx", b "1", b "n"] = some "zadd-flags-ignored-on-new-key" ∧
    Known.classifyZSet c0 (st [(b "k", ⟨.zset 0 [(b "a", q 1)], none⟩)]) [b "zunionstore", b "k", b "k"]
      = some "zstore-destination-dropped-from-operands" := by decide

/-- the repaired inputs are no longer named by their former classes, and no longer hide the classes that share their
    shape: ZADD on a numeric key, ZRANK … WITHSCORE, ZINTERSTORE with one source key (here with an absent operand, which is
    the class `zstore-absent-operand-keeps-destination`) -/
theorem repaired_classes_not_named :
    Known.classifyZSet c0 (st []) [b "zadd", b "1", b "2", b "2"] = none ∧
    Known.classifyZSet c0 (st [(b "1", ⟨.zset 0 [(b "a", q 1)], none⟩)]) [b "zadd", b "1", b "2", b "a"]
      = some "zadd-counts-updates-without-ch" ∧
    Known.classifyZSet c0 (st [(b "k", ⟨.zset 0 [(b "m", q 1)], none⟩)]) [b "zrank", b "k", b "m", b "withscore"] = none ∧
    Known.classifyZSet c0 (st [(b "k", ⟨.zset 0 [(b "m", q 1), (b "n", q 1)], none⟩)]) [b "zrank", b "k", b "m", b "withscore"]
      = some "zset-ties-ordered-by-map-iteration" ∧
    Known.classifyZSet c0 (st [(b "k1", ⟨.zset 0 [(b "m", q 1)], none⟩)]) [b "zinterstore", b "k3", b "k1", b "withscores"] = none ∧
    Known.classifyZSet c0 (st [(b "d", ⟨.zset 0 [(b "m", q 1)], none⟩)]) [b "zinterstore", b "d", b "k9", b "withscores"]
      = some "zstore-absent-operand-keeps-destination" := by decide

end Sugar.Props.C17
