/-
  Props.C03 — snapshot round trip: what a server started with snapshot restore serves, as a function
  of the data directory (manifest + snapshot directories). The restore of the decoded state file is
  exact key by key and drops keys whose deadline has passed; LASTSAVE is the time recorded in the
  state file; the state file is the same JSON encoding as the rewrite preamble, so it is exact on the
  same domain and retypes values outside it (witnesses; classes of Known.lean).
  Helper lemmas live in Lemmas/RestoreLemmas.lean and Lemmas/JsonLemmas.lean.
-/
import SugarModel.Lemmas.JsonLemmas
import SugarModel.Spec.Durable
namespace Sugar.Props.C03
open Sugar Sugar.Persist

/-- the empty keyspace of a fresh server -/
abbrev fresh : State := { dbs := [], mem := 0 }

/-- the manifest names snapshot `ms` and the directory of that name holds a state file decoding to
    dataset `ds` taken at time `ls` -/
def Names (im : SnapImage) (ms : Int) (ds : List (Nat × List (Bytes × Entry))) (ls : Int) : Prop :=
  im.manifest = some (some ms) ∧ ms ≠ 0 ∧
  ∃ d, im.dirs.find? (fun d => (d.name : Int) == ms) = some d ∧ d.state = some (some (ds, ls))

/-- restore of an image whose manifest names a decodable snapshot is the restore of its dataset -/
theorem restoreSnap_named (now : Int) (im : SnapImage) (ms : Int) (ds : List (Nat × List (Bytes × Entry))) (ls : Int)
    (h : Names im ms ds ls) :
    restoreSnap now im = (match restoreDataset now fresh ds with | none => (.panic, ls) | some s => (.ok s, ls)) := by
  obtain ⟨hm, h0, d, hf, hs⟩ := h
  have h0' : (ms == 0) = false := by simpa using h0
  simp only [restoreSnap, hm, h0', Bool.false_eq_true, if_false, hf, Option.bind_some, hs]
  cases restoreDataset now fresh ds <;> rfl

/-- **Snapshot round trip, key by key.** If the manifest names a snapshot whose state file decodes to
    the dataset `ds` (distinct database indices, distinct keys), the restored server serves, for every
    database `i` of it and every entry `(k, e)` whose deadline has not passed, exactly `e` — same
    value, type and deadline, in database `i`; a key absent from the snapshot is absent; a database
    absent from the snapshot is empty; and LASTSAVE is the recorded time. -/
theorem snapshot_roundtrip_partial (now : Int) (im : SnapImage) (ms : Int)
    (ds : List (Nat × List (Bytes × Entry))) (ls : Int) (h : Names im ms ds ls)
    (hd : (ds.map Prod.fst).Nodup) (hk : ∀ i es, (i, es) ∈ ds → (es.map Prod.fst).Nodup) :
    ∃ s', restoreSnap now im = (.ok s', ls) ∧
      (∀ i es, (i, es) ∈ ds → ∀ k e, (k, e) ∈ es → e.expired now = false → s'.lookup i k = some e) ∧
      (∀ i es, (i, es) ∈ ds → ∀ k, k ∉ es.map Prod.fst → s'.lookup i k = none) ∧
      (∀ j, j ∉ ds.map Prod.fst → s'.db j = ⟨[], []⟩) := by
  obtain ⟨s', h0, ha, hb, hc⟩ := restoreDataset_spec now ds fresh hd hk
  refine ⟨s', by rw [restoreSnap_named now im ms ds ls h, h0], ha, ?_, ?_⟩
  · intro i es hm k hnk
    rw [hb i es hm k]
    · rfl
    · intro e hke
      exact absurd (List.mem_map.mpr ⟨(k, e), hke, rfl⟩) hnk
  · intro j hj
    rw [hc j hj]; rfl

/-- **Keys whose deadline has passed since the snapshot are dropped**: a key all of whose snapshot
    entries have a deadline before the restart time is absent from the restored server. -/
theorem expired_since_snapshot_dropped (now : Int) (im : SnapImage) (ms : Int)
    (ds : List (Nat × List (Bytes × Entry))) (ls : Int) (h : Names im ms ds ls)
    (hd : (ds.map Prod.fst).Nodup) (hk : ∀ i es, (i, es) ∈ ds → (es.map Prod.fst).Nodup)
    (i : Nat) (es : List (Bytes × Entry)) (hm : (i, es) ∈ ds) (k : Bytes)
    (hx : ∀ e, (k, e) ∈ es → e.expired now = true) :
    ∃ s', restoreSnap now im = (.ok s', ls) ∧ s'.lookup i k = none := by
  obtain ⟨s', h0, _, hb, _⟩ := restoreDataset_spec now ds fresh hd hk
  exact ⟨s', by rw [restoreSnap_named now im ms ds ls h, h0], by rw [hb i es hm k hx]; rfl⟩

/-- **Snapshot of a keyspace, taken at `t`, restored at `now`** (faithful domain of the JSON
    encoding): the state file decodes, and the restored server serves in every database and under
    every key exactly the entry the keyspace held, unless its deadline had passed at `t` or has passed
    at `now` (then the key is absent); LASTSAVE = `ls`. -/
theorem snapshot_of_state_roundtrip_partial (t now : Int) (s : State) (hw : WellKeyed s)
    (hf : ∀ i d, (i, d) ∈ s.dbs → ∀ k e, (k, e) ∈ d.store → e.expired t = false →
      isAscii k = true ∧ jsonFaithful e.val = true)
    (im : SnapImage) (ms ls : Int) (ds : List (Nat × List (Bytes × Entry)))
    (hds : jsonState t s = some ds) (h : Names im ms ds ls) :
    ∃ s', restoreSnap now im = (.ok s', ls) ∧
      ∀ i k, s'.lookup i k =
        (s.lookup i k).bind fun e => if e.expired t || e.expired now then none else some e := by
  rw [jsonState_faithful t s hf, Option.some.injEq] at hds
  subst hds
  obtain ⟨s', h0, h1⟩ := restore_liveDataset t now s hw
  exact ⟨s', by rw [restoreSnap_named now im ms _ ls h]; simp only [fresh, h0], h1⟩

/-- **LASTSAVE reports the time of the snapshot that was restored** — whatever the dataset -/
theorem lastsave_is_recorded_time (now : Int) (im : SnapImage) (ms : Int)
    (ds : List (Nat × List (Bytes × Entry))) (ls : Int) (h : Names im ms ds ls) :
    (restoreSnap now im).2 = ls := by
  rw [restoreSnap_named now im ms ds ls h]
  cases restoreDataset now fresh ds <;> rfl

/-- no manifest: nothing is restored, LASTSAVE is 0 -/
theorem restore_without_manifest_is_empty (now : Int) (dirs : List SnapDir) :
    restoreSnap now { manifest := none, dirs := dirs } = (.ok fresh, 0) := rfl

/-- a manifest that does not decode: nothing is restored, whatever snapshot directories exist -/
theorem restore_undecodable_manifest_is_empty (now : Int) (dirs : List SnapDir) :
    restoreSnap now { manifest := some none, dirs := dirs } = (.ok fresh, 0) := rfl

/-- a manifest naming snapshot 0 (the initial manifest): nothing is restored -/
theorem restore_manifest_zero_is_empty (now : Int) (dirs : List SnapDir) :
    restoreSnap now { manifest := some (some 0), dirs := dirs } = (.ok fresh, 0) := rfl

/-- a manifest naming a snapshot whose directory or state file is missing, or whose state file does
    not decode: nothing is restored, whatever other snapshot directories exist -/
theorem restore_unusable_state_is_empty (now : Int) (im : SnapImage) (ms : Int) (hm : im.manifest = some (some ms))
    (h : (im.dirs.find? fun d => (d.name : Int) == ms).bind (·.state) = none ∨
         (im.dirs.find? fun d => (d.name : Int) == ms).bind (·.state) = some none) :
    restoreSnap now im = (.ok fresh, 0) := by
  unfold restoreSnap
  simp only [hm]
  split
  · rfl
  · rcases h with h | h <;> simp only [h]

/-- when nothing is restored LASTSAVE stays 0 (no manifest, undecodable manifest, manifest 0,
    missing or undecodable state file): LASTSAVE ≠ 0 only for a snapshot that was actually read -/
theorem lastsave_nonzero_only_if_restored (now : Int) (im : SnapImage) (h : (restoreSnap now im).2 ≠ 0) :
    ∃ ms ds ls, Names im ms ds ls := by
  unfold restoreSnap at h
  cases hm : im.manifest with
  | none => simp [hm] at h
  | some m =>
    cases m with
    | none => simp [hm] at h
    | some ms =>
      simp only [hm] at h
      by_cases h0 : ms = 0
      · simp [h0] at h
      · have h0' : (ms == 0) = false := by simpa using h0
        simp only [h0', Bool.false_eq_true, if_false] at h
        cases hf : im.dirs.find? (fun d => (d.name : Int) == ms) with
        | none => simp [hf] at h
        | some d =>
          simp only [hf, Option.bind_some] at h
          cases hs : d.state with
          | none => simp [hs] at h
          | some st =>
            cases st with
            | none => simp [hs] at h
            | some p => exact ⟨ms, p.1, p.2, hm, h0, d, hf, hs⟩

/-- the hypothesis `Names` is satisfiable -/
example : Names { manifest := some (some 1000), dirs := [⟨900, none⟩, ⟨1000, some (some ([], 1000))⟩] } 1000 [] 1000 :=
  ⟨rfl, by decide, ⟨1000, some (some ([], 1000))⟩, by simp [List.find?], rfl⟩

/-! ### where the full statement fails (model witnesses; each is a class of Known.lean) -/

/-- a list in the snapshot is served as `[]interface{}` (no list command accepts it) -/
theorem snapshot_retypes_list_witness :
    let s : State := { dbs := [(0, ⟨[(b "l", ⟨.list [b "a", b "b"], none⟩)], []⟩)], mem := 0 }
    (match jsonState 1000 s with
     | some ds => (match (restoreSnap 2000 { manifest := some (some 1000), dirs := [⟨1000, some (some (ds, 1000))⟩] }).1 with
        | .ok s' => (s'.lookup 0 (b "l")).map (fun e => obsVal e.val) | _ => none)
     | none => none) = some (.broken "[]interface{}") := by
  decide +kernel

/-- a set in the snapshot is served as an empty hash: its members are gone -/
theorem snapshot_empties_set_witness :
    let s : State := { dbs := [(0, ⟨[(b "s", ⟨.set 0 [b "m1", b "m2"], none⟩)], []⟩)], mem := 0 }
    (match jsonState 1000 s with
     | some ds => (match (restoreSnap 2000 { manifest := some (some 1000), dirs := [⟨1000, some (some (ds, 1000))⟩] }).1 with
        | .ok s' => (s'.lookup 0 (b "s")).map (·.val) | _ => none)
     | none => none) = some (.hash []) := by
  decide +kernel

/-- an integer in the snapshot is served as a float -/
theorem snapshot_int_becomes_float_witness :
    let s : State := { dbs := [(0, ⟨[(b "n", ⟨.int 7, none⟩)], []⟩)], mem := 0 }
    (match jsonState 1000 s with
     | some ds => (match (restoreSnap 2000 { manifest := some (some 1000), dirs := [⟨1000, some (some (ds, 1000))⟩] }).1 with
        | .ok s' => (s'.lookup 0 (b "n")).map (·.val) | _ => none)
     | none => none) = some (.flt (.fin (Dec.ofInt 7))) := by
  decide +kernel

/-- the hypotheses of the round trip are satisfiable: a two-database snapshot, one key expired since -/
example :
    let ds : List (Nat × List (Bytes × Entry)) :=
      [(0, [(b "k", ⟨.str (b "v"), some 5000⟩), (b "old", ⟨.str (b "x"), some 1500⟩)]),
       (2, [(b "h", ⟨.hash [(b "f", .str (b "x"))], none⟩)])]
    (match restoreSnap 2000 { manifest := some (some 1000), dirs := [⟨900, some none⟩, ⟨1000, some (some (ds, 1000))⟩] } with
     | (.ok s, ls) => (s.lookup 0 (b "k"), s.lookup 0 (b "old"), (s.lookup 2 (b "h")).isSome, ls)
     | _ => (none, none, false, 0)) = (some ⟨.str (b "v"), some 5000⟩, none, true, 1000) := by
  decide +kernel

/-! ### the automatic trigger -/

/-- **The automatic snapshot fires once the threshold is reached**: a tick that observes the change
    counter at or above the threshold starts a snapshot — for every counter value and threshold
    (the equality test that let an overshooting counter never fire was repaired upstream; the full
    statement now holds). -/
theorem auto_trigger (n thr : Nat) (h : n ≥ thr) : Sugar.Persist.autoFires n thr = true := by
  simp [Sugar.Persist.autoFires, h]

/-- … and only then: below the threshold no tick starts a snapshot -/
theorem auto_trigger_only_at_or_above (n thr : Nat) (h : n < thr) : Sugar.Persist.autoFires n thr = false := by
  simp [Sugar.Persist.autoFires]; omega

end Sugar.Props.C03
