/-
  Props.C09 — log rewrite (REWRITEAOF): what the two files a rewrite leaves (the JSON preamble and the
  truncated log with its header) restore to. The preamble round trip is exact on the domain where the
  JSON encoding is exact and retypes values outside it; the header is readable for every database
  index (the fixed `$1` length prefix was repaired upstream); an undecodable preamble abandons the whole restore. Witnesses of the crash
  windows (each one a class of Known.lean). Helper lemmas live in Lemmas/RestoreLemmas.lean and
  Lemmas/JsonLemmas.lean.
-/
import SugarModel.Lemmas.PersistLemmas
import SugarModel.Lemmas.JsonLemmas
import SugarModel.Spec.Durable
namespace Sugar.Props.C09
open Sugar Sugar.Persist

/-! ### the files a rewrite leaves -/

/-- **An undecodable preamble abandons the whole restore**: whatever the log holds — every write
    acknowledged since the rewrite — the server comes up empty (a crash while the preamble is being
    written leaves exactly such a file). -/
theorem undecodable_preamble_abandons_restore (now : Int) (log : Bytes) :
    restore now none log = .ok { dbs := [], mem := 0 } := rfl

/-- **The header of a rewritten log is readable for every index**: the truncated log is the one
    record `SELECT cur`, read back completely — the store's initial index -1 and indices ≥ 10
    included (the fixed `$1` length prefix was repaired upstream). -/
theorem header_after_rewrite_readable (cur : Int) (f : Nat) :
    parseLogItems (f + 1) (logHeader cur) = ([.cmd [b "SELECT", fmtInt cur]], []) := by
  unfold logHeader
  rw [selectMarker_eq_record cur]
  have h := parseLogItems_records [[b "SELECT", fmtInt cur]] f []
  simp only [List.map_cons, List.map_nil, List.flatten_cons, List.flatten_nil, List.append_nil,
    List.length_cons, List.length_nil, Nat.zero_add] at h
  rw [Nat.add_comm, h]
  cases f <;> simp [parseLogItems]

/-- **A rewrite on a fresh log leaves a readable header**: REWRITEAOF before any write leaves the
    header of index -1, which is the record `SELECT -1` (this replaces the former witness that the
    header was unreadable; repaired upstream). -/
theorem fresh_rewrite_header_readable (f : Nat) :
    parseLogItems (f + 1) (logHeader (-1)) = ([.cmd [b "SELECT", b "-1"]], []) :=
  header_after_rewrite_readable (-1) f

/-- **Writes arriving after a rewrite are read back after the header**: header (any index) followed
    by the records of any command sequence is read as SELECT followed by that sequence. -/
theorem rewritten_log_roundtrip (cur : Int) (cs : List (List Bytes)) (f : Nat) (hf : cs.length < f) :
    parseLogItems f (logHeader cur ++ (cs.map encodeCmd).flatten) =
      (.cmd [b "SELECT", fmtInt cur] :: cs.map .cmd, []) := by
  unfold logHeader
  rw [selectMarker_eq_record cur]
  obtain ⟨g, rfl⟩ : ∃ g, f = ([b "SELECT", fmtInt cur] :: cs).length + g := ⟨f - (cs.length + 1), by simp; omega⟩
  have h := parseLogItems_records ([b "SELECT", fmtInt cur] :: cs) g []
  simp only [List.map_cons, List.flatten_cons, List.append_nil] at h
  rw [h]
  cases g <;> simp [parseLogItems]

/-- **After a completed rewrite the restore is the preamble's dataset followed by the replay of the
    header and of the writes made since** (header of any index, then the records of any command
    sequence, then possibly a torn record): nothing of the old log is read, nothing new is skipped.
    The header is replayed as the record `SELECT cur`: it makes `cur` the database of the records that
    follow (see `restore_after_rewrite_in_database`). -/
theorem restore_after_rewrite (now : Int) (ds : List (Nat × List (Bytes × Entry))) (s1 : State)
    (cur : Int) (cs : List (List Bytes)) (c : List Bytes) (t u : Bytes)
    (hds : restoreDataset now { dbs := [], mem := 0 } ds = some s1)
    (ht : t ++ u = encodeCmd c) (hu : u ≠ []) :
    restore now (some ds) (logHeader cur ++ ((cs.map encodeCmd).flatten ++ t)) =
      replay now 0 (.cmd [b "SELECT", fmtInt cur] :: cs.map .cmd) s1 := by
  unfold logHeader
  rw [selectMarker_eq_record cur]
  have hlen : ([b "SELECT", fmtInt cur] :: cs).length ≤
      (encodeCmd [b "SELECT", fmtInt cur] ++ ((cs.map encodeCmd).flatten ++ t)).length + 1 := by
    have h1 : 0 < (encodeCmd [b "SELECT", fmtInt cur]).length := by rw [encodeCmd_eq_cons]; simp
    have h2 : cs.length ≤ ((cs.map encodeCmd).flatten ++ t).length + 1 := by
      clear ht hu hds
      induction cs with
      | nil => simp
      | cons c' r ih =>
        simp only [List.map_cons, List.flatten_cons, List.append_assoc, List.length_append, List.length_cons] at ih ⊢
        have : 0 < (encodeCmd c').length := by rw [encodeCmd_eq_cons]; simp
        omega
    simp only [List.length_cons, List.length_append] at h2 ⊢
    omega
  obtain ⟨g, hg⟩ : ∃ g, (encodeCmd [b "SELECT", fmtInt cur] ++ ((cs.map encodeCmd).flatten ++ t)).length + 1 =
      ([b "SELECT", fmtInt cur] :: cs).length + g := ⟨_, (Nat.add_sub_cancel' hlen).symm⟩
  have hitems := parseLogItems_records ([b "SELECT", fmtInt cur] :: cs) g t
  simp only [List.map_cons, List.flatten_cons, List.append_assoc] at hitems
  simp only [restore, hds, hg, hitems, parseLogItems_torn g c t u ht hu, List.append_nil]

/-- **Writes logged after a rewrite without a marker of their own run in the header's database**:
    the header names the store's current database `cur` — exactly the database of every later record
    that `logAppend` writes without a marker — and the replay executes those records in `cur` on top
    of the preamble's dataset (the index was dropped before the repair upstream). -/
theorem restore_after_rewrite_in_database (now : Int) (ds : List (Nat × List (Bytes × Entry))) (s1 : State)
    (cur : Int) (h1 : minInt64 ≤ cur) (h2 : cur ≤ maxInt64) (cs : List (List Bytes)) (c : List Bytes) (t u : Bytes)
    (hds : restoreDataset now { dbs := [], mem := 0 } ds = some s1)
    (ht : t ++ u = encodeCmd c) (hu : u ≠ []) :
    restore now (some ds) (logHeader cur ++ ((cs.map encodeCmd).flatten ++ t)) = replay now cur (cs.map .cmd) s1 := by
  rw [restore_after_rewrite now ds s1 cur cs c t u hds ht hu, replay_select, parseInt64_fmtInt cur h1 h2]

/-- after a rewrite on a fresh log the store's current index is still -1, so every later write is
    preceded by its own marker, whatever its database: `logAppend` emits one whenever the database
    differs from the store's current one -/
theorem write_after_fresh_rewrite_carries_marker (db : Nat) (r : Bytes) :
    (logAppend (-1) db r).1 = selectMarker db ++ r := by
  rw [logAppend_fresh]

/-- **A rewrite on a fresh log does not hide later writes**: REWRITEAOF before any write leaves the
    header of index -1; the first write after it carries the marker of its database `d`
    (`write_after_fresh_rewrite_carries_marker`); the restore reads the header, switches to `d` at the
    marker and replays every record appended after it (up to a torn tail) in database `d` on top of
    the preamble's dataset (this replaces the former `fresh_rewrite_hides_later_writes`; repaired
    upstream). -/
theorem fresh_rewrite_then_writes_restored (now : Int) (ds : List (Nat × List (Bytes × Entry))) (s1 : State)
    (d : Nat) (hd : (d : Int) ≤ maxInt64) (cs : List (List Bytes)) (c : List Bytes) (t u : Bytes)
    (hds : restoreDataset now { dbs := [], mem := 0 } ds = some s1)
    (ht : t ++ u = encodeCmd c) (hu : u ≠ []) :
    restore now (some ds) (logHeader (-1) ++ (selectMarker d ++ ((cs.map encodeCmd).flatten ++ t))) =
      replay now (d : Int) (cs.map .cmd) s1 := by
  have hlog : selectMarker d ++ ((cs.map encodeCmd).flatten ++ t) =
      (([b "SELECT", fmtInt d] :: cs).map encodeCmd).flatten ++ t := by
    rw [selectMarker_eq_record]; simp
  rw [hlog, restore_after_rewrite now ds s1 (-1) _ c t u hds ht hu, replay_select]
  have : parseInt64 (fmtInt (-1)) = some (-1) := by decide
  rw [this]
  simp only [List.map_cons]
  rw [replay_select, parseInt64_fmtNat d hd]

/-- concrete instance: fresh rewrite, then `SET k v` under database 0 and under database 2 as
    `Store.Write` logs them: both keys are restored, each in its database -/
theorem fresh_rewrite_then_write_restored_witness :
    let w1 := logAppend (-1) 0 (encodeCmd [b "SET", b "k", b "v"])
    let w2 := logAppend w1.2 2 (encodeCmd [b "SET", b "j", b "w"])
    (parseLog 100 (logHeader (-1) ++ w1.1 ++ w2.1)).1 =
      [[b "SELECT", b "-1"], [b "SELECT", b "0"], [b "SET", b "k", b "v"], [b "SELECT", b "2"], [b "SET", b "j", b "w"]] ∧
    (match restore 1000 (some []) (logHeader (-1) ++ w1.1 ++ w2.1) with
     | .ok s => (s.lookup 0 (b "k"), s.lookup 2 (b "j"), s.lookup 0 (b "j")) | _ => (none, none, none)) =
      (some ⟨.str (b "v"), none⟩, some ⟨.str (b "w"), none⟩, none) := by
  decide +kernel

/-! ### the two files at every step of a rewrite -/

/-- what the preamble file and the log file hold after `step` file operations of a rewrite that
    copies the dataset `ds` (store index `cur`) over the old preamble `pre0` and old log `log0`:
    0 nothing yet · 1 preamble truncated (empty file) · 2 preamble partly written (does not decode)
    · 3 preamble written and synced, log not yet truncated · 4 (and later) log truncated to its header -/
def rewriteStep (pre0 : Option (List (Nat × List (Bytes × Entry)))) (log0 : Bytes)
    (ds : List (Nat × List (Bytes × Entry))) (cur : Int) : Nat → Option (List (Nat × List (Bytes × Entry))) × Bytes
  | 0 => (pre0, log0)
  | 1 => (some [], log0)
  | 2 => (none, log0)
  | 3 => (some ds, log0)
  | _ => (some ds, logHeader cur)

/-- restore from the files of a rewrite step -/
def restoreStep (now : Int) (im : Option (List (Nat × List (Bytes × Entry))) × Bytes) : Restored :=
  restore now im.1 im.2

/-- **A completed rewrite restores exactly the copied dataset**, whatever the store's index (the
    header is the record `SELECT cur`, which only sets the current database or — for an index outside
    the int64 range — ends the read): nothing of the old log survives the truncation, so nothing is applied twice. -/
theorem rewrite_complete_restores_dataset (now : Int) (pre0 : Option (List (Nat × List (Bytes × Entry))))
    (log0 : Bytes) (ds : List (Nat × List (Bytes × Entry))) (cur : Int) (s1 : State) (n : Nat)
    (hds : restoreDataset now { dbs := [], mem := 0 } ds = some s1) :
    restoreStep now (rewriteStep pre0 log0 ds cur (n + 4)) = .ok s1 := by
  simp only [restoreStep, rewriteStep]
  have hitems := header_after_rewrite_readable cur (logHeader cur).length
  simp only [restore, hds, hitems, replay_select]
  cases parseInt64 (fmtInt cur) <;> simp [replay]

/-- **A crash while the preamble is being written loses everything** — universally: whatever the old
    preamble and the old log held, and whatever is being copied, the image of step 2 restores the
    empty keyspace. -/
theorem rewrite_crash_mid_preamble_loses_dataset (now : Int) (pre0 : Option (List (Nat × List (Bytes × Entry))))
    (log0 : Bytes) (ds : List (Nat × List (Bytes × Entry))) (cur : Int) :
    restoreStep now (rewriteStep pre0 log0 ds cur 2) = .ok { dbs := [], mem := 0 } := rfl

/-- **A crash right after the preamble is truncated forgets the previous preamble**: the image of
    step 1 restores the old log replayed on the EMPTY keyspace, not on the dataset of the previous
    preamble (harmless on the first rewrite, where that preamble is empty; a loss of the whole
    previously compacted dataset afterwards). -/
theorem rewrite_crash_after_truncate_forgets_preamble (now : Int) (pre0 : Option (List (Nat × List (Bytes × Entry))))
    (log0 : Bytes) (ds : List (Nat × List (Bytes × Entry))) (cur : Int) :
    restoreStep now (rewriteStep pre0 log0 ds cur 1) =
      replay now 0 (parseLogItems (log0.length + 1) log0).1 { dbs := [], mem := 0 } := rfl

/-- **A crash between the preamble write and the log truncation replays the old log on top of the
    new preamble** (step 3): every record of the old log is applied to a dataset that already
    contains its effect. -/
theorem rewrite_window_replays_old_log (now : Int) (pre0 : Option (List (Nat × List (Bytes × Entry))))
    (log0 : Bytes) (ds : List (Nat × List (Bytes × Entry))) (cur : Int) (s1 : State)
    (hds : restoreDataset now { dbs := [], mem := 0 } ds = some s1) :
    restoreStep now (rewriteStep pre0 log0 ds cur 3) = replay now 0 (parseLogItems (log0.length + 1) log0).1 s1 := by
  simp only [restoreStep, rewriteStep, restore, hds]

/-- a crash before the rewrite touched anything restores what was there -/
theorem rewrite_not_started_restores_old (now : Int) (pre0 : Option (List (Nat × List (Bytes × Entry))))
    (log0 : Bytes) (ds : List (Nat × List (Bytes × Entry))) (cur : Int) :
    restoreStep now (rewriteStep pre0 log0 ds cur 0) = restore now pre0 log0 := rfl

/-! ### what the JSON encoding of the preamble does to values -/

/-- ASCII text comes back as the same text -/
theorem jsonVal_ascii_string (s : Bytes) (h : isAscii s = true) : jsonVal (.str s) = some (.str s) := by
  simp [jsonVal, h]

/-- **A list never comes back as a list**: it decodes (when it decodes at all) to `[]interface{}` -/
theorem jsonVal_list_retyped (xs : List Bytes) (v : Val) (h : jsonVal (.list xs) = some v) : v = .ilist xs := by
  simp only [jsonVal] at h
  split at h
  · simp only [Option.some.injEq] at h; exact h.symm
  · simp at h

theorem jsonVal_list_ne_list (xs ys : List Bytes) : jsonVal (.list xs) ≠ some (.list ys) := by
  intro h
  have := jsonVal_list_retyped xs _ h
  simp at this

/-- **A set comes back as an empty hash**, whatever its members -/
theorem jsonVal_set_emptied (o : Nat) (ms : List Bytes) : jsonVal (.set o ms) = some (.hash []) := rfl

/-- **A sorted set comes back as an empty hash**, whatever its members and scores -/
theorem jsonVal_zset_emptied (o : Nat) (ms : KMap Flt) : jsonVal (.zset o ms) = some (.hash []) := rfl

/-- **An integer comes back as a float** (within ±2^53) -/
theorem jsonVal_int_becomes_float (i : Int) (h : i.natAbs ≤ 9007199254740992) :
    jsonVal (.int i) = some (.flt (.fin (Dec.ofInt i))) := by
  simp [jsonVal, h]

/-- on what a client observes: a rewritten list is a value no list command accepts, never the list -/
theorem retyped_list_observed_broken (xs : List Bytes) (v : Val) (h : jsonVal (.list xs) = some v) :
    obsVal v = .broken "[]interface{}" ∧ obsVal v ≠ obsVal (.list xs) := by
  rw [jsonVal_list_retyped xs v h]
  exact ⟨rfl, by simp [obsVal]⟩

/-- on what a client observes: a rewritten set is observed as a hash, never as a set -/
theorem retyped_set_observed_as_hash (o : Nat) (ms : List Bytes) (v : Val) (h : jsonVal (.set o ms) = some v) :
    obsVal v ≠ obsVal (.set o ms) := by
  simp only [jsonVal, Option.some.injEq] at h
  subst h
  simp [obsVal]

/-- **The encoding is exact on its faithful domain**: nil, ASCII text, floats, hashes of ASCII
    fields holding ASCII text or floats come back unchanged. -/
theorem jsonVal_exact_on_faithful (v : Val) (h : jsonFaithful v = true) : jsonVal v = some v :=
  jsonVal_faithful v h

/-! ### the preamble round trip -/

/-- restore with a decodable preamble and an empty log is the restore of the decoded dataset -/
theorem restore_empty_log (now : Int) (ds : List (Nat × List (Bytes × Entry))) (s' : State)
    (h : restoreDataset now { dbs := [], mem := 0 } ds = some s') : restore now (some ds) [] = .ok s' := by
  simp [restore, h, parseLogItems, replay]

/-- **Preamble round trip, one database.** A decoded dataset `es` with pairwise distinct keys none of
    whose deadlines has passed, held by the preamble for database `i`, is restored key by key: every
    `(k, e)` of it is served as exactly `e` (value and deadline), every other key of database `i` is
    absent, every other database is empty. Holds for every value the decoder can produce
    (a `[]interface{}` included): the retyping happens in the encoding, not in the restore. -/
theorem preamble_roundtrip_partial (now : Int) (i : Nat) (es : List (Bytes × Entry))
    (hk : (es.map Prod.fst).Nodup) (hlive : ∀ k e, (k, e) ∈ es → e.expired now = false) :
    ∃ s', restore now (some [(i, es)]) [] = .ok s' ∧
      (∀ k e, (k, e) ∈ es → s'.lookup i k = some e) ∧
      (∀ k, k ∉ es.map Prod.fst → s'.lookup i k = none) ∧
      (∀ j, j ≠ i → s'.db j = ⟨[], []⟩) := by
  obtain ⟨s', h0, ha, hb, hc⟩ := restoreDataset_spec now [(i, es)] { dbs := [], mem := 0 }
    (by simp) (by intro i' es' hm; simp only [List.mem_singleton, Prod.mk.injEq] at hm; rw [hm.2]; exact hk)
  refine ⟨s', restore_empty_log now _ s' h0, ?_, ?_, ?_⟩
  · intro k e hm
    exact ha i es (List.mem_singleton.mpr rfl) k e hm (hlive k e hm)
  · intro k hnk
    rw [hb i es (List.mem_singleton.mpr rfl) k]
    · rfl
    · intro e hm
      exact absurd (List.mem_map.mpr ⟨(k, e), hm, rfl⟩) hnk
  · intro j hj
    rw [hc j (by simpa using hj)]; rfl

/-- **Preamble round trip, several databases**: the same for a decoded dataset over pairwise distinct
    database indices — logical-database placement is kept by the preamble (unlike by the log). -/
theorem preamble_roundtrip_databases_partial (now : Int) (ds : List (Nat × List (Bytes × Entry)))
    (hd : (ds.map Prod.fst).Nodup) (hk : ∀ i es, (i, es) ∈ ds → (es.map Prod.fst).Nodup)
    (hlive : ∀ i es, (i, es) ∈ ds → ∀ k e, (k, e) ∈ es → e.expired now = false) :
    ∃ s', restore now (some ds) [] = .ok s' ∧
      (∀ i es, (i, es) ∈ ds → ∀ k e, (k, e) ∈ es → s'.lookup i k = some e) ∧
      (∀ i es, (i, es) ∈ ds → ∀ k, k ∉ es.map Prod.fst → s'.lookup i k = none) ∧
      (∀ j, j ∉ ds.map Prod.fst → s'.db j = ⟨[], []⟩) := by
  obtain ⟨s', h0, ha, hb, hc⟩ := restoreDataset_spec now ds { dbs := [], mem := 0 } hd hk
  refine ⟨s', restore_empty_log now _ s' h0, ?_, ?_, ?_⟩
  · intro i es hm k e hke
    exact ha i es hm k e hke (hlive i es hm k e hke)
  · intro i es hm k hnk
    rw [hb i es hm k]
    · rfl
    · intro e hke
      exact absurd (List.mem_map.mpr ⟨(k, e), hke, rfl⟩) hnk
  · intro j hj
    rw [hc j hj]; rfl

/-- **Rewrite is transparent on the faithful domain.** For every keyspace `s` (distinct database
    indices, distinct keys) whose live keys are ASCII and whose live values are in the domain on
    which the JSON encoding is exact, the preamble written at `now` decodes, and a restore at `now2`
    from that preamble and an empty log serves, in every database and under every key, exactly the
    entry `s` held — same value, same type, same deadline, same database — unless its deadline had
    passed (then the key is absent). No key is lost, duplicated, moved or retyped. -/
theorem rewrite_transparent_partial (now now2 : Int) (s : State) (hw : WellKeyed s)
    (hf : ∀ i d, (i, d) ∈ s.dbs → ∀ k e, (k, e) ∈ d.store → e.expired now = false →
      isAscii k = true ∧ jsonFaithful e.val = true) :
    ∃ ds s', jsonState now s = some ds ∧ restore now2 (some ds) [] = .ok s' ∧
      ∀ i k, s'.lookup i k =
        (s.lookup i k).bind fun e => if e.expired now || e.expired now2 then none else some e := by
  obtain ⟨s', h0, h1⟩ := restore_liveDataset now now2 s hw
  exact ⟨liveDataset now s, s', jsonState_faithful now s hf, restore_empty_log now2 _ s' h0, h1⟩

/-- the hypotheses of `rewrite_transparent_partial` are satisfiable: two databases, a string with a
    deadline and a hash -/
example :
    let s : State := { dbs := [(0, ⟨[(b "k", ⟨.str (b "v"), some 5000⟩)], [b "k"]⟩),
                               (3, ⟨[(b "h", ⟨.hash [(b "f", .str (b "x")), (b "g", .flt (.fin (Dec.ofInt 2)))], none⟩)], []⟩)], mem := 0 }
    WellKeyed s ∧
    (∀ i d, (i, d) ∈ s.dbs → ∀ k e, (k, e) ∈ d.store → e.expired 1000 = false →
      isAscii k = true ∧ jsonFaithful e.val = true) := by
  refine ⟨⟨by decide, ?_⟩, ?_⟩
  · intro i d hm
    simp only [List.mem_cons, Prod.mk.injEq, List.not_mem_nil, or_false] at hm
    rcases hm with ⟨_, rfl⟩ | ⟨_, rfl⟩ <;> decide
  · intro i d hm k e hke _
    simp only [List.mem_cons, Prod.mk.injEq, List.not_mem_nil, or_false] at hm
    rcases hm with ⟨_, rfl⟩ | ⟨_, rfl⟩
    · simp only [List.mem_cons, Prod.mk.injEq, List.not_mem_nil, or_false] at hke
      obtain ⟨rfl, rfl⟩ := hke
      decide
    · simp only [List.mem_cons, Prod.mk.injEq, List.not_mem_nil, or_false] at hke
      obtain ⟨rfl, rfl⟩ := hke
      decide

/-- **Keys whose deadline has passed are never restored**: a key all of whose decoded entries have a
    deadline before `now` is absent after the restore of the preamble, whatever else it holds. -/
theorem expired_keys_dropped (now : Int) (ds : List (Nat × List (Bytes × Entry)))
    (hd : (ds.map Prod.fst).Nodup) (hk : ∀ i es, (i, es) ∈ ds → (es.map Prod.fst).Nodup)
    (i : Nat) (es : List (Bytes × Entry)) (hm : (i, es) ∈ ds) (k : Bytes)
    (hx : ∀ e, (k, e) ∈ es → e.expired now = true) :
    ∃ s', restore now (some ds) [] = .ok s' ∧ s'.lookup i k = none := by
  obtain ⟨s', h0, _, hb, _⟩ := restoreDataset_spec now ds { dbs := [], mem := 0 } hd hk
  exact ⟨s', restore_empty_log now _ s' h0, by rw [hb i es hm k hx]; rfl⟩

/-- FilterExpiredKeys keeps no entry whose deadline is before `now`: the preamble never holds one -/
theorem filterExpired_drops_expired (now : Int) (s : State) (i : Nat) (d : Db) (k : Bytes) (e : Entry)
    (hd : (i, d) ∈ (filterExpired now s).dbs) (hm : (k, e) ∈ d.store) : e.expired now = false := by
  rw [filterExpired_dbs] at hd
  simp only [List.mem_map] at hd
  obtain ⟨⟨i0, d0⟩, _, heq⟩ := hd
  simp only [Prod.mk.injEq] at heq
  obtain ⟨_, rfl⟩ := heq
  simp only [liveStore, List.mem_filter, Bool.not_eq_true'] at hm
  exact hm.2

/-! ### where the full statement fails (model witnesses; each is a class of Known.lean) -/

/-- a crash between the preamble write and the log truncation leaves the new preamble with the old
    log: the old records are replayed on top of the dataset that already contains them — the preamble
    holds n = "1" (what INCR n stored), the old log still holds INCR n, the restore serves n = 2 -/
theorem rewrite_window_replays_old_log_witness :
    (match restore 1000 (some [(0, [(b "n", ⟨.str (b "1"), none⟩)])]) (encodeCmd [b "INCR", b "n"]) with
     | .ok s => (s.lookup 0 (b "n")).map (fun e => obsVal e.val) | _ => none) = some (.text (b "2")) := by
  decide +kernel

/-- a crash while the preamble is being written (truncated or torn JSON: the file does not decode)
    loses the dataset and every acknowledged write still in the log -/
theorem mid_preamble_crash_loses_dataset_witness :
    (match restore 1000 none (encodeCmd [b "SET", b "k", b "v"]) with
     | .ok s => s.dbs.isEmpty | _ => false) = true := by
  decide +kernel

/-- a list written before the rewrite is served as `[]interface{}` after it, a set as an empty hash:
    the dataset restored from the preamble is not the dataset that was rewritten -/
theorem preamble_retypes_values_witness :
    let s : State := { dbs := [(0, ⟨[(b "l", ⟨.list [b "a"], none⟩), (b "s", ⟨.set 0 [b "m"], none⟩)], []⟩)], mem := 0 }
    (match jsonState 1000 s with
     | some ds => (match restore 1000 (some ds) [] with
        | .ok s' => ((s'.lookup 0 (b "l")).map (·.val), (s'.lookup 0 (b "s")).map (·.val)) | _ => (none, none))
     | none => (none, none)) = (some (.ilist [b "a"]), some (.hash [])) := by
  decide +kernel

end Sugar.Props.C09
