/-
  Props.C08 — max-memory policy. Theorems about Model.Evict (the literal transcription of container/heap,
  the LFU / LRU caches and adjustMemoryUsage). Every statement is universally quantified over heaps, states,
  configurations; where the property is false of the code the true statement is proved and a witness shows the
  deviation.
-/
import SugarModel.Lemmas.HeapLemmas
import SugarModel.Lemmas.ListLemmas
import SugarModel.Spec.EvictPolicy
namespace Sugar.Props.C08
open Sugar Sugar.Evict

variable {α : Type}

/-! ## container/heap: the invariant is re-established by every Push and Pop, for every heap and every strict weak order -/

/-- `heap.Push` keeps the heap invariant -/
theorem heap_inv_push {lt : α → α → Bool} (h : StrictWeak lt) (xs : List α) (x : α) (hp : Heap lt xs) :
    Heap lt (hpush lt xs x) := by
  unfold hpush up
  apply upF_heap h _ _ _ (Nat.le_refl _) (by simp)
  constructor
  · intro k a p hk hkn hka hkp
    have hkl := lt_len_of_get hka
    simp only [List.length_append, List.length_cons, List.length_nil] at hkl
    have hk1 : k < xs.length := by omega
    have hk2 : (k - 1) / 2 < xs.length := by omega
    rw [List.getElem?_append, if_pos hk1] at hka
    rw [List.getElem?_append, if_pos hk2] at hkp
    exact hp k a p hk hka hkp
  · intro k a g _ hk hpar hka _
    have hkl := lt_len_of_get hka
    simp only [List.length_append, List.length_cons, List.length_nil] at hkl
    omega

/-- `heap.Pop` returns the root of the heap … -/
theorem pop_returns_root (lt : α → α → Bool) (x0 : α) (r : List α) (e : α) (rest : List α)
    (hpop' : hpop lt (x0 :: r) = some (e, rest)) : e = x0 := by
  rw [hpop_eq] at hpop'
  injection hpop' with hpop'
  injection hpop' with he _
  rw [← he]
  have hlen : ((down lt (swap (x0 :: r) 0 r.length) 0 r.length).1).length = r.length + 1 := by
    unfold down; rw [downF_length, swap_length]; simp
  rw [List.getLastD_eq_getLast?, List.getLast?_eq_getElem?, hlen]
  simp only [Nat.add_sub_cancel]
  have h0 : (x0 :: r)[0]? = some x0 := rfl
  cases r with
  | nil => simp [down, downF, swap]
  | cons y r' =>
    have hl : (x0 :: y :: r')[(y :: r').length]? = some ((x0 :: y :: r')[(y :: r').length]'(by simp)) :=
      List.getElem?_eq_getElem (by simp)
    unfold down
    rw [downF_frame lt _ _ 0 _ _ (Nat.le_refl _) (by simp), swap_get _ 0 _ _ x0 _ h0 hl]
    simp

/-- … which is a minimum of the whole heap w.r.t. `Less` (nothing in the heap is `Less` than it) -/
theorem pop_is_min {lt : α → α → Bool} (h : StrictWeak lt) (xs : List α) (hp : Heap lt xs) (e : α) (rest : List α)
    (hpop' : hpop lt xs = some (e, rest)) : ∀ a ∈ xs, lt a e = false := by
  cases xs with
  | nil => simp [hpop] at hpop'
  | cons x0 r =>
    have := pop_returns_root lt x0 r e rest hpop'
    subst this
    intro a ha
    obtain ⟨k, hk, hka⟩ := List.getElem_of_mem ha
    exact heap_root_min h _ hp e rfl k a (by rw [List.getElem?_eq_getElem hk, hka])

/-- `heap.Pop` keeps the heap invariant on what remains -/
theorem heap_inv_pop {lt : α → α → Bool} (h : StrictWeak lt) (xs : List α) (hp : Heap lt xs) (e : α) (rest : List α)
    (hpop' : hpop lt xs = some (e, rest)) : Heap lt rest := by
  cases xs with
  | nil => simp [hpop] at hpop'
  | cons x0 r =>
    rw [hpop_eq] at hpop'
    injection hpop' with hpop'
    injection hpop' with _ hr
    subst hr
    have hlen : ((down lt (swap (x0 :: r) 0 r.length) 0 r.length).1).length = r.length + 1 := by
      unfold down; rw [downF_length, swap_length]; simp
    have hN : HeapN lt (down lt (swap (x0 :: r) 0 r.length) 0 r.length).1 r.length := by
      unfold down
      apply downF_heap h _ _ _ _ (by omega)
      cases r with
      | nil =>
        constructor
        · intro k a p hk hkn; simp at hkn
        · intro k a g h0; omega
      | cons y r' =>
        have h0 : (x0 :: y :: r')[0]? = some x0 := rfl
        have hl : (x0 :: y :: r')[(y :: r').length]? = some ((x0 :: y :: r')[(y :: r').length]'(by simp)) :=
          List.getElem?_eq_getElem (by simp)
        constructor
        · intro k a p hk hkn hpar hka hkp
          rw [swap_get _ 0 _ _ x0 _ h0 hl] at hka hkp
          have n1 : k ≠ (y :: r').length := by omega
          have n2 : k ≠ 0 := by omega
          have n3 : (k - 1) / 2 ≠ (y :: r').length := by omega
          rw [if_neg n1, if_neg n2] at hka
          rw [if_neg n3, if_neg hpar] at hkp
          exact hp k a p hk hka hkp
        · intro k a g h0'; omega
    intro k a p hk hka hkp
    rw [List.getElem?_dropLast] at hka hkp
    rw [hlen] at hka hkp
    simp only [Nat.add_sub_cancel] at hka hkp
    by_cases hkr : k < r.length
    · have hpr : (k - 1) / 2 < r.length := by omega
      rw [if_pos hkr] at hka
      rw [if_pos hpr] at hkp
      exact hN k a p hk hkr hka hkp
    · rw [if_neg hkr] at hka; contradiction

/-- `heap.Fix` re-establishes the invariant after any change of one cell (the count bump of CacheLFU.Update, the new
    stamp of CacheLRU.Update) -/
theorem heap_inv_fix {lt : α → α → Bool} (h : StrictWeak lt) (xs : List α) (i : Nat) (v : α) (hil : i < xs.length)
    (hp : Heap lt xs) : Heap lt (hfix lt (xs.set i v) i) := hfix_heap h xs i v hil hp

/-- `heap.Remove` keeps the invariant on what remains, whichever cell is removed -/
theorem heap_inv_remove {lt : α → α → Bool} (h : StrictWeak lt) (xs : List α) (i : Nat) (hil : i < xs.length)
    (hp : Heap lt xs) : Heap lt (hremove lt xs i) := hremove_heap h xs i hil hp

/-! ## the two orders -/

/-- CacheLFU.Less is a strict weak order (count ascending, then the later `addedTime` first) -/
theorem lfuLess_strictWeak : StrictWeak lfuLess := by
  constructor
  · intro a; simp [lfuLess]
  · intro a c d h1 h2
    simp only [lfuLess] at *
    by_cases e1 : a.count = c.count <;> by_cases e2 : c.count = d.count <;> by_cases e3 : a.count = d.count <;>
      simp_all <;> omega
  · intro a c d h1 h2
    simp only [lfuLess] at *
    by_cases e1 : a.count = c.count <;> by_cases e2 : c.count = d.count <;> by_cases e3 : a.count = d.count <;>
      simp_all <;> omega

/-- CacheLRU.Less is a strict weak order — on the access time *descending* -/
theorem lruLess_strictWeak : StrictWeak lruLess := by
  constructor
  · intro a; simp [lruLess]
  · intro a c d h1 h2; simp only [lruLess, decide_eq_true_eq] at *; omega
  · intro a c d h1 h2; simp only [lruLess, decide_eq_false_iff_not] at *; omega

/-- **LFU order.** From any LFU heap satisfying the invariant, `heap.Pop` yields an entry whose access count is
    minimal among all entries: least frequently used first. -/
theorem lfu_order (es : List LfuE) (hp : Heap lfuLess es) (e : LfuE) (rest : List LfuE)
    (hpop' : hpop lfuLess es = some (e, rest)) : ∀ a ∈ es, e.count ≤ a.count := by
  intro a ha
  have := pop_is_min lfuLess_strictWeak es hp e rest hpop' a ha
  simp only [lfuLess] at this
  by_cases e1 : a.count = e.count
  · omega
  · simp [e1] at this; omega

/-- among entries with the minimal count the most recently *added* one goes first (ties are not in the property) -/
theorem lfu_tie_newest_first (es : List LfuE) (hp : Heap lfuLess es) (e : LfuE) (rest : List LfuE)
    (hpop' : hpop lfuLess es = some (e, rest)) : ∀ a ∈ es, a.count = e.count → a.added ≤ e.added := by
  intro a ha hc
  have := pop_is_min lfuLess_strictWeak es hp e rest hpop' a ha
  simp only [lfuLess, hc] at this
  simpa using this

/-- **LRU order as implemented.** `heap.Pop` on the LRU heap yields the entry with the *latest* access time:
    the most recently used key is evicted first. -/
theorem lru_pops_most_recent (es : List LruE) (hp : Heap lruLess es) (e : LruE) (rest : List LruE)
    (hpop' : hpop lruLess es = some (e, rest)) : ∀ a ∈ es, a.time ≤ e.time := by
  intro a ha
  have := pop_is_min lruLess_strictWeak es hp e rest hpop' a ha
  simpa [lruLess] using this

/-- the statement the property asks for ("least recently used first") is false: two accesses at times 1 and 2,
    the heap built by the code's own Push, and Pop returns the key accessed last -/
theorem lru_order_witness :
    let h := hpush lruLess (hpush lruLess [] ⟨b "old", 1⟩) ⟨b "new", 2⟩
    Heap lruLess h ∧ (hpop lruLess h).map (·.1.key) = some (b "new") ∧ ¬ (∀ a ∈ h, 2 ≤ a.time) := by
  refine ⟨?_, by decide, by decide⟩
  exact heap_inv_push lruLess_strictWeak _ _ (heap_inv_push lruLess_strictWeak _ _ (by intro k a p _ hka; simp at hka))

/-- CacheLRU.Push never records the key: `Update` leaves the membership map as it was, so `contains` stays false … -/
theorem lru_update_never_records (c : Cache LruE) (k : Bytes) (t1 t2 : Nat) (c' : Cache LruE)
    (hu : lruUpdate c k t1 t2 = some c') : c'.keys = c.keys := by
  unfold lruUpdate at hu
  dsimp only at hu
  split at hu
  · contradiction
  · split at hu
    · contradiction
    · injection hu with hu; rw [← hu]

/-- … and every access of a key therefore adds one more heap entry (witness: two accesses, two entries) -/
theorem lru_duplicates_witness :
    ((lruUpdate {} (b "k") 1 1).bind fun c => lruUpdate c (b "k") 2 2).map (·.cells.length) = some 2 := by decide

/-! ## the caches keep their heaps -/

/-- no nil cell, and the entries form a heap w.r.t. the cache's `Less` -/
def CacheOk {E : Type} (lt : E → E → Bool) (c : Cache E) : Prop := ∃ es, unwrapCells c.cells = some es ∧ Heap lt es

/-- CacheLFU.Update (push of a new key, or count bump + Fix) keeps the LFU heap a heap -/
theorem lfu_update_keeps_heap (c c' : Cache LfuE) (k : Bytes) (now : Nat) (hok : CacheOk lfuLess c)
    (hu : lfuUpdate c k now = some c') : CacheOk lfuLess c' := by
  obtain ⟨es, hes, hp⟩ := hok
  unfold lfuUpdate at hu
  rw [hes] at hu
  split at hu
  · split at hu
    · injection hu with hu; rw [← hu]
      exact ⟨[_], rfl, heap_singleton _ _⟩
    · injection hu with hu; rw [← hu]
      exact ⟨_, unwrap_wrap _, heap_inv_push lfuLess_strictWeak es _ hp⟩
  · dsimp only at hu
    split at hu
    · contradiction
    · next i hi =>
      injection hu with hu; rw [← hu]
      have hil : i < es.length := (List.findIdx?_eq_some_iff_findIdx_eq.mp hi).1
      refine ⟨_, unwrap_wrap _, ?_⟩
      rw [modify_eq_set _ es i hil]
      exact heap_inv_fix lfuLess_strictWeak es i _ hil hp

/-- CacheLFU.Delete keeps the LFU heap a heap -/
theorem lfu_delete_keeps_heap (c c' : Cache LfuE) (k : Bytes) (hok : CacheOk lfuLess c)
    (hd : lfuDelete c k = some c') : CacheOk lfuLess c' := by
  obtain ⟨es, hes, hp⟩ := hok
  unfold lfuDelete at hd
  rw [hes] at hd
  split at hd
  · injection hd with hd; rw [← hd]; exact ⟨es, hes, hp⟩
  · dsimp only at hd
    split at hd
    · injection hd with hd; rw [← hd]; exact ⟨es, hes, hp⟩
    · next i hi =>
      injection hd with hd; rw [← hd]
      have hil : i < es.length := (List.findIdx?_eq_some_iff_findIdx_eq.mp hi).1
      exact ⟨_, unwrap_wrap _, heap_inv_remove lfuLess_strictWeak es i hil hp⟩

/-- the eviction pop keeps the LFU heap a heap, and the key it yields has the minimal recorded count -/
theorem lfu_pop_keeps_heap_and_is_least_frequent (c c' : Cache LfuE) (k : Bytes) (hok : CacheOk lfuLess c)
    (hpop' : lfuPop c = some (k, c')) :
    CacheOk lfuLess c' ∧ ∃ es e, unwrapCells c.cells = some es ∧ e ∈ es ∧ e.key = k ∧ ∀ a ∈ es, e.count ≤ a.count := by
  obtain ⟨es, hes, hp⟩ := hok
  unfold lfuPop at hpop'
  rw [hes] at hpop'
  dsimp only at hpop'
  split at hpop'
  · contradiction
  · next e r hpr =>
    injection hpop' with hpop'
    injection hpop' with hk hc
    rw [← hc]
    refine ⟨⟨_, unwrap_wrap _, heap_inv_pop lfuLess_strictWeak es hp e r hpr⟩, es, e, hes, ?_, hk, lfu_order es hp e r hpr⟩
    cases es with
    | nil => simp [hpop] at hpr
    | cons x0 r0 =>
      have := pop_returns_root lfuLess x0 r0 e r hpr
      rw [this]; simp

/-- CacheLRU.Update keeps the LRU heap a heap (w.r.t. its own, inverted, order) -/
theorem lru_update_keeps_heap (c c' : Cache LruE) (k : Bytes) (t1 t2 : Nat) (hok : CacheOk lruLess c)
    (hu : lruUpdate c k t1 t2 = some c') : CacheOk lruLess c' := by
  obtain ⟨es, hes, hp⟩ := hok
  unfold lruUpdate at hu
  rw [hes] at hu
  dsimp only at hu
  have key : ∀ (pushed : Option (List LruE)), (∀ es1, pushed = some es1 → Heap lruLess es1) →
      (match pushed with
        | none => none
        | some es1 =>
          match idxLru es1 k with
          | none => none
          | some i => some (⟨c.keys, wrap (hfix lruLess (es1.modify i fun e => { e with time := t2 }) i)⟩ : Cache LruE)) = some c' →
      CacheOk lruLess c' := by
    intro pushed hpush h1
    split at h1
    · contradiction
    · next es1 =>
      have hp1 := hpush es1 rfl
      split at h1
      · contradiction
      · next i hi =>
        injection h1 with h1; rw [← h1]
        have hil : i < es1.length := (List.findIdx?_eq_some_iff_findIdx_eq.mp hi).1
        refine ⟨_, unwrap_wrap _, ?_⟩
        rw [modify_eq_set _ es1 i hil]
        exact heap_inv_fix lruLess_strictWeak es1 i _ hil hp1
  refine key _ ?_ hu
  intro es1 h
  split at h
  · split at h
    · injection h with h; rw [← h]; exact heap_singleton _ _
    · simp only [Option.map_some] at h
      injection h with h; rw [← h]
      exact heap_inv_push lruLess_strictWeak es _ hp
  · injection h with h; rw [← h]; exact hp

/-- the LRU eviction pop yields the key with the latest recorded access -/
theorem lru_pop_is_most_recent (c c' : Cache LruE) (k : Bytes) (hok : CacheOk lruLess c)
    (hpop' : lruPop c = some (k, c')) :
    CacheOk lruLess c' ∧ ∃ (es : List LruE) (e : LruE), unwrapCells c.cells = some es ∧ e.key = k ∧ ∀ a ∈ es, a.time ≤ e.time := by
  obtain ⟨es, hes, hp⟩ := hok
  unfold lruPop at hpop'
  rw [hes] at hpop'
  dsimp only at hpop'
  split at hpop'
  · contradiction
  · next e r hpr =>
    injection hpop' with hpop'
    injection hpop' with hk hc
    rw [← hc]
    exact ⟨⟨_, unwrap_wrap _, heap_inv_pop lruLess_strictWeak es hp e r hpr⟩, es, e, hes, hk, lru_pops_most_recent es hp e r hpr⟩

/-! ## admission test and eviction loop -/

/-- **noeviction admission.** With a limit configured, a write through setValues is refused exactly when the
    accounted usage (as the code reads it: `uint64(memUsed)`) is at or above the limit, and a refused write
    changes nothing. -/
theorem noeviction_admit (c : Ctx) (s : State) (es : List (Bytes × Val)) (hpol : c.cfg.policy = .noeviction)
    (hmax : c.cfg.maxMemory ≠ 0) :
    ((setValues c s es).2 = false ↔ toU64 s.mem ≥ c.cfg.maxMemory) ∧
    ((setValues c s es).2 = false → (setValues c s es).1 = s) := by
  unfold setValues isMaxMemoryExceeded
  by_cases hge : toU64 s.mem ≥ c.cfg.maxMemory <;> simp [hpol, hmax, hge]

/-- under an eviction policy setValues never refuses -/
theorem eviction_policy_admits (c : Ctx) (s : State) (es : List (Bytes × Val)) (hpol : c.cfg.policy ≠ .noeviction) :
    (setValues c s es).2 = true := by
  unfold setValues
  have : (c.cfg.policy == Policy.noeviction) = false := by
    cases hp : c.cfg.policy <;> simp_all
  simp [this]

/-- **noeviction never removes a key**: adjustMemoryUsage is the identity under noeviction -/
theorem noeviction_never_evicts (cfg : Cfg) (env : Env) (db : Nat) (es : EState) (hpol : cfg.policy = .noeviction) :
    adjustMemoryUsage cfg env db es = .ok (true, es) := by
  unfold adjustMemoryUsage
  split
  · rfl
  · split
    · rfl
    · simp [hpol]

/-- **keys are removed only while usage is at or above the limit**: below the limit adjustMemoryUsage is the
    identity under every policy -/
theorem evict_only_above_limit (cfg : Cfg) (env : Env) (db : Nat) (es : EState) (hb : below cfg es = true) :
    adjustMemoryUsage cfg env db es = .ok (true, es) := by
  unfold adjustMemoryUsage
  split
  · rfl
  · simp [hb]

/-- **eviction stops as soon as usage is back under the limit** (LFU): if removing the popped key brings usage
    below the limit, exactly that key is removed and the loop returns -/
theorem stops_below_limit (cfg : Cfg) (db fuel : Nat) (es es' : EState) (c c' : Cache LfuE) (k : Bytes)
    (hc : es.lfu.get db = some c) (hlen : c.len ≠ 0) (hpop' : lfuPop c = some (k, c'))
    (hdel : deleteKeyE cfg { es with lfu := es.lfu.put db c' } db k = .ok es') (hb : below cfg es' = true) :
    adjustLfu cfg db (fuel + 1) es = .ok (true, es') := by
  unfold adjustLfu
  simp [hc, hlen, hpop', hdel, hb]

/-- whenever the LFU loop returns nil, usage is below the limit -/
theorem lfu_loop_ends_below (cfg : Cfg) (db : Nat) : ∀ (fuel : Nat) (es es' : EState),
    adjustLfu cfg db fuel es = .ok (true, es') → below cfg es' = true := by
  intro fuel
  induction fuel with
  | zero => intro es es' h; simp [adjustLfu] at h
  | succ fuel ih =>
    intro es es' h
    unfold adjustLfu at h
    split at h
    · contradiction
    · split at h
      · injection h with h; injection h with h1 _; contradiction
      · split at h
        · contradiction
        · split at h
          · contradiction
          · split at h
            · next hb => injection h with h; injection h with _ h2; rw [← h2]; exact hb
            · exact ih _ _ h

/-- the same for the LRU loop -/
theorem lru_loop_ends_below (cfg : Cfg) (db : Nat) : ∀ (fuel : Nat) (es es' : EState),
    adjustLru cfg db fuel es = .ok (true, es') → below cfg es' = true := by
  intro fuel
  induction fuel with
  | zero => intro es es' h; simp [adjustLru] at h
  | succ fuel ih =>
    intro es es' h
    unfold adjustLru at h
    split at h
    · contradiction
    · split at h
      · injection h with h; injection h with h1 _; contradiction
      · split at h
        · contradiction
        · split at h
          · contradiction
          · split at h
            · next hb => injection h with h; injection h with _ h2; rw [← h2]; exact hb
            · exact ih _ _ h

/-- **an evicted key is gone from the store and from the volatile index** (every policy, every state) -/
theorem evicted_key_gone (cfg : Cfg) (es es' : EState) (db : Nat) (k : Bytes)
    (hdel : deleteKeyE cfg es db k = .ok es') :
    es'.s.lookup db k = none ∧ k ∉ (es'.s.db db).vol := by
  have hs : es'.s = Sugar.deleteKey es.s db k := deleteKeyE_state cfg es es' db k hdel
  rw [hs]
  unfold Sugar.deleteKey State.lookup State.db
  by_cases hdb : es.s.hasDb db
  · simp [hdb, NMap.get_put_same]
  · simp only [hdb]
    unfold State.hasDb at hdb
    cases hg : es.s.dbs.get db with
    | none => simp [State.db, hg]
    | some d => simp [hg] at hdb

/-- PERSIST / a cleared deadline never touches the eviction heaps: a key that entered the volatile-LFU heap stays
    a candidate after it lost its expiry (the `volatile-cache-keeps-persisted-key` class) -/
theorem persist_keeps_cache_entry (c : Ctx) (env : Env) (es es' : EState) (k : Bytes)
    (hx : execE c env es (.setExpiry k none false) = .ok ((), es')) : es'.lfu = es.lfu ∧ es'.lru = es.lru := by
  simp only [execE] at hx
  split at hx
  · contradiction
  · simp at hx
    cases hx; exact ⟨rfl, rfl⟩

/-! ## the server keeps running: Flush, the random policies (repaired upstream) -/

/-- **Flush leaves empty heaps**: no cell, no recorded key — in particular no nil cell for a later Update, Delete,
    Pop, GetCount or GetTime to dereference -/
theorem flush_leaves_empty_heaps (es es' : EState) (db : Nat) (h : flushCaches es db = .ok es') :
    es'.lfu.get db = some ⟨[], []⟩ ∧ es'.lru.get db = some ⟨[], []⟩ ∧ es'.s = es.s := by
  unfold flushCaches at h
  split at h
  · injection h with h; rw [← h]
    simp [Cache.flush, NMap.get_put_same]
  · contradiction

/-- a flushed cache is a valid heap again, whatever it held -/
theorem flush_keeps_heap {E : Type} (lt : E → E → Bool) (c : Cache E) : CacheOk lt c.flush :=
  ⟨[], rfl, heap_nil lt⟩

/-- the first access after a flush starts a fresh heap (LFU: count 1; it cannot fail) -/
theorem lfu_update_after_flush (c : Cache LfuE) (k : Bytes) (now : Nat) :
    lfuUpdate c.flush k now = some ⟨[k], [some ⟨k, 1, now⟩]⟩ := by
  simp [lfuUpdate, Cache.flush, addKey]

/-- **allkeys-random on a database without keys returns at once** ("no keys to evict"), leaving the state alone -/
theorem allkeys_random_empty_returns (cfg : Cfg) (env : Env) (db fuel : Nat) (es : EState)
    (h : (es.s.db db).store = []) : adjustAllRandom cfg env db (fuel + 1) es = .ok (false, es) := by
  unfold adjustAllRandom
  simp [h]

/-- **the allkeys-random loop ends**: every round removes a key of the database, so with fuel beyond the number of
    its keys the loop neither spins nor panics (it may only be `stuck`: the observed run named by `env` is not a run) -/
theorem allkeys_random_loop_ends (cfg : Cfg) (env : Env) (db : Nat) (hpol : cfg.policy = .allkeysRandom) :
    ∀ (fuel : Nat) (es : EState), (es.s.db db).store.length < fuel → ∀ w,
      adjustAllRandom cfg env db fuel es ≠ .error (.hang w) ∧ adjustAllRandom cfg env db fuel es ≠ .error (.panic w) := by
  intro fuel
  induction fuel with
  | zero => intro es h; omega
  | succ fuel ih =>
    intro es hlen w
    unfold adjustAllRandom
    split
    · exact ⟨by simp, by simp⟩
    · rename_i hne
      split
      · exact ⟨by simp, by simp⟩
      · rename_i k rest hv
        rw [deleteKeyE_random cfg es db k (Or.inl hpol)]
        simp only
        split
        · exact ⟨by simp, by simp⟩
        · apply ih
          have hne' : (es.s.db db).store ≠ [] := by
            intro h0; rw [h0] at hne; simp at hne
          have hk : k ∈ (es.s.db db).store.map Prod.fst :=
            victims_sub_store env es.s es.phase db k (by rw [hv]; exact List.mem_cons_self)
          rw [db_deleteKey_same es.s db k (hasDb_of_store_ne es.s db hne')]
          have := kmap_del_length_lt (es.s.db db).store k hk
          simp only
          omega

/-- **allkeys-random never spins and never panics** (adjustMemoryUsage for one database, every state) -/
theorem allkeys_random_total (cfg : Cfg) (env : Env) (db : Nat) (es : EState) (hpol : cfg.policy = .allkeysRandom) (w : String) :
    adjustMemoryUsage cfg env db es ≠ .error (.hang w) ∧ adjustMemoryUsage cfg env db es ≠ .error (.panic w) := by
  unfold adjustMemoryUsage
  split
  · exact ⟨by simp, by simp⟩
  · split
    · exact ⟨by simp, by simp⟩
    · simp only [hpol]
      exact allkeys_random_loop_ends cfg env db hpol _ es (by omega) w

/-- **volatile-random with no volatile key returns at once** ("no volatile keys to evict"), leaving the state alone -/
theorem volatile_random_empty_returns (cfg : Cfg) (env : Env) (db fuel : Nat) (es : EState)
    (h : (es.s.db db).vol = []) : adjustVolRandom cfg env db (fuel + 1) es = .ok (false, es) := by
  unfold adjustVolRandom
  simp [h]

/-- the volatile-random loop ends: every round removes a cell of the volatile index -/
theorem volatile_random_loop_ends (cfg : Cfg) (env : Env) (db : Nat) (hpol : cfg.policy = .volatileRandom) :
    ∀ (fuel : Nat) (es : EState), (es.s.db db).vol.length < fuel → ∀ w,
      adjustVolRandom cfg env db fuel es ≠ .error (.hang w) ∧ adjustVolRandom cfg env db fuel es ≠ .error (.panic w) := by
  intro fuel
  induction fuel with
  | zero => intro es h; omega
  | succ fuel ih =>
    intro es hlen w
    unfold adjustVolRandom
    split
    · exact ⟨by simp, by simp⟩
    · rename_i hne
      split
      · exact ⟨by simp, by simp⟩
      · rename_i k rest hv
        rw [deleteKeyE_random cfg es db k (Or.inr hpol)]
        simp only
        split
        · exact ⟨by simp, by simp⟩
        · apply ih
          have hne' : (es.s.db db).vol ≠ [] := by
            intro h0; rw [h0] at hne; simp at hne
          have hk : k ∈ (es.s.db db).vol :=
            volVictims_sub_vol env es.s es.phase db k (by rw [hv]; exact List.mem_cons_self)
          rw [db_deleteKey_same es.s db k (hasDb_of_vol_ne es.s db hne')]
          have := filter_ne_length_lt (es.s.db db).vol k hk
          simp only
          omega

/-- **volatile-random never panics and never spins** (adjustMemoryUsage for one database, every state — with or
    without volatile keys, whatever the number of databases) -/
theorem volatile_random_total (cfg : Cfg) (env : Env) (db : Nat) (es : EState) (hpol : cfg.policy = .volatileRandom) (w : String) :
    adjustMemoryUsage cfg env db es ≠ .error (.hang w) ∧ adjustMemoryUsage cfg env db es ≠ .error (.panic w) := by
  unfold adjustMemoryUsage
  split
  · exact ⟨by simp, by simp⟩
  · split
    · exact ⟨by simp, by simp⟩
    · simp only [hpol]
      exact volatile_random_loop_ends cfg env db hpol _ es (by omega) w

/-- **the volatile-random pick is always a cell of the volatile index of that database**: a key of the database
    that the loop removed was listed in `keysWithExpiry.keys[database]` when the loop started -/
theorem volatile_random_removes_only_indexed_keys (cfg : Cfg) (env : Env) (db : Nat) (hpol : cfg.policy = .volatileRandom) :
    ∀ (fuel : Nat) (es es' : EState) (r : Bool), adjustVolRandom cfg env db fuel es = .ok (r, es') →
      ∀ k, (es.s.lookup db k).isSome = true → es'.s.lookup db k = none → k ∈ (es.s.db db).vol := by
  intro fuel
  induction fuel with
  | zero => intro es es' r h; simp [adjustVolRandom] at h
  | succ fuel ih =>
    intro es es' r h k hpre hpost
    unfold adjustVolRandom at h
    split at h
    · injection h with h; injection h with _ h2
      subst h2
      rw [hpost] at hpre; simp at hpre
    · rename_i hne
      split at h
      · contradiction
      · rename_i k0 rest hv
        have hk0 : k0 ∈ (es.s.db db).vol :=
          volVictims_sub_vol env es.s es.phase db k0 (by rw [hv]; exact List.mem_cons_self)
        rw [deleteKeyE_random cfg es db k0 (Or.inr hpol)] at h
        simp only at h
        by_cases hkk : k0 = k
        · rw [← hkk]; exact hk0
        · have hl1 : (Sugar.deleteKey es.s db k0).lookup db k = es.s.lookup db k := by
            rw [lookup_deleteKey]; simp [hkk]
          split at h
          · injection h with h; injection h with _ h2
            rw [← h2] at hpost
            simp only at hpost
            rw [hl1] at hpost
            rw [hpost] at hpre; simp at hpre
          · have hne' : (es.s.db db).vol ≠ [] := by
              intro h0; rw [h0] at hne; simp at hne
            have := ih _ es' r h k (by simp only; rw [hl1]; exact hpre) hpost
            simp only at this
            rw [db_deleteKey_same es.s db k0 (hasDb_of_vol_ne es.s db hne')] at this
            exact (List.mem_filter.mp this).1

/-- non-vacuity of the "returns at once" theorems: at the limit with a persistent key only (volatile-random), or with
    no key at all (allkeys-random), adjustMemoryUsage reports "nothing to evict", changes nothing, and the server lives on -/
example :
    let s0 : State := { dbs := [(0, ⟨[(b "p", ⟨.str (b "v"), none⟩)], []⟩)], mem := 100 }
    let es : EState := { s := s0, lfu := [(0, {})], lru := [(0, {})] }
    (adjustMemoryUsage ⟨50, .volatileRandom⟩ {} 0 es).toOption.map (fun r => (r.1, r.2.s.mem)) = some (false, 100) ∧
    (adjustMemoryUsage ⟨50, .allkeysRandom⟩ {} 0 { es with s := { dbs := [(0, ⟨[], []⟩)], mem := 100 } }).toOption.map (fun r => (r.1, r.2.s.mem)) = some (false, 100) := by decide

/-- non-vacuity of the loop theorems: a volatile key and a persistent one over the limit — volatile-random removes the
    volatile key (store, volatile index), usage falls below the limit and the loop returns; the persistent key stays -/
example :
    let s1 : State := { dbs := [(0, ⟨[(b "a", ⟨.str (b "v"), some 9⟩), (b "p", ⟨.str (b "v"), none⟩)], [b "a"]⟩)], mem := 116 }
    let es1 : EState := { s := s1, lfu := [(0, {})], lru := [(0, {})] }
    (adjustVolRandom ⟨100, .volatileRandom⟩ {} 0 1 es1).toOption.map
      (fun r => (r.1, r.2.s.mem, (r.2.s.db 0).store.map (·.1), (r.2.s.db 0).vol)) = some (true, 58, [b "p"], []) := by
  intro s1 es1
  have hf : ((es1.s.db 0).vol.filter fun k =>
      ((!(((({} : Env).keep.get 0).getD []).contains k) || (es1.s.lookup 0 k).isNone) != ({} : Env).flip.contains k) &&
        !(({} : Env).hold.contains k && es1.phase < ({} : Env).holdUntil)) = [b "a"] := by decide
  have hv : volVictims {} es1.s es1.phase 0 = [b "a"] := by
    unfold volVictims
    simp only [hf, List.mergeSort_singleton]
  unfold adjustVolRandom
  rw [hv]
  decide

/-- `eviction_total`: the two random policies are total (`allkeys_random_total`, `volatile_random_total`); the LFU / LRU
    loops neither panic nor hang on valid (nil-free) heaps, and Flush no longer produces nil cells
    (`flush_leaves_empty_heaps`); what still ends the process under every eviction policy is the background sampler
    (`sampler_never_returns`). Non-vacuity example for the LFU loop theorems: one key over the limit is evicted and
    the loop stops -/
example :
    let s : State := { dbs := [(0, ⟨[(b "a", ⟨.str (b "v"), none⟩)], []⟩)], mem := 100 }
    let es : EState := { s := s, lfu := [(0, ⟨[b "a"], [some ⟨b "a", 1, 1⟩]⟩)], lru := [(0, {})] }
    (adjustMemoryUsage ⟨70, .allkeysLfu⟩ {} 0 es).toOption.map (fun r => (r.1, r.2.s.mem, (r.2.s.db 0).store.length)) = some (true, 42, 0) := by decide

/-! ## the remaining classes, stated on the model -/

/-- in-place mutation of a stored object is never refused and never consults the limit: the only admission test
    is the one in setValues (the `noeviction-admits-in-place-collection-writes` class) -/
theorem mutobj_bypasses_admission (c : Ctx) (env : Env) (es : EState) (k : Bytes) (v : Val) :
    execE c env es (.mutObj k v) = .ok ((), { es with s := Sugar.mutObj es.s c.db k v }) := rfl

/-- setExpiry on a key that is no longer there (evicted a moment ago by the update that setValues spawned) creates
    an entry with a nil value and the deadline (the `expiry-write-resurrects-evicted-key-as-nil` class) -/
theorem setexpiry_resurrects_as_nil (c : Ctx) (s s' : State) (k : Bytes) (e : Option Int)
    (habs : s.lookup c.db k = none) (hx : setExpiry c s k e = some s') :
    s'.lookup c.db k = some ⟨.nil, e⟩ := by
  unfold setExpiry at hx
  split at hx
  · contradiction
  · injection hx with hx
    rw [← hx]
    unfold State.lookup at habs
    unfold State.db at habs
    simp [State.lookup, State.db, NMap.get_put_same]
    rw [habs]

/-- clearing the deadline keeps the key in the volatile index: volatile-random still picks it
    (the `volatile-index-keeps-persisted-key` class) -/
theorem persist_keeps_volatile_index (c : Ctx) (s s' : State) (k : Bytes)
    (hin : k ∈ (s.db c.db).vol) (hx : setExpiry c s k none = some s') : k ∈ (s'.db c.db).vol := by
  unfold setExpiry at hx
  split at hx
  · contradiction
  · injection hx with hx
    rw [← hx]
    simp only [State.db, NMap.get_put_same, Option.getD_some]
    unfold State.db at hin
    exact mem_addVol _ _ hin

/-- **OBJECTFREQ / OBJECTIDLETIME on a database that was never written to answer "key does not exist"** and change
    nothing (there is no cache to dereference: the answer is the one for an absent key) -/
theorem object_commands_on_unopened_db (c : Ctx) (es : EState) (n k : Bytes)
    (hf : es.lfu.get c.db = none) (hr : es.lru.get c.db = none) :
    handleObjFreqE c es [n, k] = .ok (.res (.err (b "Key: " ++ k ++ b " does not exist.")), es) ∧
    handleObjIdleE c es [n, k] = .ok (.res (.err (b "Error: key " ++ k ++ b " does not exist.")), es) := by
  simp [handleObjFreqE, handleObjIdleE, hf, hr]

/-- OBJECTFREQ / OBJECTIDLETIME never panic as long as the heaps hold no nil cell (and no operation creates one) -/
theorem object_commands_never_panic (c : Ctx) (es : EState) (cmd : List Bytes)
    (hf : ∀ ch, es.lfu.get c.db = some ch → ∃ ents, unwrapCells ch.cells = some ents)
    (hr : ∀ ch, es.lru.get c.db = some ch → ∃ ents, unwrapCells ch.cells = some ents) (w : String) :
    handleObjFreqE c es cmd ≠ .error (.panic w) ∧ handleObjIdleE c es cmd ≠ .error (.panic w) := by
  constructor
  · unfold handleObjFreqE
    split
    · split
      · simp
      · rename_i ch hch
        obtain ⟨ents, he⟩ := hf ch hch
        split
        · simp
        · rw [he]; simp only; split <;> simp
    · simp
  · unfold handleObjIdleE
    split
    · split
      · simp
      · rename_i ch hch
        obtain ⟨ents, he⟩ := hr ch hch
        split
        · simp
        · rw [he]; simp only; split <;> simp
    · simp

/-! ## a push refused for lack of memory changes nothing -/

/-- **noeviction: LPUSH / RPUSH on an absent key at or above the limit is refused and leaves the keyspace exactly as
    it was** (the list is written by one SetValues call, and a refused SetValues changes nothing) -/
theorem refused_push_changes_nothing (left : Bool) (c : Ctx) (s : State) (k e0 : Bytes) (es : List Bytes)
    (hpol : c.cfg.policy = .noeviction) (hmax : c.cfg.maxMemory ≠ 0) (hfull : toU64 s.mem ≥ c.cfg.maxMemory)
    (h : s.lookup c.db k = none) :
    (handlePush left c ((if left then b "lpush" else b "rpush") :: k :: e0 :: es)).run c s =
      (s, .done (.err maxMemErr)) := by
  have hadm := noeviction_admit c s [(k, .list (e0 :: es))] hpol hmax
  have hno : (setValues c s [(k, .list (e0 :: es))]).2 = false := hadm.1.mpr hfull
  rw [push_absent_run left c s k e0 es h, hadm.2 hno, hno]
  rfl

/-- … and below the limit the push is admitted, stores the list and answers its length -/
theorem admitted_push_stores_list (left : Bool) (c : Ctx) (s : State) (k e0 : Bytes) (es : List Bytes)
    (hpol : c.cfg.policy = .noeviction) (hmax : c.cfg.maxMemory ≠ 0) (hroom : toU64 s.mem < c.cfg.maxMemory)
    (h : s.lookup c.db k = none) :
    (handlePush left c ((if left then b "lpush" else b "rpush") :: k :: e0 :: es)).run c s =
      ((setValues c s [(k, .list (e0 :: es))]).1, .done (.ok (intReply ((e0 :: es).length : Nat)))) := by
  have hadm := noeviction_admit c s [(k, .list (e0 :: es))] hpol hmax
  have hyes : (setValues c s [(k, .list (e0 :: es))]).2 = true := by
    cases hv : (setValues c s [(k, .list (e0 :: es))]).2
    · have := hadm.1.mp hv; omega
    · rfl
  rw [push_absent_run left c s k e0 es h, hyes]
  rfl

/-- non-vacuity (the listed witness): two 60-byte strings under a 160-byte limit, then RPUSH l1 a — the push is
    admitted (120 < 160) and stored whole; at 120 ≥ 120 it is refused and no key `l1` appears -/
example :
    let c160 : Ctx := { db := 0, now := 0, cfg := ⟨160, .noeviction⟩ }
    let c120 : Ctx := { db := 0, now := 0, cfg := ⟨120, .noeviction⟩ }
    let s : State := { dbs := [(0, ⟨[(b "k1", ⟨.str (b "aa"), none⟩), (b "k2", ⟨.str (b "bb"), none⟩)], []⟩)], mem := 120 }
    (((handlePush false c160 [b "rpush", b "l1", b "a"]).run c160 s).1.lookup 0 (b "l1") = some ⟨.list [b "a"], none⟩) ∧
    ((handlePush false c120 [b "rpush", b "l1", b "a"]).run c120 s = (s, .done (.err maxMemErr))) := by decide

/-! ## the background sampler -/

theorem sampler_recursion_never_returns (cfg : Cfg) (db : Nat) (es : EState) :
    ∀ e, samplerPass.samplerPass2 cfg db es ≠ .ok e := by
  intro e h
  unfold samplerPass.samplerPass2 at h
  dsimp only at h
  split at h
  · contradiction
  · split at h
    · contradiction
    · split at h <;> contradiction

/-- **the background sampler never returns**: on a server that holds at least one database, one pass of
    evictKeysWithExpiredTTL ends in a panic, an endless redraw, or the self-deadlock of its recursive call — for every
    state, every database index, every eviction policy -/
theorem sampler_never_returns (cfg : Cfg) (db : Nat) (es : EState) (hdb : es.s.dbs ≠ []) :
    ∀ e, samplerPass cfg db es ≠ .ok e := by
  intro e h
  have hn : es.s.dbs.length ≠ 0 := by
    cases hd : es.s.dbs with
    | nil => exact absurd hd hdb
    | cons a r => simp
  unfold samplerPass at h
  dsimp only at h
  split at h
  · contradiction
  · split at h
    · contradiction
    · split at h
      · contradiction
      · next es' _ =>
        have hz : ((if (es.s.db db).vol.length < evictionSample then List.length es.s.dbs else evictionSample) == 0) = false := by
          by_cases hv : (es.s.db db).vol.length < evictionSample
          · simp [hv, hn]
          · rw [if_neg hv]; decide
        rw [hz] at h
        simp only [Bool.false_eq_true, if_false] at h
        split at h
        · contradiction
        · next e' he' => exact sampler_recursion_never_returns cfg db es' e' he'
end Sugar.Props.C08
