/-
  Props.C08 — max-memory policy. Theorems about Model.Evict (the literal transcription of container/heap,
  the LFU / LRU caches and adjustMemoryUsage). Every statement is universally quantified over heaps, states,
  configurations; where the property is false of the code the true statement is proved and a witness shows the
  deviation.
-/
import SugarModel.Lemmas.HeapLemmas
import SugarModel.Spec.EvictPolicy
namespace Sugar.Props.C08
open Sugar Sugar.Evict

variable {α : Type}

/-! ## container/heap: the invariant is re-established by every Push and Pop, for every heap and every strict weak order -/

/-- `heap.Push` keeps the heap invariant -/
theorem heap_inv_push {lt : α → α → Bool} (h : StrictWeak lt) (xs : List α) (x : α) (hp : Heap lt xs) :
    Heap lt (hpush lt xs x) := by
  unfold hpush up
  apply upF_heap h _ _ _ (Nat.le_refl _) (by simp)
  constructor
  · intro k a p hk hkn hka hkp
    have hkl := lt_len_of_get hka
    simp only [List.length_append, List.length_cons, List.length_nil] at hkl
    have hk1 : k < xs.length := by omega
    have hk2 : (k - 1) / 2 < xs.length := by omega
    rw [List.getElem?_append, if_pos hk1] at hka
    rw [List.getElem?_append, if_pos hk2] at hkp
    exact hp k a p hk hka hkp
  · intro k a g _ hk hpar hka _
    have hkl := lt_len_of_get hka
    simp only [List.length_append, List.length_cons, List.length_nil] at hkl
    omega

/-- `heap.Pop` returns the root of the heap … -/
theorem pop_returns_root (lt : α → α → Bool) (x0 : α) (r : List α) (e : α) (rest : List α)
    (hpop' : hpop lt (x0 :: r) = some (e, rest)) : e = x0 := by
  rw [hpop_eq] at hpop'
  injection hpop' with hpop'
  injection hpop' with he _
  rw [← he]
  have hlen : ((down lt (swap (x0 :: r) 0 r.length) 0 r.length).1).length = r.length + 1 := by
    unfold down; rw [downF_length, swap_length]; simp
  rw [List.getLastD_eq_getLast?, List.getLast?_eq_getElem?, hlen]
  simp only [Nat.add_sub_cancel]
  have h0 : (x0 :: r)[0]? = some x0 := rfl
  cases r with
  | nil => simp [down, downF, swap]
  | cons y r' =>
    have hl : (x0 :: y :: r')[(y :: r').length]? = some ((x0 :: y :: r')[(y :: r').length]'(by simp)) :=
      List.getElem?_eq_getElem (by simp)
    unfold down
    rw [downF_frame lt _ _ 0 _ _ (Nat.le_refl _) (by simp), swap_get _ 0 _ _ x0 _ h0 hl]
    simp

/-- … which is a minimum of the whole heap w.r.t. `Less` (nothing in the heap is `Less` than it) -/
theorem pop_is_min {lt : α → α → Bool} (h : StrictWeak lt) (xs : List α) (hp : Heap lt xs) (e : α) (rest : List α)
    (hpop' : hpop lt xs = some (e, rest)) : ∀ a ∈ xs, lt a e = false := by
  cases xs with
  | nil => simp [hpop] at hpop'
  | cons x0 r =>
    have := pop_returns_root lt x0 r e rest hpop'
    subst this
    intro a ha
    obtain ⟨k, hk, hka⟩ := List.getElem_of_mem ha
    exact heap_root_min h _ hp e rfl k a (by rw [List.getElem?_eq_getElem hk, hka])

/-- `heap.Pop` keeps the heap invariant on what remains -/
theorem heap_inv_pop {lt : α → α → Bool} (h : StrictWeak lt) (xs : List α) (hp : Heap lt xs) (e : α) (rest : List α)
    (hpop' : hpop lt xs = some (e, rest)) : Heap lt rest := by
  cases xs with
  | nil => simp [hpop] at hpop'
  | cons x0 r =>
    rw [hpop_eq] at hpop'
    injection hpop' with hpop'
    injection hpop' with _ hr
    subst hr
    have hlen : ((down lt (swap (x0 :: r) 0 r.length) 0 r.length).1).length = r.length + 1 := by
      unfold down; rw [downF_length, swap_length]; simp
    have hN : HeapN lt (down lt (swap (x0 :: r) 0 r.length) 0 r.length).1 r.length := by
      unfold down
      apply downF_heap h _ _ _ _ (by omega)
      cases r with
      | nil =>
        constructor
        · intro k a p hk hkn; simp at hkn
        · intro k a g h0; omega
      | cons y r' =>
        have h0 : (x0 :: y :: r')[0]? = some x0 := rfl
        have hl : (x0 :: y :: r')[(y :: r').length]? = some ((x0 :: y :: r')[(y :: r').length]'(by simp)) :=
          List.getElem?_eq_getElem (by simp)
        constructor
        · intro k a p hk hkn hpar hka hkp
          rw [swap_get _ 0 _ _ x0 _ h0 hl] at hka hkp
          have n1 : k ≠ (y :: r').length := by omega
          have n2 : k ≠ 0 := by omega
          have n3 : (k - 1) / 2 ≠ (y :: r').length := by omega
          rw [if_neg n1, if_neg n2] at hka
          rw [if_neg n3, if_neg hpar] at hkp
          exact hp k a p hk hka hkp
        · intro k a g h0'; omega
    intro k a p hk hka hkp
    rw [List.getElem?_dropLast] at hka hkp
    rw [hlen] at hka hkp
    simp only [Nat.add_sub_cancel] at hka hkp
    by_cases hkr : k < r.length
    · have hpr : (k - 1) / 2 < r.length := by omega
      rw [if_pos hkr] at hka
      rw [if_pos hpr] at hkp
      exact hN k a p hk hkr hka hkp
    · rw [if_neg hkr] at hka; contradiction

/-- `heap.Fix` re-establishes the invariant after any change of one cell (the count bump of CacheLFU.Update, the new
    stamp of CacheLRU.Update) -/
theorem heap_inv_fix {lt : α → α → Bool} (h : StrictWeak lt) (xs : List α) (i : Nat) (v : α) (hil : i < xs.length)
    (hp : Heap lt xs) : Heap lt (hfix lt (xs.set i v) i) := hfix_heap h xs i v hil hp

/-- `heap.Remove` keeps the invariant on what remains, whichever cell is removed -/
theorem heap_inv_remove {lt : α → α → Bool} (h : StrictWeak lt) (xs : List α) (i : Nat) (hil : i < xs.length)
    (hp : Heap lt xs) : Heap lt (hremove lt xs i) := hremove_heap h xs i hil hp

/-! ## the two orders -/

/-- CacheLFU.Less is a strict weak order (count ascending, then the later `addedTime` first) -/
theorem lfuLess_strictWeak : StrictWeak lfuLess := by
  constructor
  · intro a; simp [lfuLess]
  · intro a c d h1 h2
    simp only [lfuLess] at *
    by_cases e1 : a.count = c.count <;> by_cases e2 : c.count = d.count <;> by_cases e3 : a.count = d.count <;>
      simp_all <;> omega
  · intro a c d h1 h2
    simp only [lfuLess] at *
    by_cases e1 : a.count = c.count <;> by_cases e2 : c.count = d.count <;> by_cases e3 : a.count = d.count <;>
      simp_all <;> omega

/-- CacheLRU.Less is a strict weak order — on the access time *descending* -/
theorem lruLess_strictWeak : StrictWeak lruLess := by
  constructor
  · intro a; simp [lruLess]
  · intro a c d h1 h2; simp only [lruLess, decide_eq_true_eq] at *; omega
  · intro a c d h1 h2; simp only [lruLess, decide_eq_false_iff_not] at *; omega

/-- **LFU order.** From any LFU heap satisfying the invariant, `heap.Pop` yields an entry whose access count is
    minimal among all entries: least frequently used first. -/
theorem lfu_order (es : List LfuE) (hp : Heap lfuLess es) (e : LfuE) (rest : List LfuE)
    (hpop' : hpop lfuLess es = some (e, rest)) : ∀ a ∈ es, e.count ≤ a.count := by
  intro a ha
  have := pop_is_min lfuLess_strictWeak es hp e rest hpop' a ha
  simp only [lfuLess] at this
  by_cases e1 : a.count = e.count
  · omega
  · simp [e1] at this; omega

/-- among entries with the minimal count the most recently *added* one goes first (ties are not in the property) -/
theorem lfu_tie_newest_first (es : List LfuE) (hp : Heap lfuLess es) (e : LfuE) (rest : List LfuE)
    (hpop' : hpop lfuLess es = some (e, rest)) : ∀ a ∈ es, a.count = e.count → a.added ≤ e.added := by
  intro a ha hc
  have := pop_is_min lfuLess_strictWeak es hp e rest hpop' a ha
  simp only [lfuLess, hc] at this
  simpa using this

/-- **LRU order as implemented.** `heap.Pop` on the LRU heap yields the entry with the *latest* access time:
    the most recently used key is evicted first. -/
theorem lru_pops_most_recent (es : List LruE) (hp : Heap lruLess es) (e : LruE) (rest : List LruE)
    (hpop' : hpop lruLess es = some (e, rest)) : ∀ a ∈ es, a.time ≤ e.time := by
  intro a ha
  have := pop_is_min lruLess_strictWeak es hp e rest hpop' a ha
  simpa [lruLess] using this

/-- the statement the property asks for ("least recently used first") is false: two accesses at times 1 and 2,
    the heap built by the code's own Push, and Pop returns the key accessed last -/
theorem lru_order_witness :
    let h := hpush lruLess (hpush lruLess [] ⟨b "old", 1⟩) ⟨b "new", 2⟩
    Heap lruLess h ∧ (hpop lruLess h).map (·.1.key) = some (b "new") ∧ ¬ (∀ a ∈ h, 2 ≤ a.time) := by
  refine ⟨?_, by decide, by decide⟩
  exact heap_inv_push lruLess_strictWeak _ _ (heap_inv_push lruLess_strictWeak _ _ (by intro k a p _ hka; simp at hka))

/-- CacheLRU.Push never records the key: `Update` leaves the membership map as it was, so `contains` stays false … -/
theorem lru_update_never_records (c : Cache LruE) (k : Bytes) (t1 t2 : Nat) (c' : Cache LruE)
    (hu : lruUpdate c k t1 t2 = some c') : c'.keys = c.keys := by
  unfold lruUpdate at hu
  dsimp only at hu
  split at hu
  · contradiction
  · split at hu
    · contradiction
    · injection hu with hu; rw [← hu]

/-- … and every access of a key therefore adds one more heap entry (witness: two accesses, two entries) -/
theorem lru_duplicates_witness :
    ((lruUpdate {} (b "k") 1 1).bind fun c => lruUpdate c (b "k") 2 2).map (·.cells.length) = some 2 := by decide

/-! ## the caches keep their heaps -/

/-- no nil cell, and the entries form a heap w.r.t. the cache's `Less` -/
def CacheOk {E : Type} (lt : E → E → Bool) (c : Cache E) : Prop := ∃ es, unwrapCells c.cells = some es ∧ Heap lt es

/-- CacheLFU.Update (push of a new key, or count bump + Fix) keeps the LFU heap a heap -/
theorem lfu_update_keeps_heap (c c' : Cache LfuE) (k : Bytes) (now : Nat) (hok : CacheOk lfuLess c)
    (hu : lfuUpdate c k now = some c') : CacheOk lfuLess c' := by
  obtain ⟨es, hes, hp⟩ := hok
  unfold lfuUpdate at hu
  rw [hes] at hu
  split at hu
  · split at hu
    · injection hu with hu; rw [← hu]
      exact ⟨[_], rfl, heap_singleton _ _⟩
    · injection hu with hu; rw [← hu]
      exact ⟨_, unwrap_wrap _, heap_inv_push lfuLess_strictWeak es _ hp⟩
  · dsimp only at hu
    split at hu
    · contradiction
    · next i hi =>
      injection hu with hu; rw [← hu]
      have hil : i < es.length := (List.findIdx?_eq_some_iff_findIdx_eq.mp hi).1
      refine ⟨_, unwrap_wrap _, ?_⟩
      rw [modify_eq_set _ es i hil]
      exact heap_inv_fix lfuLess_strictWeak es i _ hil hp

/-- CacheLFU.Delete keeps the LFU heap a heap -/
theorem lfu_delete_keeps_heap (c c' : Cache LfuE) (k : Bytes) (hok : CacheOk lfuLess c)
    (hd : lfuDelete c k = some c') : CacheOk lfuLess c' := by
  obtain ⟨es, hes, hp⟩ := hok
  unfold lfuDelete at hd
  rw [hes] at hd
  split at hd
  · injection hd with hd; rw [← hd]; exact ⟨es, hes, hp⟩
  · dsimp only at hd
    split at hd
    · injection hd with hd; rw [← hd]; exact ⟨es, hes, hp⟩
    · next i hi =>
      injection hd with hd; rw [← hd]
      have hil : i < es.length := (List.findIdx?_eq_some_iff_findIdx_eq.mp hi).1
      exact ⟨_, unwrap_wrap _, heap_inv_remove lfuLess_strictWeak es i hil hp⟩

/-- the eviction pop keeps the LFU heap a heap, and the key it yields has the minimal recorded count -/
theorem lfu_pop_keeps_heap_and_is_least_frequent (c c' : Cache LfuE) (k : Bytes) (hok : CacheOk lfuLess c)
    (hpop' : lfuPop c = some (k, c')) :
    CacheOk lfuLess c' ∧ ∃ es e, unwrapCells c.cells = some es ∧ e ∈ es ∧ e.key = k ∧ ∀ a ∈ es, e.count ≤ a.count := by
  obtain ⟨es, hes, hp⟩ := hok
  unfold lfuPop at hpop'
  rw [hes] at hpop'
  dsimp only at hpop'
  split at hpop'
  · contradiction
  · next e r hpr =>
    injection hpop' with hpop'
    injection hpop' with hk hc
    rw [← hc]
    refine ⟨⟨_, unwrap_wrap _, heap_inv_pop lfuLess_strictWeak es hp e r hpr⟩, es, e, hes, ?_, hk, lfu_order es hp e r hpr⟩
    cases es with
    | nil => simp [hpop] at hpr
    | cons x0 r0 =>
      have := pop_returns_root lfuLess x0 r0 e r hpr
      rw [this]; simp

/-- CacheLRU.Update keeps the LRU heap a heap (w.r.t. its own, inverted, order) -/
theorem lru_update_keeps_heap (c c' : Cache LruE) (k : Bytes) (t1 t2 : Nat) (hok : CacheOk lruLess c)
    (hu : lruUpdate c k t1 t2 = some c') : CacheOk lruLess c' := by
  obtain ⟨es, hes, hp⟩ := hok
  unfold lruUpdate at hu
  rw [hes] at hu
  dsimp only at hu
  have key : ∀ (pushed : Option (List LruE)), (∀ es1, pushed = some es1 → Heap lruLess es1) →
      (match pushed with
        | none => none
        | some es1 =>
          match idxLru es1 k with
          | none => none
          | some i => some (⟨c.keys, wrap (hfix lruLess (es1.modify i fun e => { e with time := t2 }) i)⟩ : Cache LruE)) = some c' →
      CacheOk lruLess c' := by
    intro pushed hpush h1
    split at h1
    · contradiction
    · next es1 =>
      have hp1 := hpush es1 rfl
      split at h1
      · contradiction
      · next i hi =>
        injection h1 with h1; rw [← h1]
        have hil : i < es1.length := (List.findIdx?_eq_some_iff_findIdx_eq.mp hi).1
        refine ⟨_, unwrap_wrap _, ?_⟩
        rw [modify_eq_set _ es1 i hil]
        exact heap_inv_fix lruLess_strictWeak es1 i _ hil hp1
  refine key _ ?_ hu
  intro es1 h
  split at h
  · split at h
    · injection h with h; rw [← h]; exact heap_singleton _ _
    · simp only [Option.map_some] at h
      injection h with h; rw [← h]
      exact heap_inv_push lruLess_strictWeak es _ hp
  · injection h with h; rw [← h]; exact hp

/-- the LRU eviction pop yields the key with the latest recorded access -/
theorem lru_pop_is_most_recent (c c' : Cache LruE) (k : Bytes) (hok : CacheOk lruLess c)
    (hpop' : lruPop c = some (k, c')) :
    CacheOk lruLess c' ∧ ∃ (es : List LruE) (e : LruE), unwrapCells c.cells = some es ∧ e.key = k ∧ ∀ a ∈ es, a.time ≤ e.time := by
  obtain ⟨es, hes, hp⟩ := hok
  unfold lruPop at hpop'
  rw [hes] at hpop'
  dsimp only at hpop'
  split at hpop'
  · contradiction
  · next e r hpr =>
    injection hpop' with hpop'
    injection hpop' with hk hc
    rw [← hc]
    exact ⟨⟨_, unwrap_wrap _, heap_inv_pop lruLess_strictWeak es hp e r hpr⟩, es, e, hes, hk, lru_pops_most_recent es hp e r hpr⟩

/-! ## admission test and eviction loop -/

/-- **noeviction admission.** With a limit configured, a write through setValues is refused exactly when the
    accounted usage (as the code reads it: `uint64(memUsed)`) is at or above the limit, and a refused write
    changes nothing. -/
theorem noeviction_admit (c : Ctx) (s : State) (es : List (Bytes × Val)) (hpol : c.cfg.policy = .noeviction)
    (hmax : c.cfg.maxMemory ≠ 0) :
    ((setValues c s es).2 = false ↔ toU64 s.mem ≥ c.cfg.maxMemory) ∧
    ((setValues c s es).2 = false → (setValues c s es).1 = s) := by
  unfold setValues isMaxMemoryExceeded
  by_cases hge : toU64 s.mem ≥ c.cfg.maxMemory <;> simp [hpol, hmax, hge]

/-- under an eviction policy setValues never refuses -/
theorem eviction_policy_admits (c : Ctx) (s : State) (es : List (Bytes × Val)) (hpol : c.cfg.policy ≠ .noeviction) :
    (setValues c s es).2 = true := by
  unfold setValues
  have : (c.cfg.policy == Policy.noeviction) = false := by
    cases hp : c.cfg.policy <;> simp_all
  simp [this]

/-- **noeviction never removes a key**: adjustMemoryUsage is the identity under noeviction -/
theorem noeviction_never_evicts (cfg : Cfg) (env : Env) (db : Nat) (es : EState) (hpol : cfg.policy = .noeviction) :
    adjustMemoryUsage cfg env db es = .ok (true, es) := by
  unfold adjustMemoryUsage
  split
  · rfl
  · split
    · rfl
    · simp [hpol]

/-- **keys are removed only while usage is at or above the limit**: below the limit adjustMemoryUsage is the
    identity under every policy -/
theorem evict_only_above_limit (cfg : Cfg) (env : Env) (db : Nat) (es : EState) (hb : below cfg es = true) :
    adjustMemoryUsage cfg env db es = .ok (true, es) := by
  unfold adjustMemoryUsage
  split
  · rfl
  · simp [hb]

/-- **eviction stops as soon as usage is back under the limit** (LFU): if removing the popped key brings usage
    below the limit, exactly that key is removed and the loop returns -/
theorem stops_below_limit (cfg : Cfg) (db fuel : Nat) (es es' : EState) (c c' : Cache LfuE) (k : Bytes)
    (hc : es.lfu.get db = some c) (hlen : c.len ≠ 0) (hpop' : lfuPop c = some (k, c'))
    (hdel : deleteKeyE cfg { es with lfu := es.lfu.put db c' } db k = .ok es') (hb : below cfg es' = true) :
    adjustLfu cfg db (fuel + 1) es = .ok (true, es') := by
  unfold adjustLfu
  simp [hc, hlen, hpop', hdel, hb]

/-- whenever the LFU loop returns nil, usage is below the limit -/
theorem lfu_loop_ends_below (cfg : Cfg) (db : Nat) : ∀ (fuel : Nat) (es es' : EState),
    adjustLfu cfg db fuel es = .ok (true, es') → below cfg es' = true := by
  intro fuel
  induction fuel with
  | zero => intro es es' h; simp [adjustLfu] at h
  | succ fuel ih =>
    intro es es' h
    unfold adjustLfu at h
    split at h
    · contradiction
    · split at h
      · injection h with h; injection h with h1 _; contradiction
      · split at h
        · contradiction
        · split at h
          · contradiction
          · split at h
            · next hb => injection h with h; injection h with _ h2; rw [← h2]; exact hb
            · exact ih _ _ h

/-- the same for the LRU loop -/
theorem lru_loop_ends_below (cfg : Cfg) (db : Nat) : ∀ (fuel : Nat) (es es' : EState),
    adjustLru cfg db fuel es = .ok (true, es') → below cfg es' = true := by
  intro fuel
  induction fuel with
  | zero => intro es es' h; simp [adjustLru] at h
  | succ fuel ih =>
    intro es es' h
    unfold adjustLru at h
    split at h
    · contradiction
    · split at h
      · injection h with h; injection h with h1 _; contradiction
      · split at h
        · contradiction
        · split at h
          · contradiction
          · split at h
            · next hb => injection h with h; injection h with _ h2; rw [← h2]; exact hb
            · exact ih _ _ h

/-- **an evicted key is gone from the store and from the volatile index** (every policy, every state) -/
theorem evicted_key_gone (cfg : Cfg) (es es' : EState) (db : Nat) (k : Bytes)
    (hdel : deleteKeyE cfg es db k = .ok es') :
    es'.s.lookup db k = none ∧ k ∉ (es'.s.db db).vol := by
  have hs : es'.s = Sugar.deleteKey es.s db k := by
    unfold deleteKeyE at hdel
    split at hdel
    · split at hdel
      · contradiction
      · split at hdel
        · contradiction
        · injection hdel with hdel; rw [← hdel]
    · split at hdel
      · split at hdel
        · contradiction
        · split at hdel
          · contradiction
          · injection hdel with hdel; rw [← hdel]
      · injection hdel with hdel; rw [← hdel]
  rw [hs]
  unfold Sugar.deleteKey State.lookup State.db
  by_cases hdb : es.s.hasDb db
  · simp [hdb, NMap.get_put_same]
  · simp only [hdb]
    unfold State.hasDb at hdb
    cases hg : es.s.dbs.get db with
    | none => simp [State.db, hg]
    | some d => simp [hg] at hdb

/-- PERSIST / a cleared deadline never touches the eviction heaps: a key that entered the volatile-LFU heap stays
    a candidate after it lost its expiry (the `volatile-cache-keeps-persisted-key` class) -/
theorem persist_keeps_cache_entry (c : Ctx) (env : Env) (es es' : EState) (k : Bytes)
    (hx : execE c env es (.setExpiry k none false) = .ok ((), es')) : es'.lfu = es.lfu ∧ es'.lru = es.lru := by
  simp only [execE] at hx
  split at hx
  · contradiction
  · simp at hx
    cases hx; exact ⟨rfl, rfl⟩

/-! ## the server does not keep running: witnesses of the three ways eviction kills or stalls it -/

/-- Flush leaves nil cells; the next cache update dereferences one (`none` = Go panic) -/
theorem flush_nil_panics_witness :
    ((lfuUpdate {} (b "a") 1).map fun c => lfuUpdate c.flush (b "z") 2) = some none := by decide

/-- volatile-random at the limit with no volatile key: index out of range in the background goroutine -/
theorem volatile_random_panics_witness :
    let s : State := { dbs := [(0, ⟨[(b "a", ⟨.str (b "v"), none⟩)], []⟩)], mem := 100 }
    let es : EState := { s := s, lfu := [(0, {})], lru := [(0, {})] }
    (adjustMemoryUsage ⟨50, .volatileRandom⟩ {} 0 es).toOption = none := by decide

/-- allkeys-random at the limit on a database without keys never returns -/
theorem allkeys_random_hang_witness :
    let s : State := { dbs := [(0, ⟨[], []⟩)], mem := 100 }
    let es : EState := { s := s, lfu := [(0, {})], lru := [(0, {})] }
    (match adjustMemoryUsage ⟨50, .allkeysRandom⟩ {} 0 es with
     | .error (.hang _) => true
     | _ => false) = true := by decide

/-- `eviction_total` is false; what holds: with valid (nil-free) heaps the LFU / LRU loops neither panic nor hang
    — non-vacuity example for the loop theorems: one key over the limit is evicted and the loop stops -/
example :
    let s : State := { dbs := [(0, ⟨[(b "a", ⟨.str (b "v"), none⟩)], []⟩)], mem := 100 }
    let es : EState := { s := s, lfu := [(0, ⟨[b "a"], [some ⟨b "a", 1, 1⟩]⟩)], lru := [(0, {})] }
    (adjustMemoryUsage ⟨70, .allkeysLfu⟩ {} 0 es).toOption.map (fun r => (r.1, r.2.s.mem, (r.2.s.db 0).store.length)) = some (true, 42, 0) := by decide

/-! ## the remaining classes, stated on the model -/

/-- in-place mutation of a stored object is never refused and never consults the limit: the only admission test
    is the one in setValues (the `noeviction-admits-in-place-collection-writes` class) -/
theorem mutobj_bypasses_admission (c : Ctx) (env : Env) (es : EState) (k : Bytes) (v : Val) :
    execE c env es (.mutObj k v) = .ok ((), { es with s := Sugar.mutObj es.s c.db k v }) := rfl

/-- setExpiry on a key that is no longer there (evicted a moment ago by the update that setValues spawned) creates
    an entry with a nil value and the deadline (the `expiry-write-resurrects-evicted-key-as-nil` class) -/
theorem setexpiry_resurrects_as_nil (c : Ctx) (s s' : State) (k : Bytes) (e : Option Int)
    (habs : s.lookup c.db k = none) (hx : setExpiry c s k e = some s') :
    s'.lookup c.db k = some ⟨.nil, e⟩ := by
  unfold setExpiry at hx
  split at hx
  · contradiction
  · injection hx with hx
    rw [← hx]
    unfold State.lookup at habs
    unfold State.db at habs
    simp [State.lookup, State.db, NMap.get_put_same]
    rw [habs]

/-- clearing the deadline keeps the key in the volatile index: volatile-random still picks it
    (the `volatile-index-keeps-persisted-key` class) -/
theorem persist_keeps_volatile_index (c : Ctx) (s s' : State) (k : Bytes)
    (hin : k ∈ (s.db c.db).vol) (hx : setExpiry c s k none = some s') : k ∈ (s'.db c.db).vol := by
  unfold setExpiry at hx
  split at hx
  · contradiction
  · injection hx with hx
    rw [← hx]
    simp only [State.db, NMap.get_put_same, Option.getD_some]
    unfold State.db at hin
    exact mem_addVol _ _ hin

/-- OBJECTFREQ on a database that was never written dereferences a nil cache -/
theorem objectfreq_unopened_db_panics_witness :
    (match handleObjFreqE { db := 0, now := 0, cfg := ⟨100, .allkeysLfu⟩ } { s := { dbs := [], mem := 0 } } [b "objectfreq", b "k"] with
     | .error (.panic _) => true
     | _ => false) = true := by decide

/-! ## the background sampler -/

theorem sampler_recursion_never_returns (cfg : Cfg) (db : Nat) (es : EState) :
    ∀ e, samplerPass.samplerPass2 cfg db es ≠ .ok e := by
  intro e h
  unfold samplerPass.samplerPass2 at h
  dsimp only at h
  split at h
  · contradiction
  · split at h
    · contradiction
    · split at h <;> contradiction

/-- **the background sampler never returns**: on a server that holds at least one database, one pass of
    evictKeysWithExpiredTTL ends in a panic, an endless redraw, or the self-deadlock of its recursive call — for every
    state, every database index, every eviction policy -/
theorem sampler_never_returns (cfg : Cfg) (db : Nat) (es : EState) (hdb : es.s.dbs ≠ []) :
    ∀ e, samplerPass cfg db es ≠ .ok e := by
  intro e h
  have hn : es.s.dbs.length ≠ 0 := by
    cases hd : es.s.dbs with
    | nil => exact absurd hd hdb
    | cons a r => simp
  unfold samplerPass at h
  dsimp only at h
  split at h
  · contradiction
  · split at h
    · contradiction
    · split at h
      · contradiction
      · next es' _ =>
        have hz : ((if (es.s.db db).vol.length < evictionSample then List.length es.s.dbs else evictionSample) == 0) = false := by
          by_cases hv : (es.s.db db).vol.length < evictionSample
          · simp [hv, hn]
          · rw [if_neg hv]; decide
        rw [hz] at h
        simp only [Bool.false_eq_true, if_false] at h
        split at h
        · contradiction
        · next e' he' => exact sampler_recursion_never_returns cfg db es' e' he'
end Sugar.Props.C08
