/-
  Props.C06 — ACL authorization: what the decision procedure (model of AuthorizeConnection) guarantees
  against the declarative policy, for all rule sets, commands, key and channel vectors and for every
  glob-matching function.
-/
import SugarModel.Lemmas.AclLemmas
import SugarModel.Generated.CommandTable
namespace Sugar.Props.C06
open Sugar Sugar.Acl Sugar.Spec

/-- the inputs outside the listed findings: on these the procedure is sound w.r.t. the policy -/
structure Regular (gmatch : Bytes → Bytes → Bool) (u : User) (m : CmdMeta) : Prop where
  /-- the user is enabled (finding `disabled-user-stays-authorized`) -/
  enabled : u.enabled = true
  /-- the read keys are matched all or none (finding `any-read-key-suffices`) -/
  readsUniform : (m.readKeys.any fun k => u.readKeys.any fun g => gmatch g k) = true →
                 (m.readKeys.all fun k => u.readKeys.any fun g => gmatch g k) = true
  /-- likewise the write keys (finding `any-write-key-suffices`) -/
  writesUniform : (m.writeKeys.any fun k => u.writeKeys.any fun g => gmatch g k) = true →
                  (m.writeKeys.all fun k => u.writeKeys.any fun g => gmatch g k) = true
  /-- a user that reads keys has at least one read pattern (finding `empty-read-pattern-list-allows-reads`) -/
  readPatterns : m.readKeys.isEmpty = false → u.readKeys.isEmpty = false
  /-- pub/sub commands name no keys (finding `pubsub-category-skips-key-checks`) -/
  pubsubNoKeys : m.cats.contains (b "pubsub") = true → m.readKeys = [] ∧ m.writeKeys = []
  /-- only pub/sub commands name channels (true of every row of the command table) -/
  channelsOnlyPubsub : m.cats.contains (b "pubsub") = false → m.channels = []
  /-- "ack" is exempted by the code and is not a command of the table (`no_ack_command`) -/
  notAck : (toLower m.comm == b "ack") = false

/-- **Soundness of the gate (authorize_sound_partial).** When authentication is required and the
    procedure lets a command through, the declarative policy allows it: handshake command, or the
    connection is authenticated as an enabled user, every category and the command are allowed, every
    read key matches a read pattern, every write key a write pattern, every channel is allowed and
    not excluded — for all rule sets, all commands, all key/channel vectors, all `gmatch`, outside the
    `Regular` exclusions (each exclusion is a listed finding with a witness below). -/
theorem authorize_sound_partial (gmatch : Bytes → Bytes → Bool) (auth : Bool) (u : User) (m : CmdMeta)
    (hreg : Regular gmatch u m) (h : authorize gmatch true auth u m = none) :
    policyAllowed gmatch auth u m.comm m.cats ⟨m.readKeys, m.writeKeys, m.channels⟩ = true := by
  unfold policyAllowed
  cases hex : codeExempt m.comm with
  | true =>
    -- the code-level exemption is the handshake list (ack excluded)
    have : exempt m.comm = true := by
      unfold codeExempt at hex
      unfold exempt
      rw [hreg.notAck, Bool.false_or] at hex
      revert hex
      generalize (toLower m.comm == b "ping") = x1
      generalize (toLower m.comm == b "echo") = x2
      generalize (toLower m.comm == b "hello") = x3
      generalize (toLower m.comm == b "auth") = x4
      cases x1 <;> cases x2 <;> cases x3 <;> cases x4 <;> simp
    rw [this]; rfl
  | false =>
    obtain ⟨hauth, hci, hce, hmi, hme, hps, hdata⟩ := authorize_none_inv gmatch auth u m hex h
    have hcats := catAllowed_of u m hci hce
    have hcmd := cmdAllowed_of u m hmi hme
    rw [hauth, hreg.enabled, hcats, hcmd]
    simp only [Bool.true_and, Bool.or_eq_true, Bool.and_eq_true]
    right
    cases hp : m.cats.contains (b "pubsub") with
    | true =>
      obtain ⟨hr, hw⟩ := hreg.pubsubNoKeys hp
      have hch := chans_of gmatch u m (hps hp)
      simp only [hr, hw, List.isEmpty_nil, List.all_nil]
      exact ⟨⟨⟨Or.inl ⟨trivial, trivial⟩, trivial⟩, trivial⟩, hch⟩
    | false =>
      have hnoch := hreg.channelsOnlyPubsub hp
      simp only [hnoch, List.all_nil, and_true]
      cases hk : (m.readKeys.isEmpty && m.writeKeys.isEmpty) with
      | true =>
        simp only [Bool.and_eq_true, List.isEmpty_iff] at hk
        simp [hk.1, hk.2]
      | false =>
        obtain ⟨hnk, hrd, hwd⟩ := hdata hp hk
        refine ⟨⟨?_, ?_⟩, ?_⟩
        · right; simp [hnk]
        · apply keys_all_of_not_denied _ _ _ hreg.readsUniform
          unfold readDenied at hrd
          cases hre : m.readKeys.isEmpty with
          | true => rfl
          | false =>
            rw [hre, hreg.readPatterns hre] at hrd
            simpa using hrd
        · apply keys_all_of_not_denied _ _ _ hreg.writesUniform
          exact hwd

/-- the code's extra exemption "ack" names no command of the regenerated table -/
theorem no_ack_command : (Gen.commandTable.all fun r => r.name != "ack" && r.sub != "ack") = true := by
  decide +kernel

/-- only pub/sub-category commands can name channels: every row that is not in the pubsub category
    belongs to a module other than pubsub (the channel extractors live in the pubsub module) -/
theorem channels_only_pubsub_rows :
    (Gen.commandTable.all fun r => r.cats.contains "pubsub" || r.module != "pubsub" || r.sub == "" && r.name == "pubsub") = true := by
  decide +kernel

theorem hello_not_denied (a : AclState) (cid : Nat) (cmd : List Bytes) (sha : Bytes) (d : Deny) :
    (helloHandler a cid cmd sha).2 ≠ .denied d := by
  unfold helloHandler
  repeat' split
  all_goals simp

/-- the handlers never answer with a gate refusal of their own -/
theorem handler_not_denied (a : AclState) (cid : Nat) (cmd : List Bytes) (sha : Bytes) (d : Deny) :
    (aclHandler a cid cmd sha).2 ≠ .denied d := by
  unfold aclHandler
  simp only
  repeat' split
  all_goals first | exact hello_not_denied _ _ _ _ _ | simp

/-- **A denied command has no effect** on users, rules or connection identities, and never reaches a
    handler: if the gate refuses, the state is returned unchanged — and a refusal can only come from the gate. -/
theorem denied_no_effect (a : AclState) (cid : Nat) (cmd : List Bytes) (sha : Bytes) (m : CmdMeta) (d : Deny)
    (h : (aclStep a cid cmd sha m).2 = .denied d) : (aclStep a cid cmd sha m).1 = a ∧ aclGate a cid m = some d := by
  unfold aclStep at h ⊢
  split at h
  · simp at h
  · split at h
    · simp at h
    · split at h
      · split at h <;> simp at h
      · cases hg : aclGate a cid m with
        | some d' =>
          rw [hg] at h
          simp only [AOut.denied.injEq] at h
          simp only [hg]
          rename_i h1 h2
          simp [h1, h2, h]
        | none =>
          rw [hg] at h
          exact absurd h (handler_not_denied a cid _ sha d)

/-! ### the exclusions are real (model witnesses; each is a listed finding, replayed on the implementation) -/

def rwUser : User := { name := b "u", inclCats := [star], inclCmds := [star], readKeys := [b "a*"], writeKeys := [b "a*"], inclChans := [star] }

/-- one matching key among several is enough -/
theorem any_read_key_suffices_witness :
    authorize globMatch true true rwUser ⟨b "mget", [b "read"], [b "a1", b "b1"], [], []⟩ = none ∧
    policyAllowed globMatch true rwUser (b "mget") [b "read"] ⟨[b "a1", b "b1"], [], []⟩ = false := by decide

theorem any_write_key_suffices_witness :
    authorize globMatch true true rwUser ⟨b "mset", [b "write"], [], [b "a1", b "b1"], []⟩ = none ∧
    policyAllowed globMatch true rwUser (b "mset") [b "write"] ⟨[], [b "a1", b "b1"], []⟩ = false := by decide

/-- a disabled user's established connection is still let through -/
theorem disabled_user_witness :
    authorize globMatch true true { rwUser with enabled := false } ⟨b "get", [b "read"], [b "a1"], [], []⟩ = none ∧
    policyAllowed globMatch true { rwUser with enabled := false } (b "get") [b "read"] ⟨[b "a1"], [], []⟩ = false := by decide

/-- an empty read-pattern list lets every read through -/
theorem empty_read_patterns_witness :
    authorize globMatch true true { rwUser with readKeys := [] } ⟨b "get", [b "read"], [b "zzz"], [], []⟩ = none ∧
    policyAllowed globMatch true { rwUser with readKeys := [] } (b "get") [b "read"] ⟨[b "zzz"], [], []⟩ = false := by decide

/-- non-vacuity of `authorize_sound_partial`: a regular input that is allowed -/
example : authorize globMatch true true rwUser ⟨b "get", [b "read"], [b "a1"], [], []⟩ = none := by decide

end Sugar.Props.C06
