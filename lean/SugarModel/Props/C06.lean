/-
  Props.C06 — ACL authorization: the decision procedure (model of AuthorizeConnection) is sound — and complete —
  against the declarative policy, for all rule sets, commands, key and channel vectors and for every
  glob-matching function.
-/
import SugarModel.Lemmas.AclLemmas
import SugarModel.Generated.CommandTable
namespace Sugar.Props.C06
open Sugar Sugar.Acl Sugar.Spec

/-- the commands outside the listed findings that are still open. All three conditions speak of the command
    (its categories and what its extractor names), none of the user: the rule set is arbitrary. -/
structure Regular (m : CmdMeta) : Prop where
  /-- pub/sub commands name no keys (open finding `pubsub-category-skips-key-checks`: the procedure returns
      after the channel checks of a command that carries the pubsub category) -/
  pubsubNoKeys : m.cats.contains (b "pubsub") = true → m.readKeys = [] ∧ m.writeKeys = []
  /-- only pub/sub commands name channels (true of every row of the command table, `channels_only_pubsub_rows`) -/
  channelsOnlyPubsub : m.cats.contains (b "pubsub") = false → m.channels = []
  /-- "ack" is exempted by the code and is not a command of the table (`no_ack_command`) -/
  notAck : (toLower m.comm == b "ack") = false

/-- **Soundness of the gate.** When authentication is required and the procedure lets a command through, the
    declarative policy allows it: handshake command, or the connection is authenticated as an *enabled* user,
    every category and the command are allowed, EVERY read key matches a read pattern, EVERY write key a write
    pattern, every channel is allowed and not excluded — for all users (every rule set, enabled or not, normalised
    or not, with or without patterns), all key and channel vectors, all `gmatch`. What remains is `Regular m`, a
    hypothesis on the command alone: two facts of the command table and the one finding of the gate that is
    still open (keys named by a pub/sub-category command). The former hypotheses on the user — enabled, keys
    matched all-or-none, a non-empty read-pattern list — are gone with the defects they fenced off. -/
theorem authorize_sound (gmatch : Bytes → Bytes → Bool) (auth : Bool) (u : User) (m : CmdMeta)
    (hreg : Regular m) (h : authorize gmatch true auth u m = none) :
    policyAllowed gmatch auth u m.comm m.cats ⟨m.readKeys, m.writeKeys, m.channels⟩ = true := by
  unfold policyAllowed
  cases hex : codeExempt m.comm with
  | true =>
    -- the code-level exemption is the handshake list (ack excluded)
    have : exempt m.comm = true := by
      unfold codeExempt at hex
      unfold exempt
      rw [hreg.notAck, Bool.false_or] at hex
      revert hex
      generalize (toLower m.comm == b "ping") = x1
      generalize (toLower m.comm == b "echo") = x2
      generalize (toLower m.comm == b "hello") = x3
      generalize (toLower m.comm == b "auth") = x4
      cases x1 <;> cases x2 <;> cases x3 <;> cases x4 <;> simp
    rw [this]; rfl
  | false =>
    obtain ⟨hauth, hen, hci, hce, hmi, hme, hps, hdata⟩ := authorize_none_inv gmatch auth u m hex h
    have hcats := catAllowed_of u m hci hce
    have hcmd := cmdAllowed_of u m hmi hme
    rw [hauth, hen, hcats, hcmd]
    simp only [Bool.true_and, Bool.or_eq_true, Bool.and_eq_true]
    right
    cases hp : m.cats.contains (b "pubsub") with
    | true =>
      obtain ⟨hr, hw⟩ := hreg.pubsubNoKeys hp
      have hch := chans_of gmatch u m (hps hp)
      simp only [hr, hw, List.isEmpty_nil, List.all_nil]
      exact ⟨⟨⟨Or.inl ⟨trivial, trivial⟩, trivial⟩, trivial⟩, hch⟩
    | false =>
      have hnoch := hreg.channelsOnlyPubsub hp
      simp only [hnoch, List.all_nil, and_true]
      cases hk : (m.readKeys.isEmpty && m.writeKeys.isEmpty) with
      | true =>
        simp only [Bool.and_eq_true, List.isEmpty_iff] at hk
        simp [hk.1, hk.2]
      | false =>
        obtain ⟨hnk, hrd, hwd⟩ := hdata hp hk
        refine ⟨⟨?_, ?_⟩, ?_⟩
        · right; simp [hnk]
        · exact keys_all_of_not_denied _ _ _ hrd
        · exact keys_all_of_not_denied _ _ _ hwd

/-- **Completeness of the gate**: the procedure refuses nothing the policy allows — for every user and every
    command, with no hypothesis at all; on `Regular` commands the decision *is* the policy. -/
theorem authorize_complete (gmatch : Bytes → Bytes → Bool) (auth : Bool) (u : User) (m : CmdMeta)
    (h : policyAllowed gmatch auth u m.comm m.cats ⟨m.readKeys, m.writeKeys, m.channels⟩ = true) :
    authorize gmatch true auth u m = none := by
  unfold authorize
  cases hex : codeExempt m.comm with
  | true => simp
  | false =>
    have hne : exempt m.comm = false := by
      unfold codeExempt at hex
      unfold exempt
      revert hex
      generalize (toLower m.comm == b "ack") = x0
      generalize (toLower m.comm == b "ping") = x1
      generalize (toLower m.comm == b "echo") = x2
      generalize (toLower m.comm == b "hello") = x3
      generalize (toLower m.comm == b "auth") = x4
      cases x0 <;> cases x1 <;> cases x2 <;> cases x3 <;> cases x4 <;> simp
    unfold policyAllowed at h
    rw [hne, Bool.false_or] at h
    simp only [Bool.and_eq_true] at h
    obtain ⟨⟨⟨⟨⟨⟨⟨hauth, hen⟩, hcats⟩, hcmd⟩, hnk⟩, hr⟩, hw⟩, hch⟩ := h
    have hci : catsIncluded u m = true := catsIncluded_of u m hcats
    have hce : catsExcluded u m = false := catsExcluded_of u m hcats
    have hmi : cmdIncluded u m = true := cmdIncluded_of u m hcmd
    have hme : cmdExcluded u m = false := cmdExcluded_of u m hcmd
    have hrd : readDenied gmatch u m = false := by
      unfold readDenied; rw [keys_denied_iff, hr]; rfl
    have hwd : writeDenied gmatch u m = false := by
      unfold writeDenied; rw [keys_denied_iff, hw]; rfl
    have hcd : chanDenied gmatch u m = false := chanDenied_of gmatch u m hch
    simp only [hauth, hen, hci, hce, hmi, hme, hrd, hwd, hcd, Bool.not_true, Bool.false_eq_true, if_false]
    cases hp : m.cats.contains (b "pubsub") with
    | true => simp
    | false =>
      simp only [Bool.false_eq_true, if_false]
      cases hk : (m.readKeys.isEmpty && m.writeKeys.isEmpty) with
      | true => simp
      | false =>
        rw [hk, Bool.false_or] at hnk
        simp only [Bool.not_eq_true'] at hnk
        simp [hnk]

/-- the gate decides the policy, exactly -/
theorem authorize_iff_policy (gmatch : Bytes → Bytes → Bool) (auth : Bool) (u : User) (m : CmdMeta) (hreg : Regular m) :
    authorize gmatch true auth u m = none ↔
      policyAllowed gmatch auth u m.comm m.cats ⟨m.readKeys, m.writeKeys, m.channels⟩ = true :=
  ⟨authorize_sound gmatch auth u m hreg, authorize_complete gmatch auth u m⟩

/-- **Every key, not one of them** (the repaired steps 8 and 9; the former classes `any-read-key-suffices`,
    `any-write-key-suffices` and `empty-read-pattern-list-allows-reads`). A command outside the pubsub category
    that passes the gate has each of its read keys matched by one of the user's read patterns and each of its
    write keys by one of the write patterns — for every user, every key vector, every `gmatch`; no hypothesis on
    the command beyond not being a handshake command. -/
theorem every_key_matches (gmatch : Bytes → Bytes → Bool) (auth : Bool) (u : User) (m : CmdMeta)
    (hex : codeExempt m.comm = false) (hp : m.cats.contains (b "pubsub") = false)
    (h : authorize gmatch true auth u m = none) :
    (∀ k ∈ m.readKeys, ∃ g ∈ u.readKeys, gmatch g k = true) ∧
    (∀ k ∈ m.writeKeys, ∃ g ∈ u.writeKeys, gmatch g k = true) := by
  obtain ⟨_, _, _, _, _, _, _, hdata⟩ := authorize_none_inv gmatch auth u m hex h
  cases hk : (m.readKeys.isEmpty && m.writeKeys.isEmpty) with
  | true =>
    simp only [Bool.and_eq_true, List.isEmpty_iff] at hk
    simp [hk.1, hk.2]
  | false =>
    obtain ⟨_, hrd, hwd⟩ := hdata hp hk
    have hr := keys_all_of_not_denied _ _ _ hrd
    have hw := keys_all_of_not_denied _ _ _ hwd
    rw [List.all_eq_true] at hr hw
    exact ⟨fun k hk => List.any_eq_true.mp (hr k hk), fun k hk => List.any_eq_true.mp (hw k hk)⟩

/-- one key outside the patterns is enough for a refusal, wherever it stands in the vector -/
theorem unmatched_read_key_refused (gmatch : Bytes → Bytes → Bool) (auth : Bool) (u : User) (m : CmdMeta) (k : Bytes)
    (hex : codeExempt m.comm = false) (hp : m.cats.contains (b "pubsub") = false)
    (hk : k ∈ m.readKeys) (hno : ∀ g ∈ u.readKeys, gmatch g k = false) :
    authorize gmatch true auth u m ≠ none := by
  intro h
  obtain ⟨g, hg, hm⟩ := (every_key_matches gmatch auth u m hex hp h).1 k hk
  rw [hno g hg] at hm
  exact absurd hm (by decide)

theorem unmatched_write_key_refused (gmatch : Bytes → Bytes → Bool) (auth : Bool) (u : User) (m : CmdMeta) (k : Bytes)
    (hex : codeExempt m.comm = false) (hp : m.cats.contains (b "pubsub") = false)
    (hk : k ∈ m.writeKeys) (hno : ∀ g ∈ u.writeKeys, gmatch g k = false) :
    authorize gmatch true auth u m ≠ none := by
  intro h
  obtain ⟨g, hg, hm⟩ := (every_key_matches gmatch auth u m hex hp h).2 k hk
  rw [hno g hg] at hm
  exact absurd hm (by decide)

/-- **An empty read-pattern list allows no read** (former class `empty-read-pattern-list-allows-reads`) -/
theorem empty_read_patterns_refuse_reads (gmatch : Bytes → Bytes → Bool) (auth : Bool) (u : User) (m : CmdMeta)
    (hex : codeExempt m.comm = false) (hp : m.cats.contains (b "pubsub") = false)
    (hu : u.readKeys = []) (hr : m.readKeys ≠ []) :
    authorize gmatch true auth u m ≠ none := by
  cases hm : m.readKeys with
  | nil => exact absurd hm hr
  | cons k r =>
    apply unmatched_read_key_refused gmatch auth u m k hex hp (by rw [hm]; exact List.mem_cons_self ..)
    intro g hg
    rw [hu] at hg
    cases hg

/-- **A disabled user is always refused** (former class `disabled-user-stays-authorized`): whatever its rules,
    whatever the command names, authenticated or not — every command but the handshake ones is refused, and the
    refusal is `unauthenticated` or `disabled`. -/
theorem disabled_user_refused (gmatch : Bytes → Bytes → Bool) (auth : Bool) (u : User) (m : CmdMeta)
    (hex : codeExempt m.comm = false) (hd : u.enabled = false) :
    authorize gmatch true auth u m = some .unauthenticated ∨ authorize gmatch true auth u m = some .disabled := by
  unfold authorize
  rw [hex, hd]
  cases auth <;> simp

/-- … at the dispatcher's gate: the connection of a user that has been switched off runs nothing -/
theorem disabled_connection_refused (a : AclState) (cid : Nat) (c : Conn) (m : CmdMeta)
    (hrp : a.requirePass = true) (hc : a.conns.get cid = some c) (hd : (a.get c.user).enabled = false)
    (hex : codeExempt m.comm = false) : aclGate a cid m ≠ none := by
  unfold aclGate
  simp only [hc, Option.getD_some, hrp]
  rcases disabled_user_refused globMatch c.authenticated (a.get c.user) m hex hd with h | h <;> rw [h] <;> simp

/-- **Switching a user off takes effect on its open connections**: after ACL SETUSER name … off on an existing
    user, every connection that was authenticated as that user — before the edit — is refused every command but
    the handshake ones, whatever the user's rules allow. -/
theorem switched_off_user_refused (a : AclState) (name : Bytes) (rules : List Bytes) (uid cid : Nat) (c : Conn) (m : CmdMeta)
    (hrp : a.requirePass = true) (hf : a.find name = some uid)
    (hc : a.conns.get cid = some c) (hcu : c.user = uid)
    (hok : (setUser a (name :: (rules ++ [b "off"]))).2 = .ok)
    (hex : codeExempt m.comm = false) :
    aclGate (setUser a (name :: (rules ++ [b "off"]))).1 cid m ≠ none := by
  have hd := setUser_off_disables a name rules uid hf hok
  have hconns : (setUser a (name :: (rules ++ [b "off"]))).1.conns = a.conns := by
    unfold setUser; simp only [hf]; split <;> rfl
  have hrp' : (setUser a (name :: (rules ++ [b "off"]))).1.requirePass = true := by
    unfold setUser; simp only [hf]; split <;> exact hrp
  apply disabled_connection_refused _ cid c m hrp' (by rw [hconns]; exact hc) (by rw [hcu]; exact hd) hex

/-- the code's extra exemption "ack" names no command of the regenerated table -/
theorem no_ack_command : (Gen.commandTable.all fun r => r.name != "ack" && r.sub != "ack") = true := by
  decide +kernel

/-- only pub/sub-category commands can name channels: every row that is not in the pubsub category
    belongs to a module other than pubsub (the channel extractors live in the pubsub module) -/
theorem channels_only_pubsub_rows :
    (Gen.commandTable.all fun r => r.cats.contains "pubsub" || r.module != "pubsub" || r.sub == "" && r.name == "pubsub") = true := by
  decide +kernel

theorem hello_not_denied (a : AclState) (cid : Nat) (cmd : List Bytes) (sha : Bytes) (d : Deny) :
    (helloHandler a cid cmd sha).2 ≠ .denied d := by
  unfold helloHandler
  repeat' split
  all_goals simp

/-- the handlers never answer with a gate refusal of their own -/
theorem handler_not_denied (a : AclState) (cid : Nat) (cmd : List Bytes) (sha : Bytes) (d : Deny) :
    (aclHandler a cid cmd sha).2 ≠ .denied d := by
  unfold aclHandler
  simp only
  repeat' split
  all_goals first | exact hello_not_denied _ _ _ _ _ | simp

/-- **A denied command has no effect** on users, rules or connection identities, and never reaches a
    handler: if the gate refuses, the state is returned unchanged — and a refusal can only come from the gate. -/
theorem denied_no_effect (a : AclState) (cid : Nat) (cmd : List Bytes) (sha : Bytes) (m : CmdMeta) (d : Deny)
    (h : (aclStep a cid cmd sha m).2 = .denied d) : (aclStep a cid cmd sha m).1 = a ∧ aclGate a cid m = some d := by
  unfold aclStep at h ⊢
  split at h
  · simp at h
  · split at h
    · simp at h
    · split at h
      · split at h <;> simp at h
      · cases hg : aclGate a cid m with
        | some d' =>
          rw [hg] at h
          simp only [AOut.denied.injEq] at h
          simp only [hg]
          rename_i h1 h2
          simp [h1, h2, h]
        | none =>
          rw [hg] at h
          exact absurd h (handler_not_denied a cid _ sha d)

/-! ### the repaired decisions on the inputs of the former findings, and non-vacuity -/

def rwUser : User := { name := b "u", inclCats := [star], inclCmds := [star], readKeys := [b "a*"], writeKeys := [b "a*"], inclChans := [star] }

/-- one matching key among several is no longer enough: MGET a1 b1 under %R~a* is refused, and the policy agrees -/
theorem mixed_read_keys_refused :
    authorize globMatch true true rwUser ⟨b "mget", [b "read"], [b "a1", b "b1"], [], []⟩ = some .readKeys ∧
    policyAllowed globMatch true rwUser (b "mget") [b "read"] ⟨[b "a1", b "b1"], [], []⟩ = false := by decide

theorem mixed_write_keys_refused :
    authorize globMatch true true rwUser ⟨b "mset", [b "write"], [], [b "a1", b "b1"], []⟩ = some .writeKeys ∧
    policyAllowed globMatch true rwUser (b "mset") [b "write"] ⟨[], [b "a1", b "b1"], []⟩ = false := by decide

/-- a disabled user's established connection is refused -/
theorem disabled_user_example :
    authorize globMatch true true { rwUser with enabled := false } ⟨b "get", [b "read"], [b "a1"], [], []⟩ = some .disabled := by decide

/-- an empty read-pattern list refuses the read -/
theorem empty_read_patterns_example :
    authorize globMatch true true { rwUser with readKeys := [] } ⟨b "get", [b "read"], [b "zzz"], [], []⟩ = some .readKeys := by decide

/-- non-vacuity of `authorize_sound`: regular commands that are allowed — one key, and several keys that all match -/
example : authorize globMatch true true rwUser ⟨b "get", [b "read"], [b "a1"], [], []⟩ = none := by decide
example : authorize globMatch true true rwUser ⟨b "mget", [b "read"], [b "a1", b "a2"], [b "a3"], []⟩ = none := by decide
example : Regular ⟨b "mget", [b "read"], [b "a1", b "a2"], [b "a3"], []⟩ := ⟨by decide, by decide, by decide⟩

/-- the hypothesis that remains is needed: a pub/sub-category command naming a key outside the patterns passes
    the gate (open finding `pubsub-category-skips-key-checks`) -/
theorem pubsub_keys_unchecked_witness :
    authorize globMatch true true rwUser ⟨b "pubsub", [b "pubsub", b "slow"], [b "zzz"], [], []⟩ = none ∧
    policyAllowed globMatch true rwUser (b "pubsub") [b "pubsub", b "slow"] ⟨[b "zzz"], [], []⟩ = false := by decide

end Sugar.Props.C06
