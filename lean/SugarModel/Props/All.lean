import SugarModel.Props.C01
import SugarModel.Props.C04
import SugarModel.Props.C06
import SugarModel.Props.C11
import SugarModel.Props.C12
import SugarModel.Props.C13
import SugarModel.Props.C19
import SugarModel.Props.C20
