import SugarModel.Props.C01
import SugarModel.Props.C04
import SugarModel.Props.C13
import SugarModel.Props.C19
import SugarModel.Props.C20
