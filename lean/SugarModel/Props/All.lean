import SugarModel.Props.C20
