/-
  Props.C07 — replication: what the dispatcher does with a client command on a cluster node, what the
  replicated state machine does with a log entry, and where replicas can end differently.
  Property theorems only; helper lemmas live in Lemmas/RaftLemmas.lean.
-/
import SugarModel.Lemmas.RaftLemmas
import SugarModel.Lemmas.NoExpiryTable
import SugarModel.Props.C20
namespace Sugar.Props.C07
open Sugar Sugar.Raft

/-! ### the dispatch decision (sugardb/modules.go:176-209) -/

/-- a replicated command on the leader goes through the raft log, whatever the forwarding setting -/
theorem dispatch_leader_sync (fwd : Bool) : dispatchCluster true true true fwd = .raftApply := by
  cases fwd <;> rfl

/-- a replicated command on a follower with forwarding enabled is handed to the leader -/
theorem dispatch_follower_forward : dispatchCluster true true false true = .forward := rfl

/-- a replicated command on a follower without forwarding is refused -/
theorem dispatch_follower_reject : dispatchCluster true true false false = .reject := rfl

/-- a command without the Sync flag is served by the node that received it, in every role -/
theorem dispatch_nosync_local (inCluster isLeader fwd : Bool) :
    dispatchCluster inCluster false isLeader fwd = .localExec := by
  cases inCluster <;> rfl

/-- a standalone server serves everything itself -/
theorem dispatch_standalone_local (sync isLeader fwd : Bool) :
    dispatchCluster false sync isLeader fwd = .localExec := rfl

/-- the dispatcher runs a command on a non-leader only if the command is not replicated -/
theorem nonleader_local_iff_nosync (sync fwd : Bool) :
    dispatchCluster true sync false fwd = .localExec ↔ sync = false := by
  cases sync <;> cases fwd <;> simp [dispatchCluster]

/-- table fact (regenerated from the Commands() tables on every run): every command the table marks as
    mutating carries the Sync flag -/
theorem mutating_rows_sync : (Gen.commandTable.all fun r => !mutating r || r.sync) = true := by
  decide +kernel

/-- **A node that is not the leader never applies a client write locally**: for every row of the command
    table that mutates a dataset, the dispatcher of a follower forwards or refuses, with or without
    forwarding. Breaks (at build time) as soon as a mutating command loses its Sync flag. -/
theorem nonleader_never_local (r : Gen.CmdRow) (hr : r ∈ Gen.commandTable) (hm : mutating r = true) (fwd : Bool) :
    dispatchCluster true r.sync false fwd ≠ .localExec := by
  have h := List.all_eq_true.mp mutating_rows_sync r hr
  simp only [hm, Bool.not_true, Bool.false_or] at h
  rw [h]
  cases fwd <;> simp [dispatchCluster]

/-- the same for a command as the client sends it (command word and sub-command resolved as getCommand /
    GetSubCommand do) -/
theorem nonleader_never_local_cmd (cmd : List Bytes) (r : Gen.CmdRow) (hr : r ∈ Gen.commandTable)
    (hf : findRow cmd = some r) (hm : mutating r = true) (fwd : Bool) :
    routeOf false fwd cmd ≠ some .localExec := by
  simp only [routeOf, hf, Option.map_some, ne_eq, Option.some.injEq]
  exact nonleader_never_local r hr hm fwd

/-- and on the leader every mutating row goes through the log -/
theorem leader_replicates_mutating (r : Gen.CmdRow) (hr : r ∈ Gen.commandTable) (hm : mutating r = true) (fwd : Bool) :
    dispatchCluster true r.sync true fwd = .raftApply := by
  have h := List.all_eq_true.mp mutating_rows_sync r hr
  simp only [hm, Bool.not_true, Bool.false_or] at h
  rw [h]
  exact dispatch_leader_sync fwd

/-- the modelled write commands are rows of the table that mutate (so the three theorems above apply to
    them), and FLUSHALL / FLUSHDB are among them -/
theorem modelled_writes_are_mutating_rows :
    ([ "set", "mset", "del", "persist", "expire", "pexpire", "expireat", "pexpireat", "incr", "decr", "incrby", "decrby",
       "incrbyfloat", "rename", "flushall", "flushdb", "getdel", "getex", "setrange", "append",
       "lpush", "lpushx", "rpush", "rpushx", "lpop", "rpop", "lset", "ltrim", "lrem", "lmove",
       "hset", "hsetnx", "hincrby", "hincrbyfloat", "hdel",
       "sadd", "srem", "smove", "spop", "sdiffstore", "sinterstore", "sunionstore" ].all fun n =>
      Gen.commandTable.any fun r => r.name == n && r.sub == "" && mutating r && r.sync) = true := by
  decide +kernel

/-- SUNION is not replicated (the node that receives it serves it) … -/
theorem sunion_served_locally (isLeader fwd : Bool) :
    routeOf isLeader fwd [b "sunion", b "s1", b "s2"] = some .localExec := by
  cases isLeader <;> cases fwd <;> decide +kernel

/-- … and its handler leaves the serving node's dataset exactly as it was — on the leader and on a follower, for
    every argument vector and every state: the union is built in a new set from what one GetValues call served.
    (Was `sunion_local_mutation_witness`, a follower that no longer agreed with the other replicas after serving
    SUNION s1 s2 — class `read-served-locally-mutates-that-replica`; repaired upstream.) -/
theorem sunion_served_locally_changes_nothing (role : Role) (c : Ctx) (cmd : List Bytes) (s : State) :
    (runCl role c (handleSUnion false c cmd) s).1 = s :=
  runCl_readOnly_state role _ c s (handleSUnion_ro c cmd)

/-- the former witness replayed: the follower that serves SUNION s1 s2 answers both members and keeps its dataset -/
theorem sunion_local_replay :
    let s : State := { dbs := [(0, ⟨[(b "s1", ⟨.set 0 [b "a"], none⟩), (b "s2", ⟨.set 0 [b "b"], none⟩)], []⟩)], mem := 0 }
    let c : Ctx := { db := 0, now := 1000, conn := some 1 }
    runCl .follower c (handleSUnion false c [b "sunion", b "s1", b "s2"]) s =
      (s, .done (.okPerm (b "*2\r\n") [b "$1\r\na\r\n", b "$1\r\nb\r\n"])) := by
  decide

/-! ### the replicated state machine (internal/raft/fsm.go:55) -/

/-- the handler of an entry runs under the *request's* database (not the applying node's, not the
    connection's), with a nil connection, through the cluster interpreter -/
theorem applyEntry_uses_request_database (role : Role) (env : Ctx) (s : State) (e : LogEntry) (p : Prog Res)
    (ha : e.cmd.all isAscii = true) (hp : progOf (entryCtx env e) e.cmd = some p) :
    applyEntry role env s e = some (runCl role (entryCtx env e) p s) ∧
      (entryCtx env e).db = e.db ∧ (entryCtx env e).conn = none := by
  refine ⟨?_, rfl, rfl⟩
  simp [applyEntry, ha, hp]

/-- **An entry for database `i` never changes database `j ≠ i`** on any replica in any role (FLUSHALL
    excepted) — the C20 frame argument carried over to the cluster interpreter; the handler programs are
    the ones C20 reasons about (`Props.C20.handlers_noFlushAll`) -/
theorem entry_isolated (role : Role) (env : Ctx) (s s' : State) (e : LogEntry) (o : COut Res) (j : Nat)
    (hj : j ≠ e.db) (hn : ¬ eqFold (e.cmd.headD []) (b "flushall") = true)
    (h : applyEntry role env s e = some (s', o)) : s'.db j = s.db j := by
  unfold applyEntry at h
  split at h
  · injection h with h; rw [← (Prod.mk.inj h).1]
  · cases hp : progOf (entryCtx env e) e.cmd with
    | none => simp [hp] at h
    | some p =>
      simp only [hp, Option.map_some, Option.some.injEq] at h
      have h1 : s' = (runCl role (entryCtx env e) p s).1 := by rw [h]
      rw [h1]
      exact runCl_frame role p (entryCtx env e) s j hj (Sugar.Props.C20.handlers_noFlushAll (entryCtx env e) e.cmd p hp hn)

/-- the program a command word outside `envSensitive` denotes does not depend on the context -/
theorem progOf_env_free (c c' : Ctx) (cmd : List Bytes) (hd : toLower (cmd.headD []) ∉ envSensitive) :
    progOf c' cmd = progOf c cmd := by
  cases cmd with
  | nil => rfl
  | cons name rest =>
    simp only [progOf]
    split
    · rfl
    · cases hh : handlerOf name with
      | none => rfl
      | some f =>
        simp only [Option.map_some, Option.some.injEq]
        exact table_env_free _ (lookupHandler_mem (toLower name) f handlerTable hh) (by simpa using hd) _ _ _

/-- **Determinism of the state machine, where it holds.** Two nodes whose environments differ in the
    resolution of Go map iteration order and in what math/rand draws (and in anything else but the clock
    reading and the configuration) compute the same state and the same answer for every entry whose
    command is outside `envSensitive` (SET with options, EXPIRE/PEXPIRE, GETEX, TTL/PTTL, SPOP, SINTER,
    SINTERCARD and the sorted-set commands that break ties by map order): the handler models of all other
    commands — SUNIONSTORE, SINTERSTORE and SDIFFSTORE among them — never read their context. -/
theorem apply_deterministic_partial (role : Role) (env env' : Ctx) (s : State) (e : LogEntry)
    (hnow : env.now = env'.now) (hcfg : env.cfg = env'.cfg)
    (hdet : toLower (e.cmd.headD []) ∉ envSensitive) :
    applyEntry role env s e = applyEntry role env' s e := by
  have hctx : entryCtx env' e = { entryCtx env e with order := env'.order, hint := env'.hint } := by
    cases env; cases env'; simp_all [entryCtx]
  unfold applyEntry
  split
  · rfl
  · have hprog : progOf (entryCtx env' e) e.cmd = progOf (entryCtx env e) e.cmd :=
      progOf_env_free _ _ _ hdet
    rw [hprog]
    cases progOf (entryCtx env e) e.cmd with
    | none => rfl
    | some p =>
      simp only [Option.map_some, Option.some.injEq]
      rw [hctx]
      exact (runCl_env role (entryCtx env e) env'.order env'.hint p s).symm

/-- lifted to logs by induction: **applying the same command log on two such nodes from the same state
    gives the same dataset** (a restarted or newly joined node converges) -/
theorem replay_deterministic_partial (role : Role) (env env' : Ctx) (hnow : env.now = env'.now) (hcfg : env.cfg = env'.cfg)
    (log : List LogEntry) (hdet : ∀ e ∈ log, toLower (e.cmd.headD []) ∉ envSensitive) :
    ∀ s, replayLog role env s log = replayLog role env' s log := by
  induction log with
  | nil => intro s; rfl
  | cons e r ih =>
    intro s
    have he := apply_deterministic_partial role env env' s e hnow hcfg (hdet e List.mem_cons_self)
    have hr := ih (fun x hx => hdet x (List.mem_cons_of_mem _ hx))
    simp only [replayLog, he]
    cases applyEntry role env' s e with
    | none => exact hr s
    | some r => exact hr r.1

/-- **Determinism without a common clock.** On a keyspace that holds no deadline, an entry whose
    command is clock-free — its word is outside `envSensitive` and outside `expirySetters` (SET with
    options, EXPIRE/PEXPIRE/EXPIREAT/PEXPIREAT, GETEX), or it is a plain `SET key value` — is applied
    to the same state with the same answer by two nodes whose environments differ in the clock
    reading, the map order and the random source (only the configuration is shared), in either role;
    and the keyspace still holds no deadline afterwards. Unlike `apply_deterministic_partial` no
    `env.now = env'.now` is assumed: the handler program never reads the clock, and the only
    primitive that does (the lazy expiry inside getValues) finds nothing to expire. -/
theorem apply_deterministic_clockfree_partial (role : Role) (env env' : Ctx) (s : State) (e : LogEntry)
    (hcfg : env.cfg = env'.cfg) (hcf : ClockFree e.cmd) (hs : s.NoDeadlines) :
    applyEntry role env s e = applyEntry role env' s e ∧
    ∀ s' o, applyEntry role env s e = some (s', o) → s'.NoDeadlines := by
  have hc : (entryCtx env e).SameButClock (entryCtx env' e) := ⟨rfl, hcfg, rfl⟩
  obtain ⟨hp, hns⟩ := progOf_clockFree (entryCtx env e) (entryCtx env' e) e.cmd hcf
  unfold applyEntry
  split
  · exact ⟨rfl, by intro s' o hx; simp only [Option.some.injEq, Prod.mk.injEq] at hx; rw [← hx.1]; exact hs⟩
  · rw [hp]
    cases hq : progOf (entryCtx env e) e.cmd with
    | none => exact ⟨rfl, by intro s' o hx; simp at hx⟩
    | some p =>
      obtain ⟨h1, h2⟩ := runCl_now_irrelevant role _ _ hc p s (hns p hq) hs
      simp only [Option.map_some, Option.some.injEq]
      refine ⟨h1, ?_⟩
      intro s' o hx
      rw [hx] at h2
      exact h2

/-- lifted to logs: **replicas with different clocks converge** — applying the same log of clock-free
    commands from the same deadline-free state on two nodes that share only the configuration gives
    the same dataset, whatever their clocks, map orders and random sources. -/
theorem replay_deterministic_clockfree_partial (role : Role) (env env' : Ctx) (hcfg : env.cfg = env'.cfg)
    (log : List LogEntry) (hcf : ∀ e ∈ log, ClockFree e.cmd) :
    ∀ s, s.NoDeadlines → replayLog role env s log = replayLog role env' s log := by
  induction log with
  | nil => intro s _; rfl
  | cons e r ih =>
    intro s hs
    obtain ⟨he, hnd⟩ := apply_deterministic_clockfree_partial role env env' s e hcfg (hcf e List.mem_cons_self) hs
    have hr := ih (fun x hx => hcf x (List.mem_cons_of_mem _ hx))
    simp only [replayLog, ← he]
    cases hx : applyEntry role env s e with
    | none => exact hr s hs
    | some r => exact hr r.1 (hnd r.1 r.2 hx)

/-- non-vacuity: a log mixing families, applied under two different clocks from the empty keyspace -/
example :
    let log : List LogEntry := [{ db := 0, cmd := [b "SET", b "k", b "v"] }, { db := 1, cmd := [b "rpush", b "l", b "x"] },
      { db := 0, cmd := [b "hset", b "h", b "f", b "1"] }, { db := 0, cmd := [b "incr", b "n"] }]
    (∀ e ∈ log, ClockFree e.cmd) ∧
    replayLog .follower { db := 0, now := 1000 } { dbs := [], mem := 0 } log ≠ { dbs := [], mem := 0 } := by
  refine ⟨?_, by decide +kernel⟩
  intro e he
  simp only [List.mem_cons, List.not_mem_nil, or_false] at he
  rcases he with rfl | rfl | rfl | rfl
  · exact Or.inr ⟨_, _, _, rfl, by decide⟩
  · exact Or.inl (by decide)
  · exact Or.inl (by decide)
  · exact Or.inl (by decide)

/-- **the set STORE forms are replicated deterministically** (were class `effect-depends-on-map-iteration-order`:
    SUNIONSTORE added the other operands' members into whichever operand a node's map iteration yielded first and
    stored that pointer, SINTERSTORE stopped at whichever absent or wrong-typed operand it met first; repaired
    upstream): two nodes that differ in map order, random source and anything but clock and configuration apply
    a SUNIONSTORE / SINTERSTORE / SDIFFSTORE entry with the same effect and the same answer -/
theorem set_store_forms_deterministic (role : Role) (env env' : Ctx) (s : State) (e : LogEntry)
    (hnow : env.now = env'.now) (hcfg : env.cfg = env'.cfg)
    (hw : toLower (e.cmd.headD []) = b "sunionstore" ∨ toLower (e.cmd.headD []) = b "sinterstore" ∨
          toLower (e.cmd.headD []) = b "sdiffstore" ∨ toLower (e.cmd.headD []) = b "sunion") :
    applyEntry role env s e = applyEntry role env' s e := by
  apply apply_deterministic_partial role env env' s e hnow hcfg
  rcases hw with h | h | h | h <;> rw [h] <;> decide

/-- the former witness of the class replayed: the log SADD k1 a; SADD k2 b; SADD k3 c; SUNIONSTORE k4 k1 k2 k3
    leaves the same dataset — operands untouched, k4 the union — on nodes that walk maps in any of the orders -/
theorem sunionstore_replicas_agree_replay :
    let log : List LogEntry := [{ db := 0, cmd := [b "sadd", b "k1", b "a"] }, { db := 0, cmd := [b "sadd", b "k2", b "b"] },
      { db := 0, cmd := [b "sadd", b "k3", b "c"] }, { db := 0, cmd := [b "sunionstore", b "k4", b "k1", b "k2", b "k3"] }]
    ∀ o, o < 6 → (replayLog .follower { db := 0, now := 1000, order := o } { dbs := [], mem := 0 } log).lookup 0 (b "k1")
        = some ⟨.set 0 [b "a"], none⟩ ∧
      (replayLog .follower { db := 0, now := 1000, order := o } { dbs := [], mem := 0 } log).lookup 0 (b "k4")
        = some ⟨.set 0 [b "a", b "b", b "c"], none⟩ := by
  decide +kernel

/-- the full statement is false: SPOP takes whatever the node's random source names -/
theorem spop_diverges_witness :
    let s : State := { dbs := [(0, ⟨[(b "k", ⟨.set 0 [b "a", b "b"], none⟩)], []⟩)], mem := 0 }
    let e : LogEntry := { db := 0, cmd := [b "spop", b "k"] }
    (applyEntry .follower { db := 0, now := 1000, hint := [b "a"] } s e).map (·.1) ≠
    (applyEntry .follower { db := 0, now := 1000, hint := [b "b"] } s e).map (·.1) := by
  decide

/-- and a relative expiry is turned into a deadline on the applying node's clock -/
theorem relative_expiry_diverges_witness :
    let s : State := { dbs := [(0, ⟨[], []⟩)], mem := 0 }
    let e : LogEntry := { db := 0, cmd := [b "set", b "k", b "v", b "ex", b "10"] }
    (applyEntry .follower { db := 0, now := 1000 } s e).map (·.1) ≠
    (applyEntry .follower { db := 0, now := 2000 } s e).map (·.1) := by
  decide

/-- non-vacuity of the determinism theorem: a write outside `envSensitive` that changes the state -/
example :
    let s : State := { dbs := [(0, ⟨[], []⟩)], mem := 0 }
    let e : LogEntry := { db := 0, cmd := [b "rpush", b "l", b "x"] }
    toLower (e.cmd.headD []) ∉ envSensitive ∧
    (applyEntry .follower { db := 0, now := 1000 } s e).map (·.1) ≠ some s := by
  decide

/-- a leader that applies an entry touching a key whose deadline has passed never answers (it waits, holding
    the store lock, for a delete entry whose apply needs that lock); a follower answers as if the key were
    absent and leaves it in place -/
theorem leader_deadlock_witness :
    let s : State := { dbs := [(0, ⟨[(b "k", ⟨.str (b "v"), some 500⟩)], [b "k"]⟩)], mem := 0 }
    let e : LogEntry := { db := 0, cmd := [b "append", b "k", b "x"] }
    (applyEntry .leader { db := 0, now := 1000 } s e).map (·.2) = some .hang ∧
    (applyEntry .follower { db := 0, now := 1000 } s e).map (·.2) ≠ some .hang := by
  decide

/-! ### forwarding (internal/memberlist) -/

/-- the entry built for a forwarded command is always for database 0 -/
theorem forwarded_entry_database_zero (connDb : Nat) (cmd : List Bytes) : (forwardedEntry connDb cmd).db = 0 := rfl

/-- so a write forwarded from a connection on database 1 does not have the effect of the same write served
    by the leader for that connection -/
theorem forwarded_loses_database_witness :
    let s : State := { dbs := [], mem := 0 }
    let cmd := [b "set", b "k", b "v"]
    (applyEntry .follower { db := 0, now := 1000 } s (forwardedEntry 1 cmd)).map (fun r => (r.1.db 0, r.1.db 1)) ≠
    (applyEntry .follower { db := 0, now := 1000 } s (leaderEntry 1 cmd)).map (fun r => (r.1.db 0, r.1.db 1)) := by
  decide

/-- two equal messages queued in one gossip interval reach the leader once -/
theorem identical_forwards_collapse (m : List Bytes) : delivered [m, m] = [m] := by
  simp [delivered, enqueue]

/-- two different messages both reach the leader, in the order they were queued -/
theorem distinct_forwards_both_delivered (m n : List Bytes) (h : m ≠ n) : delivered [m, n] = [m, n] := by
  simp [delivered, enqueue, h]

/-! ### raft snapshot -/

/-- FSM.Snapshot of a node that holds any key does not produce a snapshot: the GetState closure assigns
    into a nil inner map (or, once handleCommand has left stateMutationInProgress set, never returns) -/
theorem snapshot_of_nonempty_dataset_fails (flag : Bool) (now : Int) (s : State)
    (h : s.dbs.any (fun (_, d) => !d.store.isEmpty) = true) :
    fsmSnapshot flag now s = .panic ∨ fsmSnapshot flag now s = .spin := by
  cases flag
  · left; simp [fsmSnapshot, h]
  · right; simp [fsmSnapshot]

end Sugar.Props.C07
