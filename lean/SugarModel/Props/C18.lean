/-
  Props.C18 — Pub/Sub: exactly-once, in-order delivery to current subscribers only; confirmations; introspection.

  The theorems are about the model of internal/modules/pubsub (Model.PubSub), which the check ties to the code block
  by block (table dump, replies, everything each connection received). Where the property fails in the model the
  statement is given in its `_partial` form with the exact side condition, and a `_witness` shows the failure.
-/
import SugarModel.Lemmas.PubSubInv
import SugarModel.Lemmas.PubSubDeliver
import SugarModel.Lemmas.PubSubTable
import SugarModel.Known.PubSub
namespace Sugar.Props.C18
open Sugar Sugar.PubSub Sugar.Spec.Sub

/-! ### invariants of the table, for every history of commands -/

/-- entry names stay pairwise distinct and no entry lists a subscriber twice, whatever commands are issued on
    whatever connections (dispatchers running to completion after each command) -/
theorem table_invariant (cmds : List (Nat × List Bytes)) : Inv (run [] cmds) :=
  run_inv cmds [] ⟨List.nodup_nil, fun _ h => by simp at h⟩

/-- the same for blocks executed while the dispatchers are parked -/
theorem table_invariant_block (imm : Bool) (t : Table) (cmds : List (Nat × List Bytes)) (h : Inv t) :
    Inv (runBlock imm t cmds).1 := runBlock_inv imm cmds t h

theorem no_duplicate_subscriber (cmds : List (Nat × List Bytes)) : ∀ c ∈ run [] cmds, c.subs.Nodup :=
  (table_invariant cmds).2

/-! ### publish: who is enqueued -/

/-- PUBLISH spawns one write task per subscriber of every entry that is the channel or a pattern matching it
    (the compiled matcher), and nothing else; it changes no subscription -/
theorem publish_targets (msg ch : Bytes) (t : Table) (hq : ∀ c ∈ t, c.queue = []) :
    (dispatchAll (publish msg ch t)).2 =
      (t.filter (·.matches ch)).flatMap fun c => c.subs.map fun s => Push.message s c.name msg :=
  publish_tasks msg ch t hq

theorem publish_keeps_subscriptions (msg ch : Bytes) (t : Table) : absT (publish msg ch t) = absT t := by
  unfold absT publish
  congr 1
  induction t with
  | nil => rfl
  | cons c r ih =>
    simp only [List.map_cons, List.flatMap_cons, ih]
    congr 1
    split <;> rfl

/-- the connections written to are exactly the reference's targets (subscribed to the channel or to a pattern
    matching it), provided the compiled matcher agrees with glob semantics on the published name -/
theorem publish_receivers_partial (msg ch : Bytes) (t : Table) (s : Nat)
    (hg : ∀ c ∈ t, c.pat = true → gmatch c.name ch = gideal c.name ch) :
    (∃ p ∈ publishTasks msg ch t, p.conn = s) ↔ s ∈ targets (absT t) ch :=
  receivers_eq_targets msg ch t s hg

/-- … and a lone `?` pattern breaks the proviso: it matches the empty channel name -/
theorem publish_receivers_witness :
    let t : Table := [{ name := b "?", pat := true, subs := [1] }]
    (publishTasks (b "m") [] t).map (·.conn) = [1] ∧ targets (absT t) [] = [] := by decide

/-- exactly once: a connection that is a subscriber of at most one matching entry is written to once if it is a
    target and never otherwise (tables reachable by commands satisfy `Inv`) -/
theorem delivery_exactly_once_partial (msg ch : Bytes) (s : Nat) (t : Table) (hinv : Inv t)
    (hov : ∀ c1 ∈ t, ∀ c2 ∈ t, c1.matches ch = true → c2.matches ch = true → s ∈ c1.subs → s ∈ c2.subs → c1.name = c2.name) :
    received s (publishTasks msg ch t) = if (∃ c ∈ t, c.matches ch = true ∧ s ∈ c.subs) then 1 else 0 :=
  received_once msg ch s t hinv hov

/-- the side condition is needed: a channel and a matching pattern on one connection give two deliveries -/
theorem delivery_exactly_once_witness :
    let t : Table := [{ name := b "ab", pat := false, subs := [1] }, { name := b "a*", pat := true, subs := [1] }]
    received 1 (publishTasks (b "m") (b "ab") t) = 2 ∧ targets (absT t) (b "ab") = [1] := by decide

example : ∃ t : Table, Inv t ∧ received 1 (publishTasks (b "m") (b "a") t) = 1 :=
  ⟨[{ name := b "a", pat := false, subs := [1] }], ⟨by unfold NamesDistinct; decide, by intro c hc; simp at hc; subst hc; decide⟩, by decide⟩

/-! ### delivery order -/

/-- if the write tasks of an entry run in the order the dispatcher spawned them, every subscriber reads the
    messages in the order they were published -/
theorem delivery_fifo_partial (c : Chan) (s : Nat) (hn : c.subs.Nodup) (hs : s ∈ c.subs) :
    payloadsFor s c.tasks = c.queue := payloads_in_spawn_order c s hn hs

/-- but the write tasks are independent goroutines: an admissible schedule delivers two messages of one publisher to
    one channel in the opposite order -/
theorem delivery_fifo_witness :
    let c : Chan := { name := b "a", pat := false, subs := [1], queue := [b "m1", b "m2"] }
    ∃ obs : Nat → List Push, Admissible c.tasks obs ∧
      fifoOk [⟨0, b "a", b "m1"⟩, ⟨0, b "a", b "m2"⟩] ((obs 1).filterMap msgOf) = false := by
  intro c
  refine ⟨fun k => (c.tasks.filter (·.conn == k)).reverse, fun k => List.reverse_perm _, by decide⟩

/-- the dispatcher reads the subscribers when it dequeues: a connection subscribing after the publish returned still
    gets the message (the reference delivers to connection 1 only) -/
theorem inflight_race_witness :
    let t : Table := [{ name := b "a", pat := false, subs := [1] }]
    let cmds : List (Nat × List Bytes) := [(0, [b "PUBLISH", b "a", b "m"]), (2, [b "SUBSCRIBE", b "a"])]
    ((runBlock false t cmds).2.2.2).map (·.conn) = [1, 2] ∧ targets (absT t) (b "a") = [1] := by decide

/-! ### subscribe -/

/-- every argument is confirmed exactly once, in order, carrying its position (a command that is not refused:
    SUBSCRIBE always, PSUBSCRIBE when every pattern compiles — `subscribe_refused_iff`) -/
theorem subscribe_confirms_each_once (conn : Nat) (wp : Bool) (names : List Bytes) (t : Table)
    (h : (subscribe conn wp names t).2.2 = false) :
    (subscribe conn wp names t).2.1 = (names.zipIdx 0).map fun x => Push.confirm conn (action wp false) x.1 (x.2 + 1) := by
  rw [(subscribe_accepted conn wp names t h).2, subscribeLoop_confirms conn wp names 0 t []]
  simp

/-- after (P)SUBSCRIBE the connection is a subscriber of an entry of each name -/
theorem subscribe_then_listed (conn : Nat) (wp : Bool) (names : List Bytes) (t : Table)
    (h : (subscribe conn wp names t).2.2 = false) :
    ∀ n ∈ names, ∃ c ∈ (subscribe conn wp names t).1, c.name = n ∧ conn ∈ c.subs := by
  rw [(subscribe_accepted conn wp names t h).1]
  exact subscribeLoop_listed conn wp names 0 t []

/-- … and that entry has the kind of the command unless the name is already taken by the other kind -/
theorem subscribe_kind_partial (conn : Nat) (wp : Bool) (names : List Bytes) (t : Table)
    (h : ∀ c ∈ t, c.name ∈ names → c.pat = wp) :
    ∀ c ∈ (subscribe conn wp names t).1, c.name ∈ names → c.pat = wp := by
  intro c hc hn
  unfold subscribe at hc
  split at hc
  · exact h c hc hn
  · have := subscribeLoop_kind conn wp names names 0 t [] (by
      intro x hx hxa
      unfold kinds at hx
      simp only [List.mem_map] at hx
      obtain ⟨c, hc, rfl⟩ := hx
      exact h c hc hxa) (c.name, c.pat) (by unfold kinds; exact List.mem_map.2 ⟨c, hc, rfl⟩) hn
    exact this

/-- PSUBSCRIBE to a name held by a plain channel joins the plain channel: no pattern subscription exists afterwards -/
theorem subscribe_kind_witness :
    let t : Table := [{ name := b "a*", pat := false, subs := [1] }]
    absT (subscribe 2 true [b "a*"] t).1 = [⟨1, false, b "a*"⟩, ⟨2, false, b "a*"⟩] := by decide

/-- the confirmation carries the running subscription count exactly when `countMismatch` is false … -/
theorem confirm_counts_partial (conn : Nat) (wp : Bool) (names : List Bytes) (t : Table)
    (h : (subscribe conn wp names t).2.2 = false) (hc : Known.PubSub.countMismatch t conn wp names = false) :
    (subscribe conn wp names t).2.1 = (subscribeSpec conn wp names (absT t) []).2 := by
  rw [subscribe_confirms_each_once conn wp names t h]
  unfold Known.PubSub.countMismatch at hc
  simp only [bne_eq_false_iff_eq] at hc
  have e : (List.map (fun x => Push.confirm conn (action wp false) x.1 (x.2 + 1)) (names.zipIdx 0))
      = List.map (fun x : Bytes × Nat => match x with | (n, i) => Push.confirm conn (action wp false) n (i + 1)) names.zipIdx := by
    apply List.map_congr_left
    intro x _
    obtain ⟨n, i⟩ := x
    rfl
  rw [e]
  exact hc.symm

/-- … which fails as soon as the connection already holds a subscription -/
theorem confirm_counts_witness :
    let t : Table := [{ name := b "a", pat := false, subs := [1] }]
    (subscribe 1 false [b "b"] t).2.1 = [.confirm 1 (b "subscribe") (b "b") 1] ∧
    (subscribeSpec 1 false [b "b"] (absT t) []).2 = [.confirm 1 (b "subscribe") (b "b") 2] := by decide

example : Known.PubSub.countMismatch [] 1 false [b "a", b "b"] = false := by decide

/-! ### unsubscribe -/

/-- after (P)UNSUBSCRIBE the connection is a subscriber of no entry called like one of the arguments -/
theorem unsubscribe_removes (conn : Nat) (wp : Bool) (names : List Bytes) (t : Table) (hinv : Inv t) :
    ∀ c ∈ (unsubscribe conn wp names t).1, c.name ∈ names → conn ∉ c.subs :=
  unsubscribe_removed conn wp names t hinv

/-- it removes too much: UNSUBSCRIBE cancels a pattern subscription of that name … -/
theorem unsubscribe_kind_witness :
    let t : Table := [{ name := b "a*", pat := true, subs := [1] }]
    absT (unsubscribe 1 false [b "a*"] t).1 = [] := by decide

/-- … and PUNSUBSCRIBE cancels channel subscriptions whose names match the pattern -/
theorem punsubscribe_witness :
    let t : Table := [{ name := b "ab", pat := false, subs := [1] }]
    absT (unsubscribe 1 true [b "a*"] t).1 = [] ∧ (unsubscribe 1 true [b "a*"] t).2 = [b "ab"] := by decide

/-- the count in an unsubscribe confirmation is the ordinal of the removal, not the number of subscriptions left -/
theorem unsubscribe_count_witness :
    let t : Table := [{ name := b "a", pat := false, subs := [1] }, { name := b "b", pat := false, subs := [1] }, { name := b "c", pat := false, subs := [1] }]
    (unsubscribe 1 false [b "a"] t).2 = [b "a"] ∧ countOf (absT (unsubscribe 1 false [b "a"] t).1) 1 = 2 := by decide

/-! ### introspection is a function of the table -/

theorem numSubOf_publish (msg ch n : Bytes) (t : Table) : numSubOf (publish msg ch t) n = numSubOf t n := by
  unfold numSubOf publish
  induction t with
  | nil => rfl
  | cons c r ih =>
    have hname : (if c.matches ch then { c with queue := c.queue ++ [msg] } else c).name = c.name := by split <;> rfl
    have hsubs : (if c.matches ch then { c with queue := c.queue ++ [msg] } else c).subs = c.subs := by split <;> rfl
    simp only [List.map_cons, List.find?_cons, hname]
    cases h : (c.name == n) with
    | true => simp only [hsubs]
    | false => exact ih

/-- PUBLISH (queue contents) never changes what PUBSUB CHANNELS / NUMPAT / NUMSUB answer -/
theorem introspection_ignores_queues (msg ch p : Bytes) (names : List Bytes) (t : Table) :
    channelsReply p (publish msg ch t) = channelsReply p t ∧ numPat (publish msg ch t) = numPat t ∧
    numSubReply names (publish msg ch t) = numSubReply names t := by
  have key : ∀ (f : Chan → Bool), (∀ c : Chan, f (if c.matches ch then { c with queue := c.queue ++ [msg] } else c) = f c) →
      ((publish msg ch t).filter f).map (·.name) = (t.filter f).map (·.name) := by
    intro f hf
    unfold publish
    induction t with
    | nil => rfl
    | cons c r ih =>
      simp only [List.map_cons, List.filter_cons, hf c]
      split
      · simp only [List.map_cons, ih]
        congr 1
        split <;> rfl
      · exact ih
  have hact : ∀ c : Chan, (if c.matches ch then { c with queue := c.queue ++ [msg] } else c).active = c.active := by
    intro c; split <;> rfl
  have hname : ∀ c : Chan, (if c.matches ch then { c with queue := c.queue ++ [msg] } else c).name = c.name := by
    intro c; split <;> rfl
  have hpat : ∀ c : Chan, (if c.matches ch then { c with queue := c.queue ++ [msg] } else c).pat = c.pat := by
    intro c; split <;> rfl
  have hsubs : ∀ c : Chan, (if c.matches ch then { c with queue := c.queue ++ [msg] } else c).subs = c.subs := by
    intro c; split <;> rfl
  refine ⟨?_, ?_, ?_⟩
  · unfold channelsReply channelsList
    split
    · rw [key _ hact]
    · rw [key _ (fun c => by simp only [hact, hname, hpat])]
  · unfold numPat
    have := key (fun c => c.pat && c.active) (fun c => by simp only [hact, hpat])
    have := congrArg List.length this
    simpa using this
  · have hn : ∀ n : Bytes, numSubOf (publish msg ch t) n = numSubOf t n := fun n => numSubOf_publish msg ch n t
    unfold numSubReply
    simp only [hn]

/-- NUMSUB of a plain channel is the size of its subscriber set (names are distinct in reachable tables) -/
theorem numsub_correct_partial (t : Table) (c : Chan) (hc : c ∈ t) (hd : NamesDistinct t) :
    numSubOf t c.name = c.subs.length := by
  unfold numSubOf
  induction t with
  | nil => simp at hc
  | cons x r ih =>
    unfold NamesDistinct at hd
    simp only [List.map_cons, List.nodup_cons] at hd
    simp only [List.find?_cons]
    by_cases hx : (x.name == c.name) = true
    · simp only [hx]
      simp at hc
      rcases hc with rfl | hc
      · rfl
      · exfalso
        apply hd.1
        have : x.name = c.name := by simpa using hx
        rw [this]
        exact List.mem_map.2 ⟨c, hc, rfl⟩
    · simp only [hx]
      simp at hc
      rcases hc with rfl | hc
      · simp at hx
      · exact ih hc hd.2

/-- … but the lookup ignores the kind: a subscribed pattern is reported as a channel with subscribers -/
theorem numsub_witness :
    let t : Table := [{ name := b "a*", pat := true, subs := [1, 2] }]
    numSubOf t (b "a*") = 2 ∧ (absT t).filter (fun s => !s.pat && s.name == b "a*") = [] := by decide

/-- NUMPAT counts the pattern entries with subscribers -/
theorem numpat_correct (t : Table) : numPat t = ((t.filter (·.pat)).filter (·.active)).length := by
  unfold numPat
  rw [List.filter_filter]
  congr 1
  apply List.filter_congr
  intro c _
  exact Bool.and_comm _ _

/-! ### the pattern matcher -/

/-- the pattern `*` matches every channel name -/
theorem glob_star_matches_everything (s : Bytes) : gmatch (b "*") s = true := by
  have h : parsePat (b "*") = some [Tok.any] := by decide
  have hk : ∀ s : Bytes, starK (matchT []) s = true := by
    intro s
    induction s with
    | nil => rfl
    | cons c r ih => unfold starK; rw [ih]; simp
  unfold gmatch
  rw [h]
  cases s with
  | nil => rfl
  | cons c r => exact hk (c :: r)

/-- the compiled matcher departs from glob semantics on the empty name: a lone `?` accepts it -/
theorem glob_lone_wildcard_witness : gmatch (b "?") [] = true ∧ gideal (b "?") [] = false := by decide

/-! ### a pattern that does not compile (`glob.Compile` answers an error) -/

theorem exec_never_panics (t : Table) (conn : Nat) (c : Cmd) : (exec t conn c).out ≠ .panic := by
  cases c with
  | sub wp args => simp only [exec]; repeat' split
                   all_goals (intro h; cases h)
  | unsub wp args => intro h; cases h
  | publish args => simp only [exec]; split <;> (intro h; cases h)
  | pubsub name args => simp only [exec]; repeat' split
                        all_goals (intro h; cases h)
  | other => intro h; cases h

/-- **No command makes a pub/sub handler panic**, whatever the table, the connection and the argument bytes —
    in particular no malformed pattern does (`glob.MustCompile` on the client's argument used to: class
    `malformed-pattern-panics`, repaired upstream). -/
theorem malformed_pattern_never_panics (t : Table) (conn : Nat) (cmd : List Bytes) : (step t conn cmd).out ≠ .panic := by
  unfold step
  split
  · intro h; cases h
  · exact exec_never_panics t conn _

/-- … so the classifier's panic test is constantly false: the class `malformed-pattern-panics` is never named -/
theorem model_never_panics (t : Table) (conn : Nat) (cmd : List Bytes) : Known.PubSub.modelPanics t conn cmd = false := by
  unfold Known.PubSub.modelPanics
  split
  · rename_i h; exact absurd h (malformed_pattern_never_panics t conn cmd)
  · rfl

/-- **PSUBSCRIBE with a pattern that does not compile is refused as a whole**: the reply is the error, the table is
    untouched, nothing is confirmed — also for the arguments before the offending one, on every connection
    (the embedded caller included). -/
theorem psubscribe_malformed_refused (t : Table) (conn : Nat) (args : List Bytes)
    (h : args.any (fun a => !compiles a) = true) :
    (exec t conn (.sub true args)).table = t ∧ (exec t conn (.sub true args)).pushes = [] ∧
    (match (exec t conn (.sub true args)).out with
     | .err m => m == invalidPattern
     | _ => false) = true := by
  have hne : args.isEmpty = false := by
    cases args with
    | nil => simp at h
    | cons a r => rfl
  have hr : (subscribe conn true args t).2.2 = true := by rw [subscribe_refused_iff]; simp [h]
  simp only [exec, hne, hr, Bool.false_eq_true, if_false, if_true]
  decide

/-- a PSUBSCRIBE all of whose patterns compile is never refused, and SUBSCRIBE never is -/
theorem subscribe_accepted_iff (conn : Nat) (wp : Bool) (names : List Bytes) (t : Table) :
    (subscribe conn wp names t).2.2 = false ↔ (wp = false ∨ ∀ n ∈ names, compiles n = true) := by
  rw [subscribe_refused_iff]
  cases wp <;> simp

/-- **PUNSUBSCRIBE treats a pattern that does not compile as one that matches no name**: the glob pass skips it
    (the exact-name pass has already dealt with an entry called like it), and the command is answered with its
    confirmations like any other. -/
theorem punsubscribe_malformed_matches_nothing (conn : Nat) (p : Bytes) (r : List Bytes) (t : Table) (acc : List Bytes)
    (h : compiles p = false) : unsubGlobs conn (p :: r) t acc = unsubGlobs conn r t acc := by
  rw [unsubGlobs]; simp [h]

theorem punsubscribe_answers (t : Table) (conn : Nat) (args : List Bytes) :
    ∃ names, (exec t conn (.unsub true args)).out = .unsubReply (b "punsubscribe") names :=
  ⟨_, rfl⟩

/-- **PUBSUB CHANNELS with a pattern that does not compile answers the error** and changes nothing -/
theorem pubsub_channels_malformed_error (t : Table) (conn : Nat) (name p : Bytes) (hp : p.isEmpty = false)
    (h : compiles p = false) :
    (exec t conn (.pubsub name [b "channels", p])).table = t ∧
    (match (exec t conn (.pubsub name [b "channels", p])).out with
     | .err m => m == invalidPattern
     | _ => false) = true := by
  have l : toLower (b "channels") = b "channels" := by decide
  simp [exec, l, hp, h]

/-- non-vacuity: `[` does not compile; PSUBSCRIBE a [ on connection 1 answers the error and subscribes nothing (not
    even `a`); PUNSUBSCRIBE [ and PUBSUB CHANNELS [ are answered -/
example : compiles (b "[") = false := by decide
example : (step [] 1 [b "PSUBSCRIBE", b "a", b "["]).table = [] ∧
    (match (step [] 1 [b "PSUBSCRIBE", b "a", b "["]).out with
     | .err m => m == b "invalid glob pattern"
     | _ => false) = true := by decide
example : (match (step [{ name := b "[", pat := false, subs := [1] }] 1 [b "PUNSUBSCRIBE", b "["]).out with
     | .unsubReply _ names => names == [b "["]
     | _ => false) = true := by decide
example : (match (step [] 0 [b "PUBSUB", b "CHANNELS", b "["]).out with
     | .err m => m == b "invalid glob pattern"
     | _ => false) = true := by decide

end Sugar.Props.C18
