/-
  Props.C01 — the keyspace as a sequential typed map: read-your-writes laws of the model's SET / GET /
  DEL / INCR / STRLEN handlers over arbitrary states, and witnesses of the inputs on which the full
  statement fails (each one a class of Known.lean, replayed on the implementation by the check).
-/
import SugarModel.Lemmas.Kv
import SugarModel.Lemmas.ReadOnly
namespace Sugar.Props.C01
open Sugar

/-- key `k` is not "stored but expired" (the `expired-key-still-exists` class) -/
def NotStale (c : Ctx) (s : State) (k : Bytes) : Prop := ∀ e, s.lookup c.db k = some e → e.expired c.now = false

/-- **A read returns the last write, byte for byte.** For every state, key and value that AdaptType
    leaves a string, `SET k v` answers OK and a following `GET k` answers exactly the bytes `v`
    (no memory limit, key not stale). -/
theorem get_after_set (c : Ctx) (s : State) (k v : Bytes) (hm : c.cfg.maxMemory = 0)
    (hv : adaptType v = .str v) (hk : NotStale c s k) :
    ((handleSet c [b "set", k, v]).run c s).2 = .done (.ok okReply) ∧
    ((handleGet c [b "get", k]).run c ((handleSet c [b "set", k, v]).run c s).1).2 = .done (.ok (simpleStr v)) := by
  obtain ⟨hs1, hs2, _⟩ := setValues_single c s k (.str v) hm
  have hrun : (handleSet c [b "set", k, v]).run c s = ((setValues c s [(k, .str v)]).1, .done (.ok okReply)) := by
    simp [handleSet, getSetCommandOptions, adaptOr, hv, Adapted.toVal?, setOrErr, hs1, b_XX_ne_nil, b_NX_ne_nil]
  rw [hrun]
  refine ⟨rfl, ?_⟩
  simp only
  have hexp : (⟨Val.str v, (s.lookup c.db k).bind (·.exp)⟩ : Entry).expired c.now = false := by
    cases h : s.lookup c.db k with
    | none => simp [Entry.expired]
    | some e0 =>
      have := hk e0 h
      simp only [Option.bind_some]
      simpa [Entry.expired] using this
  simp [handleGet, keysExist_single, hs2, getValues_live _ _ _ _ hs2 hexp, plusV, Val.fmtV]

/-- a write to `k` leaves every other key of the database as it was -/
theorem set_frames_other_keys (c : Ctx) (s : State) (k v k2 : Bytes) (hm : c.cfg.maxMemory = 0)
    (hv : adaptType v = .str v) (hne : k ≠ k2) :
    ((handleSet c [b "set", k, v]).run c s).1.lookup c.db k2 = s.lookup c.db k2 := by
  obtain ⟨hs1, _, hs3⟩ := setValues_single c s k (.str v) hm
  have hrun : (handleSet c [b "set", k, v]).run c s = ((setValues c s [(k, .str v)]).1, .done (.ok okReply)) := by
    simp [handleSet, getSetCommandOptions, adaptOr, hv, Adapted.toVal?, setOrErr, hs1, b_XX_ne_nil, b_NX_ne_nil]
  rw [hrun]
  exact hs3 k2 hne

/-- **A deleted key reads as absent.** -/
theorem get_after_del (c : Ctx) (s : State) (k : Bytes) :
    ((handleGet c [b "get", k]).run c ((handleDel c [b "del", k]).run c s).1).2 = .done (.ok nilBulk) := by
  have hl : ((handleDel c [b "del", k]).run c s).1.lookup c.db k = none := by
    cases h : s.lookup c.db k with
    | none =>
      simp [handleDel, keysExist_single, h, delEach]
    | some e =>
      simp [handleDel, keysExist_single, h, delEach, lookup_deleteKey]
  simp [handleGet, keysExist_single, hl]

/-- **A never-written key reads as absent** -/
theorem get_absent (c : Ctx) (s : State) (k : Bytes) (h : s.lookup c.db k = none) :
    (handleGet c [b "get", k]).run c s = (s, .done (.ok nilBulk)) := by
  simp [handleGet, keysExist_single, h]

/-- **Counters obey integer arithmetic** (integer-typed value, result inside the 64-bit range):
    INCR answers n + 1 and stores its decimal text -/
theorem incr_arith (c : Ctx) (s : State) (k : Bytes) (n : Int) (ex : Option Int) (hm : c.cfg.maxMemory = 0)
    (h : s.lookup c.db k = some ⟨.int n, ex⟩) (hlive : (⟨.int n, ex⟩ : Entry).expired c.now = false)
    (hr : minInt64 ≤ n + 1 ∧ n + 1 ≤ maxInt64) :
    ((handleIncr c [b "incr", k]).run c s).2 = .done (.ok (intReply (n + 1))) ∧
    ((handleIncr c [b "incr", k]).run c s).1.lookup c.db k = some ⟨.str (fmtInt (n + 1)), ex⟩ := by
  have hw : wrap64 (n + 1) = n + 1 := by
    unfold wrap64 minInt64 maxInt64 at *
    simp only
    split <;> omega
  obtain ⟨hs1, hs2, _⟩ := setValues_single c s k (.str (fmtInt (n + 1))) hm
  simp [handleIncr, incrCore, getValues_live _ _ _ _ h hlive, hw, setOrErr, hs1, hs2, h]

/-- **Wrong type fails and changes nothing** (STRLEN on a list) -/
theorem strlen_wrongtype (c : Ctx) (s : State) (k : Bytes) (xs : List Bytes) (ex : Option Int)
    (h : s.lookup c.db k = some ⟨.list xs, ex⟩) (hlive : (⟨.list xs, ex⟩ : Entry).expired c.now = false) :
    (handleStrLen c [b "strlen", k]).run c s = (s, .done (.err (b "value at key " ++ k ++ b " is not a string"))) := by
  simp [handleStrLen, keysExist_single, h, getValues_live _ _ _ _ h hlive]

/-- invalid arguments fail before any primitive is called: arity errors of the whole family leave the
    state untouched -/
theorem arity_error_no_change (c : Ctx) (s : State) :
    (handleGet c [b "get"]).run c s = (s, .done (.err wrongArgs)) ∧
    (handleSet c [b "set", b "k"]).run c s = (s, .done (.err wrongArgs)) ∧
    (handleIncr c [b "incr"]).run c s = (s, .done (.err wrongArgs)) ∧
    (handleRename c [b "rename", b "a"]).run c s = (s, .done (.err wrongArgs)) := by
  refine ⟨?_, ?_, ?_, ?_⟩ <;> simp [handleGet, handleSet, handleIncr, handleRename]

/-! ### where the full statement fails (model witnesses; each is a class of Known.lean) -/

/-- numeric-looking text is rewritten: SET k 007; GET k answers 7 -/
theorem numeric_text_rewritten_witness :
    let c : Ctx := { db := 0, now := 1000 }
    ((handleGet c [b "get", b "k"]).run c ((handleSet c [b "set", b "k", b "007"]).run c { dbs := [], mem := 0 }).1).2
      = .done (.ok (b "+7\r\n")) := by decide

/-- **RENAME of a key onto itself keeps it** (repaired in /repo by a `fix:` commit; before it the key was
    set and then deleted): for every state and every live key the state is unchanged and the reply is OK -/
theorem rename_self_keeps (c : Ctx) (s : State) (k : Bytes) (e : Entry)
    (h : s.lookup c.db k = some e) (hlive : e.expired c.now = false) (hv : e.val ≠ .nil) :
    (handleRename c [b "rename", k, k]).run c s = (s, .done (.ok okReply)) := by
  have hg := getValues_live c s k e h hlive
  simp only [handleRename, run_call, Prim.exec, hg]
  cases hval : e.val <;> simp_all [Prog.run]

example :
    let c : Ctx := { db := 0, now := 1000 }
    let s : State := { dbs := [(0, ⟨[(b "k", ⟨.str (b "v"), none⟩)], []⟩)], mem := 57 }
    ((handleRename c [b "rename", b "k", b "k"]).run c s).1.lookup 0 (b "k") = some ⟨.str (b "v"), none⟩ := by decide

/-- GETRANGE with start beyond the string panics -/
theorem getrange_panics_witness :
    let c : Ctx := { db := 0, now := 1000 }
    let s : State := { dbs := [(0, ⟨[(b "k", ⟨.str (b "abc"), none⟩)], []⟩)], mem := 60 }
    ((handleSubStr c [b "getrange", b "k", b "5", b "10"]).run c s).2 = .panic "slice bounds out of range" := by decide

/-- a stale key is still "there": SET k v NX is refused on a key whose deadline has passed -/
theorem stale_key_refuses_nx_witness :
    let c : Ctx := { db := 0, now := 2000 }
    let s : State := { dbs := [(0, ⟨[(b "k", ⟨.str (b "old"), some 1500⟩)], [b "k"]⟩)], mem := 59 }
    ((handleSet c [b "set", b "k", b "new", b "nx"]).run c s).2 = .done (.err (b "key k already exists")) := by decide

end Sugar.Props.C01
