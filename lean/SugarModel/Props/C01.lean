/-
  Props.C01 — the keyspace as a sequential typed map: read-your-writes laws of the model's SET / GET /
  DEL / INCR / STRLEN / GETEX PERSIST / GETRANGE / MGET / SETRANGE handlers over arbitrary states, and witnesses
  of the inputs on which the full statement fails (each one a class of Known.lean, replayed on the
  implementation by the check).
-/
import SugarModel.Lemmas.Kv
import SugarModel.Lemmas.ReadOnly
import SugarModel.Lemmas.RespWF
import SugarModel.Lemmas.HashLemmas
namespace Sugar.Props.C01
open Sugar

/-- key `k` is not "stored but expired" (the `expired-key-still-exists` class) -/
def NotStale (c : Ctx) (s : State) (k : Bytes) : Prop := ∀ e, s.lookup c.db k = some e → e.expired c.now = false

/-- **A read returns the last write, byte for byte.** For every state, key and value that AdaptType
    leaves a string, `SET k v` answers OK and a following `GET k` answers exactly the bytes `v`
    (no memory limit, key not stale). -/
theorem get_after_set (c : Ctx) (s : State) (k v : Bytes) (hm : c.cfg.maxMemory = 0)
    (hv : adaptType v = .str v) (hk : NotStale c s k) :
    ((handleSet c [b "set", k, v]).run c s).2 = .done (.ok okReply) ∧
    ((handleGet c [b "get", k]).run c ((handleSet c [b "set", k, v]).run c s).1).2 = .done (.ok (simpleStr v)) := by
  obtain ⟨hs1, hs2, _⟩ := setValues_single c s k (.str v) hm
  have hrun : (handleSet c [b "set", k, v]).run c s = ((setValues c s [(k, .str v)]).1, .done (.ok okReply)) := by
    simp [handleSet, getSetCommandOptions, adaptOr, hv, Adapted.toVal?, setOrErr, hs1, b_XX_ne_nil, b_NX_ne_nil]
  rw [hrun]
  refine ⟨rfl, ?_⟩
  simp only
  have hexp : (⟨Val.str v, (s.lookup c.db k).bind (·.exp)⟩ : Entry).expired c.now = false := by
    cases h : s.lookup c.db k with
    | none => simp [Entry.expired]
    | some e0 =>
      have := hk e0 h
      simp only [Option.bind_some]
      simpa [Entry.expired] using this
  simp [handleGet, keysExist_single, hs2, getValues_live _ _ _ _ hs2 hexp, plusV, Val.fmtV]

/-- a write to `k` leaves every other key of the database as it was -/
theorem set_frames_other_keys (c : Ctx) (s : State) (k v k2 : Bytes) (hm : c.cfg.maxMemory = 0)
    (hv : adaptType v = .str v) (hne : k ≠ k2) :
    ((handleSet c [b "set", k, v]).run c s).1.lookup c.db k2 = s.lookup c.db k2 := by
  obtain ⟨hs1, _, hs3⟩ := setValues_single c s k (.str v) hm
  have hrun : (handleSet c [b "set", k, v]).run c s = ((setValues c s [(k, .str v)]).1, .done (.ok okReply)) := by
    simp [handleSet, getSetCommandOptions, adaptOr, hv, Adapted.toVal?, setOrErr, hs1, b_XX_ne_nil, b_NX_ne_nil]
  rw [hrun]
  exact hs3 k2 hne

/-- **A deleted key reads as absent.** -/
theorem get_after_del (c : Ctx) (s : State) (k : Bytes) :
    ((handleGet c [b "get", k]).run c ((handleDel c [b "del", k]).run c s).1).2 = .done (.ok nilBulk) := by
  have hl : ((handleDel c [b "del", k]).run c s).1.lookup c.db k = none := by
    cases h : s.lookup c.db k with
    | none =>
      simp [handleDel, keysExist_single, h, delEach]
    | some e =>
      simp [handleDel, keysExist_single, h, delEach, lookup_deleteKey]
  simp [handleGet, keysExist_single, hl]

/-- **A never-written key reads as absent** -/
theorem get_absent (c : Ctx) (s : State) (k : Bytes) (h : s.lookup c.db k = none) :
    (handleGet c [b "get", k]).run c s = (s, .done (.ok nilBulk)) := by
  simp [handleGet, keysExist_single, h]

/-- the integer a stored value counts as under INCR / DECR / INCRBY / DECRBY: an integer-typed value, or a
    string that is the decimal text of a 64-bit integer -/
def counterOf : Val → Option Int
  | .int n => some n
  | .str t => parseInt64 t
  | _ => none

/-- **The common body of the counter commands obeys integer arithmetic** (repaired in /repo by a `fix:`
    commit; before it an out-of-range result wrapped around). For every state and every live key holding a
    counter `n`: when `f n` lies inside the 64-bit range the reply is `f n`, the key holds its decimal text
    under its old deadline and no other key changes; when it lies outside, the command answers the overflow
    error and **the state is unchanged**. -/
theorem incrCore_arith (c : Ctx) (s : State) (k : Bytes) (v : Val) (n : Int) (ex : Option Int) (absent : Int) (f : Int → Int)
    (hm : c.cfg.maxMemory = 0)
    (h : s.lookup c.db k = some ⟨v, ex⟩) (hlive : (⟨v, ex⟩ : Entry).expired c.now = false) (hn : counterOf v = some n) :
    (minInt64 ≤ f n ∧ f n ≤ maxInt64 →
      ((incrCore k absent f).run c s).2 = .done (.ok (intReply (f n))) ∧
      ((incrCore k absent f).run c s).1.lookup c.db k = some ⟨.str (fmtInt (f n)), ex⟩ ∧
      ∀ k2, k ≠ k2 → ((incrCore k absent f).run c s).1.lookup c.db k2 = s.lookup c.db k2) ∧
    (¬ (minInt64 ≤ f n ∧ f n ≤ maxInt64) →
      (incrCore k absent f).run c s = (s, .done (.err overflowErr))) := by
  obtain ⟨hs1, hs2, hs3⟩ := setValues_single c s k (.str (fmtInt (f n))) hm
  have hg := getValues_live c s k _ h hlive
  constructor
  · intro hr
    have h1 : ¬ (f n < minInt64) := by omega
    have h2 : ¬ (f n > maxInt64) := by omega
    cases v with
    | int m =>
      simp only [counterOf, Option.some.injEq] at hn; subst hn
      simp [incrCore, hg, setOrErr, hs1, hs2, h, h1, h2]
      exact hs3
    | str t =>
      simp only [counterOf] at hn
      simp [incrCore, hg, hn, setOrErr, hs1, hs2, h, h1, h2]
      exact hs3
    | _ => simp [counterOf] at hn
  · intro hr
    have h1 : f n < minInt64 ∨ f n > maxInt64 := by omega
    cases v with
    | int m =>
      simp only [counterOf, Option.some.injEq] at hn; subst hn
      simp [incrCore, hg, h1]
    | str t =>
      simp only [counterOf] at hn
      simp [incrCore, hg, hn, h1]
    | _ => simp [counterOf] at hn

/-- **Counters obey integer arithmetic: INCR.** For every state and every live key holding a counter `n`
    (integer-typed or decimal text): below the largest int64, INCR answers `n + 1` and stores its decimal text
    (deadline kept); on the largest int64 it answers the overflow error and changes nothing. -/
theorem incr_arith (c : Ctx) (s : State) (k : Bytes) (v : Val) (n : Int) (ex : Option Int) (hm : c.cfg.maxMemory = 0)
    (h : s.lookup c.db k = some ⟨v, ex⟩) (hlive : (⟨v, ex⟩ : Entry).expired c.now = false) (hn : counterOf v = some n)
    (hlo : minInt64 ≤ n) :
    (n + 1 ≤ maxInt64 →
      ((handleIncr c [b "incr", k]).run c s).2 = .done (.ok (intReply (n + 1))) ∧
      ((handleIncr c [b "incr", k]).run c s).1.lookup c.db k = some ⟨.str (fmtInt (n + 1)), ex⟩) ∧
    (maxInt64 < n + 1 → (handleIncr c [b "incr", k]).run c s = (s, .done (.err overflowErr))) := by
  obtain ⟨a1, a2⟩ := incrCore_arith c s k v n ex 1 (· + 1) hm h hlive hn
  have hmin : minInt64 ≤ n + 1 := by omega
  refine ⟨fun hr => ?_, fun hr => ?_⟩
  · obtain ⟨r1, r2, _⟩ := a1 ⟨hmin, hr⟩
    exact ⟨by simpa [handleIncr] using r1, by simpa [handleIncr] using r2⟩
  · simpa [handleIncr] using a2 (by omega)

/-- **DECR** likewise: above the smallest int64 it answers `n - 1`; on the smallest it fails, nothing changes -/
theorem decr_arith (c : Ctx) (s : State) (k : Bytes) (v : Val) (n : Int) (ex : Option Int) (hm : c.cfg.maxMemory = 0)
    (h : s.lookup c.db k = some ⟨v, ex⟩) (hlive : (⟨v, ex⟩ : Entry).expired c.now = false) (hn : counterOf v = some n)
    (hhi : n ≤ maxInt64) :
    (minInt64 ≤ n - 1 →
      ((handleDecr c [b "decr", k]).run c s).2 = .done (.ok (intReply (n - 1))) ∧
      ((handleDecr c [b "decr", k]).run c s).1.lookup c.db k = some ⟨.str (fmtInt (n - 1)), ex⟩) ∧
    (n - 1 < minInt64 → (handleDecr c [b "decr", k]).run c s = (s, .done (.err overflowErr))) := by
  obtain ⟨a1, a2⟩ := incrCore_arith c s k v n ex (-1) (· - 1) hm h hlive hn
  have hmax : n - 1 ≤ maxInt64 := by omega
  refine ⟨fun hr => ?_, fun hr => ?_⟩
  · obtain ⟨r1, r2, _⟩ := a1 ⟨hr, hmax⟩
    exact ⟨by simpa [handleDecr] using r1, by simpa [handleDecr] using r2⟩
  · simpa [handleDecr] using a2 (by omega)

/-- **INCRBY / DECRBY**: for every increment `d` the client can spell (64-bit decimal), the result is the exact
    integer `n + d` (`n - d`) when it fits in 64 bits, and the overflow error with the state unchanged when it
    does not — the decrement `-9223372036854775808`, which has no negation, included. -/
theorem incrby_decrby_arith (c : Ctx) (s : State) (k arg : Bytes) (v : Val) (n d : Int) (ex : Option Int)
    (hm : c.cfg.maxMemory = 0)
    (h : s.lookup c.db k = some ⟨v, ex⟩) (hlive : (⟨v, ex⟩ : Entry).expired c.now = false) (hn : counterOf v = some n)
    (hd : parseInt64 arg = some d) :
    ((minInt64 ≤ n + d ∧ n + d ≤ maxInt64 →
        ((handleIncrBy c [b "incrby", k, arg]).run c s).2 = .done (.ok (intReply (n + d))) ∧
        ((handleIncrBy c [b "incrby", k, arg]).run c s).1.lookup c.db k = some ⟨.str (fmtInt (n + d)), ex⟩) ∧
      (¬ (minInt64 ≤ n + d ∧ n + d ≤ maxInt64) →
        (handleIncrBy c [b "incrby", k, arg]).run c s = (s, .done (.err overflowErr)))) ∧
    ((minInt64 ≤ n - d ∧ n - d ≤ maxInt64 →
        ((handleDecrBy c [b "decrby", k, arg]).run c s).2 = .done (.ok (intReply (n - d))) ∧
        ((handleDecrBy c [b "decrby", k, arg]).run c s).1.lookup c.db k = some ⟨.str (fmtInt (n - d)), ex⟩) ∧
      (¬ (minInt64 ≤ n - d ∧ n - d ≤ maxInt64) →
        (handleDecrBy c [b "decrby", k, arg]).run c s = (s, .done (.err overflowErr)))) := by
  obtain ⟨a1, a2⟩ := incrCore_arith c s k v n ex d (· + d) hm h hlive hn
  obtain ⟨b1, b2⟩ := incrCore_arith c s k v n ex (d * -1) (· - d) hm h hlive hn
  refine ⟨⟨fun hr => ?_, fun hr => ?_⟩, ⟨fun hr => ?_, fun hr => ?_⟩⟩
  · obtain ⟨r1, r2, _⟩ := a1 hr
    exact ⟨by simpa [handleIncrBy, hd] using r1, by simpa [handleIncrBy, hd] using r2⟩
  · simpa [handleIncrBy, hd] using a2 hr
  · obtain ⟨r1, r2, _⟩ := b1 hr
    exact ⟨by simpa [handleDecrBy, hd] using r1, by simpa [handleDecrBy, hd] using r2⟩
  · simpa [handleDecrBy, hd] using b2 hr

/-- **a missing key counts as 0** — and `DECRBY k -9223372036854775808` on it, whose result `2^63` does not
    exist in 64 bits, fails without creating the key (before the repair it answered `-9223372036854775808`) -/
theorem decrby_absent (c : Ctx) (s : State) (k arg : Bytes) (d : Int) (hm : c.cfg.maxMemory = 0)
    (h : s.lookup c.db k = none) (hd : parseInt64 arg = some d) :
    (d ≠ minInt64 →
      ((handleDecrBy c [b "decrby", k, arg]).run c s).2 = .done (.ok (intReply (-d))) ∧
      ((handleDecrBy c [b "decrby", k, arg]).run c s).1.lookup c.db k = some ⟨.str (fmtInt (-d)), none⟩) ∧
    (d = minInt64 → (handleDecrBy c [b "decrby", k, arg]).run c s = (s, .done (.err overflowErr))) := by
  have hr := parseInt64_range arg d hd
  have hg := getValues_absent c s k h
  have e : d * -1 = -d := by omega
  obtain ⟨hs1, hs2, _⟩ := setValues_single c s k (.str (fmtInt (-d))) hm
  refine ⟨fun hne => ?_, fun heq => ?_⟩
  · have h1 : ¬ (-d < minInt64) := by unfold minInt64 maxInt64 at *; omega
    have h2 : ¬ (-d > maxInt64) := by unfold minInt64 maxInt64 at *; omega
    simp [handleDecrBy, hd, incrCore, hg, e, h1, h2, setOrErr, hs1, hs2, h]
  · have h2 : -d > maxInt64 := by unfold minInt64 maxInt64 at *; omega
    simp [handleDecrBy, hd, incrCore, hg, e, h2]

/-- non-vacuity (the former witnesses of the wrap-around): INCR on the largest int64, DECR on the smallest,
    INCRBY past the top and DECRBY of the smallest int64 on a missing key all fail and change nothing; one
    step inside the range they answer the exact integer -/
example :
    let c : Ctx := { db := 0, now := 1000 }
    let s : State := { dbs := [(0, ⟨[(b "hi", ⟨.str (b "9223372036854775807"), none⟩),
                                     (b "lo", ⟨.int (-9223372036854775808), some 5000⟩)], [b "lo"]⟩)], mem := 0 }
    (handleIncr c [b "incr", b "hi"]).run c s = (s, .done (.err overflowErr)) ∧
    (handleDecr c [b "decr", b "lo"]).run c s = (s, .done (.err overflowErr)) ∧
    (handleIncrBy c [b "incrby", b "hi", b "1"]).run c s = (s, .done (.err overflowErr)) ∧
    (handleDecrBy c [b "decrby", b "k2", b "-9223372036854775808"]).run c s = (s, .done (.err overflowErr)) ∧
    ((handleDecr c [b "decr", b "hi"]).run c s).2 = .done (.ok (b ":9223372036854775806\r\n")) ∧
    ((handleIncr c [b "incr", b "lo"]).run c s).1.lookup 0 (b "lo") = some ⟨.str (b "-9223372036854775807"), some 5000⟩ ∧
    ((handleDecrBy c [b "decrby", b "lo", b "-9223372036854775808"]).run c s).2 = .done (.ok (b ":0\r\n")) := by decide

/-- **Wrong type fails and changes nothing** (STRLEN on a list) -/
theorem strlen_wrongtype (c : Ctx) (s : State) (k : Bytes) (xs : List Bytes) (ex : Option Int)
    (h : s.lookup c.db k = some ⟨.list xs, ex⟩) (hlive : (⟨.list xs, ex⟩ : Entry).expired c.now = false) :
    (handleStrLen c [b "strlen", k]).run c s = (s, .done (.err (b "value at key " ++ k ++ b " is not a string"))) := by
  simp [handleStrLen, keysExist_single, h, getValues_live _ _ _ _ h hlive]

/-- invalid arguments fail before any primitive is called: arity errors of the whole family leave the
    state untouched -/
theorem arity_error_no_change (c : Ctx) (s : State) :
    (handleGet c [b "get"]).run c s = (s, .done (.err wrongArgs)) ∧
    (handleSet c [b "set", b "k"]).run c s = (s, .done (.err wrongArgs)) ∧
    (handleIncr c [b "incr"]).run c s = (s, .done (.err wrongArgs)) ∧
    (handleRename c [b "rename", b "a"]).run c s = (s, .done (.err wrongArgs)) := by
  refine ⟨?_, ?_, ?_, ?_⟩ <;> simp [handleGet, handleSet, handleIncr, handleRename]

/-! ### GETEX PERSIST, GETRANGE / SUBSTR, MGET, SETRANGE — repaired in /repo by `fix:` commits; the statements
    below hold on every state (before the repairs each had a witness of the defect in this file's last section) -/

/-- **GETEX k PERSIST removes the time to live.** For every state, every live key holding a printable value,
    every spelling of the option (`opt` upper-cases to PERSIST) and with or without a trailing argument (it is
    ignored): the reply is the value, the key afterwards has **no deadline**, its value is unchanged, and no
    other key of the database is touched. -/
theorem getex_persist_clears_deadline (c : Ctx) (s : State) (k opt : Bytes) (rest : List Bytes) (e : Entry) (t : Bytes)
    (h : s.lookup c.db k = some e) (hlive : e.expired c.now = false) (hv : e.val.fmtV = some t)
    (ha : isAscii opt = true) (ho : toUpper opt = b "PERSIST") (hr : rest.length ≤ 1) :
    ((handleGetex c (b "getex" :: k :: opt :: rest)).run c s).2 = .done (.ok (simpleStr t)) ∧
    ((handleGetex c (b "getex" :: k :: opt :: rest)).run c s).1.lookup c.db k = some ⟨e.val, none⟩ ∧
    (∀ k2, k ≠ k2 → ((handleGetex c (b "getex" :: k :: opt :: rest)).run c s).1.lookup c.db k2 = s.lookup c.db k2) := by
  obtain ⟨s', hrun, h1, h2, _⟩ := handleGetex_persist_run c s k opt rest e t h hlive hv ha ho hr
  rw [hrun]
  exact ⟨rfl, h1, h2⟩

/-- the common spellings satisfy the hypotheses of `getex_persist_clears_deadline` -/
example (c : Ctx) (s : State) (k : Bytes) (e : Entry) (t : Bytes)
    (h : s.lookup c.db k = some e) (hlive : e.expired c.now = false) (hv : e.val.fmtV = some t) :
    ((handleGetex c [b "getex", k, b "persist"]).run c s).1.lookup c.db k = some ⟨e.val, none⟩ :=
  (getex_persist_clears_deadline c s k (b "persist") [] e t h hlive hv persist_tokens.1 persist_tokens.2.1 (by simp)).2.1

/-- non-vacuity (the former witness of the defect): SET k d PX 1000; GETEX k PERSIST leaves no deadline -/
example :
    let c : Ctx := { db := 0, now := 1000 }
    let s : State := { dbs := [(0, ⟨[(b "k", ⟨.str (b "d"), some 2000⟩)], [b "k"]⟩)], mem := 57 }
    (handleGetex c [b "getex", b "k", b "persist"]).run c s =
      ({ dbs := [(0, ⟨[(b "k", ⟨.str (b "d"), none⟩)], [b "k"]⟩)], mem := 57 }, .done (.ok (b "+d\r\n"))) := by decide

/-- **GETRANGE / SUBSTR return the reference substring for every start and end.** For every state, every live key
    holding a string `t` and every pair of integer arguments: whenever the reference range (negative indices
    count from the end, start clamped to the first byte, end to the last) is non-empty, the reply is the bulk
    string of exactly those bytes, and nothing changes. -/
theorem getrange_reference_substring (c : Ctx) (s : State) (name k st en t : Bytes) (ex : Option Int) (start end_ : Int)
    (h : s.lookup c.db k = some ⟨.str t, ex⟩) (hlive : (⟨.str t, ex⟩ : Entry).expired c.now = false)
    (hs : asInt? st = some (some start)) (he : asInt? en = some (some end_))
    (hne : (refRange t.length start end_).1 ≤ (refRange t.length start end_).2) :
    (handleSubStr c [name, k, st, en]).run c s =
      (s, .done (.ok (bulkStr ((t.drop (refRange t.length start end_).1.toNat).take
        ((refRange t.length start end_).2 - (refRange t.length start end_).1 + 1).toNat)))) := by
  simp [handleSubStr, keysExist_single, h, hs, he, getValues_live c s k _ h hlive, Prog.ofOutcome,
    subStrPure_ref t start end_ hne]

/-- **GETRANGE / SUBSTR always answer** — no start / end makes the handler panic or fail on a stored string: the
    reply is a bulk string (a reversed range over non-ASCII bytes is outside the exactly-modelled domain) and the
    state is unchanged. -/
theorem getrange_always_answers (c : Ctx) (s : State) (name k st en t : Bytes) (ex : Option Int) (start end_ : Int)
    (h : s.lookup c.db k = some ⟨.str t, ex⟩) (hlive : (⟨.str t, ex⟩ : Entry).expired c.now = false)
    (hs : asInt? st = some (some start)) (he : asInt? en = some (some end_)) :
    (∃ x, (handleSubStr c [name, k, st, en]).run c s = (s, .done (.ok (bulkStr x)))) ∨
    (∃ w, (handleSubStr c [name, k, st, en]).run c s = (s, .unmod w)) := by
  rcases subStrPure_total t start end_ with ⟨x, hx⟩ | ⟨w, hw⟩
  · exact Or.inl ⟨x, by simp [handleSubStr, keysExist_single, h, hs, he, getValues_live c s k _ h hlive, Prog.ofOutcome, hx]⟩
  · exact Or.inr ⟨w, by simp [handleSubStr, keysExist_single, h, hs, he, getValues_live c s k _ h hlive, Prog.ofOutcome, hw]⟩

/-- non-vacuity (the former witnesses of the panic): start beyond the string answers the empty string, a negative
    start reaching before the first byte reads from the first byte -/
example :
    let c : Ctx := { db := 0, now := 1000 }
    let s : State := { dbs := [(0, ⟨[(b "k", ⟨.str (b "abc"), none⟩)], []⟩)], mem := 60 }
    ((handleSubStr c [b "getrange", b "k", b "5", b "10"]).run c s).2 = .done (.ok (b "$0\r\n\r\n")) ∧
    ((handleSubStr c [b "getrange", b "k", b "-7", b "100"]).run c s).2 = .done (.ok (b "$3\r\nabc\r\n")) ∧
    ((handleSubStr c [b "substr", b "k", b "-2", b "-1"]).run c s).2 = .done (.ok (b "$2\r\nbc\r\n")) ∧
    ((handleSubStr c [b "substr", b "k", b "-100", b "-50"]).run c s).2 = .done (.ok (b "$1\r\na\r\n")) := by decide

/-- **MGET answers one element per argument: the stored value for every key that reads as present, nil for the
    others** — on every state and every argument list (values whose `%v` text is address-dependent excluded). -/
theorem mget_returns_stored_values (c : Ctx) (s : State) (keys : List Bytes) (hne : keys ≠ [])
    (hp : ∀ k ∈ keys, (mgetText (readVal c s k)).isSome) :
    ((handleMGet c (b "mget" :: keys)).run c s).2 =
      .done (.ok (arrHdr keys.length ++ (keys.map fun k => mgetElem (readVal c s k)).flatten)) := by
  have hl : ¬ (keys.length + 1 < 2) := by
    cases keys with
    | nil => exact absurd rfl hne
    | cons a r => simp
  have hb : mgetBody ((getValues c s keys).2) = some ((keys.map fun k => mgetElem (readVal c s k)).flatten) := by
    rw [getValues_readVal, mgetBody_elems]
    · simp [List.map_map, Function.comp_def]
    · intro v hv
      obtain ⟨k, hk, rfl⟩ := List.mem_map.mp hv
      exact hp k hk
  simp [handleMGet, hl, hb]

/-- the element of a key holding a string is the bulk string of exactly its bytes — the empty string included … -/
theorem mget_elem_string (t : Bytes) : mgetElem (.str t) = bulkStr t := rfl

theorem bulkStr_ne_nilBulk (x : Bytes) : bulkStr x ≠ nilBulk := by
  intro h
  have h1 := parseOne_bulkStr 0 x []
  rw [h, parseOne_nilBulk 0 []] at h1
  cases h1

/-- … and an element is the nil bulk **only** for a key that reads as absent -/
theorem mget_elem_nil_iff (v : Val) : mgetElem v = nilBulk ↔ v = .nil := by
  constructor
  · intro h
    cases v with
    | nil => rfl
    | _ => exact absurd h (bulkStr_ne_nilBulk _)
  · intro h; subst h; rfl

/-- non-vacuity (the former witness of the defect): SET k1 ""; MGET k1 k2 answers the empty string and one nil -/
example :
    let c : Ctx := { db := 0, now := 1000 }
    let s : State := { dbs := [(0, ⟨[(b "k1", ⟨.str [], none⟩)], []⟩)], mem := 57 }
    ((handleMGet c [b "mget", b "k1", b "k2"]).run c s).2 = .done (.ok (b "*2\r\n$0\r\n\r\n$-1\r\n")) := by decide

/-- **SETRANGE on an absent key creates it.** For every state, absent key, integer offset and value (no memory
    limit): the reply is the length of the value, the key afterwards holds exactly that string without a deadline
    (so a following GET reads it back), and no other key of the database is touched. -/
theorem setrange_absent_creates (c : Ctx) (s : State) (k off v : Bytes) (offset : Int) (hm : c.cfg.maxMemory = 0)
    (h : s.lookup c.db k = none) (ho : asInt? off = some (some offset)) :
    ((handleSetRange c [b "setrange", k, off, v]).run c s).2 = .done (.ok (intReply v.length)) ∧
    ((handleSetRange c [b "setrange", k, off, v]).run c s).1.lookup c.db k = some ⟨.str v, none⟩ ∧
    (∀ k2, k ≠ k2 → ((handleSetRange c [b "setrange", k, off, v]).run c s).1.lookup c.db k2 = s.lookup c.db k2) ∧
    ((handleGet c [b "get", k]).run c ((handleSetRange c [b "setrange", k, off, v]).run c s).1).2 = .done (.ok (simpleStr v)) := by
  obtain ⟨hs1, hs2, hs3⟩ := setValues_single c s k (.str v) hm
  have hrun : (handleSetRange c [b "setrange", k, off, v]).run c s =
      ((setValues c s [(k, .str v)]).1, .done (.ok (intReply v.length))) := by
    simp [handleSetRange, keysExist_single, h, ho, setOrErr, hs1]
  rw [hrun]
  simp only [h, Option.bind_none] at hs2
  refine ⟨rfl, hs2, hs3, ?_⟩
  have hexp : (⟨Val.str v, none⟩ : Entry).expired c.now = false := by simp [Entry.expired]
  simp [handleGet, keysExist_single, hs2, getValues_live _ _ _ _ hs2 hexp, plusV, Val.fmtV]

/-- non-vacuity (the former witness of the defect): SETRANGE k1 1 ZZ on an empty server stores ZZ -/
example :
    let c : Ctx := { db := 0, now := 1000 }
    ((handleSetRange c [b "setrange", b "k1", b "1", b "ZZ"]).run c { dbs := [], mem := 0 }).1.lookup 0 (b "k1")
      = some ⟨.str (b "ZZ"), none⟩ := by decide

/-- **SETRANGE inside an existing string overwrites bytes** (repaired in /repo by a `fix:` commit; before it
    the stored string was converted to runes and indexed by byte offsets: multi-byte characters were re-encoded
    and some offsets panicked). For every state, live string key holding `t` (ANY bytes), offset `0 ≤ o < |t|`
    and value `v` (any bytes): the key afterwards holds `t[0,o) ++ v ++ t[o+|v|, …)` with its deadline kept,
    the reply is the length of that string, and no other key of the database is touched. -/
theorem setrange_overwrites_bytes (c : Ctx) (s : State) (k off v t : Bytes) (ex : Option Int) (offset : Int)
    (hm : c.cfg.maxMemory = 0) (h : s.lookup c.db k = some ⟨.str t, ex⟩)
    (hlive : (⟨.str t, ex⟩ : Entry).expired c.now = false)
    (ho : asInt? off = some (some offset)) (h0 : 0 ≤ offset) (hlt : offset < t.length) :
    let r := t.take offset.toNat ++ v ++ t.drop (offset.toNat + v.length)
    ((handleSetRange c [b "setrange", k, off, v]).run c s).2 = .done (.ok (intReply r.length)) ∧
    ((handleSetRange c [b "setrange", k, off, v]).run c s).1.lookup c.db k = some ⟨.str r, ex⟩ ∧
    (∀ k2, k ≠ k2 → ((handleSetRange c [b "setrange", k, off, v]).run c s).1.lookup c.db k2 = s.lookup c.db k2) := by
  intro r
  obtain ⟨hs1, hs2, hs3⟩ := setValues_single c s k (.str r) hm
  have hge : ¬ (offset ≥ (t.length : Int)) := by omega
  have hneg : ¬ (offset < 0) := by omega
  have hrun : (handleSetRange c [b "setrange", k, off, v]).run c s =
      ((setValues c s [(k, .str r)]).1, .done (.ok (intReply r.length))) := by
    have hs1' := hs1
    simp only [r, List.append_assoc] at hs1'
    simp [handleSetRange, keysExist_single, h, ho, getValues_live _ _ _ _ h hlive, hge, hneg, setOrErr, r, hs1']
  rw [hrun]
  simp only [h, Option.bind_some] at hs2
  exact ⟨rfl, hs2, hs3⟩

/-- non-vacuity (the input the thorough tier found panicking): APPEND k1 "ünï"; SETRANGE k1 0 <20 digits> -/
example :
    let c : Ctx := { db := 0, now := 1000 }
    let t : Bytes := [0xc3, 0xbc, 0x6e, 0xc3, 0xaf]
    let s : State := { dbs := [(0, ⟨[(b "k1", ⟨.str t, none⟩)], []⟩)], mem := 57 }
    ((handleSetRange c [b "setrange", b "k1", b "0", b "12345678901234567890"]).run c s).2
      = .done (.ok (b ":20\r\n")) := by decide

/-! ### where the full statement fails (model witnesses; each is a class of Known.lean) -/

/-- numeric-looking text is rewritten: SET k 007; GET k answers 7 -/
theorem numeric_text_rewritten_witness :
    let c : Ctx := { db := 0, now := 1000 }
    ((handleGet c [b "get", b "k"]).run c ((handleSet c [b "set", b "k", b "007"]).run c { dbs := [], mem := 0 }).1).2
      = .done (.ok (b "+7\r\n")) := by decide

/-- **RENAME of a key onto itself keeps it** (repaired in /repo by a `fix:` commit; before it the key was
    set and then deleted): for every state and every live key the state is unchanged and the reply is OK -/
theorem rename_self_keeps (c : Ctx) (s : State) (k : Bytes) (e : Entry)
    (h : s.lookup c.db k = some e) (hlive : e.expired c.now = false) (hv : e.val ≠ .nil) :
    (handleRename c [b "rename", k, k]).run c s = (s, .done (.ok okReply)) := by
  have hg := getValues_live c s k e h hlive
  simp only [handleRename, run_call, Prim.exec, hg]
  cases hval : e.val <;> simp_all [Prog.run]

example :
    let c : Ctx := { db := 0, now := 1000 }
    let s : State := { dbs := [(0, ⟨[(b "k", ⟨.str (b "v"), none⟩)], []⟩)], mem := 57 }
    ((handleRename c [b "rename", b "k", b "k"]).run c s).1.lookup 0 (b "k") = some ⟨.str (b "v"), none⟩ := by decide

/-- **RENAME moves the value with its own deadline** (repaired in /repo by a `fix:` commit; before it the moved
    value took the deadline of the key it overwrote and lost its own). For every state, every live source key
    and EVERY destination (absent, stored with or without a deadline, even stale): the reply is OK, the
    destination reads as the source's value under the source's deadline, the source is gone, and no other key
    of the database is touched. -/
theorem rename_moves_value_and_deadline (c : Ctx) (s : State) (old new : Bytes) (e : Entry) (hm : c.cfg.maxMemory = 0)
    (h : s.lookup c.db old = some e) (hlive : e.expired c.now = false) (hv : e.val ≠ .nil) (hne : old ≠ new) :
    ((handleRename c [b "rename", old, new]).run c s).2 = .done (.ok okReply) ∧
    ((handleRename c [b "rename", old, new]).run c s).1.lookup c.db new = some ⟨e.val, e.exp⟩ ∧
    ((handleRename c [b "rename", old, new]).run c s).1.lookup c.db old = none ∧
    (∀ k2, old ≠ k2 → new ≠ k2 →
      ((handleRename c [b "rename", old, new]).run c s).1.lookup c.db k2 = s.lookup c.db k2) := by
  obtain ⟨s', hrun, h1, h2, h3⟩ := handleRename_run c s old new e hm h hlive hv hne
  rw [hrun]
  exact ⟨rfl, h1, h2, h3⟩

/-- **a read returns the renamed value**: GET of the new name answers the value, GET of the old name nil -/
theorem get_after_rename (c : Ctx) (s : State) (old new t : Bytes) (e : Entry) (hm : c.cfg.maxMemory = 0)
    (h : s.lookup c.db old = some e) (hlive : e.expired c.now = false) (hv : e.val ≠ .nil) (hne : old ≠ new)
    (ht : e.val.fmtV = some t) :
    ((handleGet c [b "get", new]).run c ((handleRename c [b "rename", old, new]).run c s).1).2 = .done (.ok (simpleStr t)) ∧
    ((handleGet c [b "get", old]).run c ((handleRename c [b "rename", old, new]).run c s).1).2 = .done (.ok nilBulk) := by
  obtain ⟨s', hrun, h1, h2, _⟩ := handleRename_run c s old new e hm h hlive hv hne
  rw [hrun]
  have hl : (⟨e.val, e.exp⟩ : Entry).expired c.now = false := hlive
  refine ⟨?_, ?_⟩
  · simp [handleGet, keysExist_single, h1, getValues_live _ _ _ _ h1 hl, plusV, ht]
  · simp [handleGet, keysExist_single, h2]

/-- non-vacuity (the former witness of the defect): SET k1 old PX 1000; SET k2 7 PX 3000; RENAME k1 k2 leaves k2
    holding `old` under k1's deadline 2000 (it was 4000, k2's); a source without a deadline clears the target's -/
example :
    let c : Ctx := { db := 0, now := 1000 }
    let s : State := { dbs := [(0, ⟨[(b "k1", ⟨.str (b "old"), some 2000⟩), (b "k2", ⟨.int 7, some 4000⟩),
                                     (b "k3", ⟨.str (b "p"), none⟩)], [b "k1", b "k2"]⟩)], mem := 0 }
    ((handleRename c [b "rename", b "k1", b "k2"]).run c s).1.lookup 0 (b "k2") = some ⟨.str (b "old"), some 2000⟩ ∧
    ((handleRename c [b "rename", b "k3", b "k2"]).run c s).1.lookup 0 (b "k2") = some ⟨.str (b "p"), none⟩ ∧
    ((handleRename c [b "rename", b "k1", b "k9"]).run c s).1.lookup 0 (b "k9") = some ⟨.str (b "old"), some 2000⟩ ∧
    ((handleRename c [b "rename", b "k1", b "k9"]).run c s).1.lookup 0 (b "k1") = none := by decide

/-- a stale key is still "there": SET k v NX is refused on a key whose deadline has passed -/
theorem stale_key_refuses_nx_witness :
    let c : Ctx := { db := 0, now := 2000 }
    let s : State := { dbs := [(0, ⟨[(b "k", ⟨.str (b "old"), some 1500⟩)], [b "k"]⟩)], mem := 59 }
    ((handleSet c [b "set", b "k", b "new", b "nx"]).run c s).2 = .done (.err (b "key k already exists")) := by decide

end Sugar.Props.C01
