/-
  Props.C19 — the reported memory figure against the accounted size of the current dataset.
  `memFn s` is what a fresh server loaded with the dataset of `s` reports; `drift s = s.mem - memFn s`.
  The property says `drift = 0` always. It is false of the code (a write over an existing key never subtracts the old
  size); what holds is characterised exactly. Repaired upstream and proved here: FLUSHDB deducts what it removes,
  FLUSHALL resets the figure, LPUSH / RPUSH creating a list account it once.
-/
import SugarModel.Lemmas.Mem
import SugarModel.Lemmas.ListLemmas
namespace Sugar.Props.C19
open Sugar

/-- the figure of an empty dataset is zero -/
theorem empty_dataset_zero : memFn { dbs := [], mem := 0 } = 0 ∧ drift { dbs := [], mem := 0 } = 0 := ⟨rfl, rfl⟩

/-- **Exact law of a write.** One `setValues` loop iteration on key `k` moves the drift by exactly the
    accounted size of the entry it overwrites (0 when the key was absent): the new size is added to
    the counter and to the dataset alike, the old size leaves the dataset but never the counter. -/
theorem write_drift_exact (i : Nat) (s : State) (k : Bytes) (v : Val) (hdb : s.hasDb i = true) :
    drift (setOne i s (k, v)) = drift s + oldSize (s.db i).store k :=
  drift_setOne i s (k, v) hdb

/-- writing a key that is absent keeps the figure exact -/
theorem fresh_write_keeps_exact (i : Nat) (s : State) (k : Bytes) (v : Val) (hdb : s.hasDb i = true)
    (habs : s.lookup i k = none) : drift (setOne i s (k, v)) = drift s := by
  rw [write_drift_exact i s k v hdb]
  unfold State.lookup at habs
  simp [oldSize, habs]

/-- overwriting an existing key inflates the figure by the full size of the old entry (> 0) -/
theorem overwrite_inflates (i : Nat) (s : State) (k : Bytes) (v : Val) (e0 : Entry) (hdb : s.hasDb i = true)
    (hpre : s.lookup i k = some e0) : drift (setOne i s (k, v)) = drift s + (e0.getMem + keyMem k) := by
  rw [write_drift_exact i s k v hdb]
  unfold State.lookup at hpre
  simp [oldSize, hpre, entrySize]

/-- deleting a stored key (keys unique) subtracts exactly what the dataset loses -/
theorem delete_keeps_exact (s : State) (i : Nat) (k : Bytes) (e0 : Entry) (hdb : s.hasDb i = true)
    (hn : KMap.NoDup (s.db i).store) (hpre : s.lookup i k = some e0) :
    drift (deleteKey s i k) = drift s := by
  rw [drift_deleteKey s i k hdb hn]
  unfold State.lookup at hpre
  simp [oldSize, hpre]

/-- reading primitives never add to the figure: `getValues` only deletes (expired) keys -/
theorem reads_keep_dataset (c : Ctx) (ks : List Bytes) (s : State) (j : Nat) (k : Bytes) :
    obsAt c.now (getValues c s ks).1 j k = obsAt c.now s j k := getValues_obs c ks s j k

/-- **mem_is_function_partial.** Any sequence of writes of pairwise distinct keys that are absent from the
    selected database leaves the drift unchanged: from an exact figure the figure stays exact. -/
theorem fresh_writes_keep_exact (i : Nat) : ∀ (kvs : List (Bytes × Val)) (s : State), s.hasDb i = true →
    (kvs.map Prod.fst).Nodup → (∀ kv ∈ kvs, s.lookup i kv.1 = none) →
    drift (kvs.foldl (setOne i) s) = drift s := by
  intro kvs
  induction kvs with
  | nil => intro s _ _ _; rfl
  | cons kv r ih =>
    intro s hdb hnd habs
    simp only [List.foldl]
    simp only [List.map_cons, List.nodup_cons] at hnd
    have h1 : drift (setOne i s kv) = drift s :=
      fresh_write_keeps_exact i s kv.1 kv.2 hdb (habs kv List.mem_cons_self)
    have hdb' : (setOne i s kv).hasDb i = true := by simp [setOne, State.hasDb]
    rw [ih (setOne i s kv) hdb' hnd.2 ?_, h1]
    intro kv' hm
    have hne : kv.1 ≠ kv'.1 := by
      intro heq
      exact hnd.1 (heq ▸ List.mem_map_of_mem hm)
    have := habs kv' (List.mem_cons_of_mem _ hm)
    unfold State.lookup State.db at this ⊢
    simp only [setOne, NMap.get_put_same, Option.getD_some]
    rw [KMap.get_put_other _ _ _ _ hne]
    exact this

/-- **The full statement is false**: `SET k a; SET k a` from the empty server reports twice the size of
    the dataset it holds (witness evaluated on the model; replayed on the implementation by the check). -/
theorem overwrite_witness :
    let c : Ctx := { db := 0, now := 1000 }
    let s1 := (setValues c { dbs := [], mem := 0 } [(b "k", .str (b "a"))]).1
    let s2 := (setValues c s1 [(b "k", .str (b "a"))]).1
    drift s1 = 0 ∧ drift s2 = 58 ∧ memFn s2 = 58 ∧ s2.mem = 116 := by decide

/-- **FLUSHDB keeps the figure in step with the dataset**: the counter loses exactly the accounted size of the keys
    the database held (every state, every database, written or not) -/
theorem flushdb_keeps_drift (s s' : State) (i : Nat) (h : flushDb s i = some s') : drift s' = drift s :=
  drift_flushDb s s' i h

/-- from an exact figure FLUSHDB leaves an exact figure -/
theorem flushdb_keeps_exact (s s' : State) (i : Nat) (h : flushDb s i = some s') (hex : s.mem = memFn s) :
    s'.mem = memFn s' := by
  have := drift_flushDb s s' i h
  unfold drift at this
  omega

/-- **FLUSHALL: the figure of the empty dataset is zero** — whatever was stored and whatever the drift was before -/
theorem flushall_resets (s : State) : (flushAll s).mem = 0 ∧ memFn (flushAll s) = 0 ∧ drift (flushAll s) = 0 :=
  ⟨rfl, memFn_flushAll s, drift_flushAll s⟩

/-- **LPUSH / RPUSH creating a list account it once**: on a key that is not there the command moves the counter by
    exactly the accounted size of the list it stores (one SetValues call), so the drift is unchanged -/
theorem push_creates_counted_once (left : Bool) (c : Ctx) (s : State) (k e0 : Bytes) (es : List Bytes)
    (h : s.lookup c.db k = none) :
    drift ((handlePush left c ((if left then b "lpush" else b "rpush") :: k :: e0 :: es)).run c s).1 = drift s := by
  rw [push_absent_run left c s k e0 es h]
  simp only
  cases hok : (setValues c s [(k, .list (e0 :: es))]).2
  · -- refused: setValues returns the state it was given
    have : (setValues c s [(k, .list (e0 :: es))]).1 = s := by
      unfold setValues at hok ⊢
      split
      · rfl
      · rename_i hc; simp [hc] at hok
    rw [this]
  · rw [drift_setValues_single c s k _ hok]
    unfold State.lookup at h
    simp [oldSize, h]

/-- non-vacuity: FLUSHDB after a write brings dataset and counter back to zero together; RPUSH on a fresh server
    reports the size of the one list it holds; FLUSHALL after an overwrite (drift 58) lands on the exact figure -/
example :
    let c : Ctx := { db := 0, now := 1000 }
    let s1 := (setValues c { dbs := [], mem := 0 } [(b "k", .str (b "a"))]).1
    let s2 := (setValues c s1 [(b "k", .str (b "a"))]).1
    (flushDb s1 0).map (fun s => (memFn s, s.mem)) = some (0, 0) ∧
    drift s2 = 58 ∧ drift (flushAll s2) = 0 ∧ (flushAll s2).mem = 0 ∧
    (let s3 := ((handlePush false c [b "rpush", b "l", b "a", b "b"]).run c { dbs := [], mem := 0 }).1
     (s3.mem, memFn s3, s3.lookup 0 (b "l")) = (75, 75, some ⟨.list [b "a", b "b"], none⟩)) := by decide

/-- non-vacuity of `fresh_writes_keep_exact`: two fresh keys on a state that has database 0 -/
example : drift ([(b "x", Val.str (b "1")), (b "y", Val.int 2)].foldl (setOne 0) { dbs := [(0, ⟨[], []⟩)], mem := 0 }) = 0 := by decide

/-- createDb never touches the reported figure -/
theorem createDb_keeps_figure (s : State) (i : Nat) : (s.createDb i).mem = s.mem := by
  unfold State.createDb; split <;> rfl

/-- **SELECT changes neither the reported figure nor the accounted size** — for every caller, target and state
    (the target database is created empty if absent: an empty database accounts for nothing) -/
theorem select_keeps_exact (c : Ctx) (s : State) (d : Nat) :
    (setConnDb c s d).mem = s.mem ∧ memFn (setConnDb c s d) = memFn s ∧ drift (setConnDb c s d) = drift s := by
  have h1 : (setConnDb c s d).mem = s.mem := by
    unfold setConnDb; exact createDb_keeps_figure s d
  have h2 : memFn (setConnDb c s d) = memFn s := by
    unfold setConnDb
    show memFn (s.createDb d) = memFn s
    exact memFn_createDb s d
  exact ⟨h1, h2, by unfold drift; rw [h1, h2]⟩

/-- **SWAPDB changes neither the reported figure nor the accounted size** — for every pair of indices and every state -/
theorem swapdb_keeps_exact (s : State) (d1 d2 : Nat) :
    (swapDbs s d1 d2).mem = s.mem ∧ memFn (swapDbs s d1 d2) = memFn s ∧ drift (swapDbs s d1 d2) = drift s := by
  have h1 : (swapDbs s d1 d2).mem = s.mem := by
    unfold swapDbs
    split
    · rfl
    · show ((s.createDb d1).createDb d2).mem = s.mem
      rw [createDb_keeps_figure, createDb_keeps_figure]
  have h2 : memFn (swapDbs s d1 d2) = memFn s := by
    unfold swapDbs
    split
    · rfl
    · show memFn ((s.createDb d1).createDb d2) = memFn s
      rw [memFn_createDb, memFn_createDb]
  exact ⟨h1, h2, by unfold drift; rw [h1, h2]⟩

end Sugar.Props.C19
