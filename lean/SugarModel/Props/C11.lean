/-
  Props.C11 — authentication follows the stored credentials; user lifecycle.
-/
import SugarModel.Lemmas.AclLemmas
namespace Sugar.Props.C11
open Sugar Sugar.Acl Sugar.Spec

/-- **AUTH user password succeeds exactly when** the named user exists, is enabled, and is
    password-less or the password equals a plaintext entry or hashes to a SHA-256 entry — for every
    user table, every password, every digest function value `sha`. -/
theorem auth_iff (a : AclState) (cid : Nat) (c name pw sha : Bytes) :
    (authenticate a cid [c, name, pw] sha).2 = .ok ↔
      authShouldSucceed ((a.find name).map a.get) pw sha = true := by
  unfold authenticate authShouldSucceed
  simp only
  cases hf : a.find name with
  | none => simp
  | some uid =>
    simp only [Option.map_some]
    cases he : (a.get uid).enabled with
    | false => simp
    | true =>
      cases hn : (a.get uid).noPass with
      | true => simp
      | false =>
        simp only [Bool.not_true, Bool.false_eq_true, if_false, Bool.true_and, Bool.false_or]
        split <;> simp_all

/-- AUTH password (one argument) is AUTH default password -/
theorem auth_default_iff (a : AclState) (cid : Nat) (c pw sha : Bytes) (d : Nat) (hd : a.find (b "default") = some d) :
    (authenticate a cid [c, pw] sha).2 = .ok ↔ authShouldSucceed (some (a.get d)) pw sha = true := by
  unfold authenticate authShouldSucceed
  simp only [hd]
  cases he : (a.get d).enabled with
  | false => simp
  | true =>
    cases hn : (a.get d).noPass with
    | true => simp
    | false =>
      simp only [Bool.not_true, Bool.false_eq_true, if_false, Bool.true_and, Bool.false_or]
      split <;> simp_all

/-- **A failed attempt leaves identity and privileges unchanged**: the whole ACL state is untouched -/
theorem auth_fail_no_change (a : AclState) (cid : Nat) (cmd : List Bytes) (sha : Bytes)
    (h : (authenticate a cid cmd sha).2 ≠ .ok) : (authenticate a cid cmd sha).1 = a := by
  unfold authenticate at h ⊢
  simp only at h ⊢
  repeat' split
  all_goals simp_all

/-- **Any number of failed attempts, on any connections, changes nothing.** If every attempt of a run is refused, the
    ACL state after the run — users, rules, and the identity and authentication flag of *every* connection — is the
    state before it. Unbounded in the length of the run; all argument forms (AUTH pw, AUTH user pw, malformed). -/
theorem failed_attempts_no_change (xs : List (Nat × List Bytes × Bytes)) (a : AclState)
    (h : ∀ o ∈ (authRun a xs).2, o ≠ .ok) : (authRun a xs).1 = a := by
  induction xs generalizing a with
  | nil => rfl
  | cons x rest ih =>
    obtain ⟨cid, cmd, sha⟩ := x
    simp only [authRun] at h ⊢
    have h0 : (authenticate a cid cmd sha).2 ≠ .ok := h _ (by simp)
    have h1 := auth_fail_no_change a cid cmd sha h0
    rw [h1] at h ⊢
    exact ih a (fun o ho => h o (by simp [ho]))

/-- a successful AUTH binds the connection to exactly the named user, authenticated -/
theorem auth_success_identity (a : AclState) (cid : Nat) (c name pw sha : Bytes) (uid : Nat)
    (hf : a.find name = some uid) (h : (authenticate a cid [c, name, pw] sha).2 = .ok) :
    (authenticate a cid [c, name, pw] sha).1.conns.get cid = some ⟨true, uid⟩ := by
  unfold authenticate at h ⊢
  simp only [hf] at h ⊢
  repeat' split
  all_goals simp_all

/-- **A new connection starts as the default user**, authenticated only if that user needs no password -/
theorem new_connection_is_default (a a' : AclState) (cid d : Nat) (hd : a.find (b "default") = some d)
    (h : registerConn a cid = some a') : a'.conns.get cid = some ⟨(a.get d).noPass, d⟩ := by
  unfold registerConn at h
  simp only [hd, Option.map_some, Option.some.injEq] at h
  rw [← h]; simp

/-- **Rule edits govern later decisions**: SETUSER on an existing user rewrites that user *object* in
    place — every connection already pointing at it sees the new rules; no connection is re-pointed. -/
theorem setuser_updates_in_place (a : AclState) (name : Bytes) (rest : List Bytes) (uid : Nat)
    (hf : a.find name = some uid) :
    (setUser a (name :: rest)).1.conns = a.conns ∧ (setUser a (name :: rest)).1.order = a.order := by
  unfold setUser
  simp only [hf]
  split <;> simp

def tbl : AclState :=
  { heap := [(1, { name := b "default", noPass := false, passwords := [⟨false, b "pw"⟩] }),
             (2, { name := b "alice", passwords := [⟨true, b "abc123"⟩] })],
    order := [1, 2], conns := [(7, ⟨false, 1⟩)], requirePass := true }

/-- **A disabled user can no longer act** (1): ACL SETUSER name … off on an existing user leaves that user object
    disabled, whatever rules precede the `off` — and by `setuser_updates_in_place` it is the object every open
    connection of that user points at. (2) `Props.C06.switched_off_user_refused`: the gate then refuses every
    command of those connections; (3) `auth_iff`: no connection can authenticate as that user any more. -/
theorem setuser_off_disables (a : AclState) (name : Bytes) (rules : List Bytes) (uid : Nat)
    (hf : a.find name = some uid) (hok : (setUser a (name :: (rules ++ [b "off"]))).2 = .ok) :
    ((setUser a (name :: (rules ++ [b "off"]))).1.get uid).enabled = false :=
  setUser_off_disables a name rules uid hf hok

/-- non-vacuity: switching alice off succeeds on the table below and disables her -/
example : (setUser tbl [b "alice", b "off"]).2 = .ok ∧ ((setUser tbl [b "alice", b "off"]).1.get 2).enabled = false := by decide

/-- **A refused SETUSER leaves the user table unchanged**: whenever ACL SETUSER answers anything but OK — the
    error for an empty user name or rule, the error for a key or channel pattern that does not compile — users,
    rules, connections and the list order are exactly what they were, for every state and every argument vector
    (the validation of UpdateUser runs before anything is modified). -/
theorem setuser_refused_no_change (a : AclState) (cmd : List Bytes) (h : (setUser a cmd).2 ≠ .ok) :
    (setUser a cmd).1 = a := by
  unfold setUser at h ⊢
  repeat' split
  all_goals simp_all

/-- **A pattern that does not compile is refused**, on an existing user and on a new name alike, wherever it
    stands in the rule list and whatever the other rules are (tokens without an empty one, inside the modelled
    alphabet): the answer is the error `invalid glob pattern` and nothing changes. Before the repair the pattern
    was stored and `glob.MustCompile` panicked in CompileGlobs. -/
theorem setuser_malformed_pattern_refused (a : AclState) (name : Bytes) (rules : List Bytes)
    (h0 : (name :: rules).contains [] = false) (h1 : ((name :: rules).any fun t => !isAscii t) = false)
    (h2 : ((rulePatterns (name :: rules)).any fun p => !PubSub.okBytes p) = false)
    (h3 : ((rulePatterns (name :: rules)).any fun p => !PubSub.compiles p) = true) :
    setUser a (name :: rules) = (a, .err PubSub.invalidPattern) := by
  unfold setUser
  simp only
  cases a.find name <;> simp only [updateUser_malformed _ _ h0 h1 h2 h3]

/-- the malformed patterns of the former crash, as key rules and as channel rules, among valid rules -/
example : setUser tbl [b "alice", b "~["] = (tbl, .err PubSub.invalidPattern) := by decide
example : setUser tbl [b "alice", b "off", b "~b*", b "%R~[b-a]", b "nopass"] = (tbl, .err PubSub.invalidPattern) := by decide
example : setUser tbl [b "bob", b "on", b "+&["] = (tbl, .err PubSub.invalidPattern) := by decide
/-- non-vacuity: a well-formed pattern is accepted and stored -/
example : (setUser tbl [b "alice", b "~a*"]).2 = .ok ∧ ((setUser tbl [b "alice", b "~a*"]).1.get 2).readKeys = [b "a*"] := by decide

/-- the victim chosen by DELUSER is never the default user -/
theorem delStep_spares_default (st : AclState × Option Bytes) (name : Bytes) (hs : st.2 ≠ some (b "default")) :
    (delStep st name).2 ≠ some (b "default") ∧
    (∀ i ∈ st.1.order, (st.1.get i).name = b "default" → i ∈ (delStep st name).1.order) ∧
    (delStep st name).1.heap = st.1.heap := by
  unfold delStep
  split
  · exact ⟨hs, fun i hi _ => hi, rfl⟩
  · rename_i hname
    cases hl : (st.1.users.filter fun p => p.2.name == name).getLast? with
    | some p =>
      have hp : p.2.name = name := by
        have hm : p ∈ st.1.users.filter fun p => p.2.name == name := List.mem_of_getLast? hl
        simpa using (List.mem_filter.mp hm).2
      simp only
      refine ⟨?_, ?_, ?_⟩
      · intro hc
        simp only [Option.some.injEq] at hc
        rw [hp] at hc
        simp [hc] at hname
      · intro i hi hdef
        simp only [List.mem_filter, bne_iff_ne, ne_eq]
        refine ⟨hi, ?_⟩
        rw [hdef, hp]
        intro hc
        simp [← hc] at hname
      · trivial
    | none =>
      cases hst : st.2 with
      | none => simp only; exact ⟨by simp, fun i hi _ => hi, trivial⟩
      | some victim =>
        simp only
        refine ⟨by rw [← hst]; exact hs, ?_, trivial⟩
        intro i hi hdef
        simp only [List.mem_filter, bne_iff_ne, ne_eq]
        refine ⟨hi, ?_⟩
        rw [hdef]
        intro hc
        rw [hst, ← hc] at hs
        exact hs rfl

/-- **The default user cannot be deleted**, whatever names DELUSER is given -/
theorem deluser_spares_default (a : AclState) (names : List Bytes) (i : Nat)
    (hi : i ∈ a.order) (hd : (a.get i).name = b "default") : i ∈ (deleteUsers a names).order := by
  unfold deleteUsers
  suffices h : ∀ (st : AclState × Option Bytes), st.2 ≠ some (b "default") → i ∈ st.1.order →
      (st.1.get i).name = b "default" → i ∈ (names.foldl delStep st).1.order from
    h (a, none) (by simp) hi hd
  induction names with
  | nil => intro st _ h _; exact h
  | cons n r ih =>
    intro st hs hi hd
    simp only [List.foldl]
    obtain ⟨h1, h2, h3⟩ := delStep_spares_default st n hs
    apply ih _ h1 (h2 i hi hd)
    unfold AclState.get at hd ⊢
    rw [h3]; exact hd

/-! ### witnesses -/

/-- non-vacuity: AUTH alice with a password whose digest is stored succeeds, a wrong one fails -/
example : (authenticate tbl 7 [b "auth", b "alice", b "secret"] (b "abc123")).2 = .ok ∧
          (authenticate tbl 7 [b "auth", b "alice", b "secret"] (b "ffff")).2 = .err (b "could not authenticate user") := by decide

/-- a digest supplied *as the password* does not authenticate (the type tag is compared) -/
example : (authenticate tbl 7 [b "auth", b "alice", b "abc123"] (b "0000")).2 ≠ .ok := by decide

/-- non-vacuity of `failed_attempts_no_change`: two refused attempts on two connections against the concrete table -/
example : ∀ o ∈ (authRun tbl [(1, [b "auth", b "nosuchuser", b "x"], b "00"), (2, [b "auth"], b "00")]).2, o ≠ .ok := by
  decide

end Sugar.Props.C11
