/-
  Props.C04 — expiry: keys live exactly until their deadline; what the model guarantees about lazy
  expiry and deadline reporting, and where "unobservable once expired" fails (keysExist ignores
  deadlines — class `expired-key-still-exists`).
-/
import SugarModel.Lemmas.Kv
import SugarModel.Lemmas.ReadOnly
namespace Sugar.Props.C04
open Sugar

/-- **Deadline boundary.** A key with deadline `t` counts as expired exactly when the clock is strictly
    past `t`; a key without a deadline never expires. -/
theorem expired_iff (e : Entry) (now t : Int) (h : e.exp = some t) : e.expired now = true ↔ t < now :=
  Entry.expired_iff e now t h

theorem no_deadline_never_expires (e : Entry) (now : Int) (h : e.exp = none) : e.expired now = false :=
  Entry.not_expired_none e now h

/-- **Expiry is monotone in the clock**: once a stored entry counts as expired it counts as expired at every later
    clock reading — an untouched key never comes back by the passage of time (all entries, all pairs of readings). -/
theorem expired_mono (e : Entry) (now now' : Int) (hle : now ≤ now') (h : e.expired now = true) :
    e.expired now' = true := by
  unfold Entry.expired at h ⊢
  split at h
  · simp at h
  · rename_i t ht
    simp only [decide_eq_true_eq] at h ⊢
    omega

/-- … and, read the other way, an entry still live at a clock reading was live at every earlier one -/
theorem live_earlier (e : Entry) (now now' : Int) (hle : now ≤ now') (h : e.expired now' = false) :
    e.expired now = false := by
  cases h0 : e.expired now with
  | false => rfl
  | true => rw [expired_mono e now now' hle h0] at h; exact absurd h (by simp)

/-- **Served unchanged until the deadline.** A value read of a stored key whose deadline has not
    passed returns the stored value and changes nothing. -/
theorem served_until_deadline (c : Ctx) (s : State) (k : Bytes) (e : Entry)
    (h1 : s.lookup c.db k = some e) (h2 : e.expired c.now = false) :
    getValues c s [k] = (s, [e.val]) := getValues_live c s k e h1 h2

/-- **Never served after the deadline.** Once the clock has passed the deadline a value read answers
    nil, whether or not background expiry has run. -/
theorem never_served_after_deadline (c : Ctx) (s : State) (k : Bytes) (e : Entry)
    (h1 : s.lookup c.db k = some e) (h2 : e.expired c.now = true) :
    (getValues c s [k]).2 = [Val.nil] := getValues_expired c s k e h1 h2

/-- **Lazy expiry removes only expired keys**: any key (of any database) whose deadline has not passed,
    or which has none, survives every value read unchanged. -/
theorem lazy_expiry_removes_only_expired (c : Ctx) (ks : List Bytes) (s : State) (j : Nat) (k : Bytes) (e : Entry)
    (h1 : s.lookup j k = some e) (h2 : e.expired c.now = false) :
    (getValues c s ks).1.lookup j k = some e := getValues_keeps_unexpired c ks s j k e h1 h2

/-- lazy expiry is unobservable: what every key reads as is the same before and after -/
theorem lazy_expiry_unobservable (c : Ctx) (ks : List Bytes) (s : State) (j : Nat) (k : Bytes) :
    obsAt c.now (getValues c s ks).1 j k = obsAt c.now s j k := getValues_obs c ks s j k

/-- **Deadline last set is the deadline reported.** After `setExpiry k t` the stored deadline is `t`. -/
theorem deadline_set_is_reported (c : Ctx) (s s' : State) (k : Bytes) (t : Option Int)
    (h : setExpiry c s k t = some s') : getExpiry s' c.db k = t := by
  unfold setExpiry at h
  split at h
  · simp at h
  · simp only [Option.some.injEq] at h
    rw [← h]
    simp [getExpiry, State.lookup, State.db]

theorem pttl_ascii : isAscii (b "pttl") = true ∧ toLower (b "pttl") = b "pttl" := by decide
theorem opt_facts : isAscii (b "nx") = true ∧ isAscii (b "gt") = true ∧ isAscii (b "lt") = true ∧ isAscii (b "xx") = true ∧
    toLower (b "nx") = b "nx" ∧ toLower (b "gt") = b "gt" ∧ toLower (b "lt") = b "lt" ∧ toLower (b "xx") = b "xx" ∧
    ¬ (b "gt" = b "nx") ∧ ¬ (b "gt" = b "xx") ∧ ¬ (b "lt" = b "nx") ∧ ¬ (b "lt" = b "xx") ∧ ¬ (b "lt" = b "gt") ∧
    ¬ (b "xx" = b "nx") := by decide

/-- PTTL of a live key with deadline `t ≥ now` answers `t - now` -/
theorem pttl_reports_remaining (c : Ctx) (s : State) (k : Bytes) (e : Entry) (t : Int)
    (h1 : s.lookup c.db k = some e) (h2 : e.exp = some t) (h3 : c.now ≤ t) :
    (handleTTL c [b "pttl", k]).run c s = (s, .done (.ok (intReply (t - c.now)))) := by
  have hz : (if t - c.now ≤ 0 then (0 : Int) else t - c.now) = t - c.now := by
    split <;> omega
  simp [handleTTL, keysExist_single, h1, getExpiry, h2, pttl_ascii.1, pttl_ascii.2, hz]

/-- **EXPIRE option table** (existing key), as the handlers decide it.
    NX: a key that already has a deadline keeps it. -/
theorem expire_nx_keeps_existing (c : Ctx) (s : State) (key name n : Bytes) (newT cur : Int)
    (h : getExpiry s c.db key = some cur) :
    (expireTail key [name, key, n, b "nx"] newT true).run c s = (s, .done (.ok (intReply 0))) := by
  simp [expireTail, opt_facts, h]

/-- XX: a key without a deadline does not get one -/
theorem expire_xx_needs_deadline (c : Ctx) (s : State) (key name n : Bytes) (newT : Int)
    (h : getExpiry s c.db key = none) :
    (expireTail key [name, key, n, b "xx"] newT true).run c s = (s, .done (.ok (intReply 0))) := by
  simp [expireTail, opt_facts, h]

/-- GT: an earlier deadline is refused, and so is any deadline on a key without one -/
theorem expire_gt_refuses_earlier (c : Ctx) (s : State) (key name n : Bytes) (newT cur : Int)
    (h : getExpiry s c.db key = some cur) (hlt : newT < cur) :
    (expireTail key [name, key, n, b "gt"] newT true).run c s = (s, .done (.ok (intReply 0))) := by
  simp [expireTail, opt_facts, h, hlt]

theorem expire_gt_refuses_persistent (c : Ctx) (s : State) (key name n : Bytes) (newT : Int)
    (h : getExpiry s c.db key = none) :
    (expireTail key [name, key, n, b "gt"] newT true).run c s = (s, .done (.ok (intReply 0))) := by
  simp [expireTail, opt_facts, h]

/-- LT: a later deadline is refused -/
theorem expire_lt_refuses_later (c : Ctx) (s : State) (key name n : Bytes) (newT cur : Int)
    (h : getExpiry s c.db key = some cur) (hgt : cur < newT) :
    (expireTail key [name, key, n, b "lt"] newT true).run c s = (s, .done (.ok (intReply 0))) := by
  simp [expireTail, opt_facts, h, hgt]

/-- without an option the new deadline is stored and reported -/
theorem expire_plain_sets (c : Ctx) (s s' : State) (key name n : Bytes) (newT : Int)
    (h : setExpiry c s key (some newT) = some s') :
    (expireTail key [name, key, n] newT true).run c s = (s', .done (.ok (intReply 1))) ∧
    getExpiry s' c.db key = some newT := by
  refine ⟨?_, deadline_set_is_reported c s s' key (some newT) h⟩
  simp only [expireTail, Bool.not_true, Bool.false_eq_true, if_false]
  rw [run_setExpiry_some c s s' key (some newT) true _ h]
  rfl

/-- **GETEX k PERSIST makes the key permanent** (repaired in /repo by a `fix:` commit; before it the option was
    never recognised and the deadline stayed). For every state and every live key with a printable value: after
    `GETEX k PERSIST` no deadline is reported for the key, and at **every** later clock reading the key is still
    served with its value — it never expires. -/
theorem getex_persist_never_expires (c : Ctx) (s : State) (k : Bytes) (e : Entry) (t : Bytes)
    (h : s.lookup c.db k = some e) (hlive : e.expired c.now = false) (hv : e.val.fmtV = some t) (later : Int) :
    let s' := ((handleGetex c [b "getex", k, b "persist"]).run c s).1
    getExpiry s' c.db k = none ∧
    getValues { c with now := later } s' [k] = (s', [e.val]) := by
  have hrun : ((handleGetex c [b "getex", k, b "persist"]).run c s).1.lookup c.db k = some ⟨e.val, none⟩ := by
    obtain ⟨s', hr, h1, _, _⟩ := handleGetex_persist_run c s k (b "persist") [] e t h hlive hv
      persist_tokens.1 persist_tokens.2.1 (by simp)
    rw [hr]; exact h1
  intro s'
  refine ⟨?_, ?_⟩
  · simp only [getExpiry]
    rw [show s'.lookup c.db k = _ from hrun]
  · exact getValues_live { c with now := later } s' k ⟨e.val, none⟩ hrun (by simp [Entry.expired])

/-- non-vacuity: the deadline 1500 is gone after GETEX PERSIST at 1000, and the key is served at 999999 -/
example :
    let c : Ctx := { db := 0, now := 1000 }
    let s : State := { dbs := [(0, ⟨[(b "k", ⟨.str (b "v"), some 1500⟩)], [b "k"]⟩)], mem := 57 }
    let s' := ((handleGetex c [b "getex", b "k", b "PERSIST"]).run c s).1
    getExpiry s' 0 (b "k") = none ∧ (getValues { c with now := 999999 } s' [b "k"]).2 = [Val.str (b "v")] := by decide

/-- **TYPE treats an expired key as missing** (repaired in /repo by a `fix:` commit; before it the nil that the
    value read returns for an expired key made the handler panic). For every state and every stored key whose
    deadline has passed: the answer is the "does not exist" error of a missing key. -/
theorem type_on_expired_reads_missing (c : Ctx) (s : State) (k : Bytes) (e : Entry)
    (h : s.lookup c.db k = some e) (hexp : e.expired c.now = true) :
    ((handleType c [b "type", k]).run c s).2 = .done (.err (b "key " ++ k ++ b " does not exist")) := by
  have hg := getValues_expired c s k e h hexp
  simp [handleType, keysExist_single, h, hg]

/-- … and so it does for an entry that holds only a deadline (value nil), leaving the state as it is -/
theorem type_on_valueless_entry (c : Ctx) (s : State) (k : Bytes) (ex : Option Int)
    (h : s.lookup c.db k = some ⟨.nil, ex⟩) (hlive : (⟨.nil, ex⟩ : Entry).expired c.now = false) :
    (handleType c [b "type", k]).run c s = (s, .done (.err (b "key " ++ k ++ b " does not exist"))) := by
  simp [handleType, keysExist_single, h, getValues_live c s k _ h hlive]

/-- non-vacuity (the former witness of the panic): SET k v PX 1000; 1001 ms later GETEX k PX 1000; TYPE k -/
example :
    let c : Ctx := { db := 0, now := 2001 }
    let s : State := { dbs := [(0, ⟨[(b "k", ⟨.str (b "v"), some 2000⟩)], [b "k"]⟩)], mem := 57 }
    ((handleType c [b "type", b "k"]).run c ((handleGetex c [b "getex", b "k", b "px", b "1000"]).run c s).1).2
      = .done (.err (b "key k does not exist")) := by decide

/-- **A renamed value keeps its own deadline and never takes the overwritten key's** (repaired in /repo by a
    `fix:` commit; before it RENAME onto an existing key with a deadline gave the moved value that deadline and
    dropped the source's). For every state, live source and EVERY destination — absent, with a deadline, or
    stale: afterwards the destination carries exactly the source's deadline; so it is served (unchanged) by every
    read up to that deadline under any later clock, never after it, and a source without a deadline yields a
    key that never expires, whatever deadline the overwritten key had. -/
theorem rename_keeps_own_deadline (c : Ctx) (s : State) (old new : Bytes) (e : Entry) (hm : c.cfg.maxMemory = 0)
    (h : s.lookup c.db old = some e) (hlive : e.expired c.now = false) (hv : e.val ≠ .nil) (hne : old ≠ new) :
    let s' := ((handleRename c [b "rename", old, new]).run c s).1
    s'.lookup c.db new = some ⟨e.val, e.exp⟩ ∧
    (∀ c' : Ctx, c'.db = c.db → e.expired c'.now = false → getValues c' s' [new] = (s', [e.val])) ∧
    (∀ c' : Ctx, c'.db = c.db → e.expired c'.now = true → (getValues c' s' [new]).2 = [Val.nil]) ∧
    (e.exp = none → ∀ c' : Ctx, c'.db = c.db → getValues c' s' [new] = (s', [e.val])) := by
  obtain ⟨s', hrun, h1, _, _⟩ := handleRename_run c s old new e hm h hlive hv hne
  simp only [hrun]
  have hx : ∀ now, (⟨e.val, e.exp⟩ : Entry).expired now = e.expired now := fun _ => rfl
  refine ⟨h1, ?_, ?_, ?_⟩
  · intro c' hdb hl
    exact getValues_live c' s' new _ (by rw [hdb]; exact h1) (by rw [hx]; exact hl)
  · intro c' hdb hl
    exact getValues_expired c' s' new _ (by rw [hdb]; exact h1) (by rw [hx]; exact hl)
  · intro hn c' hdb
    exact getValues_live c' s' new _ (by rw [hdb]; exact h1) (Entry.not_expired_none _ _ hn)

/-- RENAME onto a key whose deadline has passed: the moved value is served (it does not inherit the stale deadline) -/
theorem rename_onto_stale_key_is_served (c : Ctx) (s : State) (old new : Bytes) (e e2 : Entry) (hm : c.cfg.maxMemory = 0)
    (h : s.lookup c.db old = some e) (hlive : e.expired c.now = false) (hv : e.val ≠ .nil) (hne : old ≠ new)
    (_h2 : s.lookup c.db new = some e2) (_hstale : e2.expired c.now = true) :
    (getValues c ((handleRename c [b "rename", old, new]).run c s).1 [new]).2 = [e.val] := by
  have := (rename_keeps_own_deadline c s old new e hm h hlive hv hne).2.1 c rfl hlive
  rw [this]

/-- non-vacuity (the former witness of the defect, classes of C01 and C04): SET k1 old PX 1000; SET k2 7 PX 3000;
    RENAME k1 k2 — PTTL k2 now answers k1's remaining 1000 ms (it answered 3000), and 1001 ms later k2 is gone -/
example :
    let c : Ctx := { db := 0, now := 1000 }
    let s : State := { dbs := [(0, ⟨[(b "k1", ⟨.str (b "old"), some 2000⟩), (b "k2", ⟨.int 7, some 4000⟩)], [b "k1", b "k2"]⟩)], mem := 0 }
    let s' := ((handleRename c [b "rename", b "k1", b "k2"]).run c s).1
    ((handleTTL c [b "pttl", b "k2"]).run c s').2 = .done (.ok (b ":1000\r\n")) ∧
    (getValues { c with now := 2001 } s' [b "k2"]).2 = [Val.nil] := by decide

/-! ### where "unobservable once expired" fails (model witnesses, class `expired-key-still-exists`) -/

/-- TTL on a key whose deadline has passed answers 0 instead of -2 -/
theorem ttl_on_expired_answers_zero_witness :
    let c : Ctx := { db := 0, now := 2000 }
    let s : State := { dbs := [(0, ⟨[(b "k", ⟨.str (b "v"), some 1500⟩)], [b "k"]⟩)], mem := 57 }
    ((handleTTL c [b "ttl", b "k"]).run c s).2 = .done (.ok (b ":0\r\n")) := by decide

/-- a value written after the deadline has passed inherits the stale deadline and is itself invisible -/
theorem set_inherits_stale_deadline_witness :
    let c : Ctx := { db := 0, now := 2000 }
    let s : State := { dbs := [(0, ⟨[(b "k", ⟨.str (b "old"), some 1500⟩)], [b "k"]⟩)], mem := 59 }
    (((handleSet c [b "set", b "k", b "new"]).run c s).1.lookup 0 (b "k")).map (·.exp) = some (some 1500) := by decide

/-- EXPIRE revives a key whose deadline has passed -/
theorem expire_revives_expired_witness :
    let c : Ctx := { db := 0, now := 2000 }
    let s : State := { dbs := [(0, ⟨[(b "k", ⟨.str (b "v"), some 1500⟩)], [b "k"]⟩)], mem := 57 }
    obsAt 2000 ((handleExpire c [b "expire", b "k", b "10"]).run c s).1 0 (b "k") = some ⟨.str (b "v"), some 12000⟩ := by decide

/-- non-vacuity of `served_until_deadline`: exactly at the deadline the key is still served -/
example : let c : Ctx := { db := 0, now := 1500 }
    let s : State := { dbs := [(0, ⟨[(b "k", ⟨.str (b "v"), some 1500⟩)], [b "k"]⟩)], mem := 57 }
    getValues c s [b "k"] = (s, [Val.str (b "v")]) := by decide

end Sugar.Props.C04
