/-
  Props.C10 — snapshots and crashes: the data directory at every step of TakeSnapshot, as a pure
  function of the previous image and the new snapshot, and what a fresh server restores from each.
  TakeSnapshot writes the state file first and publishes the manifest by an atomic rename (repaired
  upstream; before, the manifest was replaced before the state file it named existed and every
  intermediate image restored nothing). Every image before the rename restores exactly what the previous
  image restored, every image from the rename on restores the complete new snapshot: the property holds
  in full (`snapshot_crash_atomic`). Helper lemmas live in Lemmas/RestoreLemmas.lean.
-/
import SugarModel.Lemmas.JsonLemmas
import SugarModel.Spec.Durable
namespace Sugar.Props.C10
open Sugar Sugar.Persist

abbrev fresh : State := { dbs := [], mem := 0 }

/-- the data directory after `step` file operations of a TakeSnapshot that writes snapshot `ms`
    (dataset `ds`, recorded time `ls`) on top of the image `prev`:
    0 nothing yet · 1 directory `ms` created (no `state.bin`) · 2 `state.bin` created empty ·
    3 `state.bin` written (complete) · 4 `manifest.bin.tmp` written next to the old manifest (a file the
    restore never looks at: the image is that of step 3) · 5 (and later) the rename has replaced the
    manifest, which now names `ms` -/
def snapStep (prev : SnapImage) (ms : Nat) (ds : List (Nat × List (Bytes × Entry))) (ls : Int) : Nat → SnapImage
  | 0 => prev
  | 1 => { manifest := prev.manifest, dirs := prev.dirs ++ [⟨ms, none⟩] }
  | 2 => { manifest := prev.manifest, dirs := prev.dirs ++ [⟨ms, some none⟩] }
  | 3 => { manifest := prev.manifest, dirs := prev.dirs ++ [⟨ms, some (some (ds, ls))⟩] }
  | 4 => { manifest := prev.manifest, dirs := prev.dirs ++ [⟨ms, some (some (ds, ls))⟩] }
  | _ => { manifest := some (some ms), dirs := prev.dirs ++ [⟨ms, some (some (ds, ls))⟩] }

/-- the new snapshot's name is new: it is not 0, no existing snapshot directory bears it and the
    current manifest does not name it (names are unix milliseconds; TakeSnapshot refuses a second
    snapshot in the same millisecond, and a manifest only ever names a snapshot taken earlier) -/
def NewName (prev : SnapImage) (ms : Nat) : Prop :=
  ms ≠ 0 ∧ (∀ d ∈ prev.dirs, d.name ≠ ms) ∧ prev.manifest ≠ some (some (ms : Int))

private theorem find_prev_none (prev : SnapImage) (ms : Nat) (h : NewName prev ms) :
    prev.dirs.find? (fun d => (d.name : Int) == (ms : Int)) = none := by
  rw [List.find?_eq_none]
  intro d hd
  have := h.2.1 d hd
  simp only [beq_iff_eq, Int.natCast_inj]
  exact this

private theorem ms_ne_zero (ms : Nat) (h : ms ≠ 0) : ((ms : Int) == 0) = false := by
  simp only [beq_eq_false_iff_ne, ne_eq, Int.natCast_eq_zero]; exact h

/-- a directory entry for a new name, appended while the manifest is untouched, is invisible to the
    restore: the manifest names something else, and the lookup of that name is not shadowed -/
private theorem appended_dir_invisible (now : Int) (prev : SnapImage) (ms : Nat)
    (st : Option (Option (List (Nat × List (Bytes × Entry)) × Int))) (hn : NewName prev ms) :
    restoreSnap now { manifest := prev.manifest, dirs := prev.dirs ++ [⟨ms, st⟩] } = restoreSnap now prev := by
  cases hm : prev.manifest with
  | none => simp [restoreSnap, hm]
  | some m =>
    cases m with
    | none => simp [restoreSnap, hm]
    | some m0 =>
      have hne : m0 ≠ (ms : Int) := by
        intro h; exact hn.2.2 (by rw [hm, h])
      have hfind : (prev.dirs ++ [(⟨ms, st⟩ : SnapDir)]).find? (fun d => (d.name : Int) == m0) =
          prev.dirs.find? (fun d => (d.name : Int) == m0) := by
        rw [List.find?_append]
        cases prev.dirs.find? (fun d => (d.name : Int) == m0) with
        | some d => rfl
        | none =>
          have : (((ms : Nat) : Int) == m0) = false := by
            simp only [beq_eq_false_iff_ne, ne_eq]; exact fun h => hne h.symm
          simp [this]
      simp only [restoreSnap, hm, hfind]

/-- **A crash before the rename restores the previous snapshot** (steps 0–4: nothing yet, directory
    created, state file created, state file written, temporary manifest written): a fresh server
    restores exactly what it would have restored from the previous image — same keyspace, same LASTSAVE. -/
theorem crash_before_rename_restores_previous (now : Int) (prev : SnapImage) (ms : Nat)
    (ds : List (Nat × List (Bytes × Entry))) (ls : Int) (hn : NewName prev ms) (step : Nat) (h4 : step ≤ 4) :
    restoreSnap now (snapStep prev ms ds ls step) = restoreSnap now prev := by
  have : step = 0 ∨ step = 1 ∨ step = 2 ∨ step = 3 ∨ step = 4 := by omega
  rcases this with h | h | h | h | h <;> subst h
  · rfl
  all_goals exact appended_dir_invisible now prev ms _ hn

/-- **A crash after the rename restores the new snapshot, complete** (step 5 and every later
    instant): the restore is the restore of the new dataset, LASTSAVE the new time -/
theorem crash_after_rename_restores_new (now : Int) (prev : SnapImage) (ms : Nat)
    (ds : List (Nat × List (Bytes × Entry))) (ls : Int) (n : Nat) (hn : NewName prev ms) :
    restoreSnap now (snapStep prev ms ds ls (n + 5)) =
      (match restoreDataset now fresh ds with | none => (.panic, ls) | some s => (.ok s, ls)) := by
  simp only [snapStep, restoreSnap, ms_ne_zero ms hn.1, Bool.false_eq_true, if_false, List.find?_append,
    find_prev_none prev ms hn, List.find?_cons, beq_self_eq_true, Option.none_or, Option.bind_some]
  cases restoreDataset now fresh ds <;> rfl

/-- the new snapshot, once published, is served key by key (distinct indices and keys): every entry
    whose deadline has not passed is served exactly as snapshotted, and LASTSAVE is the recorded time -/
theorem new_snapshot_served_partial (now : Int) (prev : SnapImage) (ms : Nat)
    (ds : List (Nat × List (Bytes × Entry))) (ls : Int) (n : Nat) (hn : NewName prev ms)
    (hd : (ds.map Prod.fst).Nodup) (hk : ∀ i es, (i, es) ∈ ds → (es.map Prod.fst).Nodup) :
    ∃ s', restoreSnap now (snapStep prev ms ds ls (n + 5)) = (.ok s', ls) ∧
      ∀ i es, (i, es) ∈ ds → ∀ k e, (k, e) ∈ es → e.expired now = false → s'.lookup i k = some e := by
  obtain ⟨s', h0, ha, _, _⟩ := restoreDataset_spec now ds fresh hd hk
  exact ⟨s', by rw [crash_after_rename_restores_new now prev ms ds ls n hn, h0], ha⟩

/-- every image from the rename on restores the same thing: the image of step 5 -/
theorem after_rename_all_steps_agree (prev : SnapImage) (ms : Nat)
    (ds : List (Nat × List (Bytes × Entry))) (ls : Int) (n : Nat) :
    snapStep prev ms ds ls (n + 5) = snapStep prev ms ds ls 5 := rfl

/-- **Snapshots are crash-atomic** — the full statement, for every previous image, every new
    snapshot (name, dataset, time) and a crash after ANY number of file operations: a fresh server
    restores either exactly what the previous image restored or the complete new snapshot; never a
    mixture, never nothing where there was something. -/
theorem snapshot_crash_atomic (now : Int) (prev : SnapImage) (ms : Nat)
    (ds : List (Nat × List (Bytes × Entry))) (ls : Int) (step : Nat) (hn : NewName prev ms) :
    restoreSnap now (snapStep prev ms ds ls step) = restoreSnap now prev ∨
    restoreSnap now (snapStep prev ms ds ls step) = restoreSnap now (snapStep prev ms ds ls 5) := by
  by_cases h : step ≤ 4
  · exact Or.inl (crash_before_rename_restores_previous now prev ms ds ls hn step h)
  · obtain ⟨n, rfl⟩ : ∃ n, step = n + 5 := ⟨step - 5, by omega⟩
    exact Or.inr rfl

/-- **A failed attempt leaves the previous snapshot untouched**: an attempt that stops at any step
    before the rename — the directory or the state file cannot be created or written, the temporary
    manifest cannot be written — leaves a data directory from which exactly the previous snapshot is
    restored. -/
theorem failed_attempt_keeps_previous (now : Int) (prev : SnapImage) (ms : Nat)
    (ds : List (Nat × List (Bytes × Entry))) (ls : Int) (hn : NewName prev ms) (stoppedAt : Nat) (h : stoppedAt ≤ 4) :
    restoreSnap now (snapStep prev ms ds ls stoppedAt) = restoreSnap now prev :=
  crash_before_rename_restores_previous now prev ms ds ls hn stoppedAt h

/-- one snapshot attempt: name, dataset, recorded time, and the number of file operations it got through -/
abbrev Attempt := Nat × List (Nat × List (Bytes × Entry)) × Int × Nat

/-- the data directory after a run of attempts, each on top of what the earlier ones left behind -/
def attemptsRun : SnapImage → List Attempt → SnapImage
  | im, [] => im
  | im, (ms, ds, ls, st) :: rest => attemptsRun (snapStep im ms ds ls st) rest

/-- every attempt of the run uses a name new to the directory *it* finds, and stops before the rename -/
def AllFailedNew : SnapImage → List Attempt → Prop
  | _, [] => True
  | im, (ms, ds, ls, st) :: rest => NewName im ms ∧ st ≤ 4 ∧ AllFailedNew (snapStep im ms ds ls st) rest

/-- **Any number of failed or interrupted attempts in a row leaves the previous snapshot restorable**: however many
    attempts stop before their rename (each leaving its directory and partial files behind for the next one to find),
    a fresh server still restores exactly what the image before the first of them restored. Unbounded in the number
    of attempts. -/
theorem repeated_failed_attempts_keep_previous (now : Int) (xs : List Attempt) (prev : SnapImage)
    (h : AllFailedNew prev xs) : restoreSnap now (attemptsRun prev xs) = restoreSnap now prev := by
  induction xs generalizing prev with
  | nil => rfl
  | cons x rest ih =>
    obtain ⟨ms, ds, ls, st⟩ := x
    simp only [AllFailedNew] at h
    simp only [attemptsRun]
    rw [ih _ h.2.2]
    exact failed_attempt_keeps_previous now prev ms ds ls h.1 st h.2.1

/-- non-vacuity: two interrupted attempts (steps 2 and 4) on an empty directory satisfy the hypothesis -/
example : AllFailedNew { manifest := none, dirs := [] } [(5, [], 5, 2), (6, [], 6, 4)] := by
  simp [AllFailedNew, NewName, snapStep]

/-- the previous snapshot's directory is intact at every step: nothing of it is removed or rewritten -/
theorem previous_directory_intact (prev : SnapImage) (ms : Nat) (ds : List (Nat × List (Bytes × Entry)))
    (ls : Int) (step : Nat) (d : SnapDir) (hd : d ∈ prev.dirs) : d ∈ (snapStep prev ms ds ls step).dirs := by
  unfold snapStep
  split <;> simp [hd]

/-- more generally, whatever an attempt leaves behind in new directories while the manifest is
    untouched does not disturb a restorable previous snapshot -/
theorem failed_attempt_before_manifest_keeps_previous (now : Int) (prev : SnapImage) (ms0 : Int) (extra : List SnapDir)
    (hm : prev.manifest = some (some ms0))
    (hx : (prev.dirs.find? fun d => (d.name : Int) == ms0).isSome = true) :
    restoreSnap now { manifest := prev.manifest, dirs := prev.dirs ++ extra } = restoreSnap now prev := by
  have : (prev.dirs ++ extra).find? (fun d => (d.name : Int) == ms0) = prev.dirs.find? (fun d => (d.name : Int) == ms0) := by
    rw [List.find?_append]
    cases hf : prev.dirs.find? (fun d => (d.name : Int) == ms0) with
    | none => rw [hf] at hx; simp at hx
    | some d => rfl
  simp only [restoreSnap, hm, this]

/-- a fact about `restoreSnap` alone (NOT reachable by the repaired step sequence, which publishes the
    manifest only after the state file is complete): a manifest naming a snapshot for which no directory
    holds a state file restores nothing, whatever complete snapshots the other directories hold -/
theorem dangling_manifest_restores_nothing (now : Int) (dirs : List SnapDir) (ms : Nat)
    (h : ∀ d ∈ dirs, d.name = ms → d.state = none) :
    restoreSnap now { manifest := some (some ms), dirs := dirs } = (.ok fresh, 0) := by
  unfold restoreSnap
  simp only
  split
  · rfl
  · have : (dirs.find? fun d => (d.name : Int) == (ms : Int)).bind (·.state) = none := by
      cases hf : dirs.find? fun d => (d.name : Int) == (ms : Int) with
      | none => rfl
      | some d =>
        have hm := List.mem_of_find?_eq_some hf
        have hp := List.find?_some hf
        simp only [beq_iff_eq, Int.natCast_inj] at hp
        simp only [Option.bind_some]
        exact h d hm hp
    simp only [this]

/-- the hypotheses are satisfiable: a previous image with one complete snapshot and a later name -/
example : NewName { manifest := some (some 1000), dirs := [⟨1000, some (some ([], 1000))⟩] } 2000 :=
  ⟨by decide, by intro d hd; simp only [List.mem_singleton] at hd; subst hd; decide, by decide⟩

/-- … and on a data directory without any snapshot yet -/
example : NewName { manifest := none, dirs := [] } 2000 :=
  ⟨by decide, by intro d hd; simp at hd, by simp⟩

/-- concrete witness, all six steps: the previous snapshot (taken at 1000) holds k = v; a crash after
    each of the steps 0–4 restores k = v with LASTSAVE 1000, a crash after the rename restores the new
    snapshot k = w with LASTSAVE 2000 (replaces the former witness that steps 1–4 restored nothing;
    repaired upstream) -/
theorem crash_atomic_witness :
    let prev : SnapImage := { manifest := some (some 1000), dirs := [⟨1000, some (some ([(0, [(b "k", ⟨.str (b "v"), none⟩)])], 1000))⟩] }
    let new : List (Nat × List (Bytes × Entry)) := [(0, [(b "k", ⟨.str (b "w"), none⟩)])]
    let served := fun (im : SnapImage) => match restoreSnap 3000 im with
      | (.ok s, ls) => ((s.lookup 0 (b "k")).map (·.val), ls) | _ => (none, -1)
    (List.range 6).map (fun n => served (snapStep prev 2000 new 2000 n)) =
      [(some (.str (b "v")), 1000), (some (.str (b "v")), 1000), (some (.str (b "v")), 1000),
       (some (.str (b "v")), 1000), (some (.str (b "v")), 1000), (some (.str (b "w")), 2000)] := by
  decide +kernel

end Sugar.Props.C10
