/-
  Props.C10 — snapshots and crashes: the data directory at every step of TakeSnapshot, as a pure
  function of the previous image and the new snapshot, and what a fresh server restores from each.
  The first and the last image restore a complete snapshot (the previous one, the new one); every
  image in between restores NOTHING although the previous snapshot directory is intact — the manifest
  is replaced before the state file it names exists (class `manifest-replaced-before-state` of
  Known.lean). Helper lemmas live in Lemmas/RestoreLemmas.lean.
-/
import SugarModel.Lemmas.JsonLemmas
import SugarModel.Spec.Durable
namespace Sugar.Props.C10
open Sugar Sugar.Persist

abbrev fresh : State := { dbs := [], mem := 0 }

/-- the data directory after `step` file operations of a TakeSnapshot that writes snapshot `ms`
    (dataset `ds`, recorded time `ls`) on top of the image `prev`:
    0 nothing yet · 1 manifest created empty · 2 manifest written (names `ms`) · 3 directory `ms`
    created · 4 `state.bin` created empty · 5 (and later) `state.bin` written -/
def snapStep (prev : SnapImage) (ms : Nat) (ds : List (Nat × List (Bytes × Entry))) (ls : Int) : Nat → SnapImage
  | 0 => prev
  | 1 => { manifest := some none, dirs := prev.dirs }
  | 2 => { manifest := some (some ms), dirs := prev.dirs }
  | 3 => { manifest := some (some ms), dirs := prev.dirs ++ [⟨ms, none⟩] }
  | 4 => { manifest := some (some ms), dirs := prev.dirs ++ [⟨ms, some none⟩] }
  | _ => { manifest := some (some ms), dirs := prev.dirs ++ [⟨ms, some (some (ds, ls))⟩] }

/-- the new snapshot's name is not the name of an existing snapshot directory (names are unix
    milliseconds; TakeSnapshot refuses a second snapshot in the same millisecond) -/
def NewName (prev : SnapImage) (ms : Nat) : Prop := ms ≠ 0 ∧ ∀ d ∈ prev.dirs, d.name ≠ ms

private theorem find_prev_none (prev : SnapImage) (ms : Nat) (h : NewName prev ms) :
    prev.dirs.find? (fun d => (d.name : Int) == (ms : Int)) = none := by
  rw [List.find?_eq_none]
  intro d hd
  have := h.2 d hd
  simp only [beq_iff_eq, Int.natCast_inj]
  exact this

private theorem ms_ne_zero (ms : Nat) (h : ms ≠ 0) : ((ms : Int) == 0) = false := by
  simp only [beq_eq_false_iff_ne, ne_eq, Int.natCast_eq_zero]; exact h

/-- **A crash before the manifest is touched restores the previous snapshot** (step 0) -/
theorem crash_before_manifest_step_restores_previous (now : Int) (prev : SnapImage) (ms : Nat)
    (ds : List (Nat × List (Bytes × Entry))) (ls : Int) :
    restoreSnap now (snapStep prev ms ds ls 0) = restoreSnap now prev := rfl

/-- **A crash after the state file is written restores the new snapshot, complete** (step 5 and
    every later instant): the restore is the restore of the new dataset, LASTSAVE the new time -/
theorem crash_after_state_written_restores_new (now : Int) (prev : SnapImage) (ms : Nat)
    (ds : List (Nat × List (Bytes × Entry))) (ls : Int) (n : Nat) (hn : NewName prev ms) :
    restoreSnap now (snapStep prev ms ds ls (n + 5)) =
      (match restoreDataset now fresh ds with | none => (.panic, ls) | some s => (.ok s, ls)) := by
  simp only [snapStep, restoreSnap, ms_ne_zero ms hn.1, Bool.false_eq_true, if_false, List.find?_append,
    find_prev_none prev ms hn, List.find?_cons, beq_self_eq_true, Option.none_or, Option.bind_some]
  cases restoreDataset now fresh ds <;> rfl

/-- the new snapshot, once complete, is served key by key (distinct indices and keys) -/
theorem new_snapshot_served_partial (now : Int) (prev : SnapImage) (ms : Nat)
    (ds : List (Nat × List (Bytes × Entry))) (ls : Int) (n : Nat) (hn : NewName prev ms)
    (hd : (ds.map Prod.fst).Nodup) (hk : ∀ i es, (i, es) ∈ ds → (es.map Prod.fst).Nodup) :
    ∃ s', restoreSnap now (snapStep prev ms ds ls (n + 5)) = (.ok s', ls) ∧
      ∀ i es, (i, es) ∈ ds → ∀ k e, (k, e) ∈ es → e.expired now = false → s'.lookup i k = some e := by
  obtain ⟨s', h0, ha, _, _⟩ := restoreDataset_spec now ds fresh hd hk
  exact ⟨s', by rw [crash_after_state_written_restores_new now prev ms ds ls n hn, h0], ha⟩

/-- **The manifest window loses the previous snapshot** — the universally quantified statement of the
    defect: for every previous image (whatever complete snapshot it holds and would restore), every new
    snapshot name and dataset, a crash after step 1, 2, 3 or 4 leaves a directory from which a fresh
    server restores nothing at all, LASTSAVE 0. -/
theorem manifest_window_loses_previous (now : Int) (prev : SnapImage) (ms : Nat)
    (ds : List (Nat × List (Bytes × Entry))) (ls : Int) (hn : NewName prev ms)
    (step : Nat) (h1 : 1 ≤ step) (h4 : step ≤ 4) :
    restoreSnap now (snapStep prev ms ds ls step) = (.ok fresh, 0) := by
  have : step = 1 ∨ step = 2 ∨ step = 3 ∨ step = 4 := by omega
  rcases this with h | h | h | h <;> subst h
  · rfl
  · simp [snapStep, restoreSnap, ms_ne_zero ms hn.1, find_prev_none prev ms hn]
  · simp [snapStep, restoreSnap, ms_ne_zero ms hn.1, List.find?_append, find_prev_none prev ms hn]
  · simp [snapStep, restoreSnap, ms_ne_zero ms hn.1, List.find?_append, find_prev_none prev ms hn]

/-- **In the window the directory restores neither the old nor the new snapshot**: if the previous
    image restored a snapshot (LASTSAVE ≠ 0) and the new one records a time ≠ 0, the restore at steps
    1–4 differs from both — the property's "either the complete new snapshot or the complete
    previous one" fails at every one of these instants. -/
theorem window_is_neither_old_nor_new (now : Int) (prev : SnapImage) (ms : Nat)
    (ds : List (Nat × List (Bytes × Entry))) (ls : Int) (hn : NewName prev ms)
    (step : Nat) (h1 : 1 ≤ step) (h4 : step ≤ 4)
    (hp : (restoreSnap now prev).2 ≠ 0) (hl : ls ≠ 0) :
    restoreSnap now (snapStep prev ms ds ls step) ≠ restoreSnap now prev ∧
    restoreSnap now (snapStep prev ms ds ls step) ≠
      (match restoreDataset now fresh ds with | none => (.panic, ls) | some s => (.ok s, ls)) := by
  rw [manifest_window_loses_previous now prev ms ds ls hn step h1 h4]
  constructor
  · intro h
    rw [← h] at hp
    exact hp rfl
  · intro h
    cases hr : restoreDataset now fresh ds with
    | none => rw [hr] at h; simp only [Prod.mk.injEq] at h; exact hl h.2.symm
    | some s => rw [hr] at h; simp only [Prod.mk.injEq] at h; exact hl h.2.symm

/-- … although the previous snapshot's directory is intact at every step: nothing of it is removed
    or rewritten, only the manifest no longer names it -/
theorem previous_directory_intact (prev : SnapImage) (ms : Nat) (ds : List (Nat × List (Bytes × Entry)))
    (ls : Int) (step : Nat) (d : SnapDir) (hd : d ∈ prev.dirs) : d ∈ (snapStep prev ms ds ls step).dirs := by
  unfold snapStep
  split <;> simp [hd]

/-- **Crash atomicity holds exactly outside the window**: at step 0 and from step 5 on, the restore
    is that of the previous image or that of the complete new snapshot. -/
theorem crash_atomic_outside_window_partial (now : Int) (prev : SnapImage) (ms : Nat)
    (ds : List (Nat × List (Bytes × Entry))) (ls : Int) (hn : NewName prev ms) (step : Nat)
    (h : step = 0 ∨ 5 ≤ step) :
    restoreSnap now (snapStep prev ms ds ls step) = restoreSnap now prev ∨
    restoreSnap now (snapStep prev ms ds ls step) =
      (match restoreDataset now fresh ds with | none => (.panic, ls) | some s => (.ok s, ls)) := by
  rcases h with h | h
  · subst h; exact Or.inl rfl
  · obtain ⟨n, rfl⟩ : ∃ n, step = n + 5 := ⟨step - 5, by omega⟩
    exact Or.inr (crash_after_state_written_restores_new now prev ms ds ls n hn)

/-- **A failed attempt that got as far as the manifest leaves it dangling**: a manifest naming a
    snapshot for which no directory holds a state file restores nothing, whatever complete snapshots
    the other directories hold. -/
theorem failed_attempt_dangling_manifest (now : Int) (dirs : List SnapDir) (ms : Nat)
    (h : ∀ d ∈ dirs, d.name = ms → d.state = none) :
    restoreSnap now { manifest := some (some ms), dirs := dirs } = (.ok fresh, 0) := by
  unfold restoreSnap
  simp only
  split
  · rfl
  · have : (dirs.find? fun d => (d.name : Int) == (ms : Int)).bind (·.state) = none := by
      cases hf : dirs.find? fun d => (d.name : Int) == (ms : Int) with
      | none => rfl
      | some d =>
        have hm := List.mem_of_find?_eq_some hf
        have hp := List.find?_some hf
        simp only [beq_iff_eq, Int.natCast_inj] at hp
        simp only [Option.bind_some]
        exact h d hm hp
    simp only [this]

/-- a failed attempt that stopped before touching the manifest leaves the previous snapshot
    restorable as it was, whatever it created in a new directory -/
theorem failed_attempt_before_manifest_keeps_previous (now : Int) (prev : SnapImage) (ms0 : Int) (extra : List SnapDir)
    (hm : prev.manifest = some (some ms0))
    (hx : (prev.dirs.find? fun d => (d.name : Int) == ms0).isSome = true) :
    restoreSnap now { manifest := prev.manifest, dirs := prev.dirs ++ extra } = restoreSnap now prev := by
  have : (prev.dirs ++ extra).find? (fun d => (d.name : Int) == ms0) = prev.dirs.find? (fun d => (d.name : Int) == ms0) := by
    rw [List.find?_append]
    cases hf : prev.dirs.find? (fun d => (d.name : Int) == ms0) with
    | none => rw [hf] at hx; simp at hx
    | some d => rfl
  simp only [restoreSnap, hm, this]

/-- the hypotheses are satisfiable: a previous image with one complete snapshot and a later name -/
example : NewName { manifest := some (some 1000), dirs := [⟨1000, some (some ([], 1000))⟩] } 2000 :=
  ⟨by decide, by intro d hd; simp only [List.mem_singleton] at hd; subst hd; decide⟩

/-- concrete witness: the previous snapshot (taken at 1000) holds k = v and is restorable; a crash
    right after the manifest is rewritten for snapshot 2000 leaves a directory that restores nothing,
    and so does a crash after the new directory and after the empty state file are created -/
theorem manifest_window_loses_previous_witness :
    let prev : SnapImage := { manifest := some (some 1000), dirs := [⟨1000, some (some ([(0, [(b "k", ⟨.str (b "v"), none⟩)])], 1000))⟩] }
    let new : List (Nat × List (Bytes × Entry)) := [(0, [(b "k", ⟨.str (b "w"), none⟩)])]
    let served := fun (im : SnapImage) => match restoreSnap 3000 im with
      | (.ok s, ls) => ((s.lookup 0 (b "k")).map (·.val), ls) | _ => (none, -1)
    (List.range 6).map (fun n => served (snapStep prev 2000 new 2000 n)) =
      [(some (.str (b "v")), 1000), (none, 0), (none, 0), (none, 0), (none, 0), (some (.str (b "w")), 2000)] := by
  decide +kernel

end Sugar.Props.C10
