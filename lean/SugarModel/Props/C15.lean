/-
  Props.C15 — list commands implement a sequence: per-command refinement laws of the model's LLEN /
  LINDEX / LRANGE / LSET / LTRIM / LREM / LMOVE / LPUSH(X) / RPUSH(X) / LPOP / RPOP handlers over
  arbitrary states, keys, elements and indices, stated with plain list operations; composed
  read-your-writes laws; and witnesses of the inputs on which the full statement fails (each one a class
  of Known.classifyColl). `_partial` theorems carry the precise hypothesis that excludes a deviation.
  LRANGE, LTRIM, LREM and LMOVE (empty source, same key) were repaired upstream: their laws are unconditional
  (every index, every count, every list) and the handlers are shown never to panic. The one deviation left
  in this family is `expired-key-still-exists` (shared with the other families).
-/
import SugarModel.Lemmas.ListLemmas
namespace Sugar.Props.C15
open Sugar
set_option linter.unusedSimpArgs false

/-! ### readers: LLEN, LINDEX, LRANGE -/

/-- **LLEN is the length.** -/
theorem llen_length (c : Ctx) (s : State) (k : Bytes) (xs : List Bytes) (ex : Option Int)
    (h : s.lookup c.db k = some ⟨.list xs, ex⟩) (hlive : (⟨.list xs, ex⟩ : Entry).expired c.now = false) :
    (handleLLen c [b "llen", k]).run c s = (s, .done (.ok (intReply xs.length))) := by
  simp [handleLLen, keysExist_single, h, getValues_live _ _ _ _ h hlive, asList?]

/-- LLEN of a key never written is 0 -/
theorem llen_absent (c : Ctx) (s : State) (k : Bytes) (h : s.lookup c.db k = none) :
    (handleLLen c [b "llen", k]).run c s = (s, .done (.ok (intReply 0))) := by
  simp [handleLLen, keysExist_single, h]

/-- **LINDEX reads by zero-based index, negative indices counting from the tail, out of range = nil.**
    `idx` is any text that parses to the 64-bit integer `i`. -/
theorem lindex_read (c : Ctx) (s : State) (k idx : Bytes) (i : Int) (xs : List Bytes) (ex : Option Int)
    (h : s.lookup c.db k = some ⟨.list xs, ex⟩) (hlive : (⟨.list xs, ex⟩ : Entry).expired c.now = false)
    (hi : parseInt64 idx = some i) :
    (handleLIndex c [b "lindex", k, idx]).run c s =
      (s, .done (.ok (
        if 0 ≤ i ∧ i < xs.length then bulkStr (xs.getD i.toNat [])
        else if i < 0 ∧ 0 ≤ (xs.length : Int) + i then bulkStr (xs.getD ((xs.length : Int) + i).toNat [])
        else nilBulk))) := by
  simp only [handleLIndex, run_keysExist, keysExist_single, h, run_getValues, getValues_live _ _ _ _ h hlive,
    List.headD_cons, asList?, hi, Option.isSome_some, Bool.not_true, Bool.false_eq_true, if_false]
  by_cases hneg : i < 0
  · have h1 : ¬ (0 ≤ i ∧ i < (xs.length : Int)) := by omega
    simp only [hneg, if_true, h1, if_false, true_and]
    by_cases h2 : 0 ≤ (xs.length : Int) + i
    · have h3 : ((decide ((xs.length : Int) + i ≥ xs.length)) || decide ((xs.length : Int) + i < 0)) = false := by
        simp only [Bool.or_eq_false_iff, decide_eq_false_iff_not]; omega
      simp [h2, h3]
    · have h3 : ((decide ((xs.length : Int) + i ≥ xs.length)) || decide ((xs.length : Int) + i < 0)) = true := by
        simp only [Bool.or_eq_true, decide_eq_true_eq]; omega
      simp [h2, h3]
  · simp only [hneg, if_false, false_and]
    by_cases h2 : i < (xs.length : Int)
    · have h3 : ((decide (i ≥ (xs.length : Int))) || decide (i < 0)) = false := by
        simp only [Bool.or_eq_false_iff, decide_eq_false_iff_not]; omega
      have h4 : 0 ≤ i := by omega
      have h5 : ¬ ((xs.length : Int) ≤ i) := by omega
      simp [h2, h3, h4, h5]
    · have h3 : ((decide (i ≥ (xs.length : Int))) || decide (i < 0)) = true := by
        simp only [Bool.or_eq_true, decide_eq_true_eq]; omega
      have h5 : (xs.length : Int) ≤ i := by omega
      simp [h2, h3, h5]

/-- LINDEX corollaries: head and last element -/
theorem lindex_head_last (c : Ctx) (s : State) (k x : Bytes) (r : List Bytes) (ex : Option Int)
    (h : s.lookup c.db k = some ⟨.list (x :: r), ex⟩) (hlive : (⟨.list (x :: r), ex⟩ : Entry).expired c.now = false) :
    (handleLIndex c [b "lindex", k, b "0"]).run c s = (s, .done (.ok (bulkStr x))) ∧
    (handleLIndex c [b "lindex", k, b "-1"]).run c s = (s, .done (.ok (bulkStr ((x :: r).getLast (by simp))))) := by
  have p0 : parseInt64 (b "0") = some 0 := by decide
  have p1 : parseInt64 (b "-1") = some (-1) := by decide
  refine ⟨?_, ?_⟩
  · rw [lindex_read c s k _ 0 _ ex h hlive p0]; simp
  · rw [lindex_read c s k _ (-1) _ ex h hlive p1]
    have h1 : ¬ ((0 : Int) ≤ -1 ∧ (-1 : Int) < ((x :: r).length : Int)) := by omega
    have h2 : ((-1 : Int) < 0 ∧ 0 ≤ (((x :: r).length : Nat) : Int) + -1) := by simp only [List.length_cons]; omega
    have h3 : ((((x :: r).length : Nat) : Int) + -1).toNat = (x :: r).length - 1 := by simp only [List.length_cons]; omega
    rw [if_neg h1, if_pos h2, h3, List.getLast_eq_getElem]
    simp

/-- **LRANGE returns exactly the reference slice, for every start and every end index**: the inclusive
    range `inclRange xs i j` of the property statement (Spec.normRange: a negative index counts from the tail,
    `len + idx`; a start before the head is clamped to 0, an end past the tail to `len - 1`; start > end or
    start ≥ len gives the empty array). `st`, `en` are any texts that parse to the 64-bit integers `i`, `j`.
    No hypothesis on the indices: in particular the run is never a panic. -/
theorem lrange_range (c : Ctx) (s : State) (k st en : Bytes) (i j : Int) (xs : List Bytes) (ex : Option Int)
    (h : s.lookup c.db k = some ⟨.list xs, ex⟩) (hlive : (⟨.list xs, ex⟩ : Entry).expired c.now = false)
    (hi : parseInt64 st = some i) (hj : parseInt64 en = some j) :
    (handleLRange c [b "lrange", k, st, en]).run c s = (s, .done (.ok (bulkArr (inclRange xs i j)))) := by
  simp [handleLRange, keysExist_single, h, getValues_live _ _ _ _ h hlive, asList?, hi, hj,
    lrangePure_eq xs i j, Prog.ofOutcome]

/-- the reference slice spelled out for in-range non-negative indices: `lo ≤ hi < len` gives
    `xs[lo], …, xs[hi]` — `hi - lo + 1` elements -/
theorem inclRange_inner (xs : List Bytes) (lo hi : Nat) (h1 : lo ≤ hi) (h2 : hi < xs.length) :
    inclRange xs lo hi = (xs.drop lo).take (hi - lo + 1) ∧ (inclRange xs lo hi).length = hi - lo + 1 := by
  have hn : Spec.normRange xs.length lo hi = some (lo, hi) := by
    unfold Spec.normRange
    have hl : ¬ (xs.length = 0) := by omega
    have a1 : ¬ ((lo : Int) < 0) := by omega
    have a2 : ¬ ((hi : Int) < 0) := by omega
    have a3 : ¬ ((hi : Int) ≥ (xs.length : Int)) := by omega
    have a4 : ¬ ((lo : Int) > (hi : Int)) := by omega
    have a5 : ¬ ((lo : Int) ≥ (xs.length : Int)) := by omega
    simp [a1, a2, a3, a4, a5, hl]
  unfold inclRange
  rw [hn]
  refine ⟨rfl, ?_⟩
  simp only [List.length_take, List.length_drop]
  omega

/-- a negative end index counts from the tail: `LRANGE k 0 -n` drops the last `n - 1` elements
    (the repaired computation `len + end`; the handler used to compute `len - end`) -/
theorem inclRange_neg_end (xs : List Bytes) (n : Nat) (h1 : 1 ≤ n) (h2 : n ≤ xs.length) :
    inclRange xs 0 (-(n : Int)) = xs.take (xs.length - n + 1) := by
  unfold inclRange
  generalize hr : Spec.normRange xs.length 0 (-(n : Int)) = r
  unfold Spec.normRange at hr
  simp only [Bool.or_eq_true, decide_eq_true_eq, beq_iff_eq] at hr
  revert hr
  repeat' split
  all_goals first
    | (intro hr; exfalso; omega)
    | (intro hr; cases hr <;> (simp only [Int.toNat_zero, List.drop_zero, Nat.sub_zero]; congr 1; omega))

/-- **LRANGE k 0 -1 returns the whole list**, element by element, byte for byte -/
theorem lrange_all (c : Ctx) (s : State) (k : Bytes) (xs : List Bytes) (ex : Option Int)
    (h : s.lookup c.db k = some ⟨.list xs, ex⟩) (hlive : (⟨.list xs, ex⟩ : Entry).expired c.now = false) :
    (handleLRange c [b "lrange", k, b "0", b "-1"]).run c s = (s, .done (.ok (bulkArr xs))) := by
  have p0 : parseInt64 (b "0") = some 0 := by decide
  have p1 : parseInt64 (b "-1") = some (-1) := by decide
  rw [lrange_range c s k _ _ 0 (-1) xs ex h hlive p0 p1, inclRange_all]

/-- LRANGE of a key never written is the empty array -/
theorem lrange_absent (c : Ctx) (s : State) (k st en : Bytes) (h : s.lookup c.db k = none) :
    (handleLRange c [b "lrange", k, st, en]).run c s = (s, .done (.ok (bulkArr []))) := by
  simp [handleLRange, keysExist_single, h, bulkArr_nil]

/-! ### LSET, LTRIM, LREM -/

/-- **LSET replaces exactly one element** (index normalised as for LINDEX); other keys untouched -/
theorem lset_replaces (c : Ctx) (s : State) (k idx v : Bytes) (i : Int) (xs : List Bytes) (ex : Option Int)
    (hm : c.cfg.maxMemory = 0)
    (h : s.lookup c.db k = some ⟨.list xs, ex⟩) (hlive : (⟨.list xs, ex⟩ : Entry).expired c.now = false)
    (hi : parseInt64 idx = some i) (hr : -(xs.length : Int) ≤ i ∧ i < xs.length) :
    ∃ s', (handleLSet c [b "lset", k, idx, v]).run c s = (s', .done (.ok okReply)) ∧
      s'.lookup c.db k = some ⟨.list (xs.set (if i < 0 then (xs.length : Int) + i else i).toNat v), ex⟩ ∧
      ∀ k2, k ≠ k2 → s'.lookup c.db k2 = s.lookup c.db k2 := by
  refine ⟨(setValues c s [(k, .list (xs.set (if i < 0 then (xs.length : Int) + i else i).toNat v))]).1, ?_,
    setValues_over c s k _ _ ex hm h, fun k2 hne => setValues_other c s k k2 _ hm hne⟩
  have hs1 := (setValues_single c s k (.list (xs.set (if i < 0 then (xs.length : Int) + i else i).toNat v)) hm).1
  have hin : (decide ((if i < 0 then (xs.length : Int) + i else i) ≥ 0) && decide ((if i < 0 then (xs.length : Int) + i else i) < xs.length)) = true := by
    simp only [Bool.and_eq_true, decide_eq_true_eq]; split <;> omega
  simp only [handleLSet, run_keysExist, keysExist_single, h, run_getValues, getValues_live _ _ _ _ h hlive,
    List.headD_cons, asList?, hi, Option.isSome_some, Bool.not_true, Bool.false_eq_true, if_false, hin, setOrErr,
    run_setValues, hs1, if_true, run_ret]

/-- LSET outside the list fails and changes nothing -/
theorem lset_out_of_range (c : Ctx) (s : State) (k idx v : Bytes) (i : Int) (xs : List Bytes) (ex : Option Int)
    (h : s.lookup c.db k = some ⟨.list xs, ex⟩) (hlive : (⟨.list xs, ex⟩ : Entry).expired c.now = false)
    (hi : parseInt64 idx = some i) (hr : i < -(xs.length : Int) ∨ (xs.length : Int) ≤ i) :
    (handleLSet c [b "lset", k, idx, v]).run c s = (s, .done (.err (b "index must be within list range"))) := by
  have hin : (decide ((if i < 0 then (xs.length : Int) + i else i) ≥ 0) && decide ((if i < 0 then (xs.length : Int) + i else i) < xs.length)) = false := by
    simp only [Bool.and_eq_false_iff, decide_eq_false_iff_not]; split <;> omega
  simp only [handleLSet, run_keysExist, keysExist_single, h, run_getValues, getValues_live _ _ _ _ h hlive,
    List.headD_cons, asList?, hi, Option.isSome_some, Bool.not_true, Bool.false_eq_true, if_false, hin,
    Bool.not_false, if_true, run_ret]

/-- **LTRIM keeps exactly the reference slice** (the inclusive range of `lrange_range`) whenever that range
    is non-empty, for every start and every end index (a start before the head is clamped to 0); the
    deadline and all other keys are untouched -/
theorem ltrim_keeps_range (c : Ctx) (s : State) (k st en : Bytes) (i j : Int) (xs : List Bytes) (ex : Option Int)
    (hm : c.cfg.maxMemory = 0)
    (h : s.lookup c.db k = some ⟨.list xs, ex⟩) (hlive : (⟨.list xs, ex⟩ : Entry).expired c.now = false)
    (hi : parseInt64 st = some i) (hj : parseInt64 en = some j)
    (hne : (Spec.normRange xs.length i j).isSome) :
    ∃ s', (handleLTrim c [b "ltrim", k, st, en]).run c s = (s', .done (.ok okReply)) ∧
      s'.lookup c.db k = some ⟨.list (inclRange xs i j), ex⟩ ∧
      ∀ k2, k ≠ k2 → s'.lookup c.db k2 = s.lookup c.db k2 := by
  refine ⟨(setValues c s [(k, .list (inclRange xs i j))]).1, ?_,
    setValues_over c s k _ _ ex hm h, fun k2 hne => setValues_other c s k k2 _ hm hne⟩
  have hs1 := (setValues_single c s k (.list (inclRange xs i j)) hm).1
  have hp := ltrimPure_eq xs i j
  cases hn : Spec.normRange xs.length i j with
  | none => rw [hn] at hne; simp at hne
  | some p =>
    obtain ⟨lo, hi'⟩ := p
    rw [hn] at hp
    have hr : inclRange xs i j = (xs.drop lo).take (hi' - lo + 1) := by unfold inclRange; rw [hn]
    rw [hr] at hs1 ⊢
    simp only [handleLTrim, run_keysExist, keysExist_single, h, run_getValues, getValues_live _ _ _ _ h hlive,
      List.headD_cons, asList?, hi, hj, hp, Option.isSome_some, Bool.not_true, Bool.false_eq_true, if_false, setOrErr,
      run_setValues, hs1, if_true, run_ret]

/-- **LTRIM to an empty range removes the key**, for every start and every end index -/
theorem ltrim_empty_range_deletes (c : Ctx) (s : State) (k st en : Bytes) (i j : Int) (xs : List Bytes) (ex : Option Int)
    (h : s.lookup c.db k = some ⟨.list xs, ex⟩) (hlive : (⟨.list xs, ex⟩ : Entry).expired c.now = false)
    (hi : parseInt64 st = some i) (hj : parseInt64 en = some j)
    (hne : Spec.normRange xs.length i j = none) :
    ((handleLTrim c [b "ltrim", k, st, en]).run c s).2 = .done (.ok okReply) ∧
    ((handleLTrim c [b "ltrim", k, st, en]).run c s).1.lookup c.db k = none ∧
    ∀ k2, k ≠ k2 → ((handleLTrim c [b "ltrim", k, st, en]).run c s).1.lookup c.db k2 = s.lookup c.db k2 := by
  have hp := ltrimPure_eq xs i j
  rw [hne] at hp
  have hrun : (handleLTrim c [b "ltrim", k, st, en]).run c s = (deleteKey s c.db k, .done (.ok okReply)) := by
    simp only [handleLTrim, run_keysExist, keysExist_single, h, run_getValues, getValues_live _ _ _ _ h hlive,
      List.headD_cons, asList?, hi, hj, hp, Option.isSome_some, Bool.not_true, Bool.false_eq_true, if_false,
      run_deleteKey, run_ret]
  rw [hrun]
  refine ⟨rfl, by simp [lookup_deleteKey], fun k2 hne => by simp [lookup_deleteKey, hne]⟩

/-- **LREM with a negative count removes the last |count| matches** (backward scan) -/
theorem lrem_from_tail (c : Ctx) (s : State) (k cnt v : Bytes) (n : Int) (xs : List Bytes) (ex : Option Int)
    (hm : c.cfg.maxMemory = 0)
    (h : s.lookup c.db k = some ⟨.list xs, ex⟩) (hlive : (⟨.list xs, ex⟩ : Entry).expired c.now = false)
    (hn : parseInt64 cnt = some n) (hneg : n < 0) :
    ∃ s', (handleLRem c [b "lrem", k, cnt, v]).run c s =
        (s', .done (.ok (intReply ((xs.length : Int) - ((Spec.removeFirstN xs.reverse v n.natAbs).reverse).length)))) ∧
      s'.lookup c.db k = some ⟨.list (Spec.removeFirstN xs.reverse v n.natAbs).reverse, ex⟩ ∧
      ∀ k2, k ≠ k2 → s'.lookup c.db k2 = s.lookup c.db k2 := by
  refine ⟨(setValues c s [(k, .list (Spec.removeFirstN xs.reverse v n.natAbs).reverse)]).1, ?_,
    setValues_over c s k _ _ ex hm h, fun k2 hne => setValues_other c s k k2 _ hm hne⟩
  have hs1 := (setValues_single c s k (.list (Spec.removeFirstN xs.reverse v n.natAbs).reverse) hm).1
  have h1 : ¬ (n > 0) := by omega
  simp only [handleLRem, run_keysExist, keysExist_single, h, run_getValues, getValues_live _ _ _ _ h hlive,
    List.headD_cons, asList?, hn, h1, hneg, lremBwd_eq, Option.isSome_some, Bool.not_true, Bool.false_eq_true, if_false,
    if_true, setOrErr, run_setValues, hs1, run_ret]

/-- **LREM with a positive count removes exactly the first `count` matches**, for every list — adjacent
    matches included (`Spec.removeFirstN`: the plain reference scan); the reply is the number removed -/
theorem lrem_from_head (c : Ctx) (s : State) (k cnt v : Bytes) (n : Int) (xs : List Bytes) (ex : Option Int)
    (hm : c.cfg.maxMemory = 0)
    (h : s.lookup c.db k = some ⟨.list xs, ex⟩) (hlive : (⟨.list xs, ex⟩ : Entry).expired c.now = false)
    (hn : parseInt64 cnt = some n) (hpos : 0 < n) :
    ∃ s', (handleLRem c [b "lrem", k, cnt, v]).run c s =
        (s', .done (.ok (intReply ((xs.length : Int) - (Spec.removeFirstN xs v n.toNat).length)))) ∧
      s'.lookup c.db k = some ⟨.list (Spec.removeFirstN xs v n.toNat), ex⟩ ∧
      ∀ k2, k ≠ k2 → s'.lookup c.db k2 = s.lookup c.db k2 := by
  refine ⟨(setValues c s [(k, .list (Spec.removeFirstN xs v n.toNat))]).1, ?_,
    setValues_over c s k _ _ ex hm h, fun k2 hne => setValues_other c s k k2 _ hm hne⟩
  have hs1 := (setValues_single c s k (.list (Spec.removeFirstN xs v n.toNat)) hm).1
  have h1 : n > 0 := hpos
  simp only [handleLRem, run_keysExist, keysExist_single, h, run_getValues, getValues_live _ _ _ _ h hlive,
    List.headD_cons, asList?, hn, h1, lremFwd_some v xs n.toNat, Option.isSome_some,
    Bool.not_true, Bool.false_eq_true, if_false, if_true, setOrErr, run_setValues, hs1, run_ret]

/-- **LREM with count 0 removes every match**, for every list -/
theorem lrem_all (c : Ctx) (s : State) (k cnt v : Bytes) (xs : List Bytes) (ex : Option Int)
    (hm : c.cfg.maxMemory = 0)
    (h : s.lookup c.db k = some ⟨.list xs, ex⟩) (hlive : (⟨.list xs, ex⟩ : Entry).expired c.now = false)
    (hn : parseInt64 cnt = some 0) :
    ∃ s', (handleLRem c [b "lrem", k, cnt, v]).run c s =
        (s', .done (.ok (intReply ((xs.length : Int) - (xs.filter (· != v)).length)))) ∧
      s'.lookup c.db k = some ⟨.list (xs.filter (· != v)), ex⟩ ∧
      ∀ k2, k ≠ k2 → s'.lookup c.db k2 = s.lookup c.db k2 := by
  refine ⟨(setValues c s [(k, .list (xs.filter (· != v)))]).1, ?_,
    setValues_over c s k _ _ ex hm h, fun k2 hne => setValues_other c s k k2 _ hm hne⟩
  have hs1 := (setValues_single c s k (.list (xs.filter (· != v))) hm).1
  have h1 : ¬ ((0 : Int) > 0) := by omega
  have h2 : ¬ ((0 : Int) < 0) := by omega
  simp only [handleLRem, run_keysExist, keysExist_single, h, run_getValues, getValues_live _ _ _ _ h hlive,
    List.headD_cons, asList?, hn, h1, h2, lremFwd_none v xs, Option.isSome_some,
    Bool.not_true, Bool.false_eq_true, if_false, setOrErr, run_setValues, hs1, if_true, run_ret]

/-- the reference LREM on a plain sequence: the first `n` matches from the head (`n > 0`), the last `|n|`
    from the tail (`n < 0`), every match (`n = 0`) -/
def lremRef (xs : List Bytes) (v : Bytes) (n : Int) : List Bytes :=
  if n > 0 then Spec.removeFirstN xs v n.toNat
  else if n < 0 then (Spec.removeFirstN xs.reverse v n.natAbs).reverse
  else xs.filter (· != v)

/-- **LREM refines the reference for every count and every list**: the stored list is `lremRef`, the reply
    is the number of elements removed, the deadline and all other keys are untouched -/
theorem lrem_refines (c : Ctx) (s : State) (k cnt v : Bytes) (n : Int) (xs : List Bytes) (ex : Option Int)
    (hm : c.cfg.maxMemory = 0)
    (h : s.lookup c.db k = some ⟨.list xs, ex⟩) (hlive : (⟨.list xs, ex⟩ : Entry).expired c.now = false)
    (hn : parseInt64 cnt = some n) :
    ∃ s', (handleLRem c [b "lrem", k, cnt, v]).run c s =
        (s', .done (.ok (intReply ((xs.length : Int) - (lremRef xs v n).length)))) ∧
      s'.lookup c.db k = some ⟨.list (lremRef xs v n), ex⟩ ∧
      ∀ k2, k ≠ k2 → s'.lookup c.db k2 = s.lookup c.db k2 := by
  by_cases hpos : 0 < n
  · have e : lremRef xs v n = Spec.removeFirstN xs v n.toNat := by simp [lremRef, hpos]
    rw [e]; exact lrem_from_head c s k cnt v n xs ex hm h hlive hn hpos
  · by_cases hneg : n < 0
    · have e : lremRef xs v n = (Spec.removeFirstN xs.reverse v n.natAbs).reverse := by
        have : ¬ (n > 0) := by omega
        simp [lremRef, this, hneg]
      rw [e]; exact lrem_from_tail c s k cnt v n xs ex hm h hlive hn hneg
    · have h0 : n = 0 := by omega
      subst h0
      have e : lremRef xs v 0 = xs.filter (· != v) := by simp [lremRef]
      rw [e]; exact lrem_all c s k cnt v xs ex hm h hlive hn

/-- the elements that differ from `v` and the occurrences of `v` make up the list -/
theorem filter_ne_length (v : Bytes) : ∀ l : List Bytes, (l.filter (· != v)).length + l.count v = l.length := by
  intro l
  induction l with
  | nil => rfl
  | cons x r ih =>
    by_cases hx : x = v
    · subst hx; simp [List.count_cons]; omega
    · have hx' : ¬ (v = x) := fun e => hx e.symm
      simp [List.count_cons, hx, hx']; omega

/-- what the reference removes: exactly `min n (number of matches)` elements, all of them equal to `v`
    (the other elements keep their order) -/
theorem removeFirstN_facts (v : Bytes) : ∀ (l : List Bytes) (n : Nat),
    (Spec.removeFirstN l v n).length = l.length - min n (l.count v) ∧
    (Spec.removeFirstN l v n).filter (· != v) = l.filter (· != v) := by
  intro l
  induction l with
  | nil => intro n; simp [Spec.removeFirstN]
  | cons x r ih =>
    intro n
    have hc := List.count_le_length (a := v) (l := r)
    by_cases hn : n = 0
    · subst hn; simp [Spec.removeFirstN]
    · by_cases hx : x = v
      · subst hx
        obtain ⟨h1, h2⟩ := ih (n - 1)
        have hcnt : List.count x (x :: r) = List.count x r + 1 := by simp [List.count_cons]
        simp only [Spec.removeFirstN, hn, beq_iff_eq, if_false, if_true, h1, h2, hcnt,
          List.length_cons, BEq.rfl]
        refine ⟨by omega, by simp⟩
      · obtain ⟨h1, h2⟩ := ih n
        have hx' : ¬ (v = x) := fun e => hx e.symm
        have hcnt : List.count v (x :: r) = List.count v r := by simp [List.count_cons, hx, hx']
        simp only [Spec.removeFirstN, hn, beq_iff_eq, hx, if_false, List.length_cons, h1, hcnt]
        refine ⟨by omega, by simp [hx, h2]⟩

/-- **the reply of LREM is the number of matches it was asked to remove, capped by the number present**:
    `min |count| (occurrences)`, or every occurrence for count 0 -/
theorem lremRef_removed (xs : List Bytes) (v : Bytes) (n : Int) :
    (xs.length : Int) - (lremRef xs v n).length = if n = 0 then (xs.count v : Int) else (min n.natAbs (xs.count v) : Nat) := by
  have hc := List.count_le_length (a := v) (l := xs)
  by_cases hpos : 0 < n
  · have e : lremRef xs v n = Spec.removeFirstN xs v n.toNat := by simp [lremRef, hpos]
    have h0 : ¬ (n = 0) := by omega
    have ht : n.toNat = n.natAbs := by omega
    rw [e, (removeFirstN_facts v xs n.toNat).1, if_neg h0, ht]; omega
  · by_cases hneg : n < 0
    · have e : lremRef xs v n = (Spec.removeFirstN xs.reverse v n.natAbs).reverse := by
        have : ¬ (n > 0) := by omega
        simp [lremRef, this, hneg]
      have h0 : ¬ (n = 0) := by omega
      rw [e, List.length_reverse, (removeFirstN_facts v xs.reverse n.natAbs).1, if_neg h0, List.length_reverse,
        List.count_reverse]
      omega
    · have h0 : n = 0 := by omega
      subst h0
      have e : lremRef xs v 0 = xs.filter (· != v) := by simp [lremRef]
      have hl := filter_ne_length v xs
      rw [e, if_pos rfl]; omega

/-! ### LPUSH / RPUSH / LPUSHX / RPUSHX -/

theorem name_facts :
    isAscii (b "lpush") = true ∧ isAscii (b "rpush") = true ∧ isAscii (b "lpushx") = true ∧ isAscii (b "rpushx") = true ∧
    isAscii (b "lpop") = true ∧ isAscii (b "rpop") = true ∧
    toLower (b "lpush") = b "lpush" ∧ toLower (b "rpush") = b "rpush" ∧
    toLower (b "lpushx") = b "lpushx" ∧ toLower (b "rpushx") = b "rpushx" ∧
    ¬ (b "lpush" = b "lpushx") ∧ ¬ (b "rpush" = b "rpushx") ∧ ¬ (b "lpush" = b "rpushx") ∧ ¬ (b "rpush" = b "lpushx") ∧
    eqFold (b "lpop") (b "lpop") = true ∧ eqFold (b "rpop") (b "lpop") = false ∧
    toUpper (b "lpop") = b "LPOP" ∧ toUpper (b "rpop") = b "RPOP" := by decide

/-- the four push commands: `left` = LPUSH/LPUSHX, `x` = the X variant -/
def pushName (left x : Bool) : Bytes :=
  if left then (if x then b "lpushx" else b "lpush") else (if x then b "rpushx" else b "rpush")

theorem pushName_ascii (left x : Bool) : isAscii (pushName left x) = true := by
  cases left <;> cases x <;> decide

/-- **RPUSH / RPUSHX append at the tail, LPUSH / LPUSHX put the elements in front** of an existing list;
    the reply is the new length. (The elements of one LPUSH keep their argument order — SugarDB's documented
    behaviour; Redis reverses them. For a single element both agree: it becomes the head.) -/
theorem push_existing (left x : Bool) (c : Ctx) (s : State) (k e0 : Bytes) (es xs : List Bytes) (ex : Option Int)
    (hm : c.cfg.maxMemory = 0)
    (h : s.lookup c.db k = some ⟨.list xs, ex⟩) (hlive : (⟨.list xs, ex⟩ : Entry).expired c.now = false) :
    ∃ s', (handlePush left c (pushName left x :: k :: e0 :: es)).run c s =
        (s', .done (.ok (intReply (xs.length + (e0 :: es).length : Nat)))) ∧
      s'.lookup c.db k = some ⟨.list (if left then (e0 :: es) ++ xs else xs ++ (e0 :: es)), ex⟩ ∧
      ∀ k2, k ≠ k2 → s'.lookup c.db k2 = s.lookup c.db k2 := by
  refine ⟨(setValues c s [(k, .list (if left then (e0 :: es) ++ xs else xs ++ (e0 :: es)))]).1, ?_,
    setValues_over c s k _ _ ex hm h, fun k2 hne => setValues_other c s k k2 _ hm hne⟩
  have hs1 := (setValues_single c s k (.list (if left then (e0 :: es) ++ xs else xs ++ (e0 :: es))) hm).1
  have hlen : ¬ (es.length + 1 + 1 + 1 < 3) := by omega
  have hl : (if left then (e0 :: es) ++ xs else xs ++ (e0 :: es)).length = xs.length + (e0 :: es).length := by
    cases left <;> simp <;> omega
  simp only [handlePush, List.length_cons, hlen, if_false, pushName_ascii, run_keysExist, keysExist_single, h,
    run_getValues, getValues_live _ _ _ _ h hlive, List.headD_cons, asList?, Option.isSome_some, Bool.not_true,
    Bool.false_eq_true, setOrErr, run_setValues, hs1, if_true, run_ret, hl]

/-- corollary: LPUSH of one element makes it the head; RPUSH of one element makes it the last -/
theorem push_one (c : Ctx) (s : State) (k e : Bytes) (xs : List Bytes) (ex : Option Int) (hm : c.cfg.maxMemory = 0)
    (h : s.lookup c.db k = some ⟨.list xs, ex⟩) (hlive : (⟨.list xs, ex⟩ : Entry).expired c.now = false) :
    ((handlePush true c [b "lpush", k, e]).run c s).1.lookup c.db k = some ⟨.list (e :: xs), ex⟩ ∧
    ((handlePush false c [b "rpush", k, e]).run c s).1.lookup c.db k = some ⟨.list (xs ++ [e]), ex⟩ := by
  obtain ⟨s1, h1, h2, _⟩ := push_existing true false c s k e [] xs ex hm h hlive
  obtain ⟨s2, h3, h4, _⟩ := push_existing false false c s k e [] xs ex hm h hlive
  simp only [pushName] at h1 h3
  simp only [if_true, Bool.false_eq_true, if_false] at h1 h3
  rw [h1, h3]
  exact ⟨by simpa using h2, by simpa using h4⟩

/-- **LPUSH / RPUSH on a key never written create the list** (no deadline); reply = number of elements -/
theorem push_creates (left : Bool) (c : Ctx) (s : State) (k e0 : Bytes) (es : List Bytes) (hm : c.cfg.maxMemory = 0)
    (h : s.lookup c.db k = none) :
    ∃ s', (handlePush left c (pushName left false :: k :: e0 :: es)).run c s =
        (s', .done (.ok (intReply ((e0 :: es).length : Nat)))) ∧
      s'.lookup c.db k = some ⟨.list (e0 :: es), none⟩ ∧
      ∀ k2, k ≠ k2 → s'.lookup c.db k2 = s.lookup c.db k2 := by
  -- the list is stored by ONE SetValues call
  have hs1 := (setValues_single c s k (.list (e0 :: es)) hm).1
  refine ⟨(setValues c s [(k, .list (e0 :: es))]).1, ?_, setValues_fresh c s k _ hm h,
    fun k2 hne => setValues_other c s k k2 _ hm hne⟩
  have hn : pushName left false = (if left then b "lpush" else b "rpush") := by cases left <;> rfl
  rw [hn, push_absent_run left c s k e0 es h, hs1]
  rfl

/-- **the creating push is a single write**: whatever the configuration, the state after LPUSH / RPUSH on an absent key
    is the state after one SetValues of the whole list — in particular a push that is refused for lack of memory
    leaves nothing behind -/
theorem push_creates_with_one_write (left : Bool) (c : Ctx) (s : State) (k e0 : Bytes) (es : List Bytes)
    (h : s.lookup c.db k = none) :
    ((handlePush left c (pushName left false :: k :: e0 :: es)).run c s).1 = (setValues c s [(k, .list (e0 :: es))]).1 := by
  have hn : pushName left false = (if left then b "lpush" else b "rpush") := by cases left <;> rfl
  rw [hn, push_absent_run left c s k e0 es h]

/-- **LPUSHX / RPUSHX on a key never written fail and change nothing** -/
theorem pushx_absent (left : Bool) (c : Ctx) (s : State) (k e0 : Bytes) (es : List Bytes)
    (h : s.lookup c.db k = none) :
    (handlePush left c (pushName left true :: k :: e0 :: es)).run c s =
      (s, .done (.err (if left then b "LPUSHX command on non-existent key" else b "RPUSHX command on non-existent key"))) := by
  have hlen : ¬ (es.length + 1 + 1 + 1 < 3) := by omega
  cases left <;>
    simp [handlePush, hlen, pushName, name_facts, keysExist_single, h]

/-! ### LPOP / RPOP -/

/-- **LPOP returns the head and stores the tail** -/
theorem lpop_head (c : Ctx) (s : State) (k x : Bytes) (r : List Bytes) (ex : Option Int) (hm : c.cfg.maxMemory = 0)
    (h : s.lookup c.db k = some ⟨.list (x :: r), ex⟩) (hlive : (⟨.list (x :: r), ex⟩ : Entry).expired c.now = false) :
    ∃ s', (handlePop c [b "lpop", k]).run c s = (s', .done (.ok (bulkStr x))) ∧
      s'.lookup c.db k = some ⟨.list r, ex⟩ ∧
      ∀ k2, k ≠ k2 → s'.lookup c.db k2 = s.lookup c.db k2 := by
  refine ⟨(setValues c s [(k, .list r)]).1, ?_,
    setValues_over c s k _ _ ex hm h, fun k2 hne => setValues_other c s k k2 _ hm hne⟩
  have hs1 := (setValues_single c s k (.list r) hm).1
  simp [handlePop, name_facts, keysExist_single, h, getValues_live _ _ _ _ h hlive, asList?, setOrErr, hs1]

/-- **RPOP returns the last element and stores the rest** -/
theorem rpop_last (c : Ctx) (s : State) (k : Bytes) (xs : List Bytes) (hne : xs ≠ []) (ex : Option Int) (hm : c.cfg.maxMemory = 0)
    (h : s.lookup c.db k = some ⟨.list xs, ex⟩) (hlive : (⟨.list xs, ex⟩ : Entry).expired c.now = false) :
    ∃ s', (handlePop c [b "rpop", k]).run c s = (s', .done (.ok (bulkStr (xs.getLast hne)))) ∧
      s'.lookup c.db k = some ⟨.list xs.dropLast, ex⟩ ∧
      ∀ k2, k ≠ k2 → s'.lookup c.db k2 = s.lookup c.db k2 := by
  refine ⟨(setValues c s [(k, .list xs.dropLast)]).1, ?_,
    setValues_over c s k _ _ ex hm h, fun k2 hne => setValues_other c s k k2 _ hm hne⟩
  have hs1 := (setValues_single c s k (.list xs.dropLast) hm).1
  have he : xs.isEmpty = false := by cases xs <;> simp at hne ⊢
  have hd : xs.take (xs.length - 1) = xs.dropLast := (List.dropLast_eq_take (l := xs)).symm
  have hh : (xs.reverse.take 1).headD [] = xs.getLast hne := by
    cases hr : xs.reverse with
    | nil => simp at hr; exact absurd hr hne
    | cons y t =>
      have : xs = (y :: t).reverse := by rw [← hr, List.reverse_reverse]
      subst this
      simp
  have hsv : ∀ v, (setValues c s [(k, v)]).2 = true := fun v => (setValues_single c s k v hm).1
  have hh' : (xs.reverse.take 1).head?.getD [] = xs.getLast hne := by rw [← hh]; cases xs.reverse.take 1 <;> rfl
  simp [handlePop, name_facts, keysExist_single, h, getValues_live _ _ _ _ h hlive, asList?, setOrErr, hsv, hne]
  rw [hd, hh']; simp

/-- **LPOP k n returns the first `min n len` elements in order and stores the rest** -/
theorem lpop_count (c : Ctx) (s : State) (k cnt : Bytes) (n : Int) (xs : List Bytes) (hne : xs ≠ []) (ex : Option Int)
    (hm : c.cfg.maxMemory = 0)
    (h : s.lookup c.db k = some ⟨.list xs, ex⟩) (hlive : (⟨.list xs, ex⟩ : Entry).expired c.now = false)
    (hn : parseInt64 cnt = some n) (hpos : 0 ≤ n) :
    ∃ s', (handlePop c [b "lpop", k, cnt]).run c s = (s', .done (.ok (bulkArr (xs.take n.toNat)))) ∧
      s'.lookup c.db k = some ⟨.list (xs.drop n.toNat), ex⟩ ∧
      ∀ k2, k ≠ k2 → s'.lookup c.db k2 = s.lookup c.db k2 := by
  refine ⟨(setValues c s [(k, .list (xs.drop n.toNat))]).1, ?_,
    setValues_over c s k _ _ ex hm h, fun k2 hne => setValues_other c s k k2 _ hm hne⟩
  have hs1 := (setValues_single c s k (.list (xs.drop n.toNat)) hm).1
  have he : xs.isEmpty = false := by cases xs <;> simp at hne ⊢
  have hnat : n.natAbs = n.toNat := by omega
  have ht : xs.take (min n.toNat xs.length) = xs.take n.toNat := by
    by_cases hle : n.toNat ≤ xs.length
    · rw [Nat.min_eq_left hle]
    · rw [Nat.min_eq_right (by omega), List.take_of_length_le (Nat.le_refl _), List.take_of_length_le (by omega)]
  have hdr : xs.drop (min n.toNat xs.length) = xs.drop n.toNat := by
    by_cases hle : n.toNat ≤ xs.length
    · rw [Nat.min_eq_left hle]
    · rw [Nat.min_eq_right (by omega), List.drop_of_length_le (Nat.le_refl _), List.drop_of_length_le (by omega)]
  have hsv : ∀ v, (setValues c s [(k, v)]).2 = true := fun v => (setValues_single c s k v hm).1
  simp [handlePop, name_facts, keysExist_single, h, getValues_live _ _ _ _ h hlive, asList?, setOrErr, hsv, hne, hn,
    hnat]
  rw [hdr, ht]; simp

/-- **RPOP k n returns the last `min n len` elements, last first, and stores the rest** -/
theorem rpop_count (c : Ctx) (s : State) (k cnt : Bytes) (n : Int) (xs : List Bytes) (hne : xs ≠ []) (ex : Option Int)
    (hm : c.cfg.maxMemory = 0)
    (h : s.lookup c.db k = some ⟨.list xs, ex⟩) (hlive : (⟨.list xs, ex⟩ : Entry).expired c.now = false)
    (hn : parseInt64 cnt = some n) (hpos : 0 ≤ n) :
    ∃ s', (handlePop c [b "rpop", k, cnt]).run c s = (s', .done (.ok (bulkArr (xs.reverse.take n.toNat)))) ∧
      s'.lookup c.db k = some ⟨.list (xs.take (xs.length - n.toNat)), ex⟩ ∧
      ∀ k2, k ≠ k2 → s'.lookup c.db k2 = s.lookup c.db k2 := by
  refine ⟨(setValues c s [(k, .list (xs.take (xs.length - n.toNat)))]).1, ?_,
    setValues_over c s k _ _ ex hm h, fun k2 hne => setValues_other c s k k2 _ hm hne⟩
  have hs1 := (setValues_single c s k (.list (xs.take (xs.length - n.toNat))) hm).1
  have he : xs.isEmpty = false := by cases xs <;> simp at hne ⊢
  have hnat : n.natAbs = n.toNat := by omega
  have ht : xs.reverse.take (min n.toNat xs.length) = xs.reverse.take n.toNat := by
    by_cases hle : n.toNat ≤ xs.length
    · rw [Nat.min_eq_left hle]
    · rw [Nat.min_eq_right (by omega), List.take_of_length_le (by simp), List.take_of_length_le (by simp; omega)]
  have hdr : xs.length - min n.toNat xs.length = xs.length - n.toNat := by omega
  have hsv : ∀ v, (setValues c s [(k, v)]).2 = true := fun v => (setValues_single c s k v hm).1
  simp [handlePop, name_facts, keysExist_single, h, getValues_live _ _ _ _ h hlive, asList?, setOrErr, hsv, hne, hn,
    hnat]
  rw [hdr, ht]; simp

/-- popping from a key never written, or from a stored empty list, answers nil and changes nothing -/
theorem pop_nothing (c : Ctx) (s : State) (k : Bytes) :
    (s.lookup c.db k = none → (handlePop c [b "lpop", k]).run c s = (s, .done (.ok nilBulk))) ∧
    (∀ ex, s.lookup c.db k = some ⟨.list [], ex⟩ → (⟨.list [], ex⟩ : Entry).expired c.now = false →
      (handlePop c [b "rpop", k]).run c s = (s, .done (.ok nilBulk))) := by
  refine ⟨fun h => ?_, fun ex h hlive => ?_⟩
  · simp [handlePop, name_facts, keysExist_single, h]
  · simp [handlePop, name_facts, keysExist_single, h, getValues_live _ _ _ _ h hlive, asList?]

/-! ### LMOVE -/

/-- the direction tokens -/
def dirTok (left : Bool) : Bytes := if left then b "LEFT" else b "RIGHT"

theorem dir_facts :
    isAscii (b "LEFT") = true ∧ isAscii (b "RIGHT") = true ∧ toLower (b "LEFT") = b "left" ∧ toLower (b "RIGHT") = b "right" ∧
    ¬ (b "right" = b "left") ∧ ¬ (b "left" = b "right") := by decide

/-- **LMOVE transfers one element between two distinct lists in one step**: the element at the chosen end
    of the source is removed and put at the chosen end of the destination; deadlines and all other keys
    are untouched. (Same key: `lmove_same_key_rotates`; empty source: `lmove_empty_source`.) -/
theorem lmove_transfers (fromLeft toLeft : Bool) (c : Ctx) (s : State) (src dst e : Bytes) (sl dl : List Bytes)
    (exs exd : Option Int) (hm : c.cfg.maxMemory = 0) (hne : src ≠ dst)
    (hs : s.lookup c.db src = some ⟨.list sl, exs⟩) (hslive : (⟨.list sl, exs⟩ : Entry).expired c.now = false)
    (hd : s.lookup c.db dst = some ⟨.list dl, exd⟩) (hdlive : (⟨.list dl, exd⟩ : Entry).expired c.now = false)
    (he : (if fromLeft then sl.head? else sl.getLast?) = some e) :
    ∃ s', (handleLMove c [b "lmove", src, dst, dirTok fromLeft, dirTok toLeft]).run c s = (s', .done (.ok okReply)) ∧
      s'.lookup c.db src = some ⟨.list (if fromLeft then sl.drop 1 else sl.dropLast), exs⟩ ∧
      s'.lookup c.db dst = some ⟨.list (if toLeft then e :: dl else dl ++ [e]), exd⟩ ∧
      ∀ k, src ≠ k → dst ≠ k → s'.lookup c.db k = s.lookup c.db k := by
  obtain ⟨p1, p2, p3, p4⟩ := setValues_pair c s src dst (.list (if fromLeft then sl.drop 1 else sl.dropLast))
    (.list (if toLeft then e :: dl else dl ++ [e])) hm hne
  refine ⟨(setValues c s [(src, .list (if fromLeft then sl.drop 1 else sl.dropLast)),
    (dst, .list (if toLeft then e :: dl else dl ++ [e]))]).1, ?_, by rw [p2, hs]; rfl, by rw [p3, hd]; rfl, p4⟩
  have hg := getValues_live2 c s src dst _ _ hs hslive hd hdlive
  have hsl : sl ≠ [] := by intro h0; subst h0; cases fromLeft <;> simp at he
  cases fromLeft <;> cases toLeft <;>
    simp only [Bool.false_eq_true, if_false, if_true, List.drop_one] at he p1 ⊢ <;>
    simp [handleLMove, dirTok, dir_facts, keysExist_pair, hs, hd, hg, asList?, he, setOrErr, p1, hsl, hne]

/-- the list with the element at the chosen end taken out and put back at the chosen end -/
def rotated (fromLeft toLeft : Bool) (sl : List Bytes) (e : Bytes) : List Bytes :=
  let rest := if fromLeft then sl.drop 1 else sl.dropLast
  if toLeft then e :: rest else rest ++ [e]

/-- **LMOVE with the same key as source and destination rotates the list**: the element at the chosen end is
    taken out and put back at the chosen end of what is left — it is in the list once, not twice; the
    deadline and all other keys are untouched -/
theorem lmove_same_key_rotates (fromLeft toLeft : Bool) (c : Ctx) (s : State) (k e : Bytes) (sl : List Bytes)
    (ex : Option Int) (hm : c.cfg.maxMemory = 0)
    (hs : s.lookup c.db k = some ⟨.list sl, ex⟩) (hslive : (⟨.list sl, ex⟩ : Entry).expired c.now = false)
    (he : (if fromLeft then sl.head? else sl.getLast?) = some e) :
    ∃ s', (handleLMove c [b "lmove", k, k, dirTok fromLeft, dirTok toLeft]).run c s = (s', .done (.ok okReply)) ∧
      s'.lookup c.db k = some ⟨.list (rotated fromLeft toLeft sl e), ex⟩ ∧
      ∀ k2, k ≠ k2 → s'.lookup c.db k2 = s.lookup c.db k2 := by
  refine ⟨(setValues c s [(k, .list (rotated fromLeft toLeft sl e))]).1, ?_,
    setValues_over c s k _ _ ex hm hs, fun k2 hne => setValues_other c s k k2 _ hm hne⟩
  have hs1 := (setValues_single c s k (.list (rotated fromLeft toLeft sl e)) hm).1
  have hg := getValues_live2 c s k k _ _ hs hslive hs hslive
  have hsl : sl ≠ [] := by intro h0; subst h0; cases fromLeft <;> simp at he
  cases fromLeft <;> cases toLeft <;>
    simp only [Bool.false_eq_true, if_false, if_true, List.drop_one, rotated] at he hs1 ⊢ <;>
    simp [handleLMove, dirTok, dir_facts, keysExist_pair, hs, hg, asList?, he, setOrErr, hsl, setValues_pair_same, hs1]

/-- a rotation keeps the length; taking from and putting back at the same end leaves the list as it was -/
theorem rotated_facts (fromLeft toLeft : Bool) (sl : List Bytes) (e : Bytes)
    (he : (if fromLeft then sl.head? else sl.getLast?) = some e) :
    (rotated fromLeft toLeft sl e).length = sl.length ∧ (fromLeft = toLeft → rotated fromLeft toLeft sl e = sl) := by
  have hsl : sl ≠ [] := by intro h0; subst h0; cases fromLeft <;> simp at he
  have hpos : 0 < sl.length := List.length_pos_iff.mpr hsl
  refine ⟨?_, fun heq => ?_⟩
  · cases fromLeft <;> cases toLeft <;> simp [rotated] <;> omega
  · subst heq
    cases fromLeft
    · simp only [Bool.false_eq_true, if_false, rotated] at he ⊢
      obtain ⟨ys, rfl⟩ := List.getLast?_eq_some_iff.mp he
      simp
    · simp only [if_true, rotated] at he ⊢
      cases sl with
      | nil => simp at he
      | cons x r => simp at he; subst he; simp

/-- **LMOVE from a stored empty list (left behind by LPOP / LTRIM / LREM) moves nothing**: it answers nil
    and the state is unchanged, whatever the directions and whether or not the two keys are the same -/
theorem lmove_empty_source (fromLeft toLeft : Bool) (c : Ctx) (s : State) (src dst : Bytes) (dl : List Bytes)
    (exs exd : Option Int)
    (hs : s.lookup c.db src = some ⟨.list [], exs⟩) (hslive : (⟨.list [], exs⟩ : Entry).expired c.now = false)
    (hd : s.lookup c.db dst = some ⟨.list dl, exd⟩) (hdlive : (⟨.list dl, exd⟩ : Entry).expired c.now = false) :
    (handleLMove c [b "lmove", src, dst, dirTok fromLeft, dirTok toLeft]).run c s = (s, .done (.ok nilBulk)) := by
  have hg := getValues_live2 c s src dst _ _ hs hslive hd hdlive
  cases fromLeft <;> cases toLeft <;>
    simp [handleLMove, dirTok, dir_facts, keysExist_pair, hs, hd, hg, asList?]

/-! ### a list command on a non-list key fails without changing it -/

/-- **Wrong type fails and changes nothing**: every list command on a key holding a live value that is
    not a list (string, number, hash, set, sorted set) answers its error and leaves the state as it was. -/
theorem wrongtype_no_change (c : Ctx) (s : State) (k : Bytes) (v : Val) (ex : Option Int)
    (h : s.lookup c.db k = some ⟨v, ex⟩) (hlive : (⟨v, ex⟩ : Entry).expired c.now = false) (hv : asList? v = none)
    (a1 a2 e0 : Bytes) (es : List Bytes) (i j : Int) (hi : parseInt64 a1 = some i) (hj : parseInt64 a2 = some j) :
    (handleLLen c [b "llen", k]).run c s = (s, .done (.err (b "LLEN command on non-list item"))) ∧
    (handleLIndex c [b "lindex", k, a1]).run c s = (s, .done (.err (b "LINDEX command on non-list item"))) ∧
    (handleLRange c [b "lrange", k, a1, a2]).run c s = (s, .done (.err (b "LRANGE command on non-list item"))) ∧
    (handleLSet c [b "lset", k, a1, e0]).run c s = (s, .done (.err (b "LSET command on non-list item"))) ∧
    (handleLTrim c [b "ltrim", k, a1, a2]).run c s = (s, .done (.err (b "LTRIM command on non-list item"))) ∧
    (handleLRem c [b "lrem", k, a1, e0]).run c s = (s, .done (.err (b "LREM command on non-list item"))) ∧
    (∀ x, (handlePush true c (pushName true x :: k :: e0 :: es)).run c s = (s, .done (.err (b "LPUSH command on non-list item")))) ∧
    (∀ x, (handlePush false c (pushName false x :: k :: e0 :: es)).run c s = (s, .done (.err (b "RPUSH command on non-list item")))) ∧
    (handlePop c [b "lpop", k]).run c s = (s, .done (.err (b "LPOP command on non-list item"))) ∧
    (handlePop c [b "rpop", k]).run c s = (s, .done (.err (b "RPOP command on non-list item"))) := by
  have hg := getValues_live _ _ _ _ h hlive
  have hlen : ¬ (es.length + 1 + 1 + 1 < 3) := by omega
  refine ⟨?_, ?_, ?_, ?_, ?_, ?_, ?_, ?_, ?_, ?_⟩
  · simp [handleLLen, keysExist_single, h, hg, hv]
  · simp [handleLIndex, keysExist_single, h, hg, hv]
  · simp [handleLRange, keysExist_single, h, hg, hv]
  · simp [handleLSet, keysExist_single, h, hg, hv, hi]
  · simp [handleLTrim, keysExist_single, h, hg, hv, hi, hj]
  · simp [handleLRem, keysExist_single, h, hg, hv, hi]
  · intro x; cases x <;> simp [handlePush, hlen, pushName, name_facts, keysExist_single, h, hg, hv]
  · intro x; cases x <;> simp [handlePush, hlen, pushName, name_facts, keysExist_single, h, hg, hv]
  · simp [handlePop, name_facts, keysExist_single, h, hg, hv]; decide
  · simp [handlePop, name_facts, keysExist_single, h, hg, hv]; decide

/-- LMOVE with a non-list source or destination fails and changes nothing -/
theorem lmove_wrongtype_no_change (fromLeft toLeft : Bool) (c : Ctx) (s : State) (src dst : Bytes) (v1 v2 : Val)
    (ex1 ex2 : Option Int)
    (h1 : s.lookup c.db src = some ⟨v1, ex1⟩) (l1 : (⟨v1, ex1⟩ : Entry).expired c.now = false)
    (h2 : s.lookup c.db dst = some ⟨v2, ex2⟩) (l2 : (⟨v2, ex2⟩ : Entry).expired c.now = false)
    (hv : asList? v1 = none ∨ asList? v2 = none) :
    (handleLMove c [b "lmove", src, dst, dirTok fromLeft, dirTok toLeft]).run c s =
      (s, .done (.err (b "both source and destination must be lists"))) := by
  have hg := getValues_live2 c s src dst _ _ h1 l1 h2 l2
  rcases hv with hv | hv <;> cases fromLeft <;> cases toLeft <;>
    simp [handleLMove, dirTok, dir_facts, keysExist_pair, h1, h2, hg, hv] <;>
    (cases h : asList? v1 <;> simp)

/-! ### read-your-writes -/

/-- **RPUSH then LRANGE 0 -1 returns the old elements followed by the new ones, byte for byte** -/
theorem lrange_after_rpush (c : Ctx) (s : State) (k e0 : Bytes) (es xs : List Bytes) (ex : Option Int)
    (hm : c.cfg.maxMemory = 0)
    (h : s.lookup c.db k = some ⟨.list xs, ex⟩) (hlive : (⟨.list xs, ex⟩ : Entry).expired c.now = false) :
    ((handleLRange c [b "lrange", k, b "0", b "-1"]).run c
      ((handlePush false c (b "rpush" :: k :: e0 :: es)).run c s).1).2 = .done (.ok (bulkArr (xs ++ e0 :: es))) := by
  obtain ⟨s', h1, h2, _⟩ := push_existing false false c s k e0 es xs ex hm h hlive
  simp only [pushName, Bool.false_eq_true, if_false] at h1 h2
  rw [h1]
  rw [lrange_all c s' k _ ex h2 hlive]

/-- **LPUSH then LINDEX 0 returns the pushed element; the old head is now at index 1** -/
theorem lindex_after_lpush (c : Ctx) (s : State) (k e x : Bytes) (r : List Bytes) (ex : Option Int)
    (hm : c.cfg.maxMemory = 0)
    (h : s.lookup c.db k = some ⟨.list (x :: r), ex⟩) (hlive : (⟨.list (x :: r), ex⟩ : Entry).expired c.now = false) :
    ((handleLIndex c [b "lindex", k, b "0"]).run c ((handlePush true c [b "lpush", k, e]).run c s).1).2
      = .done (.ok (bulkStr e)) ∧
    ((handleLIndex c [b "lindex", k, b "1"]).run c ((handlePush true c [b "lpush", k, e]).run c s).1).2
      = .done (.ok (bulkStr x)) := by
  obtain ⟨s', h1, h2, _⟩ := push_existing true false c s k e [] (x :: r) ex hm h hlive
  simp only [pushName, if_true, Bool.false_eq_true, if_false, List.cons_append, List.nil_append] at h1 h2
  rw [h1]
  have p0 : parseInt64 (b "0") = some 0 := by decide
  have p1 : parseInt64 (b "1") = some 1 := by decide
  refine ⟨?_, ?_⟩
  · rw [lindex_read c s' k _ 0 _ ex h2 hlive p0]
    have : (0 : Int) ≤ 0 ∧ (0 : Int) < ((e :: x :: r).length : Int) := by simp only [List.length_cons]; omega
    rw [if_pos this]; rfl
  · rw [lindex_read c s' k _ 1 _ ex h2 hlive p1]
    have : (0 : Int) ≤ 1 ∧ (1 : Int) < ((e :: x :: r).length : Int) := by simp only [List.length_cons]; omega
    rw [if_pos this]; rfl

/-- **RPUSH then LLEN counts the new elements; RPUSH then RPOP gives back the pushed element and the old list** -/
theorem rpush_then_llen_rpop (c : Ctx) (s : State) (k e : Bytes) (xs : List Bytes) (ex : Option Int)
    (hm : c.cfg.maxMemory = 0)
    (h : s.lookup c.db k = some ⟨.list xs, ex⟩) (hlive : (⟨.list xs, ex⟩ : Entry).expired c.now = false) :
    ((handleLLen c [b "llen", k]).run c ((handlePush false c [b "rpush", k, e]).run c s).1).2
      = .done (.ok (intReply (xs.length + 1 : Nat))) ∧
    ((handlePop c [b "rpop", k]).run c ((handlePush false c [b "rpush", k, e]).run c s).1).2
      = .done (.ok (bulkStr e)) ∧
    ((handlePop c [b "rpop", k]).run c ((handlePush false c [b "rpush", k, e]).run c s).1).1.lookup c.db k
      = some ⟨.list xs, ex⟩ := by
  obtain ⟨s', h1, h2, _⟩ := push_existing false false c s k e [] xs ex hm h hlive
  simp only [pushName, Bool.false_eq_true, if_false] at h1 h2
  rw [h1]
  have hne : xs ++ [e] ≠ [] := by simp
  obtain ⟨s'', h3, h4, _⟩ := rpop_last c s' k (xs ++ [e]) hne ex hm h2 hlive
  refine ⟨?_, ?_, ?_⟩
  · rw [llen_length c s' k _ ex h2 hlive]; simp
  · rw [h3]; simp
  · rw [h3]; simpa using h4

/-- **LSET then LINDEX at the same index returns the new element** -/
theorem lindex_after_lset (c : Ctx) (s : State) (k idx v : Bytes) (i : Int) (xs : List Bytes) (ex : Option Int)
    (hm : c.cfg.maxMemory = 0)
    (h : s.lookup c.db k = some ⟨.list xs, ex⟩) (hlive : (⟨.list xs, ex⟩ : Entry).expired c.now = false)
    (hi : parseInt64 idx = some i) (hr : 0 ≤ i ∧ i < xs.length) :
    ((handleLIndex c [b "lindex", k, idx]).run c ((handleLSet c [b "lset", k, idx, v]).run c s).1).2
      = .done (.ok (bulkStr v)) := by
  obtain ⟨s', h1, h2, _⟩ := lset_replaces c s k idx v i xs ex hm h hlive hi ⟨by omega, hr.2⟩
  rw [h1]
  have hn : ¬ (i < 0) := by omega
  simp only [hn, if_false] at h2
  rw [lindex_read c s' k idx i _ ex h2 hlive hi]
  have : 0 ≤ i ∧ i < ((xs.set i.toNat v).length : Int) := by simp only [List.length_set]; exact hr
  rw [if_pos this]
  have hlt : i.toNat < xs.length := by omega
  simp [List.getD, hlt]

/-- commands on a key never written: readers answer "empty", LSET/LMOVE fail, LTRIM/LREM do nothing —
    and nothing is created -/
theorem absent_key_no_change (c : Ctx) (s : State) (k k2 a1 a2 v : Bytes) (i j : Int) (h : s.lookup c.db k = none)
    (hi : parseInt64 a1 = some i) (_hj : parseInt64 a2 = some j) :
    (handleLIndex c [b "lindex", k, a1]).run c s = (s, .done (.ok nilBulk)) ∧
    (handleLSet c [b "lset", k, a1, v]).run c s = (s, .done (.err (b "LSET command on non-list item"))) ∧
    (handleLTrim c [b "ltrim", k, a1, a2]).run c s = (s, .done (.ok okReply)) ∧
    (handleLRem c [b "lrem", k, a1, v]).run c s = (s, .done (.ok (intReply 0))) ∧
    (handleLMove c [b "lmove", k, k2, b "LEFT", b "RIGHT"]).run c s =
      (s, .done (.err (b "both source and destination must be lists"))) := by
  refine ⟨?_, ?_, ?_, ?_, ?_⟩
  · simp [handleLIndex, keysExist_single, h]
  · simp [handleLSet, keysExist_single, h]
  · simp [handleLTrim, keysExist_single, h]
  · simp [handleLRem, keysExist_single, h, hi]
  · simp [handleLMove, dir_facts, keysExist_pair, h]

/-! ### any sequence of pushes, pops and length reads refines the reference sequence -/

/-- single-element queue operations on one key -/
inductive Op where
  | rpush (e : Bytes) | lpush (e : Bytes) | lpop | rpop | llen

/-- the command the client sends -/
def Op.prog (c : Ctx) (k : Bytes) : Op → Prog Res
  | .rpush e => handlePush false c [b "rpush", k, e]
  | .lpush e => handlePush true c [b "lpush", k, e]
  | .lpop => handlePop c [b "lpop", k]
  | .rpop => handlePop c [b "rpop", k]
  | .llen => handleLLen c [b "llen", k]

/-- reference semantics on a plain sequence: new sequence and reply -/
def Op.ref : Op → List Bytes → List Bytes × Bytes
  | .rpush e, xs => (xs ++ [e], intReply (xs.length + 1 : Nat))
  | .lpush e, xs => (e :: xs, intReply (xs.length + 1 : Nat))
  | .lpop, [] => ([], nilBulk)
  | .lpop, x :: r => (r, bulkStr x)
  | .rpop, xs => if h : xs = [] then ([], nilBulk) else (xs.dropLast, bulkStr (xs.getLast h))
  | .llen, xs => (xs, intReply xs.length)

/-- the server: commands run back to back -/
def runOps (c : Ctx) (k : Bytes) : List Op → State → State × List (Outcome Res)
  | [], s => (s, [])
  | o :: r, s => (((runOps c k r ((o.prog c k).run c s).1).1), ((o.prog c k).run c s).2 :: (runOps c k r ((o.prog c k).run c s).1).2)

/-- the reference: the same operations on a sequence -/
def refOps : List Op → List Bytes → List Bytes × List (Outcome Res)
  | [], xs => (xs, [])
  | o :: r, xs => ((refOps r (o.ref xs).1).1, .done (.ok (o.ref xs).2) :: (refOps r (o.ref xs).1).2)

/-- one step: reply and stored list are those of the reference -/
theorem op_step (o : Op) (c : Ctx) (s : State) (k : Bytes) (xs : List Bytes) (ex : Option Int) (hm : c.cfg.maxMemory = 0)
    (h : s.lookup c.db k = some ⟨.list xs, ex⟩) (hlive : (⟨.list xs, ex⟩ : Entry).expired c.now = false) :
    ((o.prog c k).run c s).2 = .done (.ok (o.ref xs).2) ∧
    ((o.prog c k).run c s).1.lookup c.db k = some ⟨.list (o.ref xs).1, ex⟩ := by
  cases o with
  | rpush e =>
    obtain ⟨s', h1, h2, _⟩ := push_existing false false c s k e [] xs ex hm h hlive
    simp only [pushName, Bool.false_eq_true, if_false] at h1 h2
    simp only [Op.prog, Op.ref, h1]
    exact ⟨rfl, h2⟩
  | lpush e =>
    obtain ⟨s', h1, h2, _⟩ := push_existing true false c s k e [] xs ex hm h hlive
    simp only [pushName, if_true, Bool.false_eq_true, if_false] at h1 h2
    simp only [Op.prog, Op.ref, h1]
    exact ⟨rfl, h2⟩
  | lpop =>
    cases xs with
    | nil =>
      have := (pop_nothing c s k).1
      have hr : (handlePop c [b "lpop", k]).run c s = (s, .done (.ok nilBulk)) := by
        simp [handlePop, name_facts, keysExist_single, h, getValues_live _ _ _ _ h hlive, asList?]
      simp only [Op.prog, Op.ref, hr]; exact ⟨trivial, h⟩
    | cons x r =>
      obtain ⟨s', h1, h2, _⟩ := lpop_head c s k x r ex hm h hlive
      simp only [Op.prog, Op.ref, h1]; exact ⟨trivial, h2⟩
  | rpop =>
    by_cases hx : xs = []
    · subst hx
      have hr := (pop_nothing c s k).2 ex h hlive
      simp only [Op.prog, Op.ref, hr]; exact ⟨rfl, h⟩
    · obtain ⟨s', h1, h2, _⟩ := rpop_last c s k xs hx ex hm h hlive
      simp only [Op.prog, Op.ref, h1, hx, dite_false]; exact ⟨trivial, h2⟩
  | llen =>
    simp only [Op.prog, Op.ref, llen_length c s k xs ex h hlive]; exact ⟨trivial, h⟩

/-- **For any sequence of LPUSH / RPUSH / LPOP / RPOP / LLEN on a list key, every reply and the resulting
    list equal those of the reference sequence** (no memory limit, key live; single-element pushes). -/
theorem ops_refine (c : Ctx) (k : Bytes) (ex : Option Int) (hm : c.cfg.maxMemory = 0) :
    ∀ (ops : List Op) (s : State) (xs : List Bytes),
      s.lookup c.db k = some ⟨.list xs, ex⟩ → (⟨.list xs, ex⟩ : Entry).expired c.now = false →
      (runOps c k ops s).2 = (refOps ops xs).2 ∧
      (runOps c k ops s).1.lookup c.db k = some ⟨.list (refOps ops xs).1, ex⟩ := by
  intro ops
  induction ops with
  | nil => intro s xs h _; exact ⟨rfl, h⟩
  | cons o r ih =>
    intro s xs h hlive
    obtain ⟨h1, h2⟩ := op_step o c s k xs ex hm h hlive
    obtain ⟨h3, h4⟩ := ih ((o.prog c k).run c s).1 (o.ref xs).1 h2 hlive
    simp only [runOps, refOps, h1, h3]
    exact ⟨trivial, h4⟩

/-! ### no list command panics -/

/-- **No list command ever panics**: for every argument vector, every context and every state, the run of
    each of the eleven list handlers (LLEN, LINDEX, LRANGE, LSET, LTRIM, LREM, LMOVE, LPUSH(X), RPUSH(X),
    LPOP, RPOP) ends in a reply or an error, never in a Go runtime panic. (LRANGE, LTRIM and LMOVE used to
    index outside the list — classes `lrange-index-panic`, `ltrim-index-panic`, `lmove-empty-source-panic`;
    the index checks are still part of the model and are proved unreachable.) -/
theorem list_commands_never_panic (c : Ctx) (cmd : List Bytes) (s : State) (w : String) :
    ((handleLLen c cmd).run c s).2 ≠ .panic w ∧ ((handleLIndex c cmd).run c s).2 ≠ .panic w ∧
    ((handleLRange c cmd).run c s).2 ≠ .panic w ∧ ((handleLSet c cmd).run c s).2 ≠ .panic w ∧
    ((handleLTrim c cmd).run c s).2 ≠ .panic w ∧ ((handleLRem c cmd).run c s).2 ≠ .panic w ∧
    ((handleLMove c cmd).run c s).2 ≠ .panic w ∧ (∀ left, ((handlePush left c cmd).run c s).2 ≠ .panic w) ∧
    ((handlePop c cmd).run c s).2 ≠ .panic w :=
  ⟨noPanic_run c _ s (handleLLen_np c cmd) w, noPanic_run c _ s (handleLIndex_np c cmd) w,
   noPanic_run c _ s (handleLRange_np c cmd) w, noPanic_run c _ s (handleLSet_np c cmd) w,
   noPanic_run c _ s (handleLTrim_np c cmd) w, noPanic_run c _ s (handleLRem_np c cmd) w,
   noPanic_run c _ s (handleLMove_np c cmd) w, fun left => noPanic_run c _ s (handlePush_np left c cmd) w,
   noPanic_run c _ s (handlePop_np c cmd) w⟩

/-! ### where the full statement fails (model witnesses; each is a class of Known.classifyColl) -/

/-- a concrete context and a state holding the list a b c at `k`, the list a a at `d`, the empty list at `e`,
    a string at `str`, and a list whose deadline has passed at `old` -/
def c0 : Ctx := { db := 0, now := 1000 }
def s0 : State := { dbs := [(0, ⟨[(b "k", ⟨.list [b "a", b "b", b "c"], none⟩),
                                  (b "d", ⟨.list [b "a", b "a"], some 5000⟩),
                                  (b "e", ⟨.list [], none⟩),
                                  (b "str", ⟨.str (b "v"), none⟩),
                                  (b "old", ⟨.list [b "x"], some 500⟩)], [b "d", b "old"]⟩)], mem := 0 }

/-- class `expired-key-still-exists`: LLEN on a list whose deadline has passed answers a type error (0 expected) -/
theorem llen_on_expired_witness :
    ((handleLLen c0 [b "llen", b "old"]).run c0 s0).2 = .done (.err (b "LLEN command on non-list item")) := by decide

/-! ### the repaired inputs: the former witnesses of `lrange-negative-end-miscomputed`, `lrange-index-panic`,
    `ltrim-index-panic`, `lrem-skips-adjacent-matches`, `lmove-empty-source-panic`, `lmove-same-key-duplicates`,
    now instances of the laws -/

/-- LRANGE k 0 -2 on a b c returns a b (it used to return all three) -/
theorem lrange_negative_end_repaired :
    ((handleLRange c0 [b "lrange", b "k", b "0", b "-2"]).run c0 s0).2 = .done (.ok (bulkArr [b "a", b "b"])) := by decide

/-- an end index equal to the length is clamped to the last element (it used to panic) -/
theorem lrange_end_eq_len_repaired :
    ((handleLRange c0 [b "lrange", b "k", b "0", b "3"]).run c0 s0).2
      = .done (.ok (bulkArr [b "a", b "b", b "c"])) := by decide

/-- a start index before the head is clamped to the head (it used to panic) -/
theorem lrange_start_before_head_repaired :
    ((handleLRange c0 [b "lrange", b "k", b "-5", b "1"]).run c0 s0).2 = .done (.ok (bulkArr [b "a", b "b"])) := by decide

/-- LTRIM with a start index before the head keeps a b (it used to panic) -/
theorem ltrim_start_before_head_repaired :
    ((handleLTrim c0 [b "ltrim", b "k", b "-5", b "1"]).run c0 s0).2 = .done (.ok okReply) ∧
    ((handleLTrim c0 [b "ltrim", b "k", b "-5", b "1"]).run c0 s0).1.lookup 0 (b "k")
      = some ⟨.list [b "a", b "b"], none⟩ := by decide +kernel

/-- LREM d 0 a on the list a a removes both (it used to remove one and reply 1) -/
theorem lrem_adjacent_repaired :
    ((handleLRem c0 [b "lrem", b "d", b "0", b "a"]).run c0 s0).2 = .done (.ok (intReply 2)) ∧
    ((handleLRem c0 [b "lrem", b "d", b "0", b "a"]).run c0 s0).1.lookup 0 (b "d") = some ⟨.list [], some 5000⟩ ∧
    ((handleLRem c0 [b "lrem", b "d", b "1", b "a"]).run c0 s0).1.lookup 0 (b "d") = some ⟨.list [b "a"], some 5000⟩ := by
  decide +kernel

/-- LMOVE from the stored empty list answers nil and changes nothing (it used to panic) -/
theorem lmove_empty_source_repaired :
    (handleLMove c0 [b "lmove", b "e", b "k", b "LEFT", b "RIGHT"]).run c0 s0 = (s0, .done (.ok nilBulk)) := by
  decide +kernel

/-- LMOVE k k LEFT RIGHT on a b c leaves b c a (it used to leave a b c a) -/
theorem lmove_same_key_repaired :
    ((handleLMove c0 [b "lmove", b "k", b "k", b "LEFT", b "RIGHT"]).run c0 s0).1.lookup 0 (b "k")
      = some ⟨.list [b "b", b "c", b "a"], none⟩ ∧
    ((handleLMove c0 [b "lmove", b "k", b "k", b "RIGHT", b "LEFT"]).run c0 s0).1.lookup 0 (b "k")
      = some ⟨.list [b "c", b "a", b "b"], none⟩ ∧
    ((handleLMove c0 [b "lmove", b "k", b "k", b "LEFT", b "LEFT"]).run c0 s0).1.lookup 0 (b "k")
      = some ⟨.list [b "a", b "b", b "c"], none⟩ := by decide +kernel

/-! ### non-vacuity: every conditional theorem instantiated on the concrete state -/

theorem s0_k : s0.lookup c0.db (b "k") = some ⟨.list [b "a", b "b", b "c"], none⟩ := by decide
theorem s0_d : s0.lookup c0.db (b "d") = some ⟨.list [b "a", b "a"], some 5000⟩ := by decide
theorem s0_str : s0.lookup c0.db (b "str") = some ⟨.str (b "v"), none⟩ := by decide

example := llen_length c0 s0 (b "k") _ _ s0_k (by decide)
example := llen_absent c0 s0 (b "nokey") (by decide)
example := lindex_read c0 s0 (b "k") (b "-1") (-1) _ _ s0_k (by decide) (by decide)
example := lindex_head_last c0 s0 (b "k") _ _ _ s0_k (by decide)
example := lrange_range c0 s0 (b "k") (b "-2") (b "7") (-2) 7 _ _ s0_k (by decide) (by decide) (by decide)
example := lrange_range c0 s0 (b "k") (b "-9") (b "-2") (-9) (-2) _ _ s0_k (by decide) (by decide) (by decide)
example := inclRange_inner [b "a", b "b", b "c"] 1 2 (by decide) (by decide)
example := inclRange_neg_end [b "a", b "b", b "c"] 2 (by decide) (by decide)
example := lrange_all c0 s0 (b "d") _ _ s0_d (by decide)
example := lrange_absent c0 s0 (b "nokey") (b "0") (b "1") (by decide)
example := lset_replaces c0 s0 (b "k") (b "-1") (b "z") (-1) _ _ rfl s0_k (by decide) (by decide) (by decide)
example := lset_out_of_range c0 s0 (b "k") (b "3") (b "z") 3 _ _ s0_k (by decide) (by decide) (by decide)
example := ltrim_keeps_range c0 s0 (b "k") (b "-5") (b "-2") (-5) (-2) _ _ rfl s0_k (by decide) (by decide)
  (by decide) (by decide)
example := ltrim_empty_range_deletes c0 s0 (b "k") (b "2") (b "1") 2 1 _ _ s0_k (by decide) (by decide)
  (by decide) (by decide)
example := lrem_from_tail c0 s0 (b "d") (b "-1") (b "a") (-1) _ _ rfl s0_d (by decide) (by decide) (by decide)
example := lrem_from_head c0 s0 (b "d") (b "1") (b "a") 1 _ _ rfl s0_d (by decide) (by decide) (by decide)
example := lrem_all c0 s0 (b "d") (b "0") (b "a") _ _ rfl s0_d (by decide) (by decide)
example := lrem_refines c0 s0 (b "d") (b "-2") (b "a") (-2) _ _ rfl s0_d (by decide) (by decide)
example : lremRef [b "a", b "a", b "a", b "y"] (b "a") 0 = [b "y"] ∧ lremRef [b "a", b "a", b "a", b "y"] (b "a") 2 = [b "a", b "y"] := by decide
example := push_existing true true c0 s0 (b "k") (b "x") [b "y"] _ _ rfl s0_k (by decide)
example := push_one c0 s0 (b "k") (b "x") _ _ rfl s0_k (by decide)
example := push_creates false c0 s0 (b "nokey") (b "x") [b "y"] rfl (by decide)
example := pushx_absent true c0 s0 (b "nokey") (b "x") [] (by decide)
example := lpop_head c0 s0 (b "k") _ _ _ rfl s0_k (by decide)
example := rpop_last c0 s0 (b "k") _ (by decide) _ rfl s0_k (by decide)
example := lpop_count c0 s0 (b "k") (b "2") 2 _ (by decide) _ rfl s0_k (by decide) (by decide) (by decide)
example := rpop_count c0 s0 (b "k") (b "5") 5 _ (by decide) _ rfl s0_k (by decide) (by decide) (by decide)
example := lmove_transfers true false c0 s0 (b "k") (b "d") (b "a") _ _ _ _ rfl (by decide) s0_k (by decide) s0_d
  (by decide) (by decide)
example := lmove_same_key_rotates true false c0 s0 (b "k") (b "a") _ _ rfl s0_k (by decide) (by decide)
example := rotated_facts false false [b "a", b "b", b "c"] (b "c") (by decide)
example := lmove_empty_source true false c0 s0 (b "e") (b "k") _ none _ (by decide) (by decide) s0_k (by decide)
example := wrongtype_no_change c0 s0 (b "str") _ _ s0_str (by decide) (by decide) (b "0") (b "1") (b "x") [] 0 1
  (by decide) (by decide)
example := lmove_wrongtype_no_change true true c0 s0 (b "k") (b "str") _ _ _ _ s0_k (by decide) s0_str (by decide)
  (Or.inr (by decide))
example := lrange_after_rpush c0 s0 (b "k") (b "x") [b "y"] _ _ rfl s0_k (by decide)
example := lindex_after_lpush c0 s0 (b "k") (b "x") _ _ _ rfl s0_k (by decide)
example := rpush_then_llen_rpop c0 s0 (b "k") (b "x") _ _ rfl s0_k (by decide)
example := absent_key_no_change c0 s0 (b "nokey") (b "k") (b "0") (b "1") (b "v") 0 1 (by decide) (by decide) (by decide)
example := ops_refine c0 (b "k") none rfl [.rpush (b "x"), .lpop, .rpop, .llen] s0 _ s0_k (by decide)
example := lindex_after_lset c0 s0 (b "k") (b "1") (b "z") 1 _ _ rfl s0_k (by decide) (by decide) (by decide)

/-- the index-text hypothesis `parseInt64 idx = some i` is satisfiable for every 64-bit `i` -/
theorem index_text_exists (i : Int) (h1 : minInt64 ≤ i) (h2 : i ≤ maxInt64) : ∃ idx, parseInt64 idx = some i :=
  ⟨fmtInt i, parseInt64_fmtInt i h1 h2⟩

end Sugar.Props.C15
