/-
  Props.C14 — hash commands implement a field-to-value map: per-command refinement laws of the model's
  hash handlers against plain association-list operations (`KMap.get / put / del`, `length`, `map`) over
  arbitrary states, short read-your-writes compositions, and witnesses of the inputs on which the full
  statement fails (each one a class of Known.lean).
-/
import SugarModel.Lemmas.HashLemmas
namespace Sugar.Props.C14
open Sugar

/-! ### readers on a live hash -/

/-- **HLEN is the number of fields.** -/
theorem hlen_length (c : Ctx) (s : State) (k : Bytes) (h : KMap Scalar) (ex : Option Int)
    (hl : s.lookup c.db k = some ⟨.hash h, ex⟩) (hlive : (⟨.hash h, ex⟩ : Entry).expired c.now = false) :
    (handleHLen c [b "hlen", k]).run c s = (s, .done (.ok (intReply h.length))) := by
  simp [handleHLen, run_withHash_live c s _ k _ _ _ h ex hl hlive]

/-- HLEN of a key that does not exist is 0 -/
theorem hlen_absent (c : Ctx) (s : State) (k : Bytes) (hl : s.lookup c.db k = none) :
    (handleHLen c [b "hlen", k]).run c s = (s, .done (.ok (intReply 0))) := by
  simp [handleHLen, run_withHash_absent c s _ k _ _ _ hl]

/-- **HEXISTS answers 1 exactly for the fields the map holds.** -/
theorem hexists_get (c : Ctx) (s : State) (k f : Bytes) (h : KMap Scalar) (ex : Option Int)
    (hl : s.lookup c.db k = some ⟨.hash h, ex⟩) (hlive : (⟨.hash h, ex⟩ : Entry).expired c.now = false) :
    (handleHExists c [b "hexists", k, f]).run c s
      = (s, .done (.ok (intReply (if (h.get f).isSome then 1 else 0)))) := by
  simp [handleHExists, run_withHash_live c s _ k _ _ _ h ex hl hlive]

/-- **HGET / HMGET report one element per requested field, in request order**: the field's value, or nil
    for a field the map does not hold (the model — like the implementation — answers an array even for a
    single field). -/
theorem hmget_fields (c : Ctx) (s : State) (n k f : Bytes) (fs : List Bytes) (h : KMap Scalar) (ex : Option Int)
    (hl : s.lookup c.db k = some ⟨.hash h, ex⟩) (hlive : (⟨.hash h, ex⟩ : Entry).expired c.now = false) :
    (handleHGet c (n :: k :: f :: fs)).run c s
      = (s, .done (.ok (arrHdr (f :: fs).length ++ ((f :: fs).map fun g => match h.get g with
          | some v => hashValReply v
          | none => nilBulk).flatten))) := by
  simp [handleHGet, run_withHash_live c s _ k _ _ _ h ex hl hlive]
  rfl

/-- HGET of one string-typed field answers its bytes -/
theorem hget_str (c : Ctx) (s : State) (k f v : Bytes) (h : KMap Scalar) (ex : Option Int)
    (hl : s.lookup c.db k = some ⟨.hash h, ex⟩) (hlive : (⟨.hash h, ex⟩ : Entry).expired c.now = false)
    (hf : h.get f = some (.str v)) :
    (handleHGet c [b "hget", k, f]).run c s = (s, .done (.ok (arrHdr 1 ++ bulkStr v))) := by
  simp [handleHGet, run_withHash_live c s _ k _ _ _ h ex hl hlive, hf, hashValReply]

/-- HGET on a key that does not exist answers nil -/
theorem hget_absent (c : Ctx) (s : State) (k f : Bytes) (hl : s.lookup c.db k = none) :
    (handleHGet c [b "hget", k, f]).run c s = (s, .done (.ok nilBulk)) := by
  simp [handleHGet, run_withHash_absent c s _ k _ _ _ hl]

/-- **HSTRLEN reports, per requested field, the length of the value's text** (string: its bytes; integer and
    float: their rendered text; missing field: 0) -/
theorem hstrlen_fields (c : Ctx) (s : State) (n k f : Bytes) (fs : List Bytes) (h : KMap Scalar) (ex : Option Int)
    (hl : s.lookup c.db k = some ⟨.hash h, ex⟩) (hlive : (⟨.hash h, ex⟩ : Entry).expired c.now = false) :
    (handleHStrLen c (n :: k :: f :: fs)).run c s
      = (s, .done (.ok (arrHdr (f :: fs).length ++ ((f :: fs).map fun g => match h.get g with
          | some (.str t) => intReply t.length
          | some (.flt x) => intReply x.fmtF.length
          | some (.int i) => intReply (fmtInt i).length
          | none => intReply 0).flatten))) := by
  simp [handleHStrLen, run_withHash_live c s _ k _ _ _ h ex hl hlive]
  rfl

/-- **HSTRLEN of a string-typed field is its length in bytes**; of a missing field, 0 -/
theorem hstrlen_str (c : Ctx) (s : State) (k f v : Bytes) (h : KMap Scalar) (ex : Option Int)
    (hl : s.lookup c.db k = some ⟨.hash h, ex⟩) (hlive : (⟨.hash h, ex⟩ : Entry).expired c.now = false)
    (hf : h.get f = some (.str v)) :
    (handleHStrLen c [b "hstrlen", k, f]).run c s = (s, .done (.ok (arrHdr 1 ++ intReply v.length))) := by
  simp [handleHStrLen, run_withHash_live c s _ k _ _ _ h ex hl hlive, hf]

/-- HSTRLEN of a field the hash does not hold is 0 -/
theorem hstrlen_missing_field (c : Ctx) (s : State) (k f : Bytes) (h : KMap Scalar) (ex : Option Int)
    (hl : s.lookup c.db k = some ⟨.hash h, ex⟩) (hlive : (⟨.hash h, ex⟩ : Entry).expired c.now = false)
    (hf : h.get f = none) :
    (handleHStrLen c [b "hstrlen", k, f]).run c s = (s, .done (.ok (arrHdr 1 ++ intReply 0))) := by
  simp [handleHStrLen, run_withHash_live c s _ k _ _ _ h ex hl hlive, hf]

/-- **HKEYS lists exactly the fields** (in map order: any permutation of the groups) -/
theorem hkeys_fields (c : Ctx) (s : State) (k : Bytes) (h : KMap Scalar) (ex : Option Int)
    (hl : s.lookup c.db k = some ⟨.hash h, ex⟩) (hlive : (⟨.hash h, ex⟩ : Entry).expired c.now = false) :
    (handleHKeys c [b "hkeys", k]).run c s
      = (s, .done (.okPerm (arrHdr h.length) (h.map fun fv => bulkStr fv.1))) := by
  simp [handleHKeys, run_withHash_live c s _ k _ _ _ h ex hl hlive]

/-- **HVALS lists exactly the values** (map order) -/
theorem hvals_values (c : Ctx) (s : State) (k : Bytes) (h : KMap Scalar) (ex : Option Int)
    (hl : s.lookup c.db k = some ⟨.hash h, ex⟩) (hlive : (⟨.hash h, ex⟩ : Entry).expired c.now = false) :
    (handleHVals c [b "hvals", k]).run c s
      = (s, .done (.okPerm (arrHdr h.length) (h.map fun fv => hashValReply fv.2))) := by
  simp [handleHVals, run_withHash_live c s _ k _ _ _ h ex hl hlive]

/-- **HGETALL lists exactly the field/value pairs** (map order; each pair stays together) -/
theorem hgetall_pairs (c : Ctx) (s : State) (k : Bytes) (h : KMap Scalar) (ex : Option Int)
    (hl : s.lookup c.db k = some ⟨.hash h, ex⟩) (hlive : (⟨.hash h, ex⟩ : Entry).expired c.now = false) :
    (handleHGetAll c [b "hgetall", k]).run c s
      = (s, .done (.okPerm (arrHdr (h.length * 2)) (h.map fun fv => bulkStr fv.1 ++ hashValReply fv.2))) := by
  simp [handleHGetAll, run_withHash_live c s _ k _ _ _ h ex hl hlive]

/-- **a key that does not exist reads as the empty map**: no fields, no values, length 0 — and the state is
    untouched (HGET and HSTRLEN answer a bare nil instead of an array: stated as the model has it) -/
theorem readers_absent_key (c : Ctx) (s : State) (k f : Bytes) (hl : s.lookup c.db k = none) :
    (handleHGet c [b "hget", k, f]).run c s = (s, .done (.ok nilBulk)) ∧
    (handleHStrLen c [b "hstrlen", k, f]).run c s = (s, .done (.ok nilBulk)) ∧
    (handleHExists c [b "hexists", k, f]).run c s = (s, .done (.ok (intReply 0))) ∧
    (handleHLen c [b "hlen", k]).run c s = (s, .done (.ok (intReply 0))) ∧
    (handleHKeys c [b "hkeys", k]).run c s = (s, .done (.ok (b "*0\r\n"))) ∧
    (handleHVals c [b "hvals", k]).run c s = (s, .done (.ok (b "*0\r\n"))) ∧
    (handleHGetAll c [b "hgetall", k]).run c s = (s, .done (.ok (b "*0\r\n"))) ∧
    (handleHRandField c [b "hrandfield", k]).run c s = (s, .done (.ok (b "*0\r\n"))) := by
  refine ⟨?_, ?_, ?_, ?_, ?_, ?_, ?_, ?_⟩
  · simp [handleHGet, run_withHash_absent c s _ k _ _ _ hl]
  · simp [handleHStrLen, run_withHash_absent c s _ k _ _ _ hl]
  · simp [handleHExists, run_withHash_absent c s _ k _ _ _ hl]
  · simp [handleHLen, run_withHash_absent c s _ k _ _ _ hl]
  · simp [handleHKeys, run_withHash_absent c s _ k _ _ _ hl]
  · simp [handleHVals, run_withHash_absent c s _ k _ _ _ hl]
  · simp [handleHGetAll, run_withHash_absent c s _ k _ _ _ hl]
  · simp [handleHRandField, keysExist_single, hl]

/-! ### HSET -/

/-- **HSET on a key that does not exist creates the hash**: for any argument list that parses to the
    entries map `entries`, the reply is the number of (distinct) fields and the key holds exactly
    `entries`, with no deadline; other keys are untouched. -/
theorem hset_absent (c : Ctx) (s : State) (k : Bytes) (args : List Bytes) (entries : KMap Scalar)
    (hm : c.cfg.maxMemory = 0) (hl : s.lookup c.db k = none)
    (hlen : 2 ≤ args.length) (heven : args.length % 2 = 0) (he : hsetEntries args = some entries) :
    ∃ s', (handleHSet c (b "hset" :: k :: args)).run c s = (s', .done (.ok (intReply entries.length))) ∧
      s'.lookup c.db k = some ⟨.hash entries, none⟩ ∧
      ∀ k2, k ≠ k2 → s'.lookup c.db k2 = s.lookup c.db k2 := by
  refine ⟨(setValues c s [(k, .hash entries)]).1, ?_, setValues_fresh c s k _ hm hl,
    fun k2 hne => setValues_other c s k k2 _ hm hne⟩
  have hlen' : ¬ (args.length + 1 + 1 < 4) := by omega
  simp [handleHSet, hlen', hset_facts, keysExist_single, hl, heven, he, run_setOrErr_single _ _ _ _ _ hm]

/-- HSET of one field whose value AdaptType leaves a string, on an absent key: reply 1, the key holds the
    one-field map with the value's bytes -/
theorem hset_absent_single (c : Ctx) (s : State) (k f v : Bytes)
    (hm : c.cfg.maxMemory = 0) (hl : s.lookup c.db k = none) (hv : adaptType v = .str v) :
    ∃ s', (handleHSet c [b "hset", k, f, v]).run c s = (s', .done (.ok (intReply 1))) ∧
      s'.lookup c.db k = some ⟨.hash [(f, .str v)], none⟩ ∧
      ∀ k2, k ≠ k2 → s'.lookup c.db k2 = s.lookup c.db k2 := by
  have he : hsetEntries [f, v] = some [(f, .str v)] := hsetEntries_single f v _ (by rw [hv]; rfl)
  simpa using hset_absent c s k [f, v] _ hm hl (by simp) (by simp) he

/-- the arguments `f1 v1 f2 v2 …` with string-typed values parse to the map built by successive `put`:
    the parse hypothesis of `hset_absent` / `hset_existing` is satisfiable for every such list -/
theorem hset_args_parse (fvs : List (Bytes × Bytes)) (hv : ∀ p ∈ fvs, adaptType p.2 = .str p.2) :
    hsetEntries (fvs.flatMap fun p => [p.1, p.2])
      = some (fvs.foldl (fun (m : KMap Scalar) p => m.put p.1 (.str p.2)) []) :=
  hsetEntries_pairs fvs hv

/-- **HSET on an existing hash stores the merge** of the old map and the new entries, and replies the number
    of (distinct) fields the command names — each of them is created or updated — whatever the hash held
    before. -/
theorem hset_existing (c : Ctx) (s : State) (k : Bytes) (args : List Bytes) (h entries : KMap Scalar) (ex : Option Int)
    (hm : c.cfg.maxMemory = 0)
    (hl : s.lookup c.db k = some ⟨.hash h, ex⟩) (hlive : (⟨.hash h, ex⟩ : Entry).expired c.now = false)
    (hlen : 2 ≤ args.length) (heven : args.length % 2 = 0) (he : hsetEntries args = some entries) :
    ∃ s', (handleHSet c (b "hset" :: k :: args)).run c s = (s', .done (.ok (intReply entries.length))) ∧
      s'.lookup c.db k = some ⟨.hash (hsetMerge h entries), ex⟩ ∧
      ∀ k2, k ≠ k2 → s'.lookup c.db k2 = s.lookup c.db k2 := by
  refine ⟨(setValues c s [(k, .hash (hsetMerge h entries))]).1, ?_, setValues_over c s k _ _ ex hm hl,
    fun k2 hne => setValues_other c s k k2 _ hm hne⟩
  have hlen' : ¬ (args.length + 1 + 1 < 4) := by omega
  simp [handleHSet, hlen', hset_facts, keysExist_single, hl, heven, he, getValues_live _ _ _ _ hl hlive, asHash?,
    hsetMerge, run_setOrErr_single _ _ _ _ _ hm]

/-- **contents after HSET**: a field named by the command reads as its new value, every other field as
    before (no assumption on the old map) -/
theorem hset_contents (h entries : KMap Scalar) (g : Bytes) :
    (hsetMerge h entries).get g = match entries.get g with
      | some v => some v
      | none => h.get g := hsetMerge_get h entries g

/-- **the size of the hash after HSET** (hash with unique fields): the number of entries of the command plus
    the number of old fields the command does not mention (the reply is the former alone: `hset_reply`) -/
theorem hset_size_exact (h entries : KMap Scalar) (hn : KMap.NoDup h) :
    (hsetMerge h entries).length = entries.length + (h.filter fun fv => (entries.get fv.1).isNone).length :=
  hsetMerge_length h entries hn

/-- HSET of one string-typed field on an existing hash: afterwards field `f` reads `v`, every other field
    reads as before, the deadline is kept -/
theorem hset_existing_single (c : Ctx) (s : State) (k f v : Bytes) (h : KMap Scalar) (ex : Option Int)
    (hm : c.cfg.maxMemory = 0)
    (hl : s.lookup c.db k = some ⟨.hash h, ex⟩) (hlive : (⟨.hash h, ex⟩ : Entry).expired c.now = false)
    (hv : adaptType v = .str v) :
    ∃ s' h', (handleHSet c [b "hset", k, f, v]).run c s = (s', .done (.ok (intReply 1))) ∧
      s'.lookup c.db k = some ⟨.hash h', ex⟩ ∧
      (∀ g, h'.get g = if f = g then some (.str v) else h.get g) ∧
      ∀ k2, k ≠ k2 → s'.lookup c.db k2 = s.lookup c.db k2 := by
  have he : hsetEntries [f, v] = some [(f, .str v)] := hsetEntries_single f v _ (by rw [hv]; rfl)
  obtain ⟨s', h1, h2, h3⟩ := hset_existing c s k [f, v] h _ ex hm hl hlive (by simp) (by simp) he
  refine ⟨s', hsetMerge h [(f, .str v)], by simpa using h1, h2, ?_, h3⟩
  intro g
  rw [hsetMerge_get]
  by_cases hfg : f = g <;> simp [KMap.get, hfg]

/-! ### HSETNX -/

/-- **HSETNX on an existing hash** stores the old map with the absent entries added; the reply counts the
    entries whose field was absent -/
theorem hsetnx_existing (c : Ctx) (s : State) (k : Bytes) (args : List Bytes) (h entries : KMap Scalar) (ex : Option Int)
    (hm : c.cfg.maxMemory = 0)
    (hl : s.lookup c.db k = some ⟨.hash h, ex⟩) (hlive : (⟨.hash h, ex⟩ : Entry).expired c.now = false)
    (hlen : 2 ≤ args.length) (heven : args.length % 2 = 0) (he : hsetEntries args = some entries) :
    ∃ s', (handleHSet c (b "hsetnx" :: k :: args)).run c s
        = (s', .done (.ok (intReply (entries.filter fun fv => (h.get fv.1).isNone).length))) ∧
      s'.lookup c.db k = some ⟨.hash (hsetnxMerge h entries), ex⟩ ∧
      ∀ k2, k ≠ k2 → s'.lookup c.db k2 = s.lookup c.db k2 := by
  refine ⟨(setValues c s [(k, .hash (hsetnxMerge h entries))]).1, ?_, setValues_over c s k _ _ ex hm hl,
    fun k2 hne => setValues_other c s k k2 _ hm hne⟩
  have hlen' : ¬ (args.length + 1 + 1 < 4) := by omega
  simp [handleHSet, hlen', hset_facts, keysExist_single, hl, heven, he, getValues_live _ _ _ _ hl hlive, asHash?,
    hsetnxMerge, run_setOrErr_single _ _ _ _ _ hm]

/-- HSETNX on a key that does not exist creates the hash, like HSET -/
theorem hsetnx_absent_key (c : Ctx) (s : State) (k f v : Bytes)
    (hm : c.cfg.maxMemory = 0) (hl : s.lookup c.db k = none) (hv : adaptType v = .str v) :
    ∃ s', (handleHSet c [b "hsetnx", k, f, v]).run c s = (s', .done (.ok (intReply 1))) ∧
      s'.lookup c.db k = some ⟨.hash [(f, .str v)], none⟩ ∧
      ∀ k2, k ≠ k2 → s'.lookup c.db k2 = s.lookup c.db k2 := by
  have he : hsetEntries [f, v] = some [(f, .str v)] := hsetEntries_single f v _ (by rw [hv]; rfl)
  refine ⟨(setValues c s [(k, .hash [(f, .str v)])]).1, ?_, setValues_fresh c s k _ hm hl,
    fun k2 hne => setValues_other c s k k2 _ hm hne⟩
  simp [handleHSet, hset_facts, keysExist_single, hl, he, run_setOrErr_single _ _ _ _ _ hm]

/-- **contents after HSETNX** (hash with unique fields, as every Go map): a field the map already held
    keeps its value; other fields read as the new entries -/
theorem hsetnx_contents (h entries : KMap Scalar) (g : Bytes) (hn : KMap.NoDup h) :
    (hsetnxMerge h entries).get g = match h.get g with
      | some v => some v
      | none => entries.get g := hsetnxMerge_get h entries g hn

/-- HSETNX of a field the hash already holds: reply 0 and the field keeps its old value -/
theorem hsetnx_present_keeps (c : Ctx) (s : State) (k f v : Bytes) (h : KMap Scalar) (ex : Option Int) (old : Scalar)
    (hm : c.cfg.maxMemory = 0)
    (hl : s.lookup c.db k = some ⟨.hash h, ex⟩) (hlive : (⟨.hash h, ex⟩ : Entry).expired c.now = false)
    (hv : adaptType v = .str v) (hn : KMap.NoDup h) (hf : h.get f = some old) :
    ∃ s' h', (handleHSet c [b "hsetnx", k, f, v]).run c s = (s', .done (.ok (intReply 0))) ∧
      s'.lookup c.db k = some ⟨.hash h', ex⟩ ∧ (∀ g, h'.get g = h.get g) := by
  have he : hsetEntries [f, v] = some [(f, .str v)] := hsetEntries_single f v _ (by rw [hv]; rfl)
  obtain ⟨s', h1, h2, _⟩ := hsetnx_existing c s k [f, v] h _ ex hm hl hlive (by simp) (by simp) he
  refine ⟨s', hsetnxMerge h [(f, .str v)], ?_, h2, ?_⟩
  · simpa [hf] using h1
  · intro g
    rw [hsetnxMerge_get _ _ _ hn]
    cases hg : h.get g with
    | some w => rfl
    | none =>
      have : f ≠ g := by intro e; subst e; rw [hf] at hg; cases hg
      simp [KMap.get, this]

/-- HSETNX of a field the hash does not hold: reply 1 and the field reads the new value, all others as before -/
theorem hsetnx_absent_adds (c : Ctx) (s : State) (k f v : Bytes) (h : KMap Scalar) (ex : Option Int)
    (hm : c.cfg.maxMemory = 0)
    (hl : s.lookup c.db k = some ⟨.hash h, ex⟩) (hlive : (⟨.hash h, ex⟩ : Entry).expired c.now = false)
    (hv : adaptType v = .str v) (hn : KMap.NoDup h) (hf : h.get f = none) :
    ∃ s' h', (handleHSet c [b "hsetnx", k, f, v]).run c s = (s', .done (.ok (intReply 1))) ∧
      s'.lookup c.db k = some ⟨.hash h', ex⟩ ∧
      (∀ g, h'.get g = if f = g then some (.str v) else h.get g) := by
  have he : hsetEntries [f, v] = some [(f, .str v)] := hsetEntries_single f v _ (by rw [hv]; rfl)
  obtain ⟨s', h1, h2, _⟩ := hsetnx_existing c s k [f, v] h _ ex hm hl hlive (by simp) (by simp) he
  refine ⟨s', hsetnxMerge h [(f, .str v)], ?_, h2, ?_⟩
  · simpa [hf] using h1
  · intro g
    rw [hsetnxMerge_get _ _ _ hn]
    by_cases hfg : f = g
    · subst hfg; simp [hf, KMap.get]
    · cases hg : h.get g <;> simp [KMap.get, hfg]

/-! ### HDEL -/

/-- **HDEL removes the named fields**: the stored map is the fold of `del` over the named fields that are
    present, the reply is the number of removals -/
theorem hdel_existing (c : Ctx) (s : State) (k f : Bytes) (fs : List Bytes) (h : KMap Scalar) (ex : Option Int)
    (hm : c.cfg.maxMemory = 0)
    (hl : s.lookup c.db k = some ⟨.hash h, ex⟩) (hlive : (⟨.hash h, ex⟩ : Entry).expired c.now = false) :
    ∃ s', (handleHDel c (b "hdel" :: k :: f :: fs)).run c s = (s', .done (.ok (intReply (hdelFold h (f :: fs)).2))) ∧
      s'.lookup c.db k = some ⟨.hash (hdelFold h (f :: fs)).1, ex⟩ ∧
      ∀ k2, k ≠ k2 → s'.lookup c.db k2 = s.lookup c.db k2 := by
  refine ⟨(setValues c s [(k, .hash (hdelFold h (f :: fs)).1)]).1, ?_, setValues_over c s k _ _ ex hm hl,
    fun k2 hne => setValues_other c s k k2 _ hm hne⟩
  simp [handleHDel, run_withHash_live c s _ k _ _ _ h ex hl hlive, hdelFold, run_setOrErr_single _ _ _ _ _ hm]

/-- **contents after HDEL**: exactly the named fields read as absent, every other field as before -/
theorem hdel_contents (h : KMap Scalar) (fs : List Bytes) (g : Bytes) :
    (hdelFold h fs).1.get g = if g ∈ fs then none else h.get g := hdelFold_get h fs g

/-- **the HDEL reply is the number of fields that disappeared** (hash with unique fields) -/
theorem hdel_reply_counts_removed (h : KMap Scalar) (fs : List Bytes) (hn : KMap.NoDup h) :
    (hdelFold h fs).2 + (hdelFold h fs).1.length = h.length := (hdelFold_count h fs hn).1

/-- HDEL of one present field: reply 1, the map loses the field -/
theorem hdel_present (c : Ctx) (s : State) (k f : Bytes) (h : KMap Scalar) (ex : Option Int)
    (hm : c.cfg.maxMemory = 0)
    (hl : s.lookup c.db k = some ⟨.hash h, ex⟩) (hlive : (⟨.hash h, ex⟩ : Entry).expired c.now = false)
    (hf : (h.get f).isSome = true) :
    ∃ s', (handleHDel c [b "hdel", k, f]).run c s = (s', .done (.ok (intReply 1))) ∧
      s'.lookup c.db k = some ⟨.hash (h.del f), ex⟩ ∧
      ∀ k2, k ≠ k2 → s'.lookup c.db k2 = s.lookup c.db k2 := by
  simpa [hdelFold_single_present h f hf] using hdel_existing c s k f [] h ex hm hl hlive

/-- HDEL of a field the hash does not hold: reply 0, the map is unchanged -/
theorem hdel_missing_field (c : Ctx) (s : State) (k f : Bytes) (h : KMap Scalar) (ex : Option Int)
    (hm : c.cfg.maxMemory = 0)
    (hl : s.lookup c.db k = some ⟨.hash h, ex⟩) (hlive : (⟨.hash h, ex⟩ : Entry).expired c.now = false)
    (hf : h.get f = none) :
    ∃ s', (handleHDel c [b "hdel", k, f]).run c s = (s', .done (.ok (intReply 0))) ∧
      s'.lookup c.db k = some ⟨.hash h, ex⟩ ∧
      ∀ k2, k ≠ k2 → s'.lookup c.db k2 = s.lookup c.db k2 := by
  simpa [hdelFold_single_absent h f hf] using hdel_existing c s k f [] h ex hm hl hlive

/-- HDEL on a key that does not exist: reply 0, nothing changes -/
theorem hdel_absent_key (c : Ctx) (s : State) (k f : Bytes) (fs : List Bytes) (hl : s.lookup c.db k = none) :
    (handleHDel c (b "hdel" :: k :: f :: fs)).run c s = (s, .done (.ok (intReply 0))) := by
  simp [handleHDel, run_withHash_absent c s _ k _ _ _ hl]

/-! ### HINCRBY / HINCRBYFLOAT -/

/-- **HINCRBY adds to an integer field**: whenever the sum fits in 64 bits the reply is `i + d` and the field
    holds `i + d`; every other field and key is untouched. (A sum outside the range is refused, see
    `hincrby_overflow_fails` — repaired in /repo by a `fix:` commit; before it the stored sum wrapped around.) -/
theorem hincrby_int (c : Ctx) (s : State) (k f incr : Bytes) (h : KMap Scalar) (ex : Option Int) (i d : Int)
    (hm : c.cfg.maxMemory = 0)
    (hl : s.lookup c.db k = some ⟨.hash h, ex⟩) (hlive : (⟨.hash h, ex⟩ : Entry).expired c.now = false)
    (hf : h.get f = some (.int i)) (hd : parseInt64 incr = some d)
    (hr : minInt64 ≤ i + d ∧ i + d ≤ maxInt64) :
    ∃ s', (handleHIncrBy c [b "hincrby", k, f, incr]).run c s = (s', .done (.ok (intReply (i + d)))) ∧
      s'.lookup c.db k = some ⟨.hash (h.put f (.int (i + d))), ex⟩ ∧
      ∀ k2, k ≠ k2 → s'.lookup c.db k2 = s.lookup c.db k2 := by
  refine ⟨(setValues c s [(k, .hash (h.put f (.int (i + d))))]).1, ?_, setValues_over c s k _ _ ex hm hl,
    fun k2 hne => setValues_other c s k k2 _ hm hne⟩
  have h1 : ¬ (i + d < minInt64) := by omega
  have h2 : ¬ (i + d > maxInt64) := by omega
  simp [handleHIncrBy, hincr_facts, keysExist_single, hl, hd, getValues_live _ _ _ _ hl hlive, asHash?, hf,
    h1, h2, run_setOrErr_single _ _ _ _ _ hm]

/-- **HINCRBY whose sum does not fit in 64 bits fails and changes nothing**: for every state, every live hash
    and every integer field, the reply is the overflow error and the state is the one before the command -/
theorem hincrby_overflow_fails (c : Ctx) (s : State) (k f incr : Bytes) (h : KMap Scalar) (ex : Option Int) (i d : Int)
    (hl : s.lookup c.db k = some ⟨.hash h, ex⟩) (hlive : (⟨.hash h, ex⟩ : Entry).expired c.now = false)
    (hf : h.get f = some (.int i)) (hd : parseInt64 incr = some d)
    (hr : ¬ (minInt64 ≤ i + d ∧ i + d ≤ maxInt64)) :
    (handleHIncrBy c [b "hincrby", k, f, incr]).run c s = (s, .done (.err overflowErr)) := by
  have h1 : i + d < minInt64 ∨ i + d > maxInt64 := by omega
  simp [handleHIncrBy, hincr_facts, keysExist_single, hl, hd, getValues_live _ _ _ _ hl hlive, asHash?, hf, h1]

/-- **a field the hash does not hold counts as 0**: HINCRBY answers the increment and stores it -/
theorem hincrby_missing_field (c : Ctx) (s : State) (k f incr : Bytes) (h : KMap Scalar) (ex : Option Int) (d : Int)
    (hm : c.cfg.maxMemory = 0)
    (hl : s.lookup c.db k = some ⟨.hash h, ex⟩) (hlive : (⟨.hash h, ex⟩ : Entry).expired c.now = false)
    (hf : h.get f = none) (hd : parseInt64 incr = some d) :
    ∃ s', (handleHIncrBy c [b "hincrby", k, f, incr]).run c s = (s', .done (.ok (intReply d))) ∧
      s'.lookup c.db k = some ⟨.hash (h.put f (.int d)), ex⟩ ∧
      ∀ k2, k ≠ k2 → s'.lookup c.db k2 = s.lookup c.db k2 := by
  have hr := parseInt64_range incr d hd
  refine ⟨(setValues c s [(k, .hash (h.put f (.int d)))]).1, ?_, setValues_over c s k _ _ ex hm hl,
    fun k2 hne => setValues_other c s k k2 _ hm hne⟩
  have h1 : ¬ (d < minInt64) := by omega
  have h2 : ¬ (d > maxInt64) := by omega
  simp [handleHIncrBy, hincr_facts, keysExist_single, hl, hd, getValues_live _ _ _ _ hl hlive, asHash?, hf,
    h1, h2, run_setOrErr_single _ _ _ _ _ hm, KMap.put_put_same]

/-- **HINCRBY on a key that does not exist creates the one-field hash** holding the increment -/
theorem hincrby_absent_key (c : Ctx) (s : State) (k f incr : Bytes) (d : Int)
    (hm : c.cfg.maxMemory = 0) (hl : s.lookup c.db k = none) (hd : parseInt64 incr = some d) :
    ∃ s', (handleHIncrBy c [b "hincrby", k, f, incr]).run c s = (s', .done (.ok (intReply d))) ∧
      s'.lookup c.db k = some ⟨.hash [(f, .int d)], none⟩ ∧
      ∀ k2, k ≠ k2 → s'.lookup c.db k2 = s.lookup c.db k2 := by
  refine ⟨(setValues c s [(k, .hash [(f, .int d)])]).1, ?_, setValues_fresh c s k _ hm hl,
    fun k2 hne => setValues_other c s k k2 _ hm hne⟩
  simp [handleHIncrBy, hincr_facts, keysExist_single, hl, hd, run_setOrErr_single _ _ _ _ _ hm]

/-- **HINCRBY on a string-typed field fails and changes nothing** -/
theorem hincrby_not_a_number (c : Ctx) (s : State) (k f incr t : Bytes) (h : KMap Scalar) (ex : Option Int) (d : Int)
    (hl : s.lookup c.db k = some ⟨.hash h, ex⟩) (hlive : (⟨.hash h, ex⟩ : Entry).expired c.now = false)
    (hf : h.get f = some (.str t)) (hd : parseInt64 incr = some d) :
    (handleHIncrBy c [b "hincrby", k, f, incr]).run c s
      = (s, .done (.err (b "value at field " ++ f ++ b " is not a number"))) := by
  simp [handleHIncrBy, hincr_facts, keysExist_single, hl, hd, getValues_live _ _ _ _ hl hlive, asHash?, hf]

/-- an increment that is not a 64-bit decimal integer is refused before anything is read -/
theorem hincrby_bad_increment (c : Ctx) (s : State) (k f incr : Bytes) (hd : parseInt64 incr = none) :
    (handleHIncrBy c [b "hincrby", k, f, incr]).run c s = (s, .done (.err (b "increment must be an integer"))) := by
  simp [handleHIncrBy, hincr_facts, hd]

/-- **HINCRBYFLOAT adds to a float field** (operands in the model's exact float domain, i.e. `x.add y` is
    defined): the reply is the sum's text and the field holds the sum -/
theorem hincrbyfloat_flt_partial (c : Ctx) (s : State) (k f incr : Bytes) (h : KMap Scalar) (ex : Option Int) (x y r : Flt)
    (hm : c.cfg.maxMemory = 0)
    (hl : s.lookup c.db k = some ⟨.hash h, ex⟩) (hlive : (⟨.hash h, ex⟩ : Entry).expired c.now = false)
    (hf : h.get f = some (.flt x)) (hd : parseFloat64 incr = some (some y)) (ha : x.add y = some r) :
    ∃ s', (handleHIncrBy c [b "hincrbyfloat", k, f, incr]).run c s = (s', .done (.ok (simpleStr r.fmtF))) ∧
      s'.lookup c.db k = some ⟨.hash (h.put f (.flt r)), ex⟩ ∧
      ∀ k2, k ≠ k2 → s'.lookup c.db k2 = s.lookup c.db k2 := by
  refine ⟨(setValues c s [(k, .hash (h.put f (.flt r)))]).1, ?_, setValues_over c s k _ _ ex hm hl,
    fun k2 hne => setValues_other c s k k2 _ hm hne⟩
  simp [handleHIncrBy, hincr_facts, keysExist_single, hl, hd, getValues_live _ _ _ _ hl hlive, asHash?, hf, ha,
    run_setOrErr_single _ _ _ _ _ hm]

/-- HINCRBYFLOAT on an integer field converts it to a float first (exact domain) -/
theorem hincrbyfloat_int_partial (c : Ctx) (s : State) (k f incr : Bytes) (h : KMap Scalar) (ex : Option Int) (i : Int)
    (x y r : Flt) (hm : c.cfg.maxMemory = 0)
    (hl : s.lookup c.db k = some ⟨.hash h, ex⟩) (hlive : (⟨.hash h, ex⟩ : Entry).expired c.now = false)
    (hf : h.get f = some (.int i)) (hd : parseFloat64 incr = some (some y))
    (hi : Flt.ofInt i = some x) (ha : x.add y = some r) :
    ∃ s', (handleHIncrBy c [b "hincrbyfloat", k, f, incr]).run c s = (s', .done (.ok (simpleStr r.fmtF))) ∧
      s'.lookup c.db k = some ⟨.hash (h.put f (.flt r)), ex⟩ ∧
      ∀ k2, k ≠ k2 → s'.lookup c.db k2 = s.lookup c.db k2 := by
  refine ⟨(setValues c s [(k, .hash (h.put f (.flt r)))]).1, ?_, setValues_over c s k _ _ ex hm hl,
    fun k2 hne => setValues_other c s k k2 _ hm hne⟩
  simp [handleHIncrBy, hincr_facts, keysExist_single, hl, hd, getValues_live _ _ _ _ hl hlive, asHash?, hf, hi, ha,
    run_setOrErr_single _ _ _ _ _ hm]

/-- HINCRBYFLOAT on a key that does not exist creates the one-field hash holding the increment -/
theorem hincrbyfloat_absent_key (c : Ctx) (s : State) (k f incr : Bytes) (y : Flt)
    (hm : c.cfg.maxMemory = 0) (hl : s.lookup c.db k = none) (hd : parseFloat64 incr = some (some y)) :
    ∃ s', (handleHIncrBy c [b "hincrbyfloat", k, f, incr]).run c s = (s', .done (.ok (simpleStr y.fmtF))) ∧
      s'.lookup c.db k = some ⟨.hash [(f, .flt y)], none⟩ ∧
      ∀ k2, k ≠ k2 → s'.lookup c.db k2 = s.lookup c.db k2 := by
  refine ⟨(setValues c s [(k, .hash [(f, .flt y)])]).1, ?_, setValues_fresh c s k _ hm hl,
    fun k2 hne => setValues_other c s k k2 _ hm hne⟩
  simp [handleHIncrBy, hincr_facts, keysExist_single, hl, hd, run_setOrErr_single _ _ _ _ _ hm]

/-- what the model does on a float-typed field under HINCRBY (class `hincrby-float-typed-field`): it adds
    the integer as a float instead of failing -/
theorem hincrby_on_float_field (c : Ctx) (s : State) (k f incr : Bytes) (h : KMap Scalar) (ex : Option Int) (d : Int)
    (x y r : Flt) (hm : c.cfg.maxMemory = 0)
    (hl : s.lookup c.db k = some ⟨.hash h, ex⟩) (hlive : (⟨.hash h, ex⟩ : Entry).expired c.now = false)
    (hf : h.get f = some (.flt x)) (hd : parseInt64 incr = some d)
    (hi : Flt.ofInt d = some y) (ha : x.add y = some r) :
    ∃ s', (handleHIncrBy c [b "hincrby", k, f, incr]).run c s = (s', .done (.ok (simpleStr r.fmtF))) ∧
      s'.lookup c.db k = some ⟨.hash (h.put f (.flt r)), ex⟩ := by
  refine ⟨(setValues c s [(k, .hash (h.put f (.flt r)))]).1, ?_, setValues_over c s k _ _ ex hm hl⟩
  simp [handleHIncrBy, hincr_facts, keysExist_single, hl, hd, getValues_live _ _ _ _ hl hlive, asHash?, hf, hi, ha,
    run_setOrErr_single _ _ _ _ _ hm]

/-! ### HRANDFIELD -/

/-- **a stored hash without fields** (what HDEL of the last field leaves behind) **answers the empty array
    for every count** — positive, zero or negative, with or without WITHVALUES, or no count at all — and
    the state is untouched: an empty hash reads like an absent key -/
theorem hrandfield_empty_hash (c : Ctx) (s : State) (k cnt : Bytes) (ex : Option Int) (n : Int)
    (hl : s.lookup c.db k = some ⟨.hash [], ex⟩) (hlive : (⟨.hash [], ex⟩ : Entry).expired c.now = false)
    (hc : parseInt64 cnt = some n) :
    (handleHRandField c [b "hrandfield", k, cnt]).run c s = (s, .done (.ok (b "*0\r\n"))) ∧
    (handleHRandField c [b "hrandfield", k, cnt, b "withvalues"]).run c s = (s, .done (.ok (b "*0\r\n"))) ∧
    (handleHRandField c [b "hrandfield", k]).run c s = (s, .done (.ok (b "*0\r\n"))) := by
  refine ⟨?_, ?_, ?_⟩
  · cases hz : decide (n = 0) <;>
      simp_all [handleHRandField, keysExist_single, getValues_live _ _ _ _ hl hlive, asHash?]
  · cases hz : decide (n = 0) <;>
      simp_all [handleHRandField, keysExist_single, getValues_live _ _ _ _ hl hlive, asHash?, withvalues_facts]
  · simp [handleHRandField, keysExist_single, hl, getValues_live _ _ _ _ hl hlive, asHash?]

/-- **a count of at least the number of fields returns all of them** (map order; a hash without fields is
    `hrandfield_empty_hash`) -/
theorem hrandfield_all (c : Ctx) (s : State) (k cnt : Bytes) (h : KMap Scalar) (ex : Option Int) (n : Int)
    (hl : s.lookup c.db k = some ⟨.hash h, ex⟩) (hlive : (⟨.hash h, ex⟩ : Entry).expired c.now = false)
    (hc : parseInt64 cnt = some n) (hn : (h.length : Int) ≤ n) (hne : h ≠ []) :
    (handleHRandField c [b "hrandfield", k, cnt]).run c s
      = (s, .done (.okPerm (arrHdr h.length) (h.map fun fv => bulkStr fv.1))) := by
  have hn0 : n ≠ 0 := by
    intro e; subst e; cases h with
    | nil => exact hne rfl
    | cons x r => simp at hn; omega
  simp [handleHRandField, keysExist_single, hl, hc, getValues_live _ _ _ _ hl hlive, asHash?, hn, hne]

/-- **a positive count below the number of fields selects that many distinct fields** -/
theorem hrandfield_positive (c : Ctx) (s : State) (k cnt : Bytes) (h : KMap Scalar) (ex : Option Int) (n : Int)
    (hl : s.lookup c.db k = some ⟨.hash h, ex⟩) (hlive : (⟨.hash h, ex⟩ : Entry).expired c.now = false)
    (hc : parseInt64 cnt = some n) (hn0 : 0 < n) (hn : n < h.length) :
    (handleHRandField c [b "hrandfield", k, cnt]).run c s
      = (s, .done (.okPick (arrHdr n.natAbs) n.natAbs true (h.map fun fv => bulkStr fv.1))) := by
  have h0 : n ≠ 0 := by omega
  have h1 : ¬ ((h.length : Int) ≤ n) := by omega
  have h2 : h ≠ [] := by intro e; subst e; simp at hn; omega
  simp [handleHRandField, keysExist_single, hl, hc, getValues_live _ _ _ _ hl hlive, asHash?, h1, h2, hn0]

/-- **a negative count selects |count| fields, repeats allowed** (a hash with at least one field to pick from;
    the hash without fields answers the empty array: `hrandfield_empty_hash`) -/
theorem hrandfield_negative (c : Ctx) (s : State) (k cnt : Bytes) (h : KMap Scalar) (ex : Option Int) (n : Int)
    (hl : s.lookup c.db k = some ⟨.hash h, ex⟩) (hlive : (⟨.hash h, ex⟩ : Entry).expired c.now = false)
    (hc : parseInt64 cnt = some n) (hn0 : n < 0) (hne : h ≠ []) :
    (handleHRandField c [b "hrandfield", k, cnt]).run c s
      = (s, .done (.okPick (arrHdr n.natAbs) n.natAbs false (h.map fun fv => bulkStr fv.1))) := by
  have h0 : n ≠ 0 := by omega
  have h1 : ¬ ((h.length : Int) ≤ n) := by omega
  have h3 : ¬ (0 < n) := by omega
  simp [handleHRandField, keysExist_single, hl, hc, getValues_live _ _ _ _ hl hlive, asHash?, h1, hne, h3]

/-- without a count one field is selected (hash of two or more fields) -/
theorem hrandfield_default (c : Ctx) (s : State) (k : Bytes) (h : KMap Scalar) (ex : Option Int)
    (hl : s.lookup c.db k = some ⟨.hash h, ex⟩) (hlive : (⟨.hash h, ex⟩ : Entry).expired c.now = false)
    (hn : 2 ≤ h.length) :
    (handleHRandField c [b "hrandfield", k]).run c s
      = (s, .done (.okPick (arrHdr 1) 1 true (h.map fun fv => bulkStr fv.1))) := by
  have h1 : ¬ ((h.length : Int) ≤ 1) := by omega
  have h2 : h ≠ [] := by intro e; subst e; simp at hn
  simp [handleHRandField, keysExist_single, hl, getValues_live _ _ _ _ hl hlive, asHash?, h1, h2]

/-- WITHVALUES selects whole field/value pairs (twice as many reply elements) -/
theorem hrandfield_withvalues (c : Ctx) (s : State) (k cnt : Bytes) (h : KMap Scalar) (ex : Option Int) (n : Int)
    (hl : s.lookup c.db k = some ⟨.hash h, ex⟩) (hlive : (⟨.hash h, ex⟩ : Entry).expired c.now = false)
    (hc : parseInt64 cnt = some n) (hn0 : 0 < n) (hn : n < h.length) :
    (handleHRandField c [b "hrandfield", k, cnt, b "withvalues"]).run c s
      = (s, .done (.okPick (arrHdr (n.natAbs * 2)) n.natAbs true
          (h.map fun fv => bulkStr fv.1 ++ hashValReply fv.2))) := by
  have h0 : n ≠ 0 := by omega
  have h1 : ¬ ((h.length : Int) ≤ n) := by omega
  have h2 : h ≠ [] := by intro e; subst e; simp at hn; omega
  simp [handleHRandField, keysExist_single, hl, hc, getValues_live _ _ _ _ hl hlive, asHash?, h1, h2, hn0, withvalues_facts]

/-- the handler program has no `panic` leaf -/
def NoPanic {α : Type} : Prog α → Prop
  | .ret _ => True
  | .call _ k => ∀ r, NoPanic (k r)
  | .panic _ => False
  | .unmod _ => True

/-- a program without a `panic` leaf never ends in a handler panic, whatever the state -/
theorem NoPanic.run {α : Type} (c : Ctx) (p : Prog α) (hp : NoPanic p) (s : State) (w : String)
    (h : (p.run c s).2 = .panic w) : w = "primitive" := by
  induction p generalizing s with
  | ret a => simp [Prog.run] at h
  | call q k ih =>
    simp only [Prog.run] at h
    cases hq : q.exec c s with
    | none => rw [hq] at h; simp at h; exact h.symm
    | some sr => rw [hq] at h; exact ih sr.2 (hp sr.2) sr.1 h
  | panic w' => exact hp.elim
  | unmod w' => simp [Prog.run] at h

/-- **HRANDFIELD cannot panic**: on every command line, the handler has no panicking path left (the only one,
    `rand.Intn(0)` on a hash without fields, now answers the empty array) -/
theorem hrandfield_never_panics (c : Ctx) (cmd : List Bytes) : NoPanic (handleHRandField c cmd) := by
  unfold handleHRandField
  repeat' (first
    | exact trivial
    | intro _
    | split
    | (dsimp only)
    | (simp only [NoPanic]))

/-! ### reading a key of another type fails without changing it -/

/-- **every hash reader, on a key holding a live value that is not a hash, answers the type error and leaves
    the state exactly as it was** -/
theorem readers_wrongtype (c : Ctx) (s : State) (k f : Bytes) (v : Val) (ex : Option Int)
    (hl : s.lookup c.db k = some ⟨v, ex⟩) (hlive : (⟨v, ex⟩ : Entry).expired c.now = false)
    (hv : asHash? v = none) :
    (handleHGet c [b "hget", k, f]).run c s = (s, .done (.err (notHash k))) ∧
    (handleHStrLen c [b "hstrlen", k, f]).run c s = (s, .done (.err (notHash k))) ∧
    (handleHExists c [b "hexists", k, f]).run c s = (s, .done (.err (notHash k))) ∧
    (handleHLen c [b "hlen", k]).run c s = (s, .done (.err (notHash k))) ∧
    (handleHKeys c [b "hkeys", k]).run c s = (s, .done (.err (notHash k))) ∧
    (handleHVals c [b "hvals", k]).run c s = (s, .done (.err (notHash k))) ∧
    (handleHGetAll c [b "hgetall", k]).run c s = (s, .done (.err (notHash k))) ∧
    (handleHRandField c [b "hrandfield", k]).run c s = (s, .done (.err (notHash k))) := by
  refine ⟨?_, ?_, ?_, ?_, ?_, ?_, ?_, ?_⟩
  · simp [handleHGet, run_withHash_wrongtype c s _ k _ _ _ v ex hl hlive hv]
  · simp [handleHStrLen, run_withHash_wrongtype c s _ k _ _ _ v ex hl hlive hv]
  · simp [handleHExists, run_withHash_wrongtype c s _ k _ _ _ v ex hl hlive hv]
  · simp [handleHLen, run_withHash_wrongtype c s _ k _ _ _ v ex hl hlive hv]
  · simp [handleHKeys, run_withHash_wrongtype c s _ k _ _ _ v ex hl hlive hv]
  · simp [handleHVals, run_withHash_wrongtype c s _ k _ _ _ v ex hl hlive hv]
  · simp [handleHGetAll, run_withHash_wrongtype c s _ k _ _ _ v ex hl hlive hv]
  · simp [handleHRandField, keysExist_single, hl, getValues_live _ _ _ _ hl hlive, hv]

/-- HDEL on a key of another type fails and changes nothing -/
theorem hdel_wrongtype (c : Ctx) (s : State) (k f : Bytes) (fs : List Bytes) (v : Val) (ex : Option Int)
    (hl : s.lookup c.db k = some ⟨v, ex⟩) (hlive : (⟨v, ex⟩ : Entry).expired c.now = false)
    (hv : asHash? v = none) :
    (handleHDel c (b "hdel" :: k :: f :: fs)).run c s = (s, .done (.err (notHash k))) := by
  simp [handleHDel, run_withHash_wrongtype c s _ k _ _ _ v ex hl hlive hv]

/-- HINCRBY on a key of another type fails and changes nothing -/
theorem hincrby_wrongtype (c : Ctx) (s : State) (k f incr : Bytes) (v : Val) (ex : Option Int) (d : Int)
    (hl : s.lookup c.db k = some ⟨v, ex⟩) (hlive : (⟨v, ex⟩ : Entry).expired c.now = false)
    (hv : asHash? v = none) (hd : parseInt64 incr = some d) :
    (handleHIncrBy c [b "hincrby", k, f, incr]).run c s = (s, .done (.err (notHash k))) := by
  simp [handleHIncrBy, hincr_facts, keysExist_single, hl, hd, getValues_live _ _ _ _ hl hlive, hv]

/-- the exception (class `hset-on-wrong-type-replaces`): HSET / HSETNX on a key holding a live value of
    another type does NOT fail — the value is replaced by the new hash, under the old deadline -/
theorem hset_wrongtype_replaces (c : Ctx) (s : State) (k : Bytes) (args : List Bytes) (entries : KMap Scalar)
    (v : Val) (ex : Option Int) (hm : c.cfg.maxMemory = 0)
    (hl : s.lookup c.db k = some ⟨v, ex⟩) (hlive : (⟨v, ex⟩ : Entry).expired c.now = false)
    (hv : asHash? v = none)
    (hlen : 2 ≤ args.length) (heven : args.length % 2 = 0) (he : hsetEntries args = some entries) :
    ∃ s', (handleHSet c (b "hset" :: k :: args)).run c s = (s', .done (.ok (intReply entries.length))) ∧
      s'.lookup c.db k = some ⟨.hash entries, ex⟩ := by
  refine ⟨(setValues c s [(k, .hash entries)]).1, ?_, setValues_over c s k _ _ ex hm hl⟩
  have hlen' : ¬ (args.length + 1 + 1 < 4) := by omega
  simp [handleHSet, hlen', hset_facts, keysExist_single, hl, heven, he, getValues_live _ _ _ _ hl hlive, hv,
    run_setOrErr_single _ _ _ _ _ hm]

/-! ### the representation invariant and argument errors -/

/-- **fields stay unique**: every hash a command stores has pairwise distinct fields whenever the hash it
    read had (so the `KMap.NoDup` hypotheses above hold along any command sequence starting from hashes
    created by HSET / HINCRBY) -/
theorem fields_stay_unique (h entries : KMap Scalar) (args fs : List Bytes) (f : Bytes) (v : Scalar)
    (hn : KMap.NoDup h) (he : hsetEntries args = some entries) :
    KMap.NoDup entries ∧ KMap.NoDup (hsetMerge h entries) ∧ KMap.NoDup (hsetnxMerge h entries) ∧
    KMap.NoDup (hdelFold h fs).1 ∧ KMap.NoDup (h.put f v) :=
  have hne := hsetEntries_NoDup args entries he
  ⟨hne, hsetMerge_NoDup h entries hne, hsetnxMerge_NoDup h entries hne, (hdelFold_count h fs hn).2,
    KMap.NoDup_put h f v hn⟩

/-- invalid argument counts fail before any primitive is called: the state is untouched -/
theorem arity_error_no_change (c : Ctx) (s : State) (k : Bytes) :
    (handleHSet c [b "hset", k, b "f"]).run c s = (s, .done (.err wrongArgs)) ∧
    (handleHGet c [b "hget", k]).run c s = (s, .done (.err wrongArgs)) ∧
    (handleHLen c [b "hlen", k, b "x"]).run c s = (s, .done (.err wrongArgs)) ∧
    (handleHExists c [b "hexists", k]).run c s = (s, .done (.err wrongArgs)) ∧
    (handleHDel c [b "hdel", k]).run c s = (s, .done (.err wrongArgs)) ∧
    (handleHIncrBy c [b "hincrby", k, b "f"]).run c s = (s, .done (.err wrongArgs)) ∧
    (handleHRandField c [b "hrandfield"]).run c s = (s, .done (.err wrongArgs)) := by
  refine ⟨?_, ?_, ?_, ?_, ?_, ?_, ?_⟩ <;>
    simp [handleHSet, handleHGet, handleHLen, handleHExists, handleHDel, handleHIncrBy, handleHRandField, withHash]

/-- an odd number of field/value arguments is refused, the state is untouched -/
theorem hset_unpaired_field (c : Ctx) (s : State) (k f v g : Bytes) :
    (handleHSet c [b "hset", k, f, v, g]).run c s
      = (s, .done (.err (b "each field must have a corresponding value"))) := by
  simp [handleHSet, hset_facts]

/-! ### read-your-writes compositions -/

/-- key `k` is not "stored but expired" -/
def NotStale (c : Ctx) (s : State) (k : Bytes) : Prop := ∀ e, s.lookup c.db k = some e → e.expired c.now = false

/-- **Field values are preserved byte for byte.** For every state, key, field and value that AdaptType
    leaves a string, `HSET k f v` followed by `HGET k f` answers exactly the bytes `v` — whether the key was
    absent, held a hash, or held a value of another type (which HSET replaces). Partial: numeric-looking
    values are re-spelled (class `hash-numeric-text-rewritten`), stale keys are excluded. -/
theorem hget_after_hset_partial (c : Ctx) (s : State) (k f v : Bytes) (hm : c.cfg.maxMemory = 0)
    (hv : adaptType v = .str v) (hk : NotStale c s k) :
    ((handleHGet c [b "hget", k, f]).run c ((handleHSet c [b "hset", k, f, v]).run c s).1).2
      = .done (.ok (arrHdr 1 ++ bulkStr v)) := by
  have he : hsetEntries [f, v] = some [(f, .str v)] := hsetEntries_single f v _ (by rw [hv]; rfl)
  cases hl : s.lookup c.db k with
  | none =>
    obtain ⟨s', h1, h2, _⟩ := hset_absent_single c s k f v hm hl hv
    rw [h1]
    rw [hget_str c s' k f v _ none h2 rfl (by simp [KMap.get])]
  | some e =>
    obtain ⟨val, ex⟩ := e
    have hlive := hk _ hl
    cases hh : asHash? val with
    | none =>
      obtain ⟨s', h1, h2⟩ := hset_wrongtype_replaces c s k [f, v] _ val ex hm hl hlive hh (by simp) (by simp) he
      rw [h1]
      rw [hget_str c s' k f v _ ex h2 hlive (by simp [KMap.get])]
    | some h =>
      have : val = .hash h := by cases val <;> simp [asHash?] at hh; rw [hh]
      subst this
      obtain ⟨s', h', h1, h2, h3, _⟩ := hset_existing_single c s k f v h ex hm hl hlive hv
      rw [h1]
      rw [hget_str c s' k f v h' ex h2 hlive (by rw [h3]; simp)]

/-- **A deleted field is gone**: after `HDEL k f …`, `HEXISTS k f` answers 0 -/
theorem hexists_after_hdel (c : Ctx) (s : State) (k f : Bytes) (fs : List Bytes) (h : KMap Scalar) (ex : Option Int)
    (hm : c.cfg.maxMemory = 0)
    (hl : s.lookup c.db k = some ⟨.hash h, ex⟩) (hlive : (⟨.hash h, ex⟩ : Entry).expired c.now = false) :
    ((handleHExists c [b "hexists", k, f]).run c ((handleHDel c (b "hdel" :: k :: f :: fs)).run c s).1).2
      = .done (.ok (intReply 0)) := by
  obtain ⟨s', h1, h2, _⟩ := hdel_existing c s k f fs h ex hm hl hlive
  rw [h1]
  rw [hexists_get c s' k f _ ex h2 hlive, hdel_contents]
  simp

/-- after `HDEL k f`, `HGET k f` answers nil (inside the one-element array) -/
theorem hget_after_hdel (c : Ctx) (s : State) (k f : Bytes) (h : KMap Scalar) (ex : Option Int)
    (hm : c.cfg.maxMemory = 0)
    (hl : s.lookup c.db k = some ⟨.hash h, ex⟩) (hlive : (⟨.hash h, ex⟩ : Entry).expired c.now = false) :
    ((handleHGet c [b "hget", k, f]).run c ((handleHDel c [b "hdel", k, f]).run c s).1).2
      = .done (.ok (arrHdr 1 ++ nilBulk)) := by
  obtain ⟨s', h1, h2, _⟩ := hdel_existing c s k f [] h ex hm hl hlive
  rw [h1]
  rw [hmget_fields c s' _ k f [] _ ex h2 hlive]
  simp [hdel_contents]

/-- after creating a hash with HSET, HLEN answers the same number HSET replied (the number of distinct fields) -/
theorem hlen_after_hset_absent (c : Ctx) (s : State) (k : Bytes) (args : List Bytes) (entries : KMap Scalar)
    (hm : c.cfg.maxMemory = 0) (hl : s.lookup c.db k = none)
    (hlen : 2 ≤ args.length) (heven : args.length % 2 = 0) (he : hsetEntries args = some entries) :
    ((handleHLen c [b "hlen", k]).run c ((handleHSet c (b "hset" :: k :: args)).run c s).1).2
      = ((handleHSet c (b "hset" :: k :: args)).run c s).2 := by
  obtain ⟨s', h1, h2, _⟩ := hset_absent c s k args entries hm hl hlen heven he
  rw [h1]
  rw [hlen_length c s' k entries none h2 rfl]

/-- after `HINCRBY k f d` on an integer field, `HGET k f` reads the sum when it fits in 64 bits, and the old
    value when it does not (the command failed) -/
theorem hget_after_hincrby (c : Ctx) (s : State) (k f incr : Bytes) (h : KMap Scalar) (ex : Option Int) (i d : Int)
    (hm : c.cfg.maxMemory = 0)
    (hl : s.lookup c.db k = some ⟨.hash h, ex⟩) (hlive : (⟨.hash h, ex⟩ : Entry).expired c.now = false)
    (hf : h.get f = some (.int i)) (hd : parseInt64 incr = some d) :
    ((handleHGet c [b "hget", k, f]).run c ((handleHIncrBy c [b "hincrby", k, f, incr]).run c s).1).2
      = .done (.ok (arrHdr 1 ++ intReply (if minInt64 ≤ i + d ∧ i + d ≤ maxInt64 then i + d else i))) := by
  by_cases hr : minInt64 ≤ i + d ∧ i + d ≤ maxInt64
  · obtain ⟨s', h1, h2, _⟩ := hincrby_int c s k f incr h ex i d hm hl hlive hf hd hr
    rw [h1]
    rw [hmget_fields c s' _ k f [] _ ex h2 hlive]
    simp [hashValReply, hr]
  · rw [hincrby_overflow_fails c s k f incr h ex i d hl hlive hf hd hr]
    rw [hmget_fields c s _ k f [] _ ex hl hlive]
    simp [hashValReply, hr, hf]

/-- HSET of field `f` leaves what every other field `g` reads as -/
theorem hset_frames_other_fields (c : Ctx) (s : State) (k f v g : Bytes) (h : KMap Scalar) (ex : Option Int)
    (hm : c.cfg.maxMemory = 0)
    (hl : s.lookup c.db k = some ⟨.hash h, ex⟩) (hlive : (⟨.hash h, ex⟩ : Entry).expired c.now = false)
    (hv : adaptType v = .str v) (hne : f ≠ g) :
    ((handleHGet c [b "hget", k, g]).run c ((handleHSet c [b "hset", k, f, v]).run c s).1).2
      = ((handleHGet c [b "hget", k, g]).run c s).2 := by
  obtain ⟨s', h', h1, h2, h3, _⟩ := hset_existing_single c s k f v h ex hm hl hlive hv
  rw [h1]
  rw [hmget_fields c s' _ k g [] h' ex h2 hlive, hmget_fields c s _ k g [] h ex hl hlive]
  simp [h3, hne]

/-! ### command sequences against the reference map -/

/-- the writing hash commands, with their parsed arguments -/
inductive HOp where
  | hset (args : List Bytes) (entries : KMap Scalar)
  | hsetnx (args : List Bytes) (entries : KMap Scalar)
  | hdel (f : Bytes) (fs : List Bytes)
  | hincrby (f incr : Bytes) (d : Int)

/-- the integer a field counts as under HINCRBY -/
def curInt (h : KMap Scalar) (f : Bytes) : Int :=
  match h.get f with
  | some (.int i) => i
  | _ => 0

/-- the command the client sends -/
def HOp.prog (c : Ctx) (k : Bytes) : HOp → Prog Res
  | .hset args _ => handleHSet c (b "hset" :: k :: args)
  | .hsetnx args _ => handleHSet c (b "hsetnx" :: k :: args)
  | .hdel f fs => handleHDel c (b "hdel" :: k :: f :: fs)
  | .hincrby f incr _ => handleHIncrBy c [b "hincrby", k, f, incr]

/-- well-formed arguments; for HINCRBY: integer (or missing) field and a sum inside the 64-bit range -/
def HOp.pre (h : KMap Scalar) : HOp → Prop
  | .hset args entries => 2 ≤ args.length ∧ args.length % 2 = 0 ∧ hsetEntries args = some entries
  | .hsetnx args entries => 2 ≤ args.length ∧ args.length % 2 = 0 ∧ hsetEntries args = some entries
  | .hdel _ _ => True
  | .hincrby f incr d => parseInt64 incr = some d ∧ (h.get f = none ∨ ∃ i, h.get f = some (.int i)) ∧
      minInt64 ≤ curInt h f + d ∧ curInt h f + d ≤ maxInt64

/-- reference semantics on the field-to-value map -/
def HOp.apply (h : KMap Scalar) : HOp → KMap Scalar
  | .hset _ entries => hsetMerge h entries
  | .hsetnx _ entries => hsetnxMerge h entries
  | .hdel f fs => (hdelFold h (f :: fs)).1
  | .hincrby f _ d => h.put f (.int (curInt h f + d))

/-- the reply the model gives (HSET: the number of fields the command names) -/
def HOp.reply (h : KMap Scalar) : HOp → Bytes
  | .hset _ entries => intReply entries.length
  | .hsetnx _ entries => intReply (entries.filter fun fv => (h.get fv.1).isNone).length
  | .hdel f fs => intReply (hdelFold h (f :: fs)).2
  | .hincrby f _ d => intReply (curInt h f + d)

/-- **one writing command refines the reference map operation**: on a live hash, under the command's
    precondition, the reply is the reference reply, the key holds the reference result under its old
    deadline, and no other key changes -/
theorem step_refines (c : Ctx) (s : State) (k : Bytes) (h : KMap Scalar) (ex : Option Int) (op : HOp)
    (hm : c.cfg.maxMemory = 0)
    (hl : s.lookup c.db k = some ⟨.hash h, ex⟩) (hlive : (⟨.hash h, ex⟩ : Entry).expired c.now = false)
    (hp : op.pre h) :
    ∃ s', (op.prog c k).run c s = (s', .done (.ok (op.reply h))) ∧
      s'.lookup c.db k = some ⟨.hash (op.apply h), ex⟩ ∧
      ∀ k2, k ≠ k2 → s'.lookup c.db k2 = s.lookup c.db k2 := by
  cases op with
  | hset args entries => exact hset_existing c s k args h entries ex hm hl hlive hp.1 hp.2.1 hp.2.2
  | hsetnx args entries => exact hsetnx_existing c s k args h entries ex hm hl hlive hp.1 hp.2.1 hp.2.2
  | hdel f fs => exact hdel_existing c s k f fs h ex hm hl hlive
  | hincrby f incr d =>
    obtain ⟨hd, hf, hr⟩ := hp
    rcases hf with hf | ⟨i, hf⟩
    · have hc : curInt h f = 0 := by simp [curInt, hf]
      simpa [HOp.prog, HOp.reply, HOp.apply, hc] using hincrby_missing_field c s k f incr h ex d hm hl hlive hf hd
    · have hc : curInt h f = i := by simp [curInt, hf]
      rw [hc] at hr
      simpa [HOp.prog, HOp.reply, HOp.apply, hc] using hincrby_int c s k f incr h ex i d hm hl hlive hf hd hr

/-- run a command sequence, collecting the outcomes -/
def runOps (c : Ctx) (k : Bytes) : List HOp → State → State × List (Outcome Res)
  | [], s => (s, [])
  | op :: r, s =>
    let (s1, o) := (op.prog c k).run c s
    let (s2, os) := runOps c k r s1
    (s2, o :: os)

/-- reference run on the map alone -/
def refOps : List HOp → KMap Scalar → KMap Scalar × List Bytes
  | [], h => (h, [])
  | op :: r, h =>
    let (h2, rs) := refOps r (op.apply h)
    (h2, op.reply h :: rs)

/-- every step's precondition holds on the map the reference has reached -/
def PreAll : List HOp → KMap Scalar → Prop
  | [], _ => True
  | op :: r, h => op.pre h ∧ PreAll r (op.apply h)

/-- **any sequence of writing hash commands refines the reference map**: for every list of HSET / HSETNX /
    HDEL / HINCRBY commands on a live hash whose preconditions hold along the reference run, every reply equals
    the reference reply, the key finally holds the reference map (deadline kept), other keys are untouched -/
theorem sequence_refines (c : Ctx) (k : Bytes) (ops : List HOp) (s : State) (h : KMap Scalar) (ex : Option Int)
    (hm : c.cfg.maxMemory = 0)
    (hl : s.lookup c.db k = some ⟨.hash h, ex⟩) (hlive : (⟨.hash h, ex⟩ : Entry).expired c.now = false)
    (hp : PreAll ops h) :
    (runOps c k ops s).2 = (refOps ops h).2.map (fun r => .done (.ok r)) ∧
    (runOps c k ops s).1.lookup c.db k = some ⟨.hash (refOps ops h).1, ex⟩ ∧
    ∀ k2, k ≠ k2 → (runOps c k ops s).1.lookup c.db k2 = s.lookup c.db k2 := by
  induction ops generalizing s h with
  | nil => exact ⟨rfl, hl, fun _ _ => rfl⟩
  | cons op r ih =>
    obtain ⟨s1, h1, h2, h3⟩ := step_refines c s k h ex op hm hl hlive hp.1
    obtain ⟨i1, i2, i3⟩ := ih s1 (op.apply h) h2 hlive hp.2
    simp only [runOps, refOps, h1, List.map_cons]
    refine ⟨by rw [i1], i2, fun k2 hne => by rw [i3 k2 hne, h3 k2 hne]⟩

/-- **reads after any command sequence report exactly the reference map**: HGET / HMGET, HLEN and HEXISTS
    after the sequence answer from `(refOps ops h).1` -/
theorem reads_after_sequence (c : Ctx) (k f : Bytes) (fs : List Bytes) (ops : List HOp) (s : State) (h : KMap Scalar)
    (ex : Option Int) (hm : c.cfg.maxMemory = 0)
    (hl : s.lookup c.db k = some ⟨.hash h, ex⟩) (hlive : (⟨.hash h, ex⟩ : Entry).expired c.now = false)
    (hp : PreAll ops h) :
    ((handleHGet c (b "hmget" :: k :: f :: fs)).run c (runOps c k ops s).1).2
      = .done (.ok (arrHdr (f :: fs).length ++ ((f :: fs).map fun g => match (refOps ops h).1.get g with
          | some v => hashValReply v
          | none => nilBulk).flatten)) ∧
    ((handleHLen c [b "hlen", k]).run c (runOps c k ops s).1).2 = .done (.ok (intReply (refOps ops h).1.length)) ∧
    ((handleHExists c [b "hexists", k, f]).run c (runOps c k ops s).1).2
      = .done (.ok (intReply (if ((refOps ops h).1.get f).isSome then 1 else 0))) := by
  obtain ⟨_, h2, _⟩ := sequence_refines c k ops s h ex hm hl hlive hp
  refine ⟨?_, ?_, ?_⟩
  · rw [hmget_fields c _ _ k f fs _ ex h2 hlive]
  · rw [hlen_length c _ k _ ex h2 hlive]
  · rw [hexists_get c _ k f _ ex h2 hlive]


/-! ### where the full statement fails (model witnesses; each is a class of Known.lean) -/

/-- repaired upstream (was the witness of class `hset-reply-counts-all-fields`, where the reply was 2, the size
    of the hash afterwards): HSET adding ONE new field to a one-field hash replies 1; HSET updating that field
    and adding two replies 3 (every field named is created or updated) -/
theorem hset_reply_replay :
    let c : Ctx := { db := 0, now := 1000 }
    let s : State := { dbs := [(0, ⟨[(b "k", ⟨.hash [(b "f", .str (b "v"))], none⟩)], []⟩)], mem := 0 }
    ((handleHSet c [b "hset", b "k", b "g", b "w"]).run c s).2 = .done (.ok (b ":1\r\n")) ∧
    ((handleHSet c [b "hset", b "k", b "f", b "x", b "g", b "w", b "g", b "y", b "e", b "z"]).run c s).2
      = .done (.ok (b ":3\r\n")) := by decide

/-- `hash-numeric-text-rewritten`: HSET k f 007; HGET k f answers the integer 7, not the bytes `007` -/
theorem numeric_text_rewritten_witness :
    let c : Ctx := { db := 0, now := 1000 }
    ((handleHGet c [b "hget", b "k", b "f"]).run c
        ((handleHSet c [b "hset", b "k", b "f", b "007"]).run c { dbs := [], mem := 0 }).1).2
      = .done (.ok (b "*1\r\n:7\r\n")) := by decide

/-- `hset-on-wrong-type-replaces`: HSET on a key holding a string succeeds and replaces the string -/
theorem hset_on_wrong_type_replaces_witness :
    let c : Ctx := { db := 0, now := 1000 }
    let s : State := { dbs := [(0, ⟨[(b "k", ⟨.str (b "old"), none⟩)], []⟩)], mem := 0 }
    ((handleHSet c [b "hset", b "k", b "f", b "v"]).run c s).2 = .done (.ok (b ":1\r\n")) ∧
    ((handleHSet c [b "hset", b "k", b "f", b "v"]).run c s).1.lookup 0 (b "k")
      = some ⟨.hash [(b "f", .str (b "v"))], none⟩ := by decide

/-- repaired upstream (was the witness of class `hash-integer-overflow-wraps`, where the reply was the smallest
    int64): HINCRBY 1 on a field holding the largest int64 fails and leaves the hash as it was; HINCRBY -1 answers
    the exact integer -/
theorem hincrby_overflow_replay :
    let c : Ctx := { db := 0, now := 1000 }
    let s : State := { dbs := [(0, ⟨[(b "k", ⟨.hash [(b "n", .int 9223372036854775807)], none⟩)], []⟩)], mem := 0 }
    (handleHIncrBy c [b "hincrby", b "k", b "n", b "1"]).run c s = (s, .done (.err overflowErr)) ∧
    ((handleHIncrBy c [b "hincrby", b "k", b "n", b "-1"]).run c s).2 = .done (.ok (b ":9223372036854775806\r\n")) := by decide

/-- `hincrby-float-typed-field`: HINCRBY on a float-typed field (1.5) adds as a float and answers `+2.5` -/
theorem hincrby_float_typed_field_witness :
    let c : Ctx := { db := 0, now := 1000 }
    let s : State := { dbs := [(0, ⟨[(b "k", ⟨.hash [(b "x", .flt (.fin ⟨15, -1⟩))], none⟩)], []⟩)], mem := 0 }
    ((handleHIncrBy c [b "hincrby", b "k", b "x", b "1"]).run c s).2 = .done (.ok (b "+2.5\r\n")) := by decide

/-- repaired upstream (was the witness of class `hrandfield-empty-hash-panic`, where the handler ran into
    `rand.Intn(0)`): HSET k f1 a f2 b; HDEL k f1 f1 f2 leaves a hash without fields, on which
    HRANDFIELD k -3 answers the empty array -/
theorem hrandfield_empty_hash_replay :
    let c : Ctx := { db := 0, now := 1000 }
    let s1 := ((handleHSet c [b "hset", b "k", b "f1", b "a", b "f2", b "b"]).run c { dbs := [], mem := 0 }).1
    let s2 := ((handleHDel c [b "hdel", b "k", b "f1", b "f1", b "f2"]).run c s1).1
    s2.lookup 0 (b "k") = some ⟨.hash [], none⟩ ∧
    (handleHRandField c [b "hrandfield", b "k", b "-3"]).run c s2 = (s2, .done (.ok (b "*0\r\n"))) := by decide

/-- `expired-key-still-exists`: HLEN on a hash whose deadline has passed answers a type error instead of 0 -/
theorem hlen_on_expired_key_witness :
    let c : Ctx := { db := 0, now := 2000 }
    let s : State := { dbs := [(0, ⟨[(b "k", ⟨.hash [(b "f", .str (b "v"))], some 1500⟩)], [b "k"]⟩)], mem := 0 }
    ((handleHLen c [b "hlen", b "k"]).run c s).2 = .done (.err (b "value at k is not a hash")) := by decide

/-! ### non-vacuity: every conditional theorem above, instantiated on a concrete state with all hypotheses decided -/

/-- fixture: database 0, clock at 1000 ms -/
def c0 : Ctx := { db := 0, now := 1000 }
/-- fixture: a hash with a string, an integer and a float (1.5) field -/
def h0 : KMap Scalar := [(b "f", .str (b "v")), (b "n", .int 5), (b "x", .flt (.fin ⟨15, -1⟩))]
/-- fixture: key `k` holds `h0` with a deadline in the future, key `str` holds a string -/
def s0 : State := { dbs := [(0, ⟨[(b "k", ⟨.hash h0, some 5000⟩), (b "str", ⟨.str (b "abc"), none⟩)], [b "k"]⟩)], mem := 0 }

example := hlen_length c0 s0 (b "k") h0 (some 5000) (by decide) (by decide)
example := hlen_absent c0 s0 (b "nokey") (by decide)
example := hexists_get c0 s0 (b "k") (b "f") h0 (some 5000) (by decide) (by decide)
example := hmget_fields c0 s0 (b "hmget") (b "k") (b "f") [b "zz", b "n"] h0 (some 5000) (by decide) (by decide)
example := hget_str c0 s0 (b "k") (b "f") (b "v") h0 (some 5000) (by decide) (by decide) (by decide)
example := hget_absent c0 s0 (b "nokey") (b "f") (by decide)
example := readers_absent_key c0 s0 (b "nokey") (b "f") (by decide)
example := hstrlen_fields c0 s0 (b "hstrlen") (b "k") (b "f") [b "n", b "x", b "zz"] h0 (some 5000) (by decide) (by decide)
example := hstrlen_str c0 s0 (b "k") (b "f") (b "v") h0 (some 5000) (by decide) (by decide) (by decide)
example := hstrlen_missing_field c0 s0 (b "k") (b "zz") h0 (some 5000) (by decide) (by decide) (by decide)
example := hkeys_fields c0 s0 (b "k") h0 (some 5000) (by decide) (by decide)
example := hvals_values c0 s0 (b "k") h0 (some 5000) (by decide) (by decide)
example := hgetall_pairs c0 s0 (b "k") h0 (some 5000) (by decide) (by decide)

example := hset_absent c0 s0 (b "nokey") [b "f", b "v", b "g", b "w"] [(b "f", .str (b "v")), (b "g", .str (b "w"))]
  (by decide) (by decide) (by decide) (by decide) (by decide)
example := hset_absent_single c0 s0 (b "nokey") (b "f") (b "v") (by decide) (by decide) (by decide)
example := hset_args_parse [(b "f", b "v"), (b "g", b "w")] (by decide)
example := hset_existing c0 s0 (b "k") [b "g", b "w"] h0 [(b "g", .str (b "w"))] (some 5000)
  (by decide) (by decide) (by decide) (by decide) (by decide) (by decide)
example := hset_existing_single c0 s0 (b "k") (b "g") (b "w") h0 (some 5000) (by decide) (by decide) (by decide) (by decide)
example := hsetnx_existing c0 s0 (b "k") [b "g", b "w"] h0 [(b "g", .str (b "w"))] (some 5000)
  (by decide) (by decide) (by decide) (by decide) (by decide) (by decide)
example := hsetnx_contents h0 [(b "g", .str (b "w"))] (b "g") (by decide)
example := hsetnx_present_keeps c0 s0 (b "k") (b "f") (b "w") h0 (some 5000) (.str (b "v"))
  (by decide) (by decide) (by decide) (by decide) (by decide) (by decide)
example := hsetnx_absent_adds c0 s0 (b "k") (b "g") (b "w") h0 (some 5000)
  (by decide) (by decide) (by decide) (by decide) (by decide) (by decide)
example := hdel_existing c0 s0 (b "k") (b "f") [b "zz"] h0 (some 5000) (by decide) (by decide) (by decide)
example := hdel_reply_counts_removed h0 [b "f", b "zz", b "f"] (by decide)
example := hdel_present c0 s0 (b "k") (b "f") h0 (some 5000) (by decide) (by decide) (by decide) (by decide)
example := hdel_missing_field c0 s0 (b "k") (b "zz") h0 (some 5000) (by decide) (by decide) (by decide) (by decide)
example := hdel_absent_key c0 s0 (b "nokey") (b "f") [] (by decide)

example := hincrby_int c0 s0 (b "k") (b "n") (b "-7") h0 (some 5000) 5 (-7)
  (by decide) (by decide) (by decide) (by decide) (by decide) (by decide)
example := hincrby_overflow_fails c0 s0 (b "k") (b "n") (b "9223372036854775807") h0 (some 5000) 5 9223372036854775807
  (by decide) (by decide) (by decide) (by decide) (by decide)
example := hincrby_missing_field c0 s0 (b "k") (b "zz") (b "3") h0 (some 5000) 3
  (by decide) (by decide) (by decide) (by decide) (by decide)
example := hincrby_absent_key c0 s0 (b "nokey") (b "n") (b "3") 3 (by decide) (by decide) (by decide)
example := hincrby_not_a_number c0 s0 (b "k") (b "f") (b "3") (b "v") h0 (some 5000) 3
  (by decide) (by decide) (by decide) (by decide)
example := hincrby_bad_increment c0 s0 (b "k") (b "n") (b "1.5") (by decide)
example := hincrbyfloat_flt_partial c0 s0 (b "k") (b "x") (b "0.25") h0 (some 5000) (.fin ⟨15, -1⟩) (.fin ⟨25, -2⟩) (.fin ⟨175, -2⟩)
  (by decide) (by decide) (by decide) (by decide) (by decide) (by decide)
example := hincrbyfloat_int_partial c0 s0 (b "k") (b "n") (b "0.25") h0 (some 5000) 5 (.fin ⟨5, 0⟩) (.fin ⟨25, -2⟩) (.fin ⟨525, -2⟩)
  (by decide) (by decide) (by decide) (by decide) (by decide) (by decide) (by decide)
example := hincrbyfloat_absent_key c0 s0 (b "nokey") (b "x") (b "0.25") (.fin ⟨25, -2⟩) (by decide) (by decide) (by decide)
example := hincrby_on_float_field c0 s0 (b "k") (b "x") (b "1") h0 (some 5000) 1 (.fin ⟨15, -1⟩) (.fin ⟨1, 0⟩) (.fin ⟨25, -1⟩)
  (by decide) (by decide) (by decide) (by decide) (by decide) (by decide) (by decide)

example := hrandfield_all c0 s0 (b "k") (b "3") h0 (some 5000) 3 (by decide) (by decide) (by decide) (by decide) (by decide)
example := hrandfield_empty_hash c0 { dbs := [(0, ⟨[(b "k", ⟨.hash [], none⟩)], []⟩)], mem := 0 } (b "k") (b "-3") none (-3)
  (by decide) (by decide) (by decide)
example := hrandfield_never_panics c0 [b "hrandfield", b "k", b "-3"]
example := hrandfield_positive c0 s0 (b "k") (b "2") h0 (some 5000) 2 (by decide) (by decide) (by decide) (by decide) (by decide)
example := hrandfield_negative c0 s0 (b "k") (b "-4") h0 (some 5000) (-4) (by decide) (by decide) (by decide) (by decide) (by decide)
example := hrandfield_default c0 s0 (b "k") h0 (some 5000) (by decide) (by decide) (by decide)
example := hrandfield_withvalues c0 s0 (b "k") (b "2") h0 (some 5000) 2 (by decide) (by decide) (by decide) (by decide) (by decide)

example := readers_wrongtype c0 s0 (b "str") (b "f") (.str (b "abc")) none (by decide) (by decide) (by decide)
example := hdel_wrongtype c0 s0 (b "str") (b "f") [] (.str (b "abc")) none (by decide) (by decide) (by decide)
example := hincrby_wrongtype c0 s0 (b "str") (b "f") (b "1") (.str (b "abc")) none 1 (by decide) (by decide) (by decide) (by decide)
example := hset_wrongtype_replaces c0 s0 (b "str") [b "f", b "v"] [(b "f", .str (b "v"))] (.str (b "abc")) none
  (by decide) (by decide) (by decide) (by decide) (by decide) (by decide) (by decide)
example := hset_size_exact h0 [(b "g", .str (b "w"))] (by decide)
example := hsetnx_absent_key c0 s0 (b "nokey") (b "f") (b "v") (by decide) (by decide) (by decide)
example := fields_stay_unique h0 [(b "g", .str (b "w"))] [b "g", b "w"] [b "f"] (b "f") (.int 1) (by decide) (by decide)

/-- the fixture key is not stale -/
theorem notStale_k0 : NotStale c0 s0 (b "k") := by
  intro e he
  have hk : s0.lookup c0.db (b "k") = some ⟨.hash h0, some 5000⟩ := by decide
  rw [hk] at he
  cases he
  decide
example := hget_after_hset_partial c0 s0 (b "k") (b "g") (b "w") (by decide) (by decide) notStale_k0
example := hexists_after_hdel c0 s0 (b "k") (b "f") [] h0 (some 5000) (by decide) (by decide) (by decide)
example := hget_after_hdel c0 s0 (b "k") (b "f") h0 (some 5000) (by decide) (by decide) (by decide)
example := hlen_after_hset_absent c0 s0 (b "nokey") [b "f", b "v"] [(b "f", .str (b "v"))]
  (by decide) (by decide) (by decide) (by decide) (by decide)
example := hget_after_hincrby c0 s0 (b "k") (b "n") (b "-7") h0 (some 5000) 5 (-7)
  (by decide) (by decide) (by decide) (by decide) (by decide)
example := hset_frames_other_fields c0 s0 (b "k") (b "g") (b "w") (b "f") h0 (some 5000)
  (by decide) (by decide) (by decide) (by decide) (by decide)

/-- a four-command sequence whose preconditions hold along the reference run -/
def ops0 : List HOp := [.hset [b "g", b "w"] [(b "g", .str (b "w"))], .hincrby (b "n") (b "-7") (-7),
  .hdel (b "f") [b "zz"], .hsetnx [b "g", b "q"] [(b "g", .str (b "q"))]]
/-- the preconditions of `ops0` hold along the reference run from `h0` -/
theorem preAll_ops0 : PreAll ops0 h0 :=
  ⟨⟨by decide, by decide, by decide⟩, ⟨by decide, Or.inr ⟨5, by decide⟩, by decide, by decide⟩, trivial,
    ⟨by decide, by decide, by decide⟩, trivial⟩
example := sequence_refines c0 (b "k") ops0 s0 h0 (some 5000) (by decide) (by decide) (by decide) preAll_ops0
example := reads_after_sequence c0 (b "k") (b "g") [b "f"] ops0 s0 h0 (some 5000) (by decide) (by decide) (by decide) preAll_ops0
/-- what that reference run answers: HSET 1 (the one field named), HINCRBY -2, HDEL 1, HSETNX 0 -/
example : refOps ops0 h0 = ([(b "g", .str (b "w")), (b "n", .int (-2)), (b "x", .flt (.fin ⟨15, -1⟩))],
    [b ":1\r\n", b ":-2\r\n", b ":1\r\n", b ":0\r\n"]) := by decide

/-! ### the HSET reply -/

/-- **HSET replies the number of fields it creates or updates, on every input**: for any argument list that
    parses to the entries map `entries` (its fields are pairwise distinct — a field named twice counts once,
    the last value wins) and any live hash `h` at the key, the reply is `entries.length`, every field counted
    reads afterwards as the value given, and every other field reads as before. This is the count the API
    documents ("the number of fields that were updated/created"), one of the two replies the reference
    accepts; what the hash held before does not enter the count. -/
theorem hset_reply (c : Ctx) (s : State) (k : Bytes) (args : List Bytes) (h entries : KMap Scalar) (ex : Option Int)
    (hm : c.cfg.maxMemory = 0)
    (hl : s.lookup c.db k = some ⟨.hash h, ex⟩) (hlive : (⟨.hash h, ex⟩ : Entry).expired c.now = false)
    (hlen : 2 ≤ args.length) (heven : args.length % 2 = 0) (he : hsetEntries args = some entries) :
    ∃ s' h', (handleHSet c (b "hset" :: k :: args)).run c s = (s', .done (.ok (intReply entries.length))) ∧
      s'.lookup c.db k = some ⟨.hash h', ex⟩ ∧ KMap.NoDup entries ∧
      (∀ g v, entries.get g = some v → h'.get g = some v) ∧
      (∀ g, entries.get g = none → h'.get g = h.get g) := by
  obtain ⟨s', h1, h2, _⟩ := hset_existing c s k args h entries ex hm hl hlive hlen heven he
  refine ⟨s', hsetMerge h entries, h1, h2, hsetEntries_NoDup args entries he, ?_, ?_⟩
  · intro g v hg; rw [hsetMerge_get, hg]
  · intro g hg; rw [hsetMerge_get, hg]

/-- the same reply whether or not the key existed: on an absent key the count is again `entries.length` -/
theorem hset_reply_any_key (c : Ctx) (s : State) (k : Bytes) (args : List Bytes) (h entries : KMap Scalar) (ex : Option Int)
    (hm : c.cfg.maxMemory = 0)
    (hl : s.lookup c.db k = none ∨
      (s.lookup c.db k = some ⟨.hash h, ex⟩ ∧ (⟨.hash h, ex⟩ : Entry).expired c.now = false))
    (hlen : 2 ≤ args.length) (heven : args.length % 2 = 0) (he : hsetEntries args = some entries) :
    ((handleHSet c (b "hset" :: k :: args)).run c s).2 = .done (.ok (intReply entries.length)) := by
  rcases hl with hl | ⟨hl, hlive⟩
  · obtain ⟨s', h1, _, _⟩ := hset_absent c s k args entries hm hl hlen heven he
    rw [h1]
  · obtain ⟨s', h1, _, _⟩ := hset_existing c s k args h entries ex hm hl hlive hlen heven he
    rw [h1]

example := hset_reply c0 s0 (b "k") [b "f", b "1", b "g", b "4", b "g", b "5"] h0
  [(b "f", .int 1), (b "g", .int 5)] (some 5000)
  (by decide) (by decide) (by decide) (by decide) (by decide) (by decide)
example := hset_reply_any_key c0 s0 (b "nokey") [b "f", b "1"] [] [(b "f", .int 1)] none
  (by decide) (Or.inl (by decide)) (by decide) (by decide) (by decide)

end Sugar.Props.C14
