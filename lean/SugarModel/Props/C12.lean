/-
  Props.C12 — the wire protocol: what the reply builders guarantee for arbitrary payload bytes, what
  the connection loop answers for an arbitrary segmentation of the byte stream into writes, and the
  segmentations on which the full statement ("one reply per complete command") fails.
  Helper lemmas: Lemmas/Digits, Lemmas/RespWF, Lemmas/WF, Lemmas/WireLemmas.
-/
import SugarModel.Lemmas.WF
import SugarModel.Lemmas.WireLemmas
import SugarModel.Lemmas.WFTable
import SugarModel.Lemmas.WFWitness
import SugarModel.Lemmas.AclLemmas
namespace Sugar.Props.C12
open Sugar Sugar.Wire Sugar.WFWitness

/-! ### replies carry stored bytes without truncation or frame injection -/

/-- **Bulk strings carry every byte string.** Whatever bytes `s` holds (CR, LF, NUL, empty), the reply
    `$len\r\n s \r\n` is exactly one RESP value and decodes to `s`, byte for byte. -/
theorem bulk_carries_any_bytes (s : Bytes) : parseReply (bulkStr s) = some (.bulk s) := by
  have h := parseOne_bulkStr (bulkStr s).length s []
  rw [List.append_nil] at h
  unfold parseReply; rw [h]

/-- integer replies decode to the integer they were built from, for every integer -/
theorem int_reply_roundtrip (i : Int) : parseReply (intReply i) = some (.int i) := by
  have h := parseOne_intReply (intReply i).length i []
  rw [List.append_nil] at h
  unfold parseReply; rw [h]

/-- decimal rendering and parsing are inverse (`%d` against `strconv`), for every natural number -/
theorem decimal_roundtrip (n : Nat) : allDigits (natDigits n) = true ∧ digitsVal (natDigits n) = n :=
  ⟨allDigits_natDigits n, digitsVal_natDigits n⟩

/-- an array of bulk strings decodes to exactly its payloads, whatever their bytes and however many -/
theorem bulk_array_roundtrip (xs : List Bytes) :
    parseReply (arrHdr xs.length ++ (xs.map bulkStr).flatten) = some (.arr (xs.map .bulk)) := by
  have hl : (arrHdr xs.length ++ (xs.map bulkStr).flatten).length + 1 =
      ((arrHdr xs.length ++ (xs.map bulkStr).flatten).length - 1) + 2 := by
    simp [arrHdr]
  have h' := parseOne_bulkArr ((arrHdr xs.length ++ (xs.map bulkStr).flatten).length - 1) xs []
  rw [List.append_nil, ← hl] at h'
  unfold parseReply; rw [h']

/-- a simple-string reply is one RESP value **iff-direction that holds**: when the text is free of CR/LF -/
theorem simple_reply_clean (s : Bytes) (h : cleanLine s = true) : parseReply (simpleStr s) = some (.simple s) := by
  have h1 := parseOne_simpleStr (simpleStr s).length s [] h
  rw [List.append_nil] at h1
  unfold parseReply; rw [h1]

/-- an error reply is one RESP value when its text is free of CR/LF -/
theorem error_reply_clean (s : Bytes) (h : cleanLine s = true) : parseReply (45 :: s ++ crlf) = some (.error s) := by
  have h1 := parseOne_error (45 :: s ++ crlf).length s [] h
  rw [List.append_nil] at h1
  unfold parseReply; rw [h1]

/-- **frame injection witness**: a simple string built from stored bytes that contain CR LF is not one
    RESP value — a client reads `+a` and then a second, injected frame `+b` (the reply of GET on such a
    value; class `crlf-in-simple-string`) -/
theorem simple_string_injection_witness :
    (parseReply (simpleStr [97, 13, 10, 43, 98])).isNone = true ∧
    (parseOne 9 (simpleStr [97, 13, 10, 43, 98])) = some (.simple [97], [43, 98, 13, 10]) := by
  constructor <;> simp [parseReply, parseOne, splitCrlf, simpleStr, crlf, cleanLine]

/-- the unterminated empty array `*0` is not a RESP value (a fact about the parser; the set handlers that
    used to write it were repaired upstream and now answer `*0\r\n`) -/
theorem empty_array_unterminated_witness : (parseReply [42, 48]).isNone = true ∧ (b "*0" = [42, 48]) := by
  constructor
  · simp [parseReply, parseOne, splitCrlf]
  · decide

/-! ### every modelled handler, every argument vector, every state -/

/-- **Every success reply of every modelled command is exactly one RESP value — or the one named
    malformed shape.** For every command of the generic, string, list, hash, set, sorted-set and connection
    families (all 102 handler rows), every argument vector, every context and every state: a completed run
    answers either a reply the strict parser accepts as one value of nesting depth ≤ 3 (for the map-order and
    random replies: whatever arrangement is emitted), or `+<text>` with CR/LF inside the text
    (`SimpleDirty`). (The former third alternative, the bare bytes `*0` of the empty set listings, was
    repaired upstream and is no longer reachable.) -/
theorem every_reply_wellformed_or_known (c : Ctx) (cmd : List Bytes) (p : Prog Res) (hp : progOf c cmd = some p)
    (s : State) (r : Res) (h : (p.run c s).2 = .done r) : Res.WFok3 r ∨ SimpleDirty r :=
  progOf_known_run c cmd p hp s r h

/-- **reply_wellformed_partial.** Outside SET/GET/GETDEL/GETEX (stored text echoed as a simple string) the
    statement holds in full: every completed run answers exactly one well-formed RESP value, whatever bytes
    are stored or sent. (SDIFF/SINTER/SMEMBERS/SPOP/SRANDMEMBER/SUNION, formerly excluded for the
    unterminated empty array, are covered since that was repaired upstream.) -/
theorem reply_wellformed_partial (c : Ctx) (cmd : List Bytes) (p : Prog Res) (hp : progOf c cmd = some p)
    (hx : toLower (cmd.headD []) ∉ wfMalformed)
    (s : State) (r : Res) (h : (p.run c s).2 = .done r) : Res.WFok3 r :=
  progOf_wf_run c cmd p hp hx s r h

/-- … and outside the eight sorted-set member listings (`wfNested`: arrays of `*2 $member +score` arrays)
    that value is a scalar or an array of scalars (depth ≤ 2) -/
theorem reply_wellformed_flat_partial (c : Ctx) (cmd : List Bytes) (p : Prog Res) (hp : progOf c cmd = some p)
    (hx : toLower (cmd.headD []) ∉ wfMalformed ++ wfNested)
    (s : State) (r : Res) (h : (p.run c s).2 = .done r) : Res.WFok r :=
  progOf_wf2_run c cmd p hp hx s r h

/-- **GETRANGE and SUBSTR cannot take the server down** (repaired in /repo by a `fix:` commit; before it a start
    beyond the value, or a negative index reaching before its first byte, sliced out of bounds and the panic
    ended the process — the former classes `getrange-panic` / `substr-panic`). For every argument vector, every
    context and every state the run of the handler of both rows does not end in a panic. -/
theorem getrange_substr_never_panic (c : Ctx) (cmd : List Bytes) (s : State) (w : String) :
    ((handleSubStr c cmd).run c s).2 ≠ .panic w :=
  handleSubStr_no_panic c cmd s w

/-- **TYPE cannot take the server down** (repaired in /repo by a `fix:` commit; before it a key whose value reads
    as nil — expired but still stored, or an entry holding only a deadline — made `reflect.TypeOf(nil).Kind()`
    panic: the former class `type-panic`). For every argument vector, context and state the run does not end in a
    panic. -/
theorem type_never_panics (c : Ctx) (cmd : List Bytes) (s : State) (w : String) :
    ((handleType c cmd).run c s).2 ≠ .panic w :=
  handleType_no_panic c cmd s w

/-- **ACL SETUSER cannot take the server down** (repaired in /repo by a `fix:` commit; before it `ACL SETUSER`
    without a user name read `cmd[0]` of an empty slice and an empty rule token — or an empty user name — read
    `str[0]`: index out of range, the former class `acl-setuser-panic`). For every ACL state, every argument
    vector and every connection the handler does not end in a panic: the arity guard answers the command without
    a user name, UpdateUser refuses an empty token before its loops, and every later index into a token is
    guarded by a length test (`Acl.updateTok_cons_no_panic`). The argument vector is arbitrary, so this covers the
    second repaired crash of this handler too: a key or channel pattern that does not compile (`~[`, `%R~[b-a]`,
    `+&[`) used to be stored and `glob.MustCompile` panicked in CompileGlobs; UpdateUser now compiles every
    pattern of the rule list first and answers `invalid glob pattern` (`Props.C11.setuser_malformed_pattern_refused`),
    so CompileGlobs only ever sees patterns that compile (patterns entering by ACL LOAD are outside the model). -/
theorem acl_setuser_never_panics (a : Acl.AclState) (cid : Nat) (cmd : List Bytes) (sha : Bytes)
    (h1 : toLower (cmd.headD []) = b "acl") (h2 : toLower (cmd.getD 1 []) = b "setuser") :
    (Acl.aclHandler a cid cmd sha).2 ≠ .panic :=
  Acl.aclHandler_setuser_no_panic a cid cmd sha h1 h2

/-- the repaired answers on the two inputs of the former class -/
example : (Acl.aclHandler ⟨[], [], [], true⟩ 0 [b "acl", b "setuser"] []).2 matches .err _ := by decide
example : (Acl.aclHandler ⟨[], [], [], true⟩ 0 [b "acl", b "setuser", b "alice", []] []).2 matches .err _ := by decide
example : (Acl.aclHandler ⟨[], [], [], true⟩ 0 [b "acl", b "setuser", b "alice", b "~["] []).2 matches .err _ := by decide
example : (Acl.aclHandler ⟨[], [], [], true⟩ 0 [b "acl", b "setuser", b "alice", b "on", b "%R~[b-a]"] []).2 matches .err _ := by decide
example : (Acl.aclHandler ⟨[], [], [], true⟩ 0 [b "ACL", b "SETUSER", b "alice", b "+&["] []).2 matches .err _ := by decide

/-- … and the slice the handler takes is within the value for every start and end -/
theorem getrange_slice_within_value (value : Bytes) (start end_ : Int) :
    0 ≤ (subStrIdx value.length start end_).1 ∧ (subStrIdx value.length start end_).1 ≤ value.length ∧
    0 ≤ (subStrIdx value.length start end_).2 ∧ (subStrIdx value.length start end_).2 ≤ value.length :=
  subStrIdx_bounds value.length start end_ (Int.natCast_nonneg _)

/-- a plain success reply that is `WFok` is accepted by the strict parser -/
theorem wfok_parses (r : Bytes) (h : Res.WFok (.ok r)) : (parseReply r).isSome = true := WF.parses h

/-- a plain success reply that is `WFok3` is accepted by the strict parser -/
theorem wfok3_parses (r : Bytes) (h : Res.WFok3 (.ok r)) : (parseReply r).isSome = true := WF3.parses h

/-- the depth-3 listings are reachable and genuinely nested: ZRANGE … WITHSCORES answers `*1 *2 $a +1`,
    one RESP value that is not an array of scalars -/
theorem nested_listing_witness :
    (parseReply nestedReply).isSome = true ∧ ¬ WF nestedReply :=
  ⟨nestedReply_parses, nestedReply_not_wf⟩

/-- the malformed shape is reachable: GET of a value holding CR LF answers a reply the strict parser
    rejects (a model run, replayed on the implementation by the check as a known finding). The second shape
    of earlier versions — SMEMBERS of an emptied set answering `*0` — was repaired upstream: that run now
    answers the terminated header `*0\r\n`. -/
theorem malformed_shapes_reachable_witness :
    ((handleGet c0 [b "get", b "k"]).run c0 sCrlf).2 = .done (.ok dirtyReply) ∧
    (parseReply dirtyReply).isSome = false ∧
    ((handleSMembers c0 [b "smembers", b "k"]).run c0 sSets).2 = .done (.okPerm (b "*0\r\n") []) :=
  ⟨get_dirty, dirtyReply_rejected, smembers_empty_terminated⟩

/-! ### the connection loop over an arbitrary segmentation into writes -/

/-- reply to the first complete command at the front of a write, if any -/
def firstReply (w : Bytes) : Option Bytes := (parseCommand (trimNul w)).bind fun p => replyOf p.1

/-- a write the loop answers: non-empty, not a multiple of the 8192-byte read chunk, beginning with a
    complete state-free command -/
def Answerable (w : Bytes) : Prop := w.isEmpty = false ∧ (w.length % 8192 == 0) = false ∧ (firstReply w).isSome = true

theorem serveF_first (f : Nat) : ∀ (ws : List Bytes) (acc : Bytes), ws.length ≤ f → (∀ w ∈ ws, Answerable w) →
    serveF f ws acc = .out (acc ++ (ws.filterMap firstReply).flatten) := by
  induction f with
  | zero =>
    intro ws acc hl _
    cases ws with
    | nil => simp [serveF]
    | cons w r => simp at hl
  | succ f ih =>
    intro ws acc hl hw
    cases ws with
    | nil => simp [serveF]
    | cons w r =>
      obtain ⟨h1, h2, h3⟩ := hw w List.mem_cons_self
      have hr := ih r
      simp only [List.length_cons, Nat.add_le_add_iff_right] at hl
      unfold firstReply at h3
      cases hp : parseCommand (trimNul w) with
      | none => simp [hp] at h3
      | some p =>
        obtain ⟨cmd, res⟩ := p
        simp only [hp, Option.bind_some] at h3
        cases hq : replyOf cmd with
        | none => simp [hq] at h3
        | some rep =>
          have hfr : firstReply w = some rep := by simp [firstReply, hp, hq]
          simp only [serveF, h1, Bool.false_eq_true, if_false, h2, hp, hq]
          rw [hr (acc ++ rep) hl (fun w' hm => hw w' (List.mem_cons_of_mem _ hm))]
          simp [List.filterMap_cons, hfr]

/-- **What the loop does, for every segmentation it answers**: exactly one reply per *write* — the
    reply to the first complete command of that write — in order; anything after the first command of
    a write is discarded. Holds for every list of answerable writes of any length and size. -/
theorem serve_one_reply_per_write (ws : List Bytes) (h : ∀ w ∈ ws, Answerable w) :
    serve ws = .out (ws.filterMap firstReply).flatten := by
  have := serveF_first (ws.length + 1) ws [] (by omega) h
  simpa [serve] using this

/-- a write that is exactly one complete command (no NUL padding, nothing after it) -/
def OneCommand (w : Bytes) : Prop :=
  trimNul w = w ∧ ∃ cmd, parseCommand w = some (cmd, []) ∧ (replyOf cmd).isSome = true

theorem parseStream_writes : ∀ (ws : List Bytes) (f : Nat), ws.length ≤ f → (∀ w ∈ ws, w ≠ [] ∧ OneCommand w) →
    ∃ cmds, parseStream f ws.flatten = some cmds ∧ cmds.mapM replyOf = some (ws.filterMap firstReply) := by
  intro ws
  induction ws with
  | nil => intro f _ _; exact ⟨[], by cases f <;> simp [parseStream], by simp⟩
  | cons w r ih =>
    intro f hl hw
    obtain ⟨hne, htrim, cmd, hp, hq⟩ := hw w List.mem_cons_self
    cases f with
    | zero => simp at hl
    | succ f =>
      simp only [List.length_cons, Nat.add_le_add_iff_right] at hl
      obtain ⟨cmds, h1, h2⟩ := ih f hl (fun w' hm => hw w' (List.mem_cons_of_mem _ hm))
      cases hrep : replyOf cmd with
      | none => simp [hrep] at hq
      | some rep =>
        refine ⟨cmd :: cmds, ?_, ?_⟩
        · have happ := parseCommand_append w cmd [] r.flatten hp
          simp only [List.nil_append] at happ
          simp only [List.flatten_cons]
          cases hwr : w ++ r.flatten with
          | nil => simp at hwr; exact absurd hwr.1 hne
          | cons c t =>
            rw [← hwr]
            have : parseStream (f + 1) (w ++ r.flatten) = (do
                let (c, r) ← parseCommand (w ++ r.flatten)
                let cs ← parseStream f r
                pure (c :: cs)) := by
              rw [hwr]; rfl
            rw [this, happ]
            simp [h1]
        · have hfr : firstReply w = some rep := by simp [firstReply, htrim, hp, hrep]
          simp [List.mapM_cons, hrep, h2, List.filterMap_cons, hfr]

/-- **framing_partial.** For every sequence of writes each of which is exactly one complete state-free
    command and not a multiple of 8192 bytes long, the bytes the server writes are exactly one reply per
    complete command of the concatenated stream, in order — the property's expectation. (The full
    statement — any segmentation — is false: see the witnesses below.) -/
theorem framing_partial (ws : List Bytes)
    (h : ∀ w ∈ ws, w ≠ [] ∧ (w.length % 8192 == 0) = false ∧ OneCommand w) :
    ∃ out, expected ws = some out ∧ serve ws = .out out := by
  obtain ⟨cmds, h1, h2⟩ := parseStream_writes ws (ws.flatten.length + 1) (by
    have : ws.length ≤ ws.flatten.length := by
      induction ws with
      | nil => simp
      | cons w r ih =>
        have hw := (h w List.mem_cons_self).1
        have := ih (fun w' hm => h w' (List.mem_cons_of_mem _ hm))
        cases w with
        | nil => exact absurd rfl hw
        | cons c t => simp only [List.flatten_cons, List.length_append, List.length_cons] at this ⊢; omega
    omega) (fun w hm => ⟨(h w hm).1, (h w hm).2.2⟩)
  refine ⟨(ws.filterMap firstReply).flatten, ?_, ?_⟩
  · unfold expected
    simp only [h1, h2]
    rfl
  · apply serve_one_reply_per_write
    intro w hm
    obtain ⟨hne, h8, htrim, cmd, hp, hq⟩ := h w hm
    refine ⟨by cases w <;> simp_all, h8, ?_⟩
    simp [firstReply, htrim, hp, hq]

/-- every reply of the state-free commands (PING, ECHO; errors included) is exactly one RESP value,
    for every argument vector: payload bytes cannot break the frame -/
theorem statefree_reply_wf (cmd : List Bytes) (r : Bytes) (h : replyOf cmd = some r) :
    (parseReply r).isSome = true := by
  have hwa : WF (b "-Error " ++ wrongArgs ++ crlf) := by
    have e : b "-Error " ++ wrongArgs ++ crlf = 45 :: (b "Error " ++ wrongArgs) ++ crlf := by decide
    rw [e]; exact (wf1_error _ (by decide)).toWF
  have hpong : WF (b "+PONG\r\n") := by
    have e : b "+PONG\r\n" = simpleStr (b "PONG") := by decide
    rw [e]; exact wf_simple _ (by decide)
  have hping : ∀ (cmd : List Bytes) (s0 : State), ∃ res, (handlePing { db := 0, now := 0 } cmd).run { db := 0, now := 0 } s0 = (s0, .done res) ∧
      (res = .ok (b "+PONG\r\n") ∨ (∃ m, res = .ok (bulkStr m)) ∨ res = .err wrongArgs) := by
    intro cmd s0
    unfold handlePing
    split
    · exact ⟨_, rfl, Or.inl rfl⟩
    · exact ⟨_, rfl, Or.inr (Or.inl ⟨_, rfl⟩)⟩
    · exact ⟨_, rfl, Or.inr (Or.inr rfl)⟩
  have hecho : ∀ (cmd : List Bytes) (s0 : State), ∃ res, (handleEcho { db := 0, now := 0 } cmd).run { db := 0, now := 0 } s0 = (s0, .done res) ∧
      ((∃ m, res = .ok (bulkStr m)) ∨ res = .err wrongArgs) := by
    intro cmd s0
    unfold handleEcho
    split
    · exact ⟨_, rfl, Or.inl ⟨_, rfl⟩⟩
    · exact ⟨_, rfl, Or.inr rfl⟩
  unfold replyOf at h
  cases cmd with
  | nil => simp at h
  | cons name args =>
    simp only at h
    split at h
    · simp at h
    · by_cases hp : (toLower name == b "ping") = true
      · simp only [hp, if_true] at h
        obtain ⟨res, hrun, hres⟩ := hping (name :: args) { dbs := [], mem := 0 }
        rw [hrun] at h
        rcases hres with h1 | ⟨m, h1⟩ | h1 <;> subst h1 <;> simp only [Option.some.injEq] at h <;> subst h
        · exact hpong.parses
        · exact (wf_bulk _).parses
        · exact hwa.parses
      · by_cases he : (toLower name == b "echo") = true
        · simp only [hp, he, if_true, Bool.false_eq_true, if_false] at h
          obtain ⟨res, hrun, hres⟩ := hecho (name :: args) { dbs := [], mem := 0 }
          rw [hrun] at h
          rcases hres with ⟨m, h1⟩ | h1 <;> subst h1 <;> simp only [Option.some.injEq] at h <;> subst h
          · exact (wf_bulk _).parses
          · exact hwa.parses
        · simp [hp, he] at h

/-! ### segmentations on which the full statement fails (each replayed on the implementation) -/

def ping : Bytes := b "*1\r\n$4\r\nPING\r\n"
def pong : Bytes := b "+PONG\r\n"

/-- **pipelining witness**: two complete commands in one write receive ONE reply; the property expects two -/
theorem pipelined_second_command_dropped_witness :
    (match serve [ping ++ ping] with | .out o => o == pong | _ => false) = true ∧
    expected [ping ++ ping] = some (pong ++ pong) := by decide

/-- **split witness**: a command split across two writes is not answered at all by the modelled loop
    (the first fragment does not begin with a complete command) while the property expects one reply -/
theorem split_command_witness :
    (match serve [b "*1\r\n$4\r\nPI", b "NG\r\n"] with | .unmod _ => true | _ => false) = true ∧
    expected [b "*1\r\n$4\r\nPI", b "NG\r\n"] = some pong := by decide

/-- non-vacuity of `framing_partial`: two writes of one PING each satisfy its hypotheses, and the
    output is two PONGs -/
example : (∀ w ∈ [ping, ping], w ≠ [] ∧ (w.length % 8192 == 0) = false ∧ OneCommand w) := by
  intro w hw
  simp only [List.mem_cons, List.not_mem_nil, or_false, or_self] at hw
  subst hw
  refine ⟨by decide, by decide, by decide, [b "PING"], by decide, by decide⟩
example : (match serve [ping, ping] with | .out o => o == pong ++ pong | _ => false) = true := by decide

end Sugar.Props.C12
