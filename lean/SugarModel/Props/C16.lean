/-
  Props.C16 — set commands implement mathematical sets: per-command refinement laws of the model's
  sixteen set handlers over arbitrary states (members as plain lists read as sets: `∈`, `Nodup`, `length`,
  `filter`), composed read-your-writes laws, and witnesses of the inputs on which the full statement
  fails (each one a class of Known.lean `classifyColl`). Stored sets are taken as unshared objects
  (`.set 0 ms`) — an invariant of the set commands since SUNIONSTORE and SINTERSTORE store newly allocated
  sets (`sunionstore_many`, `sinterstore_many`, `stored_copy_independent_of_source`) — and keys as live (not
  "stored but expired").
-/
import SugarModel.Lemmas.SetLemmas
namespace Sugar.Props.C16
open Sugar

/-! ### SADD -/

/-- **SADD on an existing set** replies the count computed by Set.Add and leaves exactly the members
    computed by Set.Add at the key, deadline kept, every other key untouched. -/
theorem sadd_existing (c : Ctx) (s : State) (k : Bytes) (ms es : List Bytes) (ex : Option Int)
    (h : s.lookup c.db k = some ⟨.set 0 ms, ex⟩) (hlive : (⟨.set 0 ms, ex⟩ : Entry).expired c.now = false)
    (hes : es ≠ []) :
    ∃ s', (handleSAdd c (b "sadd" :: k :: es)).run c s = (s', .done (.ok (intReply (setAdd ms es).2))) ∧
      s'.lookup c.db k = some ⟨.set 0 (setAdd ms es).1, ex⟩ ∧
      ∀ k2, k ≠ k2 → s'.lookup c.db k2 = s.lookup c.db k2 := by
  cases es with
  | nil => exact absurd rfl hes
  | cons e r =>
    refine ⟨mutObj s c.db k (.set 0 (setAdd ms (e :: r)).1), ?_, lookup_mutObj_same _ _ _ _ _ _ h,
      fun k2 hne => lookup_mutObj_other _ _ _ _ _ _ _ h hne⟩
    have hl : ¬ (r.length + 1 + 1 + 1 < 3) := by omega
    simp [handleSAdd, hl, keysExist_single, h, getValues_live _ _ _ _ h hlive, asSet?]

/-- **SADD reports and performs exactly the membership changes**: afterwards `x` is a member iff it was
    one or was named; the set stays duplicate-free; the reply is the number of genuinely new members
    (growth of the set); old members keep their place. -/
theorem sadd_existing_set_semantics (c : Ctx) (s : State) (k : Bytes) (ms es : List Bytes) (ex : Option Int)
    (h : s.lookup c.db k = some ⟨.set 0 ms, ex⟩) (hlive : (⟨.set 0 ms, ex⟩ : Entry).expired c.now = false)
    (hes : es ≠ []) (hnd : ms.Nodup) :
    ∃ s' ms' n, (handleSAdd c (b "sadd" :: k :: es)).run c s = (s', .done (.ok (intReply (n : Nat)))) ∧
      s'.lookup c.db k = some ⟨.set 0 ms', ex⟩ ∧
      (∀ x, x ∈ ms' ↔ x ∈ ms ∨ x ∈ es) ∧ ms'.Nodup ∧ ms'.length = ms.length + n ∧ (∃ t, ms' = ms ++ t) := by
  obtain ⟨s', h1, h2, _⟩ := sadd_existing c s k ms es ex h hlive hes
  exact ⟨s', (setAdd ms es).1, (setAdd ms es).2, h1, h2, mem_setAdd ms es, nodup_setAdd ms es hnd,
    length_setAdd ms es, setAdd_prefix ms es⟩

/-- **SADD on an absent key** replies the count computed by Set.Add on the fresh set (the cardinality of the
    set just created) and stores exactly the members computed by Set.Add, without a deadline, every other key
    untouched — for every list of elements, repeated ones included. -/
theorem sadd_new_key (c : Ctx) (s : State) (k : Bytes) (es : List Bytes) (hm : c.cfg.maxMemory = 0)
    (h : s.lookup c.db k = none) (hes : es ≠ []) :
    ∃ s', (handleSAdd c (b "sadd" :: k :: es)).run c s = (s', .done (.ok (intReply (setAdd [] es).2))) ∧
      s'.lookup c.db k = some ⟨.set 0 (setAdd [] es).1, none⟩ ∧
      ∀ k2, k ≠ k2 → s'.lookup c.db k2 = s.lookup c.db k2 := by
  cases es with
  | nil => exact absurd rfl hes
  | cons e r =>
    refine ⟨(setValues c s [(k, .set 0 (setAdd [] (e :: r)).1)]).1, ?_, setValues_fresh c s k _ hm h,
      fun k2 hne => setValues_other c s k k2 _ hm hne⟩
    have hl : ¬ (r.length + 1 + 1 + 1 < 3) := by omega
    simp [handleSAdd, hl, keysExist_single, h, run_setOrErr_single _ _ _ _ _ hm]

/-- **SADD creating the key reports and performs exactly the membership changes**: the stored set holds
    exactly the named elements, once each, and the reply is its cardinality — the number of members actually
    added — however often an element is repeated on the command line. -/
theorem sadd_new_key_set_semantics (c : Ctx) (s : State) (k : Bytes) (es : List Bytes) (hm : c.cfg.maxMemory = 0)
    (h : s.lookup c.db k = none) (hes : es ≠ []) :
    ∃ s' ms' n, (handleSAdd c (b "sadd" :: k :: es)).run c s = (s', .done (.ok (intReply (n : Nat)))) ∧
      s'.lookup c.db k = some ⟨.set 0 ms', none⟩ ∧
      (∀ x, x ∈ ms' ↔ x ∈ es) ∧ ms'.Nodup ∧ ms'.length = n ∧ n = es.eraseDups.length := by
  obtain ⟨s', h1, h2, _⟩ := sadd_new_key c s k es hm h hes
  refine ⟨s', (setAdd [] es).1, (setAdd [] es).2, h1, h2, fun x => by simpa using mem_setAdd [] es x,
    nodup_setAdd [] es List.nodup_nil, by simpa using length_setAdd [] es, setAdd_nil_count es⟩

/-- named elements pairwise distinct: the reply is their number and they are stored as given -/
theorem sadd_new_key_distinct (c : Ctx) (s : State) (k : Bytes) (es : List Bytes) (hm : c.cfg.maxMemory = 0)
    (h : s.lookup c.db k = none) (hes : es ≠ []) (hnd : es.Nodup) :
    ∃ s', (handleSAdd c (b "sadd" :: k :: es)).run c s = (s', .done (.ok (intReply es.length))) ∧
      s'.lookup c.db k = some ⟨.set 0 es, none⟩ ∧
      ∀ k2, k ≠ k2 → s'.lookup c.db k2 = s.lookup c.db k2 := by
  have := sadd_new_key c s k es hm h hes
  rwa [setAdd_nil_nodup es hnd] at this

/-- **SADD's reply is the number of members actually added, on every input**: whether the key is absent
    (`old = []`) or holds a live duplicate-free set `old`, the set afterwards holds exactly the old members
    and the named elements, is duplicate-free, and has grown by exactly the number SADD answered. -/
theorem sadd_reply_counts_added (c : Ctx) (s : State) (k : Bytes) (old es : List Bytes) (hm : c.cfg.maxMemory = 0)
    (hes : es ≠ []) (hnd : old.Nodup)
    (h : (s.lookup c.db k = none ∧ old = []) ∨
         ∃ ex, s.lookup c.db k = some ⟨.set 0 old, ex⟩ ∧ (⟨.set 0 old, ex⟩ : Entry).expired c.now = false) :
    ∃ s' ms' ex' n, (handleSAdd c (b "sadd" :: k :: es)).run c s = (s', .done (.ok (intReply (n : Nat)))) ∧
      s'.lookup c.db k = some ⟨.set 0 ms', ex'⟩ ∧
      (∀ x, x ∈ ms' ↔ x ∈ old ∨ x ∈ es) ∧ ms'.Nodup ∧ ms'.length = old.length + n := by
  rcases h with ⟨h0, rfl⟩ | ⟨ex, h1, hlive⟩
  · obtain ⟨s', ms', n, r1, r2, r3, r4, r5, _⟩ := sadd_new_key_set_semantics c s k es hm h0 hes
    exact ⟨s', ms', none, n, r1, r2, fun x => by simpa using r3 x, r4, by simpa using r5⟩
  · obtain ⟨s', ms', n, r1, r2, r3, r4, r5, _⟩ := sadd_existing_set_semantics c s k old es ex h1 hlive hes hnd
    exact ⟨s', ms', ex, n, r1, r2, r3, r4, r5⟩

/-! ### SREM -/

/-- **SREM on an existing set** replies the count computed by Set.Remove and leaves exactly the members
    computed by Set.Remove, deadline kept, other keys untouched. -/
theorem srem_existing (c : Ctx) (s : State) (k : Bytes) (ms es : List Bytes) (ex : Option Int)
    (h : s.lookup c.db k = some ⟨.set 0 ms, ex⟩) (hlive : (⟨.set 0 ms, ex⟩ : Entry).expired c.now = false)
    (hes : es ≠ []) :
    ∃ s', (handleSRem c (b "srem" :: k :: es)).run c s = (s', .done (.ok (intReply (setRemove ms es).2))) ∧
      s'.lookup c.db k = some ⟨.set 0 (setRemove ms es).1, ex⟩ ∧
      ∀ k2, k ≠ k2 → s'.lookup c.db k2 = s.lookup c.db k2 := by
  cases es with
  | nil => exact absurd rfl hes
  | cons e r =>
    refine ⟨mutObj s c.db k (.set 0 (setRemove ms (e :: r)).1), ?_, lookup_mutObj_same _ _ _ _ _ _ h,
      fun k2 hne => lookup_mutObj_other _ _ _ _ _ _ _ h hne⟩
    have ha : (decide ((b "srem" :: k :: e :: r).length ≥ 3)) = true := by simp
    unfold handleSRem
    rw [ha, run_withSet_live c s _ k _ ms ex _ _ _ h hlive]
    simp

/-- **SREM reports and performs exactly the membership changes** (duplicate-free set): afterwards `x` is
    a member iff it was one and was not named; the reply is the shrinkage of the set. -/
theorem srem_existing_set_semantics (c : Ctx) (s : State) (k : Bytes) (ms es : List Bytes) (ex : Option Int)
    (h : s.lookup c.db k = some ⟨.set 0 ms, ex⟩) (hlive : (⟨.set 0 ms, ex⟩ : Entry).expired c.now = false)
    (hes : es ≠ []) (hnd : ms.Nodup) :
    ∃ s' ms' n, (handleSRem c (b "srem" :: k :: es)).run c s = (s', .done (.ok (intReply (n : Nat)))) ∧
      s'.lookup c.db k = some ⟨.set 0 ms', ex⟩ ∧
      (∀ x, x ∈ ms' ↔ x ∈ ms ∧ x ∉ es) ∧ ms'.Nodup ∧ ms'.length + n = ms.length := by
  obtain ⟨s', h1, h2, _⟩ := srem_existing c s k ms es ex h hlive hes
  exact ⟨s', (setRemove ms es).1, (setRemove ms es).2, h1, h2, mem_setRemove ms es hnd, nodup_setRemove ms es hnd,
    length_setRemove ms es⟩

/-- SREM on an absent key replies 0 and changes nothing -/
theorem srem_absent (c : Ctx) (s : State) (k : Bytes) (es : List Bytes)
    (h : s.lookup c.db k = none) (hes : es ≠ []) :
    (handleSRem c (b "srem" :: k :: es)).run c s = (s, .done (.ok (intReply 0))) := by
  cases es with
  | nil => exact absurd rfl hes
  | cons e r =>
    have ha : (decide ((b "srem" :: k :: e :: r).length ≥ 3)) = true := by simp
    unfold handleSRem
    rw [ha, run_withSet_absent c s _ k _ _ _ _ h]

/-! ### SISMEMBER / SMISMEMBER / SCARD / SMEMBERS -/

/-- **SISMEMBER reports current membership**: 1 iff `m` is among the members -/
theorem sismember_reports (c : Ctx) (s : State) (k m : Bytes) (ms : List Bytes) (ex : Option Int)
    (h : s.lookup c.db k = some ⟨.set 0 ms, ex⟩) (hlive : (⟨.set 0 ms, ex⟩ : Entry).expired c.now = false) :
    (handleSIsMember c [b "sismember", k, m]).run c s = (s, .done (.ok (intReply (if m ∈ ms then 1 else 0)))) := by
  unfold handleSIsMember
  have ha : ([b "sismember", k, m].length == 3) = true := rfl
  rw [ha, run_withSet_live c s _ k _ ms ex _ _ _ h hlive]
  simp

/-- SISMEMBER on an absent key replies 0 (an absent key has no members) -/
theorem sismember_absent (c : Ctx) (s : State) (k m : Bytes) (h : s.lookup c.db k = none) :
    (handleSIsMember c [b "sismember", k, m]).run c s = (s, .done (.ok (intReply 0))) := by
  unfold handleSIsMember
  have ha : ([b "sismember", k, m].length == 3) = true := rfl
  rw [ha, run_withSet_absent c s _ k _ _ _ _ h]

/-- **SMISMEMBER reports current membership** of every queried member, in query order (any number of
    queried members) -/
theorem smismember_reports (c : Ctx) (s : State) (k : Bytes) (ms qs : List Bytes) (ex : Option Int)
    (h : s.lookup c.db k = some ⟨.set 0 ms, ex⟩) (hlive : (⟨.set 0 ms, ex⟩ : Entry).expired c.now = false)
    (hqs : qs ≠ []) :
    (handleSMIsMember c (b "smismember" :: k :: qs)).run c s =
      (s, .done (.ok (arrHdr qs.length ++ (qs.map fun q => intReply (if q ∈ ms then 1 else 0)).flatten))) := by
  cases qs with
  | nil => exact absurd rfl hqs
  | cons q r =>
    unfold handleSMIsMember
    have ha : (decide ((b "smismember" :: k :: q :: r).length ≥ 3)) = true := by simp
    simp only [ha]
    rw [run_withSet_live c s _ k _ ms ex _ _ _ h hlive]
    simp

/-- SMISMEMBER on an absent key replies one 0 per queried member -/
theorem smismember_absent (c : Ctx) (s : State) (k : Bytes) (qs : List Bytes)
    (h : s.lookup c.db k = none) (hqs : qs ≠ []) :
    (handleSMIsMember c (b "smismember" :: k :: qs)).run c s =
      (s, .done (.ok (arrHdr qs.length ++ (qs.map fun _ => intReply 0).flatten))) := by
  cases qs with
  | nil => exact absurd rfl hqs
  | cons q r =>
    unfold handleSMIsMember
    have ha : (decide ((b "smismember" :: k :: q :: r).length ≥ 3)) = true := by simp
    simp only [ha]
    rw [run_withSet_absent c s _ k _ _ _ _ h]
    simp

/-- **SCARD reports the number of current members** -/
theorem scard_reports (c : Ctx) (s : State) (k : Bytes) (ms : List Bytes) (ex : Option Int)
    (h : s.lookup c.db k = some ⟨.set 0 ms, ex⟩) (hlive : (⟨.set 0 ms, ex⟩ : Entry).expired c.now = false) :
    (handleSCard c [b "scard", k]).run c s = (s, .done (.ok (intReply ms.length))) := by
  unfold handleSCard
  have ha : ([b "scard", k].length == 2) = true := rfl
  rw [ha, run_withSet_live c s _ k _ ms ex _ _ _ h hlive]
  simp

/-- SCARD on an absent key replies 0 -/
theorem scard_absent (c : Ctx) (s : State) (k : Bytes) (h : s.lookup c.db k = none) :
    (handleSCard c [b "scard", k]).run c s = (s, .done (.ok (intReply 0))) := by
  unfold handleSCard
  have ha : ([b "scard", k].length == 2) = true := rfl
  rw [ha, run_withSet_absent c s _ k _ _ _ _ h]

/-- the member-listing reply of the set commands, spelled out: the header `*N\r\n` (terminated for every
    `N`, 0 included — the bare `*0` of class `empty-array-without-terminator` was repaired upstream), then one
    bulk string per member in an order left to Go map iteration -/
theorem setArrReply_eq (ms : List Bytes) : setArrReply ms = .okPerm (arrHdr ms.length) (ms.map bulkStr) := rfl

/-- **SMEMBERS reports the current members**, for every stored set, the empty one included: an array of
    exactly the members, one bulk string each, in an order left to Go map iteration. (Was `smembers_partial`
    with a non-emptiness hypothesis; the empty-array deviation was repaired upstream.) -/
theorem smembers_reports (c : Ctx) (s : State) (k : Bytes) (ms : List Bytes) (ex : Option Int)
    (h : s.lookup c.db k = some ⟨.set 0 ms, ex⟩) (hlive : (⟨.set 0 ms, ex⟩ : Entry).expired c.now = false) :
    (handleSMembers c [b "smembers", k]).run c s = (s, .done (.okPerm (arrHdr ms.length) (ms.map bulkStr))) := by
  unfold handleSMembers
  have ha : ([b "smembers", k].length == 2) = true := rfl
  rw [ha, run_withSet_live c s _ k _ ms ex _ _ _ h hlive]
  simp [setArrReply]

/-- SMEMBERS of a stored empty set (what SADD then SREM of the same member leaves) answers the terminated
    empty array `*0\r\n` and changes nothing (repaired upstream: was the bare `*0`) -/
theorem smembers_empty_set (c : Ctx) (s : State) (k : Bytes) (ex : Option Int)
    (h : s.lookup c.db k = some ⟨.set 0 [], ex⟩) (hlive : (⟨.set 0 [], ex⟩ : Entry).expired c.now = false) :
    (handleSMembers c [b "smembers", k]).run c s = (s, .done (.okPerm (b "*0\r\n") [])) := by
  have := smembers_reports c s k [] ex h hlive
  rw [this]; rfl

/-- SMEMBERS on an absent key replies the (terminated) empty array -/
theorem smembers_absent (c : Ctx) (s : State) (k : Bytes) (h : s.lookup c.db k = none) :
    (handleSMembers c [b "smembers", k]).run c s = (s, .done (.ok (b "*0\r\n"))) := by
  unfold handleSMembers
  have ha : ([b "smembers", k].length == 2) = true := rfl
  rw [ha, run_withSet_absent c s _ k _ _ _ _ h]

/-! ### composed laws: read your writes -/

/-- the deadline alone decides liveness, so a key stays live across an in-place member change -/
theorem live_of_live (ms ms' : List Bytes) (ex : Option Int) (now : Int)
    (h : (⟨.set 0 ms, ex⟩ : Entry).expired now = false) : (⟨.set 0 ms', ex⟩ : Entry).expired now = false := h

/-- **SADD then SISMEMBER**: every element just added to an existing set is reported as a member -/
theorem sismember_after_sadd (c : Ctx) (s : State) (k m : Bytes) (ms es : List Bytes) (ex : Option Int)
    (h : s.lookup c.db k = some ⟨.set 0 ms, ex⟩) (hlive : (⟨.set 0 ms, ex⟩ : Entry).expired c.now = false)
    (hm : m ∈ es) :
    ((handleSIsMember c [b "sismember", k, m]).run c ((handleSAdd c (b "sadd" :: k :: es)).run c s).1).2
      = .done (.ok (intReply 1)) := by
  have hes : es ≠ [] := by intro h0; subst h0; cases hm
  obtain ⟨s', h1, h2, _⟩ := sadd_existing c s k ms es ex h hlive hes
  rw [h1, sismember_reports c s' k m _ ex h2 (live_of_live ms _ ex c.now hlive)]
  have : m ∈ (setAdd ms es).1 := (mem_setAdd ms es m).mpr (Or.inr hm)
  simp [this]

/-- **SADD (creating the key) then SISMEMBER**: every named element is reported as a member, repeated
    or not -/
theorem sismember_after_sadd_new (c : Ctx) (s : State) (k m : Bytes) (es : List Bytes) (hmm : c.cfg.maxMemory = 0)
    (h : s.lookup c.db k = none) (hm : m ∈ es) :
    ((handleSIsMember c [b "sismember", k, m]).run c ((handleSAdd c (b "sadd" :: k :: es)).run c s).1).2
      = .done (.ok (intReply 1)) := by
  have hes : es ≠ [] := by intro h0; subst h0; cases hm
  obtain ⟨s', ms', _, h1, h2, h3, _⟩ := sadd_new_key_set_semantics c s k es hmm h hes
  rw [h1, sismember_reports c s' k m ms' none h2 rfl]
  simp [(h3 m).mpr hm]

/-- **SREM then SISMEMBER** (duplicate-free set): every element just removed is reported as a non-member -/
theorem sismember_after_srem (c : Ctx) (s : State) (k m : Bytes) (ms es : List Bytes) (ex : Option Int)
    (h : s.lookup c.db k = some ⟨.set 0 ms, ex⟩) (hlive : (⟨.set 0 ms, ex⟩ : Entry).expired c.now = false)
    (hnd : ms.Nodup) (hm : m ∈ es) :
    ((handleSIsMember c [b "sismember", k, m]).run c ((handleSRem c (b "srem" :: k :: es)).run c s).1).2
      = .done (.ok (intReply 0)) := by
  have hes : es ≠ [] := by intro h0; subst h0; cases hm
  obtain ⟨s', h1, h2, _⟩ := srem_existing c s k ms es ex h hlive hes
  rw [h1, sismember_reports c s' k m _ ex h2 (live_of_live ms _ ex c.now hlive)]
  have : m ∉ (setRemove ms es).1 := fun hc => ((mem_setRemove ms es hnd m).mp hc).2 hm
  simp [this]

/-- **SADD then SCARD**: the cardinality grows by exactly the number SADD reported -/
theorem scard_after_sadd (c : Ctx) (s : State) (k : Bytes) (ms es : List Bytes) (ex : Option Int)
    (h : s.lookup c.db k = some ⟨.set 0 ms, ex⟩) (hlive : (⟨.set 0 ms, ex⟩ : Entry).expired c.now = false)
    (hes : es ≠ []) :
    ∃ n : Nat, ((handleSAdd c (b "sadd" :: k :: es)).run c s).2 = .done (.ok (intReply n)) ∧
      ((handleSCard c [b "scard", k]).run c ((handleSAdd c (b "sadd" :: k :: es)).run c s).1).2
        = .done (.ok (intReply ((ms.length + n : Nat) : Int))) := by
  obtain ⟨s', h1, h2, _⟩ := sadd_existing c s k ms es ex h hlive hes
  refine ⟨(setAdd ms es).2, by rw [h1], ?_⟩
  rw [h1, scard_reports c s' k _ ex h2 (live_of_live ms _ ex c.now hlive), length_setAdd]

/-- **SREM then SCARD**: the cardinality shrinks by exactly the number SREM reported -/
theorem scard_after_srem (c : Ctx) (s : State) (k : Bytes) (ms es : List Bytes) (ex : Option Int)
    (h : s.lookup c.db k = some ⟨.set 0 ms, ex⟩) (hlive : (⟨.set 0 ms, ex⟩ : Entry).expired c.now = false)
    (hes : es ≠ []) :
    ∃ n m : Nat, ((handleSRem c (b "srem" :: k :: es)).run c s).2 = .done (.ok (intReply n)) ∧
      ((handleSCard c [b "scard", k]).run c ((handleSRem c (b "srem" :: k :: es)).run c s).1).2
        = .done (.ok (intReply m)) ∧ m + n = ms.length := by
  obtain ⟨s', h1, h2, _⟩ := srem_existing c s k ms es ex h hlive hes
  refine ⟨(setRemove ms es).2, (setRemove ms es).1.length, by rw [h1], ?_, length_setRemove ms es⟩
  rw [h1, scard_reports c s' k _ ex h2 (live_of_live ms _ ex c.now hlive)]

/-! ### SDIFF / SDIFFSTORE -/

/-- **SDIFF base other** (both live sets): the members of the base set that the other set does not hold,
    state unchanged -/
theorem sdiff_two (c : Ctx) (s : State) (k1 k2 : Bytes) (bm om : List Bytes) (e1 e2 : Option Int)
    (h1 : s.lookup c.db k1 = some ⟨.set 0 bm, e1⟩) (l1 : (⟨.set 0 bm, e1⟩ : Entry).expired c.now = false)
    (h2 : s.lookup c.db k2 = some ⟨.set 0 om, e2⟩) (l2 : (⟨.set 0 om, e2⟩ : Entry).expired c.now = false) :
    (handleSDiff false c [b "sdiff", k1, k2]).run c s =
      (s, .done (.okPerm (arrHdr (bm.filter fun m => !om.contains m).length) ((bm.filter fun m => !om.contains m).map bulkStr))) := by
  simp [handleSDiff, keysExist_pair, h1, getValues_live _ _ _ _ h1 l1, getValues_live _ _ _ _ h2 l2, asSet?,
    collectSets, subtract, setArrReply]

/-- **an absent key never contributes members**: SDIFF base other with `other` absent answers the base set -/
theorem sdiff_other_absent (c : Ctx) (s : State) (k1 k2 : Bytes) (bm : List Bytes) (e1 : Option Int)
    (h1 : s.lookup c.db k1 = some ⟨.set 0 bm, e1⟩) (l1 : (⟨.set 0 bm, e1⟩ : Entry).expired c.now = false)
    (h2 : s.lookup c.db k2 = none) :
    (handleSDiff false c [b "sdiff", k1, k2]).run c s = (s, .done (.okPerm (arrHdr bm.length) (bm.map bulkStr))) := by
  simp [handleSDiff, keysExist_pair, h1, getValues_live _ _ _ _ h1 l1, getValues_absent _ _ _ h2, asSet?,
    collectSets, subtract_nil, setArrReply]

/-- SDIFF with an absent base key is an error (SugarDB's choice; Redis answers the empty array), state
    unchanged -/
theorem sdiff_base_absent (c : Ctx) (s : State) (k1 k2 : Bytes) (h1 : s.lookup c.db k1 = none) :
    (handleSDiff false c [b "sdiff", k1, k2]).run c s =
      (s, .done (.err (b "key for base set \"" ++ k1 ++ b "\" does not exist"))) := by
  simp [handleSDiff, keysExist_pair, h1]

/-- **SDIFFSTORE dest base other** (both operands live sets; `dest` arbitrary, operands included): the
    destination is replaced by the difference (deadline of an existing destination kept), the reply is its
    size, every other key is untouched -/
theorem sdiffstore_two (c : Ctx) (s : State) (d k1 k2 : Bytes) (bm om : List Bytes) (e1 e2 : Option Int)
    (hm : c.cfg.maxMemory = 0)
    (h1 : s.lookup c.db k1 = some ⟨.set 0 bm, e1⟩) (l1 : (⟨.set 0 bm, e1⟩ : Entry).expired c.now = false)
    (h2 : s.lookup c.db k2 = some ⟨.set 0 om, e2⟩) (l2 : (⟨.set 0 om, e2⟩ : Entry).expired c.now = false) :
    ∃ s', (handleSDiff true c [b "sdiffstore", d, k1, k2]).run c s =
        (s', .done (.ok (intReply (bm.filter fun m => !om.contains m).length))) ∧
      s'.lookup c.db d = some ⟨.set 0 (bm.filter fun m => !om.contains m), (s.lookup c.db d).bind (·.exp)⟩ ∧
      ∀ k', d ≠ k' → s'.lookup c.db k' = s.lookup c.db k' := by
  refine ⟨(setValues c s [(d, .set 0 (bm.filter fun m => !om.contains m))]).1, ?_,
    (setValues_single c s d _ hm).2.1, (setValues_single c s d _ hm).2.2⟩
  simp [handleSDiff, keysExist, h1, getValues_live _ _ _ _ h1 l1, getValues_live _ _ _ _ h2 l2, asSet?,
    collectSets, subtract, run_setOrErr_single _ _ _ _ _ hm]

/-- **SDIFF base k₁ … kₙ** — the algebra over the sets named, any number of other keys, each one absent or
    a live set: the reply lists exactly the base members held by none of the other sets; an absent key
    contributes no members; state unchanged -/
theorem sdiff_many (c : Ctx) (s : State) (base : Bytes) (others bm : List Bytes) (e1 : Option Int)
    (h1 : s.lookup c.db base = some ⟨.set 0 bm, e1⟩) (l1 : (⟨.set 0 bm, e1⟩ : Entry).expired c.now = false)
    (ho : ∀ k, k ∈ others → SetOrAbsent c s k) :
    ∃ r : List Bytes, (handleSDiff false c (b "sdiff" :: base :: others)).run c s = (s, .done (.okPerm (arrHdr r.length) (r.map bulkStr))) ∧
      (∀ x, x ∈ r ↔ x ∈ bm ∧ ∀ k ms, k ∈ others → membersAt s c.db k = some ms → x ∉ ms) ∧
      (bm.Nodup → r.Nodup) := by
  refine ⟨subtract bm (others.filterMap (membersAt s c.db)), ?_, ?_, nodup_subtract bm _⟩
  · have f : ¬ (others.length + 1 + 1 < 2) := by omega
    simp [handleSDiff, f, keysExist, h1, getValues_live _ _ _ _ h1 l1, asSet?, run_collectSets c s others _ ho, setArrReply]
  · intro x
    rw [mem_subtract]
    simp only [List.mem_filterMap]
    constructor
    · rintro ⟨hx, hall⟩
      exact ⟨hx, fun k ms hk hm => hall ms ⟨k, hk, hm⟩⟩
    · rintro ⟨hx, hall⟩
      exact ⟨hx, fun o ⟨k, hk, hm⟩ => hall k o hk hm⟩

/-- **SDIFFSTORE dest base k₁ … kₙ**: the destination (any key, operands included) is replaced by that
    difference, the reply is its size, other keys untouched -/
theorem sdiffstore_many (c : Ctx) (s : State) (d base : Bytes) (others bm : List Bytes) (e1 : Option Int)
    (hm : c.cfg.maxMemory = 0)
    (h1 : s.lookup c.db base = some ⟨.set 0 bm, e1⟩) (l1 : (⟨.set 0 bm, e1⟩ : Entry).expired c.now = false)
    (ho : ∀ k, k ∈ others → SetOrAbsent c s k) :
    ∃ s' r, (handleSDiff true c (b "sdiffstore" :: d :: base :: others)).run c s = (s', .done (.ok (intReply r.length))) ∧
      s'.lookup c.db d = some ⟨.set 0 r, (s.lookup c.db d).bind (·.exp)⟩ ∧
      (∀ k', d ≠ k' → s'.lookup c.db k' = s.lookup c.db k') ∧
      (∀ x, x ∈ r ↔ x ∈ bm ∧ ∀ k ms, k ∈ others → membersAt s c.db k = some ms → x ∉ ms) ∧
      (bm.Nodup → r.Nodup) := by
  refine ⟨(setValues c s [(d, .set 0 (subtract bm (others.filterMap (membersAt s c.db))))]).1,
    subtract bm (others.filterMap (membersAt s c.db)), ?_,
    (setValues_single c s d _ hm).2.1, (setValues_single c s d _ hm).2.2, ?_, nodup_subtract bm _⟩
  · have f : ¬ (others.length + 1 + 1 + 1 < 3) := by omega
    simp [handleSDiff, f, keysExist, h1, getValues_live _ _ _ _ h1 l1, asSet?, run_collectSets c s others _ ho,
      run_setOrErr_single _ _ _ _ _ hm]
  · intro x
    rw [mem_subtract]
    simp only [List.mem_filterMap]
    constructor
    · rintro ⟨hx, hall⟩
      exact ⟨hx, fun k ms hk hm => hall ms ⟨k, hk, hm⟩⟩
    · rintro ⟨hx, hall⟩
      exact ⟨hx, fun o ⟨k, hk, hm⟩ => hall k o hk hm⟩
/-! ### SINTER / SINTERSTORE / SINTERCARD

  The handler visits its operands in Go map iteration order (`c.order`, arbitrary). The laws below hold for
  every order; the result list is therefore pinned down up to membership (plus duplicate-freeness). -/

/-- **SINTER k1 k2** (distinct keys, both live sets): an array of exactly the common members, state
    unchanged, whatever the operand order -/
theorem sinter_two (c : Ctx) (s : State) (k1 k2 : Bytes) (m1 m2 : List Bytes) (e1 e2 : Option Int)
    (hne : k1 ≠ k2)
    (h1 : s.lookup c.db k1 = some ⟨.set 0 m1, e1⟩) (l1 : (⟨.set 0 m1, e1⟩ : Entry).expired c.now = false)
    (h2 : s.lookup c.db k2 = some ⟨.set 0 m2, e2⟩) (l2 : (⟨.set 0 m2, e2⟩ : Entry).expired c.now = false) :
    ∃ r : List Bytes, (handleSInter 0 c [b "sinter", k1, k2]).run c s = (s, .done (.okPerm (arrHdr r.length) (r.map bulkStr))) ∧
      (∀ x, x ∈ r ↔ x ∈ m1 ∧ x ∈ m2) ∧ (m1.Nodup → m2.Nodup → r.Nodup) := by
  have hrun : (handleSInter 0 c [b "sinter", k1, k2]).run c s =
      (interLoop (nthPerm c.order [(k1, true), (k2, true)]) (.ok (b "*0\r\n"))
        (sinterTail 0 0)).run c s := by
    simp [handleSInter, handleSInterRead, sinterReads, eraseDups_pair k1 k2 hne, keysExist_pair, h1, h2, sinterLimit]
  rw [hrun]
  rcases nthPerm_pair c.order (k1, true) (k2, true) with hp | hp
  · rw [hp, run_interLoop_two c s k1 k2 m1 m2 e1 e2 _ _ h1 l1 h2 l2]
    refine ⟨inter2 0 m1 m2, ?_, mem_inter2_zero m1 m2, fun hn _ => nodup_inter2_zero m1 m2 hn⟩
    simp [sinterTail, interAll, setArrReply]
  · rw [hp, run_interLoop_two c s k2 k1 m2 m1 e2 e1 _ _ h2 l2 h1 l1]
    refine ⟨inter2 0 m2 m1, ?_, fun x => (mem_inter2_zero m2 m1 x).trans And.comm,
      fun _ hn => nodup_inter2_zero m2 m1 hn⟩
    simp [sinterTail, interAll, setArrReply]

/-- **an absent operand empties the intersection**: SINTER k1 k2 with `k2` absent answers the (terminated)
    empty array, state unchanged, whatever the operand order -/
theorem sinter_absent_operand (c : Ctx) (s : State) (k1 k2 : Bytes) (m1 : List Bytes) (e1 : Option Int)
    (h1 : s.lookup c.db k1 = some ⟨.set 0 m1, e1⟩) (l1 : (⟨.set 0 m1, e1⟩ : Entry).expired c.now = false)
    (h2 : s.lookup c.db k2 = none) :
    (handleSInter 0 c [b "sinter", k1, k2]).run c s = (s, .done (.ok (b "*0\r\n"))) := by
  have hne : k1 ≠ k2 := by intro h; subst h; rw [h1] at h2; cases h2
  have hrun : (handleSInter 0 c [b "sinter", k1, k2]).run c s =
      (interLoop (nthPerm c.order [(k1, true), (k2, false)]) (.ok (b "*0\r\n"))
        (sinterTail 0 0)).run c s := by
    simp [handleSInter, handleSInterRead, sinterReads, eraseDups_pair k1 k2 hne, keysExist_pair, h1, h2, sinterLimit]
  rw [hrun]
  rcases nthPerm_pair c.order (k1, true) (k2, false) with hp | hp
  · rw [hp, run_interLoop_absent_second c s k1 k2 m1 e1 _ _ h1 l1]
  · rw [hp, run_interLoop_absent_first]

/-- **SINTERSTORE dest k1 k2** (distinct operands, both live sets; `dest` arbitrary, operands included): the
    destination is replaced by a newly allocated, unshared set of exactly the common members, duplicate-free if
    the first operand is (deadline of an existing destination kept), the reply is its size, every other key —
    the operands included — is untouched. The operands are walked in command order: no `Ctx.order` is involved. -/
theorem sinterstore_two (c : Ctx) (s : State) (d k1 k2 : Bytes) (m1 m2 : List Bytes) (e1 e2 : Option Int)
    (hm : c.cfg.maxMemory = 0) (hne : k1 ≠ k2)
    (h1 : s.lookup c.db k1 = some ⟨.set 0 m1, e1⟩) (l1 : (⟨.set 0 m1, e1⟩ : Entry).expired c.now = false)
    (h2 : s.lookup c.db k2 = some ⟨.set 0 m2, e2⟩) (l2 : (⟨.set 0 m2, e2⟩ : Entry).expired c.now = false) :
    ∃ s' r, (handleSInter 1 c [b "sinterstore", d, k1, k2]).run c s = (s', .done (.ok (intReply r.length))) ∧
      s'.lookup c.db d = some ⟨.set 0 r, (s.lookup c.db d).bind (·.exp)⟩ ∧
      (∀ k', d ≠ k' → s'.lookup c.db k' = s.lookup c.db k') ∧
      (∀ x, x ∈ r ↔ x ∈ m1 ∧ x ∈ m2) ∧ (m1.Nodup → m2.Nodup → r.Nodup) := by
  refine ⟨(setValues c s [(d, .set 0 (inter2 0 m1 m2))]).1, inter2 0 m1 m2, ?_,
    (setValues_single c s d _ hm).2.1, (setValues_single c s d _ hm).2.2,
    mem_inter2_zero m1 m2, fun hn _ => nodup_inter2_zero m1 m2 hn⟩
  simp [handleSInter, handleSInterStore, eraseDups_pair k1 k2 hne, keysExist_pair, h1, h2, storeLoop,
    getValues_live _ _ _ _ h1 l1, getValues_live _ _ _ _ h2 l2, asSet?, interAll, run_setOrErr_single _ _ _ _ _ hm]

/-- **SINTERSTORE dest a** (one operand, a live set): the destination receives a *copy* — a newly allocated,
    unshared set object with exactly the members of `a` — and every other key, `a` included when `dest ≠ a`,
    is untouched. (Was the aliasing site of classes `sinterstore-single-key-aliases-source` and
    `set-object-shared-between-keys`: the destination held `a`'s own object. Repaired upstream.) -/
theorem sinterstore_single_copies (c : Ctx) (s : State) (d a : Bytes) (ms : List Bytes) (ex : Option Int)
    (hm : c.cfg.maxMemory = 0)
    (h : s.lookup c.db a = some ⟨.set 0 ms, ex⟩) (hlive : (⟨.set 0 ms, ex⟩ : Entry).expired c.now = false) :
    ∃ s', (handleSInter 1 c [b "sinterstore", d, a]).run c s = (s', .done (.ok (intReply ms.length))) ∧
      s'.lookup c.db d = some ⟨.set 0 ms, (s.lookup c.db d).bind (·.exp)⟩ ∧
      ∀ k', d ≠ k' → s'.lookup c.db k' = s.lookup c.db k' := by
  refine ⟨(setValues c s [(d, .set 0 ms)]).1, ?_, (setValues_single c s d _ hm).2.1, (setValues_single c s d _ hm).2.2⟩
  simp [handleSInter, handleSInterStore, keysExist_single, h, storeLoop, getValues_live _ _ _ _ h hlive, asSet?,
    interAll, run_setOrErr_single _ _ _ _ _ hm]

/-- **an absent operand empties the destination**: SINTERSTORE dest k1 k2 with `k2` absent (in either position)
    replaces the destination with the empty set and answers 0; every other key is untouched. (Was class
    `sinterstore-absent-operand-keeps-destination`: the old destination stayed in place. Repaired upstream.) -/
theorem sinterstore_absent_operand (c : Ctx) (s : State) (d k1 k2 : Bytes) (m1 : List Bytes) (e1 : Option Int)
    (hm : c.cfg.maxMemory = 0)
    (h1 : s.lookup c.db k1 = some ⟨.set 0 m1, e1⟩) (l1 : (⟨.set 0 m1, e1⟩ : Entry).expired c.now = false)
    (h2 : s.lookup c.db k2 = none) :
    (∃ s', (handleSInter 1 c [b "sinterstore", d, k1, k2]).run c s = (s', .done (.ok (intReply 0))) ∧
      s'.lookup c.db d = some ⟨.set 0 [], (s.lookup c.db d).bind (·.exp)⟩ ∧
      ∀ k', d ≠ k' → s'.lookup c.db k' = s.lookup c.db k') ∧
    (∃ s', (handleSInter 1 c [b "sinterstore", d, k2, k1]).run c s = (s', .done (.ok (intReply 0))) ∧
      s'.lookup c.db d = some ⟨.set 0 [], (s.lookup c.db d).bind (·.exp)⟩ ∧
      ∀ k', d ≠ k' → s'.lookup c.db k' = s.lookup c.db k') := by
  have hne : k1 ≠ k2 := by intro h; subst h; rw [h1] at h2; cases h2
  constructor
  · refine ⟨(setValues c s [(d, .set 0 [])]).1, ?_, (setValues_single c s d _ hm).2.1, (setValues_single c s d _ hm).2.2⟩
    simp [handleSInter, handleSInterStore, eraseDups_pair k1 k2 hne, keysExist_pair, h1, h2, storeLoop,
      getValues_live _ _ _ _ h1 l1, asSet?, run_setOrErr_single _ _ _ _ _ hm]
  · refine ⟨(setValues c s [(d, .set 0 [])]).1, ?_, (setValues_single c s d _ hm).2.1, (setValues_single c s d _ hm).2.2⟩
    simp [handleSInter, handleSInterStore, eraseDups_pair k2 k1 (Ne.symm hne), keysExist_pair, h1, h2, storeLoop,
      getValues_live _ _ _ _ h1 l1, asSet?, run_setOrErr_single _ _ _ _ _ hm]

/-- **a value of another type is an error whichever operand is missing**: SINTERSTORE dest k1 k2 with `k1` absent
    and `k2` holding a live value that is not a set fails, in either operand order, and changes nothing — the
    outcome does not depend on the order in which an operand map is walked -/
theorem sinterstore_wrongtype_beats_absent (c : Ctx) (s : State) (d k1 k2 : Bytes) (v : Val) (e2 : Option Int)
    (h1 : s.lookup c.db k1 = none)
    (h2 : s.lookup c.db k2 = some ⟨v, e2⟩) (l2 : (⟨v, e2⟩ : Entry).expired c.now = false) (hv : asSet? v = none) :
    (handleSInter 1 c [b "sinterstore", d, k1, k2]).run c s = (s, .done (.err (notSet k2))) ∧
    (handleSInter 1 c [b "sinterstore", d, k2, k1]).run c s = (s, .done (.err (notSet k2))) := by
  have hne : k1 ≠ k2 := by intro h; subst h; rw [h2] at h1; cases h1
  constructor
  · simp [handleSInter, handleSInterStore, eraseDups_pair k1 k2 hne, keysExist_pair, h1, h2, storeLoop,
      getValues_live _ _ _ _ h2 l2, hv]
  · simp [handleSInter, handleSInterStore, eraseDups_pair k2 k1 (Ne.symm hne), keysExist_pair, h1, h2, storeLoop,
      getValues_live _ _ _ _ h2 l2, hv]

/-- **SINTERSTORE dest k₁ … kₙ** — the algebra over the sets named, any number of operand keys (repeated or
    not), each one absent or a live set, `dest` arbitrary: the destination is replaced by a newly allocated,
    unshared set that holds exactly the members common to *all* operands — none as soon as one operand is
    absent —, the reply is its size, and every other key, the operands included, is untouched. -/
theorem sinterstore_many (c : Ctx) (s : State) (d : Bytes) (ks : List Bytes) (hm : c.cfg.maxMemory = 0)
    (hks : ks ≠ []) (ho : ∀ k, k ∈ ks → SetOrAbsent c s k) :
    ∃ s' r, (handleSInter 1 c (b "sinterstore" :: d :: ks)).run c s = (s', .done (.ok (intReply r.length))) ∧
      s'.lookup c.db d = some ⟨.set 0 r, (s.lookup c.db d).bind (·.exp)⟩ ∧
      (∀ k', d ≠ k' → s'.lookup c.db k' = s.lookup c.db k') ∧
      (∀ x, x ∈ r ↔ ∀ k, k ∈ ks → ∃ ms, membersAt s c.db k = some ms ∧ x ∈ ms) ∧
      ((∀ k ms, k ∈ ks → membersAt s c.db k = some ms → ms.Nodup) → r.Nodup) := by
  obtain ⟨L, hL⟩ : ∃ L, L = ks.eraseDups.map fun k => (k, (s.lookup c.db k).isSome) := ⟨_, rfl⟩
  obtain ⟨sets, hsets⟩ : ∃ sets, sets = L.filterMap fun p => membersAt s c.db p.1 := ⟨_, rfl⟩
  obtain ⟨r, hr⟩ : ∃ r, r = if (L.any fun p => !p.2) then [] else interAll sets.length sets := ⟨_, rfl⟩
  have hmemL : ∀ p, p ∈ L ↔ ∃ k, k ∈ ks ∧ p = (k, (s.lookup c.db k).isSome) := by
    intro p; rw [hL, List.mem_map]
    constructor
    · rintro ⟨k, hk, rfl⟩; exact ⟨k, List.mem_eraseDups.mp hk, rfl⟩
    · rintro ⟨k, hk, rfl⟩; exact ⟨k, List.mem_eraseDups.mpr hk, rfl⟩
  have hLok : ∀ p ∈ L, p.2 = (s.lookup c.db p.1).isSome ∧ SetOrAbsent c s p.1 := by
    intro p hp
    obtain ⟨k, hk, rfl⟩ := (hmemL p).mp hp
    exact ⟨rfl, ho k hk⟩
  have hmemS : ∀ a, a ∈ sets ↔ ∃ k, k ∈ ks ∧ membersAt s c.db k = some a := by
    intro a; rw [hsets, List.mem_filterMap]
    constructor
    · rintro ⟨p, hp, ha⟩
      obtain ⟨k, hk, rfl⟩ := (hmemL p).mp hp
      exact ⟨k, hk, ha⟩
    · rintro ⟨k, hk, ha⟩
      exact ⟨_, (hmemL _).mpr ⟨k, hk, rfl⟩, ha⟩
  refine ⟨(setValues c s [(d, .set 0 r)]).1, r, ?_, (setValues_single c s d _ hm).2.1, (setValues_single c s d _ hm).2.2, ?_, ?_⟩
  · have hlen : ¬ (ks.length + 1 + 1 < 3) := by
      cases ks with
      | nil => exact absurd rfl hks
      | cons a t => simp
    have hrun : (handleSInter 1 c (b "sinterstore" :: d :: ks)).run c s =
        (storeLoop L fun empty sets =>
          setOrErr [(d, .set 0 (if empty then [] else interAll sets.length sets))]
            (.ret (.ok (intReply (if empty then [] else interAll sets.length sets).length)))).run c s := by
      simp [handleSInter, handleSInterStore, hlen, zip_keysExist, hL]
    rw [hrun, run_storeLoop c s L _ hLok, ← hsets, ← hr, run_setOrErr_single _ _ _ _ _ hm]
    rfl
  · intro x
    by_cases hany : (L.any fun p => !p.2) = true
    · have hr0 : r = [] := by rw [hr, if_pos hany]
      obtain ⟨p, hp, hp2⟩ := List.any_eq_true.mp hany
      obtain ⟨k, hk, rfl⟩ := (hmemL p).mp hp
      have hnone : s.lookup c.db k = none := by
        cases hh : s.lookup c.db k with
        | none => rfl
        | some e => simp [hh] at hp2
      rw [hr0]
      constructor
      · intro hx; cases hx
      · intro hall
        obtain ⟨ms, hms, _⟩ := hall k hk
        simp [membersAt, hnone] at hms
    · have hr1 : r = interAll sets.length sets := by rw [hr, if_neg hany]
      have hpres : ∀ k, k ∈ ks → ∃ ms, membersAt s c.db k = some ms := by
        intro k hk
        rcases ho k hk with h0 | ⟨ms, ex, h1, _⟩
        · exfalso; apply hany
          exact List.any_eq_true.mpr ⟨_, (hmemL _).mpr ⟨k, hk, rfl⟩, by simp [h0]⟩
        · exact ⟨ms, by simp [membersAt, h1]⟩
      have hne : sets ≠ [] := by
        cases ks with
        | nil => exact absurd rfl hks
        | cons a t =>
          obtain ⟨ms, hms⟩ := hpres a (by simp)
          intro h0
          have : ms ∈ sets := (hmemS ms).mpr ⟨a, by simp, hms⟩
          rw [h0] at this; cases this
      rw [hr1, mem_interAll x sets.length sets hne (by omega)]
      constructor
      · intro hall k hk
        obtain ⟨ms, hms⟩ := hpres k hk
        exact ⟨ms, hms, hall ms ((hmemS ms).mpr ⟨k, hk, hms⟩)⟩
      · intro hall a ha
        obtain ⟨k, hk, hka⟩ := (hmemS a).mp ha
        obtain ⟨ms, hms, hx⟩ := hall k hk
        rw [hka] at hms
        cases hms
        exact hx
  · intro hnd
    rw [hr]
    split
    · exact List.nodup_nil
    · exact nodup_interAll _ _ fun a ha => by
        obtain ⟨k, hk, hka⟩ := (hmemS a).mp ha
        exact hnd k a hk hka

/-- **SINTER of one key** answers that set's members, state unchanged -/
theorem sinter_single (c : Ctx) (s : State) (k : Bytes) (ms : List Bytes) (ex : Option Int)
    (h : s.lookup c.db k = some ⟨.set 0 ms, ex⟩) (hlive : (⟨.set 0 ms, ex⟩ : Entry).expired c.now = false) :
    (handleSInter 0 c [b "sinter", k]).run c s = (s, .done (.okPerm (arrHdr ms.length) (ms.map bulkStr))) := by
  simp [handleSInter, handleSInterRead, sinterReads, keysExist_single, h, sinterLimit, nthPerm_single, interLoop,
    getValues_live _ _ _ _ h hlive, asSet?, sinterTail, interAll, setArrReply]

/-- the key names a SINTERCARD command line can carry without being mistaken for the LIMIT keyword -/
def PlainKey (k : Bytes) : Prop := isAscii k = true ∧ eqFold k (b "limit") = false

/-- the command name and the LIMIT keyword as the handler tests them -/
theorem sintercard_name_facts : isAscii (b "sintercard") = true ∧ eqFold (b "sintercard") (b "limit") = false ∧
    isAscii (b "limit") = true ∧ eqFold (b "limit") (b "limit") = true := by decide

/-- **SINTERCARD of one key** (no LIMIT) answers that set's size -/
theorem sintercard_single (c : Ctx) (s : State) (k : Bytes) (ms : List Bytes) (ex : Option Int) (p : PlainKey k)
    (h : s.lookup c.db k = some ⟨.set 0 ms, ex⟩) (hlive : (⟨.set 0 ms, ex⟩ : Entry).expired c.now = false) :
    (handleSInter 2 c [b "sintercard", k]).run c s = (s, .done (.ok (intReply ms.length))) := by
  simp [handleSInter, handleSInterRead, sinterReads, keysExist_single, h, sinterLimit, nthPerm_single, interLoop,
    getValues_live _ _ _ _ h hlive, asSet?, sinterTail, interAll, sintercard_name_facts, p.1, p.2, List.findIdx?_cons]

/-- **SINTERCARD k LIMIT n** (n > 0) **on one key: that set's size capped at `n`** — LIMIT bounds the answer
    whatever the number of keys -/
theorem sintercard_single_limit (c : Ctx) (s : State) (k l : Bytes) (n : Nat) (ms : List Bytes) (ex : Option Int)
    (p : PlainKey k) (hl : isAscii l = true) (hn : adaptType l = .int (n : Int)) (hpos : 0 < n)
    (h : s.lookup c.db k = some ⟨.set 0 ms, ex⟩) (hlive : (⟨.set 0 ms, ex⟩ : Entry).expired c.now = false) :
    (handleSInter 2 c [b "sintercard", k, b "limit", l]).run c s
      = (s, .done (.ok (intReply ((min n ms.length : Nat) : Int)))) := by
  simp [handleSInter, handleSInterRead, sinterReads, keysExist_single, h, sinterLimit, nthPerm_single, interLoop,
    getValues_live _ _ _ _ h hlive, asSet?, sinterTail, interAll, sintercard_name_facts, p.1, p.2, List.findIdx?_cons,
    hl, hn, hpos]
  congr 1; split <;> omega

/-- **SINTERCARD k1 k2** (distinct keys, both live sets, no LIMIT): the number of common members -/
theorem sintercard_two (c : Ctx) (s : State) (k1 k2 : Bytes) (m1 m2 : List Bytes) (e1 e2 : Option Int)
    (hne : k1 ≠ k2) (p1 : PlainKey k1) (p2 : PlainKey k2)
    (h1 : s.lookup c.db k1 = some ⟨.set 0 m1, e1⟩) (l1 : (⟨.set 0 m1, e1⟩ : Entry).expired c.now = false)
    (h2 : s.lookup c.db k2 = some ⟨.set 0 m2, e2⟩) (l2 : (⟨.set 0 m2, e2⟩ : Entry).expired c.now = false) :
    ∃ r : List Bytes, (handleSInter 2 c [b "sintercard", k1, k2]).run c s = (s, .done (.ok (intReply r.length))) ∧
      (∀ x, x ∈ r ↔ x ∈ m1 ∧ x ∈ m2) ∧ (m1.Nodup → m2.Nodup → r.Nodup) := by
  have hrun : (handleSInter 2 c [b "sintercard", k1, k2]).run c s =
      (interLoop (nthPerm c.order [(k1, true), (k2, true)]) (.ok (intReply 0))
        (sinterTail 2 0)).run c s := by
    simp [handleSInter, handleSInterRead, sinterReads, eraseDups_pair k1 k2 hne, keysExist_pair, h1, h2, sinterLimit,
      sintercard_name_facts, p1.1, p1.2, p2.1, p2.2, List.findIdx?_cons]
  rw [hrun]
  rcases nthPerm_pair c.order (k1, true) (k2, true) with hp | hp
  · rw [hp, run_interLoop_two c s k1 k2 m1 m2 e1 e2 _ _ h1 l1 h2 l2]
    refine ⟨inter2 0 m1 m2, ?_, mem_inter2_zero m1 m2, fun hn _ => nodup_inter2_zero m1 m2 hn⟩
    simp [sinterTail, interAll]
  · rw [hp, run_interLoop_two c s k2 k1 m2 m1 e2 e1 _ _ h2 l2 h1 l1]
    refine ⟨inter2 0 m2 m1, ?_, fun x => (mem_inter2_zero m2 m1 x).trans And.comm,
      fun _ hn => nodup_inter2_zero m2 m1 hn⟩
    simp [sinterTail, interAll]

/-- **SINTERCARD k1 k2 LIMIT n** (n > 0): the number of common members capped at `n` -/
theorem sintercard_two_limit (c : Ctx) (s : State) (k1 k2 l : Bytes) (n : Nat) (m1 m2 : List Bytes) (e1 e2 : Option Int)
    (hne : k1 ≠ k2) (p1 : PlainKey k1) (p2 : PlainKey k2) (hl : isAscii l = true)
    (hn : adaptType l = .int (n : Int)) (hpos : 0 < n)
    (h1 : s.lookup c.db k1 = some ⟨.set 0 m1, e1⟩) (l1 : (⟨.set 0 m1, e1⟩ : Entry).expired c.now = false)
    (h2 : s.lookup c.db k2 = some ⟨.set 0 m2, e2⟩) (l2 : (⟨.set 0 m2, e2⟩ : Entry).expired c.now = false) :
    ∃ r : List Bytes, (handleSInter 2 c [b "sintercard", k1, k2, b "limit", l]).run c s =
        (s, .done (.ok (intReply ((min n r.length : Nat) : Int)))) ∧
      (∀ x, x ∈ r ↔ x ∈ m1 ∧ x ∈ m2) ∧ (m1.Nodup → m2.Nodup → r.Nodup) := by
  have hrun : (handleSInter 2 c [b "sintercard", k1, k2, b "limit", l]).run c s =
      (interLoop (nthPerm c.order [(k1, true), (k2, true)]) (.ok (intReply 0))
        (sinterTail 2 n)).run c s := by
    simp [handleSInter, handleSInterRead, sinterReads, eraseDups_pair k1 k2 hne, keysExist_pair, h1, h2, sinterLimit,
      sintercard_name_facts, p1.1, p1.2, p2.1, p2.2, List.findIdx?_cons, hl, hn]
  rw [hrun]
  rcases nthPerm_pair c.order (k1, true) (k2, true) with hp | hp
  · rw [hp, run_interLoop_two c s k1 k2 m1 m2 e1 e2 _ _ h1 l1 h2 l2]
    refine ⟨inter2 0 m1 m2, ?_, mem_inter2_zero m1 m2, fun hn _ => nodup_inter2_zero m1 m2 hn⟩
    simp [sinterTail, interAll, hpos, inter2, List.length_take]
    congr 1; split <;> omega
  · rw [hp, run_interLoop_two c s k2 k1 m2 m1 e2 e1 _ _ h2 l2 h1 l1]
    refine ⟨inter2 0 m2 m1, ?_, fun x => (mem_inter2_zero m2 m1 x).trans And.comm,
      fun _ hn => nodup_inter2_zero m2 m1 hn⟩
    simp [sinterTail, interAll, hpos, inter2, List.length_take]
    congr 1; split <;> omega

/-- **SINTERCARD over any number of sets, with or without LIMIT** (what the handler does once its operand loop
    has read the sets, in whatever order the operand map was walked): the answer is the number of members common
    to *every* set — capped at the limit when one is given (`limit > 0`), and by nothing else. In particular a
    LIMIT over three or more sets no longer answers with the size of a partial intersection. -/
theorem sintercard_tail (limit : Nat) (sets : List (Nat × List Bytes)) (hne : sets ≠ []) :
    ∃ r : List Bytes,
      sinterTail 2 limit sets = .ret (.ok (intReply ((if 0 < limit then min limit r.length else r.length : Nat) : Int))) ∧
      (∀ x, x ∈ r ↔ ∀ st ∈ sets, x ∈ st.2) ∧ ((∀ st ∈ sets, st.2.Nodup) → r.Nodup) := by
  refine ⟨interAll sets.length (sets.map (·.2)), ?_, fun x => ?_, fun h => nodup_interAll _ _ (by
      intro a ha; obtain ⟨st, hs, rfl⟩ := List.mem_map.mp ha; exact h st hs)⟩
  · have he : sets.isEmpty = false := by cases sets with
      | nil => exact absurd rfl hne
      | cons a r => rfl
    simp only [sinterTail, he]
    by_cases hl : 0 < limit
    · by_cases h2 : sets.length ≥ 2
      · simp [hl, h2, List.length_take]
        congr 1; split <;> omega
      · simp [hl, h2]
        congr 1; split <;> omega
    · have h0 : limit = 0 := by omega
      subst h0; simp
  · have hm : sets.map (·.2) ≠ [] := by simpa using hne
    rw [mem_interAll x sets.length (sets.map (·.2)) hm (by simp)]
    constructor
    · intro h st hs; exact h st.2 (List.mem_map.mpr ⟨st, hs, rfl⟩)
    · intro h a ha; obtain ⟨st, hs, rfl⟩ := List.mem_map.mp ha; exact h st hs

/-- **SINTERCARD k₁ … kₙ LIMIT l** — any number of pairwise distinct keys, each a live set, walked in whatever
    order the operand map yields: the answer is the number of members common to *all* the sets named, capped at
    the limit when it is positive (`LIMIT 0` = no cap), and the state is unchanged. Covers one key (the limit
    used to be ignored) and three or more (a partial intersection used to be returned) alike. -/
theorem sintercard_many_limit (c : Ctx) (s : State) (ks : List Bytes) (mem : Bytes → List Bytes) (l : Bytes) (n : Nat)
    (hks : ks ≠ []) (hnd : ks.Nodup) (hp : ∀ k ∈ ks, PlainKey k) (hl : isAscii l = true)
    (hn : adaptType l = .int (n : Int))
    (hlive : ∀ k ∈ ks, ∃ ex, s.lookup c.db k = some ⟨.set 0 (mem k), ex⟩ ∧
      (⟨.set 0 (mem k), ex⟩ : Entry).expired c.now = false) :
    ∃ r : List Bytes,
      (handleSInter 2 c (b "sintercard" :: (ks ++ [b "limit", l]))).run c s
        = (s, .done (.ok (intReply ((if 0 < n then min n r.length else r.length : Nat) : Int)))) ∧
      (∀ x, x ∈ r ↔ ∀ k ∈ ks, x ∈ mem k) ∧ ((∀ k ∈ ks, (mem k).Nodup) → r.Nodup) := by
  obtain ⟨cmd, hcmd⟩ : ∃ cmd, cmd = b "sintercard" :: (ks ++ [b "limit", l]) := ⟨_, rfl⟩
  rw [← hcmd]
  have hlen : 1 ≤ ks.length := by cases ks with
    | nil => exact absurd rfl hks
    | cons a r => simp
  have h1 : ¬ (cmd.length < 2) := by rw [hcmd]; simp
  have hall : cmd.all isAscii = true := by
    rw [hcmd]; simp [sintercard_name_facts, hl]
    exact fun k hk => (hp k hk).1
  have hidx : cmd.findIdx? (fun t => eqFold t (b "limit")) = some (ks.length + 1) := by
    rw [hcmd, List.findIdx?_cons]
    simp only [sintercard_name_facts]
    rw [findIdx?_skip _ ks _ (fun k hk => (hp k hk).2)]
    simp [List.findIdx?_cons, sintercard_name_facts]
  have hreads : sinterReads 2 cmd = ks := by
    simp only [sinterReads, hidx]
    rw [hcmd]; simp
  have hlim : sinterLimit cmd (some (ks.length + 1)) = .ok (n : Int) := by
    have hlt : ¬ (ks.length + 1 < 2) := by omega
    have hget : cmd[ks.length + 1 + 1]? = some l := by
      rw [hcmd]; simp
    simp only [sinterLimit, hlt, if_false, hget, hn]
  have hex : keysExist s c.db ks = ks.map fun _ => true := by
    unfold keysExist
    apply List.map_congr_left
    intro k hk
    obtain ⟨ex, h, _⟩ := hlive k hk
    simp [h]
  have hrun : (handleSInter 2 c cmd).run c s =
      (interLoop (nthPerm c.order (ks.map fun k => (k, true))) (.ok (intReply 0))
        (sinterTail 2 n)).run c s := by
    simp [handleSInter, handleSInterRead, h1, hall, hidx, hreads, hlim, eraseDups_of_nodup ks hnd, hex, zip_map_true]
  rw [hrun]
  have hperm := nthPerm_perm c.order (ks.map fun k => (k, true))
  have hL : ∀ p ∈ nthPerm c.order (ks.map fun k => (k, true)), p.2 = true ∧
      ∃ ex, s.lookup c.db p.1 = some ⟨.set 0 (mem p.1), ex⟩ ∧ (⟨.set 0 (mem p.1), ex⟩ : Entry).expired c.now = false := by
    intro p hp'
    obtain ⟨k, hk, rfl⟩ := List.mem_map.mp (hperm.mem_iff.mp hp')
    exact ⟨rfl, hlive k hk⟩
  rw [run_interLoop_all c s mem _ _ _ hL]
  have hne : ((nthPerm c.order (ks.map fun k => (k, true))).map fun p => ((0 : Nat), mem p.1)) ≠ [] := by
    intro h0
    have := congrArg List.length h0
    simp only [List.length_map, hperm.length_eq, List.length_nil] at this
    omega
  obtain ⟨r, hr, hmem, hnodup⟩ := sintercard_tail n _ hne
  refine ⟨r, by rw [hr]; rfl, fun x => ?_, fun h => hnodup ?_⟩
  · rw [hmem]
    constructor
    · intro h k hk
      exact h (0, mem k) (List.mem_map.mpr ⟨(k, true), hperm.mem_iff.mpr (List.mem_map.mpr ⟨k, hk, rfl⟩), rfl⟩)
    · intro h st hst
      obtain ⟨p, hp', rfl⟩ := List.mem_map.mp hst
      obtain ⟨k, hk, rfl⟩ := List.mem_map.mp (hperm.mem_iff.mp hp')
      exact h k hk
  · intro st hst
    obtain ⟨p, hp', rfl⟩ := List.mem_map.mp hst
    obtain ⟨k, hk, rfl⟩ := List.mem_map.mp (hperm.mem_iff.mp hp')
    exact h k hk

/-- SINTERCARD with an absent operand answers 0, state unchanged -/
theorem sintercard_absent_operand (c : Ctx) (s : State) (k1 k2 : Bytes) (m1 : List Bytes) (e1 : Option Int)
    (p1 : PlainKey k1) (p2 : PlainKey k2)
    (h1 : s.lookup c.db k1 = some ⟨.set 0 m1, e1⟩) (l1 : (⟨.set 0 m1, e1⟩ : Entry).expired c.now = false)
    (h2 : s.lookup c.db k2 = none) :
    (handleSInter 2 c [b "sintercard", k1, k2]).run c s = (s, .done (.ok (intReply 0))) := by
  have hne : k1 ≠ k2 := by intro h; subst h; rw [h1] at h2; cases h2
  have hrun : (handleSInter 2 c [b "sintercard", k1, k2]).run c s =
      (interLoop (nthPerm c.order [(k1, true), (k2, false)]) (.ok (intReply 0))
        (sinterTail 2 0)).run c s := by
    simp [handleSInter, handleSInterRead, sinterReads, eraseDups_pair k1 k2 hne, keysExist_pair, h1, h2, sinterLimit,
      sintercard_name_facts, p1.1, p1.2, p2.1, p2.2, List.findIdx?_cons]
  rw [hrun]
  rcases nthPerm_pair c.order (k1, true) (k2, false) with hp | hp
  · rw [hp, run_interLoop_absent_second c s k1 k2 m1 e1 _ _ h1 l1]
  · rw [hp, run_interLoop_absent_first]

/-! ### SUNION / SUNIONSTORE

  set.Union builds a new set and Set.Add's the members of every operand into it; the handlers examine their
  operands in the order of the command line and never look at `Ctx.order`. SUNION therefore changes nothing at
  all, and SUNIONSTORE changes the destination only: the stored object is newly allocated and unshared. -/

/-- **SUNION of one key** answers that set's members, state unchanged -/
theorem sunion_single (c : Ctx) (s : State) (k : Bytes) (ms : List Bytes) (ex : Option Int) (hnd : ms.Nodup)
    (h : s.lookup c.db k = some ⟨.set 0 ms, ex⟩) (hlive : (⟨.set 0 ms, ex⟩ : Entry).expired c.now = false) :
    (handleSUnion false c [b "sunion", k]).run c s = (s, .done (.okPerm (arrHdr ms.length) (ms.map bulkStr))) := by
  have hu : unionMembers [ms] = ms := by simp [unionMembers, setAdd_nil_nodup ms hnd]
  simp [handleSUnion, getValues_live _ _ _ _ h hlive, notSetVal, asSet?, hu, setArrReply]

/-- **SUNION k1 k2 reads and changes nothing** (distinct keys, both live sets): the reply lists exactly the
    members of either set, each once, and the state afterwards is the state before — both operands hold what
    they held. (Was `sunion_two_reply`, which could claim nothing about the state: the handler used to add the
    members of one operand into the other — class `sunion-mutates-operand`. Repaired upstream.) -/
theorem sunion_two (c : Ctx) (s : State) (k1 k2 : Bytes) (m1 m2 : List Bytes) (e1 e2 : Option Int)
    (hne : k1 ≠ k2)
    (h1 : s.lookup c.db k1 = some ⟨.set 0 m1, e1⟩) (l1 : (⟨.set 0 m1, e1⟩ : Entry).expired c.now = false)
    (h2 : s.lookup c.db k2 = some ⟨.set 0 m2, e2⟩) (l2 : (⟨.set 0 m2, e2⟩ : Entry).expired c.now = false) :
    ∃ r : List Bytes, (handleSUnion false c [b "sunion", k1, k2]).run c s = (s, .done (.okPerm (arrHdr r.length) (r.map bulkStr))) ∧
      (∀ x, x ∈ r ↔ x ∈ m1 ∨ x ∈ m2) ∧ r.Nodup := by
  have hg := getValues_live2 c s k1 k2 _ _ h1 l1 h2 l2
  refine ⟨unionMembers [m1, m2], ?_, fun x => by simp [mem_unionMembers], nodup_unionMembers _⟩
  simp [handleSUnion, eraseDups_pair k1 k2 hne, hg, notSetVal, asSet?, setArrReply]

/-- **an absent key never contributes members**: SUNION k1 k2 with `k2` absent (in either position) answers
    the members of `k1`, state unchanged. (Was class `sunion-absent-key-rejected`: the command failed with
    "value at key k2 is not a set". Repaired upstream.) -/
theorem sunion_absent_operand (c : Ctx) (s : State) (k1 k2 : Bytes) (m1 : List Bytes) (e1 : Option Int)
    (h1 : s.lookup c.db k1 = some ⟨.set 0 m1, e1⟩) (l1 : (⟨.set 0 m1, e1⟩ : Entry).expired c.now = false)
    (h2 : s.lookup c.db k2 = none) :
    ∃ r : List Bytes,
      (handleSUnion false c [b "sunion", k1, k2]).run c s = (s, .done (.okPerm (arrHdr r.length) (r.map bulkStr))) ∧
      (handleSUnion false c [b "sunion", k2, k1]).run c s = (s, .done (.okPerm (arrHdr r.length) (r.map bulkStr))) ∧
      (∀ x, x ∈ r ↔ x ∈ m1) ∧ r.Nodup ∧ (m1.Nodup → r = m1) := by
  have hne : k1 ≠ k2 := by intro h; subst h; rw [h1] at h2; cases h2
  refine ⟨unionMembers [m1], ?_, ?_, fun x => by simp [mem_unionMembers], nodup_unionMembers _,
    fun hn => by simp [unionMembers, setAdd_nil_nodup m1 hn]⟩
  · simp [handleSUnion, eraseDups_pair k1 k2 hne, getValues_live_absent c s k1 k2 _ h1 l1 h2, notSetVal, asSet?, setArrReply]
  · have hg : getValues c s [k2, k1] = (s, [.nil, .set 0 m1]) := by simp [getValues, h1, h2, l1]
    simp [handleSUnion, eraseDups_pair k2 k1 (Ne.symm hne), hg, notSetVal, asSet?, setArrReply]

/-- SUNION of absent keys only answers the empty array, state unchanged -/
theorem sunion_all_absent (c : Ctx) (s : State) (k : Bytes) (h : s.lookup c.db k = none) :
    (handleSUnion false c [b "sunion", k]).run c s = (s, .done (.okPerm (b "*0\r\n") [])) := by
  simp [handleSUnion, getValues_absent _ _ _ h, notSetVal, asSet?, setArrReply, unionMembers, setAdd]
  rfl

/-- the keys zipped onto the values one GetValues call serves for them -/
theorem zip_map_valAt (s : State) (db : Nat) (ks : List Bytes) :
    ks.zip (ks.map (valAt s db)) = ks.map fun k => (k, valAt s db k) := by
  induction ks with
  | nil => rfl
  | cons a r ih => simp [ih]

/-- what the SUNION handlers compute once their operands are known to be absent keys or live sets: no operand is
    refused, and the union is taken over the member lists of the operands that hold a set -/
theorem sunion_core (c : Ctx) (s : State) (ks : List Bytes) (ho : ∀ k, k ∈ ks → SetOrAbsent c s k) :
    getValues c s ks.eraseDups = (s, ks.eraseDups.map (valAt s c.db)) ∧
    ((ks.eraseDups.zip (ks.eraseDups.map (valAt s c.db))).find? fun p => notSetVal p.2) = none ∧
    ((ks.eraseDups.map (valAt s c.db)).filterMap fun v => (asSet? v).map (·.2)) = ks.eraseDups.filterMap (membersAt s c.db) := by
  have ho' : ∀ k, k ∈ ks.eraseDups → SetOrAbsent c s k := fun k hk => ho k (List.mem_eraseDups.mp hk)
  refine ⟨getValues_setOrAbsent c s _ ho', ?_, ?_⟩
  · rw [zip_map_valAt, List.find?_eq_none]
    intro p hp
    obtain ⟨k, hk, rfl⟩ := List.mem_map.mp hp
    simp [notSetVal_valAt c s k (ho' k hk)]
  · rw [List.filterMap_map]
    congr 1
    funext k
    exact asSet_valAt s c.db k

/-- membership in the union of the operands that hold a set -/
theorem mem_union_operands (s : State) (db : Nat) (ks : List Bytes) (x : Bytes) :
    x ∈ unionMembers (ks.eraseDups.filterMap (membersAt s db)) ↔ ∃ k, k ∈ ks ∧ ∃ ms, membersAt s db k = some ms ∧ x ∈ ms := by
  rw [mem_unionMembers]
  constructor
  · rintro ⟨ms, hms, hx⟩
    obtain ⟨k, hk, hkm⟩ := List.mem_filterMap.mp hms
    exact ⟨k, List.mem_eraseDups.mp hk, ms, hkm, hx⟩
  · rintro ⟨k, hk, ms, hkm, hx⟩
    exact ⟨ms, List.mem_filterMap.mpr ⟨k, List.mem_eraseDups.mpr hk, hkm⟩, hx⟩

/-- **SUNION k₁ … kₙ** — the algebra over the sets named, any number of keys (repeated or not), each one absent
    or a live set: the reply lists exactly the members held by at least one of the sets, each once; an absent
    key contributes nothing; the state is unchanged — SUNION is a pure reader -/
theorem sunion_many (c : Ctx) (s : State) (ks : List Bytes) (hks : ks ≠ []) (ho : ∀ k, k ∈ ks → SetOrAbsent c s k) :
    ∃ r : List Bytes, (handleSUnion false c (b "sunion" :: ks)).run c s = (s, .done (.okPerm (arrHdr r.length) (r.map bulkStr))) ∧
      (∀ x, x ∈ r ↔ ∃ k, k ∈ ks ∧ ∃ ms, membersAt s c.db k = some ms ∧ x ∈ ms) ∧ r.Nodup := by
  obtain ⟨hg, hf, hm⟩ := sunion_core c s ks ho
  refine ⟨unionMembers (ks.eraseDups.filterMap (membersAt s c.db)), ?_, mem_union_operands s c.db ks, nodup_unionMembers _⟩
  have hlen : ¬ (ks.length + 1 < 2) := by
    cases ks with
    | nil => exact absurd rfl hks
    | cons a t => simp
  simp [handleSUnion, hlen, hg, hf, hm, setArrReply]

/-- **SUNIONSTORE dest k₁ … kₙ** — any number of operand keys (repeated or not), each one absent or a live set,
    `dest` arbitrary (operands included): the destination is replaced by a *newly allocated, unshared* set
    (`.set 0 _`) holding exactly the members of at least one operand, each once (deadline of an existing
    destination kept); the reply is its size; **every other key — each operand included — is untouched**. (Was
    `sunionstore_two_partial`: the stored object used to be the first operand's own, mutated, object — classes
    `sunion-mutates-operand`, `sunionstore-destination-aliases-source`. Repaired upstream.) -/
theorem sunionstore_many (c : Ctx) (s : State) (d : Bytes) (ks : List Bytes) (hm : c.cfg.maxMemory = 0)
    (hks : ks ≠ []) (ho : ∀ k, k ∈ ks → SetOrAbsent c s k) :
    ∃ s' r, (handleSUnion true c (b "sunionstore" :: d :: ks)).run c s = (s', .done (.ok (intReply r.length))) ∧
      s'.lookup c.db d = some ⟨.set 0 r, (s.lookup c.db d).bind (·.exp)⟩ ∧
      (∀ k', d ≠ k' → s'.lookup c.db k' = s.lookup c.db k') ∧
      (∀ x, x ∈ r ↔ ∃ k, k ∈ ks ∧ ∃ ms, membersAt s c.db k = some ms ∧ x ∈ ms) ∧ r.Nodup := by
  obtain ⟨hg, hf, hmm⟩ := sunion_core c s ks ho
  refine ⟨(setValues c s [(d, .set 0 (unionMembers (ks.eraseDups.filterMap (membersAt s c.db))))]).1,
    unionMembers (ks.eraseDups.filterMap (membersAt s c.db)), ?_,
    (setValues_single c s d _ hm).2.1, (setValues_single c s d _ hm).2.2, mem_union_operands s c.db ks, nodup_unionMembers _⟩
  have hlen : ¬ (ks.length + 1 + 1 < 3) := by
    cases ks with
    | nil => exact absurd rfl hks
    | cons a t => simp
  simp [handleSUnion, hlen, hg, hf, hmm, run_setOrErr_single _ _ _ _ _ hm]

/-- **SUNIONSTORE dest k1 k2** (distinct operands, both live sets; `dest` arbitrary, operands included): the full
    statement on two operands — fresh unshared object at the destination, members of either operand, operands
    and every other key untouched -/
theorem sunionstore_two (c : Ctx) (s : State) (d k1 k2 : Bytes) (m1 m2 : List Bytes) (e1 e2 : Option Int)
    (hm : c.cfg.maxMemory = 0) (hne : k1 ≠ k2)
    (h1 : s.lookup c.db k1 = some ⟨.set 0 m1, e1⟩) (l1 : (⟨.set 0 m1, e1⟩ : Entry).expired c.now = false)
    (h2 : s.lookup c.db k2 = some ⟨.set 0 m2, e2⟩) (l2 : (⟨.set 0 m2, e2⟩ : Entry).expired c.now = false) :
    ∃ s' r, (handleSUnion true c [b "sunionstore", d, k1, k2]).run c s = (s', .done (.ok (intReply r.length))) ∧
      s'.lookup c.db d = some ⟨.set 0 r, (s.lookup c.db d).bind (·.exp)⟩ ∧
      (∀ k', d ≠ k' → s'.lookup c.db k' = s.lookup c.db k') ∧
      (∀ x, x ∈ r ↔ x ∈ m1 ∨ x ∈ m2) ∧ r.Nodup := by
  have hg := getValues_live2 c s k1 k2 _ _ h1 l1 h2 l2
  refine ⟨(setValues c s [(d, .set 0 (unionMembers [m1, m2]))]).1, unionMembers [m1, m2], ?_,
    (setValues_single c s d _ hm).2.1, (setValues_single c s d _ hm).2.2,
    fun x => by simp [mem_unionMembers], nodup_unionMembers _⟩
  simp [handleSUnion, eraseDups_pair k1 k2 hne, hg, notSetVal, asSet?, run_setOrErr_single _ _ _ _ _ hm]

/-! ### SMOVE -/

/-- **SMOVE src dst m moves one member** (distinct keys, both live sets, `m` a member of the source):
    replies 1; the source holds Set.Remove of `m`, the destination Set.Add of `m`; other keys untouched -/
theorem smove_moves (c : Ctx) (s : State) (src dst m : Bytes) (sm dm : List Bytes) (e1 e2 : Option Int)
    (hne : src ≠ dst)
    (h1 : s.lookup c.db src = some ⟨.set 0 sm, e1⟩) (l1 : (⟨.set 0 sm, e1⟩ : Entry).expired c.now = false)
    (h2 : s.lookup c.db dst = some ⟨.set 0 dm, e2⟩) (l2 : (⟨.set 0 dm, e2⟩ : Entry).expired c.now = false)
    (hmem : m ∈ sm) :
    ∃ s', (handleSMove c [b "smove", src, dst, m]).run c s = (s', .done (.ok (intReply 1))) ∧
      s'.lookup c.db src = some ⟨.set 0 (setRemove sm [m]).1, e1⟩ ∧
      s'.lookup c.db dst = some ⟨.set 0 (setAdd dm [m]).1, e2⟩ ∧
      ∀ k', src ≠ k' → dst ≠ k' → s'.lookup c.db k' = s.lookup c.db k' := by
  have hd1 : (mutObj s c.db src (.set 0 (setRemove sm [m]).1)).lookup c.db dst = some ⟨.set 0 dm, e2⟩ := by
    rw [lookup_mutObj_other _ _ _ _ _ _ _ h1 hne, h2]
  refine ⟨mutObj (mutObj s c.db src (.set 0 (setRemove sm [m]).1)) c.db dst (.set 0 (setAdd dm [m]).1), ?_, ?_, ?_, ?_⟩
  · have hb : (src == dst) = false := by simpa using hne
    simp [handleSMove, keysExist_pair, h1, getValues_live2 c s src dst _ _ h1 l1 h2 l2, asSet?, hmem, hb]
  · rw [lookup_mutObj_other _ _ _ _ _ _ _ hd1 (Ne.symm hne)]
    exact lookup_mutObj_same _ _ _ _ _ _ h1
  · exact lookup_mutObj_same _ _ _ _ _ _ hd1
  · intro k' n1 n2
    rw [lookup_mutObj_other _ _ _ _ _ _ _ hd1 n2, lookup_mutObj_other _ _ _ _ _ _ _ h1 n1]

/-- the same in set terms (duplicate-free sets): afterwards `x` is in the source iff it was and is not `m`,
    in the destination iff it was or is `m`; both stay duplicate-free -/
theorem smove_set_semantics (c : Ctx) (s : State) (src dst m : Bytes) (sm dm : List Bytes) (e1 e2 : Option Int)
    (hne : src ≠ dst)
    (h1 : s.lookup c.db src = some ⟨.set 0 sm, e1⟩) (l1 : (⟨.set 0 sm, e1⟩ : Entry).expired c.now = false)
    (h2 : s.lookup c.db dst = some ⟨.set 0 dm, e2⟩) (l2 : (⟨.set 0 dm, e2⟩ : Entry).expired c.now = false)
    (hmem : m ∈ sm) (n1 : sm.Nodup) (n2 : dm.Nodup) :
    ∃ s' sm' dm', (handleSMove c [b "smove", src, dst, m]).run c s = (s', .done (.ok (intReply 1))) ∧
      s'.lookup c.db src = some ⟨.set 0 sm', e1⟩ ∧ s'.lookup c.db dst = some ⟨.set 0 dm', e2⟩ ∧
      (∀ x, x ∈ sm' ↔ x ∈ sm ∧ x ≠ m) ∧ (∀ x, x ∈ dm' ↔ x ∈ dm ∨ x = m) ∧ sm'.Nodup ∧ dm'.Nodup := by
  obtain ⟨s', r1, r2, r3, _⟩ := smove_moves c s src dst m sm dm e1 e2 hne h1 l1 h2 l2 hmem
  refine ⟨s', _, _, r1, r2, r3, ?_, ?_, nodup_setRemove sm [m] n1, nodup_setAdd dm [m] n2⟩
  · intro x; rw [mem_setRemove sm [m] n1 x]; simp
  · intro x; rw [mem_setAdd dm [m] x]; simp

/-- SMOVE of a non-member replies 0 and changes nothing -/
theorem smove_not_member (c : Ctx) (s : State) (src dst m : Bytes) (sm dm : List Bytes) (e1 e2 : Option Int)
    (h1 : s.lookup c.db src = some ⟨.set 0 sm, e1⟩) (l1 : (⟨.set 0 sm, e1⟩ : Entry).expired c.now = false)
    (h2 : s.lookup c.db dst = some ⟨.set 0 dm, e2⟩) (l2 : (⟨.set 0 dm, e2⟩ : Entry).expired c.now = false)
    (hmem : m ∉ sm) :
    (handleSMove c [b "smove", src, dst, m]).run c s = (s, .done (.ok (intReply 0))) := by
  simp [handleSMove, keysExist_pair, h1, getValues_live2 c s src dst _ _ h1 l1 h2 l2, asSet?, hmem]

/-- SMOVE from an absent source replies 0 and changes nothing -/
theorem smove_absent_source (c : Ctx) (s : State) (src dst m : Bytes) (h1 : s.lookup c.db src = none) :
    (handleSMove c [b "smove", src, dst, m]).run c s = (s, .done (.ok (intReply 0))) := by
  simp [handleSMove, keysExist_pair, h1]

/-- SMOVE to an absent destination (source a live set) is refused with "destination is not a set" and nothing
    moves — SugarDB's behaviour (Redis would create the destination) -/
theorem smove_absent_destination (c : Ctx) (s : State) (src dst m : Bytes) (sm : List Bytes) (e1 : Option Int)
    (h1 : s.lookup c.db src = some ⟨.set 0 sm, e1⟩) (l1 : (⟨.set 0 sm, e1⟩ : Entry).expired c.now = false)
    (h2 : s.lookup c.db dst = none) :
    (handleSMove c [b "smove", src, dst, m]).run c s = (s, .done (.err (b "destination is not a set"))) := by
  simp [handleSMove, keysExist_pair, h1, getValues_live_absent c s src dst _ h1 l1 h2, asSet?]

/-- SMOVE k k m (source = destination, duplicate-free set, `m` a member): replies 1 and the set keeps exactly
    its members (the member is removed and re-added, so only its position changes) -/
theorem smove_same_key (c : Ctx) (s : State) (k m : Bytes) (sm : List Bytes) (e1 : Option Int)
    (h1 : s.lookup c.db k = some ⟨.set 0 sm, e1⟩) (l1 : (⟨.set 0 sm, e1⟩ : Entry).expired c.now = false)
    (hmem : m ∈ sm) (hnd : sm.Nodup) :
    ∃ s' sm', (handleSMove c [b "smove", k, k, m]).run c s = (s', .done (.ok (intReply 1))) ∧
      s'.lookup c.db k = some ⟨.set 0 sm', e1⟩ ∧ (∀ x, x ∈ sm' ↔ x ∈ sm) ∧ sm'.Nodup ∧
      ∀ k', k ≠ k' → s'.lookup c.db k' = s.lookup c.db k' := by
  refine ⟨mutObj s c.db k (.set 0 (setAdd (setRemove sm [m]).1 [m]).1), _, ?_, lookup_mutObj_same _ _ _ _ _ _ h1, ?_,
    nodup_setAdd _ _ (nodup_setRemove sm [m] hnd), fun k' hne => lookup_mutObj_other _ _ _ _ _ _ _ h1 hne⟩
  · simp [handleSMove, keysExist_pair, h1, getValues_live2 c s k k _ _ h1 l1 h1 l1, asSet?, hmem]
  · intro x
    rw [mem_setAdd, mem_setRemove sm [m] hnd]
    simp only [List.mem_singleton]
    constructor
    · rintro (⟨hx, _⟩ | hx)
      · exact hx
      · exact hx ▸ hmem
    · intro hx
      by_cases hxm : x = m
      · exact Or.inr hxm
      · exact Or.inl ⟨hx, hxm⟩
/-! ### SPOP / SRANDMEMBER -/

/-- the `count` argument: a canonical integer text is read as that integer; no argument means 1 -/
theorem countArg_int (n k cnt : Bytes) (i : Int) (h : adaptType cnt = .int i) : countArg [n, k, cnt] = .ok i := by
  simp [countArg, h]

/-- no count argument means a count of 1 -/
theorem countArg_none (n k : Bytes) : countArg [n, k] = .ok 1 := rfl

/-- SPOP core, count `n` with `0 < |n| < |set|`: the reply is an array of `|n|` current members (the random
    choice is the context's `hint`, or a prefix when the hint is unusable), pairwise distinct when the count is
    positive and the set duplicate-free, and exactly these are removed -/
theorem spop_core_some (c : Ctx) (s : State) (k : Bytes) (rest ms : List Bytes) (n : Int) (ex : Option Int)
    (hlen : rest.length ≤ 1) (hc : countArg (b "spop" :: k :: rest) = .ok n)
    (h : s.lookup c.db k = some ⟨.set 0 ms, ex⟩) (hlive : (⟨.set 0 ms, ex⟩ : Entry).expired c.now = false)
    (h0 : 0 < n.natAbs) (hlt : n.natAbs < ms.length) :
    ∃ s' picks, (handleSPop c (b "spop" :: k :: rest)).run c s =
        (s', .done (.ok (arrHdr picks.length ++ (picks.map bulkStr).flatten))) ∧
      picks.length = n.natAbs ∧ (∀ p, p ∈ picks → p ∈ ms) ∧
      s'.lookup c.db k = some ⟨.set 0 (setRemove ms picks).1, ex⟩ ∧
      (∀ k2, k ≠ k2 → s'.lookup c.db k2 = s.lookup c.db k2) ∧
      (0 < n → ms.Nodup → picks.Nodup) := by
  let valid : Bool := c.hint.length == n.natAbs && c.hint.all ms.contains && (decide (n < 0) || c.hint.eraseDups.length == n.natAbs)
  let picks : List Bytes := if valid then c.hint else ms.take n.natAbs
  refine ⟨mutObj s c.db k (.set 0 (setRemove ms picks).1), picks, ?_, ?_, ?_,
    lookup_mutObj_same _ _ _ _ _ _ h, fun k2 hne => lookup_mutObj_other _ _ _ _ _ _ _ h hne, ?_⟩
  · have f1 : ¬ (rest.length + 1 + 1 < 2) := by omega
    have f2 : ¬ (rest.length + 1 + 1 > 3) := by omega
    have f4 : ¬ (n = 0) := by omega
    have f5 : ¬ (ms.length ≤ n.natAbs) := by omega
    simp [handleSPop, f1, f2, f4, f5, hc, keysExist_single, h, getValues_live _ _ _ _ h hlive, asSet?, picks, valid]
  · by_cases hv : valid = true
    · have : picks = c.hint := by simp [picks, hv]
      rw [this]
      simp only [valid, Bool.and_eq_true, beq_iff_eq] at hv
      exact hv.1.1
    · have : picks = ms.take n.natAbs := by simp [picks, hv]
      rw [this, List.length_take]; omega
  · intro p hp
    by_cases hv : valid = true
    · have : picks = c.hint := by simp [picks, hv]
      rw [this] at hp
      simp only [valid, Bool.and_eq_true, List.all_eq_true] at hv
      exact List.contains_iff_mem.mp (hv.1.2 p hp)
    · have : picks = ms.take n.natAbs := by simp [picks, hv]
      rw [this] at hp
      exact List.mem_of_mem_take hp
  · intro hpos hnd
    by_cases hv : valid = true
    · have : picks = c.hint := by simp [picks, hv]
      rw [this]
      simp only [valid, Bool.and_eq_true, Bool.or_eq_true, decide_eq_true_eq, beq_iff_eq] at hv
      rcases hv.2 with hneg | hlen
      · omega
      · exact nodup_of_length_eraseDups c.hint (by rw [hlen, hv.1.1])
    · have : picks = ms.take n.natAbs := by simp [picks, hv]
      rw [this]
      exact hnd.sublist (List.take_sublist _ _)

/-- SPOP core, count `n ≠ 0` with `|n| ≥ |set|`: every member is returned and the set is emptied
    (the key stays, holding the empty set) -/
theorem spop_core_all (c : Ctx) (s : State) (k : Bytes) (rest ms : List Bytes) (n : Int) (ex : Option Int)
    (hlen : rest.length ≤ 1) (hc : countArg (b "spop" :: k :: rest) = .ok n)
    (h : s.lookup c.db k = some ⟨.set 0 ms, ex⟩) (hlive : (⟨.set 0 ms, ex⟩ : Entry).expired c.now = false)
    (h0 : n ≠ 0) (hge : ms.length ≤ n.natAbs) :
    ∃ s', (handleSPop c (b "spop" :: k :: rest)).run c s = (s', .done (.okPerm (arrHdr ms.length) (ms.map bulkStr))) ∧
      s'.lookup c.db k = some ⟨.set 0 [], ex⟩ ∧
      ∀ k2, k ≠ k2 → s'.lookup c.db k2 = s.lookup c.db k2 := by
  refine ⟨mutObj s c.db k (.set 0 []), ?_,
    lookup_mutObj_same _ _ _ _ _ _ h, fun k2 hne => lookup_mutObj_other _ _ _ _ _ _ _ h hne⟩
  have f1 : ¬ (rest.length + 1 + 1 < 2) := by omega
  have f2 : ¬ (rest.length + 1 + 1 > 3) := by omega
  simp [handleSPop, f1, f2, h0, hge, hc, keysExist_single, h, getValues_live _ _ _ _ h hlive, asSet?, setArrReply]

/-- **SPOP k count** (count text reads as integer `n`, `0 < |n| < |set|`, duplicate-free set): a correctly
    sized selection of current members — pairwise distinct for a positive count — is returned and exactly
    those are removed -/
theorem spop_count (c : Ctx) (s : State) (k cnt : Bytes) (ms : List Bytes) (n : Int) (ex : Option Int)
    (hcnt : adaptType cnt = .int n)
    (h : s.lookup c.db k = some ⟨.set 0 ms, ex⟩) (hlive : (⟨.set 0 ms, ex⟩ : Entry).expired c.now = false)
    (h0 : 0 < n.natAbs) (hlt : n.natAbs < ms.length) (hnd : ms.Nodup) :
    ∃ (s' : State) (picks ms' : List Bytes), (handleSPop c [b "spop", k, cnt]).run c s =
        (s', .done (.ok (arrHdr picks.length ++ (picks.map bulkStr).flatten))) ∧
      picks.length = n.natAbs ∧ (∀ p, p ∈ picks → p ∈ ms) ∧
      s'.lookup c.db k = some ⟨.set 0 ms', ex⟩ ∧ (∀ x, x ∈ ms' ↔ x ∈ ms ∧ x ∉ picks) ∧ ms'.Nodup ∧
      (0 < n → picks.Nodup) := by
  obtain ⟨s', picks, r1, r2, r3, r4, _, r6⟩ :=
    spop_core_some c s k [cnt] ms n ex (by simp) (countArg_int _ _ _ _ hcnt) h hlive h0 hlt
  exact ⟨s', picks, _, r1, r2, r3, r4, mem_setRemove ms picks hnd, nodup_setRemove ms picks hnd,
    fun hp => r6 hp hnd⟩

/-- **SPOP k** (no count) on a set of at least two members: one current member is returned and removed -/
theorem spop_one (c : Ctx) (s : State) (k : Bytes) (ms : List Bytes) (ex : Option Int)
    (h : s.lookup c.db k = some ⟨.set 0 ms, ex⟩) (hlive : (⟨.set 0 ms, ex⟩ : Entry).expired c.now = false)
    (hlt : 1 < ms.length) (hnd : ms.Nodup) :
    ∃ s' p ms', (handleSPop c [b "spop", k]).run c s = (s', .done (.ok (arrHdr 1 ++ bulkStr p))) ∧ p ∈ ms ∧
      s'.lookup c.db k = some ⟨.set 0 ms', ex⟩ ∧ (∀ x, x ∈ ms' ↔ x ∈ ms ∧ x ≠ p) ∧ ms'.length + 1 = ms.length := by
  obtain ⟨s', picks, r1, r2, r3, r4, _⟩ :=
    spop_core_some c s k [] ms 1 ex (by simp) (countArg_none _ _) h hlive (by decide) hlt
  match picks, r2 with
  | [p], _ =>
    refine ⟨s', p, _, by simpa using r1, r3 p (by simp), r4, ?_, ?_⟩
    · intro x; rw [mem_setRemove ms [p] hnd x]; simp
    · have := length_setRemove ms [p]
      rw [setRemove_single_mem ms p (r3 p (by simp))] at this ⊢
      simpa using this

/-- **SPOP k count with count ≥ |set|**: all members are returned and the set is left empty -/
theorem spop_count_all (c : Ctx) (s : State) (k cnt : Bytes) (ms : List Bytes) (n : Int) (ex : Option Int)
    (hcnt : adaptType cnt = .int n)
    (h : s.lookup c.db k = some ⟨.set 0 ms, ex⟩) (hlive : (⟨.set 0 ms, ex⟩ : Entry).expired c.now = false)
    (h0 : n ≠ 0) (hge : ms.length ≤ n.natAbs) :
    ∃ s', (handleSPop c [b "spop", k, cnt]).run c s = (s', .done (.okPerm (arrHdr ms.length) (ms.map bulkStr))) ∧
      s'.lookup c.db k = some ⟨.set 0 [], ex⟩ ∧ ∀ k2, k ≠ k2 → s'.lookup c.db k2 = s.lookup c.db k2 :=
  spop_core_all c s k [cnt] ms n ex (by simp) (countArg_int _ _ _ _ hcnt) h hlive h0 hge

/-- **SRANDMEMBER k count** (`0 < |count| < |set|`): `|count|` of the current members, chosen by the random
    source — pairwise distinct iff the count is positive; state unchanged -/
theorem srandmember_count (c : Ctx) (s : State) (k cnt : Bytes) (ms : List Bytes) (n : Int) (ex : Option Int)
    (hcnt : adaptType cnt = .int n)
    (h : s.lookup c.db k = some ⟨.set 0 ms, ex⟩) (hlive : (⟨.set 0 ms, ex⟩ : Entry).expired c.now = false)
    (h0 : 0 < n.natAbs) (hlt : n.natAbs < ms.length) :
    (handleSRandMember c [b "srandmember", k, cnt]).run c s =
      (s, .done (.okPick (arrHdr n.natAbs) n.natAbs (decide (n > 0)) (ms.map bulkStr))) := by
  have f4 : ¬ (n = 0) := by omega
  have f5 : ¬ (ms.length ≤ n.natAbs) := by omega
  simp [handleSRandMember, countArg_int _ _ _ _ hcnt, f4, f5, keysExist_single, h, getValues_live _ _ _ _ h hlive, asSet?]

/-- **SRANDMEMBER k** (no count) on a set of at least two members: one of the current members, state unchanged -/
theorem srandmember_one (c : Ctx) (s : State) (k : Bytes) (ms : List Bytes) (ex : Option Int)
    (h : s.lookup c.db k = some ⟨.set 0 ms, ex⟩) (hlive : (⟨.set 0 ms, ex⟩ : Entry).expired c.now = false)
    (hlt : 1 < ms.length) :
    (handleSRandMember c [b "srandmember", k]).run c s =
      (s, .done (.okPick (arrHdr 1) 1 true (ms.map bulkStr))) := by
  have f5 : ¬ (ms.length ≤ 1) := by omega
  simp [handleSRandMember, countArg_none, f5, keysExist_single, h, getValues_live _ _ _ _ h hlive, asSet?]

/-- **SRANDMEMBER k count with `count ≠ 0` and `|count| ≥ |set|`**: all current members (none for the empty set:
    the terminated `*0\r\n`), state unchanged. For a negative count see `srandmember_negative_count_capped_witness`. -/
theorem srandmember_count_all (c : Ctx) (s : State) (k cnt : Bytes) (ms : List Bytes) (n : Int) (ex : Option Int)
    (hcnt : adaptType cnt = .int n)
    (h : s.lookup c.db k = some ⟨.set 0 ms, ex⟩) (hlive : (⟨.set 0 ms, ex⟩ : Entry).expired c.now = false)
    (h0 : n ≠ 0) (hge : ms.length ≤ n.natAbs) :
    (handleSRandMember c [b "srandmember", k, cnt]).run c s = (s, .done (.okPerm (arrHdr ms.length) (ms.map bulkStr))) := by
  simp [handleSRandMember, countArg_int _ _ _ _ hcnt, h0, hge, keysExist_single, h, getValues_live _ _ _ _ h hlive, asSet?, setArrReply]

/-- SPOP / SRANDMEMBER on an absent key answer the null array and change nothing -/
theorem spop_srandmember_absent (c : Ctx) (s : State) (k : Bytes) (h : s.lookup c.db k = none) :
    (handleSPop c [b "spop", k]).run c s = (s, .done (.ok (b "*-1\r\n"))) ∧
    (handleSRandMember c [b "srandmember", k]).run c s = (s, .done (.ok (b "*-1\r\n"))) := by
  constructor <;> simp [handleSPop, handleSRandMember, countArg_none, keysExist_single, h]

/-- **a count of 0 selects nothing**: SPOP k 0 and SRANDMEMBER k 0 on any stored set answer the terminated
    empty array `*0\r\n` and leave the state unchanged (repaired upstream: both answered the bare `*0`) -/
theorem spop_srandmember_zero_count (c : Ctx) (s : State) (k cnt : Bytes) (ms : List Bytes) (ex : Option Int)
    (hcnt : adaptType cnt = .int 0)
    (h : s.lookup c.db k = some ⟨.set 0 ms, ex⟩) (hlive : (⟨.set 0 ms, ex⟩ : Entry).expired c.now = false) :
    (handleSPop c [b "spop", k, cnt]).run c s = (s, .done (.ok (b "*0\r\n"))) ∧
    (handleSRandMember c [b "srandmember", k, cnt]).run c s = (s, .done (.ok (b "*0\r\n"))) := by
  constructor <;>
    simp [handleSPop, handleSRandMember, countArg_int _ _ _ _ hcnt, keysExist_single, h,
      getValues_live _ _ _ _ h hlive, asSet?]

/-! ### composed laws: the STORE variants and SMOVE read back -/

/-- key `k` is not "stored but expired" (the `expired-key-still-exists` class) -/
def NotStale (c : Ctx) (s : State) (k : Bytes) : Prop := ∀ e, s.lookup c.db k = some e → e.expired c.now = false

/-- a value stored over a key that was not stale is live (it inherits the old deadline, or has none) -/
theorem live_after_store (c : Ctx) (s : State) (d : Bytes) (v : Val) (hd : NotStale c s d) :
    (⟨v, (s.lookup c.db d).bind (·.exp)⟩ : Entry).expired c.now = false := by
  cases h : s.lookup c.db d with
  | none => rfl
  | some e => have := hd e h; simpa [Entry.expired] using this

/-- **SMOVE then SISMEMBER**: the moved member is reported in the destination and no longer in the source -/
theorem sismember_after_smove (c : Ctx) (s : State) (src dst m : Bytes) (sm dm : List Bytes) (e1 e2 : Option Int)
    (hne : src ≠ dst)
    (h1 : s.lookup c.db src = some ⟨.set 0 sm, e1⟩) (l1 : (⟨.set 0 sm, e1⟩ : Entry).expired c.now = false)
    (h2 : s.lookup c.db dst = some ⟨.set 0 dm, e2⟩) (l2 : (⟨.set 0 dm, e2⟩ : Entry).expired c.now = false)
    (hmem : m ∈ sm) (n1 : sm.Nodup) :
    ((handleSIsMember c [b "sismember", dst, m]).run c ((handleSMove c [b "smove", src, dst, m]).run c s).1).2
      = .done (.ok (intReply 1)) ∧
    ((handleSIsMember c [b "sismember", src, m]).run c ((handleSMove c [b "smove", src, dst, m]).run c s).1).2
      = .done (.ok (intReply 0)) := by
  obtain ⟨s', r1, r2, r3, _⟩ := smove_moves c s src dst m sm dm e1 e2 hne h1 l1 h2 l2 hmem
  rw [r1]
  constructor
  · rw [sismember_reports c s' dst m _ e2 r3 (live_of_live dm _ e2 c.now l2)]
    have : m ∈ (setAdd dm [m]).1 := (mem_setAdd dm [m] m).mpr (Or.inr (by simp))
    simp [this]
  · rw [sismember_reports c s' src m _ e1 r2 (live_of_live sm _ e1 c.now l1)]
    have : m ∉ (setRemove sm [m]).1 := fun hc => ((mem_setRemove sm [m] n1 m).mp hc).2 (by simp)
    simp [this]

/-- **SDIFFSTORE then SISMEMBER / SCARD**: the destination reads back as the difference -/
theorem read_after_sdiffstore (c : Ctx) (s : State) (d k1 k2 x : Bytes) (bm om : List Bytes) (e1 e2 : Option Int)
    (hm : c.cfg.maxMemory = 0) (hd : NotStale c s d)
    (h1 : s.lookup c.db k1 = some ⟨.set 0 bm, e1⟩) (l1 : (⟨.set 0 bm, e1⟩ : Entry).expired c.now = false)
    (h2 : s.lookup c.db k2 = some ⟨.set 0 om, e2⟩) (l2 : (⟨.set 0 om, e2⟩ : Entry).expired c.now = false) :
    ((handleSIsMember c [b "sismember", d, x]).run c ((handleSDiff true c [b "sdiffstore", d, k1, k2]).run c s).1).2
      = .done (.ok (intReply (if x ∈ bm ∧ x ∉ om then 1 else 0))) ∧
    ((handleSCard c [b "scard", d]).run c ((handleSDiff true c [b "sdiffstore", d, k1, k2]).run c s).1).2
      = ((handleSDiff true c [b "sdiffstore", d, k1, k2]).run c s).2 := by
  obtain ⟨s', r1, r2, _⟩ := sdiffstore_two c s d k1 k2 bm om e1 e2 hm h1 l1 h2 l2
  have hl := live_after_store c s d (.set 0 (bm.filter fun m => !om.contains m)) hd
  rw [r1]
  constructor
  · rw [sismember_reports c s' d x _ _ r2 hl]
    simp
  · rw [scard_reports c s' d _ _ r2 hl]

/-- **SINTERSTORE then SISMEMBER / SCARD**: the destination reads back as the intersection -/
theorem read_after_sinterstore (c : Ctx) (s : State) (d k1 k2 x : Bytes) (m1 m2 : List Bytes) (e1 e2 : Option Int)
    (hm : c.cfg.maxMemory = 0) (hd : NotStale c s d) (hne : k1 ≠ k2)
    (h1 : s.lookup c.db k1 = some ⟨.set 0 m1, e1⟩) (l1 : (⟨.set 0 m1, e1⟩ : Entry).expired c.now = false)
    (h2 : s.lookup c.db k2 = some ⟨.set 0 m2, e2⟩) (l2 : (⟨.set 0 m2, e2⟩ : Entry).expired c.now = false) :
    ((handleSIsMember c [b "sismember", d, x]).run c ((handleSInter 1 c [b "sinterstore", d, k1, k2]).run c s).1).2
      = .done (.ok (intReply (if x ∈ m1 ∧ x ∈ m2 then 1 else 0))) ∧
    ((handleSCard c [b "scard", d]).run c ((handleSInter 1 c [b "sinterstore", d, k1, k2]).run c s).1).2
      = ((handleSInter 1 c [b "sinterstore", d, k1, k2]).run c s).2 := by
  obtain ⟨s', r, r1, r2, _, r4, _⟩ := sinterstore_two c s d k1 k2 m1 m2 e1 e2 hm hne h1 l1 h2 l2
  have hl := live_after_store c s d (.set 0 r) hd
  rw [r1]
  constructor
  · rw [sismember_reports c s' d x _ _ r2 hl]
    simp [r4 x]
  · rw [scard_reports c s' d _ _ r2 hl]

/-- **SUNIONSTORE then SISMEMBER / SCARD**: the destination reads back as the union -/
theorem read_after_sunionstore (c : Ctx) (s : State) (d k1 k2 x : Bytes) (m1 m2 : List Bytes) (e1 e2 : Option Int)
    (hm : c.cfg.maxMemory = 0) (hd : NotStale c s d) (hne : k1 ≠ k2)
    (h1 : s.lookup c.db k1 = some ⟨.set 0 m1, e1⟩) (l1 : (⟨.set 0 m1, e1⟩ : Entry).expired c.now = false)
    (h2 : s.lookup c.db k2 = some ⟨.set 0 m2, e2⟩) (l2 : (⟨.set 0 m2, e2⟩ : Entry).expired c.now = false) :
    ((handleSIsMember c [b "sismember", d, x]).run c ((handleSUnion true c [b "sunionstore", d, k1, k2]).run c s).1).2
      = .done (.ok (intReply (if x ∈ m1 ∨ x ∈ m2 then 1 else 0))) ∧
    ((handleSCard c [b "scard", d]).run c ((handleSUnion true c [b "sunionstore", d, k1, k2]).run c s).1).2
      = ((handleSUnion true c [b "sunionstore", d, k1, k2]).run c s).2 := by
  obtain ⟨s', r, r1, r2, _, r4, _⟩ := sunionstore_two c s d k1 k2 m1 m2 e1 e2 hm hne h1 l1 h2 l2
  have hl := live_after_store c s d (.set 0 r) hd
  rw [r1]
  constructor
  · rw [sismember_reports c s' d x _ _ r2 hl]
    simp [r4 x]
  · rw [scard_reports c s' d _ _ r2 hl]

/-- **sets named by different keys are independent** — the stored result shares nothing with its source: after
    SINTERSTORE d a (or, by `sunionstore_many`, SUNIONSTORE) a later SADD through the source key changes the source
    and leaves the destination holding exactly what was stored. (The converse of the former
    `shared_object_witness`; with it the hypothesis "unshared object" of every law above is an invariant of the
    set commands: no handler stores a non-zero object id any more.) -/
theorem stored_copy_independent_of_source (c : Ctx) (s : State) (d a : Bytes) (ms es : List Bytes) (ex : Option Int)
    (hm : c.cfg.maxMemory = 0) (hne : d ≠ a) (hes : es ≠ [])
    (h : s.lookup c.db a = some ⟨.set 0 ms, ex⟩) (hlive : (⟨.set 0 ms, ex⟩ : Entry).expired c.now = false) :
    ∃ s1 s2, (handleSInter 1 c [b "sinterstore", d, a]).run c s = (s1, .done (.ok (intReply ms.length))) ∧
      (handleSAdd c (b "sadd" :: a :: es)).run c s1 = (s2, .done (.ok (intReply (setAdd ms es).2))) ∧
      s2.lookup c.db a = some ⟨.set 0 (setAdd ms es).1, ex⟩ ∧
      s2.lookup c.db d = some ⟨.set 0 ms, (s.lookup c.db d).bind (·.exp)⟩ := by
  obtain ⟨s1, r1, r2, r3⟩ := sinterstore_single_copies c s d a ms ex hm h hlive
  have ha : s1.lookup c.db a = some ⟨.set 0 ms, ex⟩ := by rw [r3 a hne, h]
  obtain ⟨s2, q1, q2, q3⟩ := sadd_existing c s1 a ms es ex ha hlive hes
  exact ⟨s1, s2, r1, q1, q2, by rw [q3 d (Ne.symm hne), r2]⟩

/-- **SPOP then SISMEMBER**: afterwards exactly the members that were not popped are reported -/
theorem read_after_spop (c : Ctx) (s : State) (k cnt : Bytes) (ms : List Bytes) (n : Int) (ex : Option Int)
    (hcnt : adaptType cnt = .int n)
    (h : s.lookup c.db k = some ⟨.set 0 ms, ex⟩) (hlive : (⟨.set 0 ms, ex⟩ : Entry).expired c.now = false)
    (h0 : 0 < n.natAbs) (hlt : n.natAbs < ms.length) (hnd : ms.Nodup) :
    ∃ picks : List Bytes, ((handleSPop c [b "spop", k, cnt]).run c s).2 =
        .done (.ok (arrHdr picks.length ++ (picks.map bulkStr).flatten)) ∧
      ∀ x, ((handleSIsMember c [b "sismember", k, x]).run c ((handleSPop c [b "spop", k, cnt]).run c s).1).2 =
        .done (.ok (intReply (if x ∈ ms ∧ x ∉ picks then 1 else 0))) := by
  obtain ⟨s', picks, ms', r1, _, _, r4, r5, _⟩ := spop_count c s k cnt ms n ex hcnt h hlive h0 hlt hnd
  refine ⟨picks, by rw [r1], fun x => ?_⟩
  rw [r1, sismember_reports c s' k x ms' ex r4 (live_of_live ms _ ex c.now hlive)]
  simp [r5 x]
/-! ### a set command on a non-set key fails without changing anything -/

/-- **Wrong type fails and changes nothing**, single-key commands: on a key holding a live value that is
    not a set, SADD, SREM, SCARD, SISMEMBER, SMISMEMBER, SMEMBERS, SPOP, SRANDMEMBER, SUNION, SINTER and SDIFF
    (as base) answer an error and leave the state exactly as it was (SUNION reads the nil value of an entry
    that holds only a deadline as an absent key, i.e. as the empty set — hence `v ≠ .nil` there) -/
theorem wrongtype_no_change (c : Ctx) (s : State) (k m : Bytes) (v : Val) (ex : Option Int)
    (h : s.lookup c.db k = some ⟨v, ex⟩) (hlive : (⟨v, ex⟩ : Entry).expired c.now = false)
    (hv : asSet? v = none) :
    (handleSAdd c [b "sadd", k, m]).run c s = (s, .done (.err (notSet k))) ∧
    (handleSRem c [b "srem", k, m]).run c s = (s, .done (.err (notSet k))) ∧
    (handleSCard c [b "scard", k]).run c s = (s, .done (.err (notSet k))) ∧
    (handleSIsMember c [b "sismember", k, m]).run c s = (s, .done (.err (notSet k))) ∧
    (handleSMIsMember c [b "smismember", k, m]).run c s = (s, .done (.err (notSet k))) ∧
    (handleSMembers c [b "smembers", k]).run c s = (s, .done (.err (notSet k))) ∧
    (handleSPop c [b "spop", k]).run c s = (s, .done (.err (notSetAt k))) ∧
    (handleSRandMember c [b "srandmember", k]).run c s = (s, .done (.err (notSetAt k))) ∧
    (v ≠ .nil → (handleSUnion false c [b "sunion", k]).run c s = (s, .done (.err (notSet k)))) ∧
    (handleSInter 0 c [b "sinter", k]).run c s = (s, .done (.err (notSet k))) ∧
    (handleSDiff false c [b "sdiff", k]).run c s = (s, .done (.err (notSet k))) := by
  have hg := getValues_live _ _ _ _ h hlive
  refine ⟨?_, ?_, ?_, ?_, ?_, ?_, ?_, ?_, ?_, ?_, ?_⟩
  · simp [handleSAdd, keysExist_single, h, hg, hv]
  · exact run_withSet_wrongtype c s _ k _ v ex _ _ _ h hlive hv
  · exact run_withSet_wrongtype c s _ k _ v ex _ _ _ h hlive hv
  · exact run_withSet_wrongtype c s _ k _ v ex _ _ _ h hlive hv
  · have ha : (decide ([b "smismember", k, m].length ≥ 3)) = true := by simp
    unfold handleSMIsMember
    simp only [ha]
    exact run_withSet_wrongtype c s _ k _ v ex _ _ _ h hlive hv
  · exact run_withSet_wrongtype c s _ k _ v ex _ _ _ h hlive hv
  · simp [handleSPop, countArg_none, keysExist_single, h, hg, hv]
  · simp [handleSRandMember, countArg_none, keysExist_single, h, hg, hv]
  · intro hnil
    have hn : notSetVal v = true := by cases v <;> simp_all [notSetVal, asSet?]
    simp [handleSUnion, hg, hn]
  · simp [handleSInter, handleSInterRead, sinterReads, keysExist_single, h, sinterLimit, nthPerm_single, interLoop, hg, hv]
  · simp [handleSDiff, keysExist_single, h, hg, hv]

/-- **Wrong type fails and changes nothing**, SMOVE: a non-set source, or a non-set destination next to a set
    source, is an error and nothing moves -/
theorem smove_wrongtype (c : Ctx) (s : State) (src dst m : Bytes) (v : Val) (sm : List Bytes) (e1 e2 : Option Int)
    (hv : asSet? v = none) :
    (s.lookup c.db src = some ⟨v, e1⟩ → (⟨v, e1⟩ : Entry).expired c.now = false →
      s.lookup c.db dst = none →
      (handleSMove c [b "smove", src, dst, m]).run c s = (s, .done (.err (b "source is not a set")))) ∧
    (s.lookup c.db src = some ⟨.set 0 sm, e1⟩ → (⟨.set 0 sm, e1⟩ : Entry).expired c.now = false →
      s.lookup c.db dst = some ⟨v, e2⟩ → (⟨v, e2⟩ : Entry).expired c.now = false →
      (handleSMove c [b "smove", src, dst, m]).run c s = (s, .done (.err (b "destination is not a set")))) := by
  constructor
  · intro h1 l1 h2
    simp [handleSMove, keysExist_pair, h1, getValues_live_absent c s src dst _ h1 l1 h2, hv]
  · intro h1 l1 h2 l2
    have hs : asSet? (Val.set 0 sm) = some (0, sm) := rfl
    simp [handleSMove, keysExist_pair, h1, getValues_live2 c s src dst _ _ h1 l1 h2 l2, hv, hs]

/-! ### where the full statement fails (model witnesses; each is a class of Known.lean `classifyColl`) -/

/-- repaired upstream (was the witness of class `sadd-new-key-counts-duplicates`, where the reply was the number
    of arguments): SADD k a a on an absent key adds one member and replies 1; SADD k x x y replies 2 -/
theorem sadd_new_key_duplicates_replay :
    let c : Ctx := { db := 0, now := 1000 }
    let r := (handleSAdd c [b "sadd", b "k", b "a", b "a"]).run c { dbs := [], mem := 0 }
    r.2 = .done (.ok (b ":1\r\n")) ∧ r.1.lookup 0 (b "k") = some ⟨.set 0 [b "a"], none⟩ ∧
    ((handleSAdd c [b "sadd", b "k", b "x", b "x", b "y"]).run c { dbs := [], mem := 0 }).2 = .done (.ok (b ":2\r\n")) := by
  decide

/-- repaired upstream (was the witness of class `empty-array-without-terminator`): SADD k a; SREM k a leaves a
    stored empty set, on which SMEMBERS now answers the terminated empty array -/
theorem smembers_empty_set_replay :
    let c : Ctx := { db := 0, now := 1000 }
    let s1 := ((handleSAdd c [b "sadd", b "k", b "a"]).run c { dbs := [], mem := 0 }).1
    let s2 := ((handleSRem c [b "srem", b "k", b "a"]).run c s1).1
    s2.lookup 0 (b "k") = some ⟨.set 0 [], none⟩ ∧
    ((handleSMembers c [b "smembers", b "k"]).run c s2).2 = .done (.okPerm (b "*0\r\n") []) := by decide

/-- repaired upstream (was `spop_zero_count_witness`): SPOP k 0 answers `*0\r\n` and removes nothing -/
theorem spop_zero_count_replay :
    let c : Ctx := { db := 0, now := 1000 }
    let s : State := { dbs := [(0, ⟨[(b "k", ⟨.set 0 [b "a", b "b"], none⟩)], []⟩)], mem := 0 }
    (handleSPop c [b "spop", b "k", b "0"]).run c s = (s, .done (.ok (b "*0\r\n"))) := by decide

/-- repaired upstream (was the witness of class `sintercard-single-key-ignores-limit`, where the answer was 2):
    SINTERCARD k LIMIT 1 on a two-member set answers 1; a LIMIT above the cardinality leaves it alone -/
theorem sintercard_single_key_limit_replay :
    let c : Ctx := { db := 0, now := 1000 }
    let s : State := { dbs := [(0, ⟨[(b "k", ⟨.set 0 [b "a", b "b"], none⟩)], []⟩)], mem := 0 }
    ((handleSInter 2 c [b "sintercard", b "k", b "limit", b "1"]).run c s).2 = .done (.ok (b ":1\r\n")) ∧
    ((handleSInter 2 c [b "sintercard", b "k", b "limit", b "5"]).run c s).2 = .done (.ok (b ":2\r\n")) := by decide

/-- repaired upstream (was the witness of class `sintercard-limit-over-three-sets-stops-early`, where the answer
    was 1): three sets that intersect pairwise in two members and have no common member — SINTERCARD ta tb tc
    LIMIT 1 answers 0 in whatever order the operands are walked; and with a common member added to all three,
    LIMIT 1 answers 1 and LIMIT 5 the true cardinality 1 -/
theorem sintercard_limit_three_sets_replay :
    let st (x : List Bytes) : State := { dbs := [(0, ⟨[(b "ta", ⟨.set 0 ([b "p", b "q", b "r", b "s"] ++ x), none⟩),
      (b "tb", ⟨.set 0 ([b "p", b "q", b "t", b "u"] ++ x), none⟩), (b "tc", ⟨.set 0 ([b "r", b "s", b "t", b "u"] ++ x), none⟩)], []⟩)], mem := 0 }
    (∀ o, o < 6 → ((handleSInter 2 { db := 0, now := 1000, order := o } [b "sintercard", b "ta", b "tb", b "tc", b "limit", b "1"]).run
        { db := 0, now := 1000, order := o } (st [])).2 = .done (.ok (b ":0\r\n"))) ∧
    (∀ o, o < 6 → ((handleSInter 2 { db := 0, now := 1000, order := o } [b "sintercard", b "ta", b "tb", b "tc", b "limit", b "1"]).run
        { db := 0, now := 1000, order := o } (st [b "z"])).2 = .done (.ok (b ":1\r\n"))) ∧
    (∀ o, o < 6 → ((handleSInter 2 { db := 0, now := 1000, order := o } [b "sintercard", b "ta", b "tb", b "tc", b "limit", b "5"]).run
        { db := 0, now := 1000, order := o } (st [b "z"])).2 = .done (.ok (b ":1\r\n"))) := by decide

/-- repaired upstream (was the witness of class `sinterstore-absent-operand-keeps-destination`, where the old
    destination stayed in place): SINTERSTORE d a missing answers 0 and leaves the empty set at `d`, `a` untouched;
    and with a string among the operands it fails whichever operand comes first, changing nothing -/
theorem sinterstore_absent_operand_replay :
    let c : Ctx := { db := 0, now := 1000 }
    let s : State := { dbs := [(0, ⟨[(b "a", ⟨.set 0 [b "x"], none⟩), (b "d", ⟨.set 0 [b "old"], none⟩), (b "t", ⟨.str (b "v"), none⟩)], []⟩)], mem := 0 }
    let r := (handleSInter 1 c [b "sinterstore", b "d", b "a", b "missing"]).run c s
    r.2 = .done (.ok (b ":0\r\n")) ∧ r.1.lookup 0 (b "d") = some ⟨.set 0 [], none⟩ ∧
    r.1.lookup 0 (b "a") = some ⟨.set 0 [b "x"], none⟩ ∧
    (∀ o, o < 6 → (handleSInter 1 { db := 0, now := 1000, order := o } [b "sinterstore", b "d", b "missing", b "t", b "a"]).run
        { db := 0, now := 1000, order := o } s = (s, .done (.err (b "value at key t is not a set")))) := by decide

/-- repaired upstream (was the witness of class `sunion-absent-key-rejected`, where the command failed): an absent
    key contributes nothing to SUNION, in either position; SUNION of absent keys only is the empty array -/
theorem sunion_absent_key_replay :
    let c : Ctx := { db := 0, now := 1000 }
    let s : State := { dbs := [(0, ⟨[(b "a", ⟨.set 0 [b "x"], none⟩)], []⟩)], mem := 0 }
    (handleSUnion false c [b "sunion", b "a", b "missing"]).run c s = (s, .done (.okPerm (b "*1\r\n") [b "$1\r\nx\r\n"])) ∧
    (handleSUnion false c [b "sunion", b "missing", b "a"]).run c s = (s, .done (.okPerm (b "*1\r\n") [b "$1\r\nx\r\n"])) ∧
    (handleSUnion false c [b "sunion", b "missing", b "gone"]).run c s = (s, .done (.okPerm (b "*0\r\n") [])) := by decide

/-- repaired upstream (was the witness of class `sunion-mutates-operand`, where key `a` was left holding the
    union): SUNION a c answers both members and the state afterwards is the state before, whatever `Ctx.order` -/
theorem sunion_leaves_operands_replay :
    let s : State := { dbs := [(0, ⟨[(b "a", ⟨.set 0 [b "x"], none⟩), (b "c", ⟨.set 0 [b "y"], none⟩)], []⟩)], mem := 0 }
    ∀ o, o < 4 → (handleSUnion false { db := 0, now := 1000, order := o } [b "sunion", b "a", b "c"]).run { db := 0, now := 1000, order := o } s =
      (s, .done (.okPerm (b "*2\r\n") [b "$1\r\nx\r\n", b "$1\r\ny\r\n"])) := by decide

/-- class `srandmember-negative-count-capped`: SRANDMEMBER k -5 on a two-member set returns just the two
    members instead of five picks with repetition -/
theorem srandmember_negative_count_capped_witness :
    let c : Ctx := { db := 0, now := 1000 }
    let s : State := { dbs := [(0, ⟨[(b "k", ⟨.set 0 [b "a", b "b"], none⟩)], []⟩)], mem := 0 }
    (handleSRandMember c [b "srandmember", b "k", b "-5"]).run c s =
      (s, .done (.okPerm (b "*2\r\n") [b "$1\r\na\r\n", b "$1\r\nb\r\n"])) := by decide

/-- class `expired-key-still-exists`: a set whose deadline has passed still "exists" but reads as nil, so
    SCARD and SADD answer a type error instead of 0 / creating the set -/
theorem stale_key_witness :
    let c : Ctx := { db := 0, now := 2000 }
    let s : State := { dbs := [(0, ⟨[(b "k", ⟨.set 0 [b "a"], some 1500⟩)], [b "k"]⟩)], mem := 0 }
    ((handleSCard c [b "scard", b "k"]).run c s).2 = .done (.err (b "value at key k is not a set")) ∧
    ((handleSAdd c [b "sadd", b "k", b "x"]).run c s).2 = .done (.err (b "value at key k is not a set")) := by decide

/-- repaired upstream (was the witness of class `set-object-shared-between-keys`, where SINTERSTORE d a stored the
    very object of `a` under `d` and a later SADD a y showed up in `d`): `d` receives a copy, so SADD a y leaves it
    alone -/
theorem independent_copy_replay :
    let c : Ctx := { db := 0, now := 1000 }
    let s : State := { dbs := [(0, ⟨[(b "a", ⟨.set 0 [b "x"], none⟩)], []⟩)], mem := 0 }
    let s1 := ((handleSInter 1 c [b "sinterstore", b "d", b "a"]).run c s).1
    let s2 := ((handleSAdd c [b "sadd", b "a", b "y"]).run c s1).1
    s1.lookup 0 (b "d") = some ⟨.set 0 [b "x"], none⟩ ∧
    ((handleSIsMember c [b "sismember", b "d", b "y"]).run c s2).2 = .done (.ok (b ":0\r\n")) ∧
    ((handleSIsMember c [b "sismember", b "a", b "y"]).run c s2).2 = .done (.ok (b ":1\r\n")) := by decide

/-- repaired upstream (was the witness of class `sunionstore-destination-aliases-source`, where `a` and `d` ended up
    holding one and the same mutated object): after SUNIONSTORE d a c the operands hold what they held and `d` holds
    a separate, unshared object with the union -/
theorem sunionstore_fresh_object_replay :
    let c : Ctx := { db := 0, now := 1000 }
    let s : State := { dbs := [(0, ⟨[(b "a", ⟨.set 0 [b "x"], none⟩), (b "c", ⟨.set 0 [b "y"], none⟩)], []⟩)], mem := 0 }
    let s1 := ((handleSUnion true c [b "sunionstore", b "d", b "a", b "c"]).run c s).1
    s1.lookup 0 (b "a") = some ⟨.set 0 [b "x"], none⟩ ∧ s1.lookup 0 (b "c") = some ⟨.set 0 [b "y"], none⟩ ∧
    s1.lookup 0 (b "d") = some ⟨.set 0 [b "x", b "y"], none⟩ := by decide
/-! ### non-vacuity: every conditional law above instantiated on a concrete state -/

/-- database 0 at time 1000: `k` = {a,b,c} without deadline, `j` = {b,d} with a deadline still ahead,
    `t` a string, `z` absent -/
def c0 : Ctx := { db := 0, now := 1000 }
/-- the concrete state of the instantiations below -/
def s0 : State :=
  { dbs := [(0, ⟨[(b "k", ⟨.set 0 [b "a", b "b", b "c"], none⟩), (b "j", ⟨.set 0 [b "b", b "d"], some 2000⟩),
                  (b "t", ⟨.str (b "v"), none⟩)], [b "j"]⟩)], mem := 0 }

/-- canonical integer texts are read as integers -/
theorem adapt_two : adaptType (b "2") = .int 2 ∧ adaptType (b "-2") = .int (-2) ∧ adaptType (b "7") = .int 7 := by decide
/-- the concrete key names are ASCII and are not the LIMIT keyword -/
theorem plain_k : PlainKey (b "k") ∧ PlainKey (b "j") ∧ PlainKey (b "z") := by
  refine ⟨⟨?_, ?_⟩, ⟨?_, ?_⟩, ⟨?_, ?_⟩⟩ <;> decide

example := sadd_existing c0 s0 (b "k") [b "a", b "b", b "c"] [b "c", b "d"] none (by decide) (by decide) (by decide)
example := sadd_existing_set_semantics c0 s0 (b "k") [b "a", b "b", b "c"] [b "c", b "d"] none
  (by decide) (by decide) (by decide) (by decide)
example := sadd_new_key c0 s0 (b "z") [b "a", b "a", b "b"] (by decide) (by decide) (by decide)
example := sadd_new_key_set_semantics c0 s0 (b "z") [b "a", b "a"] (by decide) (by decide) (by decide)
example := sadd_new_key_distinct c0 s0 (b "z") [b "a", b "b"] (by decide) (by decide) (by decide) (by decide)
example := sadd_reply_counts_added c0 s0 (b "z") [] [b "a", b "a"] (by decide) (by decide) (by decide) (Or.inl ⟨by decide, rfl⟩)
example := sadd_reply_counts_added c0 s0 (b "k") [b "a", b "b", b "c"] [b "c", b "d", b "d"] (by decide) (by decide) (by decide)
  (Or.inr ⟨none, by decide, by decide⟩)
example := srem_existing c0 s0 (b "k") [b "a", b "b", b "c"] [b "c", b "d"] none (by decide) (by decide) (by decide)
example := srem_existing_set_semantics c0 s0 (b "j") [b "b", b "d"] [b "d"] (some 2000)
  (by decide) (by decide) (by decide) (by decide)
example := srem_absent c0 s0 (b "z") [b "a"] (by decide) (by decide)
example := sismember_reports c0 s0 (b "k") (b "a") [b "a", b "b", b "c"] none (by decide) (by decide)
example := sismember_absent c0 s0 (b "z") (b "a") (by decide)
example := smismember_reports c0 s0 (b "k") [b "a", b "b", b "c"] [b "a", b "x"] none (by decide) (by decide) (by decide)
example := smismember_absent c0 s0 (b "z") [b "a", b "x"] (by decide) (by decide)
example := scard_reports c0 s0 (b "j") [b "b", b "d"] (some 2000) (by decide) (by decide)
example := scard_absent c0 s0 (b "z") (by decide)
example := smembers_reports c0 s0 (b "k") [b "a", b "b", b "c"] none (by decide) (by decide)
example := spop_srandmember_zero_count c0 s0 (b "k") (b "0") [b "a", b "b", b "c"] none (by decide) (by decide) (by decide)
example := smembers_absent c0 s0 (b "z") (by decide)
example := sismember_after_sadd c0 s0 (b "k") (b "d") [b "a", b "b", b "c"] [b "c", b "d"] none
  (by decide) (by decide) (by decide)
example := sismember_after_sadd_new c0 s0 (b "z") (b "a") [b "a", b "a"] (by decide) (by decide) (by decide)
example := sismember_after_srem c0 s0 (b "k") (b "a") [b "a", b "b", b "c"] [b "a"] none
  (by decide) (by decide) (by decide) (by decide)
example := scard_after_sadd c0 s0 (b "k") [b "a", b "b", b "c"] [b "c", b "d"] none (by decide) (by decide) (by decide)
example := scard_after_srem c0 s0 (b "k") [b "a", b "b", b "c"] [b "c", b "d"] none (by decide) (by decide) (by decide)
example := sdiff_two c0 s0 (b "k") (b "j") [b "a", b "b", b "c"] [b "b", b "d"] none (some 2000)
  (by decide) (by decide) (by decide) (by decide)
example := sdiff_other_absent c0 s0 (b "k") (b "z") [b "a", b "b", b "c"] none (by decide) (by decide) (by decide)
example := sdiff_base_absent c0 s0 (b "z") (b "k") (by decide)
example := sdiffstore_two c0 s0 (b "z") (b "k") (b "j") [b "a", b "b", b "c"] [b "b", b "d"] none (some 2000)
  (by decide) (by decide) (by decide) (by decide) (by decide)
example := sinter_two c0 s0 (b "k") (b "j") [b "a", b "b", b "c"] [b "b", b "d"] none (some 2000)
  (by decide) (by decide) (by decide) (by decide) (by decide)
example := sinter_absent_operand c0 s0 (b "k") (b "z") [b "a", b "b", b "c"] none (by decide) (by decide) (by decide)
example := sinterstore_two c0 s0 (b "z") (b "k") (b "j") [b "a", b "b", b "c"] [b "b", b "d"] none (some 2000)
  (by decide) (by decide) (by decide) (by decide) (by decide) (by decide)
example := sintercard_two c0 s0 (b "k") (b "j") [b "a", b "b", b "c"] [b "b", b "d"] none (some 2000)
  (by decide) plain_k.1 plain_k.2.1 (by decide) (by decide) (by decide) (by decide)
example := sintercard_single_limit c0 s0 (b "k") (b "2") 2 [b "a", b "b", b "c"] none plain_k.1 (by decide) adapt_two.1 (by decide)
  (by decide) (by decide)
example := sintercard_tail 1 [(0, [b "p", b "q"]), (0, [b "q", b "t"]), (0, [b "q", b "s"])] (by decide)
example := sintercard_many_limit c0
  { dbs := [(0, ⟨[(b "ta", ⟨.set 0 [b "p", b "q", b "z"], none⟩), (b "tb", ⟨.set 0 [b "q", b "t", b "z"], none⟩),
                  (b "tc", ⟨.set 0 [b "q", b "s", b "z"], some 2000⟩)], []⟩)], mem := 0 }
  [b "ta", b "tb", b "tc"]
  (fun k => if k == b "ta" then [b "p", b "q", b "z"] else if k == b "tb" then [b "q", b "t", b "z"] else [b "q", b "s", b "z"])
  (b "1") 1 (by decide) (by decide)
  (fun k hk => by
    simp only [List.mem_cons, List.not_mem_nil, or_false] at hk
    rcases hk with rfl | rfl | rfl <;> exact ⟨by decide, by decide⟩)
  (by decide) (by decide)
  (fun k hk => by
    simp only [List.mem_cons, List.not_mem_nil, or_false] at hk
    rcases hk with rfl | rfl | rfl
    · exact ⟨none, by decide, by decide⟩
    · exact ⟨none, by decide, by decide⟩
    · exact ⟨some 2000, by decide, by decide⟩)
example := sintercard_two_limit c0 s0 (b "k") (b "j") (b "2") 2 [b "a", b "b", b "c"] [b "b", b "d"] none (some 2000)
  (by decide) plain_k.1 plain_k.2.1 (by decide) adapt_two.1 (by decide) (by decide) (by decide) (by decide) (by decide)
example := sintercard_absent_operand c0 s0 (b "k") (b "z") [b "a", b "b", b "c"] none plain_k.1 plain_k.2.2
  (by decide) (by decide) (by decide)
example := sunion_single c0 s0 (b "k") [b "a", b "b", b "c"] none (by decide) (by decide) (by decide)
example := sunion_two c0 s0 (b "k") (b "j") [b "a", b "b", b "c"] [b "b", b "d"] none (some 2000)
  (by decide) (by decide) (by decide) (by decide) (by decide)
example := sunion_absent_operand c0 s0 (b "k") (b "z") [b "a", b "b", b "c"] none (by decide) (by decide) (by decide)
example := sunion_all_absent c0 s0 (b "z") (by decide)
example := smove_moves c0 s0 (b "k") (b "j") (b "a") [b "a", b "b", b "c"] [b "b", b "d"] none (some 2000)
  (by decide) (by decide) (by decide) (by decide) (by decide) (by decide)
example := smove_set_semantics c0 s0 (b "k") (b "j") (b "a") [b "a", b "b", b "c"] [b "b", b "d"] none (some 2000)
  (by decide) (by decide) (by decide) (by decide) (by decide) (by decide) (by decide) (by decide)
example := smove_not_member c0 s0 (b "k") (b "j") (b "x") [b "a", b "b", b "c"] [b "b", b "d"] none (some 2000)
  (by decide) (by decide) (by decide) (by decide) (by decide)
example := smove_absent_source c0 s0 (b "z") (b "j") (b "x") (by decide)
example := spop_core_some c0 s0 (b "k") [b "2"] [b "a", b "b", b "c"] 2 none (by decide)
  (countArg_int _ _ _ _ adapt_two.1) (by decide) (by decide) (by decide) (by decide)
example := spop_core_all c0 s0 (b "k") [b "7"] [b "a", b "b", b "c"] 7 none (by decide)
  (countArg_int _ _ _ _ adapt_two.2.2) (by decide) (by decide) (by decide) (by decide)
example := spop_count c0 s0 (b "k") (b "-2") [b "a", b "b", b "c"] (-2) none adapt_two.2.1
  (by decide) (by decide) (by decide) (by decide) (by decide)
example := spop_one c0 s0 (b "k") [b "a", b "b", b "c"] none (by decide) (by decide) (by decide) (by decide)
example := spop_count_all c0 s0 (b "k") (b "7") [b "a", b "b", b "c"] 7 none adapt_two.2.2
  (by decide) (by decide) (by decide) (by decide)
example := srandmember_count c0 s0 (b "k") (b "-2") [b "a", b "b", b "c"] (-2) none adapt_two.2.1
  (by decide) (by decide) (by decide) (by decide)
example := srandmember_one c0 s0 (b "k") [b "a", b "b", b "c"] none (by decide) (by decide) (by decide)
example := srandmember_count_all c0 s0 (b "k") (b "7") [b "a", b "b", b "c"] 7 none adapt_two.2.2
  (by decide) (by decide) (by decide) (by decide)
example := spop_srandmember_absent c0 s0 (b "z") (by decide)
example := wrongtype_no_change c0 s0 (b "t") (b "a") (.str (b "v")) none (by decide) (by decide) (by decide)
example := (smove_wrongtype c0 s0 (b "t") (b "z") (b "a") (.str (b "v")) [] none none (by decide)).1
  (by decide) (by decide) (by decide)
example := (smove_wrongtype c0 s0 (b "k") (b "t") (b "a") (.str (b "v")) [b "a", b "b", b "c"] none none (by decide)).2
  (by decide) (by decide) (by decide) (by decide)

/-- in the concrete state `j` holds a live set and `z` is absent -/
theorem operands_ok : ∀ k, k ∈ [b "j", b "z"] → SetOrAbsent c0 s0 k := by
  intro k hk
  simp only [List.mem_cons, List.not_mem_nil, or_false] at hk
  rcases hk with rfl | rfl
  · exact Or.inr ⟨[b "b", b "d"], some 2000, by decide, by decide⟩
  · exact Or.inl (by decide)

/-- in the concrete state `k` and `j` hold live sets and `z` is absent -/
theorem operands_all_ok : ∀ k, k ∈ [b "k", b "j", b "z", b "k"] → SetOrAbsent c0 s0 k := by
  intro k hk
  simp only [List.mem_cons, List.not_mem_nil, or_false] at hk
  rcases hk with rfl | rfl | rfl | rfl
  · exact Or.inr ⟨[b "a", b "b", b "c"], none, by decide, by decide⟩
  · exact Or.inr ⟨[b "b", b "d"], some 2000, by decide, by decide⟩
  · exact Or.inl (by decide)
  · exact Or.inr ⟨[b "a", b "b", b "c"], none, by decide, by decide⟩

/-- in the concrete state neither `z` (absent) nor `j` (deadline ahead) is stale -/
theorem not_stale_z : NotStale c0 s0 (b "z") ∧ NotStale c0 s0 (b "j") := by
  constructor
  · intro e h
    have h' : s0.lookup c0.db (b "z") = none := by decide
    rw [h'] at h; cases h
  · intro e h
    have : e = ⟨.set 0 [b "b", b "d"], some 2000⟩ := by
      have h' : s0.lookup c0.db (b "j") = some ⟨.set 0 [b "b", b "d"], some 2000⟩ := by decide
      rw [h'] at h; exact (Option.some.inj h).symm
    subst this; decide

example := sdiff_many c0 s0 (b "k") [b "j", b "z"] [b "a", b "b", b "c"] none (by decide) (by decide) operands_ok
example := sdiffstore_many c0 s0 (b "z") (b "k") [b "j", b "z"] [b "a", b "b", b "c"] none (by decide) (by decide) (by decide) operands_ok
example := sinter_single c0 s0 (b "k") [b "a", b "b", b "c"] none (by decide) (by decide)
example := sunionstore_two c0 s0 (b "z") (b "k") (b "j") [b "a", b "b", b "c"] [b "b", b "d"] none (some 2000)
  (by decide) (by decide) (by decide) (by decide) (by decide) (by decide)
example := sunion_many c0 s0 [b "k", b "j", b "z", b "k"] (by decide) operands_all_ok
example := sunionstore_many c0 s0 (b "k") [b "k", b "j", b "z", b "k"] (by decide) (by decide) operands_all_ok
example := sinterstore_many c0 s0 (b "z") [b "k", b "j", b "k"] (by decide) (by decide) (fun k hk => operands_all_ok k (by
  simp only [List.mem_cons, List.not_mem_nil, or_false] at hk ⊢; rcases hk with rfl | rfl | rfl <;> simp))
example := sinterstore_many c0 s0 (b "j") [b "k", b "z"] (by decide) (by decide) (fun k hk => operands_all_ok k (by
  simp only [List.mem_cons, List.not_mem_nil, or_false] at hk ⊢; rcases hk with rfl | rfl <;> simp))
example := read_after_sunionstore c0 s0 (b "z") (b "k") (b "j") (b "d") [b "a", b "b", b "c"] [b "b", b "d"] none (some 2000)
  (by decide) not_stale_z.1 (by decide) (by decide) (by decide) (by decide) (by decide)
example := stored_copy_independent_of_source c0 s0 (b "z") (b "k") [b "a", b "b", b "c"] [b "q"] none (by decide) (by decide) (by decide)
  (by decide) (by decide)
example := sinterstore_single_copies c0 s0 (b "z") (b "k") [b "a", b "b", b "c"] none (by decide) (by decide) (by decide)
example := sinterstore_absent_operand c0 s0 (b "j") (b "k") (b "z") [b "a", b "b", b "c"] none (by decide) (by decide) (by decide) (by decide)
example := sinterstore_wrongtype_beats_absent c0 s0 (b "j") (b "z") (b "t") (.str (b "v")) none (by decide) (by decide) (by decide) (by decide)
example := smove_same_key c0 s0 (b "k") (b "a") [b "a", b "b", b "c"] none (by decide) (by decide) (by decide) (by decide)
example := sismember_after_smove c0 s0 (b "k") (b "j") (b "a") [b "a", b "b", b "c"] [b "b", b "d"] none (some 2000)
  (by decide) (by decide) (by decide) (by decide) (by decide) (by decide) (by decide)
example := read_after_sdiffstore c0 s0 (b "z") (b "k") (b "j") (b "a") [b "a", b "b", b "c"] [b "b", b "d"] none (some 2000)
  (by decide) not_stale_z.1 (by decide) (by decide) (by decide) (by decide)
example := read_after_sinterstore c0 s0 (b "j") (b "k") (b "j") (b "b") [b "a", b "b", b "c"] [b "b", b "d"] none (some 2000)
  (by decide) not_stale_z.2 (by decide) (by decide) (by decide) (by decide) (by decide)

example := sintercard_single c0 s0 (b "k") [b "a", b "b", b "c"] none plain_k.1 (by decide) (by decide)
example := read_after_spop c0 s0 (b "k") (b "2") [b "a", b "b", b "c"] 2 none adapt_two.1
  (by decide) (by decide) (by decide) (by decide) (by decide)
example := smove_absent_destination c0 s0 (b "k") (b "z") (b "a") [b "a", b "b", b "c"] none (by decide) (by decide) (by decide)

/-! ### any sequence of SADD / SREM on one key refines the reference mathematical set -/

/-- the membership-changing commands on one key (at least one element each) -/
inductive SOp where
  | sadd (e : Bytes) (es : List Bytes)
  | srem (e : Bytes) (es : List Bytes)

/-- the command the client sends -/
def SOp.prog (c : Ctx) (k : Bytes) : SOp → Prog Res
  | .sadd e es => handleSAdd c (b "sadd" :: k :: e :: es)
  | .srem e es => handleSRem c (b "srem" :: k :: e :: es)

/-- the member list the model computes -/
def SOp.apply (ms : List Bytes) : SOp → List Bytes
  | .sadd e es => (setAdd ms (e :: es)).1
  | .srem e es => (setRemove ms (e :: es)).1

/-- reference semantics on a mathematical set, given by its membership predicate -/
def SOp.refMem (P : Bytes → Prop) : SOp → Bytes → Prop
  | .sadd e es => fun x => P x ∨ x ∈ e :: es
  | .srem e es => fun x => P x ∧ x ∉ e :: es

/-- reference reply: the change of cardinality (members genuinely added / genuinely removed) -/
def SOp.refReply (ms : List Bytes) (op : SOp) : Bytes :=
  match op with
  | .sadd _ _ => intReply ((op.apply ms).length - ms.length : Nat)
  | .srem _ _ => intReply (ms.length - (op.apply ms).length : Nat)

/-- the server: commands back to back -/
def runOps (c : Ctx) (k : Bytes) : List SOp → State → State × List (Outcome Res)
  | [], s => (s, [])
  | op :: r, s => ((runOps c k r ((op.prog c k).run c s).1).1,
                   ((op.prog c k).run c s).2 :: (runOps c k r ((op.prog c k).run c s).1).2)

/-- the reference: the membership predicate after the sequence -/
def refMems : List SOp → (Bytes → Prop) → Bytes → Prop
  | [], P => P
  | op :: r, P => refMems r (op.refMem P)

/-- the member lists along the run and the reference replies -/
def refOps : List SOp → List Bytes → List Bytes × List (Outcome Res)
  | [], ms => (ms, [])
  | op :: r, ms => ((refOps r (op.apply ms)).1, .done (.ok (op.refReply ms)) :: (refOps r (op.apply ms)).2)

theorem refMems_congr (ops : List SOp) : ∀ (P Q : Bytes → Prop), (∀ x, P x ↔ Q x) → ∀ x, refMems ops P x ↔ refMems ops Q x := by
  induction ops with
  | nil => intro P Q h x; exact h x
  | cons op r ih =>
    intro P Q h x
    apply ih
    intro y
    cases op <;> simp [SOp.refMem, h y]

/-- one step: reply = change of cardinality, members = reference members, duplicate-freeness kept -/
theorem sop_step (op : SOp) (c : Ctx) (s : State) (k : Bytes) (ms : List Bytes) (ex : Option Int)
    (h : s.lookup c.db k = some ⟨.set 0 ms, ex⟩) (hlive : (⟨.set 0 ms, ex⟩ : Entry).expired c.now = false)
    (hnd : ms.Nodup) :
    ((op.prog c k).run c s).2 = .done (.ok (op.refReply ms)) ∧
    ((op.prog c k).run c s).1.lookup c.db k = some ⟨.set 0 (op.apply ms), ex⟩ ∧
    (∀ k2, k ≠ k2 → ((op.prog c k).run c s).1.lookup c.db k2 = s.lookup c.db k2) ∧
    (op.apply ms).Nodup ∧ ∀ x, x ∈ op.apply ms ↔ op.refMem (· ∈ ms) x := by
  cases op with
  | sadd e es =>
    obtain ⟨s', h1, h2, h3⟩ := sadd_existing c s k ms (e :: es) ex h hlive (by simp)
    have hl := length_setAdd ms (e :: es)
    refine ⟨?_, ?_, ?_, nodup_setAdd ms (e :: es) hnd, fun x => mem_setAdd ms (e :: es) x⟩
    · simp only [SOp.prog, h1, SOp.refReply, SOp.apply]
      have : (setAdd ms (e :: es)).1.length - ms.length = (setAdd ms (e :: es)).2 := by omega
      rw [this]
    · simp only [SOp.prog, h1]; exact h2
    · simp only [SOp.prog, h1]; exact h3
  | srem e es =>
    obtain ⟨s', h1, h2, h3⟩ := srem_existing c s k ms (e :: es) ex h hlive (by simp)
    have hl := length_setRemove ms (e :: es)
    refine ⟨?_, ?_, ?_, nodup_setRemove ms (e :: es) hnd, fun x => mem_setRemove ms (e :: es) hnd x⟩
    · simp only [SOp.prog, h1, SOp.refReply, SOp.apply]
      have : ms.length - (setRemove ms (e :: es)).1.length = (setRemove ms (e :: es)).2 := by omega
      rw [this]
    · simp only [SOp.prog, h1]; exact h2
    · simp only [SOp.prog, h1]; exact h3

/-- **For any sequence of SADD / SREM commands on a live, duplicate-free, unshared set, every reply is the
    change of cardinality, and the key finally holds a duplicate-free member list whose members are exactly
    those of the reference mathematical set; other keys are untouched.** -/
theorem set_sequence_refines (c : Ctx) (k : Bytes) (ex : Option Int) :
    ∀ (ops : List SOp) (s : State) (ms : List Bytes),
      s.lookup c.db k = some ⟨.set 0 ms, ex⟩ → (⟨.set 0 ms, ex⟩ : Entry).expired c.now = false → ms.Nodup →
      (runOps c k ops s).2 = (refOps ops ms).2 ∧
      (runOps c k ops s).1.lookup c.db k = some ⟨.set 0 (refOps ops ms).1, ex⟩ ∧
      (∀ k2, k ≠ k2 → (runOps c k ops s).1.lookup c.db k2 = s.lookup c.db k2) ∧
      (refOps ops ms).1.Nodup ∧ ∀ x, x ∈ (refOps ops ms).1 ↔ refMems ops (· ∈ ms) x := by
  intro ops
  induction ops with
  | nil => intro s ms h _ hnd; exact ⟨rfl, h, fun _ _ => rfl, hnd, fun _ => Iff.rfl⟩
  | cons op r ih =>
    intro s ms h hlive hnd
    obtain ⟨h1, h2, h3, h4, h5⟩ := sop_step op c s k ms ex h hlive hnd
    obtain ⟨i1, i2, i3, i4, i5⟩ := ih ((op.prog c k).run c s).1 (op.apply ms) h2 hlive h4
    refine ⟨?_, i2, fun k2 hne => by simp only [runOps]; rw [i3 k2 hne, h3 k2 hne], i4, fun x => ?_⟩
    · simp only [runOps, refOps, h1, i1]
    · simp only [refOps, refMems]
      rw [i5 x]
      exact refMems_congr r _ _ h5 x

/-- reads after any such sequence report the reference set: SCARD its size, SISMEMBER its membership -/
theorem reads_after_set_sequence (c : Ctx) (k m : Bytes) (ex : Option Int) (ops : List SOp) (s : State) (ms : List Bytes)
    (h : s.lookup c.db k = some ⟨.set 0 ms, ex⟩) (hlive : (⟨.set 0 ms, ex⟩ : Entry).expired c.now = false)
    (hnd : ms.Nodup) :
    ((handleSCard c [b "scard", k]).run c (runOps c k ops s).1).2 = .done (.ok (intReply (refOps ops ms).1.length)) ∧
    ∃ r : Int, ((handleSIsMember c [b "sismember", k, m]).run c (runOps c k ops s).1).2 = .done (.ok (intReply r)) ∧
      (r = 1 ↔ refMems ops (· ∈ ms) m) ∧ (r = 0 ↔ ¬ refMems ops (· ∈ ms) m) := by
  obtain ⟨_, h2, _, _, h5⟩ := set_sequence_refines c k ex ops s ms h hlive hnd
  refine ⟨by rw [scard_reports c _ k _ ex h2 hlive], ?_⟩
  rw [sismember_reports c _ k m _ ex h2 hlive]
  by_cases hmem : m ∈ (refOps ops ms).1
  · exact ⟨1, by simp [hmem], by simp [← h5 m, hmem], by simp [← h5 m, hmem]⟩
  · exact ⟨0, by simp [hmem], by simp [← h5 m, hmem], by simp [← h5 m, hmem]⟩

example := set_sequence_refines c0 (b "k") none [.sadd (b "x") [b "a"], .srem (b "b") [b "zz"], .sadd (b "b") []] s0
  [b "a", b "b", b "c"] (by decide) (by decide) (by decide)
example := reads_after_set_sequence c0 (b "k") (b "x") none [.sadd (b "x") [b "a"], .srem (b "b") [b "zz"]] s0
  [b "a", b "b", b "c"] (by decide) (by decide) (by decide)
/-- what that reference run answers: 1 new member, 1 removed, 1 new member -/
example : (refOps [.sadd (b "x") [b "a"], .srem (b "b") [b "zz"], .sadd (b "b") []] [b "a", b "b", b "c"]).2
    = [.done (.ok (b ":1\r\n")), .done (.ok (b ":1\r\n")), .done (.ok (b ":1\r\n"))] := by decide

end Sugar.Props.C16
