/-
  Props.C02 — append-only log: what was appended is read back record for record, a crash at any byte
  of the record being appended recovers exactly the complete records before it, and what the replay
  does with the records (database index ignored, everything on database 0, relative deadlines
  re-based). Witnesses of the inputs on which the full durability statement fails (each one a class
  of Known.lean). Helper lemmas live in Lemmas/PersistLemmas.lean.
-/
import SugarModel.Lemmas.PersistLemmas
import SugarModel.Lemmas.ReplayLemmas
import SugarModel.Spec.Durable
import SugarModel.Props.C20
namespace Sugar.Props.C02
open Sugar Sugar.Persist

/-! ### the log format and its reader -/

/-- **A bulk string is read back byte for byte**, whatever its payload (CR, LF, NUL, `$`, `*`
    included) and whatever follows it in the file. -/
theorem bulk_roundtrip (s rest : Bytes) : Wire.parseBulk (bulkStr s ++ rest) = some (s, rest) :=
  parseBulk_bulkStr s rest

/-- **A record is read back argument for argument**: every argument vector (any number of
    arguments, any bytes, the empty vector included), followed by any bytes, parses to exactly that
    vector and leaves exactly those bytes. -/
theorem record_roundtrip (cmd : List Bytes) (rest : Bytes) :
    Wire.parseCommand (encodeCmd cmd ++ rest) = some (cmd, rest) :=
  parseCommand_encodeCmd cmd rest

/-- **What was appended is read back, record for record**: a log that is the concatenation of the
    records of any command sequence is read as exactly that sequence, with nothing left over. -/
theorem log_roundtrip (cs : List (List Bytes)) (f : Nat) (hf : cs.length ≤ f) :
    parseLogItems f ((cs.map encodeCmd).flatten) = (cs.map .cmd, []) := by
  obtain ⟨g, rfl⟩ : ∃ g, f = cs.length + g := ⟨f - cs.length, by omega⟩
  have h := parseLogItems_records cs g []
  simp only [List.append_nil] at h
  rw [h]
  cases g <;> simp [parseLogItems]

/-- the same on commands: `parseLog` returns the appended sequence -/
theorem log_roundtrip_commands (cs : List (List Bytes)) (f : Nat) (hf : cs.length ≤ f) :
    parseLog f ((cs.map encodeCmd).flatten) = (cs, []) := by
  exact parseLog_of_items f _ [] cs (log_roundtrip cs f hf)

/-- **A torn record is never replayed**: no proper prefix of a record is a complete command. -/
theorem torn_record_not_replayed (c : List Bytes) (t u : Bytes) (h : t ++ u = encodeCmd c) (hu : u ≠ []) :
    Wire.parseCommand t = none :=
  parseCommand_torn c t u h hu

/-- **A crash at any byte offset of the record being appended recovers exactly the complete records
    before it** (item level: the torn tail yields no item at all — in particular no `.foreign` item,
    so the replay is inside the model — and is left unread). -/
theorem crash_image_items (cs : List (List Bytes)) (c : List Bytes) (t u : Bytes) (f : Nat)
    (h : t ++ u = encodeCmd c) (hu : u ≠ []) (hf : cs.length ≤ f) :
    parseLogItems f ((cs.map encodeCmd).flatten ++ t) = (cs.map .cmd, t) := by
  obtain ⟨g, rfl⟩ : ∃ g, f = cs.length + g := ⟨f - cs.length, by omega⟩
  rw [parseLogItems_records cs g t, parseLogItems_torn g c t u h hu]
  simp

/-- **The crash image is a prefix of the write sequence**: the commands recovered from
    `records(cs) ++ (torn prefix of the next record)` are exactly `cs`. -/
theorem crash_image_is_prefix (cs : List (List Bytes)) (c : List Bytes) (t u : Bytes) (f : Nat)
    (h : t ++ u = encodeCmd c) (hu : u ≠ []) (hf : cs.length ≤ f) :
    (parseLog f ((cs.map encodeCmd).flatten ++ t)).1 = cs := by
  rw [parseLog_of_items f _ t cs (crash_image_items cs c t u f h hu hf)]

/-- the fuel `restore` uses (length of the log + 1) is enough for every log made of records -/
theorem restore_fuel_suffices (cs : List (List Bytes)) (t : Bytes) :
    cs.length ≤ ((cs.map encodeCmd).flatten ++ t).length + 1 := by
  induction cs with
  | nil => simp
  | cons c r ih =>
    simp only [List.map_cons, List.flatten_cons, List.append_assoc, List.length_append, List.length_cons] at ih ⊢
    have : 0 < (encodeCmd c).length := by rw [encodeCmd_eq_cons]; simp
    omega

/-! ### the SELECT marker -/

/-- **The database marker is readable for every index**: the marker is the record `SELECT db`, read
    back completely whatever follows it — negative indices (the store's initial -1) and indices ≥ 10
    included (the fixed `$1` length prefix that hid everything after such a marker was repaired
    upstream; the former `unreadable_marker_hides_log` statements are gone). -/
theorem select_marker_readable (db : Int) (rest : Bytes) :
    Wire.parseCommand (selectMarker db ++ rest) = some ([b "SELECT", fmtInt db], rest) :=
  parseCommand_selectMarker db rest

/-- a marker never hides the log behind it: marker (any index) followed by the records of any command
    sequence is read back as SELECT followed by that sequence -/
theorem marker_then_records_roundtrip (db : Int) (cs : List (List Bytes)) (f : Nat) (hf : cs.length < f) :
    (parseLog f (selectMarker db ++ (cs.map encodeCmd).flatten)).1 = [b "SELECT", fmtInt db] :: cs := by
  rw [selectMarker_eq_record]
  have h := log_roundtrip_commands ([b "SELECT", fmtInt db] :: cs) f (by simp; omega)
  simp only [List.map_cons, List.flatten_cons] at h
  rw [h]

/-- the markers of database 10 and of the initial index -1, followed by a record: both are read -/
theorem marker_readable_witness :
    (parseLog 100 (selectMarker 10 ++ encodeCmd [b "SET", b "k", b "v"])).1 = [[b "SELECT", b "10"], [b "SET", b "k", b "v"]] ∧
    (parseLog 100 (selectMarker (-1) ++ encodeCmd [b "SET", b "k", b "v"])).1 = [[b "SELECT", b "-1"], [b "SET", b "k", b "v"]] := by
  decide +kernel

/-- **What `Store.Write` appends is read back**: a record written under any database index `db` —
    preceded by the marker when `db` differs from the store's current index, alone otherwise — is
    read back as the SELECT record (if any) and the command, with nothing left over. -/
theorem append_is_read_back (cur : Int) (db : Nat) (c : List Bytes) (f : Nat) :
    parseLogItems (f + 2) (logAppend cur db (encodeCmd c)).1 =
      (if (db : Int) != cur then [.cmd [b "SELECT", fmtInt db], .cmd c] else [.cmd c], []) := by
  unfold logAppend
  split
  · rw [selectMarker_eq_record db]
    have h := parseLogItems_records [[b "SELECT", fmtInt db], c] f []
    simp only [List.map_cons, List.map_nil, List.flatten_cons, List.flatten_nil, List.append_nil,
      List.length_cons, List.length_nil, Nat.zero_add] at h
    rw [Nat.add_comm, h]
    cases f <;> simp [parseLogItems]
  · have h := parseLogItems_records [c] (f + 1) []
    simp only [List.map_cons, List.map_nil, List.flatten_cons, List.flatten_nil, List.append_nil,
      List.length_cons, List.length_nil, Nat.zero_add] at h
    rw [show f + 2 = 1 + (f + 1) by omega, h]
    simp [parseLogItems]

/-! ### the replay -/

/-- **The database index of a SELECT record is never used**: whatever (parsable) index the record
    carries, the replay continues with the same state, and every later record runs exactly as if
    the SELECT record were absent. -/
theorem replay_ignores_select_index (now : Int) (x : Bytes) (i : Int) (rest : List LogItem) (s : State)
    (h : parseInt64 x = some i) :
    replay now (.cmd [b "SELECT", x] :: rest) s = replay now rest s := by
  have h1 : (eqFold (b "SELECT") (b "select") && isAscii (b "SELECT")) = true := by decide
  rw [replay]
  simp only [List.headD_cons, h1, if_true, List.getD_cons_succ, List.getD_cons_zero, h]
  intro hnil; simp at hnil

/-- a SELECT record whose index strconv.Atoi rejects ends the replay: `Restore` returns, the rest of
    the log is not read, and the restore still reports success -/
theorem unparsable_select_ends_replay (now : Int) (x : Bytes) (rest : List LogItem) (s : State)
    (h : parseInt64 x = none) :
    replay now (.cmd [b "SELECT", x] :: rest) s = .ok s := by
  have h1 : (eqFold (b "SELECT") (b "select") && isAscii (b "SELECT")) = true := by decide
  rw [replay]
  simp only [List.headD_cons, h1, if_true, List.getD_cons_succ, List.getD_cons_zero, h]
  intro hnil; simp at hnil

/-- a record is FLUSHALL (the one command that touches every database) -/
def isFlushAll (it : LogItem) : Prop :=
  match it with
  | .cmd c => eqFold (c.headD []) (b "flushall") = true
  | _ => False

/-- **Replay only ever writes database 0**: whatever SELECT records the log contains, if the replay
    completes and no record is FLUSHALL, every database other than 0 is exactly as it was before the
    replay. -/
theorem replay_only_touches_db0 (now : Int) : ∀ (items : List LogItem) (s s' : State),
    (∀ it ∈ items, ¬ isFlushAll it) → replay now items s = .ok s' → ∀ j, j ≠ 0 → s'.db j = s.db j := by
  intro items
  induction items with
  | nil =>
    intro s s' _ h j _
    simp only [replay, Restored.ok.injEq] at h
    rw [h]
  | cons it rest ih =>
    intro s s' hn h j hj
    have hrest : ∀ it ∈ rest, ¬ isFlushAll it := fun x hx => hn x (List.mem_cons_of_mem _ hx)
    cases it with
    | scalar => simp [replay] at h
    | foreign => simp [replay] at h
    | cmd c =>
      cases c with
      | nil => simp [replay] at h
      | cons name args =>
        have hnf : ¬ eqFold ((name :: args).headD []) (b "flushall") = true :=
          hn (.cmd (name :: args)) (List.mem_cons_self)
        rw [replay] at h
        · split at h
          · split at h
            · exact ih s s' hrest h j hj
            · simp only [Restored.ok.injEq] at h; rw [h]
          · split at h
            · simp at h
            · split at h
              · simp at h
              · rename_i s1 _ hstep
                have h1 := ih s1 s' hrest h j hj
                rw [h1]
                exact Sugar.Props.C20.command_isolated _ s _ s1 _ j hj hnf hstep
              · simp at h
              · simp at h
        · intro hnil; simp at hnil

/-- with an empty preamble the restore is the replay of the log items on the empty keyspace -/
theorem restore_empty_preamble (now : Int) (log : Bytes) :
    restore now (some []) log = replay now (parseLogItems (log.length + 1) log).1 { dbs := [], mem := 0 } := rfl

/-- **Databases other than 0 come back empty**: whatever was written under SELECT 1, 2, …, a server
    restored from the log alone (no FLUSHALL record) holds nothing outside database 0. -/
theorem restored_nonzero_databases_stay_empty (now : Int) (log : Bytes) (s' : State)
    (hn : ∀ it ∈ (parseLogItems (log.length + 1) log).1, ¬ isFlushAll it)
    (h : restore now (some []) log = .ok s') (j : Nat) (hj : j ≠ 0) :
    s'.db j = ⟨[], []⟩ := by
  rw [restore_empty_preamble] at h
  exact replay_only_touches_db0 now _ _ s' hn h j hj

/-- **Crash recovery replays exactly the complete records**: restoring from the records of `cs`
    followed by a torn prefix of the record of `c` is the replay of `cs`, nothing else — the recovered
    dataset is the result of a prefix of the executed write sequence. -/
theorem crash_recovery_replays_prefix (now : Int) (cs : List (List Bytes)) (c : List Bytes) (t u : Bytes)
    (h : t ++ u = encodeCmd c) (hu : u ≠ []) :
    restore now (some []) ((cs.map encodeCmd).flatten ++ t) = replay now (cs.map .cmd) { dbs := [], mem := 0 } := by
  rw [restore_empty_preamble, crash_image_items cs c t u _ h hu (restore_fuel_suffices cs t)]

/-- **Acknowledged writes survive restart and crash (string SETs on database 0).** For every sequence
    of `SET key value` commands whose values AdaptType leaves strings, every restart instant `now`
    and every torn tail, the restored server holds under each key exactly the bytes last written to
    it, no deadline, and nothing else in database 0 and nothing in any other database. -/
theorem acknowledged_sets_survive_crash_partial (now : Int) (kvs : List (Bytes × Bytes)) (c : List Bytes) (t u : Bytes)
    (hv : ∀ kv ∈ kvs, adaptType kv.2 = .str kv.2) (h : t ++ u = encodeCmd c) (hu : u ≠ []) :
    ∃ s', restore now (some []) (((kvs.map fun kv => [b "SET", kv.1, kv.2]).map encodeCmd).flatten ++ t) = .ok s' ∧
      ∀ x, s'.lookup 0 x = (lastWrite kvs (fun _ => none) x).map fun v => ⟨.str v, none⟩ := by
  rw [crash_recovery_replays_prefix now _ c t u h hu, List.map_map]
  exact replay_sets now kvs { dbs := [], mem := 0 } (fun _ => none) hv (fun x => rfl)

/-- **A write made under SELECT db is restored into database 0** — the universally quantified
    statement of the defect: for every database db ≥ 1 (up to the int64 range), every key and string value, every
    restart instant, the log written by `SELECT db; SET k v` restores a server that holds `k` in
    database 0 and nothing in database `db`. -/
theorem nonzero_database_write_replayed_into_db0 (now : Int) (cur : Int) (db : Nat) (k v : Bytes)
    (h1 : 1 ≤ db) (h9 : (db : Int) ≤ maxInt64) (hc : (db : Int) ≠ cur) (hv : adaptType v = .str v) :
    ∃ s', restore now (some []) (logAppend cur db (encodeCmd [b "SET", k, v])).1 = .ok s' ∧
      s'.lookup 0 k = some ⟨.str v, none⟩ ∧ s'.lookup db k = none := by
  have hne : ((db : Int) != cur) = true := by simpa using hc
  have hlog : (logAppend cur db (encodeCmd [b "SET", k, v])).1 =
      ([[b "SELECT", fmtInt db], [b "SET", k, v]].map encodeCmd).flatten ++ [] := by
    simp only [logAppend, hne, if_true, selectMarker_eq_record db]
    simp
  obtain ⟨s', hr, hl⟩ := replay_sets now [(k, v)] { dbs := [], mem := 0 } (fun _ => none)
    (by intro kv hkv; simp only [List.mem_singleton] at hkv; subst hkv; exact hv) (fun _ => rfl)
  simp only [List.map_cons, List.map_nil] at hr
  have hres : restore now (some []) (logAppend cur db (encodeCmd [b "SET", k, v])).1 = .ok s' := by
    rw [hlog, crash_recovery_replays_prefix now _ [] [] (encodeCmd []) rfl (by decide)]
    simp only [List.map_cons, List.map_nil]
    rw [replay_ignores_select_index now _ _ _ _ (parseInt64_fmtNat db h9)]
    exact hr
  refine ⟨s', hres, ?_, ?_⟩
  · rw [hl k]; simp [lastWrite]
  · have hnf : ∀ it ∈ [LogItem.cmd [b "SET", k, v]], ¬ isFlushAll it := by
      intro it hit
      simp only [List.mem_singleton] at hit
      subst hit
      simp only [isFlushAll, List.headD_cons]
      decide
    have := replay_only_touches_db0 now _ _ s' hnf hr db (by omega)
    unfold State.lookup
    rw [this]; rfl

/-- **A relative deadline is re-based at restore time** — the universally quantified statement of
    the defect: for every key, string value, span `n` and restart instant `now`, the log record
    `SET k v PX n` restores the key with the deadline `now + n`: the time to live starts again at
    every restart, however long ago the write was acknowledged. -/
theorem relative_expiry_rebased (now : Int) (k v arg : Bytes) (n : Int) (hv : adaptType v = .str v)
    (hp : parseInt64 arg = some n) (hn : n.natAbs ≤ 4000000000000) :
    ∃ s', restore now (some []) (encodeCmd [b "SET", k, v, b "PX", arg]) = .ok s' ∧
      s'.lookup 0 k = some ⟨.str v, some (now + n)⟩ := by
  obtain ⟨s', h1, h2⟩ := replay_set_px now k v arg n hv hp hn
  refine ⟨s', ?_, h2⟩
  have := crash_recovery_replays_prefix now [[b "SET", k, v, b "PX", arg]] [] [] (encodeCmd []) rfl (by decide)
  simp only [List.map_cons, List.map_nil, List.flatten_cons, List.flatten_nil, List.append_nil] at this
  rw [this, h1]

/-- … hence two restarts at different instants serve two different deadlines for the same log -/
theorem relative_expiry_depends_on_restart_time (now1 now2 : Int) (k v arg : Bytes) (n : Int)
    (hne : now1 ≠ now2) (hv : adaptType v = .str v) (hp : parseInt64 arg = some n) (hn : n.natAbs ≤ 4000000000000) :
    ∃ s1 s2, restore now1 (some []) (encodeCmd [b "SET", k, v, b "PX", arg]) = .ok s1 ∧
      restore now2 (some []) (encodeCmd [b "SET", k, v, b "PX", arg]) = .ok s2 ∧
      (s1.lookup 0 k).bind (·.exp) ≠ (s2.lookup 0 k).bind (·.exp) := by
  obtain ⟨s1, a1, a2⟩ := relative_expiry_rebased now1 k v arg n hv hp hn
  obtain ⟨s2, b1, b2⟩ := relative_expiry_rebased now2 k v arg n hv hp hn
  refine ⟨s1, s2, a1, b1, ?_⟩
  rw [a2, b2]
  simp only [Option.bind_some, ne_eq, Option.some.injEq]
  omega

/-- **A torn tail blocks everything appended after it** — universally quantified over the log before
    the crash, the database marker and the bytes written after the restart, for a record torn after
    its first byte: the reader recovers the records before the torn one and nothing of what the
    restarted server appends (marker and every later acknowledged write). -/
theorem torn_tail_blocks_later_appends (cs : List (List Bytes)) (db : Int) (later : Bytes) (f : Nat)
    (hf : cs.length ≤ f) :
    (parseLog f ((cs.map encodeCmd).flatten ++ ([42] ++ (selectMarker db ++ later)))).1 = cs := by
  obtain ⟨g, rfl⟩ : ∃ g, f = cs.length + g := ⟨f - cs.length, by omega⟩
  obtain ⟨X, e⟩ : ∃ X, [42] ++ (selectMarker db ++ later) = 42 :: ([42, 50] ++ 13 :: 10 :: X) :=
    ⟨[36,54,13,10,83,69,76,69,67,84,13,10,36] ++ fmtNat (fmtInt db).length ++ crlf ++ fmtInt db ++ crlf ++ later, by
      simp only [selectMarker, marker_bytes]; simp⟩
  have hs := splitCrlf_clean [42, 50] X (by decide)
  have hd : allDigits [42, 50] = false := by decide
  have htail : parseLogItems g ([42] ++ (selectMarker db ++ later)) = ([], [42] ++ (selectMarker db ++ later)) := by
    rw [e]
    have hp : Wire.parseCommand (42 :: ([42, 50] ++ 13 :: 10 :: X)) = none := by
      simp only [Wire.parseCommand, hs, hd]; simp
    have hn : Wire.hasNonBulkElement (42 :: ([42, 50] ++ 13 :: 10 :: X)) = false := by
      simp only [Wire.hasNonBulkElement, hs, hd]; simp
    cases g with
    | zero => simp [parseLogItems]
    | succ g =>
      unfold parseLogItems
      simp only [hp, hn]
      simp
  have := parseLogItems_records cs g ([42] ++ (selectMarker db ++ later))
  rw [htail] at this
  simp only [List.append_nil] at this
  rw [parseLog_of_items _ _ _ cs this]

/-- the hypotheses of the crash theorems are satisfiable: a record cut after 7 bytes -/
example : ∃ t u, t ++ u = encodeCmd [b "SET", b "k", b "v"] ∧ u ≠ [] ∧ t.length = 7 :=
  ⟨(encodeCmd [b "SET", b "k", b "v"]).take 7, (encodeCmd [b "SET", b "k", b "v"]).drop 7, by decide⟩

/-! ### where the full statement fails (model witnesses; each is a class of Known.lean) -/

/-- a write made under SELECT 3 is replayed into database 0: database 3 comes back empty -/
theorem nonzero_database_write_replayed_into_db0_witness :
    let log := (logAppend (-1) 3 (encodeCmd [b "SET", b "k", b "v"])).1
    (match restore 1000 (some []) log with
     | .ok s => (s.lookup 0 (b "k"), s.lookup 3 (b "k")) | _ => (none, none)) = (some ⟨.str (b "v"), none⟩, none) := by
  decide +kernel

/-- a torn record followed by later appends (a marker and a complete record, as after a crash and
    restart): only the record before the torn one is recovered, the later acknowledged write is lost -/
theorem torn_tail_blocks_later_appends_witness :
    let r1 := encodeCmd [b "SET", b "a", b "1"]
    let torn := (encodeCmd [b "SET", b "b", b "2"]).take 20
    let later := encodeCmd [b "SET", b "c", b "3"]
    (parseLog 200 (r1 ++ torn ++ selectMarker 0 ++ later)).1 = [[b "SET", b "a", b "1"]] := by
  decide +kernel

/-- a complete top-level bulk string in the log (as a torn array header leaves behind) makes the
    restore panic -/
theorem toplevel_bulk_panics_witness :
    (parseLogItems 10 (bulkStr (b "x"))).1 = [.scalar] ∧
    (match restore 1000 (some []) (bulkStr (b "x")) with | .panic => true | _ => false) = true := by
  decide +kernel

/-- `replay` of a top-level bulk string panics whatever follows and whatever the state -/
theorem toplevel_bulk_panics (now : Int) (rest : List LogItem) (s : State) :
    (match replay now (.scalar :: rest) s with | .panic => true | _ => false) = true := by
  simp [replay]

/-- a relative deadline is re-based at restore time: `SET k v PX 1000` restored at 5000 expires at
    6000, restored at 9000 it expires at 10000 -/
theorem relative_expiry_shifts_witness :
    let log := encodeCmd [b "SET", b "k", b "v", b "PX", b "1000"]
    (match restore 5000 (some []) log with | .ok s => (s.lookup 0 (b "k")).bind (·.exp) | _ => none) = some 6000 ∧
    (match restore 9000 (some []) log with | .ok s => (s.lookup 0 (b "k")).bind (·.exp) | _ => none) = some 10000 := by
  decide +kernel

end Sugar.Props.C02
