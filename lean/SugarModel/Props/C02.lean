/-
  Props.C02 — append-only log: what was appended is read back record for record, a crash at any byte
  of the record being appended recovers exactly the complete records before it, and what the replay
  does with the records (each record runs in the database named by the last SELECT record — repaired
  upstream —, relative deadlines are re-based). Witnesses of the inputs on which the full durability statement fails (each one a class
  of Known.lean). The positive half — a restart serves exactly the state the server held, whatever the
  restart clock — is `restore_clean_partial` (clock-free commands, no deadlines). Helper lemmas live in
  Lemmas/PersistLemmas.lean, ReplayLemmas.lean, NowFree.lean and NoExpiryTable.lean.
-/
import SugarModel.Lemmas.PersistLemmas
import SugarModel.Lemmas.ReplayLemmas
import SugarModel.Lemmas.NoExpiryTable
import SugarModel.Spec.Durable
import SugarModel.Props.C20
namespace Sugar.Props.C02
open Sugar Sugar.Persist

/-! ### the log format and its reader -/

/-- **A bulk string is read back byte for byte**, whatever its payload (CR, LF, NUL, `$`, `*`
    included) and whatever follows it in the file. -/
theorem bulk_roundtrip (s rest : Bytes) : Wire.parseBulk (bulkStr s ++ rest) = some (s, rest) :=
  parseBulk_bulkStr s rest

/-- **A record is read back argument for argument**: every argument vector (any number of
    arguments, any bytes, the empty vector included), followed by any bytes, parses to exactly that
    vector and leaves exactly those bytes. -/
theorem record_roundtrip (cmd : List Bytes) (rest : Bytes) :
    Wire.parseCommand (encodeCmd cmd ++ rest) = some (cmd, rest) :=
  parseCommand_encodeCmd cmd rest

/-- **What was appended is read back, record for record**: a log that is the concatenation of the
    records of any command sequence is read as exactly that sequence, with nothing left over. -/
theorem log_roundtrip (cs : List (List Bytes)) (f : Nat) (hf : cs.length ≤ f) :
    parseLogItems f ((cs.map encodeCmd).flatten) = (cs.map .cmd, []) := by
  obtain ⟨g, rfl⟩ : ∃ g, f = cs.length + g := ⟨f - cs.length, by omega⟩
  have h := parseLogItems_records cs g []
  simp only [List.append_nil] at h
  rw [h]
  cases g <;> simp [parseLogItems]

/-- the same on commands: `parseLog` returns the appended sequence -/
theorem log_roundtrip_commands (cs : List (List Bytes)) (f : Nat) (hf : cs.length ≤ f) :
    parseLog f ((cs.map encodeCmd).flatten) = (cs, []) := by
  exact parseLog_of_items f _ [] cs (log_roundtrip cs f hf)

/-- **A torn record is never replayed**: no proper prefix of a record is a complete command. -/
theorem torn_record_not_replayed (c : List Bytes) (t u : Bytes) (h : t ++ u = encodeCmd c) (hu : u ≠ []) :
    Wire.parseCommand t = none :=
  parseCommand_torn c t u h hu

/-- **A crash at any byte offset of the record being appended recovers exactly the complete records
    before it** (item level: the torn tail yields no item at all — in particular no `.foreign` item,
    so the replay is inside the model — and is left unread). -/
theorem crash_image_items (cs : List (List Bytes)) (c : List Bytes) (t u : Bytes) (f : Nat)
    (h : t ++ u = encodeCmd c) (hu : u ≠ []) (hf : cs.length ≤ f) :
    parseLogItems f ((cs.map encodeCmd).flatten ++ t) = (cs.map .cmd, t) := by
  obtain ⟨g, rfl⟩ : ∃ g, f = cs.length + g := ⟨f - cs.length, by omega⟩
  rw [parseLogItems_records cs g t, parseLogItems_torn g c t u h hu]
  simp

/-- **The crash image is a prefix of the write sequence**: the commands recovered from
    `records(cs) ++ (torn prefix of the next record)` are exactly `cs`. -/
theorem crash_image_is_prefix (cs : List (List Bytes)) (c : List Bytes) (t u : Bytes) (f : Nat)
    (h : t ++ u = encodeCmd c) (hu : u ≠ []) (hf : cs.length ≤ f) :
    (parseLog f ((cs.map encodeCmd).flatten ++ t)).1 = cs := by
  rw [parseLog_of_items f _ t cs (crash_image_items cs c t u f h hu hf)]

/-- the fuel `restore` uses (length of the log + 1) is enough for every log made of records -/
theorem restore_fuel_suffices (cs : List (List Bytes)) (t : Bytes) :
    cs.length ≤ ((cs.map encodeCmd).flatten ++ t).length + 1 := by
  induction cs with
  | nil => simp
  | cons c r ih =>
    simp only [List.map_cons, List.flatten_cons, List.append_assoc, List.length_append, List.length_cons] at ih ⊢
    have : 0 < (encodeCmd c).length := by rw [encodeCmd_eq_cons]; simp
    omega

/-! ### the SELECT marker -/

/-- **The database marker is readable for every index**: the marker is the record `SELECT db`, read
    back completely whatever follows it — negative indices (the store's initial -1) and indices ≥ 10
    included (the fixed `$1` length prefix that hid everything after such a marker was repaired
    upstream; the former `unreadable_marker_hides_log` statements are gone). -/
theorem select_marker_readable (db : Int) (rest : Bytes) :
    Wire.parseCommand (selectMarker db ++ rest) = some ([b "SELECT", fmtInt db], rest) :=
  parseCommand_selectMarker db rest

/-- a marker never hides the log behind it: marker (any index) followed by the records of any command
    sequence is read back as SELECT followed by that sequence -/
theorem marker_then_records_roundtrip (db : Int) (cs : List (List Bytes)) (f : Nat) (hf : cs.length < f) :
    (parseLog f (selectMarker db ++ (cs.map encodeCmd).flatten)).1 = [b "SELECT", fmtInt db] :: cs := by
  rw [selectMarker_eq_record]
  have h := log_roundtrip_commands ([b "SELECT", fmtInt db] :: cs) f (by simp; omega)
  simp only [List.map_cons, List.flatten_cons] at h
  rw [h]

/-- the markers of database 10 and of the initial index -1, followed by a record: both are read -/
theorem marker_readable_witness :
    (parseLog 100 (selectMarker 10 ++ encodeCmd [b "SET", b "k", b "v"])).1 = [[b "SELECT", b "10"], [b "SET", b "k", b "v"]] ∧
    (parseLog 100 (selectMarker (-1) ++ encodeCmd [b "SET", b "k", b "v"])).1 = [[b "SELECT", b "-1"], [b "SET", b "k", b "v"]] := by
  decide +kernel

/-- **What `Store.Write` appends is read back**: a record written under any database index `db` —
    preceded by the marker when `db` differs from the store's current index, alone otherwise — is
    read back as the SELECT record (if any) and the command, with nothing left over. -/
theorem append_is_read_back (cur : Int) (db : Nat) (c : List Bytes) (f : Nat) :
    parseLogItems (f + 2) (logAppend cur db (encodeCmd c)).1 =
      (if (db : Int) != cur then [.cmd [b "SELECT", fmtInt db], .cmd c] else [.cmd c], []) := by
  unfold logAppend
  split
  · rw [selectMarker_eq_record db]
    have h := parseLogItems_records [[b "SELECT", fmtInt db], c] f []
    simp only [List.map_cons, List.map_nil, List.flatten_cons, List.flatten_nil, List.append_nil,
      List.length_cons, List.length_nil, Nat.zero_add] at h
    rw [Nat.add_comm, h]
    cases f <;> simp [parseLogItems]
  · have h := parseLogItems_records [c] (f + 1) []
    simp only [List.map_cons, List.map_nil, List.flatten_cons, List.flatten_nil, List.append_nil,
      List.length_cons, List.length_nil, Nat.zero_add] at h
    rw [show f + 2 = 1 + (f + 1) by omega, h]
    simp [parseLogItems]

/-! ### the replay -/

/-- **A SELECT record sets the database of the records that follow** (the former
    `replay_ignores_select_index` — the index was parsed and dropped — was repaired upstream). -/
theorem replay_select_sets_database (now : Int) (db : Int) (x : Bytes) (i : Int) (rest : List LogItem) (s : State)
    (h : parseInt64 x = some i) :
    replay now db (.cmd [b "SELECT", x] :: rest) s = replay now i rest s := by
  rw [replay_select, h]

/-- a SELECT record whose index strconv.Atoi rejects ends the replay: `Restore` returns, the rest of
    the log is not read, and the restore still reports success -/
theorem unparsable_select_ends_replay (now : Int) (db : Int) (x : Bytes) (rest : List LogItem) (s : State)
    (h : parseInt64 x = none) :
    replay now db (.cmd [b "SELECT", x] :: rest) s = .ok s := by
  rw [replay_select, h]

/-- a record is FLUSHALL (the one command that touches every database) -/
def isFlushAll (it : LogItem) : Prop :=
  match it with
  | .cmd c => eqFold (c.headD []) (b "flushall") = true
  | _ => False

/-- the database index a log item selects, if it is a SELECT record with a parsable index -/
def selIndex : LogItem → Option Int
  | .cmd c => if eqFold (c.headD []) (b "select") && isAscii (c.headD []) then parseInt64 (c.getD 1 []) else none
  | _ => none

/-- the databases that are current at some point of a replay started in `db`: `db` itself and every
    index named by a SELECT record -/
def selectedDbs (db : Int) (items : List LogItem) : List Int := db :: items.filterMap selIndex

/-- **Replay touches only the selected databases**: if the replay completes and no record is FLUSHALL,
    every logical database that is neither the starting one nor named by a SELECT record of the log
    is exactly as it was before (the former `replay_only_touches_db0` — everything landed in
    database 0 — described the defect repaired upstream). -/
theorem replay_touches_only_selected_databases (now : Int) : ∀ (items : List LogItem) (db : Int) (s s' : State),
    (∀ it ∈ items, ¬ isFlushAll it) → replay now db items s = .ok s' →
    ∀ j : Nat, (j : Int) ∉ selectedDbs db items → s'.db j = s.db j := by
  intro items
  induction items with
  | nil =>
    intro db s s' _ h j _
    simp only [replay, Restored.ok.injEq] at h
    rw [h]
  | cons it rest ih =>
    intro db s s' hn h j hj
    have hrest : ∀ it ∈ rest, ¬ isFlushAll it := fun x hx => hn x (List.mem_cons_of_mem _ hx)
    cases it with
    | scalar => simp [replay] at h
    | foreign => simp [replay] at h
    | cmd c =>
      cases c with
      | nil => simp [replay] at h
      | cons name args =>
        have hnf : ¬ eqFold ((name :: args).headD []) (b "flushall") = true :=
          hn (.cmd (name :: args)) (List.mem_cons_self)
        simp only [selectedDbs, List.filterMap_cons, selIndex] at hj
        rw [replay] at h
        · split at h
          · rename_i hsel
            simp only [hsel, if_true] at hj
            split at h
            · rename_i i hi
              simp only [hi, List.mem_cons, not_or] at hj
              exact ih i s s' hrest h j (by simp only [selectedDbs, List.mem_cons, not_or]; exact ⟨hj.2.1, hj.2.2⟩)
            · simp only [Restored.ok.injEq] at h; rw [h]
          · rename_i hsel
            simp only [hsel, Bool.false_eq_true, if_false] at hj
            split at h
            · simp at h
            · rename_i hneg
              split at h
              · simp at h
              · split at h
                · simp at h
                · rename_i s1 _ hstep
                  have h1 := ih db s1 s' hrest h j hj
                  rw [h1]
                  have hjd : j ≠ db.toNat := by
                    simp only [List.mem_cons, not_or] at hj
                    have := hj.1
                    omega
                  exact Sugar.Props.C20.command_isolated _ s _ s1 _ j hjd hnf hstep
                · simp at h
                · simp at h
        · intro hnil; simp at hnil

/-- with an empty preamble the restore is the replay of the log items on the empty keyspace, starting
    in database 0 -/
theorem restore_empty_preamble (now : Int) (log : Bytes) :
    restore now (some []) log = replay now 0 (parseLogItems (log.length + 1) log).1 { dbs := [], mem := 0 } := rfl

/-- **A database never selected in the log comes back empty**: a server restored from the log alone
    (no FLUSHALL record) holds nothing outside database 0 and the databases named by SELECT records. -/
theorem restored_unselected_databases_stay_empty (now : Int) (log : Bytes) (s' : State)
    (hn : ∀ it ∈ (parseLogItems (log.length + 1) log).1, ¬ isFlushAll it)
    (h : restore now (some []) log = .ok s') (j : Nat)
    (hj : (j : Int) ∉ selectedDbs 0 (parseLogItems (log.length + 1) log).1) :
    s'.db j = ⟨[], []⟩ := by
  rw [restore_empty_preamble] at h
  exact replay_touches_only_selected_databases now _ 0 _ s' hn h j hj

/-- **Crash recovery replays exactly the complete records**: restoring from the records of `cs`
    followed by a torn prefix of the record of `c` is the replay of `cs`, nothing else — the recovered
    dataset is the result of a prefix of the executed write sequence. -/
theorem crash_recovery_replays_prefix (now : Int) (cs : List (List Bytes)) (c : List Bytes) (t u : Bytes)
    (h : t ++ u = encodeCmd c) (hu : u ≠ []) :
    restore now (some []) ((cs.map encodeCmd).flatten ++ t) = replay now 0 (cs.map .cmd) { dbs := [], mem := 0 } := by
  rw [restore_empty_preamble, crash_image_items cs c t u _ h hu (restore_fuel_suffices cs t)]

/-- **Acknowledged writes survive restart and crash (string SETs on database 0).** For every sequence
    of `SET key value` commands whose values AdaptType leaves strings, every restart instant `now`
    and every torn tail, the restored server holds under each key exactly the bytes last written to
    it, no deadline, nothing else in database 0 and nothing in any other database. -/
theorem acknowledged_sets_survive_crash_partial (now : Int) (kvs : List (Bytes × Bytes)) (c : List Bytes) (t u : Bytes)
    (hv : ∀ kv ∈ kvs, adaptType kv.2 = .str kv.2) (h : t ++ u = encodeCmd c) (hu : u ≠ []) :
    ∃ s', restore now (some []) (((kvs.map fun kv => [b "SET", kv.1, kv.2]).map encodeCmd).flatten ++ t) = .ok s' ∧
      (∀ x, s'.lookup 0 x = (lastWrite kvs (fun _ => none) x).map fun v => ⟨.str v, none⟩) ∧
      (∀ j, j ≠ 0 → s'.db j = ⟨[], []⟩) := by
  rw [crash_recovery_replays_prefix now _ c t u h hu, List.map_map]
  exact replay_sets now 0 kvs { dbs := [], mem := 0 } (fun _ => none) hv (fun x => rfl)

/-- **Acknowledged writes survive restart and crash in every logical database (string SETs).** For
    every database `d`, every sequence of `SET key value` commands executed under `SELECT d` (the log
    holds the marker of `d`, then the records) whose values AdaptType leaves strings, every restart
    instant and every torn tail: the restored server holds, in database `d`, under each key exactly
    the bytes last written to it, and nothing in any other database — keys, values and
    logical-database placement are kept. -/
theorem acknowledged_sets_in_database_survive_crash_partial (now : Int) (d : Nat) (hd : (d : Int) ≤ maxInt64)
    (kvs : List (Bytes × Bytes)) (c : List Bytes) (t u : Bytes)
    (hv : ∀ kv ∈ kvs, adaptType kv.2 = .str kv.2) (h : t ++ u = encodeCmd c) (hu : u ≠ []) :
    ∃ s', restore now (some [])
        (selectMarker d ++ (((kvs.map fun kv => [b "SET", kv.1, kv.2]).map encodeCmd).flatten ++ t)) = .ok s' ∧
      (∀ x, s'.lookup d x = (lastWrite kvs (fun _ => none) x).map fun v => ⟨.str v, none⟩) ∧
      (∀ j, j ≠ d → s'.db j = ⟨[], []⟩) := by
  have hlog : selectMarker d ++ (((kvs.map fun kv => [b "SET", kv.1, kv.2]).map encodeCmd).flatten ++ t) =
      (([b "SELECT", fmtInt d] :: kvs.map fun kv => [b "SET", kv.1, kv.2]).map encodeCmd).flatten ++ t := by
    rw [selectMarker_eq_record]; simp
  rw [hlog, crash_recovery_replays_prefix now _ c t u h hu]
  simp only [List.map_cons, List.map_map]
  rw [replay_select_sets_database now 0 _ _ _ _ (parseInt64_fmtNat d hd)]
  exact replay_sets now d kvs { dbs := [], mem := 0 } (fun _ => none) hv (fun x => rfl)

/-- **A write made under SELECT db lands in database db** — for every database `db` (up to the int64
    range), every key and string value, every restart instant: the log `SELECT db; SET k v` restores a
    server that holds `k ↦ v` in database `db` and nothing in any other database, in particular
    nothing in database 0 when `db ≠ 0` (the former `nonzero_database_write_replayed_into_db0`
    described the defect repaired upstream). -/
theorem write_under_select_lands_in_that_database (now : Int) (db : Nat) (k v : Bytes)
    (h9 : (db : Int) ≤ maxInt64) (hv : adaptType v = .str v) :
    ∃ s', restore now (some []) (selectMarker db ++ encodeCmd [b "SET", k, v]) = .ok s' ∧
      s'.lookup db k = some ⟨.str v, none⟩ ∧ (∀ j, j ≠ db → s'.db j = ⟨[], []⟩) ∧
      (db ≠ 0 → s'.lookup 0 k = none) := by
  obtain ⟨s', hr, hl, hf⟩ := acknowledged_sets_in_database_survive_crash_partial now db h9 [(k, v)] [] [] (encodeCmd [])
    (by intro kv hkv; simp only [List.mem_singleton] at hkv; subst hkv; exact hv) rfl (by decide)
  simp only [List.map_cons, List.map_nil, List.flatten_cons, List.flatten_nil, List.append_nil] at hr
  refine ⟨s', hr, ?_, hf, ?_⟩
  · rw [hl k]; simp [lastWrite]
  · intro h0
    unfold State.lookup
    rw [hf 0 (Ne.symm h0)]; rfl

/-- the same through `Store.Write`: on a fresh store (current index -1) the first write under database
    `db` is logged as marker + record, and restores into database `db` -/
theorem first_write_lands_in_its_database (now : Int) (db : Nat) (k v : Bytes)
    (h9 : (db : Int) ≤ maxInt64) (hv : adaptType v = .str v) :
    ∃ s', restore now (some []) (logAppend (-1) db (encodeCmd [b "SET", k, v])).1 = .ok s' ∧
      s'.lookup db k = some ⟨.str v, none⟩ ∧ (∀ j, j ≠ db → s'.db j = ⟨[], []⟩) := by
  rw [logAppend_fresh]
  obtain ⟨s', h1, h2, h3, _⟩ := write_under_select_lands_in_that_database now db k v h9 hv
  exact ⟨s', h1, h2, h3⟩

/-! ### a restart serves exactly the dataset the server held (clock-free commands) -/

/-- the guard of the replay: an argument word names a key of database `d` holding a `[]interface{}`
    (such values come only from a JSON preamble; the model declines to follow commands on them) -/
def argHoldsIlist (s : State) (d : Nat) (cmd : List Bytes) : Bool :=
  (cmd.drop 1).any fun k => match s.lookup d k with | some ⟨.ilist _, _⟩ => true | _ => false

/-- the original execution: a caller in database `d` runs the commands one after the other, the
    `i`-th at clock reading `now_i`; `none` unless every command completes (no panic, nothing outside
    the model) -/
def origRun (d : Nat) : List (List Bytes × Int) → State → Option State
  | [], s => some s
  | (cmd, now) :: r, s =>
    if argHoldsIlist s d cmd then none else
    match step { db := d, now := now, conn := some 0 } s cmd with
    | some (s', .done _) => origRun d r s'
    | _ => none

theorem argHoldsIlist_false (s : State) (d : Nat) (cmd : List Bytes) (h : argHoldsIlist s d cmd = false) :
    ∀ x ∈ cmd.drop 1, ∀ xs e, s.lookup d x ≠ some ⟨.ilist xs, e⟩ := by
  intro x hx xs e heq
  have : argHoldsIlist s d cmd = true := by
    unfold argHoldsIlist
    rw [List.any_eq_true]
    exact ⟨x, hx, by simp [heq]⟩
  rw [h] at this
  exact absurd this (by simp)

/-- the replay of the logged commands at ANY restart time recomputes the original execution, state for
    state: on a keyspace without deadlines a clock-free command does not see the clock -/
theorem replay_recomputes_original (now' : Int) (d : Nat) : ∀ (run : List (List Bytes × Int)) (s sF : State),
    s.NoDeadlines →
    (∀ x ∈ run, ClockFree x.1 ∧ toLower (x.1.headD []) ≠ b "select") →
    origRun d run s = some sF →
    replay now' (d : Int) ((run.map (·.1)).map .cmd) s = .ok sF := by
  intro run
  induction run with
  | nil =>
    intro s sF _ _ h
    simp only [origRun, Option.some.injEq] at h
    simp [replay, h]
  | cons x r ih =>
    intro s sF hs hcf h
    obtain ⟨cmd, now⟩ := x
    obtain ⟨hc1, hc2⟩ := hcf (cmd, now) List.mem_cons_self
    unfold origRun at h
    split at h
    · simp at h
    · rename_i hguard
      simp only [Bool.not_eq_true] at hguard
      split at h
      · rename_i s1 res hstep
        cases cmd with
        | nil => simp [step, progOf] at hstep
        | cons name args =>
          have hctx : Ctx.SameButClock { db := d, now := now, conn := some 0 } { db := d, now := now', conn := some 0 } :=
            ⟨rfl, rfl, rfl⟩
          obtain ⟨heq, hnd⟩ := step_now_irrelevant _ _ hctx (name :: args) hc1 s hs
          have hsel : (eqFold name (b "select") && isAscii name) = false := by
            have h1 : toLower (b "select") = b "select" := by decide
            have h2 : eqFold name (b "select") = false := by
              simp only [eqFold, h1, beq_eq_false_iff_ne, ne_eq]
              simpa using hc2
            simp [h2]
          simp only [List.map_cons]
          rw [replay_cmd_done now' d name args _ s s1 res hsel
            (by simpa using argHoldsIlist_false s d (name :: args) hguard) (by rw [← heq]; exact hstep)]
          exact ih s1 sF (hnd s1 _ hstep) (fun y hy => hcf y (List.mem_cons_of_mem _ hy)) h
      · simp at h

/-- **A restart serves exactly the keyspace the server held** (clock-free commands, one database).
    Let a caller in database `d` execute, starting from the empty keyspace, the commands of `run` — each
    at its own clock reading —, every one of them clock-free (word outside `envSensitive` and
    `expirySetters`, or a plain `SET key value`), none of them SELECT, all completing. The log holds
    the marker of `d` and their records, possibly followed by a torn record. Then a restore at ANY
    restart time `now'` yields EXACTLY the state the server held — the same `State` (every database,
    key, value, type, absence of deadlines, volatile index, accounted memory), not merely the same
    lookups — whatever the clock says at restart. -/
theorem restore_clean_partial (d : Nat) (hd : (d : Int) ≤ maxInt64) (run : List (List Bytes × Int)) (sF : State)
    (hcf : ∀ x ∈ run, ClockFree x.1 ∧ toLower (x.1.headD []) ≠ b "select")
    (horig : origRun d run { dbs := [], mem := 0 } = some sF)
    (now' : Int) (c : List Bytes) (t u : Bytes) (ht : t ++ u = encodeCmd c) (hu : u ≠ []) :
    restore now' (some []) (selectMarker d ++ (((run.map (·.1)).map encodeCmd).flatten ++ t)) = .ok sF := by
  have hlog : selectMarker d ++ (((run.map (·.1)).map encodeCmd).flatten ++ t) =
      (([b "SELECT", fmtInt d] :: run.map (·.1)).map encodeCmd).flatten ++ t := by
    rw [selectMarker_eq_record]; simp
  rw [hlog, crash_recovery_replays_prefix now' _ c t u ht hu]
  simp only [List.map_cons]
  rw [replay_select_sets_database now' 0 _ _ _ _ (parseInt64_fmtNat d hd)]
  exact replay_recomputes_original now' d run _ sF noDeadlines_empty hcf horig

/-- non-vacuity: a log mixing families (string, list, hash, set, counter) executed in database 2 at five
    different instants, cut inside a sixth record; at every restart time the restore is exactly the
    state the server held, and that state holds the five keys -/
example :
    let run : List (List Bytes × Int) :=
      [([b "SET", b "k", b "v"], 1000), ([b "rpush", b "l", b "a", b "b"], 2000), ([b "hset", b "h", b "f", b "1"], 3000),
       ([b "sadd", b "s", b "m"], 4000), ([b "incr", b "n"], 5000)]
    let sF := (origRun 2 run { dbs := [], mem := 0 }).getD { dbs := [], mem := 0 }
    (∀ now', restore now' (some [])
        (selectMarker 2 ++ (((run.map (·.1)).map encodeCmd).flatten ++ (encodeCmd [b "SET", b "x", b "y"]).take 11)) = .ok sF) ∧
    (sF.db 2).store.map (·.1) = [b "k", b "l", b "h", b "s", b "n"] := by
  intro run sF
  have horig : origRun 2 run { dbs := [], mem := 0 } = some sF := by decide +kernel
  refine ⟨fun now' => ?_, by decide +kernel⟩
  refine restore_clean_partial 2 (by decide) run sF ?_ horig now' [b "SET", b "x", b "y"] _
    ((encodeCmd [b "SET", b "x", b "y"]).drop 11) (List.take_append_drop _ _) (by decide)
  intro x hx
  simp only [run, List.mem_cons, List.not_mem_nil, or_false] at hx
  rcases hx with rfl | rfl | rfl | rfl | rfl
  · exact ⟨Or.inr ⟨_, _, _, rfl, by decide⟩, by decide⟩
  · exact ⟨Or.inl (by decide), by decide⟩
  · exact ⟨Or.inl (by decide), by decide⟩
  · exact ⟨Or.inl (by decide), by decide⟩
  · exact ⟨Or.inl (by decide), by decide⟩

/-- **A relative deadline is re-based at restore time** — the universally quantified statement of
    the defect: for every key, string value, span `n` and restart instant `now`, the log record
    `SET k v PX n` restores the key with the deadline `now + n`: the time to live starts again at
    every restart, however long ago the write was acknowledged. -/
theorem relative_expiry_rebased (now : Int) (k v arg : Bytes) (n : Int) (hv : adaptType v = .str v)
    (hp : parseInt64 arg = some n) (hn : n.natAbs ≤ 4000000000000) :
    ∃ s', restore now (some []) (encodeCmd [b "SET", k, v, b "PX", arg]) = .ok s' ∧
      s'.lookup 0 k = some ⟨.str v, some (now + n)⟩ := by
  obtain ⟨s', h1, h2⟩ := replay_set_px now 0 k v arg n hv hp hn
  refine ⟨s', ?_, h2⟩
  have := crash_recovery_replays_prefix now [[b "SET", k, v, b "PX", arg]] [] [] (encodeCmd []) rfl (by decide)
  simp only [List.map_cons, List.map_nil, List.flatten_cons, List.flatten_nil, List.append_nil] at this
  rw [this]; exact h1

/-- … hence two restarts at different instants serve two different deadlines for the same log -/
theorem relative_expiry_depends_on_restart_time (now1 now2 : Int) (k v arg : Bytes) (n : Int)
    (hne : now1 ≠ now2) (hv : adaptType v = .str v) (hp : parseInt64 arg = some n) (hn : n.natAbs ≤ 4000000000000) :
    ∃ s1 s2, restore now1 (some []) (encodeCmd [b "SET", k, v, b "PX", arg]) = .ok s1 ∧
      restore now2 (some []) (encodeCmd [b "SET", k, v, b "PX", arg]) = .ok s2 ∧
      (s1.lookup 0 k).bind (·.exp) ≠ (s2.lookup 0 k).bind (·.exp) := by
  obtain ⟨s1, a1, a2⟩ := relative_expiry_rebased now1 k v arg n hv hp hn
  obtain ⟨s2, b1, b2⟩ := relative_expiry_rebased now2 k v arg n hv hp hn
  refine ⟨s1, s2, a1, b1, ?_⟩
  rw [a2, b2]
  simp only [Option.bind_some, ne_eq, Option.some.injEq]
  omega

/-- **A torn tail blocks everything appended after it** — universally quantified over the log before
    the crash, the database marker and the bytes written after the restart, for a record torn after
    its first byte: the reader recovers the records before the torn one and nothing of what the
    restarted server appends (marker and every later acknowledged write). -/
theorem torn_tail_blocks_later_appends (cs : List (List Bytes)) (db : Int) (later : Bytes) (f : Nat)
    (hf : cs.length ≤ f) :
    (parseLog f ((cs.map encodeCmd).flatten ++ ([42] ++ (selectMarker db ++ later)))).1 = cs := by
  obtain ⟨g, rfl⟩ : ∃ g, f = cs.length + g := ⟨f - cs.length, by omega⟩
  obtain ⟨X, e⟩ : ∃ X, [42] ++ (selectMarker db ++ later) = 42 :: ([42, 50] ++ 13 :: 10 :: X) :=
    ⟨[36,54,13,10,83,69,76,69,67,84,13,10,36] ++ fmtNat (fmtInt db).length ++ crlf ++ fmtInt db ++ crlf ++ later, by
      simp only [selectMarker, marker_bytes]; simp⟩
  have hs := splitCrlf_clean [42, 50] X (by decide)
  have hd : allDigits [42, 50] = false := by decide
  have htail : parseLogItems g ([42] ++ (selectMarker db ++ later)) = ([], [42] ++ (selectMarker db ++ later)) := by
    rw [e]
    have hp : Wire.parseCommand (42 :: ([42, 50] ++ 13 :: 10 :: X)) = none := by
      simp only [Wire.parseCommand, hs, hd]; simp
    have hn : Wire.hasNonBulkElement (42 :: ([42, 50] ++ 13 :: 10 :: X)) = false := by
      simp only [Wire.hasNonBulkElement, hs, hd]; simp
    cases g with
    | zero => simp [parseLogItems]
    | succ g =>
      unfold parseLogItems
      simp only [hp, hn]
      simp
  have := parseLogItems_records cs g ([42] ++ (selectMarker db ++ later))
  rw [htail] at this
  simp only [List.append_nil] at this
  rw [parseLog_of_items _ _ _ cs this]

/-- the hypotheses of the crash theorems are satisfiable: a record cut after 7 bytes -/
example : ∃ t u, t ++ u = encodeCmd [b "SET", b "k", b "v"] ∧ u ≠ [] ∧ t.length = 7 :=
  ⟨(encodeCmd [b "SET", b "k", b "v"]).take 7, (encodeCmd [b "SET", b "k", b "v"]).drop 7, by decide⟩

/-- two databases are restored separately: `SELECT 1; SET k a; SELECT 0; SET k b` restores `k ↦ a`
    in database 1 and `k ↦ b` in database 0 (replaces the former witness that a write under SELECT 3
    landed in database 0; repaired upstream) -/
theorem two_databases_restored_separately_witness :
    let log := selectMarker 1 ++ encodeCmd [b "SET", b "k", b "a"] ++ selectMarker 0 ++ encodeCmd [b "SET", b "k", b "b"]
    (match restore 1000 (some []) log with
     | .ok s => (s.lookup 1 (b "k"), s.lookup 0 (b "k"), s.lookup 2 (b "k")) | _ => (none, none, none)) =
      (some ⟨.str (b "a"), none⟩, some ⟨.str (b "b"), none⟩, none) := by
  decide +kernel

/-! ### where the full statement fails (model witnesses; each is a class of Known.lean) -/

/-- a torn record followed by later appends (a marker and a complete record, as after a crash and
    restart): only the record before the torn one is recovered, the later acknowledged write is lost -/
theorem torn_tail_blocks_later_appends_witness :
    let r1 := encodeCmd [b "SET", b "a", b "1"]
    let torn := (encodeCmd [b "SET", b "b", b "2"]).take 20
    let later := encodeCmd [b "SET", b "c", b "3"]
    (parseLog 200 (r1 ++ torn ++ selectMarker 0 ++ later)).1 = [[b "SET", b "a", b "1"]] := by
  decide +kernel

/-- a complete top-level bulk string in the log (as a torn array header leaves behind) makes the
    restore panic -/
theorem toplevel_bulk_panics_witness :
    (parseLogItems 10 (bulkStr (b "x"))).1 = [.scalar] ∧
    (match restore 1000 (some []) (bulkStr (b "x")) with | .panic => true | _ => false) = true := by
  decide +kernel

/-- `replay` of a top-level bulk string panics whatever follows and whatever the state -/
theorem toplevel_bulk_panics (now : Int) (db : Int) (rest : List LogItem) (s : State) :
    (match replay now db (.scalar :: rest) s with | .panic => true | _ => false) = true := by
  simp [replay]

/-- a relative deadline is re-based at restore time: `SET k v PX 1000` restored at 5000 expires at
    6000, restored at 9000 it expires at 10000 -/
theorem relative_expiry_shifts_witness :
    let log := encodeCmd [b "SET", b "k", b "v", b "PX", b "1000"]
    (match restore 5000 (some []) log with | .ok s => (s.lookup 0 (b "k")).bind (·.exp) | _ => none) = some 6000 ∧
    (match restore 9000 (some []) log with | .ok s => (s.lookup 0 (b "k")).bind (·.exp) | _ => none) = some 10000 := by
  decide +kernel

end Sugar.Props.C02
