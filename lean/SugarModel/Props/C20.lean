/-
  Props.C20 — logical databases are isolated namespaces (frame theorems over step programs).
  Property theorems only; helper lemmas live in Lemmas/.
-/
import SugarModel.Lemmas.NoFlush
namespace Sugar.Props.C20
open Sugar

/-- **Frame theorem** (`State.db j` is database `j` as a dataset: an absent database reads as empty).
    A step program run with database `c.db` selected leaves every other logical
    database (its keys, values, deadlines and volatile-key index) exactly as it was, provided the
    program never issues the all-databases flush. Holds for *every* program over the keyspace
    primitives, hence for every modelled handler, every argument vector, every state. -/
theorem frame {α : Type} (p : Prog α) (c : Ctx) (s : State) (j : Nat)
    (hj : j ≠ c.db) (hp : p.NoFlushAll) :
    (p.run c s).1.db j = s.db j :=
  Sugar.frame_run p c s j hj hp

/-- every modelled command other than FLUSHALL denotes a program without the all-databases flush -/
theorem handlers_noFlushAll (c : Ctx) (cmd : List Bytes) (p : Prog Res)
    (h : progOf c cmd = some p) (hn : ¬ eqFold (cmd.headD []) (b "flushall") = true) :
    p.NoFlushAll :=
  Sugar.progOf_noFlushAll c cmd p h hn

/-- **Isolation of commands.** Executing any modelled data command except FLUSHALL with database `i`
    selected does not change database `j ≠ i`. -/
theorem command_isolated (c : Ctx) (s : State) (cmd : List Bytes) (s' : State) (o : Outcome Res)
    (j : Nat) (hj : j ≠ c.db) (hn : ¬ eqFold (cmd.headD []) (b "flushall") = true)
    (h : step c s cmd = some (s', o)) :
    s'.db j = s.db j := by
  unfold step at h
  cases hp : progOf c cmd with
  | none => simp [hp] at h
  | some p =>
    simp only [hp, Option.map_some, Option.some.injEq] at h
    have h1 : s' = (p.run c s).1 := by rw [h]
    rw [h1]
    exact frame p c s j hj (handlers_noFlushAll c cmd p hp hn)

/-- FLUSHDB empties only the selected database -/
theorem flushdb_only_selected (c : Ctx) (s s' : State) (j : Nat) (hj : j ≠ c.db)
    (h : flushDb s c.db = some s') : s'.dbs.get j = s.dbs.get j := by
  exact Sugar.flushDb_frame s s' c.db j hj h

/-- FLUSHALL empties every database -/
theorem flushall_empties_all (s : State) (j : Nat) (d : Db) (h : (flushAll s).dbs.get j = some d) :
    d.store = [] := by
  unfold flushAll at h
  simp only at h
  generalize s.dbs = l at h
  induction l with
  | nil => simp [NMap.get] at h
  | cons p r ih =>
    obtain ⟨i, d0⟩ := p
    simp only [List.map, NMap.get] at h
    split at h
    · simp only [Option.some.injEq] at h; rw [← h]
    · exact ih h

/-- non-vacuity: a concrete two-database state and a write under database 0 -/
example : (step { db := 0, now := 1000 } { dbs := [(0, ⟨[], []⟩), (1, ⟨[(b "k", ⟨.str (b "v"), none⟩)], []⟩)], mem := 0 }
            [b "set", b "k", b "x"]).map (fun r => r.1.db 1)
          = some ⟨[(b "k", ⟨.str (b "v"), none⟩)], []⟩ := by decide

end Sugar.Props.C20
