/-
  Props.C20 — logical databases are isolated namespaces (frame theorems over step programs).
  Property theorems only; helper lemmas live in Lemmas/.
-/
import SugarModel.Lemmas.Hist
namespace Sugar.Props.C20
open Sugar

/-- **Frame theorem** (`State.db j` is database `j` as a dataset: an absent database reads as empty).
    A step program run with database `c.db` selected leaves every other logical
    database (its keys, values, deadlines and volatile-key index) exactly as it was, provided the
    program never issues the all-databases flush. Holds for *every* program over the keyspace
    primitives, hence for every modelled handler, every argument vector, every state. -/
theorem frame {α : Type} (p : Prog α) (c : Ctx) (s : State) (j : Nat)
    (hj : j ≠ c.db) (hp : p.NoFlushAll) :
    (p.run c s).1.db j = s.db j :=
  Sugar.frame_run p c s j hj hp

/-- every modelled command other than FLUSHALL denotes a program without the all-databases flush -/
theorem handlers_noFlushAll (c : Ctx) (cmd : List Bytes) (p : Prog Res)
    (h : progOf c cmd = some p) (hn : ¬ eqFold (cmd.headD []) (b "flushall") = true) :
    p.NoFlushAll :=
  Sugar.progOf_noFlushAll c cmd p h hn

/-- **Isolation of commands.** Executing any modelled data command except FLUSHALL with database `i`
    selected does not change database `j ≠ i`. -/
theorem command_isolated (c : Ctx) (s : State) (cmd : List Bytes) (s' : State) (o : Outcome Res)
    (j : Nat) (hj : j ≠ c.db) (hn : ¬ eqFold (cmd.headD []) (b "flushall") = true)
    (h : step c s cmd = some (s', o)) :
    s'.db j = s.db j := by
  unfold step at h
  cases hp : progOf c cmd with
  | none => simp [hp] at h
  | some p =>
    simp only [hp, Option.map_some, Option.some.injEq] at h
    have h1 : s' = (p.run c s).1 := by rw [h]
    rw [h1]
    exact frame p c s j hj (handlers_noFlushAll c cmd p hp hn)

/-- FLUSHDB empties only the selected database -/
theorem flushdb_only_selected (c : Ctx) (s s' : State) (j : Nat) (hj : j ≠ c.db)
    (h : flushDb s c.db = some s') : s'.dbs.get j = s.dbs.get j := by
  exact Sugar.flushDb_frame s s' c.db j hj h

/-- FLUSHALL empties every database -/
theorem flushall_empties_all (s : State) (j : Nat) (d : Db) (h : (flushAll s).dbs.get j = some d) :
    d.store = [] := by
  unfold flushAll at h
  simp only at h
  generalize s.dbs = l at h
  induction l with
  | nil => simp [NMap.get] at h
  | cons p r ih =>
    obtain ⟨i, d0⟩ := p
    simp only [List.map, NMap.get] at h
    split at h
    · simp only [Option.some.injEq] at h; rw [← h]
    · exact ih h

/-- **Isolation over histories.** Any history of modelled commands, issued by any number of connections with any
    selected databases other than `j` (a different one for each command if they like), at any clock readings, that
    contains no FLUSHALL, leaves database `j` — keys, values, deadlines, volatile-key index — exactly as it was.
    Unbounded in the length of the history; panics and unmodelled outcomes of single commands included. -/
theorem history_isolated (h : List (Ctx × List Bytes)) (s s' : State) (j : Nat)
    (hdb : ∀ e ∈ h, j ≠ e.1.db)
    (hnf : ∀ e ∈ h, ¬ eqFold (e.2.headD []) (b "flushall") = true)
    (hr : runHist s h = some s') :
    s'.db j = s.db j := by
  induction h generalizing s with
  | nil => simp only [runHist, Option.some.injEq] at hr; rw [hr]
  | cons e rest ih =>
    obtain ⟨c, cmd⟩ := e
    simp only [runHist] at hr
    cases hs : step c s cmd with
    | none => simp [hs] at hr
    | some r =>
      obtain ⟨s1, o⟩ := r
      simp only [hs] at hr
      have h1 : s1.db j = s.db j :=
        command_isolated c s cmd s1 o j (hdb (c, cmd) (by simp)) (hnf (c, cmd) (by simp)) hs
      have h2 := ih s1 (fun e he => hdb e (by simp [he])) (fun e he => hnf e (by simp [he])) hr
      rw [h2, h1]

/-- **SELECT affects only the issuing connection**: the registration of every other connection keeps its database -/
theorem select_only_issuer (c : Ctx) (s : State) (d i : Nat) (hi : c.conn.getD 0 ≠ i) :
    (setConnDb c s d).conns.get i = s.conns.get i := by
  unfold setConnDb
  simp only
  rw [NMap.get_put_other _ _ _ _ hi]
  unfold State.createDb
  split <;> rfl

/-- … and it does point the issuer at the database it named -/
theorem select_points_issuer (c : Ctx) (s : State) (d : Nat) :
    (setConnDb c s d).conns.get (c.conn.getD 0) = some d := by
  unfold setConnDb
  simp

/-- SELECT changes no dataset: every database reads as before -/
theorem select_keeps_data (c : Ctx) (s : State) (d j : Nat) : (setConnDb c s d).db j = s.db j := by
  unfold setConnDb
  exact Sugar.createDb_db_all s d j

/-- **SWAPDB exchanges the two databases as seen by every client connection**: a registered connection on `d1`
    is on `d2` afterwards, one on `d2` is on `d1`, every other connection stays where it was — for every
    connection table and every pair of distinct indices. -/
theorem swapdb_repoints_every_connection (s : State) (d1 d2 i : Nat) (hne : d1 ≠ d2) :
    (swapDbs s d1 d2).conns.get i
      = (s.conns.get i).map fun d => if d = d1 then d2 else if d = d2 then d1 else d := by
  unfold swapDbs
  have h0 : (d1 == d2) = false := by simpa using hne
  simp only [h0, Bool.false_eq_true, if_false]
  have hc : ((s.createDb d1).createDb d2).conns = s.conns := by
    unfold State.createDb; split <;> split <;> rfl
  rw [hc]
  have := Sugar.get_mapVals s.conns (fun d => if (d == d1) = true then d2 else if (d == d2) = true then d1 else d) i
  simp only [beq_iff_eq] at this ⊢
  exact this

/-- SWAPDB moves no key: every dataset reads as before (the exchange is in the connections' selection) -/
theorem swapdb_keeps_data (s : State) (d1 d2 j : Nat) : (swapDbs s d1 d2).db j = s.db j := by
  unfold swapDbs
  split
  · rfl
  · show ((s.createDb d1).createDb d2).db j = s.db j
    rw [Sugar.createDb_db_all, Sugar.createDb_db_all]

/-- non-vacuity of `history_isolated`: two connections on databases 0 and 2 write, database 1 keeps its key -/
example : (runHist { dbs := [(1, ⟨[(b "k", ⟨.str (b "v"), none⟩)], []⟩)], mem := 0 }
            [({ db := 0, now := 1000, conn := some 1 }, [b "set", b "k", b "x"]),
             ({ db := 2, now := 1001, conn := some 2 }, [b "del", b "k"])]).map (fun r => r.db 1)
          = some ⟨[(b "k", ⟨.str (b "v"), none⟩)], []⟩ := by decide

/-- non-vacuity: a concrete two-database state and a write under database 0 -/
example : (step { db := 0, now := 1000 } { dbs := [(0, ⟨[], []⟩), (1, ⟨[(b "k", ⟨.str (b "v"), none⟩)], []⟩)], mem := 0 }
            [b "set", b "k", b "x"]).map (fun r => r.1.db 1)
          = some ⟨[(b "k", ⟨.str (b "v"), none⟩)], []⟩ := by decide

end Sugar.Props.C20
