/-
  Model.Wire — the connection read loop (sugardb/sugardb.go:481-567 handleConnection) over
  internal/utils.go:75 ReadMessage and :59 Decode, for a byte stream delivered as a list of writes
  (each write of a synchronous pipe is what one `Read` of up to 8192 bytes sees first).
  Commands are restricted to the state-free PING / ECHO so that the expected reply is a function of
  the command alone.
-/
import SugarModel.Model.ConnCmd
namespace Sugar.Wire
open Sugar

/-- bytes.Trim(res, "\x00") -/
def trimNul (bs : Bytes) : Bytes := ((bs.dropWhile (· == 0)).reverse.dropWhile (· == 0)).reverse

/-- one bulk string `$len\r\n<len bytes>\r\n` -/
def parseBulk (bs : Bytes) : Option (Bytes × Bytes) :=
  match bs with
  | 36 :: r =>
    match splitCrlf r with
    | none => none
    | some (line, rest) =>
      if !allDigits line then none else
      let n := digitsVal line
      if rest.length < n + 2 then none else
      match rest.drop n with
      | 13 :: 10 :: rest' => some (rest.take n, rest')
      | _ => none
  | _ => none

def parseBulks : Nat → Bytes → Option (List Bytes × Bytes)
  | 0, bs => some ([], bs)
  | k + 1, bs => do
      let (x, r) ← parseBulk bs
      let (xs, r') ← parseBulks k r
      pure (x :: xs, r')

/-- does reading `k` array elements meet one that is complete so far but not a bulk string? -/
def bulksMeetNonBulk : Nat → Bytes → Bool
  | 0, _ => false
  | k + 1, bs =>
    match bs with
    | [] => false
    | 36 :: _ =>
      match parseBulk bs with
      | some (_, r) => bulksMeetNonBulk k r
      | none => false
    | _ => true

/-- an array header followed by elements among which a non-bulk element is reached -/
def hasNonBulkElement (bs : Bytes) : Bool :=
  match bs with
  | 42 :: r =>
    match splitCrlf r with
    | none => false
    | some (line, rest) => if !allDigits line then false else bulksMeetNonBulk (digitsVal line) rest
  | _ => false

/-- a complete command `*n\r\n` followed by n bulk strings, and the bytes after it -/
def parseCommand (bs : Bytes) : Option (List Bytes × Bytes) :=
  match bs with
  | 42 :: r =>
    match splitCrlf r with
    | none => none
    | some (line, rest) => if !allDigits line then none else parseBulks (digitsVal line) rest
  | _ => none

/-- all complete commands of a stream (fuel = length); `none` if the stream is not a sequence of them -/
def parseStream : Nat → Bytes → Option (List (List Bytes))
  | _, [] => some []
  | 0, _ => none
  | f + 1, bs => do
      let (c, r) ← parseCommand bs
      let cs ← parseStream f r
      pure (c :: cs)

/-- what the connection loop writes for one decoded command (state-free commands only) -/
def replyOf (cmd : List Bytes) : Option Bytes :=
  match cmd with
  | [] => none
  | name :: _ =>
    if !isAscii name then none else
    let n := toLower name
    let h : Option (Ctx → List Bytes → Prog Res) := if n == b "ping" then some handlePing else if n == b "echo" then some handleEcho else none
    match h with
    | none => none
    | some h =>
      match (h { db := 0, now := 0 } cmd).run { db := 0, now := 0 } { dbs := [], mem := 0 } with
      | (_, .done (.ok r)) => some r
      | (_, .done (.err m)) => some (b "-Error " ++ m ++ crlf)
      | _ => none

inductive Served where
  | out (bs : Bytes)            -- exact output, reader still alive
  | hang (bs : Bytes)           -- output so far, then the reader blocks waiting for more bytes
  | unmod (why : String)

/-- (fuel = number of writes) the loop over successive writes: each write shorter than the 8192-byte chunk is one message; only the
    first RESP value of a message is decoded and answered; a write whose length is a positive multiple
    of 8192 leaves ReadMessage waiting for another chunk -/
def serveF : Nat → List Bytes → Bytes → Served
  | _, [], acc => .out acc
  | 0, _, _ => .unmod "fuel"
  | f + 1, w :: rest, acc =>
    if w.isEmpty then serveF f rest acc else
    if w.length % 8192 == 0 then
      -- ReadMessage keeps reading: the next write becomes part of the same message
      match rest with
      | [] => .hang acc
      | n :: r => serveF f ((w ++ n) :: r) acc
    else
    match parseCommand (trimNul w) with
    | none => .unmod "write does not begin with a complete command"
    | some (cmd, _) =>
      match replyOf cmd with
      | none => .unmod "command outside the state-free set"
      | some r => serveF f rest (acc ++ r)

def serve (writes : List Bytes) : Served := serveF (writes.length + 1) writes []

/-- the property's expectation: one reply per complete command of the concatenated stream, in order -/
def expected (writes : List Bytes) : Option Bytes :=
  let stream := writes.flatten
  match parseStream (stream.length + 1) stream with
  | none => none
  | some cmds => (cmds.mapM replyOf).map List.flatten

end Sugar.Wire
