/-
  Model.Value — stored values (internal/types.go KeyData), their accounted size
  (KeyData.GetMem, Set.GetMem, SortedSet.GetMem) and Go `%v` rendering.
-/
import SugarModel.Base.Bytes
import SugarModel.Base.Num
import SugarModel.Base.KMap
import SugarModel.Generated.Sizes
namespace Sugar

/-- scalar held in a hash field (AdaptType result) -/
inductive Scalar where
  | str (s : Bytes)
  | int (i : Int)
  | flt (f : Flt)
deriving DecidableEq, Repr, Inhabited

/-- `interface{}` stored under a key -/
inductive Val where
  | nil                                   -- Go nil interface (entry created by setExpiry alone)
  | str (s : Bytes)
  | int (i : Int)
  | flt (f : Flt)
  | list (xs : List Bytes)                -- []string
  | hash (h : KMap Scalar)                -- map[string]interface{}
  | set (oid : Nat) (ms : List Bytes)     -- *set.Set (members, unordered, unique); oid ≠ 0 names a pointer shared by several keys
  | zset (oid : Nat) (ms : KMap Flt)      -- *sorted_set.SortedSet (member → score); oid as for set
  | ilist (xs : List Bytes)               -- []interface{} of strings: what encoding/json makes of a stored list
deriving DecidableEq, Repr, Inhabited

/-- pointer identity of a stored set / sorted set (0 = not shared, or not a pointer type) -/
def Val.oid : Val → Nat
  | .set o _ => o
  | .zset o _ => o
  | _ => 0

def Val.withOid (v : Val) (o : Nat) : Val :=
  match v with
  | .set _ ms => .set o ms
  | .zset _ ms => .zset o ms
  | v => v

def Scalar.toVal : Scalar → Val
  | .str s => .str s
  | .int i => .int i
  | .flt f => .flt f

def Adapted.toVal? : Adapted → Option Val
  | .str s => some (.str s)
  | .int i => some (.int i)
  | .flt f => some (.flt f)
  | .unmod => none

def Adapted.toScalar? : Adapted → Option Scalar
  | .str s => some (.str s)
  | .int i => some (.int i)
  | .flt f => some (.flt f)
  | .unmod => none

structure Entry where
  val : Val
  exp : Option Int        -- deadline, unix milliseconds; none = zero time.Time
deriving DecidableEq, Repr, Inhabited

open Gen in
def Scalar.mem : Scalar → Int
  | .str s => szString + s.length
  | .int _ => szInt
  | .flt _ => 8

open Gen in
/-- KeyData.GetMem (internal/types.go:35) -/
def Entry.getMem (e : Entry) : Int :=
  szTime + match e.val with
  | .nil => 0
  | .int _ => szInt
  | .flt _ => 8
  | .str s => szString + s.length
  | .hash h => szMapHdr + (h.map fun (k, v) => szString + (k.length : Int) + v.mem).sum
  | .list xs => (xs.map fun s => szString + (s.length : Int)).sum
  | .set _ ms => szPtr + szMapHdr + (ms.map fun k => szString + (k.length : Int) + szIface).sum
  | .zset _ ms => szPtr + (ms.map fun (k, _) => szString + (k.length : Int) + szMemberObject + szString + (k.length : Int)).sum
  | .ilist _ => 0   -- GetMem fails on []interface{}; the persistence model never lets a command touch such a key

open Gen in
/-- per-key overhead added by setValues / removed by deleteKey -/
def keyMem (k : Bytes) : Int := szString + k.length

/-- Go `%v` of the stored scalar kinds and of `[]string`; `none` where the rendering depends on
    addresses or map layout that the model does not reproduce (set, zset) -/
def Val.fmtV : Val → Option Bytes
  | .nil => some (b "<nil>")
  | .str s => some s
  | .int i => some (fmtInt i)
  | .flt f => some f.fmtG
  | .list xs => some (b "[" ++ (xs.intersperse (b " ")).flatten ++ b "]")
  | .ilist xs => some (b "[" ++ (xs.intersperse (b " ")).flatten ++ b "]")
  | .hash _ => none
  | .set _ _ => none
  | .zset _ _ => none

end Sugar
