/-
  Model.Dispatch — command name → handler model (sugardb/modules.go:29 getCommand uses
  strings.EqualFold over the command table), and the sequential `step`.
-/
import SugarModel.Model.Generic
import SugarModel.Model.ListCmd
import SugarModel.Model.HashCmd
import SugarModel.Model.SetCmd
import SugarModel.Model.ConnCmd
import SugarModel.Model.ZSetCmd
namespace Sugar

abbrev Handler := Ctx → List Bytes → Prog Res

/-- handler table for the modelled commands (lower-case command name ↦ handler model) -/
def handlerTable : List (Bytes × Handler) := [
  (b "set", handleSet), (b "mset", handleMSet), (b "get", handleGet), (b "mget", handleMGet),
  (b "del", handleDel), (b "persist", handlePersist),
  (b "expiretime", handleExpireTime), (b "pexpiretime", handleExpireTime),
  (b "ttl", handleTTL), (b "pttl", handleTTL),
  (b "expire", handleExpire), (b "pexpire", handleExpire),
  (b "expireat", handleExpireAt), (b "pexpireat", handleExpireAt),
  (b "incr", handleIncr), (b "decr", handleDecr), (b "incrby", handleIncrBy), (b "decrby", handleDecrBy),
  (b "incrbyfloat", handleIncrByFloat), (b "rename", handleRename),
  (b "flushall", handleFlush), (b "flushdb", handleFlush),
  (b "getdel", handleGetdel), (b "getex", handleGetex), (b "type", handleType),
  (b "setrange", handleSetRange), (b "strlen", handleStrLen),
  (b "substr", handleSubStr), (b "getrange", handleSubStr), (b "append", handleAppend),
  (b "lpush", handlePush true), (b "lpushx", handlePush true), (b "rpush", handlePush false), (b "rpushx", handlePush false),
  (b "lpop", handlePop), (b "rpop", handlePop), (b "llen", handleLLen), (b "lrange", handleLRange),
  (b "lindex", handleLIndex), (b "lset", handleLSet), (b "ltrim", handleLTrim), (b "lrem", handleLRem),
  (b "lmove", handleLMove),
  (b "hset", handleHSet), (b "hsetnx", handleHSet), (b "hget", handleHGet), (b "hmget", handleHGet),
  (b "hstrlen", handleHStrLen), (b "hvals", handleHVals), (b "hrandfield", handleHRandField), (b "hlen", handleHLen),
  (b "hkeys", handleHKeys), (b "hincrby", handleHIncrBy), (b "hincrbyfloat", handleHIncrBy), (b "hgetall", handleHGetAll),
  (b "hexists", handleHExists), (b "hdel", handleHDel),
  (b "sadd", handleSAdd), (b "scard", handleSCard), (b "sdiff", handleSDiff false), (b "sdiffstore", handleSDiff true),
  (b "sinter", handleSInter 0), (b "sintercard", handleSInter 2), (b "sinterstore", handleSInter 1),
  (b "sismember", handleSIsMember), (b "smembers", handleSMembers), (b "smismember", handleSMIsMember),
  (b "smove", handleSMove), (b "spop", handleSPop), (b "srandmember", handleSRandMember), (b "srem", handleSRem),
  (b "sunion", handleSUnion false), (b "sunionstore", handleSUnion true),
  (b "select", handleSelect), (b "swapdb", handleSwapDB), (b "ping", handlePing), (b "echo", handleEcho),
  (b "zadd", handleZAdd), (b "zcard", handleZCard), (b "zcount", handleZCount),
  (b "zdiff", handleZDiff false), (b "zdiffstore", handleZDiff true), (b "zincrby", handleZIncrBy),
  (b "zinter", handleZCombine true false), (b "zinterstore", handleZCombine true true),
  (b "zmpop", handleZMPop), (b "zmscore", handleZMScore), (b "zpopmax", handleZPop), (b "zpopmin", handleZPop),
  (b "zrandmember", handleZRandMember), (b "zrank", handleZRank), (b "zrevrank", handleZRank),
  (b "zrem", handleZRem), (b "zscore", handleZScore), (b "zremrangebylex", handleZRemRangeByLex),
  (b "zremrangebyrank", handleZRemRangeByRank), (b "zremrangebyscore", handleZRemRangeByScore),
  (b "zlexcount", handleZLexCount), (b "zrange", handleZRange), (b "zrangestore", handleZRangeStore),
  (b "zunion", handleZCombine false false), (b "zunionstore", handleZCombine false true)]

def lookupHandler (n : Bytes) : List (Bytes × Handler) → Option Handler
  | [] => none
  | (k, h) :: r => if k = n then some h else lookupHandler n r

/-- `none` = command not modelled (not: unknown to the server) -/
def handlerOf (name : Bytes) : Option Handler := lookupHandler (toLower name) handlerTable

/-- the program a command denotes -/
def progOf (c : Ctx) (cmd : List Bytes) : Option (Prog Res) :=
  match cmd with
  | [] => none
  | name :: _ => if !isAscii name then none else (handlerOf name).map fun h => h c cmd

/-- one command, run to completion by one client -/
def step (c : Ctx) (s : State) (cmd : List Bytes) : Option (State × Outcome Res) :=
  (progOf c cmd).map fun p => p.run c s

end Sugar
