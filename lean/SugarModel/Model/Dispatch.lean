/-
  Model.Dispatch — command name → handler model (sugardb/modules.go:29 getCommand uses
  strings.EqualFold over the command table), and the sequential `step`.
-/
import SugarModel.Model.Generic
namespace Sugar

/-- handler table for the modelled commands; `none` = command not modelled (not: unknown to the server) -/
def handlerOf (name : Bytes) : Option (Ctx → List Bytes → Prog Res) :=
  let n := toLower name
  if n == b "set" then some handleSet
  else if n == b "mset" then some handleMSet
  else if n == b "get" then some handleGet
  else if n == b "mget" then some handleMGet
  else if n == b "del" then some handleDel
  else if n == b "persist" then some handlePersist
  else if n == b "expiretime" || n == b "pexpiretime" then some handleExpireTime
  else if n == b "ttl" || n == b "pttl" then some handleTTL
  else if n == b "expire" || n == b "pexpire" then some handleExpire
  else if n == b "expireat" || n == b "pexpireat" then some handleExpireAt
  else if n == b "incr" then some handleIncr
  else if n == b "decr" then some handleDecr
  else if n == b "incrby" then some handleIncrBy
  else if n == b "decrby" then some handleDecrBy
  else if n == b "incrbyfloat" then some handleIncrByFloat
  else if n == b "rename" then some handleRename
  else if n == b "flushall" || n == b "flushdb" then some handleFlush
  else if n == b "getdel" then some handleGetdel
  else if n == b "getex" then some handleGetex
  else if n == b "type" then some handleType
  else if n == b "setrange" then some handleSetRange
  else if n == b "strlen" then some handleStrLen
  else if n == b "substr" || n == b "getrange" then some handleSubStr
  else if n == b "append" then some handleAppend
  else none

/-- the program a command denotes -/
def progOf (c : Ctx) (cmd : List Bytes) : Option (Prog Res) :=
  match cmd with
  | [] => none
  | name :: _ => if !isAscii name then none else (handlerOf name).map fun h => h c cmd

/-- one command, run to completion by one client -/
def step (c : Ctx) (s : State) (cmd : List Bytes) : Option (State × Outcome Res) :=
  (progOf c cmd).map fun p => p.run c s

end Sugar
