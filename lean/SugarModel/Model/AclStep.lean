/-
  Model.AclStep — one command on a registered connection: the dispatcher's authorization gate
  (sugardb/modules.go:156-162) followed by the ACL-related handlers (connection/commands.go handleAuth,
  acl/commands.go handleSetUser / handleDelUser / handleWhoAmI / handleUsers).
-/
import SugarModel.Model.Acl
import SugarModel.Model.ConnCmd
namespace Sugar.Acl
open Sugar

inductive AOut where
  | reply (bs : Bytes)
  | anyOk                    -- authorized; the reply of the probe is not this model's business
  | denied (d : Deny)
  | err (msg : Bytes)
  | panic
  | unmod (why : String)

structure HelloOpts where
  auth : Option (Bytes × Bytes) := none
  name : Bytes := []

/-- connection/utils.go:20 getHelloOptions (recursive descent over `AUTH user pass` / `SETNAME name`) -/
def getHelloOptions : Nat → List Bytes → HelloOpts → Except Bytes (Option HelloOpts)
  | _, [], o => .ok (some o)
  | 0, _, _ => .ok none
  | f + 1, k :: rest, o =>
    if !isAscii k then .ok none else
    if toLower k == b "auth" then
      match rest with
      | u :: p :: rest' => getHelloOptions f rest' { o with auth := some (u, p) }
      | _ => .error wrongArgs
    else if toLower k == b "setname" then
      match rest with
      | n :: rest' => getHelloOptions f rest' { o with name := n }
      | _ => .error wrongArgs
    else .error (b "unknown keywork " ++ toUpper k)

/-- connection/commands.go:63 handleHello; a successful reply (server and connection info) is `anyOk` -/
def helloHandler (a : AclState) (cid : Nat) (cmd : List Bytes) (sha : Bytes) : AclState × AOut :=
  if !([1, 2, 4, 5, 7].contains cmd.length) then (a, .err wrongArgs) else
  if cmd.length == 1 then (a, .anyOk) else
  match getHelloOptions (cmd.length + 1) (cmd.drop 2) {} with
  | .error m => (a, .err m)
  | .ok none => (a, .unmod "hello option outside ASCII")
  | .ok (some o) =>
    match atoiErr (cmd.getD 1 []) with
    | .err m => (a, .err m)
    | .unmod w => (a, .unmod w)
    | .ok proto =>
      if proto != 2 && proto != 3 then (a, .err (b "protocol must be 2 or 3")) else
      match o.auth with
      | none => (a, .anyOk)
      | some (u, p) =>
        match authenticate a cid [b "AUTH", u, p] sha with
        | (a', .ok) => (a', .anyOk)
        | (a', .err m) => (a', .err m)
        | (a', .panic) => (a', .panic)
        | (a', .unmod) => (a', .unmod "auth")

/-- the ACL-related handlers, once the gate has let the command through -/
def aclHandler (a : AclState) (cid : Nat) (cmd : List Bytes) (sha : Bytes) : AclState × AOut :=
  let n := toLower (cmd.headD [])
  let sub := toLower (cmd.getD 1 [])
  let conn : Conn := (a.conns.get cid).getD ⟨false, 0⟩
  if n == b "auth" then
    if cmd.length < 2 || cmd.length > 3 then (a, .err wrongArgs) else
    match authenticate a cid cmd sha with
    | (a', .ok) => (a', .reply okReply)
    | (a', .err m) => (a', .err m)
    | (a', .panic) => (a', .panic)
    | (a', .unmod) => (a', .unmod "auth")
  else if n == b "acl" && sub == b "setuser" then
    if cmd.length < 3 then (a, .err wrongArgs) else
    match setUser a (cmd.drop 2) with
    | (a', .ok) => (a', .reply okReply)
    | (a', .err m) => (a', .err m)
    | (a', .panic) => (a', .panic)
    | (a', .unmod) => (a', .unmod "setuser token")
  else if n == b "acl" && sub == b "deluser" then
    if cmd.length < 3 then (a, .err wrongArgs) else (deleteUsers a (cmd.drop 2), .reply okReply)
  else if n == b "acl" && sub == b "whoami" then
    (a, .reply (simpleStr (a.get conn.user).name))
  else if n == b "acl" && sub == b "users" then
    (a, .reply (arrHdr a.order.length ++ (a.users.map fun p => bulkStr p.2.name).flatten))
  else if n == b "hello" then helloHandler a cid cmd sha
  else if n == b "acl" then (a, .unmod "acl sub-command not modelled")
  else (a, .anyOk)

/-- the dispatcher's gate for the command of connection `cid` (sugardb/modules.go:156-162) -/
def aclGate (a : AclState) (cid : Nat) (m : CmdMeta) : Option Deny :=
  let conn : Conn := (a.conns.get cid).getD ⟨false, 0⟩
  authorize globMatch a.requirePass conn.authenticated (a.get conn.user) m

/-- one command on connection `cid`: the gate, then the handler -/
def aclStep (a : AclState) (cid : Nat) (cmd : List Bytes) (sha : Bytes) (m : CmdMeta) : AclState × AOut :=
  match cmd with
  | [] => (a, .unmod "empty")
  | name :: _ =>
    if !isAscii name then (a, .unmod "non-ascii") else
    if toLower name == b "@register" then
      match registerConn a cid with
      | some a' => (a', .anyOk)
      | none => (a, .panic)
    else
    match aclGate a cid m with
    | some d => (a, .denied d)
    | none => aclHandler a cid cmd sha

end Sugar.Acl
