/-
  Model.Raft — the cluster paths of the server, transcribed from the code:

  * `dispatchCluster`  — sugardb/modules.go:176-209 (handleCommand after the handler has been chosen):
                          run locally / hand to raft / forward by gossip / refuse
  * `findRow`          — sugardb/modules.go:29 getCommand + internal/utils.go:136 GetSubCommand over the
                          generated command table (the `Sync` flag that steers the dispatch)
  * `getValuesCl`, `Prog.runCl` — the keyspace primitives as a cluster node executes them: only
                          getValues differs (sugardb/keyspace.go:169-188): a key whose deadline has passed is
                          not deleted locally; a leader asks raft to delete it *while holding the store lock*
                          (the delete entry's apply needs that lock: the node deadlocks), a follower gossips
                          a DeleteKey message and answers nil
  * `applyEntry`       — internal/raft/fsm.go:55 Apply, case "command": the handler chosen by name runs with
                          the request's database, a nil connection, on the applying node's clock / map order /
                          random source
  * `replayLog`        — fold of `applyEntry`
  * `forwardedEntry`   — internal/memberlist/delegate.go:105-123 MutateData: the leader builds the context from
                          ServerID and ConnId only, so raftApplyCommand (sugardb/cluster.go:70-71) reads
                          Protocol = 0 and Database = 0
  * `enqueue`          — internal/memberlist/broadcast.go:31 Invalidates: a queued MutateData message is
                          evicted by a later one with the same md5 (equal bytes)
  * `fsmSnapshot`      — internal/raft/fsm.go:135 Snapshot → sugardb/sugardb.go:236 GetState closure:
                          getState spins while stateMutationInProgress is set (handleCommand never clears it on
                          the raft path), otherwise `state[database][k] = …` assigns into a nil inner map
-/
import SugarModel.Model.Dispatch
import SugarModel.Model.Persist
import SugarModel.Generated.CommandTable
namespace Sugar.Raft
open Sugar

/-! ### dispatch -/

inductive Route where
  | localExec      -- handler(params) on the serving node
  | raftApply      -- raftApplyCommand: a log entry, applied by every node's state machine
  | forward        -- ForwardDataMutation: gossip towards the leader, immediate +OK
  | reject         -- "not cluster leader, cannot carry out command"
deriving DecidableEq, Repr

/-- sugardb/modules.go:176-209 -/
def dispatchCluster (inCluster sync isLeader forward : Bool) : Route :=
  if !inCluster || !sync then .localExec
  else if isLeader then .raftApply
  else if forward then .forward
  else .reject

/-- what the command word resolves to: the command row, and the sub-command row when the command has
    sub-commands and a second word is given (`none` = "command … not supported") -/
def findRow (cmd : List Bytes) : Option Gen.CmdRow :=
  match cmd with
  | [] => none
  | name :: rest =>
    if !isAscii name then none else
    match Gen.commandTable.find? fun r => r.sub == "" && b r.name == toLower name with
    | none => none
    | some parent =>
      let subs := Gen.commandTable.filter fun r => r.name == parent.name && r.sub != ""
      match subs, rest with
      | [], _ => some parent
      | _, [] => some parent
      | _, w :: _ => if !isAscii w then none else subs.find? fun r => b r.sub == toLower w

/-- internal/utils.go:153 IsWriteCommand on the resolved rows -/
def isWriteCategory (cmd : List Bytes) : Bool :=
  match cmd with
  | [] => false
  | name :: _ =>
    let parentW := match Gen.commandTable.find? fun r => r.sub == "" && b r.name == toLower name with
      | some p => p.cats.contains "write"
      | none => false
    parentW || match findRow cmd with
      | some r => r.cats.contains "write"
      | none => false

/-- the route of one client command on a cluster node -/
def routeOf (isLeader forward : Bool) (cmd : List Bytes) : Option Route :=
  (findRow cmd).map fun r => dispatchCluster true r.sync isLeader forward

/-- after a locally served handler returns without error, a write-category command is handed to the AOF
    engine (sugardb/modules.go:183-187); a cluster node has none (nil pointer) -/
def localTailPanics (cmd : List Bytes) : Bool := isWriteCategory cmd

/-- commands that change a dataset according to the command table: write category, except the two
    readers that carry it (SCARD, SINTER) -/
def mutating (r : Gen.CmdRow) : Bool :=
  r.cats.contains "write" && r.name != "scard" && r.name != "sinter"

/-! ### the keyspace as a cluster node runs it -/

inductive Role where
  | leader | follower
deriving DecidableEq, Repr

/-- getValues on a cluster node (`none` = the leader deadlocks). The state is never changed here. -/
def getValuesCl (role : Role) (c : Ctx) (s : State) : List Bytes → Option (List Val)
  | [] => some []
  | k :: r =>
    match s.lookup c.db k with
    | none => (getValuesCl role c s r).map (Val.nil :: ·)
    | some e =>
      if e.expired c.now then
        match role with
        | .leader => none
        | .follower => (getValuesCl role c s r).map (Val.nil :: ·)
      else (getValuesCl role c s r).map (e.val :: ·)

inductive PrimOut (ρ : Type) where
  | ok (s : State) (r : ρ)
  | panic
  | hang

def execCl (role : Role) (c : Ctx) (s : State) : (p : Prim) → PrimOut p.Res
  | .getValues ks =>
    match getValuesCl role c s ks with
    | none => .hang
    | some vs => .ok s vs
  | p =>
    match p.exec c s with
    | none => .panic
    | some (s', r) => .ok s' r

inductive COut (α : Type) where
  | done (a : α)
  | panic (what : String)
  | unmod (why : String)
  | hang
deriving Repr, DecidableEq

def runCl {α : Type} (role : Role) (c : Ctx) : Prog α → State → State × COut α
  | .ret a, s => (s, .done a)
  | .call p k, s =>
    match execCl role c s p with
    | .panic => (s, .panic "primitive")
    | .hang => (s, .hang)
    | .ok s' r => runCl role c (k r) s'
  | .panic w, s => (s, .panic w)
  | .unmod w, s => (s, .unmod w)

/-! ### the replicated state machine -/

/-- internal/types.go:98 ApplyRequest of type "command" -/
structure LogEntry where
  db : Nat
  proto : Nat := 2
  cmd : List Bytes
deriving Repr, DecidableEq

/-- the context a handler gets inside FSM.Apply: database (and protocol) of the request, nil connection;
    clock, map order and random picks are the applying node's (`env`) -/
def entryCtx (env : Ctx) (e : LogEntry) : Ctx := { env with db := e.db, conn := none }

/-- FSM.Apply on one node. `none` = the command word is unknown to the model.
    CMD travels as JSON text: arguments that are not ASCII are outside the exactly-modelled domain. -/
def applyEntry (role : Role) (env : Ctx) (s : State) (e : LogEntry) : Option (State × COut Res) :=
  if !(e.cmd.all isAscii) then some (s, .unmod "non-ASCII argument through encoding/json") else
  (progOf (entryCtx env e) e.cmd).map fun p => runCl role (entryCtx env e) p s

/-- applying a log in order (an entry whose command is unknown, or that fails, changes nothing more) -/
def replayLog (role : Role) (env : Ctx) : State → List LogEntry → State
  | s, [] => s
  | s, e :: r =>
    match applyEntry role env s e with
    | some (s', _) => replayLog role env s' r
    | none => replayLog role env s r

/-- the entry the leader appends for a client command it serves itself (sugardb/cluster.go:67) -/
def leaderEntry (connDb : Nat) (cmd : List Bytes) : LogEntry := { db := connDb, proto := 2, cmd := cmd }

/-- the entry the leader appends for a command forwarded by a follower: the follower's connection database
    and protocol are not carried in the gossip message -/
def forwardedEntry (_connDb : Nat) (cmd : List Bytes) : LogEntry := { db := 0, proto := 0, cmd := cmd }

/-- TransmitLimitedQueue.QueueBroadcast with BroadcastMessage.Invalidates: an equal message still queued
    is dropped in favour of the new one -/
def enqueue (q : List (List Bytes)) (m : List Bytes) : List (List Bytes) := (q.filter (· != m)) ++ [m]

/-- the messages of one gossip interval that reach the leader -/
def delivered (msgs : List (List Bytes)) : List (List Bytes) := msgs.foldl enqueue []

/-! ### raft snapshot of the dataset -/

inductive SnapOut where
  | ok (ds : List (Nat × List (Bytes × Entry)))   -- what Persist would marshal
  | panic                                          -- assignment to entry in nil map
  | spin                                           -- getState waits for stateMutationInProgress forever
  | unmod
deriving Repr

/-- FSM.Snapshot on a node: `mutationFlag` is stateMutationInProgress (left set by every write-category
    command that handleCommand routed to raft or gossip) -/
def fsmSnapshot (mutationFlag : Bool) (now : Int) (s : State) : SnapOut :=
  if mutationFlag then .spin
  else if s.dbs.any (fun (_, d) => !d.store.isEmpty) then .panic
  else match Persist.jsonState now s with
    | some ds => .ok ds
    | none => .unmod

/-- FSM.Restore of a marshalled dataset on a node (same decoding and SetValues/SetExpiry loop as the
    standalone snapshot restore) -/
def fsmRestore (now : Int) (s : State) (ds : List (Nat × List (Bytes × Entry))) : Option State :=
  Persist.restoreDataset now s ds

end Sugar.Raft
