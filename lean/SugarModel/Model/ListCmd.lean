/-
  Model.ListCmd — handlers of internal/modules/list/commands.go. Lists are Go `[]string`; every
  handler's slice arithmetic is transcribed literally, index errors become `panic`.
  (Slices of distinct keys never share a backing array after a handler returns, so lists are modelled
  as values; the in-place edits LSET/LREM make before SetValues matter only when SetValues is refused,
  which Model.Evict covers.)
-/
import SugarModel.Model.Generic
namespace Sugar

def bulkArr (xs : List Bytes) : Bytes := arrHdr xs.length ++ (xs.map bulkStr).flatten

/-- `.([]string)` type assertion on a looked-up value -/
def asList? : Val → Option (List Bytes)
  | .list xs => some xs
  | _ => none

/-- :27 handleLLen -/
def handleLLen (_c : Ctx) (cmd : List Bytes) : Prog Res :=
  match cmd with
  | [_, key] =>
    .call (.keysExist [key]) fun (ex : List Bool) =>
    if !(ex.headD false) then .ret (.ok (intReply 0)) else
    .call (.getValues [key]) fun (vs : List Val) =>
    match asList? (vs.headD .nil) with
    | some l => .ret (.ok (intReply l.length))
    | none => .ret (.err (b "LLEN command on non-list item"))
  | _ => .ret (.err wrongArgs)

/-- :48 handleLIndex -/
def handleLIndex (_c : Ctx) (cmd : List Bytes) : Prog Res :=
  match cmd with
  | [_, key, idx] =>
    .call (.keysExist [key]) fun (ex : List Bool) =>
    if !(ex.headD false) then .ret (.ok nilBulk) else
    .call (.getValues [key]) fun (vs : List Val) =>
    match asList? (vs.headD .nil) with
    | none => .ret (.err (b "LINDEX command on non-list item"))
    | some l =>
      match parseInt64 idx with
      | none => .ret (.err (b "index must be an integer"))
      | some i =>
        let i := if i < 0 then (l.length : Int) + i else i
        if i ≥ l.length || i < 0 then .ret (.ok nilBulk)
        else .ret (.ok (bulkStr (l.getD i.toNat [])))
  | _ => .ret (.err wrongArgs)

/-- index arithmetic of handleLRange :98-:131. The bounds check of `list[i]` is kept as the `panic` branch;
    `lrangePure_eq` (Lemmas.ListLemmas) shows it is unreachable. -/
def lrangePure (l : List Bytes) (start end_ : Int) : Outcome Res :=
  let len : Int := l.length
  let start := if start < 0 then len + start else start
  let start := if start < 0 then 0 else start
  let end_ := if end_ < 0 then len + end_ else end_
  let end_ := if end_ ≥ len then len - 1 else end_
  if start > end_ || start ≥ len then .done (.ok (b "*0\r\n"))
  else if start < 0 || end_ ≥ len then .panic "index out of range"
  else
    let xs := (l.drop start.toNat).take (end_ - start + 1).toNat
    .done (.ok (arrHdr (end_ - start + 1).toNat ++ (xs.map bulkStr).flatten))

/-- :81 handleLRange -/
def handleLRange (_c : Ctx) (cmd : List Bytes) : Prog Res :=
  match cmd with
  | [_, key, st, en] =>
    .call (.keysExist [key]) fun (ex : List Bool) =>
    if !(ex.headD false) then .ret (.ok (b "*0\r\n")) else
    .call (.getValues [key]) fun (vs : List Val) =>
    match asList? (vs.headD .nil) with
    | none => .ret (.err (b "LRANGE command on non-list item"))
    | some l =>
      match parseInt64 st with
      | none => .ret (.err (b "start index must be an integer"))
      | some s =>
        match parseInt64 en with
        | none => .ret (.err (b "end index must be an integer"))
        | some e => Prog.ofOutcome (lrangePure l s e)
  | _ => .ret (.err wrongArgs)

/-- :136 handleLSet -/
def handleLSet (_c : Ctx) (cmd : List Bytes) : Prog Res :=
  match cmd with
  | [_, key, idx, v] =>
    .call (.keysExist [key]) fun (ex : List Bool) =>
    if !(ex.headD false) then .ret (.err (b "LSET command on non-list item")) else
    match parseInt64 idx with
    | none => .ret (.err (b "index must be an integer"))
    | some i =>
      .call (.getValues [key]) fun (vs : List Val) =>
      match asList? (vs.headD .nil) with
      | none => .ret (.err (b "LSET command on non-list item"))
      | some l =>
        let i := if i < 0 then (l.length : Int) + i else i
        if !(i ≥ 0 && i < l.length) then .ret (.err (b "index must be within list range"))
        else setOrErr [(key, .list (l.set i.toNat v))] (.ret (.ok okReply))
  | _ => .ret (.err wrongArgs)

/-- what handleLTrim :201-:230 does with the list: delete the key, store a sub-slice, or panic (the bounds
    check of `list[start:end]`; `ltrimPure_eq` shows it is unreachable) -/
inductive TrimAct where
  | delete
  | store (xs : List Bytes)
  | panic

def ltrimPure (l : List Bytes) (start end_ : Int) : TrimAct :=
  let len : Int := l.length
  let start := if start < 0 then len + start else start
  let end_ := if end_ < 0 then len + end_ else end_
  let start := if start < 0 then 0 else start
  if start > end_ || start > len - 1 then .delete else
  let end_ := if end_ > len then len else end_
  let end_ := if end_ ≤ len - 1 then end_ + 1 else end_
  if start < 0 || end_ < start || end_ > len then .panic
  else .store ((l.drop start.toNat).take (end_ - start).toNat)

/-- :175 handleLTrim -/
def handleLTrim (_c : Ctx) (cmd : List Bytes) : Prog Res :=
  match cmd with
  | [_, key, st, en] =>
    .call (.keysExist [key]) fun (ex : List Bool) =>
    if !(ex.headD false) then .ret (.ok okReply) else
    match parseInt64 st with
    | none => .ret (.err (b "start index must be an integer"))
    | some s =>
      match parseInt64 en with
      | none => .ret (.err (b "end index must be an integer"))
      | some e =>
        .call (.getValues [key]) fun (vs : List Val) =>
        match asList? (vs.headD .nil) with
        | none => .ret (.err (b "LTRIM command on non-list item"))
        | some l =>
          match ltrimPure l s e with
          | .delete => .call (.deleteKey key) fun _ => .ret (.ok okReply)
          | .panic => .panic "slice bounds out of range"
          | .store xs => setOrErr [(key, .list xs)] (.ret (.ok okReply))
  | _ => .ret (.err wrongArgs)

/-- forward scan of handleLRem :267-:287: on a match at i the element is removed and i is stepped back, so
    the element that slid into position i is examined next. `budget = none` means "all" (count 0). -/
def lremFwd : List Bytes → Bytes → Option Nat → List Bytes
  | [], _, _ => []
  | x :: r, v, budget =>
    if budget == some 0 then x :: r
    else if x == v then lremFwd r v (budget.map (· - 1))
    else x :: lremFwd r v budget

/-- backward scan :290-:298 -/
def lremBwd (l : List Bytes) (v : Bytes) (budget : Nat) : List Bytes :=
  let rec go : List Bytes → Nat → List Bytes
    | [], _ => []
    | x :: r, n => if n == 0 then x :: r else if x == v then go r (n - 1) else x :: go r n
  (go l.reverse budget).reverse

/-- :237 handleLRem -/
def handleLRem (_c : Ctx) (cmd : List Bytes) : Prog Res :=
  match cmd with
  | [_, key, cnt, v] =>
    .call (.keysExist [key]) fun (ex : List Bool) =>
    match parseInt64 cnt with
    | none => .ret (.err (b "count must be an integer"))
    | some count =>
      if !(ex.headD false) then .ret (.ok (intReply 0)) else
      .call (.getValues [key]) fun (vs : List Val) =>
      match asList? (vs.headD .nil) with
      | none => .ret (.err (b "LREM command on non-list item"))
      | some l =>
        let l' := if count > 0 then lremFwd l v (some count.toNat)
                  else if count < 0 then lremBwd l v count.natAbs
                  else lremFwd l v none
        setOrErr [(key, .list l')] (.ret (.ok (intReply ((l.length : Int) - l'.length))))
  | _ => .ret (.err wrongArgs)

/-- :310 handleLMove -/
def handleLMove (_c : Ctx) (cmd : List Bytes) : Prog Res :=
  match cmd with
  | [_, src, dst, wf, wt] =>
    .call (.keysExist [src, dst]) fun (ex : List Bool) =>
    if !isAscii wf || !isAscii wt then .unmod "non-ASCII option token" else
    let wf := toLower wf
    let wt := toLower wt
    if !(wf == b "left" || wf == b "right") || !(wt == b "left" || wt == b "right") then
      .ret (.err (b "wherefrom and whereto arguments must be either LEFT or RIGHT"))
    else if !(ex.getD 0 false) || !(ex.getD 1 false) then
      .ret (.err (b "both source and destination must be lists"))
    else
      .call (.getValues [src, dst]) fun (vs : List Val) =>
      match asList? (vs.getD 0 .nil), asList? (vs.getD 1 .nil) with
      | some sl, some dl =>
        -- :338 an empty source list has no element to move
        if sl.isEmpty then .ret (.ok nilBulk) else
        match (if wf == b "left" then sl.head? else sl.getLast?) with
        | none => .panic "slice bounds out of range (empty source)"   -- unreachable: `sl` is not empty
        | some e =>
          let sl' := if wf == b "left" then sl.drop 1 else sl.dropLast
          -- :344 same key: the element goes back into what is left of the list (rotation)
          let dl := if src == dst then sl' else dl
          let dl' := if wt == b "left" then e :: dl else dl ++ [e]
          -- map literal {source: …, destination: …}: a repeated key keeps the destination value
          setOrErr [(src, .list sl'), (dst, .list dl')] (.ret (.ok okReply))
      | _, _ => .ret (.err (b "both source and destination must be lists"))
  | _ => .ret (.err wrongArgs)

/-- :385 handleLPush / :424 handleRPush (LPUSH, LPUSHX, RPUSH, RPUSHX) -/
def handlePush (left : Bool) (_c : Ctx) (cmd : List Bytes) : Prog Res :=
  if cmd.length < 3 then .ret (.err wrongArgs) else
  match cmd with
  | name :: key :: elems =>
    if !isAscii name then .unmod "non-ASCII command name" else
    .call (.keysExist [key]) fun (ex : List Bool) =>
    let n := toLower name
    let tail : Prog Res :=
      .call (.getValues [key]) fun (vs : List Val) =>
      match asList? (vs.headD .nil) with
      | none => .ret (.err (if left then b "LPUSH command on non-list item" else b "RPUSH command on non-list item"))
      | some l =>
        let l' := if left then elems ++ l else l ++ elems
        setOrErr [(key, .list l')] (.ret (.ok (intReply l'.length)))
    if !(ex.headD false) then
      if n == b "lpushx" && left then .ret (.err (b "LPUSHX command on non-existent key"))
      else if n == b "rpushx" && !left then .ret (.err (b "RPUSHX command on non-existent key"))
      -- :405 / :446 the list does not exist yet: it is stored with ONE SetValues call (repaired upstream)
      else setOrErr [(key, .list elems)] (.ret (.ok (intReply elems.length)))
    else tail
  | _ => .ret (.err wrongArgs)

/-- :462 handlePop (LPOP / RPOP) -/
def handlePop (_c : Ctx) (cmd : List Bytes) : Prog Res :=
  if cmd.length < 2 || cmd.length > 3 then .ret (.err wrongArgs) else
  match cmd with
  | name :: key :: rest =>
    if !isAscii name then .unmod "non-ASCII command name" else
    .call (.keysExist [key]) fun (ex : List Bool) =>
    if !(ex.headD false) then .ret (.ok nilBulk) else
    .call (.getValues [key]) fun (vs : List Val) =>
    match asList? (vs.headD .nil) with
    | none => .ret (.err (toUpper name ++ b " command on non-list item"))
    | some l =>
      let withCount := !rest.isEmpty
      match (match rest with
             | [] => some 1
             | c :: _ => (parseInt64 c).map fun n => min n.natAbs l.length) with
      | none => .ret (.err (b "count must be an integer"))
      | some count =>
        if l.isEmpty then .ret (.ok nilBulk) else
        let left := eqFold name (b "lpop")
        let popped := if left then l.take count else (l.reverse.take count)
        let l' := if left then l.drop count else l.take (l.length - count)
        setOrErr [(key, .list l')] <|
          if !withCount then .ret (.ok (bulkStr (popped.headD []))) else .ret (.ok (bulkArr popped))
  | _ => .ret (.err wrongArgs)

end Sugar
