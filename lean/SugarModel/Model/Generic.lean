/-
  Model.Generic — handlers of internal/modules/generic/commands.go and
  internal/modules/string/commands.go, written against the keyspace primitives in the same order
  as the Go source, quirks included. Arity checks are those of the key-extraction functions
  (generic/key_funcs.go, string/key_funcs.go).
-/
import SugarModel.Base.Resp
import SugarModel.Model.Keyspace
namespace Sugar

def wrongArgs : Bytes := b "wrong number of arguments"

/-- Go `%v` of a `[]string` -/
def fmtStrSlice (xs : List Bytes) : Bytes := b "[" ++ (xs.intersperse (b " ")).flatten ++ b "]"

/-- `+%v\r\n` of a stored value; `unmod` where `%v` prints addresses / map layout -/
def plusV (v : Val) (k : Bytes → Prog Res) : Prog Res :=
  match v.fmtV with
  | some t => k (simpleStr t)
  | none => .unmod "fmtV of set/zset/hash"

/-- seconds → deadline in ms; time.Duration(n)*time.Second wraps beyond ±9.2e9 s: outside the domain -/
def addSeconds (now n : Int) : Option Int := if n.natAbs ≤ 4000000000 then some (now + n * 1000) else none
def addMillis (now n : Int) : Option Int := if n.natAbs ≤ 4000000000000 then some (now + n) else none
def atSeconds (n : Int) : Option Int := if n.natAbs ≤ 4000000000 then some (n * 1000) else none
def atMillis (n : Int) : Option Int := if n.natAbs ≤ 4000000000000 then some n else none

/-! ### SET option parser (generic/utils.go:32 getSetCommandOptions) -/

structure SetOpts where
  exists_ : Bytes := []          -- "", "NX" or "XX"
  get : Bool := false
  expireAt : Option Int := none  -- interface{}: nil or a time.Time
deriving Repr, DecidableEq

inductive PRes (α : Type) where
  | ok (a : α)
  | err (msg : Bytes)
  | unmod (why : String)
deriving Repr

def setOptExpiry (now : Int) (kw : Bytes) (arg : Bytes) (o : SetOpts) : PRes SetOpts :=
  let isSec := kw == b "ex" || kw == b "exat"
  let need := if isSec then b "seconds" else b "milliseconds"
  if o.expireAt.isSome then .err (b "cannot specify " ++ toUpper kw ++ b " when expiry time is already set") else
  match parseInt64 arg with
  | none => .err (need ++ b " value should be an integer")
  | some n =>
    let t := if kw == b "ex" then addSeconds now n else if kw == b "px" then addMillis now n
             else if kw == b "exat" then atSeconds n else atMillis n
    match t with
    | none => .unmod "expiry argument outside modelled time range"
    | some t => .ok { o with expireAt := some t }

def getSetCommandOptions (now : Int) : List Bytes → SetOpts → PRes SetOpts
  | [], o => .ok o
  | tok :: rest, o =>
    if !isAscii tok then .unmod "non-ASCII option token" else
    let kw := toLower tok
    if kw == b "get" then getSetCommandOptions now rest { o with get := true }
    else if kw == b "nx" || kw == b "xx" then
      if o.exists_ != [] then
        .err (b "cannot specify " ++ toUpper kw ++ b " when " ++ toUpper o.exists_ ++ b " is already specified")
      else getSetCommandOptions now rest { o with exists_ := toUpper kw }
    else if kw == b "ex" || kw == b "px" || kw == b "exat" || kw == b "pxat" then
      match rest with
      | [] => .err ((if kw == b "ex" || kw == b "exat" then b "seconds" else b "milliseconds")
                      ++ b " value required after " ++ toUpper kw)
      | arg :: rest' =>
        match setOptExpiry now kw arg o with
        | .ok o' => getSetCommandOptions now rest' o'
        | .err m => .err m
        | .unmod w => .unmod w
    else .err (b "unknown option " ++ toUpper tok ++ b " for set command")

def maxMemErr : Bytes := b "max memory reached, key value not set"

/-- SetValues with the handler's standard error propagation -/
def setOrErr (es : List (Bytes × Val)) (k : Prog Res) : Prog Res :=
  .call (.setValues es) fun (ok : Bool) => if ok then k else .ret (.err maxMemErr)

def adaptOr (s : Bytes) (k : Val → Prog Res) : Prog Res :=
  match (adaptType s).toVal? with
  | some v => k v
  | none => .unmod "AdaptType outside exact numeric domain"

/-- generic/commands.go:35 handleSet -/
def handleSet (c : Ctx) (cmd : List Bytes) : Prog Res :=
  if cmd.length < 3 || cmd.length > 7 then .ret (.err wrongArgs) else
  match cmd with
  | _ :: key :: value :: opts =>
    .call (.keysExist [key]) fun (ex : List Bool) =>
    let keyExists := ex.headD false
    match getSetCommandOptions c.now opts {} with
    | .err m => .ret (.err m)
    | .unmod w => .unmod w
    | .ok o =>
      let afterGet (res : Bytes) : Prog Res :=
        if o.exists_ == b "XX" && !keyExists then .ret (.err (b "key " ++ key ++ b " does not exist"))
        else if o.exists_ == b "NX" && keyExists then .ret (.err (b "key " ++ key ++ b " already exists"))
        else
          adaptOr value fun v =>
          setOrErr [(key, v)] <|
            match o.expireAt with
            | some t => .call (.setExpiry key (some t) false) fun _ => .ret (.ok res)
            | none => .ret (.ok res)
      if o.get then
        if !keyExists then afterGet nilBulk
        else .call (.getValues [key]) fun (vs : List Val) => plusV (vs.headD .nil) fun r => afterGet r
      else afterGet okReply
  | _ => .ret (.err wrongArgs)

def pairUp : List Bytes → List (Bytes × Bytes)
  | k :: v :: r => (k, v) :: pairUp r
  | _ => []

/-- adapt all values; none = outside the numeric domain -/
def adaptAll : List (Bytes × Bytes) → Option (List (Bytes × Val))
  | [] => some []
  | (k, v) :: r => do
      let v' ← (adaptType v).toVal?
      let r' ← adaptAll r
      pure ((k, v') :: r')

/-- :88 handleMSet -/
def handleMSet (_c : Ctx) (cmd : List Bytes) : Prog Res :=
  let args := cmd.drop 1
  if args.length % 2 != 0 then .ret (.err (b "each key must be paired with a value")) else
  match adaptAll (pairUp args) with
  | none => .unmod "AdaptType outside exact numeric domain"
  | some es => setOrErr es (.ret (.ok okReply))

/-- :111 handleGet -/
def handleGet (_c : Ctx) (cmd : List Bytes) : Prog Res :=
  match cmd with
  | [_, key] =>
    .call (.keysExist [key]) fun (ex : List Bool) =>
    if !(ex.headD false) then .ret (.ok nilBulk) else
    .call (.getValues [key]) fun (vs : List Val) => plusV (vs.headD .nil) fun r => .ret (.ok r)
  | _ => .ret (.err wrongArgs)

/-- `fmt.Sprintf("%v", value)` for MGET; nil ↦ "" -/
def mgetText (v : Val) : Option Bytes :=
  match v with
  | .nil => some []
  | v => v.fmtV

def mgetBody : List Val → Option Bytes
  | [] => some []
  | v :: r => do
      let t ← mgetText v
      let rest ← mgetBody r
      pure ((if v == .nil then nilBulk else bulkStr t) ++ rest)

/-- :128 handleMGet — values are looked up once per distinct key, then rendered per argument;
    `GetValues` on a repeated key gives the same answer, so the per-argument list is used. -/
def handleMGet (_c : Ctx) (cmd : List Bytes) : Prog Res :=
  if cmd.length < 2 then .ret (.err wrongArgs) else
  let keys := cmd.drop 1
  .call (.getValues keys) fun (vs : List Val) =>
    match mgetBody vs with
    | some body => .ret (.ok (arrHdr keys.length ++ body))
    | none => .unmod "fmtV of set/zset/hash"

/-- delete the listed keys one primitive at a time -/
def delEach : List Bytes → Prog Res → Prog Res
  | [], k => k
  | x :: r, k => .call (.deleteKey x) fun _ => delEach r k

/-- :156 handleDel — iterates the KeysExist *map*, so repeated keys count once -/
def handleDel (_c : Ctx) (cmd : List Bytes) : Prog Res :=
  if cmd.length < 2 then .ret (.err wrongArgs) else
  let keys := (cmd.drop 1).eraseDups
  .call (.keysExist keys) fun (ex : List Bool) =>
    let present := (keys.zip ex).filterMap fun (k, e) => if e then some k else none
    delEach present (.ret (.ok (intReply present.length)))

/-- :176 handlePersist -/
def handlePersist (_c : Ctx) (cmd : List Bytes) : Prog Res :=
  match cmd with
  | [_, key] =>
    .call (.keysExist [key]) fun (ex : List Bool) =>
    if !(ex.headD false) then .ret (.ok (intReply 0)) else
    .call (.getExpiry key) fun (e : Option Int) =>
    match e with
    | none => .ret (.ok (intReply 0))
    | some _ => .call (.setExpiry key none false) fun _ => .ret (.ok (intReply 1))
  | _ => .ret (.err wrongArgs)

/-- :199 handleExpireTime (EXPIRETIME / PEXPIRETIME) -/
def handleExpireTime (_c : Ctx) (cmd : List Bytes) : Prog Res :=
  match cmd with
  | [name, key] =>
    if !isAscii name then .unmod "non-ASCII command name" else
    .call (.keysExist [key]) fun (ex : List Bool) =>
    if !(ex.headD false) then .ret (.ok (intReply (-2))) else
    .call (.getExpiry key) fun (e : Option Int) =>
    match e with
    | none => .ret (.ok (intReply (-1)))
    | some t => .ret (.ok (intReply (if toLower name == b "pexpiretime" then t else t / 1000)))
  | _ => .ret (.err wrongArgs)

/-- :226 handleTTL (TTL / PTTL) -/
def handleTTL (c : Ctx) (cmd : List Bytes) : Prog Res :=
  match cmd with
  | [name, key] =>
    if !isAscii name then .unmod "non-ASCII command name" else
    .call (.keysExist [key]) fun (ex : List Bool) =>
    if !(ex.headD false) then .ret (.ok (intReply (-2))) else
    .call (.getExpiry key) fun (e : Option Int) =>
    match e with
    | none => .ret (.ok (intReply (-1)))
    | some t =>
      let d := if toLower name == b "pttl" then t - c.now else t / 1000 - c.now / 1000
      .ret (.ok (intReply (if d ≤ 0 then 0 else d)))
  | _ => .ret (.err wrongArgs)

/-- shared NX/XX/GT/LT tail of handleExpire :259 and handleExpireAt :326 -/
def expireTail (key : Bytes) (cmd : List Bytes) (expireAt : Int) (keyExists : Bool) : Prog Res :=
  if !keyExists then .ret (.ok (intReply 0)) else
  match cmd with
  | [_, _, _] => .call (.setExpiry key (some expireAt) true) fun _ => .ret (.ok (intReply 1))
  | [_, _, _, opt] =>
    if !isAscii opt then .unmod "non-ASCII option token" else
    .call (.getExpiry key) fun (cur : Option Int) =>
    let set : Prog Res := .call (.setExpiry key (some expireAt) false) fun _ => .ret (.ok (intReply 1))
    let zero : Prog Res := .ret (.ok (intReply 0))
    let o := toLower opt
    if o == b "nx" then (if cur.isSome then zero else set)
    else if o == b "xx" then (if cur.isNone then zero else set)
    else if o == b "gt" then
      match cur with
      | none => zero
      | some ct => if expireAt < ct then zero else set
    else if o == b "lt" then
      match cur with
      | none => set
      | some ct => if ct < expireAt then zero
                   else .call (.setExpiry key (some expireAt) false) fun _ => set
    else .ret (.err (b "unknown option " ++ toUpper opt))
  | _ => .ret (.err wrongArgs)

/-- :259 handleExpire (EXPIRE / PEXPIRE) -/
def handleExpire (c : Ctx) (cmd : List Bytes) : Prog Res :=
  if cmd.length < 3 || cmd.length > 4 then .ret (.err wrongArgs) else
  match cmd with
  | name :: key :: n :: _ =>
    if !isAscii name then .unmod "non-ASCII command name" else
    .call (.keysExist [key]) fun (ex : List Bool) =>
    match parseInt64 n with
    | none => .ret (.err (b "expire time must be integer"))
    | some n =>
      match (if toLower name == b "pexpire" then addMillis c.now n else addSeconds c.now n) with
      | none => .unmod "expiry argument outside modelled time range"
      | some t => expireTail key cmd t (ex.headD false)
  | _ => .ret (.err wrongArgs)

/-- :326 handleExpireAt (EXPIREAT / PEXPIREAT) -/
def handleExpireAt (_c : Ctx) (cmd : List Bytes) : Prog Res :=
  if cmd.length < 3 || cmd.length > 4 then .ret (.err wrongArgs) else
  match cmd with
  | name :: key :: n :: _ =>
    if !isAscii name then .unmod "non-ASCII command name" else
    .call (.keysExist [key]) fun (ex : List Bool) =>
    match parseInt64 n with
    | none => .ret (.err (b "expire time must be integer"))
    | some n =>
      match (if toLower name == b "pexpireat" then atMillis n else atSeconds n) with
      | none => .unmod "expiry argument outside modelled time range"
      | some t => expireTail key cmd t (ex.headD false)
  | _ => .ret (.err wrongArgs)

def overflowErr : Bytes := b "increment or decrement would overflow"

/-- common body of INCR/DECR/INCRBY/DECRBY (:393-:647): read, parse, add, store as decimal text. A result
    outside the int64 range is refused before anything is stored (repaired in /repo by a `fix:` commit;
    before it the sum wrapped around). `absent` is the value a missing key gets (DECRBY of the smallest
    int64 has none inside the range), `f` the arithmetic on a stored integer. -/
def incrCore (key : Bytes) (absent : Int) (f : Int → Int) : Prog Res :=
  .call (.getValues [key]) fun (vs : List Val) =>
  let store (n : Int) : Prog Res :=
    if n < minInt64 || n > maxInt64 then .ret (.err overflowErr)
    else setOrErr [(key, .str (fmtInt n))] (.ret (.ok (intReply n)))
  match vs.headD .nil with
  | .nil => store absent
  | .str s =>
    match parseInt64 s with
    | none => .ret (.err (b "value is not an integer or out of range"))
    | some cur => store (f cur)
  | .int cur => store (f cur)
  | _ => .ret (.err (b "unexpected type for currentValue"))

def handleIncr (_c : Ctx) (cmd : List Bytes) : Prog Res :=
  match cmd with
  | [_, key] => incrCore key 1 (· + 1)
  | _ => .ret (.err wrongArgs)

def handleDecr (_c : Ctx) (cmd : List Bytes) : Prog Res :=
  match cmd with
  | [_, key] => incrCore key (-1) (· - 1)
  | _ => .ret (.err wrongArgs)

def handleIncrBy (_c : Ctx) (cmd : List Bytes) : Prog Res :=
  match cmd with
  | [_, key, n] =>
    match parseInt64 n with
    | none => .ret (.err (b "increment value is not an integer or out of range"))
    | some n => incrCore key n (· + n)
  | _ => .ret (.err wrongArgs)

def handleDecrBy (_c : Ctx) (cmd : List Bytes) : Prog Res :=
  match cmd with
  | [_, key, n] =>
    match parseInt64 n with
    | none => .ret (.err (b "decrement value is not an integer or out of range"))
    | some n => incrCore key (n * -1) (· - n)
  | _ => .ret (.err wrongArgs)

/-- :539 handleIncrByFloat -/
def handleIncrByFloat (_c : Ctx) (cmd : List Bytes) : Prog Res :=
  match cmd with
  | [_, key, n] =>
    match parseFloat64 n with
    | none => .ret (.err (b "increment value is not a float or out of range"))
    | some none => .unmod "float outside exact domain"
    | some (some incr) =>
      .call (.getValues [key]) fun (vs : List Val) =>
      let store (f : Flt) : Prog Res :=
        setOrErr [(key, .str f.fmtG)] (.ret (.ok (bulkStr f.fmtG)))
      let addTo (cur : Option Flt) : Prog Res :=
        match cur with
        | none => .unmod "float outside exact domain"
        | some cur => match cur.add incr with
          | none => .unmod "float arithmetic outside exact domain"
          | some r => store r
      match vs.headD .nil with
      | .nil => store incr
      | .str s =>
        match parseFloat64 s with
        | none => .ret (.err (b "value is not a float or integer"))
        | some cur => addTo cur
      | .flt f => addTo (some f)
      | .int i => addTo (Flt.ofInt i)
      | _ => .ret (.err (b "unexpected type for currentValue"))
  | _ => .ret (.err wrongArgs)

/-- :649 handleRename. The value moves with its own deadline (repaired in /repo by a `fix:` commit; before it
    SetValues' "an overwritten entry keeps its deadline" gave the moved value the destination's deadline and
    the source's was dropped): both deadlines are read, the value is written, and SetExpiry is issued on the
    destination exactly when the deadline SetValues left there differs from the source's. -/
def handleRename (_c : Ctx) (cmd : List Bytes) : Prog Res :=
  match cmd with
  | [_, oldKey, newKey] =>
    .call (.getValues [oldKey]) fun (vs : List Val) =>
    match vs.headD .nil with
    | .nil => .ret (.err (b "no such key"))
    | v => if oldKey == newKey then .ret (.ok okReply) else
           .call (.getExpiry oldKey) fun (e : Option Int) =>
           .call (.getExpiry newKey) fun (eNew : Option Int) =>
           setOrErr [(newKey, v)] <|
             let fin : Prog Res := .call (.deleteKey oldKey) fun _ => .ret (.ok okReply)
             if e != eNew then .call (.setExpiry newKey e false) fun _ => fin else fin
  | _ => .ret (.err wrongArgs)

/-- :678 handleFlush (FLUSHALL / FLUSHDB) -/
def handleFlush (_c : Ctx) (cmd : List Bytes) : Prog Res :=
  match cmd with
  | [name] =>
    if !isAscii name then .unmod "non-ASCII command name" else
    .call (.flush (eqFold name (b "flushall"))) fun _ => .ret (.ok okReply)
  | _ => .ret (.err wrongArgs)

/-- :700 handleGetdel -/
def handleGetdel (_c : Ctx) (cmd : List Bytes) : Prog Res :=
  match cmd with
  | [_, key] =>
    .call (.keysExist [key]) fun (ex : List Bool) =>
    if !(ex.headD false) then .ret (.ok nilBulk) else
    .call (.getValues [key]) fun (vs : List Val) =>
    .call (.deleteKey key) fun _ => plusV (vs.headD .nil) fun r => .ret (.ok r)
  | _ => .ret (.err wrongArgs)

/-- :722 handleGetex. PERSIST is recognised right after the key (a time argument after it is ignored,
    whatever it is); the other options need an integer time argument. -/
def handleGetex (c : Ctx) (cmd : List Bytes) : Prog Res :=
  if cmd.length < 2 || cmd.length > 4 then .ret (.err wrongArgs) else
  match cmd with
  | _ :: key :: rest =>
    .call (.keysExist [key]) fun (ex : List Bool) =>
    if !(ex.headD false) then .ret (.ok nilBulk) else
    .call (.getValues [key]) fun (vs : List Val) =>
    plusV (vs.headD .nil) fun reply =>
    match rest with
    | [] => .ret (.ok reply)
    | opt :: rest' =>
      if !isAscii opt then .unmod "non-ASCII option token" else
      let o := toUpper opt
      if o == b "PERSIST" then .call (.setExpiry key none false) fun _ => .ret (.ok reply) else
      match rest' with
      | [] => .ret (.ok reply)
      | n :: _ =>
        match parseInt64 n with
        | none => .ret (.err (b "expire time must be integer"))
        | some n =>
          let setTo (t : Option Int) : Prog Res :=
            match t with
            | none => .unmod "expiry argument outside modelled time range"
            | some e => .call (.setExpiry key (some e) false) fun _ => .ret (.ok reply)
          if o == b "EX" then setTo (addSeconds c.now n)
          else if o == b "PX" then setTo (addMillis c.now n)
          else if o == b "EXAT" then setTo (atSeconds n)
          else if o == b "PXAT" then setTo (atMillis n)
          else .ret (.err (b "unknown option " ++ o ++ b " -- '" ++ fmtStrSlice cmd ++ b "'"))
  | _ => .ret (.err wrongArgs)

/-- :789 handleType — a value that reads as nil (the key expired between KeysExist and GetValues, or the entry
    holds only a deadline) is answered like a missing key -/
def handleType (_c : Ctx) (cmd : List Bytes) : Prog Res :=
  match cmd with
  | [_, key] =>
    .call (.keysExist [key]) fun (ex : List Bool) =>
    if !(ex.headD false) then .ret (.err (b "key " ++ key ++ b " does not exist")) else
    .call (.getValues [key]) fun (vs : List Val) =>
    match vs.headD .nil with
    | .nil => .ret (.err (b "key " ++ key ++ b " does not exist"))
    | .str _ => .ret (.ok (simpleStr (b "string")))
    | .int _ => .ret (.ok (simpleStr (b "integer")))
    | .flt _ => .ret (.ok (simpleStr (b "float")))
    | .list _ => .ret (.ok (simpleStr (b "list")))
    | .hash _ => .ret (.ok (simpleStr (b "hash")))
    | .set _ _ => .ret (.ok (simpleStr (b "set")))
    | .zset _ _ => .ret (.ok (simpleStr (b "zset")))
    | .ilist _ => .ret (.ok (simpleStr (b "list")))
  | _ => .ret (.err wrongArgs)

/-! ### string module (internal/modules/string/commands.go) -/

def asInt? (s : Bytes) : Option (Option Int) :=
  match adaptType s with
  | .int i => some (some i)
  | .unmod => none
  | _ => some none

/-- :25 handleSetRange -/
def handleSetRange (_c : Ctx) (cmd : List Bytes) : Prog Res :=
  match cmd with
  | [_, key, off, newStr] =>
    .call (.keysExist [key]) fun (ex : List Bool) =>
    match asInt? off with
    | none => .unmod "AdaptType outside exact numeric domain"
    | some none => .ret (.err (b "offset must be an integer"))
    | some (some offset) =>
      if !(ex.headD false) then setOrErr [(key, .str newStr)] (.ret (.ok (intReply newStr.length))) else
      .call (.getValues [key]) fun (vs : List Val) =>
      match vs.headD .nil with
      | .str str =>
        if offset ≥ str.length then
          let r := str ++ newStr
          setOrErr [(key, .str r)] (.ret (.ok (intReply r.length)))
        else if offset < 0 then
          let r := newStr ++ str
          setOrErr [(key, .str r)] (.ret (.ok (intReply r.length)))
        else
          let o := offset.toNat
          let r := str.take o ++ newStr ++ str.drop (o + newStr.length)
          setOrErr [(key, .str r)] (.ret (.ok (intReply r.length)))
      | _ => .ret (.err (b "value at key " ++ key ++ b " is not a string"))
  | _ => .ret (.err wrongArgs)

/-- :89 handleStrLen -/
def handleStrLen (_c : Ctx) (cmd : List Bytes) : Prog Res :=
  match cmd with
  | [_, key] =>
    .call (.keysExist [key]) fun (ex : List Bool) =>
    if !(ex.headD false) then .ret (.ok (intReply 0)) else
    .call (.getValues [key]) fun (vs : List Val) =>
    match vs.headD .nil with
    | .str s => .ret (.ok (intReply s.length))
    | _ => .ret (.err (b "value at key " ++ key ++ b " is not a string"))
  | _ => .ret (.err wrongArgs)

/-- index arithmetic of handleSubStr on the stored string: negative indices count from the end, both
    indices are clamped into `[0, len]`, an end index not before the start is made exclusive; a start
    after the end selects the bytes in between, reversed. The Go slice expression `value[lo:hi]` is
    always within bounds (`subStr_bounds`). -/
def subStrIdx (len start end_ : Int) : Int × Int :=
  let start := if start < 0 then len - start.natAbs else start
  let end_ := if end_ < 0 then len - end_.natAbs else end_
  let start := if start < 0 then 0 else start
  let start := if start > len then len else start
  let end_ := if end_ < 0 then 0 else end_
  let end_ := if end_ > len then len else end_
  let end_ := if end_ ≥ 0 && end_ ≥ start then end_ + 1 else end_
  let end_ := if end_ > len then len else end_
  (start, end_)

def subStrPure (value : Bytes) (start end_ : Int) : Outcome Res :=
  let se := subStrIdx value.length start end_
  let reversed := decide (se.1 > se.2)
  let lo := if reversed then se.2 else se.1
  let hi := if reversed then se.1 else se.2
  let str := (value.drop lo.toNat).take (hi - lo).toNat
  if reversed then
    if !isAscii str then .unmod "reversed GETRANGE on non-ASCII (rune conversion)"
    else .done (.ok (bulkStr str.reverse))
  else .done (.ok (bulkStr str))

/-- :111 handleSubStr (SUBSTR / GETRANGE) -/
def handleSubStr (_c : Ctx) (cmd : List Bytes) : Prog Res :=
  match cmd with
  | [_, key, st, en] =>
    .call (.keysExist [key]) fun (ex : List Bool) =>
    match asInt? st, asInt? en with
    | none, _ => .unmod "AdaptType outside exact numeric domain"
    | _, none => .unmod "AdaptType outside exact numeric domain"
    | some none, _ => .ret (.err (b "start and end indices must be integers"))
    | _, some none => .ret (.err (b "start and end indices must be integers"))
    | some (some start), some (some end_) =>
      if !(ex.headD false) then .ret (.err (b "key " ++ key ++ b " does not exist")) else
      .call (.getValues [key]) fun (vs : List Val) =>
      match vs.headD .nil with
      | .str value => Prog.ofOutcome (subStrPure value start end_)
      | _ => .ret (.err (b "value at key " ++ key ++ b " is not a string"))
  | _ => .ret (.err wrongArgs)

/-- :170 handleAppend -/
def handleAppend (_c : Ctx) (cmd : List Bytes) : Prog Res :=
  match cmd with
  | [_, key, value] =>
    .call (.keysExist [key]) fun (ex : List Bool) =>
    if !(ex.headD false) then
      adaptOr value fun v => setOrErr [(key, v)] (.ret (.ok (intReply value.length)))
    else
      .call (.getValues [key]) fun (vs : List Val) =>
      match vs.headD .nil with
      | .str cur =>
        let nv := cur ++ value
        adaptOr nv fun v => setOrErr [(key, v)] (.ret (.ok (intReply nv.length)))
      | _ => .ret (.err (b "Value at key " ++ key ++ b " is not a string"))
  | _ => .ret (.err wrongArgs)

end Sugar
