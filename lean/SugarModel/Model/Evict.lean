/-
  Model.Evict — the max-memory machinery of a standalone server, transcribed literally:
    * Go's container/heap (`up`, `down`, `Push`, `Pop`, `Remove`, `Fix`) on a list;
    * internal/eviction/lfu.go, lru.go (`Less`, `Push`, `Pop`, `Update`, `Delete`, `Flush`, `Len`, `GetCount`, `GetTime`);
    * sugardb/keyspace.go: deleteKey :281 with its cache leg, updateKeysInCache :358, adjustMemoryUsage :436 per policy
      (fuel-bounded loops with explicit `panic` / `hang` outcomes), the cache legs of getValues / setValues / setExpiry / Flush;
    * TOUCH / OBJECTFREQ / OBJECTIDLETIME (internal/modules/generic/commands.go :829 :843 :858).

  Schedule: the `go func` cache updates run to completion right after the primitive that spawns them, the
  per-database adjustMemoryUsage goroutines run one after the other in an order left open (`Env.dbOrder`).
  This is the schedule the harness forces through the verifhook points.

  Bugs are kept: CacheLRU.Push never records the key (every access pushes a duplicate), CacheLRU.Less pops the
  most recent stamp first, deleteKey of an absent key still subtracts.
  Repaired upstream (the model follows): Flush empties the heaps and the volatile slice (no nil / "" cells are left),
  volatile-random draws among the volatile keys of the database and reports "nothing to evict" when there is none,
  allkeys-random draws among the keys of the database and reports "no keys to evict" when it is empty,
  OBJECTFREQ / OBJECTIDLETIME on a database without caches answer "key does not exist".
-/
import SugarModel.Model.Dispatch
namespace Sugar.Evict
open Sugar

/-! ## container/heap -/
section Heap
variable {α : Type}

/-- `h.Swap(i, j)` on the backing slice (out of range: Go would panic; callers stay in range) -/
def swap (xs : List α) (i j : Nat) : List α :=
  match xs[i]?, xs[j]? with
  | some a, some c => (xs.set i c).set j a
  | _, _ => xs

/-- `h.Less(i, j)` -/
def lessAt (lt : α → α → Bool) (xs : List α) (i j : Nat) : Bool :=
  match xs[i]?, xs[j]? with
  | some a, some c => lt a c
  | _, _ => false

/-- heap.go `up`: `for { i := (j-1)/2; if i == j || !h.Less(j, i) { break }; h.Swap(i, j); j = i }` -/
def upF (lt : α → α → Bool) : Nat → List α → Nat → List α
  | 0, xs, _ => xs
  | fuel + 1, xs, j =>
    if j = 0 then xs else
    let i := (j - 1) / 2
    if lessAt lt xs j i then upF lt fuel (swap xs i j) i else xs

def up (lt : α → α → Bool) (xs : List α) (j : Nat) : List α := upF lt j xs j

/-- heap.go `down(h, i0, n)`; returns the slice and the final position (`i > i0` is Go's result) -/
def downF (lt : α → α → Bool) : Nat → List α → Nat → Nat → List α × Nat
  | 0, xs, i, _ => (xs, i)
  | fuel + 1, xs, i, n =>
    let j1 := 2 * i + 1
    if j1 ≥ n then (xs, i) else
    let j := if j1 + 1 < n && lessAt lt xs (j1 + 1) j1 then j1 + 1 else j1
    if !lessAt lt xs j i then (xs, i) else downF lt fuel (swap xs i j) j n

def down (lt : α → α → Bool) (xs : List α) (i n : Nat) : List α × Nat := downF lt n xs i n

/-- `heap.Push(h, x)` with `h.Push` = append -/
def hpush (lt : α → α → Bool) (xs : List α) (x : α) : List α := up lt (xs ++ [x]) xs.length

/-- `heap.Pop(h)`: `n := h.Len()-1; h.Swap(0, n); down(h, 0, n); return h.Pop()`; `none` on an empty slice (Go: index panic) -/
def hpop (lt : α → α → Bool) (xs : List α) : Option (α × List α) :=
  match xs with
  | [] => none
  | x0 :: _ =>
    let n := xs.length - 1
    let ys := (down lt (swap xs 0 n) 0 n).1
    some (ys.getLastD x0, ys.dropLast)

/-- `heap.Fix(h, i)`: `if !down(h, i, h.Len()) { up(h, i) }` -/
def hfix (lt : α → α → Bool) (xs : List α) (i : Nat) : List α :=
  let (ys, p) := down lt xs i xs.length
  if p > i then ys else up lt ys i

/-- `heap.Remove(h, i)` -/
def hremove (lt : α → α → Bool) (xs : List α) (i : Nat) : List α :=
  let n := xs.length - 1
  let ys := if n ≠ i then
      let (zs, p) := down lt (swap xs i n) i n
      if p > i then zs else up lt zs i
    else xs
  ys.dropLast

end Heap

/-! ## the two caches -/

structure LfuE where
  key : Bytes
  count : Nat
  added : Nat        -- time.Now().UnixMilli() at Push
deriving DecidableEq, Repr, Inhabited

structure LruE where
  key : Bytes
  time : Nat         -- unixTime
deriving DecidableEq, Repr, Inhabited

/-- lfu.go :72 Less -/
def lfuLess (a c : LfuE) : Bool :=
  if a.count == c.count then decide (a.added > c.added) else decide (a.count < c.count)

/-- lru.go :70 Less -/
def lruLess (a c : LruE) : Bool := decide (a.time > c.time)

/-- `keys map[string]bool` + `entries []*Entry` (a `none` cell is a nil pointer; no operation of the repaired code
    creates one — the cell type is kept so that dumps of the real heaps are representable whatever they hold) -/
structure Cache (E : Type) where
  keys : List Bytes := []
  cells : List (Option E) := []
deriving DecidableEq, Repr, Inhabited

/-- the entries when no cell is nil -/
def unwrapCells {E : Type} : List (Option E) → Option (List E)
  | [] => some []
  | none :: _ => none
  | some e :: r => (unwrapCells r).map (e :: ·)

def wrap {E : Type} (es : List E) : List (Option E) := es.map some

def addKey (ks : List Bytes) (k : Bytes) : List Bytes := if ks.contains k then ks else ks ++ [k]

/-- Flush: `clear(cache.keys); cache.entries = make([]*Entry, 0)` — both empty (repaired upstream) -/
def Cache.flush {E : Type} (_c : Cache E) : Cache E := ⟨[], []⟩

def Cache.len {E : Type} (c : Cache E) : Nat := c.cells.length

/-- `slices.IndexFunc(entries, e.key == key)` -/
def idxLfu (es : List LfuE) (k : Bytes) : Option Nat := es.findIdx? fun e => e.key == k
def idxLru (es : List LruE) (k : Bytes) : Option Nat := es.findIdx? fun e => e.key == k

/-- CacheLFU.Update :112. `none` = nil-pointer dereference (a cell is nil) or index panic. -/
def lfuUpdate (c : Cache LfuE) (k : Bytes) (now : Nat) : Option (Cache LfuE) :=
  if !c.keys.contains k then
    -- heap.Push: Push appends and records the key; `up` compares with the parent cell
    if c.cells.isEmpty then some ⟨addKey c.keys k, [some ⟨k, 1, now⟩]⟩ else
    match unwrapCells c.cells with
    | none => none
    | some es => some ⟨addKey c.keys k, wrap (hpush lfuLess es ⟨k, 1, now⟩)⟩
  else
    match unwrapCells c.cells with
    | none => none
    | some es =>
      match idxLfu es k with
      | none => none                       -- entries[-1]
      | some i =>
        let es' := es.modify i fun e => { e with count := e.count + 1 }
        some ⟨c.keys, wrap (hfix lfuLess es' i)⟩

/-- CacheLRU.Update :103: Push does not record the key, so `contains` stays false and every call pushes -/
def lruUpdate (c : Cache LruE) (k : Bytes) (now1 now2 : Nat) : Option (Cache LruE) :=
  let pushed : Option (List LruE) :=
    if !c.keys.contains k then
      if c.cells.isEmpty then some [⟨k, now1⟩] else
      (unwrapCells c.cells).map fun es => hpush lruLess es ⟨k, now1⟩
    else unwrapCells c.cells
  match pushed with
  | none => none
  | some es =>
    match idxLru es k with
    | none => none
    | some i =>
      let es' := es.modify i fun e => { e with time := now2 }
      some ⟨c.keys, wrap (hfix lruLess es' i)⟩

/-- CacheLFU.Delete :127 (heap.Remove + Pop's `delete(cache.keys, key)`) -/
def lfuDelete (c : Cache LfuE) (k : Bytes) : Option (Cache LfuE) :=
  if c.cells.isEmpty then some c else
  match unwrapCells c.cells with
  | none => none
  | some es =>
    match idxLfu es k with
    | none => some c
    | some i =>
      -- Pop deletes the key of the removed entry (= k) from `keys`
      some ⟨c.keys.filter (· != k), wrap (hremove lfuLess es i)⟩

def lruDelete (c : Cache LruE) (k : Bytes) : Option (Cache LruE) :=
  if c.cells.isEmpty then some c else
  match unwrapCells c.cells with
  | none => none
  | some es =>
    match idxLru es k with
    | none => some c
    | some i => some ⟨c.keys.filter (· != k), wrap (hremove lruLess es i)⟩

/-- `heap.Pop(cache).(string)` on a non-empty cache; `none` = nil dereference in Swap -/
def lfuPop (c : Cache LfuE) : Option (Bytes × Cache LfuE) :=
  match unwrapCells c.cells with
  | none => none
  | some es =>
    match hpop lfuLess es with
    | none => none
    | some (e, r) => some (e.key, ⟨c.keys.filter (· != e.key), wrap r⟩)

def lruPop (c : Cache LruE) : Option (Bytes × Cache LruE) :=
  match unwrapCells c.cells with
  | none => none
  | some es =>
    match hpop lruLess es with
    | none => none
    | some (e, r) => some (e.key, ⟨c.keys.filter (· != e.key), wrap r⟩)

/-! ## server state with the caches -/

structure EState where
  s : State
  lfu : NMap (Cache LfuE) := []
  lru : NMap (Cache LruE) := []
  /-- ghost: number of `time.Now()` readings taken by the heaps so far in this command -/
  ticks : Nat := 0
  /-- ghost: number of cache updates (updateKeysInCache calls) completed so far in this command -/
  phase : Nat := 0
deriving DecidableEq, Repr, Inhabited

/-- choices the Go code leaves open -/
structure Env where
  /-- first heap stamp of this command (greater than every stamp in the state) -/
  base : Nat := 0
  /-- bit j set: the (j+1)-th `time.Now()` reading falls in a later millisecond than the j-th -/
  mask : Nat := 0
  /-- order in which the per-database adjustMemoryUsage goroutines run (permutation index) -/
  dbOrder : Nat := 0
  /-- random policies: the keys the observed run kept, per database -/
  keep : NMap (List Bytes) := []
  /-- the observed run died (used only where a random draw decides between dying and not) -/
  died : Bool := false
  /-- random policies: keys whose status differs from what `keep` suggests (removed by the policy and written again by
      the same command, or spared by the policy and deleted by the command itself) -/
  flip : List Bytes := []
  /-- random policies: the keys named by the command are not removed before the `holdUntil`-th cache update of the
      command (which of the command's updates removed them is not visible in the state after) -/
  hold : List Bytes := []
  holdUntil : Nat := 0
deriving Repr, Inhabited

def popcountBelow (mask : Nat) : Nat → Nat
  | 0 => 0
  | j + 1 => popcountBelow mask j + (if mask.testBit j then 1 else 0)

def Env.stamp (env : Env) (j : Nat) : Nat := env.base + popcountBelow env.mask j

inductive Halt where
  | panic (what : String)
  | hang (what : String)
  | stuck (what : String)      -- the run named by `Env` is not a run of the model
  | unmod (why : String)
deriving Repr, DecidableEq, Inhabited

abbrev R (α : Type) := Except Halt (α × EState)

def isLfuPol (p : Policy) : Bool := p == .allkeysLfu || p == .volatileLfu
def isLruPol (p : Policy) : Bool := p == .allkeysLru || p == .volatileLru

/-- createDatabase :317 gives every database both caches -/
def ensureCaches (es : EState) : EState :=
  es.s.dbs.foldl (fun acc (i, _) =>
    { acc with lfu := if (acc.lfu.get i).isSome then acc.lfu else acc.lfu.put i {},
               lru := if (acc.lru.get i).isSome then acc.lru else acc.lru.put i {} }) es

/-- deleteKey :281 including the cache leg -/
def deleteKeyE (cfg : Cfg) (es : EState) (db : Nat) (k : Bytes) : Except Halt EState :=
  let s' := Sugar.deleteKey es.s db k
  if isLfuPol cfg.policy then
    match es.lfu.get db with
    | none => .error (.panic "nil LFU cache")
    | some c =>
      match lfuDelete c k with
      | none => .error (.panic "nil heap cell in CacheLFU.Delete")
      | some c' => .ok { es with s := s', lfu := es.lfu.put db c' }
  else if isLruPol cfg.policy then
    match es.lru.get db with
    | none => .error (.panic "nil LRU cache")
    | some c =>
      match lruDelete c k with
      | none => .error (.panic "nil heap cell in CacheLRU.Delete")
      | some c' => .ok { es with s := s', lru := es.lru.put db c' }
  else .ok { es with s := s' }

def costOf (s : State) (db : Nat) (k : Bytes) : Int :=
  match s.lookup db k with
  | some e => e.getMem + keyMem k
  | none => (⟨.nil, none⟩ : Entry).getMem + keyMem k

def below (cfg : Cfg) (es : EState) : Bool := decide (toU64 es.s.mem < cfg.maxMemory)

/-- the LFU loop of adjustMemoryUsage :467; result `true` = returned nil, `false` = "LFU cache empty" -/
def adjustLfu (cfg : Cfg) (db : Nat) : Nat → EState → Except Halt (Bool × EState)
  | 0, _ => .error (.hang "LFU eviction loop")
  | fuel + 1, es =>
    match es.lfu.get db with
    | none => .error (.panic "nil LFU cache")
    | some c =>
      if c.len == 0 then .ok (false, es) else
      match lfuPop c with
      | none => .error (.panic "nil heap cell in heap.Pop (LFU)")
      | some (k, c') =>
        match deleteKeyE cfg { es with lfu := es.lfu.put db c' } db k with
        | .error h => .error h
        | .ok es' => if below cfg es' then .ok (true, es') else adjustLfu cfg db fuel es'

def adjustLru (cfg : Cfg) (db : Nat) : Nat → EState → Except Halt (Bool × EState)
  | 0, _ => .error (.hang "LRU eviction loop")
  | fuel + 1, es =>
    match es.lru.get db with
    | none => .error (.panic "nil LRU cache")
    | some c =>
      if c.len == 0 then .ok (false, es) else
      match lruPop c with
      | none => .error (.panic "nil heap cell in heap.Pop (LRU)")
      | some (k, c') =>
        match deleteKeyE cfg { es with lru := es.lru.put db c' } db k with
        | .error h => .error h
        | .ok es' => if below cfg es' then .ok (true, es') else adjustLru cfg db fuel es'

/-- the keys of `db` that the observed run did not keep, cheapest first -/
def victims (env : Env) (s : State) (phase : Nat) (db : Nat) : List Bytes :=
  let keep := (env.keep.get db).getD []
  let vs := ((s.db db).store.map (·.1)).filter fun k =>
    ((!keep.contains k) != env.flip.contains k) && !(env.hold.contains k && phase < env.holdUntil)
  vs.mergeSort fun a c => costOf s db a ≤ costOf s db c

/-- allkeys-random :556. `if len(store[database]) == 0 { return "no keys to evict" }`; one round removes the idx-th key
    of the database in map order, idx drawn over the number of its keys (any key). -/
def adjustAllRandom (cfg : Cfg) (env : Env) (db : Nat) : Nat → EState → Except Halt (Bool × EState)
  | 0, _ => .error (.hang "allkeys-random loop")
  | fuel + 1, es =>
    if (es.s.db db).store.isEmpty then .ok (false, es) else
    match victims env es.s es.phase db with
    | [] => .error (.stuck "allkeys-random must remove a key the observed run kept")
    | k :: _ =>
      match deleteKeyE cfg es db k with
      | .error h => .error h
      | .ok es' => if below cfg es' then .ok (true, es') else adjustAllRandom cfg env db fuel es'

/-- the cells of the volatile slice of `db` that the observed run did not keep (or that name no stored key), cheapest first -/
def volVictims (env : Env) (s : State) (phase : Nat) (db : Nat) : List Bytes :=
  let keep := (env.keep.get db).getD []
  let vs := (s.db db).vol.filter fun k =>
    ((!keep.contains k || (s.lookup db k).isNone) != env.flip.contains k) && !(env.hold.contains k && phase < env.holdUntil)
  vs.mergeSort fun a c => costOf s db a ≤ costOf s db c

/-- volatile-random :596: `if len(keysWithExpiry.keys[database]) == 0 { return "no volatile keys to evict" }`,
    `idx := rand.Intn(len(keysWithExpiry.keys[database]))`, `key := keysWithExpiry.keys[database][idx]` (any cell) -/
def adjustVolRandom (cfg : Cfg) (env : Env) (db : Nat) : Nat → EState → Except Halt (Bool × EState)
  | 0, _ => .error (.hang "volatile-random loop")
  | fuel + 1, es =>
    if (es.s.db db).vol.isEmpty then .ok (false, es) else
    match volVictims env es.s es.phase db with
    | [] => .error (.stuck "volatile-random must remove a key the observed run kept")
    | k :: _ =>
      match deleteKeyE cfg es db k with
      | .error h => .error h
      | .ok es' => if below cfg es' then .ok (true, es') else adjustVolRandom cfg env db fuel es'

/-- adjustMemoryUsage :436 for one database. `true` = nil, `false` = an error was returned. -/
def adjustMemoryUsage (cfg : Cfg) (env : Env) (db : Nat) (es : EState) : Except Halt (Bool × EState) :=
  if cfg.maxMemory == 0 then .ok (true, es) else
  if below cfg es then .ok (true, es) else
  let fuel := (es.s.db db).store.length + (es.s.db db).vol.length +
    ((es.lfu.get db).map (·.len)).getD 0 + ((es.lru.get db).map (·.len)).getD 0 + 2
  match cfg.policy with
  | .allkeysLfu | .volatileLfu => adjustLfu cfg db fuel es
  | .allkeysLru | .volatileLru => adjustLru cfg db fuel es
  | .allkeysRandom => adjustAllRandom cfg env db fuel es
  | .volatileRandom => adjustVolRandom cfg env db fuel es
  | .noeviction => .ok (true, es)

def insertAll {α : Type} (x : α) : List α → List (List α)
  | [] => [[x]]
  | y :: r => (x :: y :: r) :: (insertAll x r).map (y :: ·)

def perms {α : Type} : List α → List (List α)
  | [] => [[]]
  | x :: r => (perms r).flatMap (insertAll x)

/-- the databases in the order the goroutines got the token -/
def dbOrderOf (env : Env) (es : EState) : List Nat :=
  let ids := es.s.dbs.map (·.1)
  if ids.length > 4 then ids else
  let ps := perms ids
  ps.getD (env.dbOrder % ps.length) ids

/-- `for db := range server.store { go adjustMemoryUsage }`; returns the first database that reported an error -/
def adjustAll (cfg : Cfg) (env : Env) : List Nat → EState → Except Halt (Option Nat × EState)
  | [], es => .ok (none, es)
  | d :: r, es =>
    match adjustMemoryUsage cfg env d es with
    | .error h => .error h
    | .ok (ok, es') =>
      match adjustAll cfg env r es' with
      | .error h => .error h
      | .ok (e, es'') => .ok ((if ok then e else some d), es'')

/-- the per-key loop of updateKeysInCache :374 -/
def touchKeys (c : Ctx) (env : Env) : List Bytes → EState → Nat → Except Halt (Nat × EState)
  | [], es, n => .ok (n, es)
  | k :: r, es, n =>
    match es.s.lookup c.db k with
    | none => touchKeys c env r es n
    | some e =>
      let vol := e.exp.isSome
      match c.cfg.policy with
      | .allkeysLfu | .volatileLfu =>
        if c.cfg.policy == .volatileLfu && !vol then touchKeys c env r es (n + 1) else
        match es.lfu.get c.db with
        | none => .error (.panic "nil LFU cache")
        | some ch =>
          match lfuUpdate ch k (env.stamp es.ticks) with
          | none => .error (.panic "nil heap cell in CacheLFU.Update")
          | some ch' =>
            -- time.Now() is read only by Push
            let t := if ch.keys.contains k then es.ticks else es.ticks + 1
            touchKeys c env r { es with lfu := es.lfu.put c.db ch', ticks := t } (n + 1)
      | .allkeysLru | .volatileLru =>
        if c.cfg.policy == .volatileLru && !vol then touchKeys c env r es (n + 1) else
        match es.lru.get c.db with
        | none => .error (.panic "nil LRU cache")
        | some ch =>
          let pushes := !ch.keys.contains k
          let t1 := env.stamp es.ticks
          let t2 := if pushes then env.stamp (es.ticks + 1) else t1
          match lruUpdate ch k t1 t2 with
          | none => .error (.panic "nil heap cell in CacheLRU.Update")
          | some ch' =>
            touchKeys c env r { es with lru := es.lru.put c.db ch', ticks := es.ticks + (if pushes then 2 else 1) } (n + 1)
      | _ => touchKeys c env r es (n + 1)

/-- updateKeysInCache :358 (standalone): touch counter, first database whose adjustment reported an error -/
def updateKeysInCache (c : Ctx) (env : Env) (es : EState) (ks : List Bytes) : Except Halt ((Nat × Option Nat) × EState) :=
  if c.cfg.maxMemory == 0 then .ok ((0, none), es) else
  match touchKeys c env ks es 0 with
  | .error h => .error h
  | .ok (n, es') =>
    match adjustAll c.cfg env (dbOrderOf env es') es' with
    | .error h => .error h
    | .ok (e, es'') => .ok ((n, e), { es'' with phase := es''.phase + 1 })

/-- getValues :149 with deleteKey's cache leg -/
def getValuesE (c : Ctx) : List Bytes → EState → Except Halt (List Val × EState)
  | [], es => .ok ([], es)
  | k :: r, es =>
    match es.s.lookup c.db k with
    | none => (getValuesE c r es).map fun (vs, e) => (Val.nil :: vs, e)
    | some e =>
      if e.expired c.now then
        match deleteKeyE c.cfg es c.db k with
        | .error h => .error h
        | .ok es' => (getValuesE c r es').map fun (vs, e) => (Val.nil :: vs, e)
      else (getValuesE c r es).map fun (vs, e') => (e.val :: vs, e')

def flushCaches (es : EState) (db : Nat) : Except Halt EState :=
  match es.lfu.get db, es.lru.get db with
  | some a, some c => .ok { es with lfu := es.lfu.put db a.flush, lru := es.lru.put db c.flush }
  | _, _ => .error (.panic "nil cache in Flush")

/-- one keyspace primitive followed by the cache update it spawns -/
def execE (c : Ctx) (env : Env) (es : EState) : (p : Prim) → Except Halt (p.Res × EState)
  | .keysExist ks => .ok (Sugar.keysExist es.s c.db ks, es)
  | .getExpiry k => .ok (Sugar.getExpiry es.s c.db k, es)
  | .getValues ks =>
    match getValuesE c ks es with
    | .error h => .error h
    | .ok (vs, es') => (updateKeysInCache c env es' ks).map fun (_, e) => (vs, e)
  | .setValues entries =>
    let (s', ok) := Sugar.setValues c es.s entries
    if !ok then .ok (false, es) else
    let es' := ensureCaches { es with s := s' }
    match (dedupLast entries).map (·.1) with
    | [] => .ok (true, es')
    | [k] => (updateKeysInCache c env es' [k]).map fun (_, e) => (true, e)
    | _ => if c.cfg.maxMemory == 0 then .ok (true, es') else .error (.unmod "multi-key setValues under a memory limit (map order)")
  | .setExpiry k e touch =>
    match Sugar.setExpiry c es.s k e with
    | none => .error (.panic "setExpiry on an absent database")
    | some s' =>
      let es' := { es with s := s' }
      if touch then (updateKeysInCache c env es' [k]).map fun (_, e) => ((), e) else .ok ((), es')
  | .deleteKey k => (deleteKeyE c.cfg es c.db k).map fun e => ((), e)
  | .flush true =>
    let s' := flushAll es.s
    let r : Except Halt EState := es.s.dbs.foldl (fun (acc : Except Halt EState) (p : Nat × Db) => Except.bind acc fun e => flushCaches e p.1)
      (Except.ok { es with s := s' })
    r.map fun e => ((), e)
  | .flush false =>
    -- a database that was never written to has no store and no caches: Flush returns at once (repaired upstream)
    if !es.s.hasDb c.db then .ok ((), es) else
    match flushDb es.s c.db with
    | none => .error (.panic "Flush of an absent database")
    | some s' => (flushCaches { es with s := s' } c.db).map fun e => ((), e)
  | .mutObj k v => .ok ((), { es with s := Sugar.mutObj es.s c.db k v })
  | .newOid => .ok (Sugar.newOid es.s, es)
  | .tagOid k o => .ok ((), { es with s := Sugar.tagOid es.s c.db k o })
  | .setConnDb d => .ok ((), ensureCaches { es with s := Sugar.setConnDb c es.s d })
  | .swapDbs d1 d2 => .ok ((), ensureCaches { es with s := Sugar.swapDbs es.s d1 d2 })

/-- handler result of this suite: the generic one, or "any simple string" (OBJECTIDLETIME prints wall-clock seconds) -/
inductive ERes where
  | res (r : Res)
  | anySimple
  | errPrefix (p : Bytes)
deriving Repr, DecidableEq

def runE {α : Type} (c : Ctx) (env : Env) : Prog α → EState → Except Halt (α × EState)
  | .ret a, es => .ok (a, es)
  | .call p k, es =>
    match execE c env es p with
    | .error h => .error h
    | .ok (r, es') => runE c env (k r) es'
  | .panic w, _ => .error (.panic w)
  | .unmod w, _ => .error (.unmod w)

def adjustErrPrefix : Bytes := b "adjustMemoryUsage error: "

/-- commands.go :829 handleTouch — updateKeysInCache runs on the caller's goroutine -/
def handleTouchE (c : Ctx) (env : Env) (es : EState) (cmd : List Bytes) : Except Halt (ERes × EState) :=
  if cmd.length < 2 then .ok (.res (.err wrongArgs), es) else
  match updateKeysInCache c env es (cmd.drop 1) with
  | .error h => .error h
  | .ok ((n, e), es') =>
    match e with
    | some _ => .ok (.errPrefix adjustErrPrefix, es')
    | none => .ok (.res (.ok (b "+" ++ fmtInt n ++ b "\r\n")), es')

/-- commands.go :843 handleObjFreq / keyspace.go :707 getObjectFreq -/
def handleObjFreqE (c : Ctx) (es : EState) (cmd : List Bytes) : Except Halt (ERes × EState) :=
  match cmd with
  | [_, k] =>
    match es.lfu.get c.db with
    -- a database that was never written to has no cache: none of its keys exist (repaired upstream)
    | none => .ok (.res (.err (b "Key: " ++ k ++ b " does not exist.")), es)
    | some ch =>
      if ch.cells.isEmpty then .ok (.res (.err (b "Key: " ++ k ++ b " does not exist.")), es) else
      match unwrapCells ch.cells with
      | none => .error (.panic "nil heap cell in GetCount")
      | some ents =>
        match idxLfu ents k with
        | some i => .ok (.res (.ok (b "+" ++ fmtInt ((ents.getD i default).count) ++ b "\r\n")), es)
        | none => .ok (.res (.err (b "Key: " ++ k ++ b " does not exist.")), es)
  | _ => .ok (.res (.err wrongArgs), es)

/-- commands.go :858 handleObjIdleTime / keyspace.go :727 getObjectIdleTime -/
def handleObjIdleE (c : Ctx) (es : EState) (cmd : List Bytes) : Except Halt (ERes × EState) :=
  match cmd with
  | [_, k] =>
    match es.lru.get c.db with
    | none => .ok (.res (.err (b "Error: key " ++ k ++ b " does not exist.")), es)
    | some ch =>
      if ch.cells.isEmpty then .ok (.res (.err (b "Error: key " ++ k ++ b " does not exist.")), es) else
      match unwrapCells ch.cells with
      | none => .error (.panic "nil heap cell in GetTime")
      | some ents =>
        match idxLru ents k with
        | some _ => .ok (.anySimple, es)
        | none => .ok (.res (.err (b "Error: key " ++ k ++ b " does not exist.")), es)
  | _ => .ok (.res (.err wrongArgs), es)

/-- config.EvictionSample as the harness sets it -/
def evictionSample : Nat := 20

/-- evictKeysWithExpiredTTL :609 — one pass of the sampler goroutine started under every eviction policy.
    `sampleSize` falls back to `len(keysWithExpiry.keys)` (the number of databases), the draw is
    `rand.Intn(number of databases)` used as an index into the database's volatile slice, a drawn key already among
    the sampled ones (or equal to "" — the unfilled slots) is drawn again without bound, every sampled key is deleted
    whether expired or not, and since `deletedCount == sampleSize` the function calls itself — while the deferred
    unlock of the store lock has not run: the recursive call samples again and then blocks on the lock for ever. -/
def samplerPass (cfg : Cfg) (db : Nat) (es : EState) : Except Halt EState :=
  let vol := (es.s.db db).vol
  let ndb := es.s.dbs.length
  let sampleSize := if vol.length < evictionSample then ndb else evictionSample
  if ndb ≥ evictionSample then .error (.unmod "sampler with 20 or more databases") else
  -- sampling, under the read lock of the volatile index
  let sampled : Except Halt (List Bytes) :=
    if sampleSize == 0 then .ok [] else
    if vol.length ≥ evictionSample then .error (.hang "sampler cannot find 20 distinct keys among the first cells") else
    if vol.length < ndb then .error (.panic "index out of range in the sampler") else
    let cands := vol.take ndb
    if cands.contains [] || cands.eraseDups.length < cands.length then .error (.hang "sampler redraws a key it already holds")
    else .ok cands
  match sampled with
  | .error h => .error h
  | .ok cands =>
    match cands.foldl (fun (acc : Except Halt EState) k => acc.bind fun e => deleteKeyE cfg e db k) (.ok es) with
    | .error h => .error h
    | .ok es' =>
      if sampleSize == 0 then .ok es' else
      -- (deletedCount / sampleSize) * 100 = 100 ≥ 20: `return server.evictKeysWithExpiredTTL(ctx)`
      match samplerPass2 cfg db es' with
      | .error h => .error h
      | .ok e => .ok e
where
  /-- the recursive call: samples, then blocks -/
  samplerPass2 (cfg : Cfg) (db : Nat) (es : EState) : Except Halt EState :=
    let vol := (es.s.db db).vol
    let ndb := es.s.dbs.length
    if vol.length ≥ evictionSample then .error (.hang "sampler cannot find 20 distinct keys among the first cells") else
    if vol.length < ndb then .error (.panic "index out of range in the sampler") else
    let cands := vol.take ndb
    if cands.contains [] || cands.eraseDups.length < cands.length then .error (.hang "sampler redraws a key it already holds")
    else .error (.hang "recursive sampler call blocks on the store lock its caller still holds")

/-- one command under a memory limit; `none` = command not modelled -/
def stepE (c : Ctx) (env : Env) (es : EState) (cmd : List Bytes) : Option (Except Halt (ERes × EState)) :=
  match cmd with
  | [] => none
  | name :: _ =>
    if !isAscii name then none else
    let n := toLower name
    let es := { es with ticks := 0, phase := 0 }
    if n == b "@tick" then
      some ((samplerPass c.cfg c.db es).map fun e => (.res (.ok []), e))
    else if n == b "touch" then some (handleTouchE c env es cmd)
    else if n == b "objectfreq" then some (handleObjFreqE c es cmd)
    else if n == b "objectidletime" then some (handleObjIdleE c es cmd)
    else (progOf c cmd).map fun p => (runE c env p es).map fun (r, e) => (.res r, e)

end Sugar.Evict
