/-
  Model.Persist — what a restart with AOF restore rebuilds from the bytes on disk
  (internal/aof/engine.go:183 Restore = preamble/store.go:139 Restore, then log/store.go:178 Restore),
  how a log record is appended (log/store.go:138 Write) and what a rewrite does to the two files
  (engine.go:163 RewriteLog, preamble/store.go:107 CreatePreamble, log/store.go:226 Truncate).
  encoding/json is not modelled byte for byte: its effect on stored values is the function `jsonVal`
  (validated on every run against what the real decoder returns for the real file).
-/
import SugarModel.Model.Wire
import SugarModel.Model.Dispatch
namespace Sugar.Persist
open Sugar

/-! ### the append-only log as bytes -/

/-- `*2\r\n$6\r\nSELECT\r\n$<len>\r\n<db>\r\n` -/
def selectMarker (db : Int) : Bytes :=
  b "*2\r\n$6\r\nSELECT\r\n$" ++ fmtNat (fmtInt db).length ++ crlf ++ fmtInt db ++ crlf

/-- a client command as it arrives on the wire (and is appended verbatim) -/
def encodeCmd (cmd : List Bytes) : Bytes := arrHdr cmd.length ++ (cmd.map bulkStr).flatten

/-- bytes appended by `Store.Write database command` when the store's current database is `cur` -/
def logAppend (cur : Int) (db : Nat) (record : Bytes) : Bytes × Int :=
  if (db : Int) != cur then (selectMarker db ++ record, db) else (record, cur)

/-- bytes of the log after `Store.Truncate` -/
def logHeader (cur : Int) : Bytes := selectMarker cur

/-- one top-level value of the log as the RESP reader of `Store.Restore` returns it -/
inductive LogItem where
  | cmd (args : List Bytes)      -- an array of bulk strings
  | scalar                       -- a complete top-level bulk string (Decode yields no words: `cmd[0]` panics)
  | foreign                      -- a value whose reading is outside this model (nested arrays, inline text …)
deriving Repr, DecidableEq

/-- the values the reader returns before it fails or runs out of bytes, and the unread rest -/
def parseLogItems : Nat → Bytes → List LogItem × Bytes
  | _, [] => ([], [])
  | 0, bs => ([], bs)
  | f + 1, bs =>
    match bs with
    | 42 :: _ =>
      match Wire.parseCommand bs with
      | some (c, r) => let (cs, t) := parseLogItems f r; (.cmd c :: cs, t)
      | none =>
        -- an element that is not a bulk string (nested array, integer, simple string) is read by the
        -- library in ways this model does not follow; anything else fails the read
        if Wire.hasNonBulkElement bs then ([.foreign], bs) else ([], bs)
    | 36 :: _ =>
      match Wire.parseBulk bs with
      | some (_, r) => let (cs, t) := parseLogItems f r; (.scalar :: cs, t)
      | none => ([], bs)
    | _ => ([.foreign], bs)

/-- the complete commands at the front of a log -/
def parseLog (f : Nat) (bs : Bytes) : List (List Bytes) × Bytes :=
  ((parseLogItems f bs).1.filterMap fun | .cmd c => some c | _ => none, (parseLogItems f bs).2)

/-! ### JSON retyping of stored values -/

def jsonScalar : Scalar → Option Scalar
  | .str s => if isAscii s then some (.str s) else none
  | .int i => if i.natAbs ≤ 9007199254740992 then some (.flt (.fin (Dec.ofInt i))) else none
  | .flt f => some (.flt f)

/-- what `json.Marshal` followed by `json.Unmarshal` into `interface{}` makes of a stored value;
    `none` outside the exactly-modelled domain (non-ASCII text, integers beyond 2^53) -/
def jsonVal : Val → Option Val
  | .nil => some .nil
  | .str s => if isAscii s then some (.str s) else none
  | .int i => if i.natAbs ≤ 9007199254740992 then some (.flt (.fin (Dec.ofInt i))) else none
  | .flt f => some (.flt f)
  | .list xs => if xs.all isAscii then some (.ilist xs) else none
  | .ilist xs => some (.ilist xs)
  | .hash h => (h.mapM fun (f, v) => if isAscii f then (jsonScalar v).map fun v' => (f, v') else none).map .hash
  | .set _ _ => some (.hash [])      -- unexported fields: the object encodes as {}
  | .zset _ _ => some (.hash [])

/-- FilterExpiredKeys: keys with a deadline strictly before `now` are dropped -/
def filterExpired (now : Int) (s : State) : State :=
  { s with dbs := s.dbs.map fun (i, d) => (i, (⟨d.store.filter fun (_, e) => match e.exp with
      | some t => !(decide (t < now))
      | none => true, d.vol⟩ : Db)) }

/-- the dataset a preamble (or snapshot state file) written from `s` at `now` decodes to -/
def jsonState (now : Int) (s : State) : Option (List (Nat × List (Bytes × Entry))) :=
  (filterExpired now s).dbs.mapM fun (i, d) =>
    (d.store.mapM fun (ke : Bytes × Entry) => if isAscii ke.1 then (jsonVal ke.2.val).map fun v => (ke.1, (⟨v, ke.2.exp⟩ : Entry)) else none).map fun es => (i, es)

/-! ### restore -/

/-- setKeyDataFunc: SetValues of the decoded value, then SetExpiry (which enrols every key in the
    volatile index). A `[]interface{}` value is stored before GetMem fails, so nothing is accounted. -/
def restoreKey (now : Int) (s : State) (db : Nat) (k : Bytes) (e : Entry) : Option State :=
  let c : Ctx := { db := db, now := now, conn := some 0 }
  let s1 : State := match e.val with
    | .ilist _ =>
      let s0 := s.createDb db
      let d := s0.db db
      { s0 with dbs := s0.dbs.put db ⟨d.store.put k ⟨e.val, (d.store.get k).bind (·.exp)⟩, d.vol⟩ }
    | v => (setValues c s [(k, v)]).1
  setExpiry c s1 k e.exp

def restoreDataset (now : Int) (s : State) (ds : List (Nat × List (Bytes × Entry))) : Option State :=
  ds.foldlM (fun s (i, es) =>
    es.foldlM (fun s (k, e) =>
      match e.exp with
      | some t => if t < now then some s else restoreKey now s i k e
      | none => restoreKey now s i k e) s) s

inductive Restored where
  | ok (s : State)
  | panic
  | unmod (why : String)
deriving Repr

/-- re-execution of the logged commands: a SELECT record sets the database of the records that follow
    (the restore starts in database 0), every other record runs through handleCommand with a nil
    connection in that database; errors are logged and skipped, a panic ends the process -/
def replay (now : Int) : Int → List LogItem → State → Restored
  | _, [], s => .ok s
  | _, .scalar :: _, _ => .panic            -- Decode returns no words; `cmd[0]` is out of range
  | _, .foreign :: _, _ => .unmod "log bytes the reader may resynchronise on"
  | _, .cmd [] :: _, _ => .panic
  | db, .cmd cmd :: rest, s =>
    if eqFold (cmd.headD []) (b "select") && isAscii (cmd.headD []) then
      match parseInt64 (cmd.getD 1 []) with
      | some i => replay now i rest s
      | none => .ok s                     -- strconv.Atoi fails: Restore returns, nothing more is read
    else if db < 0 then .unmod "record replayed under a negative database index"
    else if (cmd.drop 1).any (fun k => match s.lookup db.toNat k with | some ⟨.ilist _, _⟩ => true | _ => false) then
      .unmod "command on a key holding []interface{} (GetMem fails: deletes and overwrites misbehave)"
    else
      match step { db := db.toNat, now := now, conn := some 0 } s cmd with
      | none => .unmod "command outside the model"
      | some (s', .done _) => replay now db rest s'
      | some (_, .panic _) => .panic
      | some (_, .unmod w) => .unmod w

/-- `Engine.Restore` on a fresh server: `pre` is the decoded preamble (`none` = the file does not
    decode: the whole restore is abandoned; `some []` = empty file), then the log -/
def restore (now : Int) (pre : Option (List (Nat × List (Bytes × Entry)))) (log : Bytes) : Restored :=
  let s0 : State := { dbs := [], mem := 0 }
  match pre with
  | none => .ok s0
  | some ds =>
    match restoreDataset now s0 ds with
    | none => .panic
    | some s1 => replay now 0 (parseLogItems (log.length + 1) log).1 s1

/-! ### snapshots (internal/snapshot/snapshot.go:308 Restore) -/

/-- what the data directory holds for the snapshot engine: the manifest (does it decode, which
    snapshot does it name) and, per snapshot directory, the decoded state file -/
structure SnapDir where
  name : Nat                                            -- directory name = unix ms of the snapshot
  state : Option (Option (List (Nat × List (Bytes × Entry)) × Int))   -- none = no state.bin; some none = undecodable
deriving Repr

structure SnapImage where
  manifest : Option (Option Int)        -- none = no manifest file; some none = undecodable; some (some ms)
  dirs : List SnapDir
deriving Repr

/-- the restored keyspace and the LASTSAVE value after `snapshot.Engine.Restore` on a fresh server -/
def restoreSnap (now : Int) (im : SnapImage) : Restored × Int :=
  let empty : State := { dbs := [], mem := 0 }
  match im.manifest with
  | none => (.ok empty, 0)                              -- "no snapshot manifest, skipping snapshot restore"
  | some none => (.ok empty, 0)                         -- json error
  | some (some ms) =>
    if ms == 0 then (.ok empty, 0) else
    match (im.dirs.find? fun d => (d.name : Int) == ms).bind (·.state) with
    | none => (.ok empty, 0)                            -- state.bin not found
    | some none => (.ok empty, 0)                       -- state.bin does not decode
    | some (some (ds, ls)) =>
      match restoreDataset now empty ds with
      | none => (.panic, ls)
      | some s => (.ok s, ls)

/-- the ticker's test (internal/snapshot/snapshot.go:148): a snapshot is started at a tick iff the change
    counter *equals* the threshold at that instant -/
def autoFires (count threshold : Nat) : Bool := decide (count ≥ threshold)

end Sugar.Persist
