/-
  Model.Keyspace — literal transcription of the keyspace primitives of sugardb/keyspace.go
  (keysExist :119, getExpiry :135, getValues :149, setValues :200, setExpiry :252, deleteKey :281,
  createDatabase :317, Flush :80) for a standalone server, plus the step-program type `Prog`
  in which every command handler is written.

  Standalone, MaxMemory = 0 view of the eviction caches: `updateKeysInCache` returns before touching
  them, so they are not part of this state (Model.Evict adds them).
-/
import SugarModel.Model.Value
namespace Sugar

structure Db where
  store : KMap Entry
  vol : List Bytes            -- keysWithExpiry.keys[db], in slice order
deriving DecidableEq, Repr, Inhabited

inductive Policy where
  | noeviction | allkeysLru | allkeysLfu | volatileLru | volatileLfu | allkeysRandom | volatileRandom
deriving DecidableEq, Repr, Inhabited

structure Cfg where
  maxMemory : Nat := 0
  policy : Policy := .noeviction
deriving DecidableEq, Repr, Inhabited

structure State where
  dbs : NMap Db
  mem : Int                   -- server.memUsed
  /-- connInfo.tcpClients: registered connection id ↦ selected database (id 0 stands for the nil
      connection entry that embedded SELECT / HELLO create) -/
  conns : NMap Nat := []
  /-- connInfo.embedded.Database -/
  embDb : Nat := 0
deriving DecidableEq, Repr, Inhabited

/-- per-request context: ctx.Value("Database"), the server clock reading, configuration -/
structure Ctx where
  db : Nat
  now : Int                   -- unix milliseconds
  cfg : Cfg := {}
  /-- the caller: `none` = embedded API, `some id` = registered connection -/
  conn : Option Nat := none
  /-- resolution of Go map iteration order where a handler's effect depends on it (permutation index) -/
  order : Nat := 0
  /-- resolution of math/rand picks: the members named by the observed reply -/
  hint : List Bytes := []
deriving Repr, Inhabited

def State.db (s : State) (i : Nat) : Db := (s.dbs.get i).getD ⟨[], []⟩
def State.hasDb (s : State) (i : Nat) : Bool := (s.dbs.get i).isSome
def State.lookup (s : State) (i : Nat) (k : Bytes) : Option Entry := (s.db i).store.get k

/-- internal/utils.go:190 IsMaxMemoryExceeded (runtime.GC has no effect on the accounted figure) -/
def isMaxMemoryExceeded (mem : Int) (maxMemory : Nat) : Bool :=
  maxMemory != 0 && decide (toU64 mem ≥ maxMemory)

/-- createDatabase :317 — only called when the database is absent -/
def State.createDb (s : State) (i : Nat) : State :=
  if s.hasDb i then s else { s with dbs := s.dbs.put i ⟨[], []⟩ }

/-- keysExist :119 — deadlines are not consulted -/
def keysExist (s : State) (db : Nat) (ks : List Bytes) : List Bool :=
  ks.map fun k => (s.lookup db k).isSome

/-- getExpiry :135 -/
def getExpiry (s : State) (db : Nat) (k : Bytes) : Option Int :=
  match s.lookup db k with
  | none => none
  | some e => e.exp

/-- deleteKey :281 (standalone, no eviction cache). On an absent key the zero KeyData is measured. -/
def deleteKey (s : State) (db : Nat) (k : Bytes) : State :=
  let d := s.db db
  let e : Entry := (d.store.get k).getD ⟨.nil, none⟩
  let d' : Db := ⟨d.store.del k, d.vol.filter (· != k)⟩
  { s with dbs := if s.hasDb db then s.dbs.put db d' else s.dbs,
           mem := s.mem - e.getMem - keyMem k }

def Entry.expired (e : Entry) (now : Int) : Bool :=
  match e.exp with
  | none => false
  | some t => decide (t < now)

/-- getValues :149 — lazy expiry deletes through deleteKey -/
def getValues (c : Ctx) (s : State) (ks : List Bytes) : State × List Val :=
  match ks with
  | [] => (s, [])
  | k :: r =>
    match s.lookup c.db k with
    | none => let (s', vs) := getValues c s r; (s', Val.nil :: vs)
    | some e =>
      if e.expired c.now then
        let (s', vs) := getValues c (deleteKey s c.db k) r; (s', Val.nil :: vs)
      else
        let (s', vs) := getValues c s r; (s', e.val :: vs)

/-- Go map literal / map assignment: a repeated key keeps the last value -/
def dedupLast (es : List (Bytes × Val)) : List (Bytes × Val) :=
  es.foldl (fun acc (k, v) => KMap.put acc k v) []

/-- body of the `for key, value := range entries` loop of setValues: the old deadline is kept,
    the accounted size of the new entry is *added* (the old one is never subtracted) -/
def setOne (db : Nat) (s : State) (kv : Bytes × Val) : State :=
  let d := s.db db
  let exp := match d.store.get kv.1 with
    | some e => e.exp
    | none => none
  let e : Entry := ⟨kv.2, exp⟩
  { s with dbs := s.dbs.put db ⟨d.store.put kv.1 e, d.vol⟩,
           mem := s.mem + e.getMem + keyMem kv.1 }

/-- setValues :200. `false` = "max memory reached, key value not set". -/
def setValues (c : Ctx) (s : State) (es : List (Bytes × Val)) : State × Bool :=
  if isMaxMemoryExceeded s.mem c.cfg.maxMemory && c.cfg.policy == .noeviction then (s, false)
  else ((dedupLast es).foldl (setOne c.db) (s.createDb c.db), true)

/-- setExpiry :252. Assigning into the inner map of an absent database panics (nil map). -/
def setExpiry (c : Ctx) (s : State) (k : Bytes) (exp : Option Int) : Option State :=
  if !s.hasDb c.db then none else
  let d := s.db c.db
  let v : Val := match d.store.get k with
    | some e => e.val
    | none => .nil
  let vol := if d.vol.contains k then d.vol else d.vol ++ [k]
  some { s with dbs := s.dbs.put c.db ⟨d.store.put k ⟨v, exp⟩, vol⟩ }

/-- what deleteKey would deduct from `memUsed` for the keys of one database, one after the other -/
def Db.cost (d : Db) : Int := (d.store.map fun (ke : Bytes × Entry) => ke.2.getMem + keyMem ke.1).sum

/-- Flush :80 on one database (repaired upstream): the accounted size of every key of the database is deducted
    from the counter as deleteKey does, the store map is cleared, the volatile slice is replaced by an empty one.
    A database that was never written to has nothing to flush. -/
def flushDb (s : State) (db : Nat) : Option State :=
  if !s.hasDb db then some s else
  let d := s.db db
  some { s with dbs := s.dbs.put db ⟨[], []⟩, mem := s.mem - d.cost }

/-- in-place mutation through the stored pointer (Set.Add/Remove, SortedSet.AddOrUpdate/Remove …):
    no SetValues, no accounting; every key of the selected database holding the same object sees it -/
def mutObj (s : State) (db : Nat) (k : Bytes) (v : Val) : State :=
  match s.lookup db k with
  | none => s
  | some e =>
    let oid := e.val.oid
    let d := s.db db
    let store := d.store.map fun (k', e') =>
      if k' = k || (oid != 0 && e'.val.oid == oid) then (k', (⟨v.withOid oid, e'.exp⟩ : Entry)) else (k', e')
    { s with dbs := s.dbs.put db ⟨store, d.vol⟩ }

/-- ghost step: name the pointer stored at `k` (no Go-level effect; used when a handler is about to
    store the same pointer under a second key) -/
def tagOid (s : State) (db : Nat) (k : Bytes) (o : Nat) : State :=
  match s.lookup db k with
  | none => s
  | some e =>
    let d := s.db db
    { s with dbs := s.dbs.put db ⟨d.store.put k ⟨e.val.withOid o, e.exp⟩, d.vol⟩ }

/-- an object id not used by any stored value -/
def newOid (s : State) : Nat :=
  1 + (s.dbs.foldl (fun m (_, d) => d.store.foldl (fun m (_, e) => max m e.val.oid) m) 0)

/-- SetConnectionInfo (sugardb/modules.go:77) as SELECT uses it: the caller's tcpClients entry (id 0 = the
    nil-connection entry for the embedded caller) is pointed at `database`, created if absent -/
def setConnDb (c : Ctx) (s : State) (database : Nat) : State :=
  let s := s.createDb database
  { s with conns := s.conns.put (c.conn.getD 0) database }

/-- SwapDBs (sugardb/keyspace.go:40): both databases are created if absent; every TCP connection on one is
    re-pointed at the other; the embedded caller's database is not touched -/
def swapDbs (s : State) (d1 d2 : Nat) : State :=
  if d1 == d2 then s else
  let s := (s.createDb d1).createDb d2
  { s with conns := s.conns.map fun (id, d) => (id, if d == d1 then d2 else if d == d2 then d1 else d) }

/-- Flush(-1) (repaired upstream): every database is emptied (store and volatile slice) and the counter is reset -/
def flushAll (s : State) : State :=
  { s with dbs := s.dbs.map fun (i, _) => (i, (⟨[], []⟩ : Db)), mem := 0 }

/-! ### step programs -/

inductive Prim where
  | keysExist (ks : List Bytes)
  | getExpiry (k : Bytes)
  | getValues (ks : List Bytes)
  | setValues (es : List (Bytes × Val))
  | setExpiry (k : Bytes) (e : Option Int) (touch : Bool)
  | deleteKey (k : Bytes)
  | flush (all : Bool)
  | mutObj (k : Bytes) (v : Val)
  | newOid
  | tagOid (k : Bytes) (o : Nat)
  | setConnDb (database : Nat)
  | swapDbs (d1 d2 : Nat)
deriving Repr

def Prim.Res : Prim → Type
  | .keysExist _ => List Bool
  | .getExpiry _ => Option Int
  | .getValues _ => List Val
  | .setValues _ => Bool
  | .setExpiry _ _ _ => Unit
  | .deleteKey _ => Unit
  | .flush _ => Unit
  | .mutObj _ _ => Unit
  | .newOid => Nat
  | .tagOid _ _ => Unit
  | .setConnDb _ => Unit
  | .swapDbs _ _ => Unit

/-- one primitive, executed atomically under the store lock; `none` = Go runtime panic -/
def Prim.exec (c : Ctx) (s : State) : (p : Prim) → Option (State × p.Res)
  | .keysExist ks => some (s, Sugar.keysExist s c.db ks)
  | .getExpiry k => some (s, Sugar.getExpiry s c.db k)
  | .getValues ks => some (Sugar.getValues c s ks)
  | .setValues es => some (Sugar.setValues c s es)
  | .setExpiry k e _ => (Sugar.setExpiry c s k e).map fun s' => (s', ())
  | .deleteKey k => some (Sugar.deleteKey s c.db k, ())
  | .flush true => some (flushAll s, ())
  | .flush false => (flushDb s c.db).map fun s' => (s', ())
  | .mutObj k v => some (Sugar.mutObj s c.db k v, ())
  | .newOid => some (s, Sugar.newOid s)
  | .tagOid k o => some (Sugar.tagOid s c.db k o, ())
  | .setConnDb d => some (Sugar.setConnDb c s d, ())
  | .swapDbs d1 d2 => some (Sugar.swapDbs s d1 d2, ())

inductive Prog (α : Type) where
  | ret (a : α)
  | call (p : Prim) (k : p.Res → Prog α)
  | panic (what : String)
  | unmod (why : String)

def Prog.bind {α β : Type} : Prog α → (α → Prog β) → Prog β
  | .ret a, f => f a
  | .call p k, f => .call p fun r => (k r).bind f
  | .panic w, _ => .panic w
  | .unmod w, _ => .unmod w

instance : Monad Prog where
  pure := .ret
  bind := Prog.bind

def prim (p : Prim) : Prog p.Res := .call p .ret

inductive Outcome (α : Type) where
  | done (a : α)
  | panic (what : String)
  | unmod (why : String)
deriving Repr, DecidableEq

/-- sequential semantics: one client, primitives back to back -/
def Prog.run {α : Type} (c : Ctx) : Prog α → State → State × Outcome α
  | .ret a, s => (s, .done a)
  | .call p k, s =>
    match p.exec c s with
    | none => (s, .panic "primitive")
    | some (s', r) => (k r).run c s'
  | .panic w, s => (s, .panic w)
  | .unmod w, s => (s, .unmod w)

/-- lift a purely computed outcome into a program (no primitive calls) -/
def Prog.ofOutcome {α : Type} : Outcome α → Prog α
  | .done a => .ret a
  | .panic w => .panic w
  | .unmod w => .unmod w

/-- handler result: RESP reply bytes, or the Go `error` text -/
inductive Res where
  | ok (reply : Bytes)
  | err (msg : Bytes)
  /-- reply = `hdr` followed by the `groups` in an order fixed by Go map iteration (any permutation) -/
  | okPerm (hdr : Bytes) (groups : List Bytes)
  /-- reply = `hdr` followed by `k` of the `groups` chosen by math/rand (pairwise distinct iff `distinct`) -/
  | okPick (hdr : Bytes) (k : Nat) (distinct : Bool) (groups : List Bytes)
deriving DecidableEq, Repr, Inhabited

end Sugar
