/-
  Model.Sched — small-step interleaving of two step programs: the store lock is taken per keyspace
  call, so one scheduling step runs exactly one hooked primitive of one client to completion, then
  that client's own code up to (not including) its next hooked primitive.
-/
import SugarModel.Model.Dispatch
namespace Sugar.Sched
open Sugar

/-- primitives that take the store lock at their entry (the observation points of the harness);
    the others are in-place mutations through a pointer or connection-table updates made by the
    handler's own code between two keyspace calls -/
def hooked : Prim → Bool
  | .keysExist _ => true | .getExpiry _ => true | .getValues _ => true | .setValues _ => true
  | .setExpiry _ _ _ => true | .deleteKey _ => true | .flush _ => true
  | _ => false

def pointName : Prim → String
  | .keysExist _ => "keysExist" | .getExpiry _ => "getExpiry" | .getValues _ => "getValues"
  | .setValues _ => "setValues" | .setExpiry _ _ _ => "setExpiry" | .deleteKey _ => "deleteKey"
  | .flush _ => "flush" | _ => "-"

/-- a client: either parked at a hooked primitive, or finished -/
inductive Thread where
  | parked (p : Prim) (k : p.Res → Prog Res)
  | done (o : Outcome Res)

/-- run the client's own code (non-hooked primitives) until it parks or finishes -/
def settle (c : Ctx) : Prog Res → State → State × Thread
  | .ret a, s => (s, .done (.done a))
  | .panic w, s => (s, .done (.panic w))
  | .unmod w, s => (s, .done (.unmod w))
  | .call p k, s =>
    if hooked p then (s, .parked p k) else
    match p.exec c s with
    | none => (s, .done (.panic "primitive"))
    | some (s', r) => settle c (k r) s'

/-- one scheduling step of a parked client: its pending primitive, then its own code up to the next one -/
def stepThread (c : Ctx) (t : Thread) (s : State) : State × Thread × Option String :=
  match t with
  | .done o => (s, .done o, none)
  | .parked p k =>
    match p.exec c s with
    | none => (s, .done (.panic "primitive"), some (pointName p))
    | some (s', r) => let (s'', t') := settle c (k r) s'; (s'', t', some (pointName p))

/-- a program run by one client with nobody else moving: final state, outcome, hooked primitives entered -/
def runAlone (c : Ctx) : Prog Res → State → State × Outcome Res × List String
  | .ret a, s => (s, .done a, [])
  | .panic w, s => (s, .panic w, [])
  | .unmod w, s => (s, .unmod w, [])
  | .call p k, s =>
    match p.exec c s with
    | none => (s, .panic "primitive", if hooked p then [pointName p] else [])
    | some (s', r) =>
      let (s'', o, tr) := runAlone c (k r) s'
      (s'', o, if hooked p then pointName p :: tr else tr)

/-- a parked or finished client run to completion with nobody else moving -/
def finish (c : Ctx) (t : Thread) (s : State) : State × Outcome Res × List String :=
  match t with
  | .done o => (s, o, [])
  | .parked p k => runAlone c (.call p k) s

structure Result where
  post : State
  a : Outcome Res
  b : Outcome Res
  traceA : List String
  traceB : List String

/-- follow a schedule (true = client A moves); a move of a finished client changes nothing; when the
    schedule is used up whoever is still parked runs to completion, A first -/
def runSched (cA cB : Ctx) : List Bool → Thread → Thread → State → List String → List String → Result
  | [], tA, tB, s, trA, trB =>
    let (s1, oa, ta) := finish cA tA s
    let (s2, ob, tb) := finish cB tB s1
    ⟨s2, oa, ob, trA ++ ta, trB ++ tb⟩
  | true :: r, tA, tB, s, trA, trB =>
    let (s', tA', n) := stepThread cA tA s
    runSched cA cB r tA' tB s' (trA ++ n.toList) trB
  | false :: r, tA, tB, s, trA, trB =>
    let (s', tB', n) := stepThread cB tB s
    runSched cA cB r tA tB' s' trA (trB ++ n.toList)

/-- two commands started together (A first reaches its first primitive, then B), then the schedule -/
def interleave (cA cB : Ctx) (cmdA cmdB : List Bytes) (sched : List Bool) (s : State) : Option Result :=
  match progOf cA cmdA, progOf cB cmdB with
  | some pA, some pB =>
    let (s1, tA) := settle cA pA s
    let (s2, tB) := settle cB pB s1
    some (runSched cA cB sched tA tB s2 [] [])
  | _, _ => none

end Sugar.Sched
