/-
  Model.HashCmd — handlers of internal/modules/hash/commands.go. A hash is a Go
  `map[string]interface{}` whose values are AdaptType results (string | int | float64).
-/
import SugarModel.Model.Generic
namespace Sugar

def asHash? : Val → Option (KMap Scalar)
  | .hash h => some h
  | _ => none

def notHash (key : Bytes) : Bytes := b "value at " ++ key ++ b " is not a hash"

/-- RESP rendering of one field value as the hash readers do it: string/float → bulk, int → integer -/
def hashValReply : Scalar → Bytes
  | .str s => bulkStr s
  | .int i => intReply i
  | .flt f => bulkStr f.fmtF

/-- entries map built by `for i := 2; …; i += 2 { entries[cmd[i]] = AdaptType(cmd[i+1]) }` (last wins) -/
def hsetEntries (args : List Bytes) : Option (KMap Scalar) :=
  let rec go : List Bytes → KMap Scalar → Option (KMap Scalar)
    | f :: v :: r, acc => match (adaptType v).toScalar? with
      | some sv => go r (acc.put f sv)
      | none => none
    | _, acc => some acc
  go args []

/-- :28 handleHSET (HSET / HSETNX) -/
def handleHSet (_c : Ctx) (cmd : List Bytes) : Prog Res :=
  if cmd.length < 4 then .ret (.err wrongArgs) else
  match cmd with
  | name :: key :: args =>
    if !isAscii name then .unmod "non-ASCII command name" else
    .call (.keysExist [key]) fun (ex : List Bool) =>
    if args.length % 2 != 0 then .ret (.err (b "each field must have a corresponding value")) else
    match hsetEntries args with
    | none => .unmod "AdaptType outside exact numeric domain"
    | some entries =>
      if !(ex.headD false) then
        setOrErr [(key, .hash entries)] (.ret (.ok (intReply entries.length)))
      else
        .call (.getValues [key]) fun (vs : List Val) =>
        match asHash? (vs.headD .nil) with
        | none => setOrErr [(key, .hash entries)] (.ret (.ok (intReply entries.length)))
        | some hash =>
          if toLower name == b "hsetnx" then
            let count := (entries.filter fun (f, _) => (hash.get f).isNone).length
            let merged := hash.foldl (fun (m : KMap Scalar) (f, v) => m.put f v) entries
            setOrErr [(key, .hash merged)] (.ret (.ok (intReply count)))
          else
            let merged := hash.foldl (fun (m : KMap Scalar) (f, v) => if (m.get f).isNone then m.put f v else m) entries
            setOrErr [(key, .hash merged)] (.ret (.ok (intReply entries.length)))
  | _ => .ret (.err wrongArgs)

/-- shared prologue of the hash readers: arity, existence, type -/
def withHash (cmd : List Bytes) (arityOk : Bool) (absent : Res) (k : Bytes → KMap Scalar → Prog Res) : Prog Res :=
  if !arityOk then .ret (.err wrongArgs) else
  match cmd with
  | _ :: key :: _ =>
    .call (.keysExist [key]) fun (ex : List Bool) =>
    if !(ex.headD false) then .ret absent else
    .call (.getValues [key]) fun (vs : List Val) =>
    match asHash? (vs.headD .nil) with
    | none => .ret (.err (notHash key))
    | some h => k key h
  | _ => .ret (.err wrongArgs)

/-- :94 handleHGET / :141 handleHMGET — one reply element per requested field -/
def handleHGet (_c : Ctx) (cmd : List Bytes) : Prog Res :=
  withHash cmd (cmd.length ≥ 3) (.ok nilBulk) fun _ h =>
    let fields := cmd.drop 2
    .ret (.ok (arrHdr fields.length ++ (fields.map fun f => match h.get f with
      | some v => hashValReply v
      | none => nilBulk).flatten))

/-- :188 handleHSTRLEN -/
def handleHStrLen (_c : Ctx) (cmd : List Bytes) : Prog Res :=
  withHash cmd (cmd.length ≥ 3) (.ok nilBulk) fun _ h =>
    let fields := cmd.drop 2
    .ret (.ok (arrHdr fields.length ++ (fields.map fun f => match h.get f with
      | some (.str s) => intReply s.length
      | some (.flt x) => intReply x.fmtF.length
      | some (.int i) => intReply (fmtInt i).length
      | none => intReply 0).flatten))

/-- :235 handleHVALS — map order -/
def handleHVals (_c : Ctx) (cmd : List Bytes) : Prog Res :=
  withHash cmd (cmd.length == 2) (.ok (b "*0\r\n")) fun _ h =>
    .ret (.okPerm (arrHdr h.length) (h.map fun (_, v) => hashValReply v))

/-- :384 handleHLEN -/
def handleHLen (_c : Ctx) (cmd : List Bytes) : Prog Res :=
  withHash cmd (cmd.length == 2) (.ok (intReply 0)) fun _ h => .ret (.ok (intReply h.length))

/-- :405 handleHKEYS — map order -/
def handleHKeys (_c : Ctx) (cmd : List Bytes) : Prog Res :=
  withHash cmd (cmd.length == 2) (.ok (b "*0\r\n")) fun _ h =>
    .ret (.okPerm (arrHdr h.length) (h.map fun (f, _) => bulkStr f))

/-- :515 handleHGETALL — map order -/
def handleHGetAll (_c : Ctx) (cmd : List Bytes) : Prog Res :=
  withHash cmd (cmd.length == 2) (.ok (b "*0\r\n")) fun _ h =>
    .ret (.okPerm (arrHdr (h.length * 2)) (h.map fun (f, v) => bulkStr f ++ hashValReply v))

/-- :551 handleHEXISTS -/
def handleHExists (_c : Ctx) (cmd : List Bytes) : Prog Res :=
  withHash cmd (cmd.length == 3) (.ok (intReply 0)) fun _ h =>
    .ret (.ok (intReply (if (h.get (cmd.getD 2 [])).isSome then 1 else 0)))

/-- :577 handleHDEL -/
def handleHDel (_c : Ctx) (cmd : List Bytes) : Prog Res :=
  withHash cmd (cmd.length ≥ 3) (.ok (intReply 0)) fun key h =>
    let (h', count) := (cmd.drop 2).foldl (fun (acc : KMap Scalar × Nat) f =>
      if (acc.1.get f).isSome then (acc.1.del f, acc.2 + 1) else acc) (h, 0)
    setOrErr [(key, .hash h')] (.ret (.ok (intReply count)))

/-- :272 handleHRANDFIELD -/
def handleHRandField (_c : Ctx) (cmd : List Bytes) : Prog Res :=
  if cmd.length < 2 || cmd.length > 4 then .ret (.err wrongArgs) else
  match cmd with
  | _ :: key :: rest =>
    .call (.keysExist [key]) fun (ex : List Bool) =>
    let countR : PRes (Option Int) := match rest with
      | [] => .ok (some 1)
      | c :: _ => match parseInt64 c with
        | none => .err (b "count must be an integer")
        | some 0 => .ok none
        | some n => .ok (some n)
    match countR with
    | .err m => .ret (.err m)
    | .unmod w => .unmod w
    | .ok none => .ret (.ok (b "*0\r\n"))
    | .ok (some count) =>
      let wv : PRes Bool := match rest with
        | [_, w] => if !isAscii w then .unmod "non-ASCII option token"
                    else if eqFold w (b "withvalues") then .ok true else .err (b "result modifier must be withvalues")
        | _ => .ok false
      match wv with
      | .err m => .ret (.err m)
      | .unmod w => .unmod w
      | .ok withvalues =>
        if !(ex.headD false) then .ret (.ok (b "*0\r\n")) else
        .call (.getValues [key]) fun (vs : List Val) =>
        match asHash? (vs.headD .nil) with
        | none => .ret (.err (notHash key))
        | some h =>
          let group (fv : Bytes × Scalar) : Bytes := bulkStr fv.1 ++ (if withvalues then hashValReply fv.2 else [])
          let mult := if withvalues then 2 else 1
          if h.isEmpty then .ret (.ok (b "*0\r\n"))
          else if count ≥ h.length then .ret (.okPerm (arrHdr (h.length * mult)) (h.map group))
          else .ret (.okPick (arrHdr (count.natAbs * mult)) count.natAbs (decide (count > 0)) (h.map group))
  | _ => .ret (.err wrongArgs)

/-- :431 handleHINCRBY (HINCRBY / HINCRBYFLOAT) -/
def handleHIncrBy (_c : Ctx) (cmd : List Bytes) : Prog Res :=
  match cmd with
  | [name, key, field, incr] =>
    if !isAscii name then .unmod "non-ASCII command name" else
    .call (.keysExist [key]) fun (ex : List Bool) =>
    let isFloat := eqFold name (b "hincrbyfloat")
    let parsed : PRes (Sum Int Flt) :=
      if isFloat then match parseFloat64 incr with
        | none => .err (b "increment must be a float")
        | some none => .unmod "float outside exact domain"
        | some (some f) => .ok (.inr f)
      else match parseInt64 incr with
        | none => .err (b "increment must be an integer")
        | some i => .ok (.inl i)
    match parsed with
    | .err m => .ret (.err m)
    | .unmod w => .unmod w
    | .ok inc =>
      let reply (v : Scalar) : Bytes := match v with
        | .flt f => simpleStr f.fmtF
        | .int i => intReply i
        | .str _ => []
      if !(ex.headD false) then
        let v : Scalar := match inc with
          | .inl i => .int i
          | .inr f => .flt f
        setOrErr [(key, .hash [(field, v)])] (.ret (.ok (reply v)))
      else
        .call (.getValues [key]) fun (vs : List Val) =>
        match asHash? (vs.headD .nil) with
        | none => .ret (.err (notHash key))
        | some h =>
          let cur : Scalar := (h.get field).getD (.int 0)
          let h0 := if (h.get field).isNone then h.put field (.int 0) else h
          let newV : PRes Scalar := match cur, inc with
            | .str _, _ => .err (b "value at field " ++ field ++ b " is not a number")
            -- a sum outside the int64 range is refused, nothing is stored (repaired in /repo by a `fix:` commit;
            -- before it the sum wrapped around)
            | .int i, .inl d => if i + d < minInt64 || i + d > maxInt64 then .err overflowErr else .ok (.int (i + d))
            | .int i, .inr f => match (Flt.ofInt i).bind (·.add f) with
              | some r => .ok (.flt r)
              | none => .unmod "float arithmetic outside exact domain"
            | .flt x, .inr f => match x.add f with
              | some r => .ok (.flt r)
              | none => .unmod "float arithmetic outside exact domain"
            | .flt x, .inl d => match (Flt.ofInt d).bind (x.add ·) with
              | some r => .ok (.flt r)
              | none => .unmod "float arithmetic outside exact domain"
          match newV with
          | .err m => .ret (.err m)
          | .unmod w => .unmod w
          | .ok v => setOrErr [(key, .hash (h0.put field v))] (.ret (.ok (reply v)))
  | _ => .ret (.err wrongArgs)

end Sugar
