/-
  Model.SetCmd — handlers of internal/modules/set/commands.go over internal/modules/set/set.go.
  A stored set is a `*Set`: SADD / SREM / SPOP / SMOVE mutate it in place through the pointer (no
  SetValues, hence no accounting): the `mutObj` primitive. The algebra commands (SDIFF*, SINTER*, SUNION*)
  always build a new set and never store an operand's own pointer, so no handler makes two keys share
  an object any more (`oid` 0 = unshared; the pointer identity of `Val.set` is still honoured when a
  state that holds shared objects is read). Go map iteration order (which key SINTER / SINTERCARD
  inspect first) is resolved by `c.order`; math/rand picks of SPOP by `c.hint`.
-/
import SugarModel.Model.Generic
namespace Sugar

def asSet? : Val → Option (Nat × List Bytes)
  | .set o ms => some (o, ms)
  | _ => none

def notSet (key : Bytes) : Bytes := b "value at key " ++ key ++ b " is not a set"

/-- `n`-th permutation of a list (factorial number system), fuel = length -/
def nthPermF {α : Type} : Nat → Nat → List α → List α
  | 0, _, l => l
  | f + 1, n, l =>
    if l.isEmpty then [] else
    let i := n % l.length
    match l[i]? with
    | none => l
    | some y => y :: nthPermF f (n / l.length) (l.eraseIdx i)

def nthPerm {α : Type} (n : Nat) (l : List α) : List α := nthPermF l.length n l

/-- Set.Add: append the elements not yet present; count of additions -/
def setAdd (ms : List Bytes) (elems : List Bytes) : List Bytes × Nat :=
  elems.foldl (fun (acc : List Bytes × Nat) e => if acc.1.contains e then acc else (acc.1 ++ [e], acc.2 + 1)) (ms, 0)

/-- Set.Remove -/
def setRemove (ms : List Bytes) (elems : List Bytes) : List Bytes × Nat :=
  elems.foldl (fun (acc : List Bytes × Nat) e => if acc.1.contains e then (acc.1.erase e, acc.2 + 1) else acc) (ms, 0)

/-- reply builder used by every member-listing set command (encodeBulkStringArray): `*N\r\n` then
    `$len\r\nmember\r\n` per member, in Go map order; an empty result is `*0\r\n` -/
def setArrReply (ms : List Bytes) : Res :=
  .okPerm (arrHdr ms.length) (ms.map bulkStr)

/-- :26 handleSADD -/
def handleSAdd (_c : Ctx) (cmd : List Bytes) : Prog Res :=
  if cmd.length < 3 then .ret (.err wrongArgs) else
  match cmd with
  | _ :: key :: elems =>
    .call (.keysExist [key]) fun (ex : List Bool) =>
    if !(ex.headD false) then
      setOrErr [(key, .set 0 (setAdd [] elems).1)] (.ret (.ok (intReply (setAdd [] elems).2)))
    else
      .call (.getValues [key]) fun (vs : List Val) =>
      match asSet? (vs.headD .nil) with
      | none => .ret (.err (notSet key))
      | some (_, ms) =>
        let (ms', n) := setAdd ms elems
        .call (.mutObj key (.set 0 ms')) fun _ => .ret (.ok (intReply n))
  | _ => .ret (.err wrongArgs)

/-- existence + type prologue shared by the single-key readers/mutators -/
def withSet (cmd : List Bytes) (arityOk : Bool) (absent : Res) (notSetMsg : Bytes → Bytes)
    (k : Bytes → List Bytes → Prog Res) : Prog Res :=
  if !arityOk then .ret (.err wrongArgs) else
  match cmd with
  | _ :: key :: _ =>
    .call (.keysExist [key]) fun (ex : List Bool) =>
    if !(ex.headD false) then .ret absent else
    .call (.getValues [key]) fun (vs : List Val) =>
    match asSet? (vs.headD .nil) with
    | none => .ret (.err (notSetMsg key))
    | some (_, ms) => k key ms
  | _ => .ret (.err wrongArgs)

/-- :55 handleSCARD -/
def handleSCard (_c : Ctx) (cmd : List Bytes) : Prog Res :=
  withSet cmd (cmd.length == 2) (.ok (intReply 0)) notSet fun _ ms => .ret (.ok (intReply ms.length))

/-- :283 handleSISMEMBER -/
def handleSIsMember (_c : Ctx) (cmd : List Bytes) : Prog Res :=
  withSet cmd (cmd.length == 3) (.ok (intReply 0)) notSet fun _ ms =>
    .ret (.ok (intReply (if ms.contains (cmd.getD 2 []) then 1 else 0)))

/-- :308 handleSMEMBERS -/
def handleSMembers (_c : Ctx) (cmd : List Bytes) : Prog Res :=
  withSet cmd (cmd.length == 2) (.ok (b "*0\r\n")) notSet fun _ ms => .ret (setArrReply ms)

/-- :339 handleSMISMEMBER -/
def handleSMIsMember (_c : Ctx) (cmd : List Bytes) : Prog Res :=
  let members := cmd.drop 2
  withSet cmd (cmd.length ≥ 3) (.ok (arrHdr members.length ++ (members.map fun _ => intReply 0).flatten)) notSet fun _ ms =>
    .ret (.ok (arrHdr members.length ++ (members.map fun m => intReply (if ms.contains m then 1 else 0)).flatten))

/-- :489 handleSREM -/
def handleSRem (_c : Ctx) (cmd : List Bytes) : Prog Res :=
  withSet cmd (cmd.length ≥ 3) (.ok (intReply 0)) notSet fun key ms =>
    let (ms', n) := setRemove ms (cmd.drop 2)
    .call (.mutObj key (.set 0 ms')) fun _ => .ret (.ok (intReply n))

def countArg (cmd : List Bytes) : PRes Int :=
  match cmd with
  | [_, _, c] => match adaptType c with
    | .int i => .ok i
    | .unmod => .unmod "AdaptType outside exact numeric domain"
    | _ => .err (b "count must be an integer")
  | _ => .ok 1

def notSetAt (key : Bytes) : Bytes := b "value at " ++ key ++ b " is not a set"

/-- :449 handleSRANDMEMBER (Set.GetRandom) -/
def handleSRandMember (_c : Ctx) (cmd : List Bytes) : Prog Res :=
  if cmd.length < 2 || cmd.length > 3 then .ret (.err wrongArgs) else
  match cmd with
  | _ :: key :: _ =>
    .call (.keysExist [key]) fun (ex : List Bool) =>
    match countArg cmd with
    | .err m => .ret (.err m)
    | .unmod w => .unmod w
    | .ok count =>
      if !(ex.headD false) then .ret (.ok (b "*-1\r\n")) else
      .call (.getValues [key]) fun (vs : List Val) =>
      match asSet? (vs.headD .nil) with
      | none => .ret (.err (notSetAt key))
      | some (_, ms) =>
        if count == 0 then .ret (.ok (b "*0\r\n"))
        else if count.natAbs ≥ ms.length then .ret (setArrReply ms)
        else .ret (.okPick (arrHdr count.natAbs) count.natAbs (decide (count > 0)) (ms.map bulkStr))
  | _ => .ret (.err wrongArgs)

/-- :409 handleSPOP (Set.Pop = GetRandom then Remove). The random picks are read off `c.hint`. -/
def handleSPop (c : Ctx) (cmd : List Bytes) : Prog Res :=
  if cmd.length < 2 || cmd.length > 3 then .ret (.err wrongArgs) else
  match cmd with
  | _ :: key :: _ =>
    .call (.keysExist [key]) fun (ex : List Bool) =>
    match countArg cmd with
    | .err m => .ret (.err m)
    | .unmod w => .unmod w
    | .ok count =>
      if !(ex.headD false) then .ret (.ok (b "*-1\r\n")) else
      .call (.getValues [key]) fun (vs : List Val) =>
      match asSet? (vs.headD .nil) with
      | none => .ret (.err (notSetAt key))
      | some (_, ms) =>
        if count == 0 then .ret (.ok (b "*0\r\n"))
        else if count.natAbs ≥ ms.length then
          .call (.mutObj key (.set 0 [])) fun _ => .ret (setArrReply ms)
        else
          let k := count.natAbs
          let valid := c.hint.length == k && c.hint.all ms.contains && (count < 0 || c.hint.eraseDups.length == k)
          let picks := if valid then c.hint else ms.take k
          .call (.mutObj key (.set 0 (setRemove ms picks).1)) fun _ =>
            .ret (.ok (arrHdr picks.length ++ (picks.map bulkStr).flatten))
  | _ => .ret (.err wrongArgs)

/-- :378 handleSMOVE -/
def handleSMove (_c : Ctx) (cmd : List Bytes) : Prog Res :=
  match cmd with
  | [_, src, dst, member] =>
    .call (.keysExist [src, dst]) fun (ex : List Bool) =>
    if !(ex.getD 0 false) then .ret (.ok (intReply 0)) else
    .call (.getValues [src, dst]) fun (vs : List Val) =>
    match asSet? (vs.getD 0 .nil) with
    | none => .ret (.err (b "source is not a set"))
    | some (so, sm) =>
      match asSet? (vs.getD 1 .nil) with
      | none => .ret (.err (b "destination is not a set"))
      | some (dO, dm) =>
        if !sm.contains member then .ret (.ok (intReply 0))
        else if src == dst || (so != 0 && so == dO) then
          -- same object: removed then re-added
          .call (.mutObj src (.set 0 ((setAdd (setRemove sm [member]).1 [member]).1))) fun _ => .ret (.ok (intReply 1))
        else
          .call (.mutObj src (.set 0 (setRemove sm [member]).1)) fun _ =>
          .call (.mutObj dst (.set 0 (setAdd dm [member]).1)) fun _ => .ret (.ok (intReply 1))
  | _ => .ret (.err wrongArgs)

/-- read the listed keys one GetValues call at a time, skipping non-sets (SDIFF operand loop) -/
def collectSets : List Bytes → (List (List Bytes) → Prog Res) → Prog Res
  | [], k => k []
  | key :: r, k =>
    .call (.getValues [key]) fun (vs : List Val) =>
    collectSets r fun acc =>
      match asSet? (vs.headD .nil) with
      | some (_, ms) => k (ms :: acc)
      | none => k acc

def subtract (base : List Bytes) (others : List (List Bytes)) : List Bytes :=
  base.filter fun m => !(others.any fun o => o.contains m)

/-- :78 handleSDIFF / :119 handleSDIFFSTORE -/
def handleSDiff (store : Bool) (_c : Ctx) (cmd : List Bytes) : Prog Res :=
  if (store && cmd.length < 3) || (!store && cmd.length < 2) then .ret (.err wrongArgs) else
  let reads := if store then cmd.drop 2 else cmd.drop 1
  let dest := cmd.getD 1 []
  match reads with
  | [] => .panic "index out of range (no base key)"
  | base :: others =>
    .call (.keysExist (if store then dest :: reads else reads)) fun (ex : List Bool) =>
    let baseExists := if store then ex.getD 1 false else ex.headD false
    if !baseExists then .ret (.err (b "key for base set \"" ++ base ++ b "\" does not exist")) else
    .call (.getValues [base]) fun (vs : List Val) =>
    match asSet? (vs.headD .nil) with
    | none => .ret (.err (notSet base))
    | some (_, bm) =>
      collectSets others fun sets =>
        let diff := subtract bm sets
        if store then setOrErr [(dest, .set 0 diff)] (.ret (.ok (intReply diff.length)))
        else .ret (setArrReply diff)

/-- SINTER-family operand loop `for key, exists := range keyExists` in map order: the first absent key
    answers `onAbsent`, the first non-set key an error; GetValues is called key by key -/
def interLoop : List (Bytes × Bool) → Res → (List (Nat × List Bytes) → Prog Res) → Prog Res
  | [], _, k => k []
  | (key, exists_) :: r, onAbsent, k =>
    if !exists_ then .ret onAbsent else
    .call (.getValues [key]) fun (vs : List Val) =>
    match asSet? (vs.headD .nil) with
    | none => .ret (.err (notSet key))
    | some s => interLoop r onAbsent fun acc => k (s :: acc)

def inter2 (limit : Int) (a c : List Bytes) : List Bytes :=
  let r := a.filter c.contains
  if limit > 0 then r.take limit.toNat else r

/-- set.Intersection with limit 0 (divide and conquer; a single operand is returned as is); with a limit the
    halves are still computed in full, see `sinterTail` -/
def interAll : Nat → List (List Bytes) → List Bytes
  | _, [] => []
  | _, [a] => a
  | _, [a, c] => inter2 0 a c
  | 0, _ => []
  | f + 1, l => inter2 0 (interAll f (l.take (l.length / 2))) (interAll f (l.drop (l.length / 2)))

/-- LIMIT option of SINTERCARD (:207-:226) -/
def sinterLimit (cmd : List Bytes) (limitIdx : Option Nat) : PRes Int :=
  match limitIdx with
  | none => .ok 0
  | some i =>
    if i < 2 then .err wrongArgs
    else match cmd[i + 1]? with
      | none => .err (b "provide limit after LIMIT keyword")
      | some l => match adaptType l with
        | .int v => .ok v
        | .unmod => .unmod "AdaptType outside exact numeric domain"
        | _ => .err (b "limit must be an integer")

/-- what follows the operand loop of SINTER / SINTERCARD (mode 0 / 2) -/
def sinterTail (mode : Nat) (limit : Int) (sets : List (Nat × List Bytes)) : Prog Res :=
  if sets.isEmpty then .ret (.err (b "not enough sets in the keys provided"))
  else if mode == 0 then .ret (setArrReply (interAll sets.length (sets.map (·.2))))
  else
    -- Intersection(limit, …): the halves of three or more operands are intersected in full (limit 0) and only
    -- the two-operand loop at the top stops once `limit` members are found; a single operand comes back whole,
    -- so the handler caps the cardinality it reports as well
    let full := interAll sets.length (sets.map (·.2))
    let card := (if limit > 0 && sets.length ≥ 2 then full.take limit.toNat else full).length
    .ret (.ok (intReply (if limit > 0 && (card : Int) > limit then limit else card)))

def sinterReads (mode : Nat) (cmd : List Bytes) : List Bytes :=
  match (if mode == 2 then cmd.findIdx? (fun t => eqFold t (b "limit")) else none) with
  | some i => (cmd.take i).drop 1
  | none => cmd.drop 1

/-- SINTERSTORE operand loop `for _, key := range keys.ReadKeys`, in the order of the command line: an absent
    key is noted (the intersection is empty) and skipped, the first present key that holds no set is an error
    whatever else is absent; GetValues is called key by key. Hands over (some operand absent, the sets read). -/
def storeLoop : List (Bytes × Bool) → (Bool → List (List Bytes) → Prog Res) → Prog Res
  | [], k => k false []
  | (key, exists_) :: r, k =>
    if !exists_ then storeLoop r fun _ acc => k true acc else
    .call (.getValues [key]) fun (vs : List Val) =>
    match asSet? (vs.headD .nil) with
    | none => .ret (.err (notSet key))
    | some (_, ms) => storeLoop r fun e acc => k e (ms :: acc)

/-- :251 handleSINTERSTORE. The result is always a newly allocated set (Intersection copies a lone operand;
    an absent operand gives the empty set), stored under the destination by SetValues. The handler does not
    look at its context: the operands are walked in command order. -/
def handleSInterStore (cmd : List Bytes) : Prog Res :=
  if cmd.length < 3 then .ret (.err wrongArgs) else
  .call (.keysExist (cmd.drop 2).eraseDups) fun (ex : List Bool) =>
  storeLoop ((cmd.drop 2).eraseDups.zip ex) fun empty sets =>
    let res := if empty then [] else interAll sets.length sets
    setOrErr [(cmd.getD 1 [], .set 0 res)] (.ret (.ok (intReply res.length)))

/-- SINTER / SINTERCARD (mode 0 / 2): the operand map is walked in Go map order (`c.order`) -/
def handleSInterRead (mode : Nat) (c : Ctx) (cmd : List Bytes) : Prog Res :=
  if cmd.length < 2 then .ret (.err wrongArgs) else
  if mode == 2 && !(cmd.all isAscii) then .unmod "non-ASCII token (EqualFold limit)" else
  .call (.keysExist (sinterReads mode cmd).eraseDups) fun (ex : List Bool) =>
  match sinterLimit cmd (if mode == 2 then cmd.findIdx? (fun t => eqFold t (b "limit")) else none) with
  | .err m => .ret (.err m)
  | .unmod w => .unmod w
  | .ok limit =>
    interLoop (nthPerm c.order ((sinterReads mode cmd).eraseDups.zip ex))
      (if mode == 0 then .ok (b "*0\r\n") else .ok (intReply 0))
      (sinterTail mode limit)

/-- :159 handleSINTER / :251 handleSINTERSTORE / :199 handleSINTERCARD (mode 0 / 1 / 2) -/
def handleSInter (mode : Nat) (c : Ctx) (cmd : List Bytes) : Prog Res :=
  match mode with
  | 1 => handleSInterStore cmd
  | _ => handleSInterRead mode c cmd

/-- set.Union: a new set that receives the members of every operand in turn (Set.Add) -/
def unionMembers (sets : List (List Bytes)) : List Bytes := (setAdd [] sets.flatten).1

/-- a value SUNION refuses: present (not the nil an absent key reads as) and not a set -/
def notSetVal (v : Val) : Bool :=
  match v with
  | .nil => false
  | v => (asSet? v).isNone

/-- :489 handleSUNION / :511 handleSUNIONSTORE. One GetValues call over the operands; they are then examined
    in the order of the command line: an absent key (nil) is the empty set, the first value of another type is
    an error. The union is a newly allocated set — no operand is touched, nothing is shared — and the handler
    does not look at its context. -/
def handleSUnion (store : Bool) (_c : Ctx) (cmd : List Bytes) : Prog Res :=
  if (store && cmd.length < 3) || (!store && cmd.length < 2) then .ret (.err wrongArgs) else
  .call (.getValues ((if store then cmd.drop 2 else cmd.drop 1).eraseDups)) fun (vs : List Val) =>
  match (((if store then cmd.drop 2 else cmd.drop 1).eraseDups).zip vs).find? fun (_, v) => notSetVal v with
  | some (k, _) => .ret (.err (notSet k))
  | none =>
    let res := unionMembers (vs.filterMap fun v => (asSet? v).map (·.2))
    if store then setOrErr [(cmd.getD 1 [], .set 0 res)] (.ret (.ok (intReply res.length)))
    else .ret (setArrReply res)

end Sugar
