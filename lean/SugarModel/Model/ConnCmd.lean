/-
  Model.ConnCmd — SELECT, SWAPDB, PING, ECHO of internal/modules/connection/commands.go
  (AUTH / HELLO live in Model.Acl).
-/
import SugarModel.Model.Generic
namespace Sugar

/-- `strconv.Atoi` with its error text; `unmod` when the quoted argument would need escaping -/
def atoiErr (s : Bytes) : PRes Int :=
  match parseInt64 s with
  | some i => .ok i
  | none =>
    if !(s.all fun ch => 32 ≤ ch && ch < 127 && ch != 34 && ch != 92) then .unmod "strconv.Quote of non-printable argument" else
    let body := match s with
      | 43 :: r => r
      | 45 :: r => r
      | r => r
    let kind := if allDigits body then b "value out of range" else b "invalid syntax"
    .err (b "strconv.Atoi: parsing \"" ++ s ++ b "\": " ++ kind)

/-- :130 handleSelect -/
def handleSelect (_c : Ctx) (cmd : List Bytes) : Prog Res :=
  match cmd with
  | [_, d] =>
    match atoiErr d with
    | .err m => .ret (.err m)
    | .unmod w => .unmod w
    | .ok n =>
      if n < 0 then .ret (.err (b "database must be >= 0"))
      else .call (.setConnDb n.toNat) fun _ => .ret (.ok okReply)
  | _ => .ret (.err wrongArgs)

/-- :149 handleSwapDB -/
def handleSwapDB (_c : Ctx) (cmd : List Bytes) : Prog Res :=
  match cmd with
  | [_, d1, d2] =>
    match parseInt64 d1, parseInt64 d2 with
    | some a, some c =>
      if a < 0 || c < 0 then .ret (.err (b "database indices must be >= 0"))
      else .call (.swapDbs a.toNat c.toNat) fun _ => .ret (.ok okReply)
    | _, _ => .ret (.err (b "both database indices must be integers"))
  | _ => .ret (.err wrongArgs)

/-- :45 handlePing -/
def handlePing (_c : Ctx) (cmd : List Bytes) : Prog Res :=
  match cmd with
  | [_] => .ret (.ok (b "+PONG\r\n"))
  | [_, m] => .ret (.ok (bulkStr m))
  | _ => .ret (.err wrongArgs)

/-- :57 handleEcho -/
def handleEcho (_c : Ctx) (cmd : List Bytes) : Prog Res :=
  match cmd with
  | [_, m] => .ret (.ok (bulkStr m))
  | _ => .ret (.err wrongArgs)

end Sugar
