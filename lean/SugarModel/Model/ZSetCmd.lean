/-
  Model.ZSetCmd — handlers of internal/modules/sorted_set/commands.go over sorted_set.go, utils.go,
  key_funcs.go, transcribed literally (quirks included).

  A stored sorted set is a `*SortedSet` holding `map[Value]MemberObject`; every ordered command builds
  `GetAll()` (Go map iteration order: any permutation) and sorts it with `slices.SortFunc` (insertion
  sort up to 12 elements). The iteration order is the only source of nondeterminism besides math/rand:
  `zGuess` proposes one (guided by the members the observed reply names — `c.hint` — and by `c.order`,
  which the driver enumerates), the code that follows is the literal Go algorithm run on that order.
  Every STORE form builds a fresh object (NewSortedSet), so sorted sets are never shared between keys.
-/
import SugarModel.Base.ZNum
import SugarModel.Model.ConnCmd
namespace Sugar

abbrev ZM := Bytes × Flt

def asZSet? : Val → Option (KMap Flt)
  | .zset _ ms => some ms
  | _ => none

def notZSet (key : Bytes) : Bytes := b "value at " ++ key ++ b " is not a sorted set"

/-- more alternatives than this for the iteration order of one sorted set: outside the modelled domain -/
def zAltCap : Nat := 2000

/-! ### Go map iteration order (oracle) and `slices.SortFunc` -/

def kSubsets {α : Type} : Nat → List α → List (List α)
  | 0, _ => [[]]
  | _ + 1, [] => []
  | k + 1, x :: r => (kSubsets k r).map (x :: ·) ++ kSubsets (k + 1) r

/-- maximal runs of equal scores -/
def groupByScore : List ZM → List (List ZM)
  | [] => []
  | x :: r =>
    match groupByScore r with
    | [] => [[x]]
    | g :: gs =>
      match g with
      | y :: _ => if x.2 == y.2 then (x :: g) :: gs else [x] :: g :: gs
      | [] => [x] :: gs

inductive ZMode where
  | window (lo : Nat) (hi : Int)     -- the sorted positions lo..hi are the ones the command selects
  | rank (x : Bytes)                 -- the command reveals the position of member x only
  | plain

/-- arrangement of the tie groups: (order, number of alternatives) -/
def zArrange (hint : List Bytes) (mode : ZMode) : Nat → Nat → List (List ZM) → List ZM × Nat
  | _, _, [] => ([], 1)
  | ord, a, g :: gs =>
    let t := g.length
    let r : List ZM × Nat × Nat :=
      match mode with
      | .plain => (g, 1, ord)
      | .rank x =>
        if g.any (fun z => z.1 == x) && t > 1 then
          let u := g.filter fun z => z.1 != x
          (u.take (ord % t) ++ g.filter (fun z => z.1 == x) ++ u.drop (ord % t), t, ord / t)
        else (g, 1, ord)
      | .window lo hi =>
        let inLo : Int := max a lo
        let inHi : Int := min ((a + t : Nat) - 1) hi
        let k : Nat := if inHi < inLo then 0 else (inHi - inLo + 1).toNat
        let before := lo - a
        let hs := hint.eraseDups.filterMap fun m => g.find? fun z => z.1 == m
        if !hs.isEmpty then
          let u := g.filter fun z => !(hs.any fun h => h.1 == z.1)
          (u.take before ++ hs ++ u.drop before, 1, ord)
        else if 0 < k && k < t then
          let subs := kSubsets k g
          let s := subs.getD (ord % subs.length) []
          let u := g.filter fun z => !(s.any fun h => h.1 == z.1)
          (u.take before ++ s ++ u.drop before, subs.length, ord / subs.length)
        else (g, 1, ord)
    let rest := zArrange hint mode r.2.2 (a + t) gs
    (r.1 ++ rest.1, r.2.1 * rest.2)

/-- `for j := i; j > a && less(data[j], data[j-1]); j-- { swap }` for one element -/
def insertRight {α : Type} (lt : α → α → Bool) (x : α) (p : List α) : List α :=
  (p.reverse.dropWhile fun y => lt x y).reverse ++ [x] ++ (p.reverse.takeWhile fun y => lt x y).reverse

/-- slices.SortFunc on at most 12 elements (insertionSortCmpFunc) -/
def insertionSort {α : Type} (lt : α → α → Bool) (l : List α) : List α :=
  l.foldl (fun p x => insertRight lt x p) []

def scoreLt (desc : Bool) (x y : ZM) : Bool := if desc then y.2.lt x.2 else x.2.lt y.2

/-- proposed `GetAll()` order of a sorted set for a command that sorts by score -/
def zGuess (c : Ctx) (desc : Bool) (mode : ZMode) (ms : KMap Flt) : List ZM × Nat :=
  zArrange c.hint mode c.order 0 (groupByScore (insertionSort (scoreLt desc) ms))

/-- proposed order for ZLEXCOUNT, where only the identity of the last member matters -/
def zGuessLast (c : Ctx) (ms : KMap Flt) : List ZM :=
  if ms.isEmpty then [] else
  match ms[c.order % ms.length]? with
  | none => ms
  | some z => ms.eraseIdx (c.order % ms.length) ++ [z]

/-- is CompareLex a strict total order on these members (then the sort result does not depend on the
    iteration order) -/
def lexTransitive (ms : List Bytes) : Bool :=
  ms.all fun x => ms.all fun y => ms.all fun z =>
    !(compareLex x y < 0 && compareLex y z < 0) || compareLex x z < 0

def allSameScore : List ZM → Bool
  | x :: y :: r => x.2 == y.2 && allSameScore (y :: r)
  | _ => true

def inLex (m lo hi : Bytes) : Bool :=
  (compareLex m lo == 1 || compareLex m lo == 0) && (compareLex m hi == -1 || compareLex m hi == 0)

/-! ### reply builders -/

/-- one element of the member-listing replies: `*2 $member +score` or `*1 $member` -/
def zElem (withscores : Bool) (z : ZM) : Bytes :=
  if withscores then arrHdr 2 ++ bulkStr z.1 ++ simpleStr z.2.fmtF else arrHdr 1 ++ bulkStr z.1

/-- members in a fixed order -/
def zArrOrdered (withscores : Bool) (zs : List ZM) : Res :=
  .ok (arrHdr zs.length ++ (zs.map (zElem withscores)).flatten)

/-- members in the iteration order of a freshly built map -/
def zArrAnyOrder (withscores : Bool) (zs : List ZM) : Res :=
  .okPerm (arrHdr zs.length) (zs.map (zElem withscores))

/-! ### SortedSet methods -/

/-- NewSortedSet: a repeated member keeps its last score -/
def newSortedSet (members : List ZM) : KMap Flt :=
  members.foldl (fun acc z => KMap.put acc z.1 z.2) []

/-- utils.go compareScores -/
def compareScores (old new : Flt) (comp : Bytes) : Flt :=
  if toLower comp == b "lt" then (if new.lt old then new else old)
  else if toLower comp == b "gt" then (if old.lt new then new else old)
  else new

/-- sorted_set.go:146 AddOrUpdate (the validate* helpers accept what the handlers pass) -/
def addOrUpdate (ms : KMap Flt) (members : List ZM) (policy comp ch inc : Option Bytes) : PRes (KMap Flt × Int) :=
  let policyS := policy.getD []
  let compS := comp.getD []
  if policy.isSome && !(toLower policyS == b "nx" || toLower policyS == b "xx") then .err (b "update policy must be a string of Value NX or XX") else
  if comp.isSome && !(toLower compS == b "lt" || toLower compS == b "gt") then .err (b "comparison condition must be a string of Value LT or GT") else
  if ch.isSome && !(eqFold (ch.getD []) (b "ch")) then .err (b "changed condition should be a string of Value CH") else
  if inc.isSome && !(eqFold (inc.getD []) (b "incr")) then .err (b "incr condition should be a string of Value INCR") else
  if eqFold policyS (b "nx") && compS != [] then .err (b "cannot use GT or LT when update policy is NX") else
  if inc.isSome && members.length != 1 then .err (b "INCR can only be used with one member/Score pair") else
  if inc.isSome then
    match members with
    | [(m, sc)] =>
      match ms.get m with
      | none => .ok (ms.put m sc, 1)
      | some old =>
        if old.isInf then .err (b "cannot increment -inf or +inf") else
        match old.add sc with
        | none => .unmod "score arithmetic outside exact domain"
        | some r => .ok (ms.put m r, if ch.isSome then 1 else 0)
    | _ => .ok (ms, 0)
  else
    .ok (members.foldl (fun (acc : KMap Flt × Int) (z : ZM) =>
      let cur := acc.1.get z.1
      if eqFold policyS (b "xx") then
        match cur with
        | some old => (acc.1.put z.1 (compareScores old z.2 compS), if ch.isSome then acc.2 + 1 else acc.2)
        | none => acc
      else if eqFold policyS (b "nx") then
        match cur with
        | none => (acc.1.put z.1 z.2, acc.2 + 1)
        | some _ => acc
      else
        -- absent member reads as the zero MemberObject (score 0)
        let old := cur.getD Flt.zero
        (acc.1.put z.1 (compareScores old z.2 compS), if old != z.2 || cur.isNone then acc.2 + 1 else acc.2)) (ms, 0))

/-- sorted_set.go:254 Pop for count > 0: (popped, remaining) -/
def zPop (c : Ctx) (ms : KMap Flt) (count : Nat) (max : Bool) : PRes (List ZM × KMap Flt) :=
  let g := zGuess c max (.window 0 ((count : Int) - 1)) ms
  if ms.length > 12 then .unmod "slices.SortFunc beyond insertion sort" else
  if g.2 > zAltCap then .unmod "too many tie arrangements" else
  let popped := (insertionSort (scoreLt max) g.1).take count
  .ok (popped, ms.filter fun z => !(popped.any fun p => p.1 == z.1))

inductive XRes (α : Type) where
  | ok (a : α)
  | err (msg : Bytes)
  | unmod (why : String)
  | panic (what : String)

structure KWA where
  keys : List Bytes
  weights : List Int
  aggregate : Bytes
  withscores : Bool

def isModifierTok (t : Bytes) : Bool := eqFold t (b "weights") || eqFold t (b "aggregate") || eqFold t (b "withscores")

/-- the WEIGHTS loop of utils.go:27 -/
def readWeights : List Bytes → List Int → PRes (List Int)
  | [], acc => .ok acc
  | t :: r, acc =>
    if toLower t == b "aggregate" || toLower t == b "withscores" then .ok acc else
    match atoiErr t with
    | .ok w => readWeights r (acc ++ [w])
    | .err m => .err m
    | .unmod w => .unmod w

/-- the AGGREGATE option of utils.go:42-52: the word after it must be SUM, MIN or MAX; a command that ends with
    AGGREGATE is refused with the same error (the index is checked before the word is read) -/
def readAggregate (cmd : List Bytes) : PRes Bytes :=
  match cmd.findIdx? fun t => eqFold t (b "aggregate") with
  | none => .ok (b "sum")
  | some i => match cmd[i + 1]? with
    | none => .err (b "aggregate must be SUM, MIN, or MAX")
    | some a => if toLower a == b "sum" || toLower a == b "min" || toLower a == b "max" then .ok (toLower a)
                else .err (b "aggregate must be SUM, MIN, or MAX")

/-- utils.go:24 extractKeysWeightsAggregateWithScores -/
def extractKWA (cmd : List Bytes) : XRes KWA :=
  if !(cmd.all isAscii) then .unmod "non-ASCII token (EqualFold)" else
  let wi := cmd.findIdx? fun t => eqFold t (b "weights")
  match (match wi with
         | some i => readWeights (cmd.drop (i + 1)) []
         | none => .ok []) with
  | .err m => .err m
  | .unmod w => .unmod w
  | .ok weights =>
    let ai := cmd.findIdx? fun t => eqFold t (b "aggregate")
    match readAggregate cmd with
    | .err m => .err m
    | .unmod w => .unmod w
    | .ok aggregate =>
      let si := cmd.findIdx? fun t => eqFold t (b "withscores")
      let fmi := ([wi, ai, si].filterMap id).foldl (fun (acc : Option Nat) i => match acc with
        | none => some i
        | some j => some (min i j)) none
      match fmi with
      | some 0 => .panic "slice bounds out of range [1:0]"
      | _ =>
        let keys := match fmi with
          | some i => (cmd.take i).drop 1
          | none => cmd.drop 1
        if wi.isSome && keys.length != weights.length then .err (b "number of weights should match number of keys")
        else .ok ⟨keys, if wi.isSome then weights else keys.map fun _ => 1, aggregate, si.isSome⟩

def aggScores (aggregate : Bytes) (l r : Flt) : Option Flt :=
  if aggregate == b "sum" then l.add r
  else if aggregate == b "min" then some (compareScores l r (b "lt"))
  else some (compareScores l r (b "gt"))

def scaleAll (ms : KMap Flt) (w : Int) : Option (KMap Flt) :=
  ms.mapM fun z => (z.2.mulInt w).map fun s => (z.1, s)

def interPair (aggregate : Bytes) (l r : KMap Flt) (wl wr : Int) : Option (KMap Flt) :=
  (l.filter fun z => (r.get z.1).isSome).mapM fun z =>
    match z.2.mulInt wl, ((r.get z.1).getD Flt.zero).mulInt wr with
    | some a, some c => (aggScores aggregate a c).map fun s => (z.1, s)
    | _, _ => none

/-- sorted_set.go:404 Intersect (divide and conquer); `none` = arithmetic outside the exact domain -/
def zIntersect (aggregate : Bytes) : Nat → List (KMap Flt × Int) → Option (KMap Flt)
  | _, [] => some []
  | _, [(s, w)] => scaleAll s w
  | _, [(l, wl), (r, wr)] => interPair aggregate l r wl wr
  | 0, _ => none
  | f + 1, ps =>
    match zIntersect aggregate f (ps.take (ps.length / 2)), zIntersect aggregate f (ps.drop (ps.length / 2)) with
    | some l, some r => interPair aggregate l r 1 1
    | _, _ => none

def unionPair (aggregate : Bytes) (l r : KMap Flt) (wl wr : Int) : Option (KMap Flt) :=
  match (l.mapM fun z =>
          match r.get z.1 with
          | none => (z.2.mulInt wl).map fun s => (z.1, s)
          | some rs => match z.2.mulInt wl, rs.mulInt wr with
            | some a, some c => (aggScores aggregate a c).map fun s => (z.1, s)
            | _, _ => none),
        ((r.filter fun z => (l.get z.1).isNone).mapM fun z => (z.2.mulInt wr).map fun s => (z.1, s)) with
  | some a, some c => some (a ++ c)
  | _, _ => none

/-- sorted_set.go:305 Union -/
def zUnion (aggregate : Bytes) : Nat → List (KMap Flt × Int) → Option (KMap Flt)
  | _, [] => some []
  | _, [(s, w)] => scaleAll s w
  | _, [(l, wl), (r, wr)] => unionPair aggregate l r wl wr
  | 0, _ => none
  | f + 1, ps =>
    match zUnion aggregate f (ps.take (ps.length / 2)), zUnion aggregate f (ps.drop (ps.length / 2)) with
    | some l, some r => unionPair aggregate l r 1 1
    | _, _ => none

/-! ### ZADD -/

/-- does this token start the score/member list (commands.go:45-59; the scan starts after the key) -/
def zaddIsScore (t : Bytes) : PRes Bool :=
  match adaptType t with
  | .unmod => .unmod "AdaptType outside exact numeric domain"
  | .str s => if !isAscii s then .unmod "non-ASCII token (ToLower)" else .ok (toLower s == b "-inf" || toLower s == b "+inf")
  | _ => .ok true

def zaddStart : List Bytes → Nat → PRes Nat
  | [], _ => .ok 0
  | t :: r, i =>
    match zaddIsScore t with
    | .ok true => .ok i
    | .ok false => zaddStart r (i + 1)
    | .err m => .err m
    | .unmod w => .unmod w

/-- commands.go:67-104: the score/member pairs; a later score that is a non-numeric word is skipped -/
def zaddMembers : List Bytes → PRes (List ZM)
  | sc :: m :: r =>
    match zaddMembers r with
    | .err e => .err e
    | .unmod w => .unmod w
    | .ok rest =>
      match adaptType sc with
      | .unmod => .unmod "AdaptType outside exact numeric domain"
      | .str s =>
        if !isAscii s then .unmod "non-ASCII token (ToLower)"
        else if toLower s == b "-inf" then .ok ((m, .ninf) :: rest)
        else if toLower s == b "+inf" then .ok ((m, .pinf) :: rest)
        else .ok rest
      | .flt f => .ok ((m, f) :: rest)
      | .int i => match Flt.ofInt i with
        | some f => .ok ((m, f) :: rest)
        | none => .unmod "int score beyond 2^53"
  | _ => .ok []

structure ZAddOpts where
  policy : Option Bytes := none
  comp : Option Bytes := none
  ch : Option Bytes := none
  incr : Option Bytes := none

/-- commands.go:107-141: NX/XX and GT/LT exclude each other (a repeated flag is accepted), NX excludes GT/LT -/
def zaddOptions (nMembers : Nat) : List Bytes → ZAddOpts → PRes ZAddOpts
  | [], o => .ok o
  | t :: r, o =>
    if !isAscii t then .unmod "non-ASCII option token" else
    if toLower t == b "xx" || toLower t == b "nx" then
      if o.policy.isSome && !eqFold (o.policy.getD []) t then .err (b "XX and NX flags cannot be provided together")
      else if eqFold t (b "nx") && o.comp.isSome then .err (b "GT/LT flags not allowed if NX flag is provided")
      else zaddOptions nMembers r { o with policy := some t }
    else if toLower t == b "gt" || toLower t == b "lt" then
      if o.comp.isSome && !eqFold (o.comp.getD []) t then .err (b "GT and LT flags cannot be provided together")
      else if eqFold (o.policy.getD []) (b "nx") then .err (b "GT/LT flags not allowed if NX flag is provided")
      else zaddOptions nMembers r { o with comp := some t }
    else if eqFold t (b "ch") then zaddOptions nMembers r { o with ch := some t }
    else if eqFold t (b "incr") then
      if nMembers > 1 then .err (b "cannot pass more than one score/member pair when INCR flag is provided")
      else zaddOptions nMembers r { o with incr := some t }
    else .err (b "invalid option " ++ t)

/-- the part of handleZADD after option parsing -/
def zaddApply (key : Bytes) (keyExists : Bool) (members : List ZM) (o : ZAddOpts) : Prog Res :=
  if keyExists then
    .call (.getValues [key]) fun (vs : List Val) =>
    match asZSet? (vs.headD .nil) with
    | none => .ret (.err (notZSet key))
    | some ms =>
      match addOrUpdate ms members o.policy o.comp o.ch o.incr with
      | .err m => .ret (.err m)
      | .unmod w => .unmod w
      | .ok (ms', count) =>
        .call (.mutObj key (.zset 0 ms')) fun _ =>
        if o.incr.isSome then
          match members.head? with
          | none => .panic "index out of range (members[0])"
          | some z =>
            match ((ms'.get z.1).getD Flt.zero).fmt6 with
            | none => .unmod "%f of a score with more than six decimals"
            | some t => .ret (.ok (simpleStr t))
        else .ret (.ok (intReply count))
  else
    setOrErr [(key, .zset 0 (newSortedSet members))] (.ret (.ok (intReply (newSortedSet members).length)))

/-- commands.go:29 handleZADD -/
def handleZAdd (_c : Ctx) (cmd : List Bytes) : Prog Res :=
  if cmd.length < 4 then .ret (.err wrongArgs) else
  match cmd with
  | _ :: key :: _ =>
    .call (.keysExist [key]) fun (ex : List Bool) =>
    match zaddStart (cmd.drop 2) 2 with
    | .err m => .ret (.err m)
    | .unmod w => .unmod w
    | .ok msi =>
      if msi < 2 || (cmd.length - msi) % 2 != 0 then .ret (.err (b "score/member pairs must be float/string")) else
      match zaddMembers (cmd.drop msi) with
      | .err m => .ret (.err m)
      | .unmod w => .unmod w
      | .ok members =>
        match zaddOptions members.length ((cmd.take msi).drop 2) {} with
        | .err m => .ret (.err m)
        | .unmod w => .unmod w
        | .ok o => zaddApply key (ex.headD false) members o
  | _ => .ret (.err wrongArgs)

/-! ### single-key commands -/

/-- key-function arity, existence test, argument parsing, absent answer, value read, type test — in the
    order of the Go handlers -/
def withZSet {α : Type} (cmd : List Bytes) (arityOk : Bool) (parse : PRes α) (absent : Res)
    (notMsg : Bytes → Bytes) (k : Bytes → KMap Flt → α → Prog Res) : Prog Res :=
  if !arityOk then .ret (.err wrongArgs) else
  match cmd with
  | _ :: key :: _ =>
    .call (.keysExist [key]) fun (ex : List Bool) =>
    match parse with
    | .err m => .ret (.err m)
    | .unmod w => .unmod w
    | .ok a =>
      if !(ex.headD false) then .ret absent else
      .call (.getValues [key]) fun (vs : List Val) =>
      match asZSet? (vs.headD .nil) with
      | none => .ret (.err (notMsg key))
      | some ms => k key ms a
  | _ => .ret (.err wrongArgs)

/-- :171 handleZCARD -/
def handleZCard (_c : Ctx) (cmd : List Bytes) : Prog Res :=
  withZSet cmd (cmd.length == 2) (.ok ()) (.ok (intReply 0)) notZSet fun _ ms _ => .ret (.ok (intReply ms.length))

/-- a ZCOUNT bound (either end): AdaptType; a word is accepted when strconv.ParseFloat reads it as an infinity
    (`-INF`, `+Infinity`, …: big.ParseFloat knows only `inf` / `Inf`), anything else — a finite value spelled in a
    way only ParseFloat reads, NaN, a range error, not a number — is refused -/
def zcountBound (t errMsg : Bytes) : PRes Flt :=
  match adaptType t with
  | .unmod => .unmod "AdaptType outside exact numeric domain"
  | .str s => match parseFloat64 s with
    | some (some f) => if f.isInf then .ok f else .err errMsg
    | _ => .err errMsg
  | .flt f => .ok f
  | .int i => match Flt.ofInt i with
    | some f => .ok f
    | none => .unmod "int bound beyond 2^53"

/-- :192 handleZCOUNT -/
def handleZCount (_c : Ctx) (cmd : List Bytes) : Prog Res :=
  withZSet cmd (cmd.length == 4)
    (match zcountBound (cmd.getD 2 []) (b "min constraint must be a double") with
     | .ok lo => (match zcountBound (cmd.getD 3 []) (b "max constraint must be a double") with
        | .ok hi => PRes.ok (lo, hi)
        | .err m => .err m
        | .unmod w => .unmod w)
     | .err m => .err m
     | .unmod w => .unmod w)
    (.ok (intReply 0)) notZSet fun _ ms (bounds : Flt × Flt) =>
      .ret (.ok (intReply (ms.filter fun z => bounds.1.le z.2 && z.2.le bounds.2).length))

/-- :256 handleZLEXCOUNT — the equal-score test stops two short of the end (`len(members)-2`) -/
def handleZLexCount (c : Ctx) (cmd : List Bytes) : Prog Res :=
  withZSet cmd (cmd.length == 4) (.ok ()) (.ok (intReply 0)) notZSet fun _ ms _ =>
    if !allSameScore ((zGuessLast c ms).dropLast) then .ret (.ok (intReply 0))
    else .ret (.ok (intReply (ms.filter fun z => inLex z.1 (cmd.getD 2 []) (cmd.getD 3 [])).length))

/-- :677 handleZMSCORE -/
def handleZMScore (_c : Ctx) (cmd : List Bytes) : Prog Res :=
  withZSet cmd (cmd.length ≥ 3) (.ok ()) (.ok (b "*0\r\n")) notZSet fun _ ms _ =>
    .ret (.ok (arrHdr (cmd.drop 2).length ++ ((cmd.drop 2).map fun m => match ms.get m with
      | none => nilBulk
      | some s => simpleStr s.fmtF).flatten))

/-- :843 handleZSCORE -/
def handleZScore (_c : Ctx) (cmd : List Bytes) : Prog Res :=
  withZSet cmd (cmd.length == 3) (.ok ()) (.ok nilBulk) notZSet fun _ ms _ =>
    match ms.get (cmd.getD 2 []) with
    | none => .ret (.ok nilBulk)
    | some s => .ret (.ok (bulkStr s.fmtF))

/-- :815 handleZREM -/
def handleZRem (_c : Ctx) (cmd : List Bytes) : Prog Res :=
  withZSet cmd (cmd.length ≥ 3) (.ok ()) (.ok (intReply 0)) notZSet fun key ms _ =>
    let r := (cmd.drop 2).foldl (fun (acc : KMap Flt × Int) m =>
      if (acc.1.get m).isSome then (acc.1.del m, acc.2 + 1) else acc) (ms, 0)
    .call (.mutObj key (.zset 0 r.1)) fun _ => .ret (.ok (intReply r.2))

/-- ZRANDMEMBER / ZPOP count argument through strconv.Atoi -/
def atoiOr (t : Bytes) (msg : Option Bytes) : PRes Int :=
  match atoiErr t with
  | .ok i => .ok i
  | .err m => .err (msg.getD m)
  | .unmod w => match msg with
    | some m => if (parseInt64 t).isNone then .err m else .unmod w
    | none => .unmod w

/-- :715 handleZRANDMEMBER (SortedSet.GetRandom) -/
def handleZRandMember (_c : Ctx) (cmd : List Bytes) : Prog Res :=
  withZSet cmd (cmd.length ≥ 2 && cmd.length ≤ 4)
    (match (if cmd.length ≥ 3 then atoiOr (cmd.getD 2 []) (some (b "count must be an integer")) else .ok 1) with
     | .err m => .err m
     | .unmod w => .unmod w
     | .ok cnt =>
       if cmd.length == 4 then
         if !isAscii (cmd.getD 3 []) then .unmod "non-ASCII token (EqualFold)"
         else if eqFold (cmd.getD 3 []) (b "withscores") then PRes.ok (cnt, true)
         else .err (b "last option must be WITHSCORES")
       else .ok (cnt, false))
    (.ok nilBulk) notZSet fun _ ms (a : Int × Bool) =>
      if a.1 == minInt64 then .unmod "AbsInt(MinInt64)"
      else if a.1.natAbs ≥ ms.length then .ret (zArrAnyOrder a.2 ms)
      else .ret (.okPick (arrHdr a.1.natAbs) a.1.natAbs (decide (a.1 > 0)) (ms.map (zElem a.2)))

/-- :769 handleZRANK (ZRANK and ZREVRANK; the handler itself applies zrankKeyFunc to both); the option is read as
    WITHSCORE (documented) or WITHSCORES, any other fourth token is ignored -/
def handleZRank (c : Ctx) (cmd : List Bytes) : Prog Res :=
  let rev := eqFold (cmd.headD []) (b "zrevrank")
  withZSet cmd (cmd.length ≥ 3 && cmd.length ≤ 4)
    (if cmd.length == 4 then
       (if !isAscii (cmd.getD 3 []) then .unmod "non-ASCII token (EqualFold)" else PRes.ok (eqFold (cmd.getD 3 []) (b "withscore") || eqFold (cmd.getD 3 []) (b "withscores")))
     else .ok false)
    (.ok nilBulk) notZSet fun _ ms (withscores : Bool) =>
      let g := zGuess c rev (.rank (cmd.getD 2 [])) ms
      if ms.length > 12 then .unmod "slices.SortFunc beyond insertion sort" else
      if g.2 > zAltCap then .unmod "too many tie arrangements" else
      match (insertionSort (scoreLt rev) g.1).findIdx? (fun z => z.1 == cmd.getD 2 []), ms.get (cmd.getD 2 []) with
      | some i, some s =>
        if withscores then .ret (.ok (arrHdr 2 ++ intReply i ++ bulkStr s.fmtF))
        else .ret (.ok (arrHdr 1 ++ intReply i))
      | _, _ => .ret (.ok nilBulk)

/-- `strconv.ParseFloat(s, 64)` with its error text -/
def parseFloatErr (s : Bytes) : PRes Flt :=
  match parseFloat64 s with
  | some (some f) => .ok f
  | some none => .unmod "float outside exact domain"
  | none =>
    if !(s.all fun ch => 32 ≤ ch && ch < 127 && ch != 34 && ch != 92) then .unmod "strconv.Quote of non-printable argument"
    else .err (b "strconv.ParseFloat: parsing \"" ++ s ++ b "\": invalid syntax")

def twoOf {α : Type} (x y : PRes α) : PRes (α × α) :=
  match x with
  | .err m => .err m
  | .unmod w => .unmod w
  | .ok a => match y with
    | .err m => .err m
    | .unmod w => .unmod w
    | .ok c => .ok (a, c)

/-- :870 handleZREMRANGEBYSCORE -/
def handleZRemRangeByScore (_c : Ctx) (cmd : List Bytes) : Prog Res :=
  withZSet cmd (cmd.length == 4) (twoOf (parseFloatErr (cmd.getD 2 [])) (parseFloatErr (cmd.getD 3 [])))
    (.ok (intReply 0)) notZSet fun key ms (bounds : Flt × Flt) =>
      .call (.mutObj key (.zset 0 (ms.filter fun z => !(bounds.1.le z.2 && z.2.le bounds.2)))) fun _ =>
        .ret (.ok (intReply (ms.filter fun z => bounds.1.le z.2 && z.2.le bounds.2).length))

/-- :910 handleZREMRANGEBYRANK -/
def handleZRemRangeByRank (c : Ctx) (cmd : List Bytes) : Prog Res :=
  withZSet cmd (cmd.length == 4) (twoOf (atoiErr (cmd.getD 2 [])) (atoiErr (cmd.getD 3 [])))
    (.ok (intReply 0)) notZSet fun key ms (idx : Int × Int) =>
      let card : Int := ms.length
      let start := if idx.1 < 0 then idx.1 + card else idx.1
      let stop := if idx.2 < 0 then idx.2 + card else idx.2
      if start < 0 || start > card - 1 || stop < 0 || stop > card - 1 then .ret (.err (b "indices out of bounds")) else
      -- a start after the stop is an empty range: the loop body never runs, nothing is removed (whatever the sort did)
      if start > stop then .ret (.ok (intReply 0)) else
      let lo := start.toNat
      let hi := stop.toNat
      let g := zGuess c false (.window lo hi) ms
      if ms.length > 12 then .unmod "slices.SortFunc beyond insertion sort" else
      if g.2 > zAltCap then .unmod "too many tie arrangements" else
      let gone := ((insertionSort (scoreLt false) g.1).drop lo).take (hi - lo + 1)
      .call (.mutObj key (.zset 0 (ms.filter fun z => !(gone.any fun p => p.1 == z.1)))) fun _ =>
        .ret (.ok (intReply (hi - lo + 1 : Nat)))

/-- :971 handleZREMRANGEBYLEX -/
def handleZRemRangeByLex (_c : Ctx) (cmd : List Bytes) : Prog Res :=
  withZSet cmd (cmd.length == 4) (.ok ()) (.ok (intReply 0)) notZSet fun key ms _ =>
    if !allSameScore ms then .ret (.ok (intReply 0)) else
    .call (.mutObj key (.zset 0 (ms.filter fun z => !inLex z.1 (cmd.getD 2 []) (cmd.getD 3 [])))) fun _ =>
      .ret (.ok (intReply (ms.filter fun z => inLex z.1 (cmd.getD 2 []) (cmd.getD 3 [])).length))

/-- :627 handleZPOP (ZPOPMIN / ZPOPMAX); the count goes to SortedSet.Pop as given: a negative one is refused
    there, zero pops nothing (sorted_set.go:255-260) -/
def handleZPop (c : Ctx) (cmd : List Bytes) : Prog Res :=
  withZSet cmd (cmd.length ≥ 2 && cmd.length ≤ 3)
    (if cmd.length == 3 then atoiErr (cmd.getD 2 []) else .ok 1)
    (.ok (b "*0\r\n")) (fun key => b "value at key " ++ key ++ b " is not a sorted set") fun key ms (count : Int) =>
      if count < 0 then .ret (.err (b "count must be a positive integer")) else
      if count == 0 then .ret (.ok (b "*0\r\n")) else
      match zPop c ms count.toNat (eqFold (cmd.headD []) (b "zpopmax")) with
      | .err m => .ret (.err m)
      | .unmod w => .unmod w
      | .ok (popped, rest) =>
        .call (.mutObj key (.zset 0 rest)) fun _ => .ret (zArrAnyOrder true popped)

/-! ### ZRANGE / ZRANGESTORE -/

structure ZRangeOpts where
  withscores : Bool
  reverse : Bool
  bylex : Bool
  lo : Flt
  hi : Flt
  offset : Int
  count : Int

/-- option parsing of handleZRANGE (:1023-1075) / handleZRANGESTORE (:1160-1208); `opts` = the tokens
    after start/stop -/
def zrangeParse (startTok stopTok : Bytes) (opts : List Bytes) : PRes ZRangeOpts :=
  if !(opts.all isAscii) then .unmod "non-ASCII option token" else
  let withscores := opts.any fun t => eqFold t (b "withscores")
  let reverse := opts.any fun t => eqFold t (b "rev")
  let bylex := opts.any fun t => eqFold t (b "bylex")
  match (if bylex then PRes.ok (Flt.ninf, Flt.pinf) else twoOf (parseFloatErr startTok) (parseFloatErr stopTok)) with
  | .err m => .err m
  | .unmod w => .unmod w
  | .ok bounds =>
    match opts.findIdx? fun t => eqFold t (b "limit") with
    | none => .ok ⟨withscores, reverse, bylex, bounds.1, bounds.2, 0, -1⟩
    | some li =>
      if (li : Int) > (opts.length : Int) - 3 then .err (b "limit should contain offset and count as integers") else
      match atoiOr (opts.getD (li + 1) []) (some (b "limit offset must be integer")) with
      | .err m => .err m
      | .unmod w => .unmod w
      | .ok offset =>
        if offset < 0 then .err (b "limit offset must be >= 0") else
        match atoiOr (opts.getD (li + 2) []) (some (b "limit count must be integer")) with
        | .err m => .err m
        | .unmod w => .unmod w
        | .ok count => .ok ⟨withscores, reverse, bylex, bounds.1, bounds.2, offset, count⟩

inductive ZSel where
  | members (zs : List ZM)
  | early                 -- the `offset > Cardinality` / unequal-scores early exits
  | unmod (why : String)

/-- the selection loop shared by ZRANGE and ZRANGESTORE (:1086-1134) -/
def zrangeSelect (c : Ctx) (ms : KMap Flt) (o : ZRangeOpts) (lexStart lexStop : Bytes) : ZSel :=
  let card : Int := ms.length
  if o.offset > card then .early else
  let count := if o.count < 0 then card - o.offset else o.count
  if ms.length > 12 then .unmod "slices.SortFunc beyond insertion sort" else
  if !o.bylex then
    let g := zGuess c o.reverse (.window o.offset.toNat (min count (card - 1))) ms
    if g.2 > zAltCap then .unmod "too many tie arrangements" else
    let sorted := insertionSort (scoreLt o.reverse) g.1
    .members ((sorted.zipIdx.filter fun (z, i) =>
      decide (o.offset ≤ (i : Int)) && decide ((i : Int) ≤ count) && o.lo.le z.2 && z.2.le o.hi).map (·.1))
  else
    if !allSameScore ms then .early else
    if !lexTransitive (ms.map (·.1)) then .unmod "CompareLex is not transitive on these members" else
    let sorted := insertionSort (fun (x y : ZM) => if o.reverse then compareLex y.1 x.1 < 0 else compareLex x.1 y.1 < 0) ms
    .members ((sorted.zipIdx.filter fun (z, i) =>
      decide (o.offset ≤ (i : Int)) && decide ((i : Int) ≤ count) && inLex z.1 lexStart lexStop).map (·.1))

/-- :1014 handleZRANGE -/
def handleZRange (c : Ctx) (cmd : List Bytes) : Prog Res :=
  withZSet cmd (cmd.length ≥ 4 && cmd.length ≤ 10) (zrangeParse (cmd.getD 2 []) (cmd.getD 3 []) (cmd.drop 4))
    (.ok (b "*0\r\n")) notZSet fun _ ms (o : ZRangeOpts) =>
      match zrangeSelect c ms o (cmd.getD 2 []) (cmd.getD 3 []) with
      | .unmod w => .unmod w
      | .early => .ret (.ok (b "*0\r\n"))
      | .members zs => .ret (zArrOrdered o.withscores zs)

/-- :1151 handleZRANGESTORE -/
def handleZRangeStore (c : Ctx) (cmd : List Bytes) : Prog Res :=
  if cmd.length < 5 || cmd.length > 11 then .ret (.err wrongArgs) else
  match cmd with
  | _ :: dest :: source :: _ =>
    .call (.keysExist [source]) fun (ex : List Bool) =>
    match zrangeParse (cmd.getD 3 []) (cmd.getD 4 []) (cmd.drop 5) with
    | .err m => .ret (.err m)
    | .unmod w => .unmod w
    | .ok o =>
      if !(ex.headD false) then .ret (.ok (b "*0\r\n")) else
      .call (.getValues [source]) fun (vs : List Val) =>
      match asZSet? (vs.headD .nil) with
      | none => .ret (.err (notZSet source))
      | some ms =>
        match zrangeSelect c ms o (cmd.getD 3 []) (cmd.getD 4 []) with
        | .unmod w => .unmod w
        | .early => .ret (.ok (intReply 0))
        | .members zs =>
          setOrErr [(dest, .zset 0 (newSortedSet zs))] (.ret (.ok (intReply (newSortedSet zs).length)))
  | _ => .ret (.err wrongArgs)

/-! ### ZINCRBY -/

/-- :396 handleZINCRBY -/
def handleZIncrBy (_c : Ctx) (cmd : List Bytes) : Prog Res :=
  match cmd with
  | [_, key, incTok, member] =>
    .call (.keysExist [key]) fun (ex : List Bool) =>
    match (match adaptType incTok with
           | .unmod => PRes.unmod "AdaptType outside exact numeric domain"
           | .str s => if !isAscii s then .unmod "non-ASCII token (ToLower)"
                       else if toLower s == b "-inf" then .ok Flt.ninf
                       else if toLower s == b "+inf" then .ok Flt.pinf
                       else .err (b "increment must be a double")
           | .flt f => .ok f
           | .int i => match Flt.ofInt i with
             | some f => .ok f
             | none => .unmod "int increment beyond 2^53") with
    | .err m => .ret (.err m)
    | .unmod w => .unmod w
    | .ok increment =>
      if !(ex.headD false) then
        setOrErr [(key, .zset 0 [(member, increment)])] (.ret (.ok (simpleStr increment.fmtF)))
      else
        .call (.getValues [key]) fun (vs : List Val) =>
        match asZSet? (vs.headD .nil) with
        | none => .ret (.err (notZSet key))
        | some ms =>
          match addOrUpdate ms [(member, increment)] (some (b "xx")) none none (some (b "incr")) with
          | .err m => .ret (.err m)
          | .unmod w => .unmod w
          | .ok (ms', _) =>
            .call (.mutObj key (.zset 0 ms')) fun _ =>
              .ret (.ok (simpleStr ((ms'.get member).getD Flt.zero).fmtF))
  | _ => .ret (.err wrongArgs)

/-! ### ZDIFF / ZDIFFSTORE -/

/-- the operand loop of ZDIFF (:326-335): existing keys are read one GetValues call at a time -/
def collectZSets : List (Bytes × Bool) → (List (KMap Flt) → Prog Res) → Prog Res
  | [], k => k []
  | (key, exists_) :: r, k =>
    if !exists_ then collectZSets r k else
    .call (.getValues [key]) fun (vs : List Val) =>
    match asZSet? (vs.headD .nil) with
    | none => .ret (.err (notZSet key))
    | some ms => collectZSets r fun acc => k (ms :: acc)

/-- SortedSet.Subtract -/
def zSubtract (base : KMap Flt) (others : List (KMap Flt)) : KMap Flt :=
  base.filter fun z => !(others.any fun o => (o.get z.1).isSome)

/-- :297 handleZDIFF / :356 handleZDIFFSTORE -/
def handleZDiff (store : Bool) (_c : Ctx) (cmd : List Bytes) : Prog Res :=
  if (store && cmd.length < 3) || (!store && cmd.length < 2) then .ret (.err wrongArgs) else
  if !store && !(cmd.all isAscii) then .unmod "non-ASCII token (EqualFold)" else
  let wsi := if store then none else cmd.findIdx? fun t => eqFold t (b "withscores")
  let readKeys := if store then cmd.drop 2 else match wsi with
    | some i => (cmd.take i).drop 1
    | none => cmd.drop 1
  .call (.keysExist readKeys) fun (ex : List Bool) =>
  if (match wsi with
      | some i => decide (i < 2)
      | none => false) then .ret (.err wrongArgs) else
  match readKeys.zip ex with
  | [] => .panic "index out of range (ReadKeys[0])"
  | (base, baseExists) :: others =>
    if !baseExists then .ret (.ok (if store then intReply 0 else b "*0\r\n")) else
    .call (.getValues [base]) fun (vs : List Val) =>
    match asZSet? (vs.headD .nil) with
    | none => .ret (.err (notZSet base))
    | some bm =>
      collectZSets (others.map fun p => (p.1, ((readKeys.zip ex).find? fun q => q.1 == p.1).map (·.2) == some true)) fun sets =>
        if store then
          setOrErr [(cmd.getD 1 [], .zset 0 (zSubtract bm sets))] (.ret (.ok (intReply (zSubtract bm sets).length)))
        else .ret (zArrAnyOrder wsi.isSome (zSubtract bm sets))

/-! ### ZINTER / ZINTERSTORE / ZUNION / ZUNIONSTORE -/

/-- map lookup `keyExists[key]` on the result of KeysExist -/
def existsIn (keys : List Bytes) (ex : List Bool) (k : Bytes) : Bool :=
  ((keys.zip ex).find? fun q => q.1 == k).map (·.2) == some true

inductive ZParams where
  | ok (ps : List (KMap Flt × Int))
  | absent
  | wrongType (key : Bytes)

/-- operand loop of ZINTER / ZINTERSTORE: the first absent key answers empty, the first non-sorted-set an error -/
def interParams : List (Bytes × Bool × Val × Int) → ZParams
  | [] => .ok []
  | (key, exists_, v, w) :: r =>
    if !exists_ then .absent else
    match asZSet? v with
    | none => .wrongType key
    | some ms => match interParams r with
      | .ok ps => .ok ((ms, w) :: ps)
      | x => x

/-- operand loop of ZUNION / ZUNIONSTORE: absent keys are skipped -/
def unionParams : List (Bytes × Bool × Val × Int) → ZParams
  | [] => .ok []
  | (key, exists_, v, w) :: r =>
    if !exists_ then unionParams r else
    match asZSet? v with
    | none => .wrongType key
    | some ms => match unionParams r with
      | .ok ps => .ok ((ms, w) :: ps)
      | x => x

/-- key-function verdict of zinterKeyFunc / zunionKeyFunc: a modifier as the first argument -/
def firstArgIsModifier (cmd : List Bytes) : Bool :=
  ((cmd.drop 1).findIdx? isModifierTok) == some 0

/-- zinterstoreKeyFunc / zunionstoreKeyFunc: with a modifier present there must be a destination and at least one
    source key before it -/
def zstoreKeyFuncErr (cmd : List Bytes) : Bool :=
  match (cmd.drop 1).findIdx? isModifierTok with
  | none => false
  | some i => decide (i < 2)

/-- the tail shared by the four commands once keys, weights and values are known -/
def zCombineTail (inter store withscores : Bool) (dest aggregate : Bytes) (rows : List (Bytes × Bool × Val × Int)) : Prog Res :=
  match (if inter then interParams rows else unionParams rows) with
  | .absent => .ret (.ok (if store then intReply 0 else b "*0\r\n"))
  | .wrongType key => .ret (.err (notZSet key))
  | .ok ps =>
    match (if inter then zIntersect aggregate ps.length ps else zUnion aggregate ps.length ps) with
    | none => .unmod "score arithmetic outside exact domain"
    | some res =>
      if store then setOrErr [(dest, .zset 0 res)] (.ret (.ok (intReply res.length)))
      else .ret (zArrAnyOrder withscores res)

/-- :458 handleZINTER (inter, ¬store) / :507 handleZINTERSTORE / :1279 handleZUNION / :1323 handleZUNIONSTORE -/
def handleZCombine (inter store : Bool) (_c : Ctx) (cmd : List Bytes) : Prog Res :=
  if (store && cmd.length < 3) || (!store && cmd.length < 2) then .ret (.err wrongArgs) else
  if !(cmd.all isAscii) then .unmod "non-ASCII token (EqualFold)" else
  if (if store then zstoreKeyFuncErr cmd else firstArgIsModifier cmd) then .ret (.err wrongArgs) else
  let dest := cmd.getD 1 []
  -- ZINTERSTORE asks KeysExist about the key function's ReadKeys *before* removing the destination
  let readKeys := match (cmd.drop 1).findIdx? isModifierTok with
    | none => cmd.drop 2
    | some i => (cmd.take (i + 1)).drop 2
  -- the STORE forms delete every *argument* equal to the destination (the command word stays) before parsing
  let cmd' := if store then cmd.take 1 ++ (cmd.drop 1).filter fun t => t != dest else cmd
  if inter && store then
    .call (.keysExist readKeys) fun (ex : List Bool) =>
    match extractKWA cmd' with
    | .err m => .ret (.err m)
    | .unmod w => .unmod w
    | .panic w => .panic w
    | .ok kwa =>
      .call (.getValues kwa.keys) fun (vs : List Val) =>
      zCombineTail inter store kwa.withscores dest kwa.aggregate
        ((kwa.keys.zip (vs.zip kwa.weights)).map fun (k, v, w) => (k, existsIn readKeys ex k, v, w))
  else
    match extractKWA cmd' with
    | .err m => .ret (.err m)
    | .unmod w => .unmod w
    | .panic w => .panic w
    | .ok kwa =>
      .call (.keysExist kwa.keys) fun (ex : List Bool) =>
      .call (.getValues kwa.keys) fun (vs : List Val) =>
      zCombineTail inter store kwa.withscores dest kwa.aggregate
        ((kwa.keys.zip (vs.zip kwa.weights)).map fun (k, v, w) => (k, existsIn kwa.keys ex k, v, w))

/-! ### ZMPOP -/

/-- the key loop of handleZMPOP (:601-622): non-sorted-set and empty values are skipped -/
def zmpopLoop (c : Ctx) (count : Nat) (max : Bool) : List (Bytes × Bool) → Prog Res
  | [] => .ret (.ok (b "*0\r\n"))
  | (key, exists_) :: r =>
    if !exists_ then zmpopLoop c count max r else
    .call (.getValues [key]) fun (vs : List Val) =>
    match asZSet? (vs.headD .nil) with
    | none => zmpopLoop c count max r
    | some ms =>
      if ms.isEmpty then zmpopLoop c count max r else
      match zPop c ms count max with
      | .err m => .ret (.err m)
      | .unmod w => .unmod w
      | .ok (popped, rest) =>
        .call (.mutObj key (.zset 0 rest)) fun _ => .ret (zArrAnyOrder true popped)

/-- :553 handleZMPOP -/
def handleZMPop (c : Ctx) (cmd : List Bytes) : Prog Res :=
  if cmd.length < 2 then .ret (.err wrongArgs) else
  if !(cmd.all isAscii) then .unmod "non-ASCII token (ToLower)" else
  let endIdx := cmd.findIdx? fun t => toUpper t == b "MIN" || toUpper t == b "MAX" || toUpper t == b "COUNT"
  if (match endIdx with
      | some i => decide (i < 2)
      | none => false) then .ret (.err wrongArgs) else
  let writeKeys := match endIdx with
    | some i => (cmd.take i).drop 1
    | none => cmd.drop 1
  .call (.keysExist writeKeys) fun (ex : List Bool) =>
  match (match cmd.findIdx? fun t => toLower t == b "count" with
         | none => PRes.ok 1
         | some ci =>
           if ci < 2 then .err wrongArgs
           else if ci == cmd.length - 1 then .err (b "count must be a positive integer")
           else match atoiErr (cmd.getD (ci + 1) []) with
             | .err m => .err m
             | .unmod w => .unmod w
             | .ok n => if n ≤ 0 then .err (b "count must be a positive integer") else .ok n) with
  | .err m => .ret (.err m)
  | .unmod w => .unmod w
  | .ok count =>
    match cmd.findIdx? fun t => toLower t == b "min" || toLower t == b "max" with
    | some pi =>
      if pi < 2 then .ret (.err wrongArgs)
      else zmpopLoop c count.toNat (toLower (cmd.getD pi []) == b "max") (writeKeys.zip ex)
    | none => zmpopLoop c count.toNat false (writeKeys.zip ex)

/-- bound on the number of iteration-order alternatives `zGuess`/`zGuessLast` distinguish for any sorted set
    of the selected database (the driver enumerates `c.order` below it) -/
def zTries (s : State) (db : Nat) : Nat :=
  let choose (n k : Nat) : Nat := (kSubsets k (List.range n)).length
  let bound (ms : KMap Flt) : Nat :=
    let groups := groupByScore (insertionSort (scoreLt false) ms)
    max ms.length (groups.foldl (fun acc g => acc * choose g.length (g.length / 2)) 1)
  min zAltCap ((s.db db).store.foldl (fun acc (_, e) => match e.val with
    | .zset _ ms => max acc (bound ms)
    | _ => acc) 1)

end Sugar
