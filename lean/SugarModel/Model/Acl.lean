/-
  Model.Acl — internal/modules/acl: users, rule parsing (user.go UpdateUser / Normalise), SetUser,
  DeleteUser, RegisterConnection, AuthenticateConnection, AuthorizeConnection (acl.go), transcribed
  literally. Users are heap objects: a connection holds a *pointer* to its user, so edits through
  SETUSER show at once and a deleted user object stays reachable from its connections.
  Glob matching is a parameter (`gmatch`); the SHA-256 of the supplied password is an input.
-/
import SugarModel.Base.Resp
import SugarModel.Model.Generic
import SugarModel.Model.PubSub
namespace Sugar.Acl
open Sugar

structure Password where
  sha : Bool            -- PasswordType "SHA256" (true) or "plaintext"
  value : Bytes
deriving DecidableEq, Repr, Inhabited

structure User where
  name : Bytes
  enabled : Bool := true
  noPass : Bool := false
  noKeys : Bool := false
  passwords : List Password := []
  inclCats : List Bytes := []
  exclCats : List Bytes := []
  inclCmds : List Bytes := []
  exclCmds : List Bytes := []
  readKeys : List Bytes := []
  writeKeys : List Bytes := []
  inclChans : List Bytes := []
  exclChans : List Bytes := []
deriving DecidableEq, Repr, Inhabited

def star : Bytes := b "*"

/-- user.go:100 RemoveDuplicateEntries (result order is Go map order: kept as first-occurrence order,
    compared as a set) -/
def removeDup (entries : List Bytes) (alias_ : Bytes) : List Bytes :=
  let ds := (entries.map fun e => if e == alias_ then star else e).eraseDups
  if ds == [star] then [star] else ds.filter (· != star)

/-- user.go:53 Normalise -/
def normalise (u : User) : User :=
  let ic := removeDup u.inclCats (b "allCategories")
  let ic := if ic.isEmpty then [star] else ic
  let ec := removeDup u.exclCats (b "allCategories")
  let ic := if ec.contains star then [] else ic
  let im := removeDup u.inclCmds (b "allCommands")
  let im := if im.isEmpty then [star] else im
  let em := removeDup u.exclCmds (b "allCommands")
  let im := if em.contains star then [] else im
  let rk := removeDup u.readKeys (b "allKeys")
  let rk := if rk.isEmpty && !u.noKeys then [star] else rk
  let wk := removeDup u.writeKeys (b "allKeys")
  let wk := if wk.isEmpty && !u.noKeys then [star] else wk
  let ich := removeDup u.inclChans (b "allChannels")
  let ich := if ich.isEmpty then [star] else ich
  let ech := removeDup u.exclChans (b "allChannels")
  let ich := if ech.contains star then [] else ich
  { u with inclCats := ic, exclCats := ec, inclCmds := im, exclCmds := em, readKeys := rk, writeKeys := wk,
           inclChans := ich, exclChans := ech,
           passwords := u.passwords.filter (!·.sha) ++ u.passwords.filter (·.sha) }

inductive TokRes where
  | ok (u : User)
  | err (msg : Bytes)
  | panic
  | unmod

/-- one iteration of the first loop of UpdateUser (user.go:122-226) -/
def updateTok (u : User) (str : Bytes) : TokRes :=
  if !isAscii str then .unmod else
  match str with
  | [] => .panic                                  -- str[0] on an empty token (UpdateUser refuses one before the loop)
  | c0 :: rest =>
    let u := if eqFold str (b "on") then { u with enabled := true } else u
    let u := if eqFold str (b "off") then { u with enabled := false } else u
    let c1 : Option UInt8 := rest.head?
    let len := str.length
    if c0 == 62 || c0 == 35 then       -- '>' or '#'
      .ok { u with passwords := u.passwords ++ [⟨c0 == 35, rest⟩], noPass := false }
    else if c0 == 60 then              -- '<'
      .ok { u with passwords := u.passwords.filter fun p => !(!p.sha && p.value == rest) }
    else if c0 == 33 then              -- '!'
      .ok { u with passwords := u.passwords.filter fun p => !(p.sha && p.value == rest) }
    else if eqFold str (b "nocommands") then .ok { u with exclCats := [star], exclCmds := [star] }
    else if eqFold str (b "allCategories") then .ok { u with inclCats := [star] }
    else if len > 3 && c1 == some 64 && c0 == 43 then .ok { u with inclCats := u.inclCats ++ [str.drop 2] }
    else if len > 3 && c1 == some 64 && c0 == 45 then .ok { u with exclCats := u.exclCats ++ [str.drop 2] }
    else if eqFold str (b "allKeys") then .ok { u with readKeys := [star], writeKeys := [star], noKeys := false }
    else if (len > 1 && c0 == 126) || (len > 4 && eqFold (str.take 4) (b "%RW~")) then
      let k := str.drop ((str.takeWhile (· != 126)).length + 1)
      .ok { u with readKeys := u.readKeys ++ [k], writeKeys := u.writeKeys ++ [k], noKeys := false }
    else if len > 3 && eqFold (str.take 3) (b "%R~") then
      .ok { u with readKeys := u.readKeys ++ [str.drop 3], noKeys := false }
    else if len > 3 && eqFold (str.take 3) (b "%W~") then
      .ok { u with writeKeys := u.writeKeys ++ [str.drop 3], noKeys := false }
    else if eqFold str (b "allChannels") then .ok { u with inclChans := [star] }
    else if len > 2 && c1 == some 38 && c0 == 43 then .ok { u with inclChans := u.inclChans ++ [str.drop 2] }
    else if len > 2 && c1 == some 38 && c0 == 45 then .ok { u with exclChans := u.exclChans ++ [str.drop 2] }
    else if eqFold str (b "allCommands") then .ok { u with inclCmds := [star], exclCmds := [] }
    else if len > 2 && !(c1 == some 38 || c1 == some 64) && c0 == 43 then .ok { u with inclCmds := u.inclCmds ++ [rest] }
    else if len > 2 && !(c1 == some 38 || c1 == some 64) && c0 == 45 then .ok { u with exclCmds := u.exclCmds ++ [rest] }
    else .ok u

def updateToks : List Bytes → User → TokRes
  | [], u => .ok u
  | t :: r, u => match updateTok u t with
    | .ok u' => updateToks r u'
    | .err m => .err m
    | .panic => .panic
    | .unmod => .unmod

/-- second and third loops of UpdateUser (user.go:228-260) -/
def updateTail (cmd : List Bytes) (u : User) : User :=
  let u := cmd.foldl (fun (u : User) s => if eqFold s (b "nopass") then { u with passwords := [], noPass := true } else u) u
  cmd.foldl (fun (u : User) s =>
    let u := if eqFold s (b "resetpass") then { u with passwords := [], noPass := false } else u
    let u := if eqFold s (b "nocommands") then { u with inclCmds := [], exclCmds := [star], inclCats := [], exclCats := [star] } else u
    let u := if s == b "resetkeys" || s == b "nokeys" then { u with readKeys := [], writeKeys := [], noKeys := true } else u
    if eqFold s (b "resetchannels") then { u with inclChans := [], exclChans := [star] } else u) u

def emptyRuleMsg : Bytes := b "the username and the rules of ACL SETUSER must not be empty"

/-- user.go globOfRule: the glob pattern carried by a key rule (~, %RW~, %R~, %W~) or a channel rule (+&, -&) -/
def globOfRule (str : Bytes) : Option Bytes :=
  let len := str.length
  if (len > 1 && str.head? == some 126) || (len > 4 && eqFold (str.take 4) (b "%RW~")) then
    some (str.drop ((str.takeWhile (· != 126)).length + 1))
  else if len > 3 && (eqFold (str.take 3) (b "%R~") || eqFold (str.take 3) (b "%W~")) then some (str.drop 3)
  else if len > 2 && str[1]? == some 38 && (str.head? == some 43 || str.head? == some 45) then some (str.drop 2)
  else none

/-- the patterns a rule list would store -/
def rulePatterns (cmd : List Bytes) : List Bytes := cmd.filterMap globOfRule

/-- user.go:121 UpdateUser: an empty user name or rule, and a key or channel pattern that does not compile
    (`glob.Compile`, the transcription of Model.PubSub), are refused before anything is modified. Patterns outside
    the alphabet of the transcribed compiler, and patterns that compile but use `?` or a class (which `globMatch`
    below does not interpret), are left undescribed. CompileGlobs (acl.go:456, `glob.MustCompile` on every stored
    pattern not yet compiled) is total on what this validation lets through; patterns that enter by ACL LOAD are
    outside this model. -/
def updateUser (cmd : List Bytes) (u : User) : TokRes :=
  if cmd.contains [] then .err emptyRuleMsg else
  if cmd.any (fun t => !isAscii t) then .unmod else
  if (rulePatterns cmd).any (fun p => !PubSub.okBytes p) then .unmod else
  if (rulePatterns cmd).any (fun p => !PubSub.compiles p) then .err PubSub.invalidPattern else
  if (rulePatterns cmd).any (fun p => p.any fun c => c == 63 || c == 91) then .unmod else
  match updateToks cmd u with
  | .ok u' => .ok (updateTail cmd u')
  | r => r

/-- user.go:305 CreateUser -/
def createUser (name : Bytes) : User := { name := name }

structure Conn where
  authenticated : Bool
  user : Nat              -- object id of the user the connection points at
deriving DecidableEq, Repr, Inhabited

structure AclState where
  heap : NMap User        -- every user object ever created (object id ↦ record)
  order : List Nat        -- acl.Users, by object id
  conns : NMap Conn
  requirePass : Bool
deriving DecidableEq, Repr, Inhabited

def AclState.get (a : AclState) (uid : Nat) : User := (a.heap.get uid).getD { name := [] }
def AclState.users (a : AclState) : List (Nat × User) := a.order.map fun i => (i, a.get i)
def AclState.find (a : AclState) (name : Bytes) : Option Nat := (a.users.find? fun p => p.2.name == name).map (·.1)
def AclState.fresh (a : AclState) : Nat := 1 + a.heap.foldl (fun m p => max m p.1) 0

/-- acl.go:143 RegisterConnection; `none` = no default user in the list (index -1 panics) -/
def registerConn (a : AclState) (cid : Nat) : Option AclState :=
  (a.find (b "default")).map fun d =>
    { a with conns := a.conns.put cid ⟨(a.get d).noPass, d⟩ }

inductive AclOut where
  | ok
  | err (msg : Bytes)
  | panic
  | unmod
deriving DecidableEq, Repr

/-- acl.go:158 SetUser (handleSetUser, commands.go:224, refuses a command without a user name before the call) -/
def setUser (a : AclState) (cmd : List Bytes) : AclState × AclOut :=
  match cmd with
  | [] => (a, .panic)                                            -- cmd[0]
  | name :: _ =>
    match a.find name with
    | some uid =>
      (match updateUser cmd (a.get uid) with
       | .ok u => ({ a with heap := a.heap.put uid u }, .ok)
       | .err m => (a, .err m)
       | .panic => (a, .panic)
       | .unmod => (a, .unmod))
    | none =>
      match updateUser cmd (createUser name) with
      | .ok u =>
        let uid := a.fresh
        ({ a with heap := a.heap.put uid (normalise u), order := a.order ++ [uid] }, .ok)
      | .err m => (a, .err m)
      | .panic => (a, .panic)
      | .unmod => (a, .unmod)

/-- one iteration of the DeleteUser loop (acl.go:195-220); the second component is the loop-external
    `user` variable, which keeps its value across iterations -/
def delStep (st : AclState × Option Bytes) (name : Bytes) : AclState × Option Bytes :=
  if name == b "default" then st else
  let sticky := match (st.1.users.filter fun p => p.2.name == name).getLast? with
    | some p => some p.2.name
    | none => st.2
  match sticky with
  | none => (st.1, none)
  | some victim => ({ st.1 with order := st.1.order.filter fun i => (st.1.get i).name != victim }, some victim)

/-- acl.go:190 DeleteUser -/
def deleteUsers (a : AclState) (names : List Bytes) : AclState := (names.foldl delStep (a, none)).1

/-- acl.go:224 AuthenticateConnection. `cmd` is [AUTH, password] or [AUTH, username, password];
    `sha` is hex(sha256(password)). -/
def authenticate (a : AclState) (cid : Nat) (cmd : List Bytes) (sha : Bytes) : AclState × AclOut :=
  let target : Option (Option Nat × Bytes) := match cmd with
    | [_, pw] => some (a.find (b "default"), pw)
    | [_, name, pw] => some (a.find name, pw)
    | _ => none
  match target, cmd with
  | none, _ => (a, .panic)                                       -- nil user dereference
  | some (none, _), [_, _] => (a, .panic)                        -- default user missing: index -1
  | some (none, _), _ => (a, .err (b "no user with username " ++ cmd.getD 1 []))
  | some (some uid, pw), _ =>
    let u := a.get uid
    if !u.enabled then (a, .err (b "user " ++ u.name ++ b " is disabled"))
    else if u.noPass then ({ a with conns := a.conns.put cid ⟨true, uid⟩ }, .ok)
    else if u.passwords.any fun p => (!p.sha && p.value == pw) || (p.sha && p.value == sha) then
      ({ a with conns := a.conns.put cid ⟨true, uid⟩ }, .ok)
    else (a, .err (b "could not authenticate user"))

/-- why AuthorizeConnection refused -/
inductive Deny where
  | unauthenticated | disabled | categories | command | channel | noKeys | readKeys | writeKeys
deriving DecidableEq, Repr

structure CmdMeta where
  comm : Bytes                 -- "set", or "acl|setuser"
  cats : List Bytes            -- command categories ++ sub-command categories
  readKeys : List Bytes        -- as extracted by the *command's* key function
  writeKeys : List Bytes
  channels : List Bytes
deriving Repr

/-- acl.go:323-336: commands the procedure lets through before looking at the connection -/
def codeExempt (comm : Bytes) : Bool :=
  toLower comm == b "ack" || toLower comm == b "ping" || toLower comm == b "echo" || toLower comm == b "hello" || toLower comm == b "auth"

/-- step 2 (acl.go:353-368): every category of the command is in IncludedCategories, unless that list holds "*" -/
def catsIncluded (u : User) (m : CmdMeta) : Bool :=
  u.inclCats.contains star || !(m.cats.any fun c => !u.inclCats.contains c)
/-- step 3 (:370-381) -/
def catsExcluded (u : User) (m : CmdMeta) : Bool :=
  m.cats.any fun c => u.exclCats.any fun e => e == star || e == c
/-- step 4 (:383-388) -/
def cmdIncluded (u : User) (m : CmdMeta) : Bool := u.inclCmds.any fun c => c == star || c == m.comm
/-- step 5 (:390-395) -/
def cmdExcluded (u : User) (m : CmdMeta) : Bool := u.exclCmds.any fun c => c == star || c == m.comm
/-- step 6 (:398-415) -/
def chanDenied (gmatch : Bytes → Bytes → Bool) (u : User) (m : CmdMeta) : Bool :=
  m.channels.any fun ch => !(u.inclChans.any fun g => gmatch g ch) || (u.exclChans.any fun g => gmatch g ch)
/-- step 8 (acl.go:428-438): denied when some read key matches no read pattern -/
def readDenied (gmatch : Bytes → Bytes → Bool) (u : User) (m : CmdMeta) : Bool :=
  m.readKeys.any fun k => !(u.readKeys.any fun g => gmatch g k)
/-- step 9 (acl.go:440-450): denied when some write key matches no write pattern -/
def writeDenied (gmatch : Bytes → Bytes → Bool) (u : User) (m : CmdMeta) : Bool :=
  m.writeKeys.any fun k => !(u.writeKeys.any fun g => gmatch g k)

/-- acl.go:297 AuthorizeConnection after key extraction. `none` = allowed. -/
def authorize (gmatch : Bytes → Bytes → Bool) (requirePass : Bool) (authenticated : Bool) (u : User)
    (m : CmdMeta) : Option Deny :=
  if codeExempt m.comm then none else
  if !requirePass then none else
  if !authenticated then some .unauthenticated else
  if !u.enabled then some .disabled else                           -- acl.go:351-354
  if !catsIncluded u m then some .categories else
  if catsExcluded u m then some .categories else
  if !cmdIncluded u m then some .command else
  if cmdExcluded u m then some .command else
  if m.cats.contains (b "pubsub") then (if chanDenied gmatch u m then some .channel else none)
  else if m.readKeys.isEmpty && m.writeKeys.isEmpty then none
  else if u.noKeys then some .noKeys
  else if readDenied gmatch u m then some .readKeys
  else if writeDenied gmatch u m then some .writeKeys
  else none

/-- glob matching for patterns made of literal bytes and `*` (the pattern alphabet of the harness);
    fuel = |pattern| + |string| + 1 -/
def globMatchF : Nat → Bytes → Bytes → Bool
  | 0, _, _ => false
  | _ + 1, [], [] => true
  | _ + 1, [], _ :: _ => false
  | f + 1, 42 :: p, [] => globMatchF f p []
  | f + 1, 42 :: p, c :: s => globMatchF f p (c :: s) || globMatchF f (42 :: p) s
  | _ + 1, _ :: _, [] => false
  | f + 1, x :: p, c :: s => x == c && globMatchF f p s

def globMatch (p s : Bytes) : Bool := globMatchF (p.length + s.length + 1) p s

end Sugar.Acl
