/-
  Model.PubSub — the subscription table of internal/modules/pubsub/pubsub.go, channel.go and the handlers of
  commands.go, transcribed as the code is (quirks included):

  * `Subscribe` looks an entry up by *name only* (a pattern entry and a plain entry never coexist under one name;
    PSUBSCRIBE to a name held by a plain entry joins the plain entry and vice versa), `Channel.Subscribe` always
    answers true, so every argument is confirmed, with the argument's position `i+1` as the count;
  * `Unsubscribe` runs up to three passes (all of a kind when no name is given; every entry whose name equals an
    argument, whatever its kind; for PUNSUBSCRIBE every entry whose *name* matches the argument as a glob) and
    answers one array of `(action, name, ordinal)` in Go map order;
  * `Publish` appends the message to the queue of every matching entry (also entries without subscribers);
  * the delivery loop of `Channel.Start` is modelled as actors: `dispatchAll` reads the *current* subscribers of
    each entry and produces one write task per (message, subscriber); write tasks run in any order
    (`Admissible`).

  Glob patterns are gobwas/glob's for the alphabet without `\`, `{`, NUL and non-ASCII bytes: literals, `*`, `**`,
  `?`, `[list]`, `[!list]`, `[lo-hi]`, `[!lo-hi]`. A pattern that does not compile (`glob.Compile` answers an error)
  makes PSUBSCRIBE and PUBSUB CHANNELS answer the error `invalid glob pattern` with nothing changed, and is a pattern
  that matches no name for PUNSUBSCRIBE.
-/
import SugarModel.Base.Bytes
import SugarModel.Base.Resp
namespace Sugar.PubSub
open Sugar

/-! ### glob -/

inductive Tok where
  | lit (c : UInt8)
  | any
  | one
  | cls (neg : Bool) (cs : List UInt8)
  | rng (neg : Bool) (lo hi : UInt8)
deriving DecidableEq, Repr

/-- bytes of the modelled pattern / name alphabet -/
def okByte (c : UInt8) : Bool := c != 0 && c < 128 && c != 92 && c != 123

def okBytes (s : Bytes) : Bool := s.all okByte

/-- lexer.fetchRange + ast.parserRange on the text after `[`; `none` = compile error -/
def parseRange (s : Bytes) : Option (Tok × Bytes) :=
  let (neg, s1) := match s with
    | 33 :: r => (true, r)
    | _ => (false, s)
  match s1 with
  | [] => none
  | lo :: 45 :: rest =>
    match rest with
    | hi :: 93 :: rest' => if hi < lo then none else some (.rng neg lo hi, rest')
    | _ => none
  | _ =>
    let txt := s1.takeWhile (· != 93)
    match s1.dropWhile (· != 93) with
    | 93 :: rest' => if txt.isEmpty then none else some (.cls neg txt, rest')
    | _ => none

/-- syntax.Parse on the modelled alphabet; `none` = compile error -/
def parsePatF : Nat → Bytes → Option (List Tok)
  | 0, _ => none
  | _ + 1, [] => some []
  | f + 1, 42 :: 42 :: r => (parsePatF f r).map (.any :: ·)
  | f + 1, 42 :: r => (parsePatF f r).map (.any :: ·)
  | f + 1, 63 :: r => (parsePatF f r).map (.one :: ·)
  | f + 1, 91 :: r =>
    match parseRange r with
    | none => none
    | some (t, r') => (parsePatF f r').map (t :: ·)
  | f + 1, c :: r => (parsePatF f r).map (.lit c :: ·)

def parsePat (p : Bytes) : Option (List Tok) := parsePatF (p.length + 1) p

def compiles (p : Bytes) : Bool := (parsePat p).isSome

def Tok.accepts : Tok → UInt8 → Bool
  | .lit c, x => c == x
  | .any, _ => true
  | .one, _ => true
  | .cls neg cs, x => neg != cs.contains x
  | .rng neg lo hi, x => neg != (lo ≤ x && x ≤ hi)

/-- `k` holds of some suffix -/
def starK (k : Bytes → Bool) : Bytes → Bool
  | [] => k []
  | c :: s => k (c :: s) || starK k s

def matchT : List Tok → Bytes → Bool
  | [], s => s.isEmpty
  | .any :: p, s => starK (matchT p) s
  | _ :: _, [] => false
  | t :: p, c :: s => t.accepts c && matchT p s

/-- what the compiled matcher answers: a pattern that is one `?`, one negated list or one negated range compiles to
    match.Single / List / Range, whose `Match` decodes a rune of width 0 from the empty string and accepts it -/
def matchTop (ts : List Tok) (s : Bytes) : Bool :=
  match ts, s with
  | [.one], [] => true
  | [.cls true _], [] => true
  | [.rng true _ _], [] => true
  | _, _ => matchT ts s

/-- `glob.Compile(p)` then `Match(s)` (false for a pattern that does not compile: the call sites are guarded) -/
def gmatch (p s : Bytes) : Bool :=
  match parsePat p with
  | some ts => matchTop ts s
  | none => false

/-- glob matching as documented (`?` and a class stand for exactly one character) -/
def gideal (p s : Bytes) : Bool :=
  match parsePat p with
  | some ts => matchT ts s
  | none => false

/-! ### table -/

structure Chan where
  name : Bytes
  pat : Bool
  subs : List Nat
  queue : List Bytes := []
deriving DecidableEq, Repr

abbrev Table := List Chan

/-- what the server writes on a connection outside command replies -/
inductive Push where
  | confirm (conn : Nat) (action name : Bytes) (n : Nat)
  | message (conn : Nat) (name msg : Bytes)
deriving DecidableEq, Repr

def Push.conn : Push → Nat
  | .confirm c _ _ _ => c
  | .message c _ _ => c

/-- channel.go:98 Channel.Subscribe -/
def Chan.addSub (c : Chan) (conn : Nat) : Chan :=
  if c.subs.contains conn then c else { c with subs := c.subs ++ [conn] }

/-- subscribe `conn` to the first entry called `name` -/
def subFirst (conn : Nat) (name : Bytes) : Table → Table
  | [] => []
  | c :: r => if c.name == name then c.addSub conn :: r else c :: subFirst conn name r

def hasName (t : Table) (name : Bytes) : Bool := t.any (·.name == name)

def action (withPat unsub : Bool) : Bytes :=
  match withPat, unsub with
  | false, false => b "subscribe"
  | true, false => b "psubscribe"
  | false, true => b "unsubscribe"
  | true, true => b "punsubscribe"

def invalidPattern : Bytes := b "invalid glob pattern"

/-- pubsub.go PubSub.Subscribe: the loop over the arguments from position `i` (every pattern compiles when it is
    reached: `subscribe` below refuses the command beforehand otherwise) -/
def subscribeLoop (conn : Nat) (withPat : Bool) : List Bytes → Nat → Table → List Push → Table × List Push
  | [], _, t, ps => (t, ps)
  | n :: r, i, t, ps =>
    if hasName t n then
      subscribeLoop conn withPat r (i + 1) (subFirst conn n t) (ps ++ [.confirm conn (action withPat false) n (i + 1)])
    else
      subscribeLoop conn withPat r (i + 1) (t ++ [{ name := n, pat := withPat, subs := [conn] }])
        (ps ++ [.confirm conn (action withPat false) n (i + 1)])

/-- pubsub.go PubSub.Subscribe: PSUBSCRIBE compiles every argument first (`glob.Compile`); if one does not compile
    the command is refused as a whole — the Bool — with the table untouched and nothing confirmed -/
def subscribe (conn : Nat) (withPat : Bool) (names : List Bytes) (t : Table) : Table × List Push × Bool :=
  if withPat && names.any (fun n => !compiles n) then (t, [], true)
  else ((subscribeLoop conn withPat names 0 t []).1, (subscribeLoop conn withPat names 0 t []).2, false)

/-- walk the table in order; `Channel.Unsubscribe(conn)` on every entry selected by `sel`; the names of the entries
    that the connection actually left, in table order -/
def unsubWhere (conn : Nat) (sel : Chan → Bool) : Table → Table × List Bytes
  | [] => ([], [])
  | c :: r =>
    let (r', ns) := unsubWhere conn sel r
    if sel c && c.subs.contains conn then ({ c with subs := c.subs.erase conn } :: r', c.name :: ns) else (c :: r', ns)

/-- third pass of PUNSUBSCRIBE: one sweep per argument; an argument that does not compile is skipped (a pattern
    that matches no name) -/
def unsubGlobs (conn : Nat) : List Bytes → Table → List Bytes → Table × List Bytes
  | [], t, acc => (t, acc)
  | p :: r, t, acc =>
    if !compiles p then unsubGlobs conn r t acc else
    let (t', ns) := unsubWhere conn (fun c => (c.pat && c.name == p) || gmatch p c.name) t
    unsubGlobs conn r t' (acc ++ ns)

/-- pubsub.go PubSub.Unsubscribe: new table, names in the order they were recorded (ordinal = position + 1) -/
def unsubscribe (conn : Nat) (withPat : Bool) (names : List Bytes) (t : Table) : Table × List Bytes :=
  let (t1, n1) := if names.isEmpty then unsubWhere conn (fun c => c.pat == withPat) t else (t, [])
  let (t2, n2) := unsubWhere conn (fun c => names.contains c.name) t1
  if withPat then
    let (t3, n3) := unsubGlobs conn names t2 []
    (t3, n1 ++ n2 ++ n3)
  else (t2, n1 ++ n2)

def Chan.matches (c : Chan) (ch : Bytes) : Bool := if c.pat then gmatch c.name ch else c.name == ch

/-- pubsub.go:179 PubSub.Publish -/
def publish (msg ch : Bytes) (t : Table) : Table :=
  t.map fun c => if c.matches ch then { c with queue := c.queue ++ [msg] } else c

def Chan.active (c : Chan) : Bool := !c.subs.isEmpty

/-- pubsub.go:198 PubSub.Channels -/
def channelsList (pattern : Bytes) (t : Table) : List Bytes :=
  if pattern.isEmpty then (t.filter (·.active)).map (·.name)
  else (t.filter fun c => ((c.pat && c.name == pattern) || gmatch pattern c.name) && c.active).map (·.name)

def channelsReply (pattern : Bytes) (t : Table) : Bytes :=
  let l := channelsList pattern t
  arrHdr l.length ++ l.flatMap bulkStr

/-- pubsub.go:236 PubSub.NumPat -/
def numPat (t : Table) : Nat := (t.filter fun c => c.pat && c.active).length

/-- pubsub.go:249 PubSub.NumSub: the first entry of that name, whatever its kind -/
def numSubOf (t : Table) (name : Bytes) : Nat :=
  match t.find? (·.name == name) with
  | some c => c.subs.length
  | none => 0

def numSubReply (names : List Bytes) (t : Table) : Bytes :=
  arrHdr names.length ++ names.flatMap fun n => arrHdr 2 ++ bulkStr n ++ intReply (numSubOf t n)

/-! ### delivery (channel.go:66 Channel.Start) -/

/-- the write tasks the dispatcher of one entry spawns for its queue, reading the current subscribers -/
def Chan.tasks (c : Chan) : List Push := c.queue.flatMap fun m => c.subs.map fun s => .message s c.name m

/-- every dispatcher drains its queue -/
def dispatchAll (t : Table) : Table × List Push := (t.map fun c => { c with queue := [] }, t.flatMap Chan.tasks)

/-- write tasks are independent goroutines: a connection may observe its tasks in any order -/
def Admissible (tasks : List Push) (observed : Nat → List Push) : Prop :=
  ∀ c, (observed c).Perm (tasks.filter (·.conn == c))

/-! ### commands -/

inductive Out where
  | reply (bs : Bytes)
  | unsubReply (act : Bytes) (names : List Bytes)   -- `*k` then k groups `*3 +act $name :ordinal` in Go map order
  | silent                                            -- the handler returned nil, nil
  | err (msg : Bytes)
  | panic
  | unmod (why : String)
deriving Repr

structure StepRes where
  table : Table
  out : Out
  pushes : List Push := []

def wrongArgs : Bytes := b "wrong number of arguments"

/-- the pub/sub commands after the dispatcher's name lookup (getCommand / GetSubCommand are case-insensitive) -/
inductive Cmd where
  | sub (withPat : Bool) (args : List Bytes)
  | unsub (withPat : Bool) (args : List Bytes)
  | publish (args : List Bytes)
  | pubsub (name : Bytes) (args : List Bytes)
  | other
deriving Repr

def parseCmd : List Bytes → Cmd
  | [] => .other
  | name :: args =>
    let n := toLower name
    if n == b "subscribe" then .sub false args
    else if n == b "psubscribe" then .sub true args
    else if n == b "unsubscribe" then .unsub false args
    else if n == b "punsubscribe" then .unsub true args
    else if n == b "publish" then .publish args
    else if n == b "pubsub" then .pubsub name args
    else .other

/-- commands.go: the handlers -/
def exec (t : Table) (conn : Nat) : Cmd → StepRes
  | .sub withPat args =>
    if args.isEmpty then ⟨t, .err wrongArgs, []⟩ else
    let r := subscribe conn withPat args t
    if r.2.2 then ⟨t, .err invalidPattern, []⟩ else           -- refused before the connection is looked at
    if conn == 0 then ⟨t, .unmod "subscribe without a connection", []⟩ else
    ⟨r.1, .silent, r.2.1⟩
  | .unsub withPat args =>
    let r := unsubscribe conn withPat args t
    ⟨r.1, .unsubReply (action withPat true) r.2, []⟩
  | .publish args =>
    match args with
    | [ch, msg] => ⟨publish msg ch t, .reply okReply, []⟩
    | _ => ⟨t, .err wrongArgs, []⟩
  | .pubsub name args =>
    match args with
    | [] => ⟨t, .err (b "provide CHANNELS, NUMPAT, or NUMSUB subcommand"), []⟩
    | sub :: rest =>
      let s := toLower sub
      if s == b "channels" then
        if rest.length > 1 then ⟨t, .err wrongArgs, []⟩ else
        let p := rest.headD []
        if !p.isEmpty && !compiles p then ⟨t, .err invalidPattern, []⟩ else ⟨t, .reply (channelsReply p t), []⟩
      else if s == b "numpat" then ⟨t, .reply (intReply (numPat t)), []⟩
      else if s == b "numsub" then ⟨t, .reply (numSubReply rest t), []⟩
      else ⟨t, .err (b "command " ++ name ++ b " " ++ sub ++ b " not supported"), []⟩
  | .other => ⟨t, .unmod "not a pub/sub command", []⟩

/-- one command through handleCommand on connection `conn` (0 = the embedded caller without a connection) -/
def step (t : Table) (conn : Nat) (cmd : List Bytes) : StepRes :=
  if !(cmd.all okBytes && t.all (okBytes ·.name)) then ⟨t, .unmod "byte outside the modelled alphabet", []⟩
  else exec t conn (parseCmd cmd)

/-- a block of commands. `immediate`: every dispatcher runs to completion after each command (the harness waits for
    quiescence); otherwise the dispatchers are parked until the end of the block. Returns the table, the outcome of
    each command, the confirmations in the order they were written, and the write tasks. -/
def runBlock (immediate : Bool) : Table → List (Nat × List Bytes) → Table × List Out × List Push × List Push
  | t, [] => let (t', ms) := dispatchAll t; (t', [], [], ms)
  | t, (conn, cmd) :: rest =>
    let r := step t conn cmd
    let (t1, ms1) := if immediate then dispatchAll r.table else (r.table, [])
    let (t', outs, cs, ms) := runBlock immediate t1 rest
    (t', r.out :: outs, r.pushes ++ cs, ms1 ++ ms)

end Sugar.PubSub
