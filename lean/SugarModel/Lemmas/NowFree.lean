/-
  Lemmas.NowFree — a run does not depend on the clock reading when no deadline is involved: on a
  keyspace without deadlines (`State.NoDeadlines`) every primitive that sets no deadline computes the
  same state and the same result whatever the context's clock, map-order and random-pick fields say,
  and leaves a keyspace without deadlines; hence so does every program that never issues SetExpiry
  (`Prog.NoSetDeadline`), under the standalone interpreter and under the cluster interpreter.
-/
import SugarModel.Lemmas.RaftLemmas
import SugarModel.Lemmas.Kv
import SugarModel.Lemmas.RestoreLemmas
namespace Sugar
open Sugar.Persist (lookup_put_same db_put_other)

/-- no stored key carries a deadline -/
def State.NoDeadlines (s : State) : Prop := ∀ i k e, s.lookup i k = some e → e.exp = none

/-- the primitive gives a key a deadline: SetExpiry with a time (SetExpiry that clears the deadline,
    as PERSIST issues it, does not count) -/
def Prim.setsDeadline : Prim → Bool
  | .setExpiry _ (some _) _ => true
  | _ => false

/-- what a primitive can answer on a keyspace without deadlines: GetExpiry answers "no deadline" -/
def Prim.answerNoDl : (p : Prim) → p.Res → Prop
  | .getExpiry _, r => r = none
  | _, _ => True

/-- the program never gives a key a deadline on a keyspace without deadlines: no `SetExpiry key (some t)`
    primitive on any path along which every GetExpiry answered "no deadline" (RENAME hands the deadline it
    read from the source on to SetExpiry, so its SetExpiry carries a time only if a key had one) -/
def Prog.NoSetDeadline {α : Type} : Prog α → Prop
  | .ret _ => True
  | .panic _ => True
  | .unmod _ => True
  | .call p k => p.setsDeadline = false ∧ ∀ r, p.answerNoDl r → (k r).NoSetDeadline

/-- two contexts that agree on everything a primitive other than the clock-dependent lazy expiry
    reads: the selected database, the configuration and the caller -/
def Ctx.SameButClock (c c' : Ctx) : Prop := c.db = c'.db ∧ c.cfg = c'.cfg ∧ c.conn = c'.conn

theorem noDeadlines_empty : ({ dbs := [], mem := 0 } : State).NoDeadlines := by
  intro i k e h; simp [State.lookup, State.db, NMap.get] at h

theorem noDeadlines_of_db_eq (s s' : State) (h : ∀ j, s'.db j = s.db j) (hs : s.NoDeadlines) : s'.NoDeadlines := by
  intro i k e hl
  unfold State.lookup at hl
  rw [h i] at hl
  exact hs i k e hl

/-! ### getValues without deadlines -/

theorem getValues_noDeadlines (c : Ctx) (s : State) (h : s.NoDeadlines) : ∀ ks,
    getValues c s ks = (s, ks.map fun k => match s.lookup c.db k with | none => Val.nil | some e => e.val) := by
  intro ks
  induction ks with
  | nil => rfl
  | cons k r ih =>
    unfold getValues
    cases hl : s.lookup c.db k with
    | none => simp only [ih, List.map_cons, hl]
    | some e =>
      have : e.expired c.now = false := by simp [Entry.expired, h _ _ _ hl]
      simp only [this, Bool.false_eq_true, if_false, ih, List.map_cons, hl]

theorem getValues_now_irrelevant (c c' : Ctx) (hc : c.db = c'.db) (s : State) (h : s.NoDeadlines) (ks : List Bytes) :
    getValues c s ks = getValues c' s ks := by
  rw [getValues_noDeadlines c s h, getValues_noDeadlines c' s h, hc]

theorem getValuesCl_noDeadlines (role : Raft.Role) (c : Ctx) (s : State) (h : s.NoDeadlines) : ∀ ks,
    Raft.getValuesCl role c s ks = some (ks.map fun k => match s.lookup c.db k with | none => Val.nil | some e => e.val) := by
  intro ks
  induction ks with
  | nil => rfl
  | cons k r ih =>
    unfold Raft.getValuesCl
    cases hl : s.lookup c.db k with
    | none => simp only [ih, Option.map_some, List.map_cons, hl]
    | some e =>
      have : e.expired c.now = false := by simp [Entry.expired, h _ _ _ hl]
      simp only [this, Bool.false_eq_true, if_false, ih, Option.map_some, List.map_cons, hl]

/-! ### every primitive that sets no deadline keeps the keyspace free of deadlines -/

theorem lookup_setOne_otherdb (i j : Nat) (hj : j ≠ i) (s : State) (kv : Bytes × Val) (k : Bytes) :
    (setOne i s kv).lookup j k = s.lookup j k := by
  unfold State.lookup
  rw [db_of_get_eq _ _ _ (setOne_frame i j hj s kv)]

theorem setOne_noDeadlines (i : Nat) (s : State) (kv : Bytes × Val) (h : s.NoDeadlines) : (setOne i s kv).NoDeadlines := by
  intro j k e hl
  by_cases hj : j = i
  · subst hj
    by_cases hk : kv.1 = k
    · subst hk
      obtain ⟨k0, v⟩ := kv
      rw [lookup_setOne_same] at hl
      simp only [Option.some.injEq] at hl
      subst hl
      simp only
      cases h0 : s.lookup j k0 with
      | none => rfl
      | some e0 => simp only [Option.bind_some]; exact h _ _ _ h0
    · obtain ⟨k0, v⟩ := kv
      rw [lookup_setOne_other _ _ _ _ _ hk] at hl
      exact h _ _ _ hl
  · rw [lookup_setOne_otherdb i j hj] at hl
    exact h _ _ _ hl

theorem fold_setOne_noDeadlines (i : Nat) (es : List (Bytes × Val)) : ∀ s : State, s.NoDeadlines →
    (es.foldl (setOne i) s).NoDeadlines := by
  induction es with
  | nil => intro s h; exact h
  | cons x r ih => intro s h; exact ih _ (setOne_noDeadlines i s x h)

theorem createDb_noDeadlines (s : State) (i : Nat) (h : s.NoDeadlines) : (s.createDb i).NoDeadlines :=
  noDeadlines_of_db_eq s _ (fun j => createDb_db_all s i j) h

theorem setValues_noDeadlines (c : Ctx) (s : State) (es : List (Bytes × Val)) (h : s.NoDeadlines) :
    (setValues c s es).1.NoDeadlines := by
  unfold setValues
  split
  · exact h
  · exact fold_setOne_noDeadlines _ _ _ (createDb_noDeadlines s _ h)

theorem deleteKey_noDeadlines (s : State) (i : Nat) (k : Bytes) (h : s.NoDeadlines) : (deleteKey s i k).NoDeadlines := by
  intro j k2 e hl
  by_cases hj : j = i
  · subst hj
    rw [lookup_deleteKey] at hl
    split at hl
    · simp at hl
    · exact h _ _ _ hl
  · rw [lookup_deleteKey_otherdb s i j k k2 hj] at hl
    exact h _ _ _ hl

theorem flushAll_lookup (s : State) (j : Nat) (k : Bytes) : (flushAll s).lookup j k = none := by
  unfold flushAll State.lookup State.db
  simp only
  generalize s.dbs = l
  induction l with
  | nil => rfl
  | cons p r ih =>
    obtain ⟨i, d⟩ := p
    simp only [List.map_cons, NMap.get]
    split
    · rfl
    · exact ih

theorem flushDb_noDeadlines (s s' : State) (i : Nat) (h : s.NoDeadlines) (hx : flushDb s i = some s') : s'.NoDeadlines := by
  unfold flushDb at hx
  split at hx
  · simp only [Option.some.injEq] at hx; rw [← hx]; exact h
  · simp only [Option.some.injEq] at hx
    rw [← hx]
    intro j k e hl
    by_cases hj : j = i
    · subst hj
      simp [State.lookup, State.db] at hl
    · simp only [State.lookup, State.db, NMap.get_put_other _ _ _ _ (Ne.symm hj)] at hl
      exact h _ _ _ hl

theorem KMap.get_map_exp (f : Bytes × Entry → Bytes × Entry) (hf : ∀ x, (f x).1 = x.1 ∧ (f x).2.exp = x.2.exp)
    (m : KMap Entry) (k : Bytes) (e : Entry) (h : KMap.get (m.map f) k = some e) :
    ∃ e0, KMap.get m k = some e0 ∧ e.exp = e0.exp := by
  induction m with
  | nil => simp at h
  | cons p r ih =>
    obtain ⟨k', e'⟩ := p
    have h1 := hf (k', e')
    simp only [List.map_cons] at h
    rw [show f (k', e') = ((f (k', e')).1, (f (k', e')).2) from rfl, h1.1] at h
    by_cases hk : k' = k
    · subst hk
      simp only [KMap.get, if_true, Option.some.injEq] at h ⊢
      exact ⟨e', rfl, by rw [← h]; exact h1.2⟩
    · simp only [KMap.get, hk, if_false] at h ⊢
      exact ih h

theorem mutObj_noDeadlines (s : State) (i : Nat) (k : Bytes) (v : Val) (h : s.NoDeadlines) : (mutObj s i k v).NoDeadlines := by
  unfold mutObj
  split
  · exact h
  · intro j k2 e hl
    by_cases hj : j = i
    · subst hj
      rw [lookup_put_same] at hl
      obtain ⟨e0, h0, he⟩ := KMap.get_map_exp _ (by
        intro x
        obtain ⟨k', e'⟩ := x
        simp only
        split <;> exact ⟨rfl, rfl⟩) _ _ _ hl
      rw [he]
      exact h j k2 e0 h0
    · unfold State.lookup at hl
      rw [db_put_other s i j _ hj] at hl
      exact h _ _ _ hl

theorem tagOid_noDeadlines (s : State) (i : Nat) (k : Bytes) (o : Nat) (h : s.NoDeadlines) : (tagOid s i k o).NoDeadlines := by
  unfold tagOid
  split
  · exact h
  · rename_i e0 h0
    intro j k2 e hl
    by_cases hj : j = i
    · subst hj
      rw [lookup_put_same, KMap.get_put] at hl
      split at hl
      · simp only [Option.some.injEq] at hl
        rw [← hl]
        show e0.exp = none
        exact h _ _ _ h0
      · exact h j k2 e hl
    · unfold State.lookup at hl
      rw [db_put_other s i j _ hj] at hl
      exact h _ _ _ hl

theorem setExpiry_none_noDeadlines (c : Ctx) (s s' : State) (k : Bytes) (h : s.NoDeadlines)
    (hx : setExpiry c s k none = some s') : s'.NoDeadlines := by
  unfold setExpiry at hx
  split at hx
  · simp at hx
  · simp only [Option.some.injEq] at hx
    rw [← hx]
    intro j k2 e hl
    by_cases hj : j = c.db
    · subst hj
      rw [lookup_put_same, KMap.get_put] at hl
      split at hl
      · simp only [Option.some.injEq] at hl; rw [← hl]
      · exact h c.db k2 e hl
    · unfold State.lookup at hl
      rw [db_put_other s c.db j _ hj] at hl
      exact h _ _ _ hl

theorem exec_noDeadlines' (c : Ctx) (s : State) (p : Prim) (hp : p.setsDeadline = false) (h : s.NoDeadlines) :
    ∀ sr, p.exec c s = some sr → sr.1.NoDeadlines := by
  cases p with
  | setExpiry k e t =>
    cases e with
    | some t0 => simp [Prim.setsDeadline] at hp
    | none =>
      intro sr hx
      simp only [Prim.exec] at hx
      cases hf : setExpiry c s k none with
      | none => simp [hf] at hx
      | some s1 =>
        simp only [hf, Option.map_some, Option.some.injEq] at hx
        rw [← hx]
        exact setExpiry_none_noDeadlines c s s1 k h hf
  | keysExist ks => intro sr hx; simp only [Prim.exec, Option.some.injEq] at hx; rw [← hx]; exact h
  | getExpiry k => intro sr hx; simp only [Prim.exec, Option.some.injEq] at hx; rw [← hx]; exact h
  | newOid => intro sr hx; simp only [Prim.exec, Option.some.injEq] at hx; rw [← hx]; exact h
  | getValues ks =>
    intro sr hx
    simp only [Prim.exec] at hx
    rw [getValues_noDeadlines c s h] at hx
    rw [← Option.some.inj hx]; exact h
  | setValues es =>
    intro sr hx
    simp only [Prim.exec] at hx
    rw [← Option.some.inj hx]; exact setValues_noDeadlines c s es h
  | deleteKey k =>
    intro sr hx
    simp only [Prim.exec, Option.some.injEq] at hx
    rw [← hx]; exact deleteKey_noDeadlines s _ k h
  | flush all =>
    intro sr hx
    cases all with
    | true =>
      simp only [Prim.exec, Option.some.injEq] at hx
      rw [← hx]
      intro j k e hl
      rw [flushAll_lookup] at hl; simp at hl
    | false =>
      simp only [Prim.exec] at hx
      cases hf : flushDb s c.db with
      | none => simp [hf] at hx
      | some s1 =>
        simp only [hf, Option.map_some, Option.some.injEq] at hx
        rw [← hx]; exact flushDb_noDeadlines s s1 _ h hf
  | mutObj k v =>
    intro sr hx
    simp only [Prim.exec, Option.some.injEq] at hx
    rw [← hx]; exact mutObj_noDeadlines s _ k v h
  | tagOid k o =>
    intro sr hx
    simp only [Prim.exec, Option.some.injEq] at hx
    rw [← hx]; exact tagOid_noDeadlines s _ k o h
  | setConnDb d =>
    intro sr hx
    simp only [Prim.exec, Option.some.injEq] at hx
    rw [← hx]; exact noDeadlines_of_db_eq s _ (fun j => setConnDb_db c s d j) h
  | swapDbs d1 d2 =>
    intro sr hx
    simp only [Prim.exec, Option.some.injEq] at hx
    rw [← hx]; exact noDeadlines_of_db_eq s _ (fun j => swapDbs_db s d1 d2 j) h

/-- a primitive that sets no deadline leaves a keyspace without deadlines without deadlines -/
theorem exec_noDeadlines (c : Ctx) (s : State) (p : Prim) (s' : State) (r : p.Res)
    (hp : p.setsDeadline = false) (h : s.NoDeadlines) (hx : p.exec c s = some (s', r)) : s'.NoDeadlines :=
  exec_noDeadlines' c s p hp h (s', r) hx

theorem exec_answerNoDl' (c : Ctx) (s : State) (p : Prim) (h : s.NoDeadlines) :
    ∀ sr, p.exec c s = some sr → p.answerNoDl sr.2 := by
  cases p with
  | getExpiry k =>
    intro sr hx
    simp only [Prim.exec, Option.some.injEq] at hx
    rw [← hx]
    show getExpiry s c.db k = none
    unfold getExpiry
    cases hl : s.lookup c.db k with
    | none => rfl
    | some e => exact h _ _ _ hl
  | _ => intro _ _; trivial

/-- on a keyspace without deadlines GetExpiry answers "no deadline" -/
theorem exec_answerNoDl (c : Ctx) (s : State) (p : Prim) (s' : State) (r : p.Res)
    (h : s.NoDeadlines) (hx : p.exec c s = some (s', r)) : p.answerNoDl r :=
  exec_answerNoDl' c s p h (s', r) hx

/-! ### the clock is irrelevant -/

/-- on a keyspace without deadlines a primitive that sets no deadline does the same whatever the clock
    (and the map-order / random-pick fields) of the context -/
theorem exec_now_irrelevant (c c' : Ctx) (hc : c.SameButClock c') (s : State) (p : Prim)
    (hp : p.setsDeadline = false) (h : s.NoDeadlines) : p.exec c s = p.exec c' s := by
  obtain ⟨hdb, hcfg, hconn⟩ := hc
  cases p with
  | setExpiry k e t => simp only [Prim.exec, setExpiry, hdb]
  | getValues ks => simp only [Prim.exec, getValues_now_irrelevant c c' hdb s h]
  | setValues es => simp only [Prim.exec, setValues, hdb, hcfg]
  | flush all => cases all <;> simp only [Prim.exec, hdb]
  | setConnDb d => simp only [Prim.exec, setConnDb, hconn]
  | _ => simp only [Prim.exec, hdb]

/-- **a program that never sets a deadline, run on a keyspace without deadlines, computes the same
    state and the same outcome whatever the clock says, and leaves a keyspace without deadlines** -/
theorem run_now_irrelevant {α : Type} (c c' : Ctx) (hc : c.SameButClock c') (p : Prog α) : ∀ (s : State),
    p.NoSetDeadline → s.NoDeadlines → p.run c s = p.run c' s ∧ (p.run c s).1.NoDeadlines := by
  induction p with
  | ret a => intro s _ h; exact ⟨rfl, h⟩
  | panic w => intro s _ h; exact ⟨rfl, h⟩
  | unmod w => intro s _ h; exact ⟨rfl, h⟩
  | call q k ih =>
    intro s hp h
    obtain ⟨hp1, hp2⟩ := hp
    have he := exec_now_irrelevant c c' hc s q hp1 h
    simp only [Prog.run, ← he]
    cases hx : q.exec c s with
    | none => exact ⟨rfl, h⟩
    | some sr =>
      obtain ⟨s', r⟩ := sr
      exact ih r s' (hp2 r (exec_answerNoDl c s q s' r h hx)) (exec_noDeadlines c s q s' r hp1 h hx)

/-! ### the same under the cluster interpreter -/

theorem execCl_now_irrelevant (role : Raft.Role) (c c' : Ctx) (hc : c.SameButClock c') (s : State) (p : Prim)
    (hp : p.setsDeadline = false) (h : s.NoDeadlines) : Raft.execCl role c s p = Raft.execCl role c' s p := by
  have he := exec_now_irrelevant c c' hc s p hp h
  cases p with
  | getValues ks =>
    simp only [Raft.execCl, getValuesCl_noDeadlines role c s h, getValuesCl_noDeadlines role c' s h, hc.1]
  | _ => simp only [Raft.execCl, he]

theorem execCl_noDeadlines (role : Raft.Role) (c : Ctx) (s : State) (p : Prim) (s' : State) (r : p.Res)
    (hp : p.setsDeadline = false) (h : s.NoDeadlines) (hx : Raft.execCl role c s p = .ok s' r) : s'.NoDeadlines := by
  by_cases hg : ∃ ks, p = .getValues ks
  · obtain ⟨ks, rfl⟩ := hg
    simp only [Raft.execCl] at hx
    split at hx
    · cases hx
    · injection hx with h1 _; rw [← h1]; exact h
  · have hx' : p.exec c s = some (s', r) := by
      cases p with
      | getValues ks => exact absurd ⟨ks, rfl⟩ hg
      | _ =>
        simp only [Raft.execCl] at hx
        split at hx
        · cases hx
        · rename_i heq; injection hx with h1 h2; subst h1; subst h2; exact heq
    exact exec_noDeadlines c s p s' r hp h hx'

theorem execCl_answerNoDl (role : Raft.Role) (c : Ctx) (s : State) (p : Prim) (s' : State) (r : p.Res)
    (h : s.NoDeadlines) (hx : Raft.execCl role c s p = .ok s' r) : p.answerNoDl r := by
  by_cases hg : ∃ ks, p = .getValues ks
  · obtain ⟨ks, rfl⟩ := hg; trivial
  · have hx' : p.exec c s = some (s', r) := by
      cases p with
      | getValues ks => exact absurd ⟨ks, rfl⟩ hg
      | _ =>
        simp only [Raft.execCl] at hx
        split at hx
        · cases hx
        · rename_i heq; injection hx with h1 h2; subst h1; subst h2; exact heq
    exact exec_answerNoDl c s p s' r h hx'

theorem runCl_now_irrelevant {α : Type} (role : Raft.Role) (c c' : Ctx) (hc : c.SameButClock c') (p : Prog α) :
    ∀ (s : State), p.NoSetDeadline → s.NoDeadlines →
      Raft.runCl role c p s = Raft.runCl role c' p s ∧ (Raft.runCl role c p s).1.NoDeadlines := by
  induction p with
  | ret a => intro s _ h; exact ⟨rfl, h⟩
  | panic w => intro s _ h; exact ⟨rfl, h⟩
  | unmod w => intro s _ h; exact ⟨rfl, h⟩
  | call q k ih =>
    intro s hp h
    obtain ⟨hp1, hp2⟩ := hp
    have he := execCl_now_irrelevant role c c' hc s q hp1 h
    simp only [Raft.runCl, ← he]
    cases hx : Raft.execCl role c s q with
    | panic => exact ⟨rfl, h⟩
    | hang => exact ⟨rfl, h⟩
    | ok s' r => exact ih r s' (hp2 r (execCl_answerNoDl role c s q s' r h hx)) (execCl_noDeadlines role c s q s' r hp1 h hx)

end Sugar
