/-
  Lemmas.Coll — keyspace facts shared by the collection properties C14 (hash), C15 (list), C16 (set):
  what a single-key SetValues / two-key SetValues / in-place object mutation leaves behind, value reads
  of two live keys, and `parseInt64 (fmtInt i) = some i` (so "index text parses to i" is satisfiable for
  every 64-bit i).
-/
import SugarModel.Lemmas.Kv
import SugarModel.Lemmas.ReadOnly
import SugarModel.Lemmas.RespWF
namespace Sugar

/-! ### SetValues -/

/-- SetValues of one entry never fails without a memory limit: the continuation runs in the written state -/
theorem run_setOrErr_single (c : Ctx) (s : State) (k : Bytes) (v : Val) (p : Prog Res) (hm : c.cfg.maxMemory = 0) :
    (setOrErr [(k, v)] p).run c s = p.run c (setValues c s [(k, v)]).1 := by
  have h := (setValues_single c s k v hm).1
  simp [setOrErr, h]

/-- overwrite of a stored key: new value, old deadline; other keys untouched -/
theorem setValues_over (c : Ctx) (s : State) (k : Bytes) (v v0 : Val) (ex : Option Int) (hm : c.cfg.maxMemory = 0)
    (h : s.lookup c.db k = some ⟨v0, ex⟩) :
    (setValues c s [(k, v)]).1.lookup c.db k = some ⟨v, ex⟩ := by
  rw [(setValues_single c s k v hm).2.1, h]; rfl

/-- write of an absent key: no deadline -/
theorem setValues_fresh (c : Ctx) (s : State) (k : Bytes) (v : Val) (hm : c.cfg.maxMemory = 0)
    (h : s.lookup c.db k = none) :
    (setValues c s [(k, v)]).1.lookup c.db k = some ⟨v, none⟩ := by
  rw [(setValues_single c s k v hm).2.1, h]; rfl

theorem setValues_other (c : Ctx) (s : State) (k k2 : Bytes) (v : Val) (hm : c.cfg.maxMemory = 0) (hne : k ≠ k2) :
    (setValues c s [(k, v)]).1.lookup c.db k2 = s.lookup c.db k2 :=
  (setValues_single c s k v hm).2.2 k2 hne

/-- the map literal `{k1: v1, k2: v2}` with distinct keys: both are written, deadlines kept -/
theorem setValues_pair (c : Ctx) (s : State) (k1 k2 : Bytes) (v1 v2 : Val) (hm : c.cfg.maxMemory = 0) (hne : k1 ≠ k2) :
    (setValues c s [(k1, v1), (k2, v2)]).2 = true ∧
    (setValues c s [(k1, v1), (k2, v2)]).1.lookup c.db k1 = some ⟨v1, ((s.lookup c.db k1).bind (·.exp))⟩ ∧
    (setValues c s [(k1, v1), (k2, v2)]).1.lookup c.db k2 = some ⟨v2, ((s.lookup c.db k2).bind (·.exp))⟩ ∧
    ∀ k3, k1 ≠ k3 → k2 ≠ k3 → (setValues c s [(k1, v1), (k2, v2)]).1.lookup c.db k3 = s.lookup c.db k3 := by
  unfold setValues
  simp only [isMaxMemoryExceeded, hm, bne_self_eq_false, Bool.false_and, Bool.false_eq_true, if_false]
  have hd : dedupLast [(k1, v1), (k2, v2)] = [(k1, v1), (k2, v2)] := by
    simp [dedupLast, List.foldl, KMap.put, hne]
  rw [hd]
  refine ⟨trivial, ?_, ?_, ?_⟩
  · simp only [List.foldl]
    rw [lookup_setOne_other _ _ _ _ _ (Ne.symm hne), lookup_setOne_same, lookup_createDb]
  · simp only [List.foldl]
    rw [lookup_setOne_same, lookup_setOne_other _ _ _ _ _ hne, lookup_createDb]
  · intro k3 h1 h2
    simp only [List.foldl]
    rw [lookup_setOne_other _ _ _ _ _ h2, lookup_setOne_other _ _ _ _ _ h1, lookup_createDb]

/-- the map literal `{k: v1, k: v2}` keeps the second value -/
theorem setValues_pair_same (c : Ctx) (s : State) (k : Bytes) (v1 v2 : Val) :
    setValues c s [(k, v1), (k, v2)] = setValues c s [(k, v2)] := by
  unfold setValues
  have hd : dedupLast [(k, v1), (k, v2)] = dedupLast [(k, v2)] := by
    simp [dedupLast, List.foldl, KMap.put]
  rw [hd]

/-! ### value reads -/

/-- getValues on two stored, unexpired keys serves both values and changes nothing -/
theorem getValues_live2 (c : Ctx) (s : State) (k1 k2 : Bytes) (e1 e2 : Entry)
    (h1 : s.lookup c.db k1 = some e1) (l1 : e1.expired c.now = false)
    (h2 : s.lookup c.db k2 = some e2) (l2 : e2.expired c.now = false) :
    getValues c s [k1, k2] = (s, [e1.val, e2.val]) := by
  simp [getValues, h1, h2, l1, l2]

theorem getValues_live_absent (c : Ctx) (s : State) (k1 k2 : Bytes) (e1 : Entry)
    (h1 : s.lookup c.db k1 = some e1) (l1 : e1.expired c.now = false)
    (h2 : s.lookup c.db k2 = none) :
    getValues c s [k1, k2] = (s, [e1.val, .nil]) := by
  simp [getValues, h1, h2, l1]

theorem keysExist_pair (s : State) (i : Nat) (k1 k2 : Bytes) :
    keysExist s i [k1, k2] = [(s.lookup i k1).isSome, (s.lookup i k2).isSome] := by
  simp [keysExist]

/-- the deadline alone decides expiry -/
theorem expired_of_exp (v v' : Val) (ex : Option Int) (now : Int) :
    (⟨v, ex⟩ : Entry).expired now = (⟨v', ex⟩ : Entry).expired now := rfl

theorem not_expired_no_deadline (v : Val) (now : Int) : (⟨v, none⟩ : Entry).expired now = false := rfl

/-! ### in-place mutation through the stored pointer -/

@[simp] theorem run_mutObj {α : Type} (c : Ctx) (s : State) (key : Bytes) (v : Val) (k : (Prim.mutObj key v).Res → Prog α) :
    (Prog.call (.mutObj key v) k).run c s = (k ()).run c (mutObj s c.db key v) := rfl

theorem KMap.get_map_key {α : Type} (m : KMap α) (f : Bytes × α → Bytes × α) (hf : ∀ p, (f p).1 = p.1) (k : Bytes) :
    KMap.get (m.map f) k = (KMap.get m k).map fun e => (f (k, e)).2 := by
  induction m with
  | nil => rfl
  | cons p r ih =>
    obtain ⟨k', v'⟩ := p
    have h1 := hf (k', v')
    simp only [List.map_cons]
    by_cases h : k' = k
    · subst h
      have : f (k', v') = (k', (f (k', v')).2) := Prod.ext h1 rfl
      rw [this]; simp [KMap.get]
    · have : f (k', v') = (k', (f (k', v')).2) := Prod.ext h1 rfl
      rw [this]; simp [KMap.get, h, ih]

/-- mutating an unshared set object (oid 0) held at `k`: `k` now holds the new members under its old
    deadline; every other key of the database is untouched -/
theorem lookup_mutObj_same (s : State) (i : Nat) (k : Bytes) (ms ms' : List Bytes) (ex : Option Int)
    (h : s.lookup i k = some ⟨.set 0 ms, ex⟩) :
    (mutObj s i k (.set 0 ms')).lookup i k = some ⟨.set 0 ms', ex⟩ := by
  unfold mutObj
  simp only [h]
  unfold State.lookup State.db at *
  simp only [NMap.get_put_same, Option.getD_some]
  rw [KMap.get_map_key _ _ (by intro p; obtain ⟨a, e⟩ := p; dsimp only; split <;> rfl)]
  rw [h]
  simp [Val.oid, Val.withOid]

theorem lookup_mutObj_other (s : State) (i : Nat) (k k2 : Bytes) (ms ms' : List Bytes) (ex : Option Int)
    (h : s.lookup i k = some ⟨.set 0 ms, ex⟩) (hne : k ≠ k2) :
    (mutObj s i k (.set 0 ms')).lookup i k2 = s.lookup i k2 := by
  unfold mutObj
  simp only [h]
  unfold State.lookup State.db at *
  simp only [NMap.get_put_same, Option.getD_some]
  rw [KMap.get_map_key _ _ (by intro p; obtain ⟨a, e⟩ := p; dsimp only; split <;> rfl)]
  cases hk : KMap.get ((NMap.get s.dbs i).getD ⟨[], []⟩).store k2 with
  | none => rfl
  | some e => simp [Val.oid, Ne.symm hne]

/-! ### integer arguments -/

/-- the decimal text of a 64-bit integer parses back to it -/
theorem parseInt64_fmtInt (i : Int) (h1 : minInt64 ≤ i) (h2 : i ≤ maxInt64) : parseInt64 (fmtInt i) = some i := by
  cases i with
  | ofNat n =>
    have hd := allDigits_natDigits n
    have hv := digitsVal_natDigits n
    cases hn : natDigits n with
    | nil => rw [hn] at hd; simp [allDigits] at hd
    | cons d r =>
      have hc : isDigit d = true := by rw [hn] at hd; simp [allDigits] at hd; exact hd.1
      have h43 : d ≠ 43 := by intro h; subst h; simp [isDigit] at hc
      have h45 : d ≠ 45 := by intro h; subst h; simp [isDigit] at hc
      rw [hn] at hd hv
      have hr : (minInt64 ≤ (n : Int) ∧ (n : Int) ≤ maxInt64) := ⟨h1, h2⟩
      unfold parseInt64 fmtInt
      simp only [hn]
      split
      · rename_i heq; simp at heq; exact absurd heq.1 h43
      · rename_i heq; simp at heq; exact absurd heq.1 h45
      · rename_i heq
        simp only [hd, if_true, hv]
        simp [hr]
  | negSucc n =>
    have hd := allDigits_natDigits (n + 1)
    have hv := digitsVal_natDigits (n + 1)
    have e : (-((n + 1 : Nat) : Int)) = Int.negSucc n := rfl
    have hr : (minInt64 ≤ -((n + 1 : Nat) : Int) ∧ -((n + 1 : Nat) : Int) ≤ maxInt64) := by rw [e]; exact ⟨h1, h2⟩
    unfold parseInt64 fmtInt
    simp only [hd, if_true, hv]
    simp only [Bool.and_eq_true, decide_eq_true_eq, hr, and_self, if_true]
    exact congrArg some e

end Sugar
