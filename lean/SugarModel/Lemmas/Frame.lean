/-
  Lemmas.Frame — every keyspace primitive except the all-databases flush touches only the selected
  database; lifted to step programs by structural induction.
-/
import SugarModel.Model.Dispatch
namespace Sugar

/-- the program never issues `Flush(-1)` -/
def Prog.NoFlushAll {α : Type} : Prog α → Prop
  | .ret _ => True
  | .panic _ => True
  | .unmod _ => True
  | .call p k => p ≠ .flush true ∧ ∀ r, (k r).NoFlushAll

theorem createDb_frame (s : State) (i j : Nat) (h : j ≠ i) : (s.createDb i).dbs.get j = s.dbs.get j := by
  unfold State.createDb
  split
  · rfl
  · simp [NMap.get_put_other _ _ _ _ (Ne.symm h)]

theorem deleteKey_frame (s : State) (i j : Nat) (k : Bytes) (h : j ≠ i) :
    (deleteKey s i k).dbs.get j = s.dbs.get j := by
  unfold deleteKey
  simp only
  split
  · simp [NMap.get_put_other _ _ _ _ (Ne.symm h)]
  · rfl

theorem getValues_frame (c : Ctx) (ks : List Bytes) : ∀ (s : State) (j : Nat), j ≠ c.db →
    (getValues c s ks).1.dbs.get j = s.dbs.get j := by
  induction ks with
  | nil => intro s j _; simp [getValues]
  | cons k r ih =>
    intro s j h
    unfold getValues
    split
    · simp [ih s j h]
    · split
      · simp [ih _ j h, deleteKey_frame s c.db j k h]
      · simp [ih s j h]

theorem setOne_frame (i j : Nat) (h : j ≠ i) (s : State) (kv : Bytes × Val) :
    (setOne i s kv).dbs.get j = s.dbs.get j := by
  simp [setOne, NMap.get_put_other _ _ _ _ (Ne.symm h)]

theorem setValues_fold_frame (i j : Nat) (h : j ≠ i) (es : List (Bytes × Val)) :
    ∀ s : State, (es.foldl (setOne i) s).dbs.get j = s.dbs.get j := by
  induction es with
  | nil => intro s; rfl
  | cons x r ih => intro s; simp only [List.foldl]; rw [ih, setOne_frame i j h]

theorem setValues_frame (c : Ctx) (s : State) (es : List (Bytes × Val)) (j : Nat) (h : j ≠ c.db) :
    (setValues c s es).1.dbs.get j = s.dbs.get j := by
  unfold setValues
  split
  · rfl
  · simp only; rw [setValues_fold_frame c.db j h, createDb_frame s c.db j h]

theorem setExpiry_frame (c : Ctx) (s s' : State) (k : Bytes) (e : Option Int) (j : Nat) (h : j ≠ c.db)
    (hs : setExpiry c s k e = some s') : s'.dbs.get j = s.dbs.get j := by
  unfold setExpiry at hs
  split at hs
  · simp at hs
  · simp at hs; rw [← hs]; simp [NMap.get_put_other _ _ _ _ (Ne.symm h)]

theorem flushDb_frame (s s' : State) (i j : Nat) (h : j ≠ i) (hs : flushDb s i = some s') :
    s'.dbs.get j = s.dbs.get j := by
  unfold flushDb at hs
  split at hs
  · simp at hs; rw [← hs]
  · simp at hs; rw [← hs]; simp [NMap.get_put_other _ _ _ _ (Ne.symm h)]

theorem mutObj_frame (s : State) (i j : Nat) (k : Bytes) (v : Val) (h : j ≠ i) :
    (mutObj s i k v).dbs.get j = s.dbs.get j := by
  unfold mutObj
  split
  · rfl
  · simp [NMap.get_put_other _ _ _ _ (Ne.symm h)]

theorem tagOid_frame (s : State) (i j : Nat) (k : Bytes) (o : Nat) (h : j ≠ i) :
    (tagOid s i k o).dbs.get j = s.dbs.get j := by
  unfold tagOid
  split
  · rfl
  · simp [NMap.get_put_other _ _ _ _ (Ne.symm h)]

theorem db_of_get_eq (s s' : State) (j : Nat) (h : s'.dbs.get j = s.dbs.get j) : s'.db j = s.db j := by
  unfold State.db; rw [h]

/-- creating a database is invisible through `State.db` (an absent database reads as empty) -/
theorem createDb_db_all (s : State) (i j : Nat) : (s.createDb i).db j = s.db j := by
  by_cases h : j = i
  · subst h
    unfold State.createDb State.db
    split
    · rfl
    · rename_i hh
      simp only [State.hasDb, Option.isSome_iff_ne_none, ne_eq, Decidable.not_not] at hh
      simp [hh]
  · exact db_of_get_eq _ _ _ (createDb_frame s i j h)

theorem setConnDb_db (c : Ctx) (s : State) (d j : Nat) : (setConnDb c s d).db j = s.db j := by
  unfold setConnDb
  simp only
  exact createDb_db_all s d j

theorem swapDbs_db (s : State) (d1 d2 j : Nat) : (swapDbs s d1 d2).db j = s.db j := by
  unfold swapDbs
  split
  · rfl
  · simp only
    show ((s.createDb d1).createDb d2).db j = s.db j
    rw [createDb_db_all, createDb_db_all]

/-- one primitive other than the all-databases flush leaves the other databases alone -/
theorem prim_frame (c : Ctx) (s : State) (p : Prim) (s' : State) (r : p.Res) (j : Nat)
    (hj : j ≠ c.db) (hp : p ≠ .flush true) (h : p.exec c s = some (s', r)) :
    s'.db j = s.db j := by
  cases p with
  | keysExist ks =>
    simp only [Prim.exec] at h
    rw [show s' = s from by rw [← (Prod.mk.inj (Option.some.inj h)).1]]
  | getExpiry k =>
    simp only [Prim.exec] at h
    rw [show s' = s from by rw [← (Prod.mk.inj (Option.some.inj h)).1]]
  | getValues ks =>
    simp only [Prim.exec] at h
    rw [show s' = (getValues c s ks).1 from by rw [Option.some.inj h]]
    exact db_of_get_eq _ _ _ (getValues_frame c ks s j hj)
  | setValues es =>
    simp only [Prim.exec] at h
    rw [show s' = (setValues c s es).1 from by rw [Option.some.inj h]]
    exact db_of_get_eq _ _ _ (setValues_frame c s es j hj)
  | setExpiry k e t =>
    simp only [Prim.exec, Option.map_eq_some_iff] at h
    obtain ⟨a, ha, hb⟩ := h
    rw [show s' = a from by rw [← (Prod.mk.inj hb).1]]
    exact db_of_get_eq _ _ _ (setExpiry_frame c s a k e j hj ha)
  | deleteKey k =>
    simp only [Prim.exec] at h
    rw [show s' = deleteKey s c.db k from by rw [← (Prod.mk.inj (Option.some.inj h)).1]]
    exact db_of_get_eq _ _ _ (deleteKey_frame s c.db j k hj)
  | mutObj k v =>
    simp only [Prim.exec] at h
    rw [show s' = mutObj s c.db k v from by rw [← (Prod.mk.inj (Option.some.inj h)).1]]
    exact db_of_get_eq _ _ _ (mutObj_frame s c.db j k v hj)
  | newOid =>
    simp only [Prim.exec] at h
    rw [show s' = s from by rw [← (Prod.mk.inj (Option.some.inj h)).1]]
  | tagOid k o =>
    simp only [Prim.exec] at h
    rw [show s' = tagOid s c.db k o from by rw [← (Prod.mk.inj (Option.some.inj h)).1]]
    exact db_of_get_eq _ _ _ (tagOid_frame s c.db j k o hj)
  | setConnDb d =>
    simp only [Prim.exec] at h
    rw [show s' = setConnDb c s d from by rw [← (Prod.mk.inj (Option.some.inj h)).1]]
    exact setConnDb_db c s d j
  | swapDbs d1 d2 =>
    simp only [Prim.exec] at h
    rw [show s' = swapDbs s d1 d2 from by rw [← (Prod.mk.inj (Option.some.inj h)).1]]
    exact swapDbs_db s d1 d2 j
  | flush all =>
    cases all with
    | true => exact absurd rfl hp
    | false =>
      simp only [Prim.exec, Option.map_eq_some_iff] at h
      obtain ⟨a, ha, hb⟩ := h
      rw [show s' = a from by rw [← (Prod.mk.inj hb).1]]
      exact db_of_get_eq _ _ _ (flushDb_frame s a c.db j hj ha)

theorem frame_run {α : Type} (p : Prog α) : ∀ (c : Ctx) (s : State) (j : Nat),
    j ≠ c.db → p.NoFlushAll → (p.run c s).1.db j = s.db j := by
  induction p with
  | ret a => intro c s j _ _; rfl
  | panic w => intro c s j _ _; rfl
  | unmod w => intro c s j _ _; rfl
  | call p k ih =>
    intro c s j hj hp
    obtain ⟨hp1, hp2⟩ := hp
    simp only [Prog.run]
    cases hx : p.exec c s with
    | none => rfl
    | some sr =>
      obtain ⟨s', r⟩ := sr
      simp only
      rw [ih r c s' j hj (hp2 r)]
      exact prim_frame c s p s' r j hj hp1 hx

end Sugar
