/-
  Lemmas.PubSubTable — what SUBSCRIBE / UNSUBSCRIBE do to the table: confirmations, membership after subscribing,
  kind of the entry joined, membership after unsubscribing.
-/
import SugarModel.Lemmas.PubSubInv
namespace Sugar.PubSub
open Sugar

/-- `conn` is a subscriber of an entry called `n` -/
def Listed (conn : Nat) (t : Table) (n : Bytes) : Prop := ∃ c ∈ t, c.name = n ∧ conn ∈ c.subs

theorem subscribeLoop_confirms (conn : Nat) (wp : Bool) (names : List Bytes) :
    ∀ (i : Nat) (t : Table) (ps : List Push),
      (subscribeLoop conn wp names i t ps).2 =
        ps ++ (names.zipIdx i).map fun x => Push.confirm conn (action wp false) x.1 (x.2 + 1) := by
  induction names with
  | nil => intro i t ps; simp [subscribeLoop]
  | cons n r ih =>
    intro i t ps
    unfold subscribeLoop
    split
    · rw [ih]
      simp [List.zipIdx_cons]
    · rw [ih]
      simp [List.zipIdx_cons]

theorem subFirst_listed_self (conn : Nat) (n : Bytes) (t : Table) (h : hasName t n = true) : Listed conn (subFirst conn n t) n := by
  induction t with
  | nil => simp [hasName] at h
  | cons c r ih =>
    unfold subFirst
    split
    · rename_i hc
      exact ⟨c.addSub conn, by simp, by rw [addSub_name]; simpa using hc, mem_addSub c conn⟩
    · rename_i hc
      have hr : hasName r n = true := by
        unfold hasName at h ⊢
        simp only [List.any_cons, Bool.or_eq_true] at h
        rcases h with h | h
        · exact absurd h hc
        · exact h
      obtain ⟨x, hx, hxn, hxs⟩ := ih hr
      exact ⟨x, by simp [hx], hxn, hxs⟩

theorem subFirst_mono (conn s : Nat) (n m : Bytes) (t : Table) (h : Listed s t m) : Listed s (subFirst conn n t) m := by
  induction t with
  | nil => exact h
  | cons c r ih =>
    obtain ⟨x, hx, hxn, hxs⟩ := h
    unfold subFirst
    simp at hx
    split
    · rcases hx with rfl | hx
      · exact ⟨x.addSub conn, by simp, by rw [addSub_name]; exact hxn, mem_addSub_of_mem x conn s hxs⟩
      · exact ⟨x, by simp [hx], hxn, hxs⟩
    · rcases hx with rfl | hx
      · exact ⟨x, by simp, hxn, hxs⟩
      · obtain ⟨y, hy, hyn, hys⟩ := ih ⟨x, hx, hxn, hxs⟩
        exact ⟨y, by simp [hy], hyn, hys⟩

theorem subscribeLoop_mono (conn s : Nat) (wp : Bool) (m : Bytes) (names : List Bytes) :
    ∀ (i : Nat) (t : Table) (ps : List Push), Listed s t m → Listed s (subscribeLoop conn wp names i t ps).1 m := by
  induction names with
  | nil => intro i t ps h; exact h
  | cons n r ih =>
    intro i t ps h
    unfold subscribeLoop
    split
    · exact ih _ _ _ (subFirst_mono conn s n m t h)
    · apply ih
      obtain ⟨x, hx, hxn, hxs⟩ := h
      exact ⟨x, by simp [hx], hxn, hxs⟩

theorem subscribeLoop_listed (conn : Nat) (wp : Bool) (names : List Bytes) :
    ∀ (i : Nat) (t : Table) (ps : List Push),
      ∀ n ∈ names, Listed conn (subscribeLoop conn wp names i t ps).1 n := by
  induction names with
  | nil => intro i t ps n hn; simp at hn
  | cons a r ih =>
    intro i t ps n hn
    unfold subscribeLoop
    split
    · rename_i ha
      simp at hn
      rcases hn with rfl | hn
      · exact subscribeLoop_mono conn conn wp n r _ _ _ (subFirst_listed_self conn n t ha)
      · exact ih _ _ _ n hn
    · simp at hn
      rcases hn with rfl | hn
      · apply subscribeLoop_mono
        exact ⟨{ name := n, pat := wp, subs := [conn] }, by simp, rfl, by simp⟩
      · exact ih _ _ _ n hn

/-- the command was not refused: its table and confirmations are those of the loop -/
theorem subscribe_accepted (conn : Nat) (wp : Bool) (names : List Bytes) (t : Table)
    (h : (subscribe conn wp names t).2.2 = false) :
    (subscribe conn wp names t).1 = (subscribeLoop conn wp names 0 t []).1 ∧
    (subscribe conn wp names t).2.1 = (subscribeLoop conn wp names 0 t []).2 := by
  unfold subscribe at h ⊢
  split
  · rename_i hr
    simp [hr] at h
  · exact ⟨rfl, rfl⟩

/-- PSUBSCRIBE is refused exactly when one of its arguments does not compile; SUBSCRIBE never is -/
theorem subscribe_refused_iff (conn : Nat) (wp : Bool) (names : List Bytes) (t : Table) :
    (subscribe conn wp names t).2.2 = (wp && names.any fun n => !compiles n) := by
  unfold subscribe
  split
  · rename_i hr; simp [hr]
  · rename_i hr; simp only [Bool.not_eq_true] at hr; simp [hr]

/-- a refused PSUBSCRIBE subscribes nothing and confirms nothing -/
theorem subscribe_refused_nochange (conn : Nat) (wp : Bool) (names : List Bytes) (t : Table)
    (h : (subscribe conn wp names t).2.2 = true) :
    (subscribe conn wp names t).1 = t ∧ (subscribe conn wp names t).2.1 = [] := by
  unfold subscribe at h ⊢
  split
  · exact ⟨rfl, rfl⟩
  · rename_i hr
    simp [hr] at h

/-- name and kind of every entry -/
def kinds (t : Table) : List (Bytes × Bool) := t.map fun c => (c.name, c.pat)

theorem subFirst_kinds (conn : Nat) (n : Bytes) (t : Table) : kinds (subFirst conn n t) = kinds t := by
  unfold kinds
  induction t with
  | nil => rfl
  | cons c r ih =>
    unfold subFirst
    split
    · simp [addSub_name, addSub_pat]
    · simp [ih]

/-- no entry of the other kind carries one of the names: then every entry carrying one of the names afterwards has
    the kind of the command -/
theorem subscribeLoop_kind (conn : Nat) (wp : Bool) (all : List Bytes) (names : List Bytes) :
    ∀ (i : Nat) (t : Table) (ps : List Push), (∀ x ∈ kinds t, x.1 ∈ all → x.2 = wp) →
      ∀ x ∈ kinds (subscribeLoop conn wp names i t ps).1, x.1 ∈ all → x.2 = wp := by
  induction names with
  | nil => intro i t ps h; exact h
  | cons n r ih =>
    intro i t ps h
    unfold subscribeLoop
    split
    · apply ih
      rw [subFirst_kinds]; exact h
    · apply ih
      intro x hx hxa
      unfold kinds at hx
      simp only [List.map_append, List.map_cons, List.map_nil, List.mem_append, List.mem_singleton] at hx
      rcases hx with hx | rfl
      · exact h x hx hxa
      · rfl

theorem unsubWhere_mem (conn : Nat) (sel : Chan → Bool) (t : Table) :
    ∀ c' ∈ (unsubWhere conn sel t).1, ∃ c ∈ t, c'.name = c.name ∧ c'.pat = c.pat ∧
      ((c' = c ∧ ¬ (sel c = true ∧ conn ∈ c.subs)) ∨ (c'.subs = c.subs.erase conn ∧ sel c = true)) := by
  induction t with
  | nil => intro c' h; simp [unsubWhere] at h
  | cons c r ih =>
    intro c' h
    unfold unsubWhere at h
    simp only at h
    split at h
    · rename_i hc
      simp at h
      rcases h with rfl | h
      · exact ⟨c, by simp, rfl, rfl, Or.inr ⟨rfl, by simp at hc; exact hc.1⟩⟩
      · obtain ⟨x, hx, h1, h2, h3⟩ := ih c' h
        exact ⟨x, by simp [hx], h1, h2, h3⟩
    · rename_i hc
      simp at h
      rcases h with rfl | h
      · refine ⟨c', by simp, rfl, rfl, Or.inl ⟨rfl, ?_⟩⟩
        intro ⟨h1, h2⟩
        exact hc (by simp [h1, h2])
      · obtain ⟨x, hx, h1, h2, h3⟩ := ih c' h
        exact ⟨x, by simp [hx], h1, h2, h3⟩

/-- after a sweep, `conn` is in no entry the (name/kind-only) selector picks -/
theorem unsubWhere_removed (conn : Nat) (sel : Chan → Bool) (t : Table) (hn : SubsNodup t) :
    ∀ c' ∈ (unsubWhere conn sel t).1, sel c' = true → conn ∉ c'.subs := by
  intro c' hc' hs
  obtain ⟨c, hc, h1, h2, h3⟩ := unsubWhere_mem conn sel t c' hc'
  rcases h3 with ⟨rfl, h3⟩ | ⟨h3, _⟩
  · intro hm; exact h3 ⟨hs, hm⟩
  · rw [h3]; exact (hn c hc).not_mem_erase

/-- a sweep never adds a subscriber -/
theorem unsubWhere_keeps_absent (conn s : Nat) (sel : Chan → Bool) (P : Chan → Prop) (t : Table)
    (hP : ∀ c c' : Chan, c'.name = c.name → c'.pat = c.pat → (P c' ↔ P c))
    (h : ∀ c ∈ t, P c → s ∉ c.subs) : ∀ c' ∈ (unsubWhere conn sel t).1, P c' → s ∉ c'.subs := by
  intro c' hc' hp
  obtain ⟨c, hc, h1, h2, h3⟩ := unsubWhere_mem conn sel t c' hc'
  have := h c hc ((hP c c' h1 h2).1 hp)
  rcases h3 with ⟨rfl, _⟩ | ⟨h3, _⟩
  · exact this
  · rw [h3]; intro hm; exact this (List.mem_of_mem_erase hm)

theorem unsubGlobs_keeps_absent (conn s : Nat) (P : Chan → Prop) (ps : List Bytes)
    (hP : ∀ c c' : Chan, c'.name = c.name → c'.pat = c.pat → (P c' ↔ P c)) :
    ∀ (t : Table) (acc : List Bytes), (∀ c ∈ t, P c → s ∉ c.subs) → ∀ c' ∈ (unsubGlobs conn ps t acc).1, P c' → s ∉ c'.subs := by
  induction ps with
  | nil => intro t acc h; exact h
  | cons p r ih =>
    intro t acc h
    unfold unsubGlobs
    split
    · exact ih _ _ h
    · exact ih _ _ (unsubWhere_keeps_absent conn s _ P t hP h)

/-- UNSUBSCRIBE / PUNSUBSCRIBE: afterwards the connection is in no entry called like one of the arguments -/
theorem unsubscribe_removed (conn : Nat) (wp : Bool) (names : List Bytes) (t : Table) (hinv : Inv t) :
    ∀ c' ∈ (unsubscribe conn wp names t).1, c'.name ∈ names → conn ∉ c'.subs := by
  unfold unsubscribe
  have h1 : Inv (if names.isEmpty then unsubWhere conn (fun c => c.pat == wp) t else (t, [])).1 := by
    split
    · exact unsubWhere_inv conn _ t hinv
    · exact hinv
  have h2 : ∀ c' ∈ (unsubWhere conn (fun c => names.contains c.name) (if names.isEmpty then unsubWhere conn (fun c => c.pat == wp) t else (t, [])).1).1,
      c'.name ∈ names → conn ∉ c'.subs := by
    intro c' hc' hn
    exact unsubWhere_removed conn _ _ h1.2 c' hc' (by simpa using hn)
  simp only
  split
  · exact unsubGlobs_keeps_absent conn conn (fun c => c.name ∈ names) names (fun c c' e _ => by simp [e]) _ [] h2
  · exact h2

end Sugar.PubSub
