/-
  Lemmas.WFList — reply well-formedness of the list handlers (all full).
-/
import SugarModel.Lemmas.WFCore
namespace Sugar

theorem wf_bulkArrDef (xs : List Bytes) : WF (bulkArr xs) := wf_bulkArr xs

theorem lrangePure_wf (l : List Bytes) (s e : Int) (r : Res) (h : lrangePure l s e = .done r) : Res.WFok r := by
  unfold lrangePure at h
  extract_lets len st0 st e1 e2 at h
  split at h
  · injection h with h; subst h; exact wf_emptyArr
  · split at h
    · cases h
    · rename_i h1 h2
      injection h with h; subst h
      have hlen : ((l.drop st.toNat).take (e2 - st + 1).toNat).length = (e2 - st + 1).toNat := by
        simp only [List.length_take, List.length_drop]
        simp only [Bool.or_eq_true, decide_eq_true_eq, not_or, Int.not_lt, ge_iff_le, gt_iff_lt] at h1 h2
        have hl : len = (l.length : Int) := rfl
        omega
      show WF _
      rw [← hlen]
      exact wf_bulkArr _

theorem handleLLen_wf (c : Ctx) (cmd : List Bytes) : (handleLLen c cmd).AllRet Res.WFok := by
  apply allRet_full; unfold handleLLen; wf
theorem handleLIndex_wf (c : Ctx) (cmd : List Bytes) : (handleLIndex c cmd).AllRet Res.WFok := by
  apply allRet_full; unfold handleLIndex; wf
theorem handleLRange_wf (c : Ctx) (cmd : List Bytes) : (handleLRange c cmd).AllRet Res.WFok := by
  apply allRet_full; unfold handleLRange; wf
  all_goals exact ofOutcome_rx _ _ (fun a h => Or.inl (lrangePure_wf _ _ _ a h))
theorem handleLSet_wf (c : Ctx) (cmd : List Bytes) : (handleLSet c cmd).AllRet Res.WFok := by
  apply allRet_full; unfold handleLSet; wf
theorem handleLTrim_wf (c : Ctx) (cmd : List Bytes) : (handleLTrim c cmd).AllRet Res.WFok := by
  apply allRet_full; unfold handleLTrim; wf
theorem handleLRem_wf (c : Ctx) (cmd : List Bytes) : (handleLRem c cmd).AllRet Res.WFok := by
  apply allRet_full; unfold handleLRem; wf
theorem handleLMove_wf (c : Ctx) (cmd : List Bytes) : (handleLMove c cmd).AllRet Res.WFok := by
  apply allRet_full; unfold handleLMove; wf
theorem handlePush_wf (l : Bool) (c : Ctx) (cmd : List Bytes) : (handlePush l c cmd).AllRet Res.WFok := by
  apply allRet_full; unfold handlePush; wf
theorem handlePop_wf (c : Ctx) (cmd : List Bytes) : (handlePop c cmd).AllRet Res.WFok := by
  apply allRet_full; unfold handlePop; wf

end Sugar
